(* C03: the block hooks cannot panic.  For every panic site of the hooks (queue entry without
   record, missing payout / allocation, refused escrow transfer, blocked recipient, negative coin,
   256-bit / 315-bit overflow, unknown status) the invariants exclude it. *)
From Hub Require Import Base.Prelude Base.Arith Model.Types Model.Keeper Model.Handlers Model.Hooks Model.Step.
From Hub Require Import Proofs.Tactics Proofs.Sorting Proofs.Frames Proofs.Money Proofs.KeysInv Proofs.ArithThm Proofs.Quota Proofs.Pricing
  Proofs.IndexSess Proofs.IndexNode Proofs.InvDefs Proofs.IndexSub Proofs.Listing Proofs.IndexSub2 Proofs.IndexPlan Proofs.IndexAll Proofs.Link
  Proofs.Ledger1 Proofs.Ledger2 Proofs.Ledger3 Proofs.LedgerClosed Proofs.RangeDefs.

(** * arithmetic below the supply bound never trips a check *)

Lemma BIG_facts : 0 < BIG /\ BIG * P18 < MAXDEC1 /\ BIG < MAXINT /\ MAXDEC1 < MAXDEC /\ 0 < P18 /\ 0 < GB /\ P18 = GB * GB.
Proof. repeat split; vm_compute; reflexivity. Qed.

Lemma proportion_total a s :
  0 <= a < BIG -> 0 <= s <= P18 -> exists r, proportion a s = Ok r /\ 0 <= r <= a.
Proof.
  intros Ha Hs. destruct BIG_facts as (B0 & B1 & B2 & B3 & B4 & B5 & B6). pose proof HALF18_P18.
  unfold proportion, dec_of_int, dec_mul.
  replace (a * P18 * s) with ((a * s) * P18) by ring.
  assert (0 <= a * s) by nia.
  rewrite chop_round_exact by lia.
  assert (a * s <= BIG * P18) by nia.
  destruct (Z.abs (a * s) <? MAXDEC) eqn:E; [|lia].
  cbn [rbind]. unfold dec_round_int.
  rewrite chop_round_nonneg by lia.
  pose proof (chop_round_pos_bounds (a * s) ltac:(lia)) as [Hr0 Hr]. cbv zeta in *.
  set (r := chop_round_pos (a * s)) in *.
  assert (r <= a) by nia.
  unfold chk, fits. destruct (Z.abs r <? MAXINT) eqn:E2; [|lia].
  cbn [rbind]. destruct (r <? 0) eqn:E3; [lia|].
  exists r. split; [reflexivity|lia].
Qed.

Lemma afb_total p b : 0 <= p -> 0 <= b -> p * b < BIG * GB -> amount_for_bytes p b = Ok (afb p b).
Proof.
  intros Hp Hb Hlim. destruct BIG_facts as (B0 & B1 & B2 & B3 & B4 & B5 & B6).
  apply afb_exact_gen; [exact Hp|exact Hb|]. rewrite B6 in B1. nia.
Qed.

Lemma int_sub_total a b : 0 <= a < MAXINT -> 0 <= b < MAXINT -> int_sub a b = Ok (a - b).
Proof. intros Ha Hb. unfold int_sub, chk, fits. destruct (Z.abs (a - b) <? MAXINT) eqn:E; [reflexivity|lia]. Qed.
Lemma int_add_total a b : 0 <= a -> 0 <= b -> a + b < MAXINT -> int_add a b = Ok (a + b).
Proof. intros Ha Hb Hs. unfold int_add, chk, fits. destruct (Z.abs (a + b) <? MAXINT) eqn:E; [reflexivity|lia]. Qed.
Lemma int_mul_total a b : 0 <= a -> 0 <= b -> a * b < MAXINT -> int_mul a b = Ok (a * b).
Proof. intros Ha Hb Hs. unfold int_mul, chk, fits. assert (0 <= a * b) by nia. destruct (Z.abs (a * b) <? MAXINT) eqn:E; [reflexivity|lia]. Qed.
Lemma new_coin_total d a : 0 <= a -> new_coin d a = Ok (d, a).
Proof. intros Ha. unfold new_coin. destruct (a <? 0) eqn:E; [lia|reflexivity]. Qed.
Lemma coin_sub_total d a r : 0 <= r <= a -> a < MAXINT -> coin_sub (d, a) r = Ok (d, a - r).
Proof. intros Hr Ha. unfold coin_sub. simpl. rewrite int_sub_total by lia. simpl. apply new_coin_total. lia. Qed.

(** * escrow transfers that the ledger covers cannot be refused *)

Definition recs_nonneg (s : state) : Prop := forall a d, 0 <= damt s a d.

Lemma ledger_recs_nonneg s : ledger_inv s -> recs_nonneg s.
Proof.
  intros [E N _ _] a d. unfold damt. rewrite E. unfold ledger_total. apply msum_nonneg. intros id sb Hsb. eapply N; eauto.
Qed.

Lemma escrow_covers s a d : escrow_ok s -> recs_nonneg s -> damt s a d <= bal s (c_deposit (cfg s)) d.
Proof.
  intros He Hn. rewrite (He d). unfold dep_total, damt, dep_of.
  destruct (deposits s !! a) as [c|] eqn:Ha; simpl.
  - apply (msum_ge_elem (fun c => amount_of c d) (deposits s) a c); [|exact Ha].
    intros k v Hk. specialize (Hn k d). unfold damt, dep_of in Hn. rewrite Hk in Hn. exact Hn.
  - rewrite amount_of_empty. apply msum_nonneg. intros k v Hk. specialize (Hn k d). unfold damt, dep_of in Hn. rewrite Hk in Hn. exact Hn.
Qed.

Lemma bank_send_total s f t d amt : 0 <= amt <= bal s f d -> exists s', bank_send s f t d amt = Ok s'.
Proof.
  intros Ha. unfold bank_send. destruct (amt <? 0) eqn:E1; [lia|]. destruct (amt =? 0); [eauto|].
  destruct (bal s f d <? amt) eqn:E2; [lia|eauto].
Qed.

Lemma z_dep_to_module_total s a m d amt :
  escrow_ok s -> recs_nonneg s -> 0 <= amt <= damt s a d -> exists s', z_dep_to_module s a m (d, amt) = Ok s'.
Proof.
  intros He Hn Ha. unfold z_dep_to_module. simpl. destruct (amt =? 0) eqn:E0; [eauto|]. apply Z.eqb_neq in E0.
  unfold dep_to_module. destruct (dep_remaining_ok s a d amt ltac:(lia)) as [c Hc]. rewrite Hc. simpl.
  pose proof (escrow_covers s a d He Hn) as Hcov.
  destruct (bank_send_total s (c_deposit (cfg s)) m d amt ltac:(lia)) as [s1 Hs1]. rewrite Hs1. simpl. eauto.
Qed.

Lemma z_dep_to_account_total s a t d amt :
  escrow_ok s -> recs_nonneg s -> t ∉ c_blocked (cfg s) -> 0 <= amt <= damt s a d -> exists s', z_dep_to_account s a t (d, amt) = Ok s'.
Proof.
  intros He Hn Hb Ha. unfold z_dep_to_account. simpl. destruct (amt =? 0) eqn:E0; [eauto|]. apply Z.eqb_neq in E0.
  unfold dep_to_account. destruct (dep_remaining_ok s a d amt ltac:(lia)) as [c Hc]. rewrite Hc. simpl.
  pose proof (escrow_covers s a d He Hn) as Hcov. unfold bank_send_to_account, is_blocked.
  rewrite bool_decide_eq_false_2 by exact Hb.
  destruct (bank_send_total s (c_deposit (cfg s)) t d amt ltac:(lia)) as [s1 Hs1]. rewrite Hs1. simpl. eauto.
Qed.

Lemma dep_to_account_total s a t d amt :
  escrow_ok s -> recs_nonneg s -> t ∉ c_blocked (cfg s) -> 0 < amt <= damt s a d -> exists s', dep_to_account s a t d amt = Ok s'.
Proof.
  intros He Hn Hb Ha. destruct (z_dep_to_account_total s a t d amt He Hn Hb ltac:(lia)) as [s' Hs'].
  unfold z_dep_to_account in Hs'. simpl in Hs'. destruct (amt =? 0) eqn:E0; [lia|]. eauto.
Qed.

(* a debit keeps the records non-negative and the escrow backed *)
Lemma debit_module_keeps s a m d amt s' :
  money_inv s -> recs_nonneg s -> amt <= damt s a d -> z_dep_to_module s a m (d, amt) = Ok s' -> m <> c_deposit (cfg s) ->
  money_inv s' /\ recs_nonneg s' /\ (forall x d', damt s' x d' = damt s x d' - dlt a d amt x d') /\ cfg s' = cfg s.
Proof.
  intros Hm Hn Ha H Hne. split; [eapply money_inv_z_dep_to_module; eauto|]. pose proof (z_dep_to_module_damt _ _ _ _ _ H) as Hd. simpl in Hd.
  split; [|split; [exact Hd|apply z_dep_to_module_keeps in H; keeps_solve]].
  intros x d'. rewrite Hd. unfold dlt. case_bool_decide as Hc; [destruct Hc as [-> ->]; lia|specialize (Hn x d'); lia].
Qed.

Lemma debit_account_keeps s a t d amt s' :
  money_inv s -> recs_nonneg s -> amt <= damt s a d -> z_dep_to_account s a t (d, amt) = Ok s' ->
  money_inv s' /\ recs_nonneg s' /\ (forall x d', damt s' x d' = damt s x d' - dlt a d amt x d') /\ cfg s' = cfg s.
Proof.
  intros Hm Hn Ha H. split; [eapply money_inv_z_dep_to_account; eauto|]. pose proof (z_dep_to_account_damt _ _ _ _ _ H) as Hd. simpl in Hd.
  split; [|split; [exact Hd|apply z_dep_to_account_keeps in H; keeps_solve]].
  intros x d'. rewrite Hd. unfold dlt. case_bool_decide as Hc; [destruct Hc as [-> ->]; lia|specialize (Hn x d'); lia].
Qed.

(** * the hourly payout cannot panic *)

Record hook_inv (s : state) : Prop := {
  hk_life : life_inv s; hk_quota : quota_inv s; hk_ledger : ledger_inv s; hk_money : money_inv s; hk_range : range_inv s }.

Lemma payout_step_total s e :
  hook_inv s -> e ∈ pay_q s -> exists s', payout_step s e = Ok s'.
Proof.
  intros [Hl Hq Hg Hm Hr] He. pose proof (lf_idx _ Hl) as Hall. pose proof (ai_sub _ Hall) as Hix. pose proof (ai_k _ Hall) as Hi.
  destruct e as [t id]. destruct (proj1 (ix_payq _ Hix t id) He) as (po & sb & Hpo & Hnx & Hh & Hsb & Hact).
  destruct (st_pay_sub _ Hix _ _ Hpo) as (_ & sb0 & g & h & dep & Hsb0 & Hkind & Hh0 & Haddr). rewrite Hsb in Hsb0. injection Hsb0 as <-.
  destruct (lg_price _ Hg _ _ _ _ _ _ _ Hsb Hkind Hh0 Hpo) as (Hprice & Hhours).
  pose proof (st_kind _ Hix _ _ Hsb) as Hk. rewrite Hkind in Hk. destruct Hk as [Hgh Hdep0].
  assert (Hhpos : 0 < h) by lia.
  destruct (rg_sub _ Hr _ _ Hsb) as (Hnb & Hrs). rewrite Hkind in Hrs. destruct Hrs as [Hbig Hnode].
  destruct (k_sub _ (ki_sub _ Hi) _ _ Hsb) as (Eid & _). destruct (k_po _ (ki_sub _ Hi) _ _ Hpo) as (Epid & _).
  set (price := Z.quot dep.2 h) in *.
  assert (Hp0 : 0 <= price) by (apply quot_nonneg; lia).
  assert (Hp1 : price * po_hours po <= dep.2) by (apply quot_mul_le; lia).
  assert (Hp2 : price <= price * po_hours po) by nia.
  destruct BIG_facts as (B0 & B1 & B2 & _).
  destruct (lf_par _ Hl) as [_ _ _ _ Hshare _].
  unfold payout_step. simpl. rewrite Hpo.
  set (s1 := s <| pay_q ::= fun q => q ∖ {[ (po_next_at po, po_id po) ]} |>).
  rewrite Hprice. simpl.
  destruct (proportion_total price (p_node_share (pars s)) ltac:(lia) Hshare) as (r & Hprop & Hr01).
  change (p_node_share (pars s1)) with (p_node_share (pars s)). rewrite Hprop. simpl.
  (* the ledger covers both debits *)
  assert (Hbound : price * po_hours po <= damt s (po_addr po) dep.1).
  { pose proof (ledger_bound s (po_addr po) dep.1 id sb Hg Hsb) as Hb.
    rewrite (unsettled_hourly s _ _ sb _ g h dep po Hkind Hh0) in Hb by (rewrite Eid; exact Hpo).
    rewrite bool_decide_eq_true_2 in Hb by (split; [symmetry; exact Haddr|reflexivity]). rewrite Hprice in Hb. exact Hb. }
  assert (Hm1 : money_inv s1) by (eapply (money_inv_keeps NONMONEY s); [unfold s1; keeps_solve|reflexivity..|exact Hm]).
  assert (Hn1 : recs_nonneg s1) by (intros a d; apply (ledger_recs_nonneg s Hg a d)).
  destruct (z_dep_to_module_total s1 (po_addr po) (c_feecoll (cfg s)) dep.1 r (mi_escrow _ Hm1) Hn1) as [s2 Hs2].
  { change (damt s1 (po_addr po) dep.1) with (damt s (po_addr po) dep.1). lia. }
  rewrite Hs2. simpl.
  rewrite (coin_sub_total dep.1 price r) by lia. simpl.
  assert (Hle1 : r <= damt s1 (po_addr po) dep.1) by (change (damt s1 (po_addr po) dep.1) with (damt s (po_addr po) dep.1); lia).
  destruct (debit_module_keeps s1 _ _ _ _ s2 Hm1 Hn1 Hle1 Hs2 (wf_fee_ne _ (mi_cfg _ Hm1))) as (Hm2 & Hn2 & Hd2 & Hc2).
  destruct (z_dep_to_account_total s2 (po_addr po) (po_node po) dep.1 (price - r) (mi_escrow _ Hm2) Hn2) as [s3 Hs3].
  { rewrite Hc2. exact Hnode. }
  { rewrite Hd2. unfold dlt. rewrite bool_decide_eq_true_2 by auto. change (damt s1 (po_addr po) dep.1) with (damt s (po_addr po) dep.1). lia. }
  rewrite Hs3. simpl. eauto.
Qed.

(** * the invariants carried through the hooks are preserved by each iteration *)

Section with_range.
  (* preservation of [range_inv] (Proofs/Range.v) enters as hypotheses, discharged in TotalClosed.v *)
  Hypothesis range_payout_step : forall s e s', kinv s -> range_inv s -> payout_step s e = Ok s' -> range_inv s'.
  Hypothesis range_session_expire_one : forall s e s', kinv s -> range_inv s -> session_expire_one s e = Ok s' -> range_inv s'.
  Hypothesis range_sub_expire_one : forall s e s', kinv s -> range_inv s -> sub_expire_one s e = Ok s' -> range_inv s'.
  Hypothesis range_node_end_block : forall s s', kinv s -> range_inv s -> node_end_block s = Ok s' -> range_inv s'.
  Hypothesis range_mint_begin_block : forall s s', range_inv s -> mint_begin_block s = Ok s' -> range_inv s'.

  Lemma rfold_total {A S} (P : list A -> S -> Prop) (f : S -> A -> res S) l : forall s,
    (forall x rest s, P (x :: rest) s -> exists s', f s x = Ok s' /\ P rest s') ->
    P l s -> exists s', rfold f l s = Ok s' /\ P [] s'.
  Proof.
    induction l as [|x l IH]; simpl; intros s Hf Hp.
    - eauto.
    - destruct (Hf x l s Hp) as (s1 & H1 & P1). rewrite H1. simpl. apply IH; assumption.
  Qed.

  Lemma all_idx_keeps T s s' :
    keeps T s s' -> touched GPv T = false -> touched GNode T = false -> touched GPl T = false ->
    touched GSub T = false -> touched GSess T = false -> all_idx s -> all_idx s'.
  Proof.
    intros Hk T1 T2 T3 T4 T5 [A B C D E]. split.
    - eapply kinv_other; eauto.
    - eapply idx_sess_keeps; eauto.
    - eapply idx_node_keeps; eauto.
    - eapply idx_sub_keeps; eauto.
    - eapply idx_plan_keeps; eauto.
  Qed.

  Lemma hook_inv_payout_step s e s' : hook_inv s -> e ∈ pay_q s -> payout_step s e = Ok s' -> hook_inv s'.
  Proof.
    intros [Hl Hq Hg Hm Hr] He H. pose proof (payout_step_keeps _ _ _ H) as Hk. destruct Hl as [[A B C D E] Hp Hlk].
    split; [split; [split|..]|..].
    - eapply kinv_payout_step_full; eauto.
    - eapply idx_sess_keeps; eauto.
    - eapply idx_node_keeps; eauto.
    - eapply idx_payout_step; eauto. apply A.
    - eapply idx_plan_keeps; eauto.
    - replace (pars s') with (pars s) by (symmetry; keeps_solve). exact Hp.
    - eapply link_payout_step; eauto.
    - exact (quota_payout_step s e s' Hq H).
    - exact (ledger_payout_step s e s' A D Hg He H).
    - exact (money_payout_step s e s' Hm H).
    - exact (range_payout_step s e s' A Hr H).
  Qed.

  Lemma hook_inv_session_expire_one s e s' : hook_inv s -> session_expire_one s e = Ok s' -> hook_inv s'.
  Proof.
    intros [Hl Hq Hg Hm Hr] H. pose proof (session_expire_one_keeps _ _ _ H) as Hk.
    pose proof (end_inv_session_expire_one _ _ _ (life_end_inv _ Hl) H) as [A' B' C' D' E'].
    destruct Hl as [[A B C D E] Hp Hlk].
    split; [split; [split|..]|..]; try assumption.
    - eapply idx_node_keeps; eauto.
    - eapply idx_plan_keeps; eauto.
    - exact (quota_session_expire_one s e s' A Hq H).
    - exact (ledger_session_expire_one s e s' A Hq D Hg H).
    - exact (money_session_expire_one s e s' Hm H).
    - exact (range_session_expire_one s e s' A Hr H).
  Qed.

  Lemma hook_inv_sub_expire_one s e s' :
    hook_inv s -> sess_fresh s -> e ∈ sub_q s -> e.1 <= now s -> sub_expire_one s e = Ok s' -> hook_inv s'.
  Proof.
    intros [Hl Hq Hg Hm Hr] Hf He Hdue H. pose proof (sub_expire_one_keeps _ _ _ H) as Hk.
    destruct Hl as [[A B C D E] Hp Hlk].
    split; [split; [split|..]|..].
    - eapply kinv_sub_expire_one; eauto.
    - eapply idx_sess_sub_expire_one; eauto.
    - eapply idx_node_keeps; eauto.
    - eapply idx_sub_expire_one; eauto.
    - eapply idx_plan_keeps; eauto.
    - replace (pars s') with (pars s) by (symmetry; keeps_solve). exact Hp.
    - eapply link_sub_expire_one; eauto.
    - exact (quota_sub_expire_one s e s' A Hq H).
    - exact (ledger_sub_expire_one s e s' A D Hg H).
    - exact (money_sub_expire_one s e s' Hm H).
    - exact (range_sub_expire_one s e s' A Hr H).
  Qed.

  (** * settlement cannot fail *)

  Lemma session_inactive_hook_total s s0 x :
    hook_inv s -> sessions s !! ss_id x = Some x -> ss_status x = SPending ->
    (* s0: the state with the session's queue entry removed *)
    keeps [GSess] s s0 -> sessions s0 = sessions s ->
    exists s1, session_inactive_hook s0 (ss_id x) (ss_addr x) (ss_node x) (ss_up x + ss_down x) = Ok s1.
  Proof.
    intros [Hl Hq Hg Hm Hr] Hx Hpend Hk0 Es0.
    pose proof (lf_idx _ Hl) as Hall. pose proof (ai_sub _ Hall) as Hix. pose proof (ai_k _ Hall) as Hi.
    destruct (lf_link _ Hl) as [L]. destruct (L _ _ Hx) as (sb & Hsb & Hha & _).
    destruct (rg_sess _ Hr _ _ Hx) as (Hup & Hdown & Hsum & Hnodeok).
    destruct (k_sub _ (ki_sub _ Hi) _ _ Hsb) as (Eid & _).
    assert (F : subs s0 = subs s /\ allocs s0 = allocs s /\ deposits s0 = deposits s /\ bank s0 = bank s /\ cfg s0 = cfg s /\ pars s0 = pars s)
      by (repeat split; keeps_solve).
    destruct F as (F1 & F2 & F3 & F4 & F5 & F6).
    unfold session_inactive_hook. rewrite Es0, Hx. rewrite Hpend. simpl. rewrite F1, Hsb.
    pose proof (st_kind _ Hix _ _ Hsb) as Hkind.
    destruct (sb_kind sb) as [nd g h dep|pid dn] eqn:Ek.
    - destruct Hkind as [[[-> Hh]|[Hg0 ->]] Hdep0].
      + (* hourly: nothing to settle *) destruct (h =? 0) eqn:Eh; [lia|]. simpl. eauto.
      + (* per gigabyte *)
        simpl. destruct Hha as [Hh|[al Hal]]; [unfold hourly in Hh; rewrite Ek in Hh; simpl in Hh; discriminate|].
        destruct (st_alloc_sub _ Hix _ _ _ Hal) as (sb1 & Hsb1 & _ & Hmet). rewrite Hsb in Hsb1. injection Hsb1 as <-.
        assert (Eacc : ss_addr x = sb_addr sb) by (apply Hmet; unfold metered; rewrite Ek; destruct (g =? 0) eqn:E0; [lia|reflexivity]).
        rewrite Eid, F2, Hal. destruct (g =? 0) eqn:Eg0; [lia|].
        destruct (rg_sub _ Hr _ _ Hsb) as (Hnb & Hrs). rewrite Ek in Hrs. destruct Hrs as [Hbig Hnode].
        assert (Hal' : allocs s !! (ss_sub x, sb_addr sb) = Some al) by (rewrite <- Eacc; exact Hal).
        destruct (lg_alloc _ Hg _ _ _ _ _ _ _ Hsb Ek eq_refl Hal') as (Hgr & Hu0 & Hu1).
        destruct (rg_alloc _ Hr _ _ Hal) as (Hg0' & Hg1).
        destruct (k_al _ (ki_sub _ Hi) _ _ Hal) as (Ea1 & Ea2 & _). simpl in Ea1, Ea2.
        set (pr := Z.quot dep.2 g). destruct BIG_facts as (B0 & B1 & B2 & B3 & B4 & B5 & B6).
        assert (Hpr0 : 0 <= pr) by (apply quot_nonneg; lia).
        assert (Hprg : pr * g <= dep.2) by (unfold pr; rewrite Z.quot_div_nonneg by lia; pose proof (Z.mul_div_le dep.2 g Hg0); lia).
        unfold int_quo. rewrite Eg0. simpl. fold pr. rewrite (new_coin_total dep.1 pr Hpr0). simpl.
        assert (Hlim : forall u, 0 <= u <= al_granted al -> pr * u < BIG * GB) by (intros u Hu; rewrite Hgr in Hu; nia).
        rewrite (afb_total pr (al_used al)) by (try apply Hlim; lia). simpl.
        rewrite (int_sub_total (al_granted al) (al_used al)) by lia. simpl.
        set (b := ss_up x + ss_down x).
        set (used' := if al_granted al - al_used al <? b then al_granted al else al_used al + b).
        assert (Hu' : al_used al <= used' <= al_granted al) by (unfold used'; destruct (al_granted al - al_used al <? b) eqn:E; lia).
        assert (Eu : (if al_granted al - al_used al <? b then Ok (al_granted al) else int_add (al_used al) b) = Ok used').
        { unfold used'. destruct (al_granted al - al_used al <? b) eqn:E; [reflexivity|]. apply int_add_total; lia. }
        rewrite Eu. simpl. rewrite (afb_total pr used') by (try apply Hlim; lia). simpl.
        assert (Hafb1 : afb pr (al_used al) <= afb pr used') by (apply afb_le_mono; lia).
        assert (Hafb2 : afb pr used' <= dep.2).
        { etransitivity; [apply (afb_le_mono pr used' (GB * g)); lia|]. apply afb_full; lia. }
        assert (Hafb0 : 0 <= afb pr (al_used al)) by (apply afb_nonneg; lia).
        rewrite (int_sub_total (afb pr used') (afb pr (al_used al))) by lia. simpl.
        set (diff := afb pr used' - afb pr (al_used al)).
        rewrite (new_coin_total dep.1 diff) by (unfold diff; lia). simpl.
        destruct (lf_par _ Hl) as [_ _ _ _ Hshare _].
        destruct (proportion_total diff (p_node_share (pars s)) ltac:(unfold diff; lia) Hshare) as (r & Hprop & Hr01).
        rewrite F6, Hprop. simpl.
        (* the ledger covers the charge *)
        assert (Hbound : dep.2 - afb pr (al_used al) <= damt s (sb_addr sb) dep.1).
        { pose proof (ledger_bound s (sb_addr sb) dep.1 _ sb Hg Hsb) as Hb.
          rewrite (unsettled_metered s _ _ sb nd g dep al Ek) in Hb by (rewrite Eid; exact Hal').
          rewrite bool_decide_eq_true_2 in Hb by auto. exact Hb. }
        match goal with |- context [z_dep_to_module ?sa _ _ _] => set (s1 := sa) end.
        assert (Hk1 : keeps NONMONEY s s1) by (unfold s1; keeps_solve).
        assert (Hm1 : money_inv s1) by (eapply (money_inv_keeps NONMONEY s); [exact Hk1|reflexivity..|exact Hm]).
        assert (Hd1 : forall a d, damt s1 a d = damt s a d) by (intros a d; unfold damt, dep_of; replace (deposits s1) with (deposits s) by (symmetry; keeps_solve); reflexivity).
        assert (Hn1 : recs_nonneg s1) by (intros a d; rewrite Hd1; apply (ledger_recs_nonneg s Hg a d)).
        assert (Hc1 : cfg s1 = cfg s) by keeps_solve.
        rewrite Eacc.
        destruct (z_dep_to_module_total s1 (sb_addr sb) (c_feecoll (cfg s0)) dep.1 r (mi_escrow _ Hm1) Hn1) as [s2 Hs2].
        { rewrite Hd1. unfold diff in Hr01. lia. }
        rewrite Hs2. simpl. rewrite (coin_sub_total dep.1 diff r) by (unfold diff in *; lia). simpl.
        assert (Hle1 : r <= damt s1 (sb_addr sb) dep.1) by (rewrite Hd1; unfold diff in Hr01; lia).
        assert (Hfee : c_feecoll (cfg s0) <> c_deposit (cfg s1)) by (rewrite F5, Hc1; apply (wf_fee_ne _ (mi_cfg _ Hm))).
        destruct (debit_module_keeps s1 _ _ _ _ s2 Hm1 Hn1 Hle1 Hs2 Hfee) as (Hm2 & Hn2 & Hd2 & Hc2).
        destruct (z_dep_to_account_total s2 (sb_addr sb) (ss_node x) dep.1 (diff - r) (mi_escrow _ Hm2) Hn2) as [s3 Hs3].
        { rewrite Hc2, Hc1. exact Hnodeok. }
        { rewrite Hd2, Hd1. unfold dlt. rewrite bool_decide_eq_true_2 by auto. unfold diff in *. lia. }
        rewrite Hs3. simpl. eauto.
    - (* plan subscription: only the usage moves *)
      simpl. destruct Hha as [Hh|[al Hal]]; [unfold hourly in Hh; rewrite Ek in Hh; discriminate|].
      rewrite Eid, F2, Hal. simpl.
      destruct (rg_alloc _ Hr _ _ Hal) as (Hg0' & Hg1). destruct (q_alloc _ Hq _ _ Hal) as (Hu0 & Hu1).
      rewrite (int_sub_total (al_granted al) (al_used al)) by lia. simpl.
      destruct (al_granted al - al_used al <? ss_up x + ss_down x) eqn:E; simpl; [eauto|].
      rewrite int_add_total by lia. simpl. eauto.
  Qed.

  Lemma session_expire_one_total s e : hook_inv s -> e ∈ sess_q s -> exists s', session_expire_one s e = Ok s'.
  Proof.
    intros Hh He. pose proof (lf_idx _ (hk_life _ Hh)) as Hall. destruct e as [t sid].
    destruct (proj1 (ix_sq _ (ai_sess _ Hall) t sid) He) as (x & Hx & Hiat).
    destruct (k_ss _ (ki_sess _ (ai_k _ Hall)) _ _ Hx) as (Eid & _ & Hlive).
    unfold session_expire_one. simpl. rewrite Hx. case_bool_decide as Hact; [eauto|].
    assert (Hpend : ss_status x = SPending) by (destruct Hlive; [contradiction|assumption]).
    destruct (rg_sess _ (hk_range _ Hh) _ _ Hx) as (Hup & Hdown & Hsum & _).
    rewrite int_add_total by lia. simpl.
    destruct (session_inactive_hook_total s (s <| sess_q ::= fun q => q ∖ {[ (ss_inactive_at x, ss_id x) ]} |>) x Hh) as [s1 Hs1];
      [rewrite Eid; exact Hx|exact Hpend|keeps_solve|reflexivity|].
    rewrite Hs1. simpl. eauto.
  Qed.

  (** * expiry of subscriptions cannot fail *)

  Lemma sub_pending_hook_total s id : idx_sess s -> exists s', sub_pending_hook s id = Ok s'.
  Proof.
    intros Hix. unfold sub_pending_hook.
    set (P := fun (rest : list Z) (x : state) => forall sid, sid ∈ rest -> is_Some (sessions x !! sid)).
    destruct (rfold_total P (fun s sid => match sessions s !! sid with
                                          | None => Panic
                                          | Some x => if bool_decide (ss_status x = SActive) then Ok (session_make_pending s x) else Ok s
                                          end) (rev (ids_for_z (sess_sub s) id)) s) as (s' & Hs' & _).
    - intros sid rest x HP. destruct (HP sid ltac:(left)) as [y Hy]. rewrite Hy.
      case_bool_decide; eexists; (split; [reflexivity|]); intros sid' Hin; specialize (HP sid' ltac:(right; exact Hin)); [|exact HP].
      unfold session_make_pending. simpl. destruct (decide (sid' = ss_id y)) as [->|Hne]; [rewrite lookup_insert; eauto|rewrite lookup_insert_ne by congruence; exact HP].
    - intros sid Hin. apply elem_of_rev', elem_of_ids_for_z, (ix_ssub _ Hix) in Hin as (y & Hy & _). eauto.
    - eauto.
  Qed.

  Lemma sub_refund_total s s0 sb :
    hook_inv s -> subs s !! sb_id sb = Some sb -> keeps [GSub] s s0 -> allocs s0 = allocs s -> payouts s0 = payouts s ->
    exists s1, sub_refund s0 sb = Ok s1.
  Proof.
    intros [Hl Hq Hg Hm Hr] Hsb Hk0 Ea0 Ep0.
    pose proof (lf_idx _ Hl) as Hall. pose proof (ai_sub _ Hall) as Hix. pose proof (ai_k _ Hall) as Hi.
    pose proof (st_kind _ Hix _ _ Hsb) as Hkind.
    destruct (rg_sub _ Hr _ _ Hsb) as (Hnb & Hrs).
    assert (Hm0 : money_inv s0) by (eapply (money_inv_keeps NONMONEY s); [weaken_to Hk0|reflexivity..|exact Hm]).
    assert (Hd0 : forall a d, damt s0 a d = damt s a d) by (intros a d; unfold damt, dep_of; replace (deposits s0) with (deposits s) by (symmetry; keeps_solve); reflexivity).
    assert (Hn0 : recs_nonneg s0) by (intros a d; rewrite Hd0; apply (ledger_recs_nonneg s Hg a d)).
    assert (Hc0 : cfg s0 = cfg s) by keeps_solve.
    destruct BIG_facts as (B0 & B1 & B2 & B3 & B4 & B5 & B6).
    unfold sub_refund. destruct (sb_kind sb) as [nd g h dep|pid dn] eqn:Ek; [|eauto].
    destruct Hrs as [Hbig Hnode]. destruct Hkind as [[[-> Hh]|[Hg0 ->]] Hdep0].
    - (* hourly *)
      simpl. destruct (h =? 0) eqn:Eh; [lia|]. simpl.
      destruct (st_sub_pay _ Hix _ _ Hsb) as [po Hpo]; [unfold hourly; rewrite Ek, Eh; reflexivity|].
      rewrite Ep0, Hpo.
      destruct (lg_price _ Hg _ _ _ _ _ _ _ Hsb Ek ltac:(lia) Hpo) as (Hprice & Hhours).
      destruct (st_pay_sub _ Hix _ _ Hpo) as (_ & sb1 & g1 & h1 & d1 & Hsb1 & _ & _ & Haddr). rewrite Hsb in Hsb1. injection Hsb1 as <-.
      rewrite Hprice. simpl. set (price := Z.quot dep.2 h).
      assert (Hp0 : 0 <= price) by (apply quot_nonneg; lia).
      assert (Hp1 : price * po_hours po <= dep.2) by (apply quot_mul_le; lia).
      rewrite int_mul_total by (try nia; lia). simpl. rewrite new_coin_total by nia. simpl.
      destruct (price * po_hours po =? 0) eqn:E0; [simpl; eauto|]. apply Z.eqb_neq in E0.
      assert (Hbound : price * po_hours po <= damt s (po_addr po) dep.1).
      { pose proof (ledger_bound s (po_addr po) dep.1 _ sb Hg Hsb) as Hb.
        rewrite (unsettled_hourly s _ _ sb _ 0 h dep po Ek ltac:(lia) Hpo) in Hb.
        rewrite bool_decide_eq_true_2 in Hb by (split; [symmetry; exact Haddr|reflexivity]). rewrite Hprice in Hb. exact Hb. }
      destruct (dep_to_account_total s0 (po_addr po) (po_addr po) dep.1 (price * po_hours po) (mi_escrow _ Hm0) Hn0) as [s1 Hs1].
      { rewrite Hc0, Haddr. exact Hnb. }
      { rewrite Hd0. assert (0 <= price * po_hours po) by nia. lia. }
      rewrite Hs1. simpl. eauto.
    - (* per gigabyte *)
      simpl. destruct (g =? 0) eqn:Eg0; [lia|]. simpl. unfold int_quo. rewrite Eg0. simpl.
      set (pr := Z.quot dep.2 g).
      assert (Hpr0 : 0 <= pr) by (apply quot_nonneg; lia).
      assert (Hprg : pr * g <= dep.2) by (unfold pr; rewrite Z.quot_div_nonneg by lia; pose proof (Z.mul_div_le dep.2 g Hg0); lia).
      rewrite (new_coin_total dep.1 pr Hpr0). simpl.
      destruct (st_sub_alloc _ Hix _ _ Hsb) as [al Hal]; [unfold hourly; rewrite Ek; reflexivity|].
      rewrite Ea0, Hal.
      destruct (lg_alloc _ Hg _ _ _ _ _ _ _ Hsb Ek eq_refl Hal) as (Hgr & Hu0 & Hu1).
      rewrite (afb_total pr (al_used al)) by (try (rewrite Hgr in Hu1; nia); lia). simpl.
      assert (Hafb2 : afb pr (al_used al) <= dep.2).
      { etransitivity; [apply (afb_le_mono pr (al_used al) (GB * g)); lia|]. apply afb_full; lia. }
      assert (Hafb0 : 0 <= afb pr (al_used al)) by (apply afb_nonneg; lia).
      rewrite (int_sub_total dep.2 (afb pr (al_used al))) by lia. simpl.
      rewrite new_coin_total by lia. simpl.
      destruct (dep.2 - afb pr (al_used al) =? 0) eqn:E0; [simpl; eauto|]. apply Z.eqb_neq in E0.
      assert (Hbound : dep.2 - afb pr (al_used al) <= damt s (sb_addr sb) dep.1).
      { pose proof (ledger_bound s (sb_addr sb) dep.1 _ sb Hg Hsb) as Hb.
        rewrite (unsettled_metered s _ _ sb nd g dep al Ek Hal) in Hb.
        rewrite bool_decide_eq_true_2 in Hb by auto. exact Hb. }
      destruct (dep_to_account_total s0 (sb_addr sb) (sb_addr sb) dep.1 (dep.2 - afb pr (al_used al)) (mi_escrow _ Hm0) Hn0) as [s1 Hs1].
      { rewrite Hc0. exact Hnb. }
      { rewrite Hd0. lia. }
      rewrite Hs1. simpl. eauto.
  Qed.

  Lemma sub_expire_one_total s e : hook_inv s -> e ∈ sub_q s -> exists s', sub_expire_one s e = Ok s'.
  Proof.
    intros Hh He. pose proof (lf_idx _ (hk_life _ Hh)) as Hall. pose proof (ai_sub _ Hall) as Hix. destruct e as [t id].
    destruct (proj1 (ix_subq _ Hix t id) He) as (sb & Hsb & Hiat).
    destruct (k_sub _ (ki_sub _ (ai_k _ Hall)) _ _ Hsb) as (Eid & _ & Hlive).
    unfold sub_expire_one. simpl. rewrite Hsb. case_bool_decide as Hact.
    - set (s0 := s <| sub_q ::= fun q => q ∖ {[ (sb_inactive_at sb, sb_id sb) ]} |>).
      destruct (sub_pending_hook_total s0 (sb_id sb)) as [s1 Hs1].
      { eapply idx_sess_frame; [..|apply (ai_sess _ Hall)]; reflexivity. }
      rewrite Hs1. simpl. unfold detach_payout. destruct (sb_kind sb) as [nd g h dep|pid dn] eqn:Ek; [|eauto].
      destruct (h =? 0) eqn:Eh; [eauto|].
      destruct (st_sub_pay _ Hix _ _ Hsb) as [po Hpo]; [unfold hourly; rewrite Ek, Eh; reflexivity|].
      apply sub_pending_hook_keeps in Hs1.
      assert (Ep : payouts (sub_make_pending s1 sb) = payouts s) by (unfold sub_make_pending; simpl; transitivity (payouts s0); [keeps_solve|reflexivity]).
      rewrite Ep, Eid, Hpo. eauto.
    - set (s0 := s <| sub_q ::= fun q => q ∖ {[ (sb_inactive_at sb, sb_id sb) ]} |>).
      rewrite <- Eid in Hsb.
      destruct (sub_refund_total s s0 sb Hh Hsb) as [s1 Hs1]; [unfold s0; keeps_solve|reflexivity|reflexivity|].
      rewrite Hs1. simpl. unfold sub_delete_payout. destruct (sb_kind sb) as [nd g h dep|pid dn] eqn:Ek; [|eauto].
      destruct (h =? 0) eqn:Eh; [eauto|].
      destruct (st_sub_pay _ Hix _ _ Hsb) as [po Hpo]; [unfold hourly; rewrite Ek, Eh; reflexivity|].
      destruct (sub_refund_subfields _ _ _ Hs1) as (_ & _ & _ & _ & _ & _ & _ & R7 & _).
      destruct (sub_cleanup_fields s1 sb) as (_ & Cp & _). simpl. rewrite Cp, R7. simpl. rewrite Hpo. eauto.
  Qed.

  (** * loops *)

  Lemma sub_begin_block_total s : hook_inv s -> exists s', sub_begin_block s = Ok s' /\ hook_inv s'.
  Proof.
    intros Hh. unfold sub_begin_block.
    set (P := fun (rest : list (time * Z)) (x : state) => hook_inv x /\ NoDup rest /\ forall e, e ∈ rest -> e ∈ pay_q x).
    destruct (rfold_total P payout_step (due_z (pay_q s) (now s)) s) as (s' & Hs' & G).
    - intros e rest x (Hx & Hnd & Hin).
      assert (He : e ∈ pay_q x) by (apply Hin; left).
      destruct (payout_step_total x e Hx He) as [x' Hx'].
      exists x'. split; [exact Hx'|]. split; [eapply hook_inv_payout_step; eauto|]. split; [inversion Hnd; assumption|].
      intros e' He'. assert (Hne : e' <> e) by (inversion Hnd; subst; intros ->; contradiction).
      assert (He'q : e' ∈ pay_q x) by (apply Hin; right; exact He').
      pose proof (ai_sub _ (lf_idx _ (hk_life _ Hx))) as Hixx. pose proof (ai_k _ (lf_idx _ (hk_life _ Hx))) as Hkx.
      destruct e as [t id]. destruct (proj1 (ix_payq _ Hixx t id) He) as (po & sb & Hpo & Hnx & Hhrs & Hsb & Hact).
      destruct (k_po _ (ki_sub _ Hkx) _ _ Hpo) as [Eid _].
      destruct (payout_step_spec x (t, id) x' po Hpo Hx') as (_ & _ & _ & _ & _ & _ & _ & _ & _ & _ & E8).
      cbv zeta in E8. rewrite E8, Hnx, Eid. destruct (0 <? po_hours po - 1); set_solver.
    - split; [exact Hh|]. split; [apply NoDup_due_z|]. intros e He. apply elem_of_due_z in He. tauto.
    - exists s'. split; [exact Hs'|apply G].
  Qed.
  (* the queue part of the loop invariants: the snapshot entries not yet processed are still queued,
     and every record that is due is among them *)
  Definition sess_rest (rest : list (time * Z)) (x : state) : Prop :=
    NoDup rest /\ (forall e, e ∈ rest -> e ∈ sess_q x) /\
    forall sid y, sessions x !! sid = Some y -> ss_inactive_at y <= now x -> (ss_inactive_at y, sid) ∈ rest.
  Definition sub_rest (rest : list (time * Z)) (x : state) : Prop :=
    NoDup rest /\ (forall e, e ∈ rest -> e ∈ sub_q x /\ e.1 <= now x) /\
    forall id sb, subs x !! id = Some sb -> sb_inactive_at sb <= now x -> (sb_inactive_at sb, id) ∈ rest.

  Lemma sess_rest_step e rest x x' :
    end_inv x -> end_inv x' -> sess_rest (e :: rest) x -> session_expire_one x e = Ok x' -> sess_rest rest x'.
  Proof.
    intros Hx Hx' (Hnd & Hin & Hdue) Hstep. apply NoDup_cons in Hnd as [Hnotin Hnd].
    destruct e as [t id]. assert (He : (t, id) ∈ sess_q x) by (apply Hin; left).
    destruct (proj1 (ix_sq _ (ei_sess _ Hx) t id) He) as (y & Hy & Hiat).
    destruct (k_ss _ (ki_sess _ (ei_k _ Hx)) _ _ Hy) as (Eid & _).
    destruct (session_expire_one_sessions x (t, id) x' y Hy Eid Hstep) as (M1 & M2 & M3). simpl in M3.
    split; [exact Hnd|]. split.
    - intros [t' id'] He'. assert (He'q : (t', id') ∈ sess_q x) by (apply Hin; right; exact He').
      apply (ix_sq _ (ei_sess _ Hx')). destruct (proj1 (ix_sq _ (ei_sess _ Hx) t' id') He'q) as (y' & Hy' & Hiat').
      assert (Hne : id' <> id). { intros ->. rewrite Hy in Hy'. injection Hy' as <-. apply Hnotin. rewrite <- Hiat, Hiat'. exact He'. }
      exists y'. split; [|exact Hiat']. rewrite M3. case_bool_decide; [rewrite lookup_insert_ne by congruence|rewrite lookup_delete_ne by congruence]; exact Hy'.
    - intros sid y' Hy' Hle. rewrite M3 in Hy'. rewrite M1 in Hle.
      destruct (decide (sid = id)) as [->|Hne].
      + case_bool_decide; [rewrite lookup_insert in Hy'; injection Hy' as <-; simpl in Hle; destruct (ei_par _ Hx); lia|rewrite lookup_delete in Hy'; discriminate].
      + assert (Hy0 : sessions x !! sid = Some y') by (revert Hy'; case_bool_decide; [rewrite lookup_insert_ne by congruence|rewrite lookup_delete_ne by congruence]; auto).
        specialize (Hdue _ _ Hy0 Hle). apply elem_of_cons in Hdue as [E|Hr]; [congruence|exact Hr].
  Qed.

  Lemma sub_rest_step e rest x x' :
    end_inv x -> end_inv x' -> sub_rest (e :: rest) x -> sub_expire_one x e = Ok x' -> sub_rest rest x'.
  Proof.
    intros Hx Hx' (Hnd & Hin & Hdue) Hstep. apply NoDup_cons in Hnd as [Hnotin Hnd].
    destruct e as [t id]. destruct (Hin (t, id) ltac:(left)) as [He Hle]. simpl in Hle.
    destruct (proj1 (ix_subq _ (ei_sub _ Hx) t id) He) as (sb & Hsb & Hiat).
    destruct (k_sub _ (ki_sub _ (ei_k _ Hx)) _ _ Hsb) as (Eid & _).
    destruct (sub_expire_one_effect x (t, id) x' sb (ei_k _ Hx) (ei_sess _ Hx) Hsb Eid Hstep) as (M1 & M2 & M3 & M4). simpl in M3, M4.
    split; [exact Hnd|]. split.
    - intros [t' id'] He'. destruct (Hin (t', id') ltac:(right; exact He')) as [He'q Hle']. split; [|rewrite M1; exact Hle'].
      apply (ix_subq _ (ei_sub _ Hx')). destruct (proj1 (ix_subq _ (ei_sub _ Hx) t' id') He'q) as (sb' & Hsb' & Hiat').
      assert (Hne : id' <> id). { intros ->. rewrite Hsb in Hsb'. injection Hsb' as <-. apply Hnotin. rewrite <- Hiat, Hiat'. exact He'. }
      exists sb'. split; [|exact Hiat']. rewrite M3. case_bool_decide; [rewrite lookup_insert_ne by congruence|rewrite lookup_delete_ne by congruence]; exact Hsb'.
    - intros id' sb' Hsb' Hle'. rewrite M3 in Hsb'. rewrite M1 in Hle'.
      destruct (decide (id' = id)) as [->|Hne].
      + case_bool_decide; [rewrite lookup_insert in Hsb'; injection Hsb' as <-; simpl in Hle'; destruct (ei_par _ Hx); lia|rewrite lookup_delete in Hsb'; discriminate].
      + assert (Hs0 : subs x !! id' = Some sb') by (revert Hsb'; case_bool_decide; [rewrite lookup_insert_ne by congruence|rewrite lookup_delete_ne by congruence]; auto).
        specialize (Hdue _ _ Hs0 Hle'). apply elem_of_cons in Hdue as [E|Hr]; [congruence|exact Hr].
  Qed.

  Lemma hook_end_inv s : hook_inv s -> end_inv s.
  Proof. intros Hh. apply life_end_inv, Hh. Qed.

  Lemma session_end_block_total s :
    hook_inv s -> exists s', session_end_block s = Ok s' /\ hook_inv s' /\ sess_fresh s' /\ now s' = now s.
  Proof.
    intros Hh. unfold session_end_block.
    set (P := fun (rest : list (time * Z)) (x : state) => hook_inv x /\ now x = now s /\ sess_rest rest x).
    destruct (rfold_total P session_expire_one (due_z (sess_q s) (now s)) s) as (s' & Hs' & G1 & G2 & G3).
    - intros e rest x (Hx & N1 & Hq). destruct Hq as (Q1 & Q2 & Q3).
      destruct (session_expire_one_total x e Hx (Q2 e ltac:(left))) as [x' Hx'].
      pose proof (hook_inv_session_expire_one _ _ _ Hx Hx') as Hxx.
      exists x'. split; [exact Hx'|]. split; [exact Hxx|]. split.
      + apply session_expire_one_keeps in Hx'. rewrite <- N1. keeps_solve.
      + eapply sess_rest_step; [apply hook_end_inv; exact Hx|apply hook_end_inv; exact Hxx| |exact Hx']. split; [exact Q1|split; [exact Q2|exact Q3]].
    - split; [exact Hh|]. split; [reflexivity|]. split; [apply NoDup_due_z|]. split.
      + intros e He. apply elem_of_due_z in He. tauto.
      + intros sid y Hy Hle. apply elem_of_due_z. split; [|exact Hle]. apply (ix_sq _ (ai_sess _ (lf_idx _ (hk_life _ Hh)))). eauto.
    - exists s'. split; [exact Hs'|]. split; [exact G1|]. split; [|exact G2].
      destruct G3 as (_ & _ & G4). intros sid y Hy. destruct (Z_lt_le_dec (now s') (ss_inactive_at y)) as [Hlt|Hle]; [exact Hlt|].
      specialize (G4 _ _ Hy Hle). inversion G4.
  Qed.

  Lemma sub_end_block_total s :
    hook_inv s -> sess_fresh s -> exists s', sub_end_block s = Ok s' /\ hook_inv s' /\ now s' = now s.
  Proof.
    intros Hh Hf. unfold sub_end_block.
    set (P := fun (rest : list (time * Z)) (x : state) => hook_inv x /\ sess_fresh x /\ now x = now s /\ sub_rest rest x).
    destruct (rfold_total P sub_expire_one (due_z (sub_q s) (now s)) s) as (s' & Hs' & G1 & _ & G2 & _).
    - intros e rest x (Hx & Hfx & N1 & Hq). destruct Hq as (Q1 & Q2 & Q3).
      destruct (Q2 e ltac:(left)) as [He Hle].
      destruct (sub_expire_one_total x e Hx He) as [x' Hx'].
      pose proof (hook_inv_sub_expire_one _ _ _ Hx Hfx He Hle Hx') as Hxx.
      exists x'. split; [exact Hx'|]. split; [exact Hxx|].
      pose proof (hook_end_inv _ Hx) as Ex.
      destruct e as [t id]. destruct (proj1 (ix_subq _ (ei_sub _ Ex) t id) He) as (sb & Hsb & Hiat).
      destruct (k_sub _ (ki_sub _ (ei_k _ Ex)) _ _ Hsb) as (Eid & _).
      destruct (sub_expire_one_effect x (t, id) x' sb (ei_k _ Ex) (ei_sess _ Ex) Hsb Eid Hx') as (M1 & M2 & M3 & M4). simpl in M4.
      split; [|split; [congruence|]].
      + intros sid y Hy. rewrite M4 in Hy. rewrite M1. case_bool_decide.
        * destruct (sessions x !! sid) as [y0|] eqn:Hy0; [|discriminate]. simpl in Hy. injection Hy as <-.
          unfold demote_sess. case_bool_decide; simpl; [destruct (ei_par _ Ex); lia|apply (Hfx _ _ Hy0)].
        * apply (Hfx _ _ Hy).
      + eapply (sub_rest_step (t, id)); [exact Ex|apply hook_end_inv; exact Hxx| |exact Hx']. split; [exact Q1|split; [exact Q2|exact Q3]].
    - split; [exact Hh|]. split; [exact Hf|]. split; [reflexivity|]. split; [apply NoDup_due_z|]. split.
      + intros e He. apply elem_of_due_z in He. tauto.
      + intros id sb Hsb Hle. apply elem_of_due_z. split; [|exact Hle]. apply (ix_subq _ (ai_sub _ (lf_idx _ (hk_life _ Hh)))). eauto.
    - exists s'. auto.
  Qed.

  (** * nodes and the inflation schedule *)

  Lemma node_end_block_total s : kinv s -> idx_node s -> exists s', node_end_block s = Ok s'.
  Proof.
    intros Hi Hix. unfold node_end_block.
    assert (Hsw : exists s1, (if m_max_gb (modified s) || m_min_gb (modified s) || m_max_hr (modified s) || m_min_hr (modified s)
                              then rfold node_sweep_one (all_nodes s) s else Ok s) = Ok s1).
    { destruct (_ || _); [|eauto].
      set (P := fun (rest : list node) (x : state) => forall n, n ∈ rest -> nd_status n = SActive \/ nd_status n = SInactive).
      destruct (rfold_total P node_sweep_one (all_nodes s) s) as (s1 & Hs1 & _); [| |eauto].
      - intros n rest x HP. unfold node_sweep_one. unfold set_node. simpl.
        destruct (HP n ltac:(left)) as [-> | ->]; simpl; eexists; (split; [reflexivity|]); intros n' Hn'; apply HP; right; exact Hn'.
      - intros n Hn. destruct (elem_of_all_nodes _ _ (ki_node _ Hi) Hn) as [[_ E]|[_ E]]; auto. }
    destruct Hsw as [s1 Hs1]. rewrite Hs1. simpl.
    assert (H1 : kinv_node s1 /\ idx_node s1).
    { destruct (_ || _); [|injection Hs1 as <-; split; [apply Hi|exact Hix]].
      destruct (node_sweep_keeps_act_iat _ _ Hi Hs1) as (K1 & K2 & K3 & K4). split; [exact K1|]. eapply idx_node_frame; eauto. }
    destruct H1 as [Hk1 Hix1].
    set (P := fun (rest : list (time * addr)) (x : state) => kinv_node x /\ idx_node x /\ NoDup rest /\ forall e, e ∈ rest -> e ∈ node_q x).
    destruct (rfold_total P node_expire_one (due_a (node_q s1) (now s1)) s1) as (s' & Hs' & _); [| |eauto].
    - intros e rest x (Hkx & Hixx & Hnd & Hin). apply NoDup_cons in Hnd as [Hnotin Hnd]. destruct e as [t a].
      assert (He : (t, a) ∈ node_q x) by (apply Hin; left).
      destruct (proj1 (act_iat_spec x a t) (proj1 (Hixx t a) He)) as (n & Hn & Hiat).
      assert (Hstep : exists x', node_expire_one x (t, a) = Ok x').
      { unfold node_expire_one, get_node. simpl. rewrite Hn. unfold set_node. simpl. eauto. }
      destruct Hstep as [x' Hx']. exists x'. split; [exact Hx'|].
      destruct (node_expire_one_effect x (t, a) x' n Hkx Hn Hx') as [M1 M2]. simpl in M2.
      pose proof (kinv_node_expire_one _ _ _ Hkx Hx') as Hkx'. pose proof (idx_node_expire_one _ _ _ Hkx Hixx Hx') as Hixx'.
      split; [exact Hkx'|]. split; [exact Hixx'|]. split; [exact Hnd|].
      intros [t' a'] He'. assert (He'q : (t', a') ∈ node_q x) by (apply Hin; right; exact He').
      apply Hixx'. apply act_iat_spec. destruct (proj1 (act_iat_spec x a' t') (proj1 (Hixx t' a') He'q)) as (n' & Hn' & Hiat').
      assert (Hne : a' <> a). { intros ->. rewrite Hn in Hn'. injection Hn' as <-. apply Hnotin. rewrite <- Hiat, Hiat'. exact He'. }
      exists n'. split; [|exact Hiat']. rewrite M2, lookup_delete_ne by congruence. exact Hn'.
    - split; [exact Hk1|]. split; [exact Hix1|]. split; [apply NoDup_due_a|]. intros e He. apply elem_of_due_a in He. tauto.
  Qed.

  Lemma hook_inv_node_end_block s s' : hook_inv s -> node_end_block s = Ok s' -> hook_inv s' /\ now s' = now s.
  Proof.
    intros [Hl Hq Hg Hm Hr] H. pose proof (node_end_block_keeps _ _ H) as Hk. destruct Hl as [[A B C D E] Hp Hlk].
    split; [|keeps_solve]. split; [split; [split|..]|..].
    - eapply kinv_node_end_block; eauto.
    - eapply idx_sess_keeps; eauto.
    - eapply idx_node_end_block; eauto.
    - eapply idx_sub_keeps; eauto.
    - eapply idx_plan_keeps_le; [exact Hk|reflexivity|eapply has_node_mono_end_block; exact H|eapply prov_le_keeps; [exact Hk|reflexivity]|exact E].
    - replace (pars s') with (pars s) by (symmetry; keeps_solve). exact Hp.
    - eapply link_keeps; eauto.
    - eapply quota_inv_keeps; eauto.
    - eapply ledger_inv_keeps; eauto.
    - eapply (money_inv_keeps [GNode]); eauto.
    - eapply range_node_end_block; eauto.
  Qed.

  Lemma mint_begin_block_total s : range_inv s -> exists s', mint_begin_block s = Ok s'.
  Proof.
    intros Hr. unfold mint_begin_block.
    assert (G : forall l x, now x = now s -> (forall it, it ∈ l -> mint_params_valid (inf_max it) (inf_min it) (inf_rate it) = true) ->
                            exists s', mint_loop l x = Ok s').
    { induction l as [|it l IH]; intros x Hn Hv; simpl; [eauto|].
      destruct (now x <? inf_ts it); [eauto|]. rewrite (Hv it ltac:(left)). simpl. apply IH; [exact Hn|].
      intros it' Hin. apply Hv. right. exact Hin. }
    apply G; [reflexivity|]. intros it Hin. unfold mint_items in Hin. apply elem_of_list_fmap in Hin as ([t it'] & -> & Hin).
    apply elem_of_sort_by, elem_of_map_to_list in Hin. eapply (rg_mint _ Hr); eauto.
  Qed.

  (** * the hooks of a block *)

  Lemma hook_inv_time s t : hook_inv s -> now s < t -> hook_inv (clear_events s <| now := t |>).
  Proof.
    intros [Hl Hq Hg Hm Hr] Ht. assert (Hk : keeps [GNow] s (clear_events s <| now := t |>)) by keeps_solve.
    destruct Hl as [Hall Hp Hlk]. split; [split|..].
    - eapply all_idx_keeps; eauto.
    - exact Hp.
    - apply (link_mono s); auto. simpl. lia.
    - eapply quota_inv_keeps; eauto.
    - eapply ledger_inv_keeps; eauto.
    - eapply (money_inv_keeps [GNow]); eauto.
    - destruct Hr as [R1 R2 R3 R4 R5 R6]. split; auto.
  Qed.

  Theorem begin_block_total s t :
    hook_inv s -> now s < t -> exists s', begin_block (clear_events s <| now := t |>) = Ok s' /\ hook_inv s'.
  Proof.
    intros Hh Ht. pose proof (hook_inv_time s t Hh Ht) as Hh0. set (s0 := clear_events s <| now := t |>) in *.
    unfold begin_block. destruct (mint_begin_block_total s0 (hk_range _ Hh0)) as [s1 Hs1]. rewrite Hs1. simpl.
    pose proof (mint_begin_block_keeps _ _ Hs1) as Hk.
    assert (Hh1 : hook_inv s1).
    { destruct Hh0 as [[Hall Hp Hlk] Hq Hg Hm Hr]. split; [split|..].
      - eapply all_idx_keeps; eauto.
      - replace (pars s1) with (pars s0) by (symmetry; keeps_solve). exact Hp.
      - eapply link_keeps; eauto.
      - eapply quota_inv_keeps; eauto.
      - eapply ledger_inv_keeps; eauto.
      - eapply (money_inv_keeps [GMint]); eauto.
      - eapply range_mint_begin_block; eauto. }
    destruct (sub_begin_block_total s1 Hh1) as (s' & Hs' & Hh'). eauto.
  Qed.

  Theorem end_block_total s : hook_inv s -> exists s', end_block (clear_events s) = Ok s' /\ hook_inv s' /\ now s' = now s.
  Proof.
    intros Hh.
    assert (Hh0 : hook_inv (clear_events s)).
    { destruct Hh as [Hl Hq Hg Hm Hr]. split.
      - apply life_clear. exact Hl.
      - eapply quota_inv_frame; [..|exact Hq]; reflexivity.
      - eapply ledger_inv_frame; [..|exact Hg]; reflexivity.
      - eapply (money_inv_keeps []); [|reflexivity..|exact Hm]. keeps_solve.
      - destruct Hr as [R1 R2 R3 R4 R5 R6]. split; auto. }
    unfold end_block.
    destruct (node_end_block_total (clear_events s) (ai_k _ (lf_idx _ (hk_life _ Hh0))) (ai_node _ (lf_idx _ (hk_life _ Hh0)))) as [s1 Hs1].
    rewrite Hs1. simpl. destruct (hook_inv_node_end_block _ _ Hh0 Hs1) as [Hh1 N1].
    destruct (session_end_block_total s1 Hh1) as (s2 & Hs2 & Hh2 & Hf2 & N2). rewrite Hs2. simpl.
    destruct (sub_end_block_total s2 Hh2 Hf2) as (s3 & Hs3 & Hh3 & N3). exists s3. split; [exact Hs3|]. split; [exact Hh3|].
    rewrite N3, N2, N1. reflexivity.
  Qed.
End with_range.
