(* Frame lemmas: which groups of state fields each function of the model can
   touch.  [keeps T s s'] says that every field outside the groups listed in T
   (and the static configuration) is the same in s and s'. *)
From Hub Require Import Base.Prelude Base.Arith Model.Types Model.Keeper Model.Handlers Model.Hooks Model.Step.
From Hub Require Import Proofs.Tactics.

Inductive grp := GBank | GDep | GSupply | GPv | GPl | GNode | GSub | GSess | GPar | GSwap | GMint | GNow.
Definition grp_eqb (a b : grp) : bool :=
  match a, b with
  | GBank, GBank | GDep, GDep | GSupply, GSupply | GPv, GPv | GPl, GPl | GNode, GNode | GSub, GSub
  | GSess, GSess | GPar, GPar | GSwap, GSwap | GMint, GMint | GNow, GNow => true
  | _, _ => false
  end.
Definition touched (g : grp) (T : list grp) : bool := existsb (grp_eqb g) T.
Definition unless (b : bool) (P : Prop) : Prop := if b then True else P.

Definition keeps (T : list grp) (s s' : state) : Prop :=
  cfg s' = cfg s /\
  unless (touched GBank T) (bank s' = bank s) /\
  unless (touched GDep T) (deposits s' = deposits s) /\
  unless (touched GSupply T) (supply s' = supply s) /\
  unless (touched GPv T) (prov_act s' = prov_act s /\ prov_inact s' = prov_inact s) /\
  unless (touched GPl T) (plan_act s' = plan_act s /\ plan_inact s' = plan_inact s /\ plan_count s' = plan_count s /\
                          plan_prov s' = plan_prov s /\ node_plan s' = node_plan s) /\
  unless (touched GNode T) (node_act s' = node_act s /\ node_inact s' = node_inact s /\ node_q s' = node_q s) /\
  unless (touched GSub T) (sub_count s' = sub_count s /\ subs s' = subs s /\ sub_q s' = sub_q s /\ sub_acc s' = sub_acc s /\
                           sub_node s' = sub_node s /\ sub_plan s' = sub_plan s /\ allocs s' = allocs s /\
                           payouts s' = payouts s /\ pay_q s' = pay_q s /\ pay_acc s' = pay_acc s /\
                           pay_node s' = pay_node s /\ pay_acc_node s' = pay_acc_node s) /\
  unless (touched GSess T) (sess_count s' = sess_count s /\ sessions s' = sessions s /\ sess_q s' = sess_q s /\
                            sess_acc s' = sess_acc s /\ sess_node s' = sess_node s /\ sess_sub s' = sess_sub s /\
                            sess_alloc s' = sess_alloc s) /\
  unless (touched GPar T) (pars s' = pars s /\ modified s' = modified s) /\
  unless (touched GSwap T) (swaps s' = swaps s) /\
  unless (touched GMint T) (inflations s' = inflations s /\ mint_max s' = mint_max s /\ mint_min s' = mint_min s /\
                            mint_rate s' = mint_rate s /\ mint_inflation s' = mint_inflation s) /\
  unless (touched GNow T) (now s' = now s).

Lemma unless_intro (b : bool) (P : Prop) : P -> unless b P.
Proof. destruct b; simpl; auto. Qed.

Lemma keeps_refl T s : keeps T s s.
Proof.
  unfold keeps. repeat (split; [first [reflexivity | apply unless_intro; repeat split; reflexivity]|]).
  apply unless_intro; reflexivity.
Qed.

Ltac unless_case := match goal with |- unless ?b _ => destruct b; simpl in *; [exact I|intuition congruence] end.

Lemma keeps_trans T a b c : keeps T a b -> keeps T b c -> keeps T a c.
Proof.
  unfold keeps. intros (A0 & A1 & A2 & A3 & A4 & A5 & A6 & A7 & A8 & A9 & A10 & A11 & A12)
                       (B0 & B1 & B2 & B3 & B4 & B5 & B6 & B7 & B8 & B9 & B10 & B11 & B12).
  split; [congruence|].
  repeat (split; [unless_case|]). unless_case.
Qed.

(* unfold to plain equalities, for concrete T *)
Ltac keeps_unfold := unfold keeps, unless, touched in *; cbn [existsb grp_eqb orb] in *.
Ltac goal_cases := repeat match goal with |- context [if ?b then _ else _] => destruct b eqn:? end.
Ltac keeps_solve := goal_cases; keeps_unfold; simpl in *; intuition (try congruence).

(* widening the set of touched groups *)
Lemma unless_weaken (b b' : bool) (P : Prop) : (b = true -> b' = true) -> unless b P -> unless b' P.
Proof. destruct b, b'; simpl; intuition discriminate. Qed.

Lemma keeps_weaken T T' s s' :
  (forall g, touched g T = true -> touched g T' = true) -> keeps T s s' -> keeps T' s s'.
Proof.
  intros Hsub. unfold keeps.
  intros (A0 & A1 & A2 & A3 & A4 & A5 & A6 & A7 & A8 & A9 & A10 & A11 & A12).
  split; [exact A0|].
  repeat (split; [eapply unless_weaken; [apply Hsub|eassumption]|]).
  eapply unless_weaken; [apply Hsub|eassumption].
Qed.

Ltac weaken_to H := eapply keeps_weaken; [|exact H]; intros []; cbn; (reflexivity || discriminate || auto).

(** * primitives *)

Lemma emit_keeps e s : keeps [] s (emit e s).
Proof. keeps_solve. Qed.

Lemma set_bal_keeps s a d v : keeps [GBank] s (set_bal s a d v).
Proof. keeps_solve. Qed.

Lemma bank_send_keeps s f t d a s' : bank_send s f t d a = Ok s' -> keeps [GBank] s s'.
Proof. unfold bank_send. intros H. repeat case_match; try discriminate; injection H as <-; keeps_solve. Qed.

Lemma bank_send_to_account_keeps s f t d a s' : bank_send_to_account s f t d a = Ok s' -> keeps [GBank] s s'.
Proof. unfold bank_send_to_account. case_match; [discriminate|]. apply bank_send_keeps. Qed.

Lemma bank_mint_keeps s m d a s' : bank_mint s m d a = Ok s' -> keeps [GBank; GSupply] s s'.
Proof. unfold bank_mint. intros H. case_match; try discriminate; injection H as <-; keeps_solve. Qed.

Lemma dep_store_keeps s a c : keeps [GDep] s (dep_store s a c).
Proof. unfold dep_store. case_match; keeps_solve. Qed.

Lemma dep_add_keeps s a d v s' : dep_add s a d v = Ok s' -> keeps [GBank; GDep] s s'.
Proof.
  unfold dep_add. intros H. res_inv. apply bank_send_keeps in Hx. keeps_solve.
Qed.

Lemma dep_to_account_keeps s f t d v s' : dep_to_account s f t d v = Ok s' -> keeps [GBank; GDep] s s'.
Proof.
  unfold dep_to_account. intros H. res_inv. apply bank_send_to_account_keeps in Hx0.
  pose proof (dep_store_keeps x0 f x). keeps_solve.
Qed.

Lemma dep_to_module_keeps s f t d v s' : dep_to_module s f t d v = Ok s' -> keeps [GBank; GDep] s s'.
Proof.
  unfold dep_to_module. intros H. res_inv. apply bank_send_keeps in Hx0.
  pose proof (dep_store_keeps x0 f x). keeps_solve.
Qed.

Lemma z_send_keeps s f t c s' : z_send s f t c = Ok s' -> keeps [GBank] s s'.
Proof. unfold z_send. case_match; [intros [= <-]; apply keeps_refl|apply bank_send_keeps]. Qed.
Lemma fund_pool_keeps s f c s' : fund_pool s f c = Ok s' -> keeps [GBank] s s'.
Proof. unfold fund_pool. case_match; [intros [= <-]; apply keeps_refl|apply bank_send_keeps]. Qed.
Lemma z_dep_add_keeps s a c s' : z_dep_add s a c = Ok s' -> keeps [GBank; GDep] s s'.
Proof. unfold z_dep_add. case_match; [intros [= <-]; apply keeps_refl|apply dep_add_keeps]. Qed.
Lemma z_dep_to_account_keeps s f t c s' : z_dep_to_account s f t c = Ok s' -> keeps [GBank; GDep] s s'.
Proof. unfold z_dep_to_account. case_match; [intros [= <-]; apply keeps_refl|apply dep_to_account_keeps]. Qed.
Lemma z_dep_to_module_keeps s f t c s' : z_dep_to_module s f t c = Ok s' -> keeps [GBank; GDep] s s'.
Proof. unfold z_dep_to_module. case_match; [intros [= <-]; apply keeps_refl|apply dep_to_module_keeps]. Qed.

Lemma set_provider_keeps s p s' : set_provider s p = Ok s' -> keeps [GPv] s s'.
Proof. unfold set_provider. intros H. case_match; try discriminate; injection H as <-; keeps_solve. Qed.
Lemma set_node_keeps s n s' : set_node s n = Ok s' -> keeps [GNode] s s'.
Proof. unfold set_node. intros H. case_match; try discriminate; injection H as <-; keeps_solve. Qed.
Lemma set_plan_keeps s p s' : set_plan s p = Ok s' -> keeps [GPl] s s'.
Proof. unfold set_plan. intros H. case_match; try discriminate; injection H as <-; keeps_solve. Qed.

(* collect the frame facts of every primitive call recorded in the context *)
Ltac pose_keeps :=
  repeat match goal with
  | H : bank_send _ _ _ _ _ = Ok _ |- _ => apply bank_send_keeps in H
  | H : bank_send_to_account _ _ _ _ _ = Ok _ |- _ => apply bank_send_to_account_keeps in H
  | H : bank_mint _ _ _ _ = Ok _ |- _ => apply bank_mint_keeps in H
  | H : dep_add _ _ _ _ = Ok _ |- _ => apply dep_add_keeps in H
  | H : dep_to_account _ _ _ _ _ = Ok _ |- _ => apply dep_to_account_keeps in H
  | H : dep_to_module _ _ _ _ _ = Ok _ |- _ => apply dep_to_module_keeps in H
  | H : z_send _ _ _ _ = Ok _ |- _ => apply z_send_keeps in H
  | H : fund_pool _ _ _ = Ok _ |- _ => apply fund_pool_keeps in H
  | H : z_dep_add _ _ _ = Ok _ |- _ => apply z_dep_add_keeps in H
  | H : z_dep_to_account _ _ _ _ = Ok _ |- _ => apply z_dep_to_account_keeps in H
  | H : z_dep_to_module _ _ _ _ = Ok _ |- _ => apply z_dep_to_module_keeps in H
  | H : set_provider _ _ = Ok _ |- _ => apply set_provider_keeps in H
  | H : set_node _ _ = Ok _ |- _ => apply set_node_keeps in H
  | H : set_plan _ _ = Ok _ |- _ => apply set_plan_keeps in H
  end.

Ltac frame_tac := intros; res_inv; pose_keeps; keeps_solve.

(** * handlers *)

Lemma h_prov_register_keeps s from n i w d s' :
  h_prov_register s from n i w d = Ok s' -> keeps [GBank; GPv] s s'.
Proof. unfold h_prov_register. frame_tac. Qed.

Lemma h_prov_update_keeps s from n i w d st s' :
  h_prov_update s from n i w d st = Ok s' -> keeps [GPv] s s'.
Proof. unfold h_prov_update. intros H. res_inv; repeat case_bool_decide; res_inv; pose_keeps; keeps_solve. Qed.

Lemma h_node_register_keeps s from gb hr url s' :
  h_node_register s from gb hr url = Ok s' -> keeps [GBank; GNode] s s'.
Proof. unfold h_node_register. frame_tac. Qed.

Lemma h_node_update_details_keeps s from gb hr url s' :
  h_node_update_details s from gb hr url = Ok s' -> keeps [GNode] s s'.
Proof. unfold h_node_update_details. frame_tac. Qed.

Lemma h_node_update_status_keeps s from st s' :
  h_node_update_status s from st = Ok s' -> keeps [GNode] s s'.
Proof.
  unfold h_node_update_status. intros H. res_inv; repeat case_bool_decide; res_inv; pose_keeps; keeps_solve.
Qed.

Lemma create_sub_for_node_keeps s acc nd g h dn s' id :
  create_sub_for_node s acc nd g h dn = Ok (s', id) -> keeps [GBank; GDep; GSub] s s'.
Proof. unfold create_sub_for_node. frame_tac. Qed.

Lemma h_node_subscribe_keeps s from nd g h dn s' :
  h_node_subscribe s from nd g h dn = Ok s' -> keeps [GBank; GDep; GSub] s s'.
Proof.
  unfold h_node_subscribe. intros H. res_inv. apply create_sub_for_node_keeps in Hx1. keeps_solve.
Qed.

Lemma h_plan_create_keeps s from du g pr s' : h_plan_create s from du g pr = Ok s' -> keeps [GPl] s s'.
Proof. unfold h_plan_create. frame_tac. Qed.

Lemma h_plan_update_status_keeps s from id st s' : h_plan_update_status s from id st = Ok s' -> keeps [GPl] s s'.
Proof.
  unfold h_plan_update_status. intros H. res_inv; repeat case_bool_decide; res_inv; pose_keeps; keeps_solve.
Qed.

Lemma h_plan_link_keeps s from id nd s' : h_plan_link s from id nd = Ok s' -> keeps [GPl] s s'.
Proof. unfold h_plan_link. frame_tac. Qed.
Lemma h_plan_unlink_keeps s from id nd s' : h_plan_unlink s from id nd = Ok s' -> keeps [GPl] s s'.
Proof. unfold h_plan_unlink. frame_tac. Qed.

Lemma create_sub_for_plan_keeps s acc pid dn s' id :
  create_sub_for_plan s acc pid dn = Ok (s', id) -> keeps [GBank; GSub] s s'.
Proof. unfold create_sub_for_plan. frame_tac. Qed.

Lemma h_plan_subscribe_keeps s from pid dn s' : h_plan_subscribe s from pid dn = Ok s' -> keeps [GBank; GSub] s s'.
Proof.
  unfold h_plan_subscribe. intros H. res_inv. apply create_sub_for_plan_keeps in Hx. keeps_solve.
Qed.

Lemma session_make_pending_keeps s x : keeps [GSess] s (session_make_pending s x).
Proof. unfold session_make_pending. keeps_solve. Qed.

Lemma sub_pending_hook_keeps s id s' : sub_pending_hook s id = Ok s' -> keeps [GSess] s s'.
Proof.
  unfold sub_pending_hook. apply rfold_rel.
  - apply keeps_refl.
  - apply keeps_trans.
  - intros a sid b H. res_inv; try apply keeps_refl. apply session_make_pending_keeps.
Qed.

Lemma detach_payout_keeps s sb m s' :
  (forall s'', m = Ok s'' -> keeps [GSub] s s'') -> detach_payout s sb m = Ok s' -> keeps [GSub] s s'.
Proof.
  unfold detach_payout. intros Hm H. repeat case_match; res_inv; try apply keeps_refl; auto; keeps_solve.
Qed.

Lemma sub_make_pending_keeps s sb : keeps [GSub] s (sub_make_pending s sb).
Proof. unfold sub_make_pending. keeps_solve. Qed.

Lemma h_sub_cancel_keeps s from id s' : h_sub_cancel s from id = Ok s' -> keeps [GSub; GSess] s s'.
Proof.
  unfold h_sub_cancel. intros H. res_inv. apply sub_pending_hook_keeps in Hx1.
  apply detach_payout_keeps in H; [|discriminate].
  pose proof (sub_make_pending_keeps x1 s0). keeps_solve.
Qed.

Lemma h_sub_allocate_keeps s from id to b s' : h_sub_allocate s from id to b = Ok s' -> keeps [GSub] s s'.
Proof. unfold h_sub_allocate. frame_tac. Qed.

Lemma h_sess_start_keeps s from id nd s' : h_sess_start s from id nd = Ok s' -> keeps [GSess] s s'.
Proof. unfold h_sess_start. intros H. res_inv; keeps_solve. Qed.

Lemma h_sess_update_keeps s from id u d du ok s' : h_sess_update s from id u d du ok = Ok s' -> keeps [GSess] s s'.
Proof. unfold h_sess_update. intros H. res_inv; repeat case_bool_decide; res_inv; keeps_solve. Qed.

Lemma h_sess_end_keeps s from id s' : h_sess_end s from id = Ok s' -> keeps [GSess] s s'.
Proof. unfold h_sess_end. intros H. res_inv. apply session_make_pending_keeps. Qed.

Lemma h_swap_keeps s from h r a s' : h_swap s from h r a = Ok s' -> keeps [GBank; GSupply; GSwap] s s'.
Proof. unfold h_swap. frame_tac. Qed.

Definition ALL_TX : list grp := [GBank; GDep; GSupply; GPv; GPl; GNode; GSub; GSess; GSwap].

Lemma handle_keeps s m s' : handle s m = Ok s' -> keeps ALL_TX s s'.
Proof.
  destruct m; simpl; intros H.
  - apply h_prov_register_keeps in H. weaken_to H.
  - apply h_prov_update_keeps in H. weaken_to H.
  - apply h_node_register_keeps in H. weaken_to H.
  - apply h_node_update_details_keeps in H. weaken_to H.
  - apply h_node_update_status_keeps in H. weaken_to H.
  - apply h_node_subscribe_keeps in H. weaken_to H.
  - apply h_plan_create_keeps in H. weaken_to H.
  - apply h_plan_update_status_keeps in H. weaken_to H.
  - apply h_plan_link_keeps in H. weaken_to H.
  - apply h_plan_unlink_keeps in H. weaken_to H.
  - apply h_plan_subscribe_keeps in H. weaken_to H.
  - apply h_sub_cancel_keeps in H. weaken_to H.
  - apply h_sub_allocate_keeps in H. weaken_to H.
  - apply h_sess_start_keeps in H. weaken_to H.
  - apply h_sess_update_keeps in H. weaken_to H.
  - apply h_sess_end_keeps in H. weaken_to H.
  - apply h_swap_keeps in H. weaken_to H.
Qed.

(** * hooks *)

Lemma mint_loop_keeps l : forall s s', mint_loop l s = Ok s' -> keeps [GMint] s s'.
Proof.
  induction l as [|it l IH]; intros s s' H; simpl in H.
  - injection H as <-. apply keeps_refl.
  - destruct (now s <? inf_ts it); [injection H as <-; apply keeps_refl|].
    res_inv. apply IH in H. eapply keeps_trans; [|exact H]. unfold mint_apply. keeps_solve.
Qed.

Lemma mint_begin_block_keeps s s' : mint_begin_block s = Ok s' -> keeps [GMint] s s'.
Proof. apply mint_loop_keeps. Qed.

Lemma payout_step_keeps s e s' : payout_step s e = Ok s' -> keeps [GBank; GDep; GSub] s s'.
Proof. unfold payout_step. intros H. res_inv; pose_keeps; keeps_solve. Qed.

Lemma sub_begin_block_keeps s s' : sub_begin_block s = Ok s' -> keeps [GBank; GDep; GSub] s s'.
Proof.
  unfold sub_begin_block. apply rfold_rel; [apply keeps_refl|apply keeps_trans|].
  intros; eapply payout_step_keeps; eauto.
Qed.

Lemma node_sweep_one_keeps s n s' : node_sweep_one s n = Ok s' -> keeps [GNode] s s'.
Proof. unfold node_sweep_one. frame_tac. Qed.

Lemma node_expire_one_keeps s e s' : node_expire_one s e = Ok s' -> keeps [GNode] s s'.
Proof. unfold node_expire_one. frame_tac. Qed.

Lemma node_end_block_keeps s s' : node_end_block s = Ok s' -> keeps [GNode] s s'.
Proof.
  unfold node_end_block. intros H. res_inv.
  - eapply keeps_trans.
    + eapply (rfold_rel (keeps [GNode])); [apply keeps_refl|apply keeps_trans| |exact Hx].
      intros; eapply node_sweep_one_keeps; eauto.
    + eapply (rfold_rel (keeps [GNode])); [apply keeps_refl|apply keeps_trans| |exact H].
      intros; eapply node_expire_one_keeps; eauto.
  - eapply (rfold_rel (keeps [GNode])); [apply keeps_refl|apply keeps_trans| |exact H].
    intros; eapply node_expire_one_keeps; eauto.
Qed.

Lemma session_inactive_hook_keeps s sid acc nd b s' :
  session_inactive_hook s sid acc nd b = Ok s' -> keeps [GBank; GDep; GSub] s s'.
Proof. unfold session_inactive_hook. intros H. res_inv; pose_keeps; try apply keeps_refl; keeps_solve. Qed.

Lemma session_expire_one_keeps s e s' : session_expire_one s e = Ok s' -> keeps [GBank; GDep; GSub; GSess] s s'.
Proof.
  unfold session_expire_one. intros H. res_inv; [keeps_solve|].
  apply session_inactive_hook_keeps in Hx0. keeps_solve.
Qed.

Lemma session_end_block_keeps s s' : session_end_block s = Ok s' -> keeps [GBank; GDep; GSub; GSess] s s'.
Proof.
  unfold session_end_block. apply rfold_rel; [apply keeps_refl|apply keeps_trans|].
  intros; eapply session_expire_one_keeps; eauto.
Qed.

Lemma sub_refund_keeps s sb s' : sub_refund s sb = Ok s' -> keeps [GBank; GDep] s s'.
Proof. unfold sub_refund. intros H. res_inv; pose_keeps; try apply keeps_refl; keeps_solve. Qed.

Lemma sub_cleanup_keeps s sb : keeps [GSub] s (sub_cleanup s sb).
Proof.
  unfold sub_cleanup. case_match; [keeps_solve|].
  match goal with |- keeps _ _ (fold_left ?ff ?ll ?ss) =>
    assert (Hgen : forall l s1, keeps [GSub] s s1 -> keeps [GSub] s (fold_left ff l s1))
  end.
  { induction l as [|al l IH]; simpl; intros s1 H1; [exact H1|]. apply IH. keeps_solve. }
  apply Hgen. keeps_solve.
Qed.

Lemma sub_delete_payout_keeps s sb s' : sub_delete_payout s sb = Ok s' -> keeps [GSub] s s'.
Proof. unfold sub_delete_payout. intros H. repeat case_match; res_inv; try apply keeps_refl; keeps_solve. Qed.

Lemma sub_expire_one_keeps s e s' : sub_expire_one s e = Ok s' -> keeps [GBank; GDep; GSub; GSess] s s'.
Proof.
  unfold sub_expire_one. intros H. res_inv.
  - apply sub_pending_hook_keeps in Hx. apply detach_payout_keeps in H; [|discriminate].
    pose proof (sub_make_pending_keeps x s0). keeps_solve.
  - apply sub_refund_keeps in Hx. apply sub_delete_payout_keeps in H.
    pose proof (sub_cleanup_keeps x s0). keeps_solve.
Qed.

Lemma sub_end_block_keeps s s' : sub_end_block s = Ok s' -> keeps [GBank; GDep; GSub; GSess] s s'.
Proof.
  unfold sub_end_block. apply rfold_rel; [apply keeps_refl|apply keeps_trans|].
  intros; eapply sub_expire_one_keeps; eauto.
Qed.

Lemma begin_block_keeps s s' : begin_block s = Ok s' -> keeps [GBank; GDep; GSub; GMint] s s'.
Proof.
  unfold begin_block. intros H. res_inv. apply mint_begin_block_keeps in Hx. apply sub_begin_block_keeps in H.
  keeps_solve.
Qed.

Lemma end_block_keeps s s' : end_block s = Ok s' -> keeps [GBank; GDep; GNode; GSub; GSess] s s'.
Proof.
  unfold end_block. intros H. res_inv. apply node_end_block_keeps in Hx. apply session_end_block_keeps in Hx0.
  apply sub_end_block_keeps in H. keeps_solve.
Qed.

Lemma apply_pchange_keeps s c : keeps [GPar] s (apply_pchange s c).
Proof. destruct c; keeps_solve. Qed.

(* an accepted governance operation passed every per-key validator *)
Lemma step_gov_ok s cs s' :
  step s (OGov cs) = OOk s' -> forallb pchange_valid cs = true /\ s' = fold_left apply_pchange cs (clear_events s).
Proof. unfold step. destruct (forallb pchange_valid cs); [|discriminate]. intros [= <-]. auto. Qed.

(* the static configuration never changes *)
Lemma step_cfg s o s' : step s o = OOk s' -> cfg s' = cfg s.
Proof.
  unfold step. destruct o.
  - destruct (begin_block _) eqn:H; try discriminate. intros [= <-]. apply begin_block_keeps in H. keeps_solve.
  - unfold run_tx. destruct (validate_basic m); [|discriminate].
    destruct (handle _ m) eqn:H; try discriminate. intros [= <-]. apply handle_keeps in H. keeps_solve.
  - destruct (forallb pchange_valid cs); [|discriminate]. intros [= <-]. apply (fold_left_inv (fun x => cfg x = cfg s)); [|reflexivity].
    intros x c Hx. pose proof (apply_pchange_keeps x c). keeps_solve.
  - destruct (end_block _) eqn:H; try discriminate. intros [= <-]. apply end_block_keeps in H. keeps_solve.
Qed.
