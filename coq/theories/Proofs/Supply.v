(* Supply and swaps (C14, second half of C01): only an accepted MsgSwap changes
   the supply, by exactly the recorded amount; a hash is swapped at most once. *)
From Hub Require Import Base.Prelude Base.Arith Model.Types Model.Keeper Model.Handlers Model.Hooks Model.Step.
From Hub Require Import Proofs.Tactics Proofs.Frames Proofs.Money.

Definition is_swap (m : msg) : bool := match m with MSwap _ _ _ _ => true | _ => false end.

Definition NOSWAP : list grp := [GBank; GDep; GPv; GPl; GNode; GSub; GSess].

Lemma handle_non_swap_keeps s m s' : is_swap m = false -> handle s m = Ok s' -> keeps NOSWAP s s'.
Proof.
  destruct m; simpl; intros Hm H; try discriminate.
  - apply h_prov_register_keeps in H. weaken_to H.
  - apply h_prov_update_keeps in H. weaken_to H.
  - apply h_node_register_keeps in H. weaken_to H.
  - apply h_node_update_details_keeps in H. weaken_to H.
  - apply h_node_update_status_keeps in H. weaken_to H.
  - apply h_node_subscribe_keeps in H. weaken_to H.
  - apply h_plan_create_keeps in H. weaken_to H.
  - apply h_plan_update_status_keeps in H. weaken_to H.
  - apply h_plan_link_keeps in H. weaken_to H.
  - apply h_plan_unlink_keeps in H. weaken_to H.
  - apply h_plan_subscribe_keeps in H. weaken_to H.
  - apply h_sub_cancel_keeps in H. weaken_to H.
  - apply h_sub_allocate_keeps in H. weaken_to H.
  - apply h_sess_start_keeps in H. weaken_to H.
  - apply h_sess_update_keeps in H. weaken_to H.
  - apply h_sess_end_keeps in H. weaken_to H.
Qed.

(* every operation other than a swap request leaves supply and swap records alone *)
Theorem non_swap_step s o s' :
  (forall m, o = OTx m -> is_swap m = false) -> step s o = OOk s' ->
  supply s' = supply s /\ swaps s' = swaps s.
Proof.
  intros Hm. unfold step. destruct o.
  - destruct (begin_block _) as [x| |] eqn:H; try discriminate. intros [= <-]. apply begin_block_keeps in H. keeps_solve.
  - unfold run_tx. destruct (validate_basic m); [|discriminate].
    destruct (handle _ m) as [x| |] eqn:H; try discriminate. intros [= <-].
    apply handle_non_swap_keeps in H; [|apply Hm; reflexivity]. keeps_solve.
  - destruct (forallb pchange_valid _); [|discriminate]. intros [= <-]. apply (fold_left_inv (fun x => supply x = supply s /\ swaps x = swaps s)); [|split; reflexivity].
    intros x c Hx. pose proof (apply_pchange_keeps x c). keeps_solve.
  - destruct (end_block _) as [x| |] eqn:H; try discriminate. intros [= <-]. apply end_block_keeps in H. keeps_solve.
Qed.

(* what an accepted swap does *)
Theorem swap_step s from hash receiver amount s' :
  step s (OTx (MSwap from hash receiver amount)) = OOk s' ->
  let d := p_swap_denom (pars s) in
  let q := Z.quot amount 100 in
  p_swap_enabled (pars s) = true /\
  p_swap_approver (pars s) = from /\
  swaps s !! hash = None /\
  Z.of_nat (length hash) = 32 /\ 100 <= amount /\
  swaps s' = <[hash := {| sw_hash := hash; sw_receiver := receiver; sw_amount := (d, q) |}]> (swaps s) /\
  supply s' = coins_add (supply s) d q /\
  is_blocked s (ta_bytes receiver) = false /\
  (forall x d', x <> c_swap (cfg s) ->
     bal s' x d' = bal s x d' + delta (bool_decide (ta_bytes receiver = x /\ d = d')) q).
Proof.
  unfold step, run_tx. destruct (validate_basic _) eqn:Hv; [|discriminate].
  destruct (handle _ _) as [x| |] eqn:H; try discriminate. intros [= <-]. simpl in H.
  unfold h_swap in H. res_inv. simpl in *.
  match goal with Hq : int_quo amount 100 = Ok ?q |- _ => unfold int_quo in Hq; simpl in Hq; injection Hq as <- end.
  match goal with Hn : new_coin _ _ = Ok ?c |- _ =>
    unfold new_coin in Hn; destruct (Z.quot amount 100 <? 0) eqn:E; [discriminate|]; injection Hn as <- end.
  simpl in *.
  match goal with He : ta_eqb _ _ = true |- _ => unfold ta_eqb in He; apply bool_decide_eq_true in He end.
  match goal with He : negb (bool_decide (is_Some _)) = true |- _ => apply negb_true_iff, bool_decide_eq_false in He; rename He into Hnone end.
  match goal with Hm : bank_mint _ _ _ _ = Ok ?sm, Hs : bank_send_to_account ?sm _ _ _ _ = Ok ?ss |- _ =>
    rename Hm into Hmint; rename sm into sm; rename ss into ss;
    apply bank_send_to_account_inv in Hs as [Hbl Hsend] end.
  match goal with Hm : bank_mint _ _ _ _ = Ok ?sm |- _ => pose proof (bank_mint_bal _ _ _ _ _ Hm) as Hb1; pose proof (bank_mint_keeps _ _ _ _ _ Hm) as Hk1 end.
  match goal with Hs : bank_send ?sm _ _ _ _ = Ok ?ss |- _ =>
    destruct (bank_send_bal _ _ _ _ _ _ Hs) as [_ Hb2]; pose proof (bank_send_keeps _ _ _ _ _ _ Hs) as Hk2;
    assert (Hc4 : cfg sm = cfg s) by keeps_solve;
    assert (Hsw : swaps ss = swaps s) by keeps_solve;
    assert (Hsu : supply ss = supply sm) by keeps_solve end.
  repeat rewrite andb_true_iff in Hv. destruct Hv as ((((_ & _) & Hlen) & Hamt) & _).
  repeat split; auto.
  - destruct (swaps s !! hash) eqn:E2; [|reflexivity]. exfalso. apply Hnone. eauto.
  - lia.
  - lia.
  - rewrite Hsw. reflexivity.
  - rewrite Hsu. unfold bank_mint in Hmint. destruct (Z.quot amount 100 <=? 0); [discriminate|]. injection Hmint as <-. reflexivity.
  - unfold is_blocked in *. simpl in *. rewrite Hc4 in Hbl. exact Hbl.
  - intros y d' Hy. match goal with |- bal (emit _ (?ss <| swaps ::= _ |>)) _ _ = _ => transitivity (bal ss y d'); [reflexivity|] end.
    rewrite Hb2, Hb1. change (bal (clear_events s) y d') with (bal s y d'). solve_delta.
Qed.

(* a hash that has been swapped is never swapped again *)
Theorem swap_once s from hash receiver amount w :
  swaps s !! hash = Some w -> step s (OTx (MSwap from hash receiver amount)) = ORejected.
Proof.
  intros Hw. destruct (step s _) as [s'| |] eqn:E; try reflexivity.
  - apply swap_step in E. cbv zeta in E. destruct E as (_ & _ & Hn & _). simpl in Hn. congruence.
  - unfold step in E. destruct (run_tx _ _); discriminate.
Qed.

(* recorded swaps are never removed or altered *)
Theorem swaps_monotone s o s' h w : step s o = OOk s' -> swaps s !! h = Some w -> swaps s' !! h = Some w.
Proof.
  intros H Hw. destruct o as [t|m|cs|].
  2: destruct (is_swap m) eqn:Em.
  2: { destruct m; try discriminate. pose proof H as H'. apply swap_step in H'. cbv zeta in H'.
       destruct H' as (_ & _ & Hn & _ & _ & Hs & _). rewrite Hs.
       rewrite lookup_insert_ne; [exact Hw|]. intros ->. congruence. }
  all: apply non_swap_step in H as [_ Hs]; [rewrite Hs; exact Hw|].
  all: intros m' E; try discriminate. injection E as <-. exact Em.
Qed.

(** * supply = genesis supply + sum of the recorded swaps *)

Definition swap_total (s : state) (d : denom) : Z :=
  msum (fun w => if bool_decide ((sw_amount w).1 = d) then (sw_amount w).2 else 0) (swaps s).

Theorem supply_tracks_swaps s o s' d :
  step s o = OOk s' ->
  amount_of (supply s') d - amount_of (supply s) d = swap_total s' d - swap_total s d.
Proof.
  intros H. destruct o as [t|m|cs|].
  2: destruct (is_swap m) eqn:Em.
  2: { destruct m; try discriminate. apply swap_step in H. cbv zeta in H.
       destruct H as (_ & _ & Hn & _ & _ & Hs & Hsup & _).
       unfold swap_total. rewrite Hs, Hsup, msum_insert_fresh by exact Hn. simpl.
       rewrite amount_of_coins_add. case_bool_decide; lia. }
  all: apply non_swap_step in H as [Hs Hw]; [unfold swap_total; rewrite Hs, Hw; lia|].
  all: intros m' E; try discriminate. injection E as <-. exact Em.
Qed.

Theorem supply_tracks_swaps_run ops : forall s i s' d,
  run_from s ops i = RunOk s' ->
  amount_of (supply s') d - amount_of (supply s) d = swap_total s' d - swap_total s d.
Proof.
  induction ops as [|o ops IH]; simpl; intros s i s' d H.
  - injection H as <-. lia.
  - destruct (step s o) as [s1| |] eqn:E; try discriminate.
    + pose proof (supply_tracks_swaps _ _ _ d E). pose proof (IH _ _ _ d H). lia.
    + pose proof (IH _ _ _ d H) as H1. exact H1.
Qed.
