(* Calendar: [civil_from_days] is strictly monotone (lexicographically in
   year, month, day) for ALL day numbers.  Within one 400-year era (146097 days) this
   is a complete sweep by computation; the era structure of the definition (year =
   year-of-era + 400*era) lifts it to every era ([civil_step]). *)
From Hub Require Import Base.Prelude Base.Bytes Base.Time Proofs.BytesThm.
From Coq Require Import ZifyN ZifyNat ZifyBool.

(* ---- comparison helpers ---- *)
Definition lex (c d : comparison) : comparison := match c with Eq => d | _ => c end.

Lemma cmp_divmod (B a b : Z) : 0 < B ->
  Z.compare a b = lex (Z.compare (a / B) (b / B)) (Z.compare (a mod B) (b mod B)).
Proof.
  intros HB.
  assert (Ha := Z.div_mod a B ltac:(lia)). assert (Hb := Z.div_mod b B ltac:(lia)).
  assert (Ha' := Z.mod_pos_bound a B HB). assert (Hb' := Z.mod_pos_bound b B HB).
  destruct (Z.compare_spec (a / B) (b / B)) as [He|Hlt|Hgt]; cbn [lex].
  - destruct (Z.compare_spec (a mod B) (b mod B)) as [He2|Hlt2|Hgt2].
    + apply Z.compare_eq_iff. lia.
    + apply Z.compare_lt_iff. lia.
    + apply Z.compare_gt_iff. lia.
  - apply Z.compare_lt_iff. nia.
  - apply Z.compare_gt_iff. nia.
Qed.

(* ---- one era, by computation ---- *)
Definition code (c : Z * Z * Z) : Z := let '(y, m, d) := c in y * 10000 + m * 100 + d.

Definition range_ok (doe : Z) : bool :=
  let '(y, m, d) := civil_of_doe doe in
  (1 <=? m) && (m <=? 12) && (1 <=? d) && (d <=? 31) && (0 <=? y) && (y <=? 400).

Definition step_ok (doe : Z) : bool :=
  (code (civil_of_doe doe) <? code (civil_of_doe (doe + 1))) && range_ok doe.

Fixpoint sweep (fuel : nat) (i : Z) (f : Z -> bool) : bool :=
  match fuel with
  | O => true
  | S k => f i && sweep k (i + 1) f
  end.

Lemma sweep_sound f : forall fuel i, sweep fuel i f = true ->
  forall j, i <= j < i + Z.of_nat fuel -> f j = true.
Proof.
  induction fuel as [|k IH]; intros i H j Hj; [lia|].
  cbn [sweep] in H. apply andb_true_iff in H as [H1 H2].
  destruct (Z.eq_dec j i) as [->|Hne]; [exact H1|].
  apply (IH (i + 1)); [exact H2|lia].
Qed.

Definition ERA_DAYS : Z := 146097.

Lemma era_sweep : sweep (Z.to_nat (ERA_DAYS - 1)) 0 step_ok = true.
Proof. vm_compute. reflexivity. Qed.

Lemma era_step doe : 0 <= doe < ERA_DAYS - 1 -> step_ok doe = true.
Proof.
  intros H. apply (sweep_sound step_ok _ 0 era_sweep).
  rewrite Z2Nat.id by (unfold ERA_DAYS; lia). lia.
Qed.

Lemma era_last : range_ok (ERA_DAYS - 1) = true /\
  code (civil_of_doe (ERA_DAYS - 1)) < code (civil_of_doe 0) + 400 * 10000.
Proof. vm_compute. split; reflexivity. Qed.

Lemma era_range doe : 0 <= doe < ERA_DAYS -> range_ok doe = true.
Proof.
  intros H. destruct (Z.eq_dec doe (ERA_DAYS - 1)) as [->|Hne]; [apply era_last|].
  assert (Hs := era_step doe ltac:(lia)). unfold step_ok in Hs.
  apply andb_true_iff in Hs. apply Hs.
Qed.

(* ---- all eras ---- *)
Lemma civil_from_days_era era doe : 0 <= doe < ERA_DAYS ->
  civil_from_days (ERA_DAYS * era + doe - 719468) =
  let '(y, m, d) := civil_of_doe doe in (y + era * 400, m, d).
Proof.
  intros H. unfold civil_from_days.
  replace (ERA_DAYS * era + doe - 719468 + 719468) with (ERA_DAYS * era + doe) by lia.
  change 146097 with ERA_DAYS.
  rewrite <- (Z.div_unique (ERA_DAYS * era + doe) ERA_DAYS era doe) by first [left; lia | reflexivity].
  rewrite <- (Z.mod_unique (ERA_DAYS * era + doe) ERA_DAYS era doe) by first [left; lia | reflexivity].
  reflexivity.
Qed.

Lemma days_split days : exists era doe, 0 <= doe < ERA_DAYS /\ days = ERA_DAYS * era + doe - 719468.
Proof.
  exists ((days + 719468) / ERA_DAYS), ((days + 719468) mod ERA_DAYS).
  split; [apply Z.mod_pos_bound; reflexivity|].
  assert (H := Z.div_mod (days + 719468) ERA_DAYS ltac:(discriminate)). lia.
Qed.

Lemma code_era era doe : 0 <= doe < ERA_DAYS ->
  code (civil_from_days (ERA_DAYS * era + doe - 719468)) = code (civil_of_doe doe) + era * 4000000.
Proof.
  intros H. rewrite civil_from_days_era by exact H.
  destruct (civil_of_doe doe) as [[y m] d]. cbn [code]. lia.
Qed.

Lemma civil_step days : code (civil_from_days days) < code (civil_from_days (days + 1)).
Proof.
  destruct (days_split days) as (era & doe & Hd & ->).
  rewrite code_era by exact Hd.
  destruct (Z.eq_dec doe (ERA_DAYS - 1)) as [->|Hne].
  - replace (ERA_DAYS * era + (ERA_DAYS - 1) - 719468 + 1) with (ERA_DAYS * (era + 1) + 0 - 719468) by lia.
    rewrite code_era by (unfold ERA_DAYS; lia).
    destruct era_last as [_ Hl]. lia.
  - replace (ERA_DAYS * era + doe - 719468 + 1) with (ERA_DAYS * era + (doe + 1) - 719468) by lia.
    rewrite code_era by lia.
    assert (Hs := era_step doe ltac:(lia)). unfold step_ok in Hs.
    apply andb_true_iff in Hs as [Hs _]. lia.
Qed.

Lemma civil_mono_lt d1 d2 : d1 < d2 -> code (civil_from_days d1) < code (civil_from_days d2).
Proof.
  intros H. replace d2 with (d1 + 1 + Z.of_nat (Z.to_nat (d2 - d1 - 1))) by lia.
  induction (Z.to_nat (d2 - d1 - 1)) as [|n IH].
  - rewrite Z.add_0_r. apply civil_step.
  - eapply Z.lt_trans; [exact IH|].
    replace (d1 + 1 + Z.of_nat (S n)) with (d1 + 1 + Z.of_nat n + 1) by lia. apply civil_step.
Qed.

Lemma civil_code_cmp d1 d2 : Z.compare (code (civil_from_days d1)) (code (civil_from_days d2)) = Z.compare d1 d2.
Proof.
  destruct (Z.compare_spec d1 d2) as [->|H|H].
  - apply Z.compare_refl.
  - apply Z.compare_lt_iff, civil_mono_lt, H.
  - apply Z.compare_gt_iff, civil_mono_lt, H.
Qed.

Lemma civil_range days : let '(y, m, d) := civil_from_days days in 1 <= m <= 12 /\ 1 <= d <= 31.
Proof.
  destruct (days_split days) as (era & doe & Hd & ->).
  rewrite civil_from_days_era by exact Hd.
  assert (Hr := era_range doe Hd). unfold range_ok in Hr.
  destruct (civil_of_doe doe) as [[y m] d]. lia.
Qed.

(* with months and days in range, the code orders triples lexicographically *)
Lemma code_lex y1 m1 d1 y2 m2 d2 :
  1 <= m1 <= 12 -> 1 <= d1 <= 31 -> 1 <= m2 <= 12 -> 1 <= d2 <= 31 ->
  Z.compare (code (y1, m1, d1)) (code (y2, m2, d2)) =
  lex (Z.compare y1 y2) (lex (Z.compare m1 m2) (Z.compare d1 d2)).
Proof.
  intros Hm1 Hd1 Hm2 Hd2. cbn [code].
  destruct (Z.compare_spec y1 y2) as [->|H|H]; cbn [lex].
  - destruct (Z.compare_spec m1 m2) as [->|H|H]; cbn [lex].
    + destruct (Z.compare_spec d1 d2) as [->|H|H];
        [apply Z.compare_refl|apply Z.compare_lt_iff; lia|apply Z.compare_gt_iff; lia].
    + apply Z.compare_lt_iff; lia.
    + apply Z.compare_gt_iff; lia.
  - apply Z.compare_lt_iff; lia.
  - apply Z.compare_gt_iff; lia.
Qed.

