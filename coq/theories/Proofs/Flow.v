(* C01 (second half): where coins can arrive.  In one whole operation (any transaction, either block hook with
   all its loop iterations, governance) an account's balance grows only if it is the escrow account, the fee
   collector, the community pool (distribution module), the provider of a stored plan, the node of a stored
   payout or session, the subscriber of a stored subscription or payout -- or, for a swap, the named receiver. *)
From Hub Require Import Base.Prelude Base.Arith Model.Types Model.Keeper Model.Handlers Model.Hooks Model.Step.
From Hub Require Import Proofs.Tactics Proofs.ArithThm Proofs.Frames Proofs.Money Proofs.KeysInv Proofs.Lifecycle Proofs.Pricing
  Proofs.Ledger2.

Definition gains (s s' : state) (x : addr) : Prop := exists d, bal s x d < bal s' x d.

Lemma gains_trans s y y' x : gains s y' x -> gains s y x \/ gains y y' x.
Proof. intros [d H]. destruct (Z_lt_le_dec (bal s x d) (bal y x d)); [left|right]; exists d; lia. Qed.
Lemma gains_same s s' x : (forall a d, bal s' a d = bal s a d) -> ~ gains s s' x.
Proof. intros E [d H]. rewrite E in H. lia. Qed.
Lemma gains_bank s s' x : bank s' = bank s -> ~ gains s s' x.
Proof. intros E. apply gains_same. intros a d. unfold bal. rewrite E. reflexivity. Qed.

(* one transfer: only the recipient can gain *)
Lemma moved_gain f t d amt x d' : 0 <= amt -> 0 < moved f t d amt x d' -> x = t.
Proof. unfold moved, delta. intros Ha H. repeat case_bool_decide; first [lia | intuition congruence]. Qed.

Lemma gains_moved1 s s' f t d amt x :
  0 <= amt -> (forall a d', bal s' a d' = bal s a d' + moved f t d amt a d') -> gains s s' x -> x = t.
Proof. intros Ha E [d' H]. rewrite E in H. apply (moved_gain f t d amt x d' Ha). lia. Qed.

Lemma gains_moved2 s s' f t1 t2 d a1 a2 x :
  0 <= a1 -> 0 <= a2 -> (forall a d', bal s' a d' = bal s a d' + moved f t1 d a1 a d' + moved f t2 d a2 a d') ->
  gains s s' x -> x = t1 \/ x = t2.
Proof.
  intros H1 H2 E [d' H]. rewrite E in H.
  destruct (Z_lt_le_dec 0 (moved f t1 d a1 x d')) as [G|G]; [left; exact (moved_gain f t1 d a1 x d' H1 G)|].
  right. apply (moved_gain f t2 d a2 x d' H2). lia.
Qed.

(** * who may receive coins, seen from a state *)

Definition recipient (s : state) (x : addr) : Prop :=
  x = c_deposit (cfg s) \/ x = c_feecoll (cfg s) \/ x = c_distr (cfg s) \/
  (exists id p, get_plan s id = Some p /\ pl_prov p = x) \/
  (exists id po, payouts s !! id = Some po /\ (po_node po = x \/ po_addr po = x)) \/
  (exists id y, sessions s !! id = Some y /\ ss_node y = x) \/
  (exists id sb, subs s !! id = Some sb /\ sb_addr sb = x).

(* records keep their parties, so a recipient of a later state of the same operation was one at its start *)
Lemma recipient_evo s y x :
  cfg y = cfg s -> plan_act y = plan_act s -> plan_inact y = plan_inact s -> sub_evo s y -> sess_evo s y ->
  recipient y x -> recipient s x.
Proof.
  intros Ec Ea Ei [_ Es Ep] [_ Ess] H. unfold recipient in *. rewrite Ec in H.
  destruct H as [H|[H|[H|[(id & p & Hp & E)|[(id & po & Hpo & E)|[(id & z & Hz & E)|(id & sb & Hsb & E)]]]]]]; auto.
  - right; right; right; left. exists id, p. unfold get_plan in *. rewrite Ea, Ei in Hp. auto.
  - right; right; right; right; left. destruct (Ep _ _ Hpo) as (po0 & Hpo0 & (_ & A1 & A2 & _)). exists id, po0. split; [exact Hpo0|]. destruct E; [left|right]; congruence.
  - right; right; right; right; right; left. destruct (Ess _ _ Hz) as (z0 & Hz0 & (_ & _ & A & _)). exists id, z0. split; [exact Hz0|congruence].
  - right; right; right; right; right; right. destruct (Es _ _ Hsb) as (sb0 & Hsb0 & (_ & A & _)). exists id, sb0. split; [exact Hsb0|congruence].
Qed.

(** * the loop iterations of the hooks *)

Lemma flow_payout_step s e s' x : payout_step s e = Ok s' -> gains s s' x -> recipient s x.
Proof.
  intros H G. destruct (payout_split _ _ _ H) as (po & fee & Hpo & _ & Hfee & E).
  assert (F1 : 0 <= fee) by lia. assert (F2 : 0 <= (po_price po).2 - fee) by lia.
  destruct (gains_moved2 _ _ _ _ _ _ _ _ _ F1 F2 E G) as [->| ->]; unfold recipient; [auto|].
  right; right; right; right; left. exists e.2, po. auto.
Qed.

Lemma flow_session_expire_one s e s' x : session_expire_one s e = Ok s' -> gains s s' x -> recipient s x.
Proof.
  intros H G. unfold session_expire_one in H. destruct (sessions s !! e.2) as [z|] eqn:Hz; [|discriminate].
  case_bool_decide.
  - injection H as <-. exfalso. eapply gains_bank; [|exact G]. reflexivity.
  - apply rbind_ok in H as (total & _ & H). apply rbind_ok in H as (s1 & Hh & H). apply must_ok in Hh. injection H as <-.
    assert (G1 : gains s s1 x) by (destruct G as [d Hd]; exists d; exact Hd).
    destruct (settlement_split _ _ _ _ _ _ Hh) as [E|(dn & pay & fee & _ & Hfee & E)].
    + exfalso. eapply (gains_same (s <| sess_q ::= _ |>) s1 x); [exact E|]. destruct G1 as [d Hd]. exists d. exact Hd.
    + assert (G2 : gains (s <| sess_q ::= fun q => q ∖ {[ (ss_inactive_at z, ss_id z) ]} |>) s1 x) by (destruct G1 as [d Hd]; exists d; exact Hd).
      assert (F1 : 0 <= fee) by lia. assert (F2 : 0 <= pay - fee) by lia.
      destruct (gains_moved2 _ _ _ _ _ _ _ _ _ F1 F2 E G2) as [->| ->]; unfold recipient; simpl; [auto|].
      right; right; right; right; right; left. exists e.2, z. auto.
Qed.

Lemma flow_sub_refund s sb s' x :
  sub_refund s sb = Ok s' -> gains s s' x ->
  x = sb_addr sb \/ exists po, payouts s !! sb_id sb = Some po /\ po_addr po = x.
Proof.
  intros H G. unfold sub_refund in H. destruct (sb_kind sb) as [nd g h dep|pid dn]; [|injection H as <-; exfalso; eapply gains_bank; [|exact G]; reflexivity].
  apply rbind_ok in H as (s1 & H1 & H).
  assert (F1 : (forall a d, bal s1 a d = bal s a d) \/ (payouts s1 = payouts s /\ forall y, gains s s1 y -> y = sb_addr sb)).
  { destruct (negb (g =? 0)); [|injection H1 as <-; left; reflexivity].
    apply rbind_ok in H1 as (pr & _ & H1). apply rbind_ok in H1 as (u & _ & H1).
    destruct (allocs s !! (sb_id sb, sb_addr sb)) as [al|]; [|discriminate].
    apply rbind_ok in H1 as (paid & _ & H1). apply rbind_ok in H1 as (r & _ & H1). apply rbind_ok in H1 as (refund & Hrf & H1).
    apply rbind_ok in H1 as (s0 & Hs0 & H1). apply must_ok in Hs0. injection H1 as <-.
    change (z_dep_to_account s (sb_addr sb) (sb_addr sb) refund = Ok s0) in Hs0.
    destruct (z_dep_to_account_bal _ _ _ _ _ Hs0) as (R0 & _ & E). pose proof (z_dep_to_account_keeps _ _ _ _ _ Hs0) as K.
    right. split; [simpl; keeps_solve|]. intros y Gy.
    assert (Gy0 : gains s s0 y) by (destruct Gy as [d Hd]; exists d; exact Hd).
    exact (gains_moved1 _ _ _ _ _ _ _ R0 E Gy0). }
  destruct (negb (h =? 0)).
  - destruct (payouts s1 !! sb_id sb) as [po|] eqn:Hpo; [|discriminate].
    apply rbind_ok in H as (r & _ & H). apply rbind_ok in H as (refund & _ & H). apply rbind_ok in H as (s2 & Hs2 & H). apply must_ok in Hs2. injection H as <-.
    change (z_dep_to_account s1 (po_addr po) (po_addr po) refund = Ok s2) in Hs2.
    destruct (z_dep_to_account_bal _ _ _ _ _ Hs2) as (R0 & _ & E).
    assert (G' : gains s s2 x) by (destruct G as [d Hd]; exists d; exact Hd).
    destruct (gains_trans _ s1 _ _ G') as [Ga|Gb].
    + destruct F1 as [F|[_ F]]; [exfalso; eapply gains_same; eauto|left; apply F; exact Ga].
    + right. exists po. split; [|symmetry; exact (gains_moved1 _ _ _ _ _ _ _ R0 E Gb)].
      destruct F1 as [F|[F _]]; [|rewrite <- F; exact Hpo].
      (* the first part did not run: s1 = s *)
      destruct (g =? 0) eqn:Eg; simpl in H1; [injection H1 as <-; exact Hpo|].
      revert Hpo. apply rbind_ok in H1 as (pr & _ & H1). apply rbind_ok in H1 as (u & _ & H1).
      destruct (allocs s !! (sb_id sb, sb_addr sb)) as [al|]; [|discriminate].
      apply rbind_ok in H1 as (paid & _ & H1). apply rbind_ok in H1 as (r' & _ & H1). apply rbind_ok in H1 as (refund' & _ & H1).
      apply rbind_ok in H1 as (s0 & Hs0 & H1). apply must_ok in Hs0. injection H1 as <-.
      change (z_dep_to_account s (sb_addr sb) (sb_addr sb) refund' = Ok s0) in Hs0. apply z_dep_to_account_keeps in Hs0.
      simpl. replace (payouts s0) with (payouts s) by (symmetry; keeps_solve). auto.
  - injection H as <-. destruct F1 as [F|[_ F]]; [exfalso; eapply gains_same; eauto|left; apply F; exact G].
Qed.

Lemma flow_sub_expire_one s e s' x : kinv s -> sub_expire_one s e = Ok s' -> gains s s' x -> recipient s x.
Proof.
  intros Hi H G. unfold sub_expire_one in H. destruct (subs s !! e.2) as [sb|] eqn:Hsb; [|discriminate].
  destruct (k_sub _ (ki_sub _ Hi) _ _ Hsb) as (Eid & _).
  case_bool_decide.
  - exfalso. apply rbind_ok in H as (s1 & Hp & H). apply must_ok, sub_pending_hook_keeps in Hp.
    pose proof (sub_make_pending_keeps s1 sb) as K2. apply detach_payout_keeps in H; [|discriminate].
    eapply (gains_bank s s' x); [keeps_solve|exact G].
  - apply rbind_ok in H as (s1 & Hr & H).
    pose proof (sub_cleanup_keeps s1 sb) as Kc. apply sub_delete_payout_keeps in H.
    assert (Eb : bank s' = bank s1) by keeps_solve.
    assert (G1 : gains (s <| sub_q ::= fun q => q ∖ {[ (sb_inactive_at sb, sb_id sb) ]} |>) s1 x).
    { destruct G as [d Hd]. exists d. unfold bal in *. rewrite Eb in Hd. exact Hd. }
    destruct (flow_sub_refund _ _ _ _ Hr G1) as [->|(po & Hpo & <-)]; unfold recipient.
    + right; right; right; right; right; right. exists e.2, sb. auto.
    + right; right; right; right; left. exists (sb_id sb), po. simpl in Hpo. auto.
Qed.

(** * transactions *)

Lemma flow_fund_pool s a c s' x : fund_pool s a c = Ok s' -> gains s s' x -> x = c_distr (cfg s).
Proof.
  unfold fund_pool. destruct (c.2 =? 0) eqn:E; [intros [= <-] G; exfalso; eapply gains_bank; [|exact G]; reflexivity|].
  intros H G. destruct (bank_send_bal _ _ _ _ _ _ H) as [H0 Hb].
  eapply (gains_moved1 s s' a (c_distr (cfg s)) c.1 c.2 x H0); [|exact G]. intros y d'. rewrite Hb. unfold moved. lia.
Qed.

Lemma flow_create_sub_for_node s acc nd g h dn s' id x :
  create_sub_for_node s acc nd g h dn = Ok (s', id) -> gains s s' x -> x = c_deposit (cfg s).
Proof.
  intros H G. unfold create_sub_for_node in H. destruct (get_node s nd) as [n|]; [|discriminate].
  apply rbind_ok in H as (u & _ & H). apply rbind_ok in H as ([i1 d1] & _ & H). apply rbind_ok in H as ([i2 d2] & _ & H).
  apply rbind_ok in H as (s1 & Hs1 & H). destruct (z_dep_add_bal _ _ _ _ Hs1) as [R0 E].
  apply rbind_ok in H as (s3 & Hs3 & H). apply rbind_ok in H as (s4 & Hs4 & H). injection H as <- _.
  assert (Eb : bank s4 = bank s1).
  { transitivity (bank s3).
    - destruct (negb (h =? 0)); [|injection Hs4 as <-; reflexivity]. apply rbind_ok in Hs4 as (pr & _ & Hs4). apply rbind_ok in Hs4 as (pc & _ & Hs4). injection Hs4 as <-. reflexivity.
    - destruct (negb (g =? 0)); [|injection Hs3 as <-; reflexivity]. apply rbind_ok in Hs3 as (gg & _ & Hs3). injection Hs3 as <-. reflexivity. }
  assert (G1 : gains s s1 x) by (destruct G as [d Hd]; exists d; unfold bal in *; rewrite Eb in Hd; exact Hd).
  exact (gains_moved1 _ _ _ _ _ _ _ R0 E G1).
Qed.

Lemma flow_create_sub_for_plan s acc pid dn s' id x :
  create_sub_for_plan s acc pid dn = Ok (s', id) -> gains s s' x ->
  x = c_feecoll (cfg s) \/ exists p, get_plan s pid = Some p /\ pl_prov p = x.
Proof.
  intros H G. destruct (plan_subscribe_pays _ _ _ _ _ _ H) as (p & price & fee & Hp & _ & _ & _ & Hfee & E).
  assert (F1 : 0 <= fee) by lia. assert (F2 : 0 <= price - fee) by lia.
  destruct (gains_moved2 _ _ _ _ _ _ _ _ _ F1 F2 E G) as [->| ->]; [left; reflexivity|right; eauto].
Qed.

Lemma flow_handle s m s' x :
  handle s m = Ok s' -> gains s s' x ->
  recipient s x \/ (exists from hash receiver amount, m = MSwap from hash receiver amount /\ x = ta_bytes receiver).
Proof.
  intros H G. destruct m; simpl in H.
  all: try (exfalso; eapply (gains_bank s s' x); [handler_keeps H; keeps_solve|exact G]; fail).
  - (* provider registration: the deposit goes to the community pool *)
    left. unfold h_prov_register in H. res_inv.
    match goal with Hf : fund_pool s _ _ = Ok ?y, Hs : set_provider ?y _ = Ok ?z |- _ =>
      apply set_provider_keeps in Hs;
      assert (G1 : gains s y x) by (destruct G as [d Hd]; exists d; unfold bal in *; replace (bank y) with (bank z) by (symmetry; keeps_solve); exact Hd);
      rewrite (flow_fund_pool _ _ _ _ _ Hf G1) end. unfold recipient. auto.
  - (* node registration *)
    left. unfold h_node_register in H. res_inv.
    match goal with Hf : fund_pool s _ _ = Ok ?y, Hs : set_node ?y _ = Ok ?z |- _ =>
      apply set_node_keeps in Hs;
      assert (G1 : gains s y x) by (destruct G as [d Hd]; exists d; unfold bal in *; replace (bank y) with (bank z) by (symmetry; keeps_solve); exact Hd);
      rewrite (flow_fund_pool _ _ _ _ _ Hf G1) end. unfold recipient. auto.
  - (* node subscription: into the escrow *)
    left. unfold h_node_subscribe in H. res_inv.
    match goal with Hc : create_sub_for_node _ _ _ _ _ _ = Ok (?y, _) |- _ =>
      assert (G1 : gains s y x) by (destruct G as [d Hd]; exists d; exact Hd); rewrite (flow_create_sub_for_node _ _ _ _ _ _ _ _ _ Hc G1) end.
    unfold recipient. auto.
  - (* plan subscription: fee collector and the plan's provider *)
    left. unfold h_plan_subscribe in H. res_inv.
    match goal with Hc : create_sub_for_plan _ _ _ _ = Ok (?y, _) |- _ =>
      assert (G1 : gains s y x) by (destruct G as [d Hd]; exists d; exact Hd);
      destruct (flow_create_sub_for_plan _ _ _ _ _ _ _ Hc G1) as [->|(p & Hp & <-)] end; unfold recipient; [auto|].
    right; right; right; left. eauto.
  - (* swap: minted to the swap module and passed on to the receiver *)
    right. unfold h_swap in H. res_inv.
    match goal with Hm : bank_mint s ?m ?d ?a = Ok ?y, Hs : bank_send_to_account ?y _ _ _ _ = Ok ?z |- _ =>
      pose proof (bank_mint_bal _ _ _ _ _ Hm) as E1; apply bank_send_to_account_inv in Hs as [_ Hs];
      destruct (bank_send_bal _ _ _ _ _ _ Hs) as [R0 E2] end.
    exists from, hash, receiver, amount. split; [reflexivity|].
    destruct G as [d Hd]. simpl in Hd. unfold bal in Hd. simpl in Hd.
    match goal with |- x = ?r => destruct (decide (x = r)) as [->|Hne]; [reflexivity|exfalso] end.
    match type of E2 with forall x0 d', bal ?z x0 d' = _ => assert (Hz : bal z x d = bal s x d + delta (bool_decide (c_swap (cfg s) = x /\ _ = d)) _ + _ - _) by (rewrite E2, E1; reflexivity) end.
    revert Hd Hz. unfold bal. simpl. unfold delta. intros Hd Hz.
    repeat case_bool_decide; try lia; try (destruct_and?; subst; try congruence; lia); naive_solver lia.
Qed.

(** * loops, hooks, one whole operation *)

Definition flow_inv (s y : state) : Prop :=
  kinv y /\ sess_evo s y /\ sub_evo s y /\ cfg y = cfg s /\ plan_act y = plan_act s /\ plan_inact y = plan_inact s /\
  forall x, gains s y x -> recipient s x.

Lemma flow_inv_refl s : kinv s -> flow_inv s s.
Proof.
  intros Hi. split; [exact Hi|]. split; [apply sess_evo_refl|]. split; [apply sub_evo_refl|]. repeat (split; [reflexivity|]).
  intros x [d H]. lia.
Qed.

Lemma flow_inv_step s a b :
  flow_inv s a -> kinv b -> sess_evo a b -> sub_evo a b -> cfg b = cfg a -> plan_act b = plan_act a -> plan_inact b = plan_inact a ->
  (forall x, gains a b x -> recipient a x) -> flow_inv s b.
Proof.
  intros (Ka & Sa & Ua & Ca & Pa & Pi & Ga) Kb Sb Ub Cb Pb Pib Gb.
  split; [exact Kb|]. split; [eapply sess_evo_trans; eauto|]. split; [eapply sub_evo_trans; eauto|].
  split; [congruence|]. split; [congruence|]. split; [congruence|].
  intros x G. destruct (gains_trans _ a _ _ G) as [G1|G2]; [apply Ga; exact G1|].
  eapply recipient_evo; [exact Ca|exact Pa|exact Pi|exact Ua|exact Sa|apply Gb; exact G2].
Qed.

Lemma flow_rfold {A} (f : state -> A -> res state) l : forall s s',
  kinv s ->
  (forall a e b, kinv a -> f a e = Ok b ->
     kinv b /\ sess_evo a b /\ sub_evo a b /\ cfg b = cfg a /\ plan_act b = plan_act a /\ plan_inact b = plan_inact a /\
     forall x, gains a b x -> recipient a x) ->
  rfold f l s = Ok s' -> flow_inv s s'.
Proof.
  intros s s' Hi Hf H. eapply (rfold_inv (flow_inv s)); [|apply flow_inv_refl; exact Hi|exact H].
  intros a e b Ha Hstep. destruct (Hf a e b (proj1 Ha) Hstep) as (K & S & U & C & P1 & P2 & G).
  eapply flow_inv_step; eauto.
Qed.

Lemma flow_sub_begin_block s s' : kinv s -> sub_begin_block s = Ok s' -> flow_inv s s'.
Proof.
  intros Hi H. unfold sub_begin_block in H. eapply flow_rfold; [exact Hi| |exact H].
  intros a e b Ka Hs. pose proof (payout_step_keeps _ _ _ Hs) as K.
  split; [eapply kinv_payout_step_full; eauto|]. split; [apply sess_evo_frame; keeps_solve|].
  split; [eapply evo_payout_step; [apply Ka|exact Hs]|]. split; [keeps_solve|]. split; [keeps_solve|]. split; [keeps_solve|].
  intros x G. eapply flow_payout_step; eauto.
Qed.

Lemma flow_session_end_block s s' : kinv s -> session_end_block s = Ok s' -> flow_inv s s'.
Proof.
  intros Hi H. unfold session_end_block in H. eapply flow_rfold; [exact Hi| |exact H].
  intros a e b Ka Hs. pose proof (session_expire_one_keeps _ _ _ Hs) as K.
  split; [eapply kinv_session_expire_one; eauto|]. split; [eapply evo_session_expire_one; [apply Ka|exact Hs]|].
  split; [eapply evo_session_expire_one_sub; eauto|]. split; [keeps_solve|]. split; [keeps_solve|]. split; [keeps_solve|].
  intros x G. eapply flow_session_expire_one; eauto.
Qed.

Lemma flow_sub_end_block s s' : kinv s -> sub_end_block s = Ok s' -> flow_inv s s'.
Proof.
  intros Hi H. unfold sub_end_block in H. eapply flow_rfold; [exact Hi| |exact H].
  intros a e b Ka Hs. pose proof (sub_expire_one_keeps _ _ _ Hs) as K.
  split; [eapply kinv_sub_expire_one; eauto|]. split; [eapply evo_sub_expire_one_sess; eauto|].
  split; [eapply evo_sub_expire_one; [apply Ka|exact Hs]|]. split; [keeps_solve|]. split; [keeps_solve|]. split; [keeps_solve|].
  intros x G. eapply flow_sub_expire_one; eauto.
Qed.

(* a state that differs only outside bank, plans, subscriptions, payouts and sessions has the same recipients and balances *)
Lemma flow_inv_frame s a y :
  cfg a = cfg s -> bank a = bank s -> plan_act a = plan_act s -> plan_inact a = plan_inact s ->
  subs a = subs s -> payouts a = payouts s -> sessions a = sessions s -> sub_count a = sub_count s -> sess_count a = sess_count s ->
  flow_inv a y -> kinv s -> (forall x, gains s y x -> recipient s x) /\ cfg y = cfg s.
Proof.
  intros Ec Eb Ea Ei Es Ep Ess Ecs Ecss (_ & Sy & Uy & Cy & Py & Piy & Gy) Hi. split; [|congruence].
  intros x [d H]. assert (G : gains a y x) by (exists d; unfold bal in *; rewrite Eb; exact H).
  specialize (Gy x G). unfold recipient in *. unfold get_plan in *. rewrite Ec, Ea, Ei, Es, Ep, Ess in Gy. exact Gy.
Qed.

Definition flow_ok (s : state) (o : op) (x : addr) : Prop :=
  recipient s x \/ (exists from hash receiver amount, o = OTx (MSwap from hash receiver amount) /\ x = ta_bytes receiver).

Theorem flow_step s o s' x : kinv s -> step s o = OOk s' -> gains s s' x -> flow_ok s o x.
Proof.
  intros Hi Hstep G. unfold step in Hstep. destruct o.
  - (* begin-of-block: hourly payouts *)
    left. destruct (begin_block _) as [y| |] eqn:H; try discriminate. injection Hstep as <-.
    unfold begin_block in H. apply rbind_ok in H as (s1 & Hm & H). pose proof (mint_begin_block_keeps _ _ Hm) as Km.
    assert (K0 : kinv (clear_events s <| now := t |>)) by (eapply (kinv_other [GNow] s); [keeps_solve|reflexivity..|exact Hi]).
    assert (K1 : kinv s1) by (eapply (kinv_other [GMint]); [exact Km|reflexivity..|exact K0]).
    pose proof (flow_sub_begin_block _ _ K1 H) as F.
    refine (proj1 (flow_inv_frame s s1 y _ _ _ _ _ _ _ _ _ F Hi) x G); keeps_solve.
  - (* a transaction *)
    unfold run_tx in Hstep. destruct (validate_basic m); [|discriminate].
    destruct (handle _ m) as [y| |] eqn:H; try discriminate. injection Hstep as <-.
    assert (G0 : gains (clear_events s) y x) by (destruct G as [d Hd]; exists d; exact Hd).
    destruct (flow_handle _ _ _ _ H G0) as [R|(from & hash & receiver & amount & -> & ->)]; [left; exact R|right; exists from, hash, receiver, amount; split; reflexivity].
  - (* governance moves no coins *)
    exfalso. destruct (forallb pchange_valid _); [|discriminate]. injection Hstep as <-. eapply (gains_bank s _ x); [|exact G].
    apply (fold_left_inv (fun y => bank y = bank s)); [|reflexivity]. intros y c Hy. pose proof (apply_pchange_keeps y c). rewrite <- Hy. keeps_solve.
  - (* end-of-block: settlements and refunds *)
    left. destruct (end_block _) as [y| |] eqn:H; try discriminate. injection Hstep as <-.
    unfold end_block in H. apply rbind_ok in H as (s1 & H1 & H). apply rbind_ok in H as (s2 & H2 & H3).
    pose proof (kinv_node_end_block _ _ (kinv_clear _ Hi) H1) as K1. pose proof (node_end_block_keeps _ _ H1) as Kn.
    pose proof (flow_session_end_block _ _ K1 H2) as F2. pose proof (flow_sub_end_block _ _ (proj1 F2) H3) as F3.
    assert (F : flow_inv s1 y).
    { destruct F3 as (K3 & S3 & U3 & C3 & P3 & Pi3 & G3).
      eapply flow_inv_step; [exact F2|exact K3|exact S3|exact U3|exact C3|exact P3|exact Pi3|exact G3]. }
    assert (G' : gains s y x) by (destruct G as [d Hd]; exists d; exact Hd).
    refine (proj1 (flow_inv_frame s s1 y _ _ _ _ _ _ _ _ _ F Hi) x G'); keeps_solve.
Qed.
