(* C08: admission rules.  Every accepted market action had its preconditions true in
   the state it executed in; conversely requests meeting all of them are accepted. *)
From Hub Require Import Base.Prelude Base.Arith Model.Types Model.Keeper Model.Handlers Model.Hooks Model.Step.
From Hub Require Import Proofs.Tactics Proofs.Frames Proofs.KeysInv.

(** * the rules, over public state *)

(* the node is registered and active now *)
Definition node_active_now (s : state) (nd : addr) : Prop := exists n, get_node s nd = Some n /\ nd_status n = SActive.
Definition plan_active_now (s : state) (pid : Z) : Prop := exists p, get_plan s pid = Some p /\ pl_status p = SActive.

(* the provider of the plan currently holds an active hourly subscription (lease) on the node *)
Definition leased_by (s : state) (prov nd : addr) : Prop := exists pid, (prov, nd, pid) ∈ pay_acc_node s.

(* the subscription covers the node: its own node, or a node linked to the plan and leased by the plan's provider *)
Definition covers (s : state) (sb : subscription) (from : taddr) (nd : addr) : Prop :=
  match sb_kind sb with
  | KNode sn _ _ _ => nd = sn /\ from = canon RAcc (sb_addr sb)
  | KPlan pid _ => exists p, get_plan s pid = Some p /\ (pid, nd) ∈ node_plan s /\ leased_by s (pl_prov p) nd
  end.

(* unexhausted quota, or the owner of an hourly subscription *)
Definition has_quota (s : state) (sb : subscription) (id : Z) (acc : addr) : Prop :=
  match sb_kind sb with
  | KNode _ _ h _ => h <> 0 \/ exists al, allocs s !! (id, acc) = Some al /\ al_used al < al_granted al
  | KPlan _ _ => exists al, allocs s !! (id, acc) = Some al /\ al_used al < al_granted al
  end.

(* the latest session of (subscription, address), if any, is not active *)
Definition no_active_session (s : state) (id : Z) (acc : addr) : Prop :=
  match last_opt (ids_for_za (sess_alloc s) id acc) with
  | None => True
  | Some sid => exists x, sessions s !! sid = Some x /\ ss_status x <> SActive
  end.

Definition start_rule (s : state) (from : taddr) (id : Z) (nd : addr) : Prop :=
  exists sb, subs s !! id = Some sb /\ sb_status sb = SActive /\ node_active_now s nd /\
             covers s sb from nd /\ has_quota s sb id (ta_bytes from) /\ no_active_session s id (ta_bytes from).

(** * accepted => the rule held *)

From Hub Require Import Proofs.Sorting.

Lemma last_ids_elem {A} (l : list A) x : last_opt l = Some x -> x ∈ l.
Proof.
  unfold last_opt. induction l as [|y l IH]; [discriminate|]. destruct l as [|z l]; [intros [= <-]; left|].
  intros H. right. apply IH. exact H.
Qed.

Lemma elem_of_ids_for_aa (ix : gset (addr * addr * Z)) k1 k2 x : x ∈ ids_for_aa ix k1 k2 <-> (k1, k2, x) ∈ ix.
Proof.
  unfold ids_for_aa. rewrite elem_of_sort_by, elem_of_list_bind. split.
  - intros ([[a b] y] & Hy & Hin). apply elem_of_elements in Hin. simpl in Hy.
    case_bool_decide as E; [|inversion Hy]. apply elem_of_list_singleton in Hy. injection E as -> ->. subst. exact Hin.
  - intros Hin. exists (k1, k2, x). split; [|apply elem_of_elements; exact Hin]. simpl.
    rewrite bool_decide_eq_true_2 by reflexivity. left.
Qed.

Theorem start_accepted s from id nd s' :
  kinv_node s -> h_sess_start s from id nd = Ok s' -> start_rule s from id (ta_bytes nd).
Proof.
  intros Hk H. unfold h_sess_start in H. destruct (subs s !! id) as [sb|] eqn:Hsb; [|discriminate].
  apply rbind_ok in H as (u & Hact & H). apply ensure_ok, bool_decide_eq_true in Hact.
  destruct (get_node s (ta_bytes nd)) as [n|] eqn:Hn; [|discriminate].
  destruct (get_node_kinv _ _ _ Hk Hn) as [Ena _].
  apply rbind_ok in H as (u2 & Hna & H). apply ensure_ok, bool_decide_eq_true in Hna.
  apply rbind_ok in H as (u3 & Hcov & H). apply rbind_ok in H as (chk & Hchk & H).
  apply rbind_ok in H as (u4 & Hq & H). apply rbind_ok in H as (latest & Hl & H). apply rbind_ok in H as (u5 & Hnl & H).
  exists sb. split; [exact Hsb|]. split; [exact Hact|]. split; [exists n; auto|].
  split; [|split].
  - unfold covers. revert Hcov Hchk. destruct (sb_kind sb) as [sn g h dep|pid dn] eqn:Hkd; intros Hcov Hchk.
    + apply ensure_ok, bool_decide_eq_true in Hcov. apply rbind_ok in Hchk as (u6 & Ho & _). apply ensure_ok in Ho.
      unfold ta_eqb in Ho. apply bool_decide_eq_true in Ho. split; [congruence|exact Ho].
    + destruct (get_plan s pid) as [p|] eqn:Hp; [|discriminate]. exists p. split; [reflexivity|].
      apply rbind_ok in Hcov as (po & Hpo & Hcov). apply rbind_ok in Hcov as (u6 & Hsome & Hlnk).
      apply ensure_ok, bool_decide_eq_true in Hlnk. apply ensure_ok, bool_decide_eq_true in Hsome.
      split; [exact Hlnk|]. unfold latest_payout_for in Hpo.
      destruct (last_opt (ids_for_aa (pay_acc_node s) (pl_prov p) (ta_bytes nd))) as [pid0|] eqn:El; [|injection Hpo as <-; destruct Hsome; discriminate].
      apply last_ids_elem, elem_of_ids_for_aa in El. exists pid0. exact El.
  - unfold has_quota. revert Hchk. destruct (sb_kind sb) as [sn g h dep|pid dn] eqn:Hkd; intros Hchk.
    + apply rbind_ok in Hchk as (u6 & _ & Hchk). injection Hchk as <-.
      destruct (h =? 0) eqn:Eh; [|left; apply Z.eqb_neq; exact Eh]. right.
      destruct (allocs s !! (id, ta_bytes from)) as [al|]; [|discriminate]. apply ensure_ok, negb_true_iff, Z.leb_gt in Hq. eauto.
    + injection Hchk as <-. destruct (allocs s !! (id, ta_bytes from)) as [al|]; [|discriminate].
      apply ensure_ok, negb_true_iff, Z.leb_gt in Hq. eauto.
  - unfold no_active_session. unfold latest_session_for_alloc in Hl.
    destruct (last_opt (ids_for_za (sess_alloc s) id (ta_bytes from))) as [sid|]; [|exact I].
    destruct (sessions s !! sid) as [x|]; [|discriminate]. injection Hl as <-. exists x. split; [reflexivity|].
    apply ensure_ok, negb_true_iff, bool_decide_eq_false in Hnl. exact Hnl.
Qed.

(* conversely: a request meeting the rule is accepted (the index look-ups it makes find their records:
   premises [Hpay], [Hsess], which are instances of the index invariant of C09) *)
Theorem start_complete s from id nd :
  kinv_node s -> ta_valid RAcc from = true -> start_rule s from id (ta_bytes nd) ->
  (forall a b pid, (a, b, pid) ∈ pay_acc_node s -> is_Some (payouts s !! pid)) ->
  (forall a sid, (id, a, sid) ∈ sess_alloc s -> is_Some (sessions s !! sid)) ->
  exists s', h_sess_start s from id nd = Ok s'.
Proof.
  intros Hk Hv (sb & Hsb & Hact & (n & Hn & Hna) & Hcov & Hq & Hnl) Hpay Hsess.
  destruct (get_node_kinv _ _ _ Hk Hn) as [Ena _].
  unfold h_sess_start. rewrite Hsb. rewrite (bool_decide_eq_true_2 _ Hact). simpl. rewrite Hn.
  rewrite (bool_decide_eq_true_2 _ Hna). simpl.
  assert (Hlatest : exists latest, latest_session_for_alloc s id (ta_bytes from) = Ok latest /\
                     match latest with Some x => negb (bool_decide (ss_status x = SActive)) | None => true end = true).
  { unfold latest_session_for_alloc, no_active_session in *.
    destruct (last_opt (ids_for_za (sess_alloc s) id (ta_bytes from))) as [sid|] eqn:El; [|exists None; auto].
    destruct Hnl as (x & Hx & Hst). rewrite Hx. exists (Some x). split; [reflexivity|].
    apply negb_true_iff, bool_decide_eq_false. exact Hst. }
  destruct Hlatest as (latest & Hl & Hlok).
  unfold covers, has_quota in *. destruct (sb_kind sb) as [sn g h dep|pid dn].
  - destruct Hcov as [<- ->]. rewrite (bool_decide_eq_true_2 (nd_addr n = ta_bytes nd) Ena). simpl.
    unfold ta_eqb. rewrite (bool_decide_eq_true_2 (canon RAcc (sb_addr sb) = canon RAcc (sb_addr sb)) eq_refl). simpl.
    destruct (h =? 0) eqn:Eh.
    + destruct Hq as [Hq|(al & Hal & Hlt)]; [apply Z.eqb_eq in Eh; contradiction|]. simpl in Hal. rewrite Hal.
      assert (E : negb (al_granted al <=? al_used al) = true) by (apply negb_true_iff, Z.leb_gt; exact Hlt). rewrite E. simpl.
      simpl in Hl. rewrite Hl. simpl. rewrite Hlok. simpl. eauto.
    + simpl. simpl in Hl. rewrite Hl. simpl. rewrite Hlok. simpl. eauto.
  - destruct Hcov as (p & Hp & Hlnk & (pid0 & Hlease)). rewrite Hp.
    assert (Hpo : exists po, latest_payout_for s (pl_prov p) (ta_bytes nd) = Ok (Some po)).
    { unfold latest_payout_for. destruct (last_opt (ids_for_aa (pay_acc_node s) (pl_prov p) (ta_bytes nd))) as [pid1|] eqn:El.
      - apply last_ids_elem, elem_of_ids_for_aa in El. destruct (Hpay _ _ _ El) as [po Hpo]. rewrite Hpo. eauto.
      - exfalso. apply elem_of_ids_for_aa in Hlease. unfold last_opt in El. apply last_None in El. rewrite El in Hlease. inversion Hlease. }
    destruct Hpo as (po & Hpo). rewrite Hpo. simpl.
    try (rewrite (bool_decide_eq_true_2 (is_Some (Some po))) by eauto). simpl.
    rewrite (bool_decide_eq_true_2 _ Hlnk). simpl.
    destruct Hq as (al & Hal & Hlt). rewrite Hal.
    assert (E : negb (al_granted al <=? al_used al) = true) by (apply negb_true_iff, Z.leb_gt; exact Hlt). rewrite E. simpl.
    rewrite Hl. simpl. rewrite Hlok. simpl. eauto.
Qed.

(** * subscriptions can only be bought against an active node / plan, within the limits *)

Theorem node_subscribe_accepted s from nd g h dn s' :
  h_node_subscribe s from nd g h dn = Ok s' ->
  node_active_now s (ta_bytes nd) /\
  (g <> 0 -> p_min_sub_gb (pars s) <= g <= p_max_sub_gb (pars s)) /\
  (h <> 0 -> p_min_sub_hr (pars s) <= h <= p_max_sub_hr (pars s)).
Proof.
  intros H. unfold h_node_subscribe in H.
  apply rbind_ok in H as (u1 & Hg & H). apply ensure_ok in Hg.
  apply rbind_ok in H as (u2 & Hh & H). apply ensure_ok in Hh.
  apply rbind_ok in H as ([s1 id] & Hc & H). unfold create_sub_for_node in Hc.
  destruct (get_node s (ta_bytes nd)) as [n|] eqn:Hn; [|discriminate].
  apply rbind_ok in Hc as (u3 & Hact & _). apply ensure_ok, bool_decide_eq_true in Hact.
  split; [exists n; auto|]. unfold valid_sub_gb, valid_sub_hr in *. split; intros Hne.
  - apply orb_true_iff in Hg as [Hg|Hg]; [apply Z.eqb_eq in Hg; contradiction|]. apply andb_true_iff in Hg as [A B]. lia.
  - apply orb_true_iff in Hh as [Hh|Hh]; [apply Z.eqb_eq in Hh; contradiction|]. apply andb_true_iff in Hh as [A B]. lia.
Qed.

Theorem plan_subscribe_accepted s from pid dn s' :
  h_plan_subscribe s from pid dn = Ok s' -> plan_active_now s pid.
Proof.
  intros H. unfold h_plan_subscribe in H. apply rbind_ok in H as ([s1 id] & Hc & H). unfold create_sub_for_plan in Hc.
  destruct (get_plan s pid) as [p|] eqn:Hp; [|discriminate].
  apply rbind_ok in Hc as (u & Hact & _). apply ensure_ok, bool_decide_eq_true in Hact. exists p. auto.
Qed.

(** * registration once; plans need a provider, links need a node *)

Theorem prov_register_accepted s from n i w d s' :
  h_prov_register s from n i w d = Ok s' -> get_provider s (ta_bytes from) = None.
Proof.
  intros H. unfold h_prov_register in H. apply rbind_ok in H as (u & Hn & _).
  apply ensure_ok, negb_true_iff, bool_decide_eq_false in Hn. destruct (get_provider s (ta_bytes from)); [exfalso; apply Hn; eauto|reflexivity].
Qed.

Theorem node_register_accepted s from gb hr url s' :
  h_node_register s from gb hr url = Ok s' -> get_node s (ta_bytes from) = None.
Proof.
  intros H. unfold h_node_register in H. apply rbind_ok in H as (u1 & _ & H). apply rbind_ok in H as (u2 & _ & H).
  apply rbind_ok in H as (u & Hn & _).
  apply ensure_ok, negb_true_iff, bool_decide_eq_false in Hn. destruct (get_node s (ta_bytes from)); [exfalso; apply Hn; eauto|reflexivity].
Qed.

Theorem plan_create_accepted s from du g pr s' :
  h_plan_create s from du g pr = Ok s' -> is_Some (get_provider s (ta_bytes from)).
Proof.
  intros H. unfold h_plan_create in H. apply rbind_ok in H as (u & Hp & _). apply ensure_ok, bool_decide_eq_true in Hp. exact Hp.
Qed.

Theorem plan_create_complete s from du g pr :
  is_Some (get_provider s (ta_bytes from)) -> exists s', h_plan_create s from du g pr = Ok s'.
Proof. intros Hp. unfold h_plan_create, has_provider. rewrite (bool_decide_eq_true_2 _ Hp). simpl. eauto. Qed.

Theorem plan_link_accepted s from id nd s' :
  h_plan_link s from id nd = Ok s' -> is_Some (get_plan s id) /\ is_Some (get_node s (ta_bytes nd)).
Proof.
  intros H. unfold h_plan_link in H. destruct (get_plan s id) as [p|]; [|discriminate].
  apply rbind_ok in H as (u & _ & H). apply rbind_ok in H as (u2 & Hn & _). apply ensure_ok, bool_decide_eq_true in Hn. eauto.
Qed.

Theorem plan_link_complete s from id nd p :
  get_plan s id = Some p -> from = canon RProv (pl_prov p) -> is_Some (get_node s (ta_bytes nd)) ->
  exists s', h_plan_link s from id nd = Ok s'.
Proof.
  intros Hp -> Hn. unfold h_plan_link, plan_authorised, ta_eqb, has_node. rewrite Hp.
  rewrite (bool_decide_eq_true_2 (canon RProv (pl_prov p) = canon RProv (pl_prov p)) eq_refl). simpl.
  rewrite (bool_decide_eq_true_2 _ Hn). simpl. eauto.
Qed.

(* registering twice is rejected *)
Theorem prov_register_twice s from n i w d p :
  get_provider s (ta_bytes from) = Some p -> h_prov_register s from n i w d = Err.
Proof. intros Hp. unfold h_prov_register, has_provider. rewrite Hp. rewrite (bool_decide_eq_true_2 (is_Some (Some p))) by eauto. reflexivity. Qed.
Theorem node_register_twice s from gb hr url n :
  get_node s (ta_bytes from) = Some n -> h_node_register s from gb hr url <> Ok s.
Proof.
  intros Hn H. apply node_register_accepted in H. congruence.
Qed.
