(* C09 / C18: the plan indices ([idx_plan] of InvDefs.v) are an invariant: the provider index
   is exactly the image of the plans (both status partitions), every plan/node link points at
   a stored plan and a registered node, every plan belongs to a registered provider and has
   positive duration and quota -- preserved by every operation, true at genesis. *)
From Hub Require Import Base.Prelude Base.Arith Model.Types Model.Keeper Model.Handlers Model.Hooks Model.Step.
From Hub Require Import Proofs.Tactics Proofs.Frames Proofs.KeysInv Proofs.InvDefs.

(** * registered nodes and providers only grow *)

Definition node_le (s s' : state) : Prop := forall a, is_Some (get_node s a) -> is_Some (get_node s' a).
Definition prov_le (s s' : state) : Prop := forall a, is_Some (get_provider s a) -> is_Some (get_provider s' a).

Lemma node_le_refl s : node_le s s.
Proof. intros a H. exact H. Qed.
Lemma node_le_trans a b c : node_le a b -> node_le b c -> node_le a c.
Proof. intros H1 H2 x Hx. apply H2, H1, Hx. Qed.
Lemma prov_le_refl s : prov_le s s.
Proof. intros a H. exact H. Qed.
Lemma prov_le_trans a b c : prov_le a b -> prov_le b c -> prov_le a c.
Proof. intros H1 H2 x Hx. apply H2, H1, Hx. Qed.

Lemma get_node_frame s s' : node_act s' = node_act s -> node_inact s' = node_inact s -> forall a, get_node s' a = get_node s a.
Proof. intros E1 E2 a. unfold get_node. rewrite E1, E2. reflexivity. Qed.
Lemma get_provider_frame s s' :
  prov_act s' = prov_act s -> prov_inact s' = prov_inact s -> forall a, get_provider s' a = get_provider s a.
Proof. intros E1 E2 a. unfold get_provider. rewrite E1, E2. reflexivity. Qed.
Lemma get_plan_frame s s' : plan_act s' = plan_act s -> plan_inact s' = plan_inact s -> forall id, get_plan s' id = get_plan s id.
Proof. intros E1 E2 a. unfold get_plan. rewrite E1, E2. reflexivity. Qed.

Lemma node_le_frame s s' : node_act s' = node_act s -> node_inact s' = node_inact s -> node_le s s'.
Proof. intros E1 E2 a. rewrite (get_node_frame s s' E1 E2). auto. Qed.
Lemma prov_le_frame s s' : prov_act s' = prov_act s -> prov_inact s' = prov_inact s -> prov_le s s'.
Proof. intros E1 E2 a. rewrite (get_provider_frame s s' E1 E2). auto. Qed.

Lemma node_le_keeps T s s' : keeps T s s' -> touched GNode T = false -> node_le s s'.
Proof.
  intros (_ & _ & _ & _ & _ & _ & K & _) Ht. rewrite Ht in K. simpl in K. apply node_le_frame; tauto.
Qed.
Lemma prov_le_keeps T s s' : keeps T s s' -> touched GPv T = false -> prov_le s s'.
Proof.
  intros (_ & _ & _ & _ & K & _) Ht. rewrite Ht in K. simpl in K. apply prov_le_frame; tauto.
Qed.

(* a record written by [set_node] after its old copy was (possibly) removed from either partition *)
Lemma node_le_set s0 s n s' :
  set_node s n = Ok s' ->
  (forall b, b <> nd_addr n -> node_act s !! b = node_act s0 !! b /\ node_inact s !! b = node_inact s0 !! b) ->
  node_le s0 s'.
Proof.
  intros Hs Hb b Hsome. unfold set_node in Hs. destruct (decide (b = nd_addr n)) as [->|Hne].
  - destruct (nd_status n); try discriminate; injection Hs as <-; unfold get_node; simpl.
    + rewrite lookup_insert. eauto.
    + destruct (node_act s !! nd_addr n); [eauto|]. rewrite lookup_insert. eauto.
  - destruct (Hb b Hne) as [E1 E2]. unfold get_node in *.
    destruct (nd_status n); try discriminate; injection Hs as <-; simpl;
      rewrite ?lookup_insert_ne by congruence; rewrite E1, E2; exact Hsome.
Qed.

Lemma prov_le_set s0 s p s' :
  set_provider s p = Ok s' ->
  (forall b, b <> pv_addr p -> prov_act s !! b = prov_act s0 !! b /\ prov_inact s !! b = prov_inact s0 !! b) ->
  prov_le s0 s'.
Proof.
  intros Hs Hb b Hsome. unfold set_provider in Hs. destruct (decide (b = pv_addr p)) as [->|Hne].
  - destruct (pv_status p); try discriminate; injection Hs as <-; unfold get_provider; simpl.
    + rewrite lookup_insert. eauto.
    + destruct (prov_act s !! pv_addr p); [eauto|]. rewrite lookup_insert. eauto.
  - destruct (Hb b Hne) as [E1 E2]. unfold get_provider in *.
    destruct (pv_status p); try discriminate; injection Hs as <-; simpl;
      rewrite ?lookup_insert_ne by congruence; rewrite E1, E2; exact Hsome.
Qed.

(** ** node handlers and the node end-blocker *)

Lemma has_node_mono_register s from gb hr url s' : h_node_register s from gb hr url = Ok s' -> node_le s s'.
Proof.
  intros H. unfold h_node_register in H. res_inv.
  match goal with Hf : fund_pool s _ _ = Ok ?y, Hs : set_node ?y ?n = Ok ?z |- _ =>
    apply fund_pool_keeps in Hf;
    apply (node_le_trans s y); [eapply node_le_keeps; [exact Hf|reflexivity]|];
    apply (node_le_trans y z); [|apply node_le_frame; reflexivity];
    eapply node_le_set; [exact Hs|]; intros b _; auto end.
Qed.

Lemma has_node_mono_update_details s from gb hr url s' : h_node_update_details s from gb hr url = Ok s' -> node_le s s'.
Proof.
  intros H. unfold h_node_update_details in H. res_inv.
  match goal with Hs : set_node s ?n = Ok ?z |- _ =>
    apply (node_le_trans s z); [|apply node_le_frame; reflexivity];
    eapply node_le_set; [exact Hs|]; intros b _; auto end.
Qed.

Lemma has_node_mono_update_status s from st s' :
  kinv_node s -> h_node_update_status s from st = Ok s' -> node_le s s'.
Proof.
  intros Hk H. unfold h_node_update_status in H. destruct (get_node s (ta_bytes from)) as [n|] eqn:Hg; [|discriminate].
  destruct (get_node_kinv _ _ _ Hk Hg) as [Ea _].
  match type of H with (let '(s3, n1) := ?p in _) = _ => destruct p as [s3 n1] eqn:Ep end.
  apply rbind_ok in H as (s4 & Hset & H). injection H as <-.
  apply (node_le_trans s s4); [|apply node_le_frame; reflexivity].
  assert (Hn1 : nd_addr n1 = ta_bytes from /\
                forall b, b <> ta_bytes from -> node_act s3 !! b = node_act s !! b /\ node_inact s3 !! b = node_inact s !! b).
  { repeat case_bool_decide; injection Ep as <- <-; simpl; (split; [exact Ea|]); intros b Hb;
      rewrite ?lookup_delete_ne by congruence; auto. }
  destruct Hn1 as [En1 Hb].
  eapply node_le_set; [exact Hset|]. simpl.
  assert (E : nd_addr (if bool_decide (st = SInactive) then n1 <| nd_inactive_at := tzero |> else n1) = ta_bytes from)
    by (case_bool_decide; simpl; exact En1).
  rewrite E. exact Hb.
Qed.

Lemma has_node_mono_sweep_one s n s' : node_sweep_one s n = Ok s' -> node_le s s'.
Proof.
  intros H. unfold node_sweep_one in H. apply rbind_ok in H as (s1 & Hs & H). injection H as <-. apply must_ok in Hs.
  apply (node_le_trans s s1); [|apply node_le_frame; reflexivity].
  eapply node_le_set; [exact Hs|]. intros b _. auto.
Qed.

Lemma has_node_mono_expire_one s e s' : node_expire_one s e = Ok s' -> node_le s s'.
Proof.
  intros H. unfold node_expire_one in H. destruct (get_node s e.2) as [n|]; [|discriminate].
  apply rbind_ok in H as (s2 & Hs & H). injection H as <-. apply must_ok in Hs.
  apply (node_le_trans s s2); [|apply node_le_frame; reflexivity].
  eapply node_le_set; [exact Hs|]. simpl. intros b Hb. rewrite lookup_delete_ne by congruence. auto.
Qed.

Lemma has_node_mono_end_block s s' : node_end_block s = Ok s' -> node_le s s'.
Proof.
  intros H. unfold node_end_block in H. apply rbind_ok in H as (s1 & Hsw & H).
  apply (node_le_trans s s1).
  - destruct (_ || _); [|injection Hsw as <-; apply node_le_refl].
    eapply (rfold_rel node_le); [apply node_le_refl|apply node_le_trans| |exact Hsw].
    intros a n b. apply has_node_mono_sweep_one.
  - eapply (rfold_rel node_le); [apply node_le_refl|apply node_le_trans| |exact H].
    intros a e b. apply has_node_mono_expire_one.
Qed.

(** ** provider handlers *)

Lemma has_provider_mono_register s from n i w d s' : h_prov_register s from n i w d = Ok s' -> prov_le s s'.
Proof.
  intros H. unfold h_prov_register in H. res_inv.
  match goal with Hf : fund_pool s _ _ = Ok ?y, Hs : set_provider ?y ?p = Ok ?z |- _ =>
    apply fund_pool_keeps in Hf;
    apply (prov_le_trans s y); [eapply prov_le_keeps; [exact Hf|reflexivity]|];
    apply (prov_le_trans y z); [|apply prov_le_frame; reflexivity];
    eapply prov_le_set; [exact Hs|]; intros b _; auto end.
Qed.

Lemma has_provider_mono_update s from n i w d st s' :
  kinv_pv s -> h_prov_update s from n i w d st = Ok s' -> prov_le s s'.
Proof.
  intros Hk H. unfold h_prov_update in H. destruct (get_provider s (ta_bytes from)) as [p|] eqn:Hg; [|discriminate].
  destruct (get_provider_kinv _ _ _ Hk Hg) as [Ea _].
  match type of H with (let '(s1, p2) := ?q in _) = _ => destruct q as [s1 p2] eqn:Ep end.
  apply rbind_ok in H as (s2 & Hset & H). injection H as <-.
  apply (prov_le_trans s s2); [|apply prov_le_frame; reflexivity].
  assert (Hp2 : pv_addr p2 = ta_bytes from /\
                forall b, b <> ta_bytes from -> prov_act s1 !! b = prov_act s !! b /\ prov_inact s1 !! b = prov_inact s !! b).
  { repeat case_bool_decide; injection Ep as <- <-; simpl; (split; [exact Ea|]); intros b Hb;
      rewrite ?lookup_delete_ne by congruence; auto. }
  destruct Hp2 as [Ep2 Hb].
  eapply prov_le_set; [exact Hset|]. rewrite Ep2. exact Hb.
Qed.

(** * frames for [idx_plan] *)

Lemma idx_plan_mono s s' :
  (forall id, get_plan s' id = get_plan s id) -> plan_prov s' = plan_prov s -> node_plan s' = node_plan s ->
  node_le s s' -> prov_le s s' -> idx_plan s -> idx_plan s'.
Proof.
  intros Eg E1 E2 Hn Hp [A B C D]. split.
  - intros a id. rewrite E1, Eg. apply A.
  - intros id a. rewrite E2, Eg. intros Hin. destruct (B _ _ Hin) as [B1 B2]. split; [exact B1|apply Hn; exact B2].
  - intros id p. rewrite Eg. intros Hg. apply Hp. eapply C; eauto.
  - intros id p. rewrite Eg. apply D.
Qed.

Lemma idx_plan_frame s s' :
  plan_act s' = plan_act s -> plan_inact s' = plan_inact s -> plan_prov s' = plan_prov s -> node_plan s' = node_plan s ->
  node_le s s' -> prov_le s s' -> idx_plan s -> idx_plan s'.
Proof. intros E1 E2 E3 E4. apply idx_plan_mono; auto. apply get_plan_frame; auto. Qed.

(* the plan group is untouched, nodes and providers stay registered *)
Lemma idx_plan_keeps_le T s s' :
  keeps T s s' -> touched GPl T = false -> node_le s s' -> prov_le s s' -> idx_plan s -> idx_plan s'.
Proof.
  intros (_ & _ & _ & _ & _ & K & _) Ht. rewrite Ht in K. simpl in K. apply idx_plan_frame; tauto.
Qed.

Lemma idx_plan_keeps T s s' :
  keeps T s s' -> touched GPl T = false -> touched GNode T = false -> touched GPv T = false -> idx_plan s -> idx_plan s'.
Proof.
  intros Hk T1 T2 T3. eapply idx_plan_keeps_le; [exact Hk|exact T1|eapply node_le_keeps; eauto|eapply prov_le_keeps; eauto].
Qed.

Lemma idx_plan_emit e s : idx_plan s -> idx_plan (emit e s).
Proof. apply idx_plan_frame; try reflexivity; [apply node_le_frame; reflexivity|apply prov_le_frame; reflexivity]. Qed.

(** * plan handlers *)

Lemma fresh_plan s : kinv_plan s -> forall id, plan_count s < id -> get_plan s id = None.
Proof.
  intros [A B _ _] id Hlt. unfold get_plan.
  destruct (plan_act s !! id) eqn:E1; [destruct (A _ _ E1) as (_ & _ & ?); lia|].
  destruct (plan_inact s !! id) eqn:E2; [destruct (B _ _ E2) as (_ & _ & ?); lia|]. reflexivity.
Qed.

(* [set_plan] after the old copy of the record was (possibly) removed from either partition *)
Lemma get_plan_set s0 s p s' :
  set_plan s p = Ok s' ->
  (forall b, b <> pl_id p -> plan_act s !! b = plan_act s0 !! b /\ plan_inact s !! b = plan_inact s0 !! b) ->
  (pl_status p = SInactive -> plan_act s !! pl_id p = None) ->
  forall b, get_plan s' b = if decide (b = pl_id p) then Some p else get_plan s0 b.
Proof.
  intros Hs Hb Hno b. unfold set_plan in Hs. destruct (decide (b = pl_id p)) as [->|Hne].
  - destruct (pl_status p); try discriminate; injection Hs as <-; unfold get_plan; simpl.
    + rewrite lookup_insert. reflexivity.
    + rewrite Hno by reflexivity. rewrite lookup_insert. reflexivity.
  - destruct (Hb b Hne) as [E1 E2]. unfold get_plan.
    destruct (pl_status p); try discriminate; injection Hs as <-; simpl;
      rewrite ?lookup_insert_ne by congruence; rewrite E1, E2; reflexivity.
Qed.

(* one plan record is replaced by one with the same provider, duration and quota *)
Lemma idx_plan_replace s s' p p' :
  idx_plan s -> get_plan s (pl_id p') = Some p ->
  pl_prov p' = pl_prov p -> pl_duration p' = pl_duration p -> pl_gb p' = pl_gb p ->
  (forall b, get_plan s' b = if decide (b = pl_id p') then Some p' else get_plan s b) ->
  plan_prov s' = plan_prov s -> node_plan s' = node_plan s -> node_le s s' -> prov_le s s' -> idx_plan s'.
Proof.
  intros [A B C D] Hg E1 E2 E3 Hget F1 F2 Hn Hp. split.
  - intros a id. rewrite F1, Hget, A. destruct (decide (id = pl_id p')) as [->|Hne]; [|reflexivity].
    rewrite Hg. split; intros (q & [= <-] & Hq); eexists; (split; [reflexivity|congruence]).
  - intros id a. rewrite F2, Hget. intros Hin. destruct (B _ _ Hin) as [B1 B2].
    split; [destruct (decide (id = pl_id p')); eauto|apply Hn; exact B2].
  - intros id q. rewrite Hget. destruct (decide (id = pl_id p')) as [->|Hne].
    + intros [= <-]. rewrite E1. apply Hp. eapply C; eauto.
    + intros Hq. apply Hp. eapply C; eauto.
  - intros id q. rewrite Hget. destruct (decide (id = pl_id p')) as [->|Hne].
    + intros [= <-]. rewrite E2, E3. eapply D; eauto.
    + apply D.
Qed.

Lemma idx_h_plan_create s from du g pr s' :
  kinv_plan s -> idx_plan s -> 0 < du -> 0 < g -> h_plan_create s from du g pr = Ok s' -> idx_plan s'.
Proof.
  intros Hk [A B C D] Hdu Hg H. unfold h_plan_create in H. res_inv.
  match goal with Hp : has_provider s _ = true |- _ => apply bool_decide_eq_true in Hp; rename Hp into Hprov end.
  match goal with Hs : set_plan _ _ = Ok _ |- _ => unfold set_plan in Hs; simpl in Hs; injection Hs as <- end.
  pose proof (fresh_plan s Hk (plan_count s + 1) ltac:(lia)) as Hfresh.
  assert (Hact : plan_act s !! (plan_count s + 1) = None).
  { unfold get_plan in Hfresh. destruct (plan_act s !! (plan_count s + 1)); [discriminate|reflexivity]. }
  match goal with |- context [<[ _ := ?q ]> _] => set (p := q) in * end.
  match goal with |- idx_plan (emit _ ?z) => apply idx_plan_emit; set (s1 := z) end.
  assert (Hget : forall b, get_plan s1 b = if decide (b = plan_count s + 1) then Some p else get_plan s b).
  { intros b. unfold get_plan, s1. simpl. destruct (decide (b = plan_count s + 1)) as [->|Hne].
    - rewrite Hact, lookup_insert. reflexivity.
    - rewrite lookup_insert_ne by congruence. reflexivity. }
  split.
  - intros a id. rewrite Hget. unfold s1. simpl. rewrite elem_of_union, elem_of_singleton, A.
    destruct (decide (id = plan_count s + 1)) as [->|Hne].
    + rewrite Hfresh. split.
      * intros [(q & Hq & _)|[= ->]]; [discriminate|]. exists p. auto.
      * intros (q & [= <-] & <-). right. reflexivity.
    + split; [intros [Hq|[= _ ?]]; [exact Hq|congruence]|auto].
  - intros id a. rewrite Hget. unfold s1. simpl. intros Hin. destruct (B _ _ Hin) as [B1 B2].
    split; [destruct (decide (id = plan_count s + 1)); eauto|exact B2].
  - intros id q. rewrite Hget. change (get_provider s1) with (get_provider s).
    destruct (decide (id = plan_count s + 1)) as [->|Hne]; [intros [= <-]; exact Hprov|apply C].
  - intros id q. rewrite Hget.
    destruct (decide (id = plan_count s + 1)) as [->|Hne]; [intros [= <-]; simpl; auto|apply D].
Qed.

Lemma idx_h_plan_update_status s from id st s' :
  kinv_plan s -> idx_plan s -> h_plan_update_status s from id st = Ok s' -> idx_plan s'.
Proof.
  intros Hk Hi H. unfold h_plan_update_status in H. destruct (get_plan s id) as [p|] eqn:Hg; [|discriminate].
  destruct (get_plan_kinv _ _ _ Hk Hg) as (Ea & Hr & Hcase).
  apply rbind_ok in H as (u & _ & H). apply rbind_ok in H as (s3 & Hset & H). injection H as <-. apply idx_plan_emit.
  match type of Hset with set_plan ?z ?q = _ => set (s2 := z) in *; set (p' := q) in * end.
  assert (Eid : pl_id p' = id) by exact Ea.
  assert (Hst : st = SActive \/ st = SInactive).
  { unfold set_plan in Hset. simpl in Hset. destruct st; try discriminate; auto. }
  assert (Hb : forall b, b <> pl_id p' -> plan_act s2 !! b = plan_act s !! b /\ plan_inact s2 !! b = plan_inact s !! b).
  { intros b Hne. rewrite Eid in Hne. unfold s2. repeat case_bool_decide; simpl; rewrite ?lookup_delete_ne by congruence; auto. }
  assert (Hno : pl_status p' = SInactive -> plan_act s2 !! pl_id p' = None).
  { rewrite Eid. unfold p', s2. simpl. intros ->.
    destruct Hcase as [(E & E1 & E2)|(E & E1 & E2)]; rewrite E; repeat case_bool_decide; simpl;
      rewrite ?lookup_delete; auto; intuition congruence. }
  pose proof (get_plan_set s s2 p' s3 Hset Hb Hno) as Hget.
  assert (F : plan_prov s3 = plan_prov s /\ node_plan s3 = node_plan s /\
              node_act s3 = node_act s /\ node_inact s3 = node_inact s /\ prov_act s3 = prov_act s /\ prov_inact s3 = prov_inact s).
  { unfold set_plan in Hset. destruct (pl_status p'); try discriminate; injection Hset as <-; unfold s2;
      repeat case_bool_decide; simpl; auto 10. }
  destruct F as (F1 & F2 & F3 & F4 & F5 & F6).
  eapply (idx_plan_replace s s3 p p'); try reflexivity; auto.
  - rewrite Eid. exact Hg.
  - apply node_le_frame; auto.
  - apply prov_le_frame; auto.
Qed.

Lemma idx_h_plan_link s from id nd s' : idx_plan s -> h_plan_link s from id nd = Ok s' -> idx_plan s'.
Proof.
  intros [A B C D] H. unfold h_plan_link in H. destruct (get_plan s id) as [p|] eqn:Hg; [|discriminate].
  apply rbind_ok in H as (u & _ & H). apply rbind_ok in H as (u2 & Hn & H). injection H as <-.
  apply ensure_ok, bool_decide_eq_true in Hn. apply idx_plan_emit. split; simpl.
  - exact A.
  - intros id' a. rewrite elem_of_union, elem_of_singleton. intros [Hin|[= -> ->]]; [apply B; exact Hin|].
    change (get_plan _ id) with (get_plan s id). rewrite Hg. split; [eauto|exact Hn].
  - exact C.
  - exact D.
Qed.

Lemma idx_h_plan_unlink s from id nd s' : idx_plan s -> h_plan_unlink s from id nd = Ok s' -> idx_plan s'.
Proof.
  intros [A B C D] H. unfold h_plan_unlink in H. destruct (get_plan s id) as [p|] eqn:Hg; [|discriminate].
  apply rbind_ok in H as (u & _ & H). injection H as <-.
  apply idx_plan_emit. split; simpl.
  - exact A.
  - intros id' a. rewrite elem_of_difference. intros [Hin _]. apply B. exact Hin.
  - exact C.
  - exact D.
Qed.

(** * one operation *)

Lemma idx_plan_clear s : idx_plan s -> idx_plan (clear_events s).
Proof. apply idx_plan_frame; try reflexivity; [apply node_le_frame; reflexivity|apply prov_le_frame; reflexivity]. Qed.

Lemma idx_plan_handle s m s' :
  kinv s -> idx_plan s -> validate_basic m = true -> handle s m = Ok s' -> idx_plan s'.
Proof.
  intros Hi Hp Hv H. destruct m; simpl in H.
  - (* provider register *)
    eapply idx_plan_keeps_le; [eapply h_prov_register_keeps; exact H|reflexivity| | |exact Hp].
    + eapply node_le_keeps; [eapply h_prov_register_keeps; exact H|reflexivity].
    + eapply has_provider_mono_register; exact H.
  - (* provider update *)
    eapply idx_plan_keeps_le; [eapply h_prov_update_keeps; exact H|reflexivity| | |exact Hp].
    + eapply node_le_keeps; [eapply h_prov_update_keeps; exact H|reflexivity].
    + eapply has_provider_mono_update; [apply Hi|exact H].
  - (* node register *)
    eapply idx_plan_keeps_le; [eapply h_node_register_keeps; exact H|reflexivity| | |exact Hp].
    + eapply has_node_mono_register; exact H.
    + eapply prov_le_keeps; [eapply h_node_register_keeps; exact H|reflexivity].
  - (* node update details *)
    eapply idx_plan_keeps_le; [eapply h_node_update_details_keeps; exact H|reflexivity| | |exact Hp].
    + eapply has_node_mono_update_details; exact H.
    + eapply prov_le_keeps; [eapply h_node_update_details_keeps; exact H|reflexivity].
  - (* node update status *)
    eapply idx_plan_keeps_le; [eapply h_node_update_status_keeps; exact H|reflexivity| | |exact Hp].
    + eapply has_node_mono_update_status; [apply Hi|exact H].
    + eapply prov_le_keeps; [eapply h_node_update_status_keeps; exact H|reflexivity].
  - eapply idx_plan_keeps; [eapply h_node_subscribe_keeps; exact H|reflexivity..|exact Hp].
  - (* plan create *)
    simpl in Hv. rewrite !andb_true_iff in Hv. destruct Hv as (((_ & Hd) & Hg) & _).
    apply Z.ltb_lt in Hd. apply Z.ltb_lt in Hg.
    eapply idx_h_plan_create; [apply Hi|exact Hp|exact Hd|exact Hg|exact H].
  - eapply idx_h_plan_update_status; [apply Hi|exact Hp|exact H].
  - eapply idx_h_plan_link; [exact Hp|exact H].
  - eapply idx_h_plan_unlink; [exact Hp|exact H].
  - eapply idx_plan_keeps; [eapply h_plan_subscribe_keeps; exact H|reflexivity..|exact Hp].
  - eapply idx_plan_keeps; [eapply h_sub_cancel_keeps; exact H|reflexivity..|exact Hp].
  - eapply idx_plan_keeps; [eapply h_sub_allocate_keeps; exact H|reflexivity..|exact Hp].
  - eapply idx_plan_keeps; [eapply h_sess_start_keeps; exact H|reflexivity..|exact Hp].
  - eapply idx_plan_keeps; [eapply h_sess_update_keeps; exact H|reflexivity..|exact Hp].
  - eapply idx_plan_keeps; [eapply h_sess_end_keeps; exact H|reflexivity..|exact Hp].
  - eapply idx_plan_keeps; [eapply h_swap_keeps; exact H|reflexivity..|exact Hp].
Qed.

Lemma idx_plan_end_block s s' : idx_plan s -> end_block s = Ok s' -> idx_plan s'.
Proof.
  intros Hp H. unfold end_block in H. apply rbind_ok in H as (s1 & H1 & H). apply rbind_ok in H as (s2 & H2 & H3).
  assert (Hp1 : idx_plan s1).
  { eapply idx_plan_keeps_le; [eapply node_end_block_keeps; exact H1|reflexivity| | |exact Hp].
    - eapply has_node_mono_end_block; exact H1.
    - eapply prov_le_keeps; [eapply node_end_block_keeps; exact H1|reflexivity]. }
  assert (Hp2 : idx_plan s2) by (eapply idx_plan_keeps; [eapply session_end_block_keeps; exact H2|reflexivity..|exact Hp1]).
  eapply idx_plan_keeps; [eapply sub_end_block_keeps; exact H3|reflexivity..|exact Hp2].
Qed.

Theorem idx_plan_step s o s' : kinv s -> idx_plan s -> step s o = OOk s' -> idx_plan s'.
Proof.
  intros Hi Hp. unfold step. destruct o.
  - destruct (begin_block _) as [x| |] eqn:H; try discriminate. intros [= <-].
    apply begin_block_keeps in H.
    eapply (idx_plan_frame s); [keeps_solve|keeps_solve|keeps_solve|keeps_solve| | |exact Hp].
    + apply node_le_frame; keeps_solve.
    + apply prov_le_frame; keeps_solve.
  - unfold run_tx. destruct (validate_basic m) eqn:Hv; [|discriminate].
    destruct (handle _ m) as [x| |] eqn:H; try discriminate. intros [= <-].
    eapply idx_plan_handle; [apply kinv_clear; exact Hi|apply idx_plan_clear; exact Hp|exact Hv|exact H].
  - destruct (forallb pchange_valid _); [|discriminate]. intros [= <-]. apply (fold_left_inv idx_plan).
    + intros y c Hy. eapply idx_plan_keeps; [apply apply_pchange_keeps|reflexivity..|exact Hy].
    + apply idx_plan_clear. exact Hp.
  - destruct (end_block _) as [se| |] eqn:H; try discriminate. intros [= <-].
    apply (idx_plan_frame se); try reflexivity; [apply node_le_frame; reflexivity|apply prov_le_frame; reflexivity|].
    eapply idx_plan_end_block; [|exact H]. apply idx_plan_clear. exact Hp.
Qed.

(** * histories *)

Theorem idx_plan_run ops : forall s i s', kinv s -> idx_plan s -> run_from s ops i = RunOk s' -> idx_plan s'.
Proof.
  induction ops as [|o ops IH]; simpl; intros s i s' Hi Hp H.
  - injection H as <-. exact Hp.
  - destruct (step s o) eqn:E; try discriminate.
    + eapply IH; [eapply kinv_step; eauto|eapply idx_plan_step; eauto|exact H].
    + eapply IH; [apply kinv_clear; exact Hi|apply idx_plan_clear; exact Hp|exact H].
Qed.

Lemma idx_plan_empty c p : idx_plan (empty_state c p).
Proof.
  split.
  - intros a id. unfold get_plan. simpl. rewrite !lookup_empty. split; [intros Hin; apply elem_of_empty in Hin; contradiction|].
    intros (q & Hq & _). discriminate.
  - intros id a Hin. simpl in Hin. apply elem_of_empty in Hin. contradiction.
  - intros id q. unfold get_plan. simpl. rewrite !lookup_empty. discriminate.
  - intros id q. unfold get_plan. simpl. rewrite !lookup_empty. discriminate.
Qed.

Theorem idx_plan_init g : idx_plan (init g).
Proof.
  unfold init.
  assert (H1 : idx_plan (fold_left (fun s '(a, (d, v)) => set_bal (s <| supply ::= fun c => coins_add c d v |>) a d (bal s a d + v))
                           (g_balances g) (empty_state (g_cfg g) (g_params g)))).
  { apply (fold_left_inv idx_plan); [|apply idx_plan_empty]. intros x [a [d v]] Hx.
    eapply (idx_plan_keeps [GBank; GSupply]); [|reflexivity..|exact Hx]. keeps_solve. }
  destruct (g_mint g) as [[[mx mn] rc] inf].
  eapply (idx_plan_keeps [GMint; GNow]); [|reflexivity..|exact H1]. keeps_solve.
Qed.

(* every state reached from genesis satisfies the plan invariant *)
Corollary idx_plan_reachable g ops s' : run (init g) ops = RunOk s' -> idx_plan s'.
Proof. unfold run. apply idx_plan_run; [apply kinv_init|apply idx_plan_init]. Qed.
