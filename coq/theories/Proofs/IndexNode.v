(* C09 / C04: the node lease queue is exactly the set of (lease end, address) of the active nodes. *)
From Hub Require Import Base.Prelude Base.Arith Model.Types Model.Keeper Model.Handlers Model.Hooks Model.Step.
From Hub Require Import Proofs.Tactics Proofs.Frames Proofs.KeysInv Proofs.IndexSess.

(** * nodes: the lease queue *)

Definition act_iat (s : state) (a : addr) : option time := nd_inactive_at <$> node_act s !! a.
Definition idx_node (s : state) : Prop := forall t a, (t, a) ∈ node_q s <-> act_iat s a = Some t.

Lemma idx_node_frame s s' : node_q s' = node_q s -> (forall a, act_iat s' a = act_iat s a) -> idx_node s -> idx_node s'.
Proof. intros E1 E2 H t a. rewrite E1, E2. apply H. Qed.

Lemma idx_node_keeps T s s' : keeps T s s' -> touched GNode T = false -> idx_node s -> idx_node s'.
Proof.
  intros (_ & _ & _ & _ & _ & _ & K & _) Ht. rewrite Ht in K. simpl in K. destruct K as (K1 & K2 & K3).
  apply idx_node_frame; [exact K3|]. intros a. unfold act_iat. rewrite K1. reflexivity.
Qed.

Lemma act_iat_spec s a t : act_iat s a = Some t <-> exists n, node_act s !! a = Some n /\ nd_inactive_at n = t.
Proof.
  unfold act_iat. destruct (node_act s !! a) as [n|]; simpl; split.
  - intros [= <-]. eauto.
  - intros (m & [= <-] & <-). reflexivity.
  - discriminate.
  - intros (m & Hm & _). discriminate.
Qed.

Lemma set_node_act_iat s n s' a :
  set_node s n = Ok s' ->
  act_iat s' a = if bool_decide (nd_status n = SActive /\ a = nd_addr n) then Some (nd_inactive_at n) else act_iat s a.
Proof.
  unfold set_node, act_iat. destruct (nd_status n) eqn:E; try discriminate; intros [= <-]; simpl.
  - destruct (decide (a = nd_addr n)) as [->|Hne].
    + rewrite lookup_insert, bool_decide_eq_true_2 by auto. reflexivity.
    + rewrite lookup_insert_ne by congruence. rewrite bool_decide_eq_false_2 by tauto. reflexivity.
  - try rewrite bool_decide_eq_false_2 by (intros [? _]; discriminate). reflexivity.
Qed.

Lemma set_node_q s n s' : set_node s n = Ok s' -> node_q s' = node_q s.
Proof. unfold set_node. destruct (nd_status n); try discriminate; intros [= <-]; reflexivity. Qed.

Lemma idx_h_node_register s from gb hr url s' : idx_node s -> h_node_register s from gb hr url = Ok s' -> idx_node s'.
Proof.
  intros Hix H. unfold h_node_register in H. res_inv.
  match goal with Hf : fund_pool _ _ _ = Ok ?y |- _ => apply fund_pool_keeps in Hf;
    assert (Hy : idx_node y) by (eapply idx_node_keeps; eauto) end.
  match goal with Hs : set_node ?y ?n = Ok ?z |- _ =>
    apply (idx_node_frame y); [exact (set_node_q _ _ _ Hs)| |exact Hy];
    intros a; change (act_iat z a = act_iat y a); rewrite (set_node_act_iat _ _ _ a Hs); simpl;
    try rewrite bool_decide_eq_false_2 by (intros [? _]; discriminate); reflexivity end.
Qed.

Lemma idx_h_node_update_details s from gb hr url s' :
  kinv_node s -> idx_node s -> h_node_update_details s from gb hr url = Ok s' -> idx_node s'.
Proof.
  intros Hk Hix H. unfold h_node_update_details in H.
  apply rbind_ok in H as (u1 & _ & H). apply rbind_ok in H as (u2 & _ & H).
  destruct (get_node s (ta_bytes from)) as [n|] eqn:Hg; [|discriminate].
  destruct (get_node_kinv _ _ _ Hk Hg) as [Ea Hcase].
  apply rbind_ok in H as (s1 & Hs & H). injection H as <-.
  apply (idx_node_frame s); [exact (set_node_q _ _ _ Hs)| |exact Hix].
  intros a. change (act_iat s1 a = act_iat s a). rewrite (set_node_act_iat _ _ _ a Hs). simpl.
  case_bool_decide as Hc; [|reflexivity]. destruct Hc as [Hst ->]. rewrite Ea.
  destruct Hcase as [(_ & Hact & _)|(E & _)]; [|congruence]. unfold act_iat. rewrite Hact. reflexivity.
Qed.

Lemma idx_h_node_update_status s from st s' :
  kinv_node s -> idx_node s -> h_node_update_status s from st = Ok s' -> idx_node s'.
Proof.
  intros Hk Hix H. unfold h_node_update_status in H. destruct (get_node s (ta_bytes from)) as [n|] eqn:Hg; [|discriminate].
  destruct (get_node_kinv _ _ _ Hk Hg) as [Ea Hcase].
  match type of H with (let '(s3, n1) := ?p in _) = _ => destruct p as [s3 n1] eqn:Ep end.
  apply rbind_ok in H as (s4 & Hs & H). injection H as <-.
  assert (Hst : st = SActive \/ st = SInactive).
  { unfold set_node in Hs. simpl in Hs. destruct st; try discriminate; auto. }
  intros t a. change ((t, a) ∈ node_q s4 <-> act_iat s4 a = Some t).
  rewrite (set_node_q _ _ _ Hs), (set_node_act_iat _ _ _ a Hs). simpl.
  pose proof (Hix t a) as Hta. pose proof (Hix (nd_inactive_at n) (ta_bytes from)) as Hself.
  assert (Hother : forall t', (t', ta_bytes from) ∈ node_q s -> act_iat s (ta_bytes from) = Some t') by (intros t'; apply Hix).
  unfold act_iat in *.
  destruct Hcase as [(E & E1 & E2)|(E & E1 & E2)]; destruct Hst as [-> | ->]; rewrite E in Ep;
    repeat (case_bool_decide; try (exfalso; intuition congruence)); injection Ep as <- <-; simpl in *;
    rewrite ?Ea in *; ix_sets; rewrite ?E1 in *; simpl in *;
    (destruct (decide (a = ta_bytes from)) as [->|Hne];
     [rewrite ?lookup_delete, ?lookup_insert, ?E1 in *|rewrite ?lookup_delete_ne, ?lookup_insert_ne by congruence]); simpl in *;
    try naive_solver.
Qed.

Lemma idx_node_sweep_one s0 s n s' :
  kinv_node s0 -> n ∈ all_nodes s0 ->
  (kinv_node s /\ same_dom (node_act s) (node_act s0) /\ same_dom (node_inact s) (node_inact s0)) ->
  (forall a, act_iat s a = act_iat s0 a) -> node_q s = node_q s0 ->
  node_sweep_one s n = Ok s' -> (forall a, act_iat s' a = act_iat s0 a) /\ node_q s' = node_q s0.
Proof.
  intros H0 Hn J Hiat Hq H. unfold node_sweep_one in H. apply rbind_ok in H as (s1 & Hs & H). injection H as <-. apply must_ok in Hs.
  split; [|rewrite <- Hq; exact (set_node_q _ _ _ Hs)].
  intros a. change (act_iat s1 a = act_iat s0 a). rewrite (set_node_act_iat _ _ _ a Hs). simpl.
  case_bool_decide as Hc; [|apply Hiat]. destruct Hc as [Hst ->].
  destruct (elem_of_all_nodes _ _ H0 Hn) as [[Hs0 _]|[_ Hst']]; [|congruence].
  unfold act_iat. rewrite Hs0. reflexivity.
Qed.

Lemma idx_node_expire_one s e s' : kinv_node s -> idx_node s -> node_expire_one s e = Ok s' -> idx_node s'.
Proof.
  intros Hk Hix H. unfold node_expire_one in H. destruct (get_node s e.2) as [n|] eqn:Hg; [|discriminate].
  destruct (get_node_kinv _ _ _ Hk Hg) as [Ea Hcase].
  apply rbind_ok in H as (s2 & Hs & H). injection H as <-. apply must_ok in Hs.
  intros t a. change ((t, a) ∈ node_q s2 <-> act_iat s2 a = Some t).
  rewrite (set_node_q _ _ _ Hs), (set_node_act_iat _ _ _ a Hs). simpl.
  pose proof (Hix t a) as Hta. pose proof (fun t' => Hix t' (nd_addr n)) as Hself.
  unfold act_iat in *. simpl. ix_sets.
  destruct (decide (a = nd_addr n)) as [->|Hne]; [rewrite lookup_delete|rewrite lookup_delete_ne by congruence]; simpl.
  - rewrite Ea in *. destruct Hcase as [(E & E1 & E2)|(E & E1 & E2)]; rewrite E1 in *; simpl in *; naive_solver.
  - naive_solver.
Qed.

Lemma idx_node_end_block s s' : kinv s -> idx_node s -> node_end_block s = Ok s' -> idx_node s'.
Proof.
  intros Hi Hix H. unfold node_end_block in H. apply rbind_ok in H as (s1 & Hsw & H).
  assert (H1 : kinv_node s1 /\ idx_node s1).
  { destruct (_ || _); [|injection Hsw as <-; split; [apply Hi|exact Hix]].
    set (P := fun x => (kinv_node x /\ same_dom (node_act x) (node_act s) /\ same_dom (node_inact x) (node_inact s)) /\
                       (forall a, act_iat x a = act_iat s a) /\ node_q x = node_q s).
    assert (HP : P s1).
    { eapply (rfold_inv_in P); [| |exact Hsw].
      - intros x n x' Hn (J & Hiat & Hq) Hstep. split; [eapply kinv_node_sweep_one; eauto; apply Hi|].
        eapply idx_node_sweep_one; eauto. apply Hi.
      - split; [split; [apply Hi|split; intros k; reflexivity]|]. split; [reflexivity|reflexivity]. }
    destruct HP as ((Hk1 & _) & Hiat & Hq). split; [exact Hk1|]. eapply idx_node_frame; eauto. }
  destruct H1 as [Hk1 Hix1].
  assert (G : kinv_node s' /\ idx_node s').
  { eapply (rfold_inv (fun x => kinv_node x /\ idx_node x)); [|split; eassumption|exact H].
    intros x e x' [Hkx Hixx] Hstep. split; [eapply kinv_node_expire_one|eapply idx_node_expire_one]; eauto. }
  apply G.
Qed.

(** * one operation: sessions and nodes *)

Theorem idx_sess_node_step s o s' : kinv s -> idx_sess s -> idx_node s -> step s o = OOk s' -> idx_sess s' /\ idx_node s'.
Proof.
  intros Hi Hs Hn. unfold step. destruct o.
  - destruct (begin_block _) as [x| |] eqn:H; try discriminate. intros [= <-].
    apply begin_block_keeps in H.
    assert (En : node_act x = node_act s /\ node_q x = node_q s) by keeps_solve.
    split; [eapply (idx_sess_frame s); eauto; keeps_solve|eapply (idx_node_frame s); [apply En| |exact Hn]].
    intros a0. unfold act_iat. destruct En as [-> _]. reflexivity.
  - unfold run_tx. destruct (validate_basic m); [|discriminate].
    destruct (handle _ m) as [x| |] eqn:H; try discriminate. intros [= <-].
    assert (Hi0 : kinv (clear_events s)) by (apply kinv_clear; exact Hi).
    assert (Hs0 : idx_sess (clear_events s)) by (eapply (idx_sess_frame s); eauto).
    assert (Hn0 : idx_node (clear_events s)) by (eapply (idx_node_frame s); eauto).
    destruct m; simpl in H.
    all: try (split; [eapply idx_sess_keeps|eapply idx_node_keeps];
              [first [apply h_prov_register_keeps in H | apply h_prov_update_keeps in H | apply h_node_subscribe_keeps in H
                     | apply h_plan_create_keeps in H | apply h_plan_update_status_keeps in H | apply h_plan_link_keeps in H
                     | apply h_plan_unlink_keeps in H | apply h_plan_subscribe_keeps in H | apply h_sub_allocate_keeps in H
                     | apply h_swap_keeps in H]; exact H|reflexivity|assumption
              |first [apply h_prov_register_keeps in H | apply h_prov_update_keeps in H | apply h_node_subscribe_keeps in H
                     | apply h_plan_create_keeps in H | apply h_plan_update_status_keeps in H | apply h_plan_link_keeps in H
                     | apply h_plan_unlink_keeps in H | apply h_plan_subscribe_keeps in H | apply h_sub_allocate_keeps in H
                     | apply h_swap_keeps in H]; exact H|reflexivity|assumption]).
    + split; [eapply idx_sess_keeps; [eapply h_node_register_keeps; exact H|reflexivity|exact Hs0]|eapply idx_h_node_register; eauto].
    + split; [eapply idx_sess_keeps; [eapply h_node_update_details_keeps; exact H|reflexivity|exact Hs0]|eapply idx_h_node_update_details; eauto; apply Hi0].
    + split; [eapply idx_sess_keeps; [eapply h_node_update_status_keeps; exact H|reflexivity|exact Hs0]|eapply idx_h_node_update_status; eauto; apply Hi0].
    + (* cancel *) split; [|eapply idx_node_keeps; [eapply h_sub_cancel_keeps; exact H|reflexivity|exact Hn0]].
      unfold h_sub_cancel in H. destruct (subs _ !! id) as [sb|]; [|discriminate].
      apply rbind_ok in H as (u & _ & H). apply rbind_ok in H as (u2 & _ & H). apply rbind_ok in H as (s2 & Hp & H).
      pose proof (sub_make_pending_keeps s2 sb) as Hmp. apply detach_payout_keeps in H; [|discriminate].
      eapply (idx_sess_frame s2); try keeps_solve.
      eapply idx_sub_pending_hook; [| |exact Hp]; [eapply kinv_sess_frame; [..|apply (ki_sess _ Hi)]; reflexivity|].
      eapply (idx_sess_frame s); eauto.
    + split; [eapply idx_h_sess_start; eauto; apply Hi0|eapply idx_node_keeps; [eapply h_sess_start_keeps; exact H|reflexivity|exact Hn0]].
    + split; [eapply idx_h_sess_update; eauto; apply Hi0|eapply idx_node_keeps; [eapply h_sess_update_keeps; exact H|reflexivity|exact Hn0]].
    + split; [eapply idx_h_sess_end; eauto; apply Hi0|eapply idx_node_keeps; [eapply h_sess_end_keeps; exact H|reflexivity|exact Hn0]].
  - destruct (forallb pchange_valid _); [|discriminate]. intros [= <-].
    apply (fold_left_inv (fun y => idx_sess y /\ idx_node y)).
    + intros y c [A B]. pose proof (apply_pchange_keeps y c). split; [eapply idx_sess_keeps|eapply idx_node_keeps]; eauto.
    + split; [eapply (idx_sess_frame s)|eapply (idx_node_frame s)]; eauto.
  - destruct (end_block _) as [se| |] eqn:H; try discriminate. intros [= <-].
    unfold end_block in H. apply rbind_ok in H as (s1 & H1 & H). apply rbind_ok in H as (s2 & H2 & H3).
    assert (Hi0 : kinv (clear_events s)) by (apply kinv_clear; exact Hi).
    assert (Hs0 : idx_sess (clear_events s)) by (eapply (idx_sess_frame s); eauto).
    assert (Hn0 : idx_node (clear_events s)) by (eapply (idx_node_frame s); eauto).
    pose proof (kinv_node_end_block _ _ Hi0 H1) as Hi1. pose proof (idx_node_end_block _ _ Hi0 Hn0 H1) as Hn1.
    pose proof (node_end_block_keeps _ _ H1) as Hk1.
    assert (Hs1 : idx_sess s1) by (eapply idx_sess_keeps; eauto).
    assert (G2 : kinv s2 /\ idx_sess s2).
    { unfold session_end_block in H2. eapply (rfold_inv (fun y => kinv y /\ idx_sess y)); [|split; eassumption|exact H2].
      intros a e b [Ha Hb] Hstep. split; [eapply kinv_session_expire_one; eauto|eapply idx_session_expire_one; eauto; apply Ha]. }
    destruct G2 as [Hi2 Hs2].
    assert (G3 : kinv se /\ idx_sess se).
    { unfold sub_end_block in H3. eapply (rfold_inv (fun y => kinv y /\ idx_sess y)); [|split; eassumption|exact H3].
      intros a e b [Ha Hb] Hstep. split; [eapply kinv_sub_expire_one; eauto|].
      unfold sub_expire_one in Hstep. destruct (subs a !! e.2) as [sb|]; [|discriminate].
      case_bool_decide.
      - apply rbind_ok in Hstep as (a1 & Hp & Hstep). apply must_ok in Hp.
        pose proof (sub_make_pending_keeps a1 sb) as Hmp. apply detach_payout_keeps in Hstep; [|discriminate].
        eapply (idx_sess_frame a1); try keeps_solve.
        eapply idx_sub_pending_hook; [| |exact Hp]; [eapply kinv_sess_frame; [..|apply (ki_sess _ Ha)]; reflexivity|].
        eapply (idx_sess_frame a); eauto.
      - apply rbind_ok in Hstep as (a1 & Hr & Hstep). apply sub_refund_keeps in Hr. apply sub_delete_payout_keeps in Hstep.
        pose proof (sub_cleanup_keeps a1 sb) as Hc. eapply (idx_sess_frame a); eauto; keeps_solve. }
    apply session_end_block_keeps in H2. apply sub_end_block_keeps in H3.
    split; [eapply (idx_sess_frame se); try reflexivity; apply G3|].
    eapply (idx_node_frame s1); [keeps_solve| |exact Hn1].
    intros a. unfold act_iat. simpl. replace (node_act se) with (node_act s1) by (symmetry; keeps_solve). reflexivity.
Qed.
