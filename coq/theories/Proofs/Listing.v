(* C09, list level: every filtered listing of the model ([ids_for_*], [allocs_for],
   [all_nodes], the queue scans) is exactly the set of entries of its index, without
   duplicates and in strictly ascending order; and when an index is the image of a
   primary map under an attribute, the records a filtered query returns are exactly
   the full listing filtered by that attribute (none missing, none extra, none twice,
   no failing look-up).  The state invariants that make the hypotheses true are
   [idx_sess] (IndexSess.v), [idx_node] (IndexNode.v), [idx_sub]/[idx_plan] (InvDefs.v)
   and [kinv] (KeysInv.v); the instances are at the end of the file. *)
From Hub Require Import Base.Prelude Base.Arith Model.Types Model.Keeper Model.Handlers Model.Hooks Model.Step.
From Hub Require Import Proofs.Tactics Proofs.Sorting Proofs.Determinism Proofs.Frames Proofs.KeysInv.
From Hub Require Import Proofs.IndexSess Proofs.IndexNode Proofs.InvDefs.

(** * strictly ascending lists of integers *)

Lemma cmp_le_Z_le (x y : Z) : cmp_le Z.compare x y <-> x <= y.
Proof. unfold cmp_le. rewrite Z.compare_le_iff. reflexivity. Qed.

Lemma StronglySorted_impl {A} (R1 R2 : relation A) (l : list A) :
  (forall x y, R1 x y -> R2 x y) -> StronglySorted R1 l -> StronglySorted R2 l.
Proof.
  intros Himp Hs. induction Hs as [|x l Hs IH Hall]; constructor; [exact IH|].
  eapply Forall_impl; [exact Hall|]. intros y Hy. apply Himp. exact Hy.
Qed.

Lemma sort_by_Z_sorted (l : list Z) : StronglySorted Z.le (sort_by Z.compare l).
Proof.
  apply (StronglySorted_impl (cmp_le Z.compare)); [intros x y; apply cmp_le_Z_le|].
  apply sort_by_sorted, _.
Qed.

(* sorted by a key without repeated keys = strictly sorted by that key *)
Lemma sorted_nodup_strict {A} (f : A -> Z) (l : list A) :
  StronglySorted (fun x y => f x <= f y) l -> NoDup (map f l) ->
  StronglySorted (fun x y => f x < f y) l.
Proof.
  intros Hs. induction Hs as [|x l Hs IH Hall]; intros Hnd; [constructor|].
  simpl in Hnd. apply NoDup_cons in Hnd as [Hx Hnd]. constructor; [apply IH; exact Hnd|].
  apply Forall_forall. intros y Hy. rewrite Forall_forall in Hall. specialize (Hall y Hy).
  assert (Hne : f y <> f x).
  { intros E. apply Hx. rewrite <- E. apply elem_of_list_fmap. exists y. auto. }
  lia.
Qed.

Lemma strict_sorted_le (l : list Z) : StronglySorted Z.lt l -> StronglySorted Z.le l.
Proof. apply StronglySorted_impl. intros x y; lia. Qed.

Lemma strict_sorted_NoDup (l : list Z) : StronglySorted Z.lt l -> NoDup l.
Proof.
  intros Hs. induction Hs as [|x l Hs IH Hall]; constructor; [|exact IH].
  intros Hx. rewrite Forall_forall in Hall. specialize (Hall x Hx). lia.
Qed.

Lemma sorted_nodup_lt (l : list Z) : StronglySorted Z.le l -> NoDup l -> StronglySorted Z.lt l.
Proof.
  intros Hs Hnd. apply (sorted_nodup_strict (fun x => x) l).
  - exact Hs.
  - rewrite map_id. exact Hnd.
Qed.

#[local] Instance Z_le_antisym : AntiSymm (=) Z.le.
Proof. intros x y H1 H2. lia. Qed.

(* two strictly ascending lists with the same elements are equal *)
Theorem sorted_nodup_unique (l1 l2 : list Z) :
  StronglySorted Z.lt l1 -> StronglySorted Z.lt l2 -> (forall x, x ∈ l1 <-> x ∈ l2) -> l1 = l2.
Proof.
  intros H1 H2 Hel. apply (StronglySorted_unique Z.le).
  - apply strict_sorted_le, H1.
  - apply strict_sorted_le, H2.
  - apply NoDup_Permutation; [apply strict_sorted_NoDup, H1|apply strict_sorted_NoDup, H2|exact Hel].
Qed.

(** * ids below an index prefix: the generic form of [ids_for_z/a/aa/za] *)

Lemma bind_select {A B} (P : A -> Prop) `{forall x, Decision (P x)} (g : A -> B) (l : list A) :
  l ≫= (fun e => if bool_decide (P e) then [g e] else []) = map g (filter P l).
Proof.
  induction l as [|x l IH]; [reflexivity|].
  change ((x :: l) ≫= (fun e => if bool_decide (P e) then [g e] else []))
    with ((if bool_decide (P x) then [g x] else []) ++ (l ≫= fun e => if bool_decide (P e) then [g e] else [])).
  rewrite IH. destruct (decide (P x)) as [Hx|Hx].
  - rewrite bool_decide_eq_true_2 by exact Hx. rewrite filter_cons_True by exact Hx. reflexivity.
  - rewrite bool_decide_eq_false_2 by exact Hx. rewrite filter_cons_False by exact Hx. reflexivity.
Qed.

Section ids.
  Context {K : Type} `{Countable K}.
  Implicit Types (ix : gset (K * Z)) (k : K) (id : Z).

  Definition ids_gen ix k : list Z :=
    sort_by Z.compare (elements ix ≫= fun e => if bool_decide (e.1 = k) then [e.2] else []).

  Lemma ids_gen_filter ix k :
    ids_gen ix k = sort_by Z.compare (map snd (filter (fun e => e.1 = k) (elements ix))).
  Proof. unfold ids_gen. rewrite (bind_select (fun e : K * Z => e.1 = k) snd). reflexivity. Qed.

  Lemma elem_of_ids_gen ix k id : id ∈ ids_gen ix k <-> (k, id) ∈ ix.
  Proof.
    rewrite ids_gen_filter, elem_of_sort_by, elem_of_list_fmap. split.
    - intros ([k' id'] & -> & Hin). apply elem_of_list_filter in Hin as [Hk Hin]. simpl in Hk. subst k'.
      apply elem_of_elements in Hin. exact Hin.
    - intros Hin. exists (k, id). split; [reflexivity|]. apply elem_of_list_filter. split; [reflexivity|].
      apply elem_of_elements. exact Hin.
  Qed.

  Lemma NoDup_ids_gen ix k : NoDup (ids_gen ix k).
  Proof.
    rewrite ids_gen_filter. apply NoDup_sort_by. apply NoDup_fmap_2_strong.
    - intros [k1 i1] [k2 i2] H1 H2 E. apply elem_of_list_filter in H1 as [H1 _]. apply elem_of_list_filter in H2 as [H2 _].
      simpl in *. congruence.
    - apply NoDup_filter, NoDup_elements.
  Qed.

  Lemma ids_gen_sorted ix k : StronglySorted Z.le (ids_gen ix k).
  Proof. unfold ids_gen. apply sort_by_Z_sorted. Qed.

  Lemma ids_gen_strict ix k : StronglySorted Z.lt (ids_gen ix k).
  Proof. apply sorted_nodup_lt; [apply ids_gen_sorted|apply NoDup_ids_gen]. Qed.

  (* the listing is THE strictly ascending enumeration of the ids filed under [k] *)
  Theorem ids_gen_spec ix k (l : list Z) :
    l = ids_gen ix k <-> StronglySorted Z.lt l /\ forall id, id ∈ l <-> (k, id) ∈ ix.
  Proof.
    split.
    - intros ->. split; [apply ids_gen_strict|]. intros id. apply elem_of_ids_gen.
    - intros [Hs Hel]. apply sorted_nodup_unique; [exact Hs|apply ids_gen_strict|].
      intros id. rewrite Hel, elem_of_ids_gen. reflexivity.
  Qed.

  (* entries filed under another key contribute nothing, whatever the relation between the keys *)
  Lemma ids_gen_isolated ix k k' id : k <> k' -> (k', id) ∈ ix -> (k, id) ∉ ix -> id ∉ ids_gen ix k.
  Proof. intros _ _ Hn Hin. apply Hn. apply elem_of_ids_gen. exact Hin. Qed.

  (* the listing under [k] is a function of the entries whose key EQUALS [k] *)
  Lemma ids_gen_local ix ix' k :
    (forall id, (k, id) ∈ ix <-> (k, id) ∈ ix') -> ids_gen ix k = ids_gen ix' k.
  Proof.
    intros Hk. apply ids_gen_spec. split; [apply ids_gen_strict|].
    intros id. rewrite elem_of_ids_gen. apply Hk.
  Qed.

  Lemma ids_gen_length ix k : length (ids_gen ix k) = size (filter (fun e : K * Z => e.1 = k) ix).
  Proof.
    rewrite ids_gen_filter, (Permutation_length (sort_by_perm _ _)), map_length.
    unfold size, set_size. simpl. apply Permutation_length. apply NoDup_Permutation.
    - apply NoDup_filter, NoDup_elements.
    - apply NoDup_elements.
    - intros e. rewrite elem_of_list_filter, !elem_of_elements, elem_of_filter. reflexivity.
  Qed.
End ids.

(** * the four concrete listings of Model/Keeper.v are instances *)

Lemma ids_for_z_gen (ix : gset (Z * Z)) k : ids_for_z ix k = ids_gen ix k.
Proof. reflexivity. Qed.
Lemma ids_for_a_gen (ix : gset (addr * Z)) k : ids_for_a ix k = ids_gen ix k.
Proof. reflexivity. Qed.
Lemma ids_for_aa_gen (ix : gset (addr * addr * Z)) k1 k2 : ids_for_aa ix k1 k2 = ids_gen ix (k1, k2).
Proof. reflexivity. Qed.
Lemma ids_for_za_gen (ix : gset (Z * addr * Z)) k1 k2 : ids_for_za ix k1 k2 = ids_gen ix (k1, k2).
Proof. reflexivity. Qed.

(** ** by integer key (plan, subscription) *)

Lemma elem_of_ids_for_z (ix : gset (Z * Z)) k id : id ∈ ids_for_z ix k <-> (k, id) ∈ ix.
Proof. apply elem_of_ids_gen. Qed.
Lemma NoDup_ids_for_z (ix : gset (Z * Z)) k : NoDup (ids_for_z ix k).
Proof. apply NoDup_ids_gen. Qed.
Lemma ids_for_z_sorted (ix : gset (Z * Z)) k : StronglySorted Z.le (ids_for_z ix k).
Proof. apply ids_gen_sorted. Qed.
Lemma ids_for_z_strict (ix : gset (Z * Z)) k : StronglySorted Z.lt (ids_for_z ix k).
Proof. apply ids_gen_strict. Qed.
Theorem ids_for_z_spec (ix : gset (Z * Z)) k (l : list Z) :
  l = ids_for_z ix k <-> StronglySorted Z.lt l /\ forall id, id ∈ l <-> (k, id) ∈ ix.
Proof. apply ids_gen_spec. Qed.
Lemma ids_for_z_isolated (ix : gset (Z * Z)) k k' id : k <> k' -> (k', id) ∈ ix -> (k, id) ∉ ix -> id ∉ ids_for_z ix k.
Proof. apply ids_gen_isolated. Qed.

(** ** by address (account, node, provider) *)

Lemma elem_of_ids_for_a (ix : gset (addr * Z)) a id : id ∈ ids_for_a ix a <-> (a, id) ∈ ix.
Proof. apply elem_of_ids_gen. Qed.
Lemma NoDup_ids_for_a (ix : gset (addr * Z)) a : NoDup (ids_for_a ix a).
Proof. apply NoDup_ids_gen. Qed.
Lemma ids_for_a_sorted (ix : gset (addr * Z)) a : StronglySorted Z.le (ids_for_a ix a).
Proof. apply ids_gen_sorted. Qed.
Lemma ids_for_a_strict (ix : gset (addr * Z)) a : StronglySorted Z.lt (ids_for_a ix a).
Proof. apply ids_gen_strict. Qed.
Theorem ids_for_a_spec (ix : gset (addr * Z)) a (l : list Z) :
  l = ids_for_a ix a <-> StronglySorted Z.lt l /\ forall id, id ∈ l <-> (a, id) ∈ ix.
Proof. apply ids_gen_spec. Qed.

(* prefix isolation: an entry filed under a different address [b] -- in particular one whose bytes
   extend or truncate those of [a] -- contributes nothing to the listing of [a] *)
Lemma ids_for_a_isolated (ix : gset (addr * Z)) a b id :
  a <> b -> (b, id) ∈ ix -> (a, id) ∉ ix -> id ∉ ids_for_a ix a.
Proof. apply ids_gen_isolated. Qed.

Lemma ids_for_a_prefix_isolated (ix : gset (addr * Z)) a ext id :
  ext <> [] -> (a ++ ext, id) ∈ ix -> (a, id) ∉ ix -> id ∉ ids_for_a ix a /\ id ∈ ids_for_a ix (a ++ ext).
Proof.
  intros Hext Hin Hn. split.
  - intros H. apply Hn. apply elem_of_ids_for_a. exact H.
  - apply elem_of_ids_for_a. exact Hin.
Qed.

(* adding or removing entries under other addresses does not change the listing of [a] *)
Lemma ids_for_a_local (ix ix' : gset (addr * Z)) a :
  (forall id, (a, id) ∈ ix <-> (a, id) ∈ ix') -> ids_for_a ix a = ids_for_a ix' a.
Proof. apply ids_gen_local. Qed.

Lemma ids_for_a_insert_other (ix : gset (addr * Z)) a b id :
  a <> b -> ids_for_a (ix ∪ {[ (b, id) ]}) a = ids_for_a ix a.
Proof. intros Hne. apply ids_for_a_local. intros i. set_solver. Qed.

Lemma ids_for_a_delete_other (ix : gset (addr * Z)) a b id :
  a <> b -> ids_for_a (ix ∖ {[ (b, id) ]}) a = ids_for_a ix a.
Proof. intros Hne. apply ids_for_a_local. intros i. set_solver. Qed.

(** ** by (account, node) *)

Lemma elem_of_ids_for_aa (ix : gset (addr * addr * Z)) a b id : id ∈ ids_for_aa ix a b <-> (a, b, id) ∈ ix.
Proof. apply (elem_of_ids_gen ix (a, b)). Qed.
Lemma NoDup_ids_for_aa (ix : gset (addr * addr * Z)) a b : NoDup (ids_for_aa ix a b).
Proof. apply (NoDup_ids_gen ix (a, b)). Qed.
Lemma ids_for_aa_sorted (ix : gset (addr * addr * Z)) a b : StronglySorted Z.le (ids_for_aa ix a b).
Proof. apply (ids_gen_sorted ix (a, b)). Qed.
Lemma ids_for_aa_strict (ix : gset (addr * addr * Z)) a b : StronglySorted Z.lt (ids_for_aa ix a b).
Proof. apply (ids_gen_strict ix (a, b)). Qed.
Theorem ids_for_aa_spec (ix : gset (addr * addr * Z)) a b (l : list Z) :
  l = ids_for_aa ix a b <-> StronglySorted Z.lt l /\ forall id, id ∈ l <-> (a, b, id) ∈ ix.
Proof. apply (ids_gen_spec ix (a, b)). Qed.
Lemma ids_for_aa_isolated (ix : gset (addr * addr * Z)) a b a' b' id :
  (a, b) <> (a', b') -> (a', b', id) ∈ ix -> (a, b, id) ∉ ix -> id ∉ ids_for_aa ix a b.
Proof. apply (ids_gen_isolated ix (a, b) (a', b')). Qed.

(** ** by (subscription, account) *)

Lemma elem_of_ids_for_za (ix : gset (Z * addr * Z)) k a id : id ∈ ids_for_za ix k a <-> (k, a, id) ∈ ix.
Proof. apply (elem_of_ids_gen ix (k, a)). Qed.
Lemma NoDup_ids_for_za (ix : gset (Z * addr * Z)) k a : NoDup (ids_for_za ix k a).
Proof. apply (NoDup_ids_gen ix (k, a)). Qed.
Lemma ids_for_za_sorted (ix : gset (Z * addr * Z)) k a : StronglySorted Z.le (ids_for_za ix k a).
Proof. apply (ids_gen_sorted ix (k, a)). Qed.
Lemma ids_for_za_strict (ix : gset (Z * addr * Z)) k a : StronglySorted Z.lt (ids_for_za ix k a).
Proof. apply (ids_gen_strict ix (k, a)). Qed.
Theorem ids_for_za_spec (ix : gset (Z * addr * Z)) k a (l : list Z) :
  l = ids_for_za ix k a <-> StronglySorted Z.lt l /\ forall id, id ∈ l <-> (k, a, id) ∈ ix.
Proof. apply (ids_gen_spec ix (k, a)). Qed.
Lemma ids_for_za_isolated (ix : gset (Z * addr * Z)) k a k' a' id :
  (k, a) <> (k', a') -> (k', a', id) ∈ ix -> (k, a, id) ∉ ix -> id ∉ ids_for_za ix k a.
Proof. apply (ids_gen_isolated ix (k, a) (k', a')). Qed.

(* the latest entry (reverse iteration, first hit) is the largest id of the listing *)
Lemma last_ids_max (l : list Z) x : StronglySorted Z.le l -> last l = Some x -> forall y, y ∈ l -> y <= x.
Proof.
  intros Hs. induction Hs as [|z l Hs IH Hall]; [discriminate|].
  destruct l as [|z' l'].
  - simpl. intros [= <-] y Hy. apply elem_of_list_singleton in Hy. lia.
  - intros Hl y Hy. change (last (z' :: l') = Some x) in Hl.
    apply elem_of_cons in Hy as [->|Hy]; [|apply IH; assumption].
    rewrite Forall_forall in Hall. etransitivity; [apply (Hall z'); left|]. apply IH; [exact Hl|left].
Qed.

Lemma last_ids_in {A} (l : list A) x : last l = Some x -> x ∈ l.
Proof.
  induction l as [|y l IH]; [discriminate|]. destruct l as [|z l]; [intros [= <-]; left|].
  intros H. right. apply IH. exact H.
Qed.

(** * allocations of one subscription *)

(* the (key, record) pairs behind [allocs_for], in key order *)
Definition alloc_entries (s : state) (id : Z) : list (Z * addr * allocation) :=
  sort_by (fun x y => cmp_za x.1 y.1) (filter (fun kv => kv.1.1 = id) (map_to_list (allocs s))).

Lemma allocs_for_entries s id : allocs_for s id = map snd (alloc_entries s id).
Proof. reflexivity. Qed.

Lemma elem_of_alloc_entries s id k al : (k, al) ∈ alloc_entries s id <-> k.1 = id /\ allocs s !! k = Some al.
Proof.
  unfold alloc_entries. rewrite elem_of_sort_by, elem_of_list_filter, elem_of_map_to_list. reflexivity.
Qed.

Lemma elem_of_allocs_for s id al : al ∈ allocs_for s id <-> exists a, allocs s !! (id, a) = Some al.
Proof.
  rewrite allocs_for_entries, elem_of_list_fmap. split.
  - intros ([[i a] al'] & -> & Hin). apply elem_of_alloc_entries in Hin as [Hi Hal]. simpl in Hi. subst i. eauto.
  - intros [a Hal]. exists ((id, a), al). split; [reflexivity|]. apply elem_of_alloc_entries. auto.
Qed.

(* no key twice *)
Lemma NoDup_alloc_keys s id : NoDup (map fst (alloc_entries s id)).
Proof.
  unfold alloc_entries. rewrite (sort_by_perm _ _).
  assert (G : forall l : list (Z * addr * allocation), NoDup (map fst l) -> NoDup (map fst (filter (fun kv => kv.1.1 = id) l))).
  { induction l as [|x l IH]; intros Hnd; [constructor|]. simpl in Hnd. apply NoDup_cons in Hnd as [Hx Hnd].
    destruct (decide (x.1.1 = id)) as [E|E].
    - rewrite filter_cons_True by exact E. simpl. apply NoDup_cons. split; [|apply IH; exact Hnd].
      intros Hin. apply Hx. apply elem_of_list_fmap in Hin as (y & Ey & Hy). apply elem_of_list_filter in Hy as [_ Hy].
      apply elem_of_list_fmap. eauto.
    - rewrite filter_cons_False by exact E. apply IH. exact Hnd. }
  apply G. apply NoDup_fst_map_to_list.
Qed.

Lemma NoDup_alloc_entries s id : NoDup (alloc_entries s id).
Proof. eapply NoDup_fmap_1. apply NoDup_alloc_keys. Qed.

Lemma alloc_entries_sorted s id : StronglySorted (fun x y => cmp_le cmp_za x.1 y.1) (alloc_entries s id).
Proof.
  unfold alloc_entries.
  assert (GC : GoodCmp (fun x y : Z * addr * allocation => cmp_za x.1 y.1)).
  { split.
    - intros x y. apply (gc_total (c := cmp_za)).
    - intros x y z. apply (gc_trans (c := cmp_za)). }
  apply (sort_by_sorted _ (GoodCmp0 := GC)).
Qed.

Lemma length_allocs_for s id : length (allocs_for s id) = size (filter (fun kv : Z * addr * allocation => kv.1.1 = id) (allocs s)).
Proof.
  rewrite allocs_for_entries, map_length. unfold alloc_entries. rewrite (Permutation_length (sort_by_perm _ _)).
  unfold size, map_size. apply Permutation_length. apply NoDup_Permutation.
  - apply NoDup_filter, NoDup_map_to_list.
  - apply NoDup_map_to_list.
  - intros [k al]. rewrite elem_of_list_filter, !elem_of_map_to_list, map_filter_lookup_Some. tauto.
Qed.

(* under key/record agreement every returned allocation belongs to the subscription asked for,
   is stored under its own (subscription, account) key, and no account appears twice *)
Lemma allocs_for_id s id al : kinv_sub s -> al ∈ allocs_for s id -> al_id al = id.
Proof.
  intros Hk Hin. apply elem_of_allocs_for in Hin as [a Hal]. destruct (k_al _ Hk _ _ Hal) as (E & _). exact E.
Qed.

Lemma allocs_for_key s id al : kinv_sub s -> al ∈ allocs_for s id <-> al_id al = id /\ allocs s !! (id, al_addr al) = Some al.
Proof.
  intros Hk. rewrite elem_of_allocs_for. split.
  - intros [a Hal]. destruct (k_al _ Hk _ _ Hal) as (E1 & E2 & _). simpl in E1, E2. subst a. auto.
  - intros [_ Hal]. eauto.
Qed.

Lemma alloc_entries_addr s id : kinv_sub s -> map al_addr (allocs_for s id) = map (fun kv => kv.1.2) (alloc_entries s id).
Proof.
  intros Hk. rewrite allocs_for_entries, map_map. apply map_ext_in. intros [[i a] al] Hin.
  apply elem_of_list_In, elem_of_alloc_entries in Hin as [_ Hal]. destruct (k_al _ Hk _ _ Hal) as (_ & E2 & _). exact E2.
Qed.

Lemma NoDup_allocs_for_addr s id : kinv_sub s -> NoDup (map al_addr (allocs_for s id)).
Proof.
  intros Hk. rewrite (alloc_entries_addr s id Hk).
  pose proof (NoDup_alloc_keys s id) as Hnd.
  assert (E : map (fun kv : Z * addr * allocation => kv.1.2) (alloc_entries s id) = map snd (map fst (alloc_entries s id))).
  { rewrite map_map. reflexivity. }
  rewrite E. apply NoDup_fmap_2_strong; [|exact Hnd].
  intros [i1 a1] [i2 a2] H1 H2 Ea. simpl in Ea. subst a2.
  apply elem_of_list_fmap in H1 as ([k1 al1] & E1 & H1). apply elem_of_list_fmap in H2 as ([k2 al2] & E2 & H2).
  simpl in E1, E2. subst k1 k2. apply elem_of_alloc_entries in H1 as [H1 _]. apply elem_of_alloc_entries in H2 as [H2 _].
  simpl in H1, H2. congruence.
Qed.

Lemma NoDup_allocs_for s id : kinv_sub s -> NoDup (allocs_for s id).
Proof. intros Hk. eapply NoDup_fmap_1. apply NoDup_allocs_for_addr. exact Hk. Qed.

(** * all nodes (active partition, then inactive partition) *)

Lemma elem_of_all_nodes_iff s n :
  kinv_node s -> n ∈ all_nodes s <-> node_act s !! nd_addr n = Some n \/ node_inact s !! nd_addr n = Some n.
Proof.
  intros Hk. split.
  - intros Hin. destruct (elem_of_all_nodes _ _ Hk Hin) as [[H1 _]|[H1 _]]; auto.
  - unfold all_nodes. rewrite elem_of_app, !elem_of_list_fmap. intros [Hn|Hn]; [left|right];
      (exists (nd_addr n, n); split; [reflexivity|]; apply elem_of_sort_by, elem_of_map_to_list; exact Hn).
Qed.

Lemma elem_of_all_nodes_get s n : kinv_node s -> n ∈ all_nodes s <-> get_node s (nd_addr n) = Some n.
Proof.
  intros Hk. rewrite (elem_of_all_nodes_iff s n Hk). split.
  - intros [Ha|Hi]; unfold get_node; [rewrite Ha; reflexivity|].
    rewrite (dp_sym_none _ _ _ _ (k_nd _ Hk) Hi). exact Hi.
  - intros Hg. apply get_node_cases in Hg. tauto.
Qed.

Lemma NoDup_map_values {K V} `{Countable K} (key : V -> K) (c : K * V -> K * V -> comparison) (m : gmap K V) :
  (forall k v, m !! k = Some v -> key v = k) -> NoDup (map snd (sort_by c (map_to_list m))).
Proof.
  intros Hkey. apply NoDup_fmap_2_strong; [|apply NoDup_sort_by, NoDup_map_to_list].
  intros [k1 v1] [k2 v2] H1 H2 E. simpl in E. subst v2.
  apply elem_of_sort_by, elem_of_map_to_list in H1. apply elem_of_sort_by, elem_of_map_to_list in H2.
  rewrite <- (Hkey _ _ H1), <- (Hkey _ _ H2). reflexivity.
Qed.

Lemma NoDup_all_nodes s : kinv_node s -> NoDup (all_nodes s).
Proof.
  intros Hk. unfold all_nodes. apply NoDup_app. split; [|split].
  - apply (NoDup_map_values nd_addr). intros a n Hn. apply (k_na _ Hk _ _ Hn).
  - intros n H1 H2. apply elem_of_list_fmap in H1 as ([a1 n1] & -> & H1). apply elem_of_list_fmap in H2 as ([a2 n2] & E & H2).
    apply elem_of_sort_by, elem_of_map_to_list in H1. apply elem_of_sort_by, elem_of_map_to_list in H2. simpl in E. subst n2.
    destruct (k_na _ Hk _ _ H1) as [_ E1]. destruct (k_ni _ Hk _ _ H2) as [_ E2]. congruence.
  - apply (NoDup_map_values nd_addr). intros a n Hn. apply (k_ni _ Hk _ _ Hn).
Qed.

Lemma length_all_nodes s : length (all_nodes s) = (size (node_act s) + size (node_inact s))%nat.
Proof.
  unfold all_nodes. rewrite app_length, !map_length, !(Permutation_length (sort_by_perm _ _)). reflexivity.
Qed.

(** * filtered listing = filter of the full listing *)

(* the unfiltered listing of a store keyed by identifier: all records in key order *)
Definition entries {V} (m : gmap Z V) : list (Z * V) := sort_by (fun x y => Z.compare x.1 y.1) (map_to_list m).
Definition listing {V} (m : gmap Z V) : list V := map snd (entries m).

Lemma elem_of_entries {V} (m : gmap Z V) id v : (id, v) ∈ entries m <-> m !! id = Some v.
Proof. unfold entries. rewrite elem_of_sort_by, elem_of_map_to_list. reflexivity. Qed.

Lemma elem_of_listing {V} (m : gmap Z V) v : v ∈ listing m <-> exists id, m !! id = Some v.
Proof.
  unfold listing. rewrite elem_of_list_fmap. split.
  - intros ([id v'] & -> & Hin). apply elem_of_entries in Hin. eauto.
  - intros [id Hv]. exists (id, v). split; [reflexivity|]. apply elem_of_entries. exact Hv.
Qed.

Lemma entries_keys_NoDup {V} (m : gmap Z V) : NoDup (map fst (entries m)).
Proof. unfold entries. rewrite (sort_by_perm _ _). apply NoDup_fst_map_to_list. Qed.

Lemma entries_strict {V} (m : gmap Z V) : StronglySorted (fun x y : Z * V => x.1 < y.1) (entries m).
Proof.
  apply (sorted_nodup_strict fst); [|apply entries_keys_NoDup].
  apply (StronglySorted_impl (cmp_le (fun x y : Z * V => Z.compare x.1 y.1))).
  - intros x y Hxy. apply cmp_le_Z_le in Hxy. exact Hxy.
  - unfold entries. apply (sort_by_sorted _ (GoodCmp0 := good_cmp_proj fst)).
Qed.

Lemma length_listing {V} (m : gmap Z V) : length (listing m) = size m.
Proof. unfold listing, entries. rewrite map_length, (Permutation_length (sort_by_perm _ _)). reflexivity. Qed.

Lemma filter_map_snd {A B} (Q : B -> Prop) `{forall y, Decision (Q y)} (l : list (A * B)) :
  map snd (filter (fun e => Q e.2) l) = filter Q (map snd l).
Proof.
  induction l as [|x l IH]; [reflexivity|]. simpl. destruct (decide (Q x.2)) as [Hx|Hx].
  - rewrite !filter_cons_True by exact Hx. simpl. rewrite IH. reflexivity.
  - rewrite !filter_cons_False by exact Hx. exact IH.
Qed.

Lemma omap_lookup_entries {V} (m : gmap Z V) (l : list (Z * V)) :
  (forall e, e ∈ l -> m !! e.1 = Some e.2) -> omap (fun id => m !! id) (map fst l) = map snd l.
Proof.
  induction l as [|x l IH]; intros Hl; [reflexivity|].
  change (omap (fun id => m !! id) (map fst (x :: l)))
    with (match m !! x.1 with Some y => y :: omap (fun id => m !! id) (map fst l) | None => omap (fun id => m !! id) (map fst l) end).
  rewrite (Hl x) by left. rewrite IH; [reflexivity|]. intros e He. apply Hl. right. exact He.
Qed.

(* an index [ix] files the records of [m] under the keys related to them by [P]
   ([P k id v]: record [v], stored under [id], has attribute [k]) *)
Definition indexes {V K} `{Countable K} (ix : gset (K * Z)) (m : gmap Z V) (P : K -> Z -> V -> Prop) : Prop :=
  forall k id, (k, id) ∈ ix <-> exists v, m !! id = Some v /\ P k id v.

Section filtered.
  Context {V K : Type} `{Countable K}.
  Context (m : gmap Z V) (P : K -> Z -> V -> Prop) {Pdec : forall k id v, Decision (P k id v)} (ix : gset (K * Z)).
  Hypothesis Hix : indexes ix m P.

  (* the matching entries of the full listing *)
  Definition matching (k : K) : list (Z * V) := filter (fun e => P k e.1 e.2) (entries m).

  Lemma matching_lookup k e : e ∈ matching k -> m !! e.1 = Some e.2.
  Proof. destruct e as [id v]. intros Hin. apply elem_of_list_filter in Hin as [_ Hin]. apply elem_of_entries in Hin. exact Hin. Qed.

  (* the ids a filtered query visits are the keys of the matching entries of the full listing, in order *)
  Lemma filtered_ids k : ids_gen ix k = map fst (matching k).
  Proof.
    symmetry. apply ids_gen_spec. split.
    - apply (StronglySorted_fmap fst (fun x y : Z * V => x.1 < y.1)); [auto|].
      apply StronglySorted_filter, entries_strict.
    - intros id. rewrite (Hix k id), elem_of_list_fmap. split.
      + intros ([id' v] & -> & Hin). apply elem_of_list_filter in Hin as [Hp Hin]. apply elem_of_entries in Hin. eauto.
      + intros (v & Hv & Hp). exists (id, v). split; [reflexivity|]. apply elem_of_list_filter.
        split; [exact Hp|apply elem_of_entries; exact Hv].
  Qed.

  (* none missing, none extra, same order *)
  Theorem filtered_entries k : omap (fun id => m !! id) (ids_gen ix k) = map snd (matching k).
  Proof. rewrite filtered_ids. apply omap_lookup_entries. apply matching_lookup. Qed.

  (* no dangling entry: every look-up the query performs succeeds, and the record has the attribute *)
  Theorem filtered_total k id : id ∈ ids_gen ix k -> exists v, m !! id = Some v /\ P k id v.
  Proof. intros Hin. apply elem_of_ids_gen in Hin. apply Hix. exact Hin. Qed.

  Corollary filtered_no_error k id : id ∈ ids_gen ix k -> is_Some (m !! id).
  Proof. intros Hin. destruct (filtered_total k id Hin) as (v & Hv & _). eauto. Qed.

  (* none missing *)
  Theorem filtered_complete k id v :
    m !! id = Some v -> P k id v -> id ∈ ids_gen ix k /\ v ∈ omap (fun id => m !! id) (ids_gen ix k).
  Proof.
    intros Hv Hp. assert (Hin : id ∈ ids_gen ix k) by (apply elem_of_ids_gen, Hix; eauto).
    split; [exact Hin|]. apply elem_of_list_omap. eauto.
  Qed.

  (* none extra *)
  Theorem filtered_sound k v :
    v ∈ omap (fun id => m !! id) (ids_gen ix k) -> exists id, m !! id = Some v /\ P k id v.
  Proof.
    intros Hin. apply elem_of_list_omap in Hin as (id & Hid & Hv). exists id. split; [exact Hv|].
    destruct (filtered_total k id Hid) as (v' & Hv' & Hp). congruence.
  Qed.

  (* as many results as ids visited, as many as matching records in the store *)
  Theorem filtered_length k :
    length (omap (fun id => m !! id) (ids_gen ix k)) = length (ids_gen ix k) /\
    length (ids_gen ix k) = size (filter (fun e : Z * V => P k e.1 e.2) m).
  Proof.
    rewrite filtered_entries, filtered_ids, !map_length.
    split; [reflexivity|]. unfold matching, entries.
    unfold size, map_size. apply Permutation_length. apply NoDup_Permutation.
    - apply NoDup_filter, NoDup_sort_by, NoDup_map_to_list.
    - apply NoDup_map_to_list.
    - intros [id v]. rewrite elem_of_list_filter, elem_of_sort_by, !elem_of_map_to_list, map_filter_lookup_Some. tauto.
  Qed.

  (* none twice: the ids are pairwise distinct, and so are the records as soon as a record determines its id *)
  Theorem filtered_NoDup_ids k : NoDup (ids_gen ix k).
  Proof. apply NoDup_ids_gen. Qed.

  Theorem filtered_NoDup (key : V -> Z) k :
    (forall id v, m !! id = Some v -> key v = id) -> NoDup (omap (fun id => m !! id) (ids_gen ix k)).
  Proof.
    intros Hkey. rewrite filtered_entries. apply NoDup_fmap_2_strong.
    - intros [i1 v1] [i2 v2] H1 H2 E. simpl in E. subst v2.
      apply matching_lookup in H1. apply matching_lookup in H2. simpl in H1, H2.
      rewrite <- (Hkey _ _ H1), <- (Hkey _ _ H2). reflexivity.
    - apply NoDup_filter. unfold entries. apply NoDup_sort_by, NoDup_map_to_list.
  Qed.

  (* the i-th record returned is the record of the i-th id *)
  Theorem filtered_pointwise k i id : ids_gen ix k !! i = Some id -> omap (fun id => m !! id) (ids_gen ix k) !! i = m !! id.
  Proof.
    rewrite filtered_entries, filtered_ids, !list_lookup_fmap.
    destruct (matching k !! i) as [[id' v]|] eqn:E; simpl; [|discriminate].
    intros [= ->]. apply elem_of_list_lookup_2, matching_lookup in E. auto.
  Qed.
End filtered.

(* the common case: the attribute is a property of the record alone *)
Section filtered_attr.
  Context {V K : Type} `{Countable K}.
  Context (m : gmap Z V) (Q : K -> V -> Prop) {Qdec : forall k v, Decision (Q k v)} (ix : gset (K * Z)).
  Hypothesis Hix : indexes ix m (fun k _ v => Q k v).

  Theorem filtered_listing k : omap (fun id => m !! id) (ids_gen ix k) = filter (Q k) (listing m).
  Proof.
    rewrite (filtered_entries m (fun k _ v => Q k v) ix Hix). unfold matching, listing.
    apply (filter_map_snd (Q k)).
  Qed.

  Theorem filtered_listing_length k : length (ids_gen ix k) = length (filter (Q k) (listing m)).
  Proof.
    rewrite <- filtered_listing. symmetry. apply (filtered_length m (fun k _ v => Q k v) ix Hix).
  Qed.
End filtered_attr.

(* everything a client can observe about one filtered query, in one record *)
Record query_ok {V} (m : gmap Z V) (Q : Z -> V -> Prop) {Qdec : forall id v, Decision (Q id v)} (ids : list Z) : Prop := {
  q_ids : forall id, id ∈ ids <-> exists v, m !! id = Some v /\ Q id v;
  q_strict : StronglySorted Z.lt ids;
  q_nodup : NoDup ids;
  q_no_error : forall id, id ∈ ids -> is_Some (m !! id);
  q_records : omap (fun id => m !! id) ids = map snd (filter (fun e => Q e.1 e.2) (entries m));
  q_length : length (omap (fun id => m !! id) ids) = length ids /\
             length ids = size (filter (fun e : Z * V => Q e.1 e.2) m) }.

Theorem indexes_query_ok {V K} `{Countable K} (m : gmap Z V) (P : K -> Z -> V -> Prop)
    {Pdec : forall k id v, Decision (P k id v)} (ix : gset (K * Z)) (k : K) :
  indexes ix m P -> query_ok m (P k) (ids_gen ix k).
Proof.
  intros Hix. split.
  - intros id. rewrite elem_of_ids_gen. apply Hix.
  - apply ids_gen_strict.
  - apply NoDup_ids_gen.
  - apply (filtered_no_error m P ix Hix).
  - apply (filtered_entries m P ix Hix).
  - apply (filtered_length m P ix Hix).
Qed.

(** * instances: sessions *)

Section sessions.
  Context (s : state) (Hi : idx_sess s).

  Lemma sess_acc_indexes : indexes (sess_acc s) (sessions s) (fun a _ x => ss_addr x = a).
  Proof. intros a id. apply (ix_sacc _ Hi). Qed.
  Lemma sess_node_indexes : indexes (sess_node s) (sessions s) (fun a _ x => ss_node x = a).
  Proof. intros a id. apply (ix_snode _ Hi). Qed.
  Lemma sess_sub_indexes : indexes (sess_sub s) (sessions s) (fun k _ x => ss_sub x = k).
  Proof. intros k id. apply (ix_ssub _ Hi). Qed.
  Lemma sess_alloc_indexes : indexes (sess_alloc s) (sessions s) (fun k _ x => ss_sub x = k.1 /\ ss_addr x = k.2).
  Proof. intros [k a] id. apply (ix_salloc _ Hi). Qed.

  (* QuerySessionsForAccount / GetSessionsForAccount *)
  Theorem sessions_for_account a :
    omap (fun id => sessions s !! id) (ids_for_a (sess_acc s) a) = filter (fun x => ss_addr x = a) (listing (sessions s)).
  Proof. exact (filtered_listing (Qdec := fun k v => decide (ss_addr v = k)) (sessions s) _ (sess_acc s) sess_acc_indexes a). Qed.
  Theorem sessions_for_account_ok a :
    query_ok (Qdec := fun _ x => decide (ss_addr x = a)) (sessions s) (fun _ x => ss_addr x = a) (ids_for_a (sess_acc s) a).
  Proof. exact (indexes_query_ok (Pdec := fun k _ v => decide (ss_addr v = k)) (sessions s) _ (sess_acc s) a sess_acc_indexes). Qed.

  (* QuerySessionsForNode *)
  Theorem sessions_for_node a :
    omap (fun id => sessions s !! id) (ids_for_a (sess_node s) a) = filter (fun x => ss_node x = a) (listing (sessions s)).
  Proof. exact (filtered_listing (Qdec := fun k v => decide (ss_node v = k)) (sessions s) _ (sess_node s) sess_node_indexes a). Qed.
  Theorem sessions_for_node_ok a :
    query_ok (Qdec := fun _ x => decide (ss_node x = a)) (sessions s) (fun _ x => ss_node x = a) (ids_for_a (sess_node s) a).
  Proof. exact (indexes_query_ok (Pdec := fun k _ v => decide (ss_node v = k)) (sessions s) _ (sess_node s) a sess_node_indexes). Qed.

  (* QuerySessionsForSubscription; also the iteration of SubscriptionInactivePendingHook *)
  Theorem sessions_for_subscription k :
    omap (fun id => sessions s !! id) (ids_for_z (sess_sub s) k) = filter (fun x => ss_sub x = k) (listing (sessions s)).
  Proof. exact (filtered_listing (Qdec := fun k v => decide (ss_sub v = k)) (sessions s) _ (sess_sub s) sess_sub_indexes k). Qed.
  Theorem sessions_for_subscription_ok k :
    query_ok (Qdec := fun _ x => decide (ss_sub x = k)) (sessions s) (fun _ x => ss_sub x = k) (ids_for_z (sess_sub s) k).
  Proof. exact (indexes_query_ok (Pdec := fun k _ v => decide (ss_sub v = k)) (sessions s) _ (sess_sub s) k sess_sub_indexes). Qed.

  (* QuerySessionsForAllocation; also GetLatestSessionForAllocation *)
  Theorem sessions_for_allocation k a :
    omap (fun id => sessions s !! id) (ids_for_za (sess_alloc s) k a) =
    filter (fun x => ss_sub x = k /\ ss_addr x = a) (listing (sessions s)).
  Proof.
    exact (filtered_listing (Qdec := fun k v => decide (ss_sub v = k.1 /\ ss_addr v = k.2)) (sessions s) _ (sess_alloc s)
             sess_alloc_indexes (k, a)).
  Qed.
  Theorem sessions_for_allocation_ok k a :
    query_ok (Qdec := fun _ x => decide (ss_sub x = k /\ ss_addr x = a)) (sessions s)
      (fun _ x => ss_sub x = k /\ ss_addr x = a) (ids_for_za (sess_alloc s) k a).
  Proof.
    exact (indexes_query_ok (Pdec := fun k _ v => decide (ss_sub v = k.1 /\ ss_addr v = k.2)) (sessions s) _ (sess_alloc s)
             (k, a) sess_alloc_indexes).
  Qed.

  (* the reverse iteration of GetLatestSessionForAllocation stops at the newest session of the allocation *)
  Theorem latest_session_for_alloc_ok k a :
    kinv_sess s ->
    match latest_session_for_alloc s k a with
    | Ok None => forall id x, sessions s !! id = Some x -> ~ (ss_sub x = k /\ ss_addr x = a)
    | Ok (Some x) => ss_sub x = k /\ ss_addr x = a /\ sessions s !! ss_id x = Some x /\
                     forall id y, sessions s !! id = Some y -> ss_sub y = k -> ss_addr y = a -> id <= ss_id x
    | Err => False
    | Panic => False
    end.
  Proof.
    intros Hk.
    unfold latest_session_for_alloc, last_opt.
    destruct (last (ids_for_za (sess_alloc s) k a)) as [sid|] eqn:El.
    - pose proof (last_ids_in _ _ El) as Hin. apply elem_of_ids_for_za, (ix_salloc _ Hi) in Hin as (x & Hx & E1 & E2).
      rewrite Hx. destruct (k_ss _ Hk _ _ Hx) as (E0 & _). rewrite E0. repeat split; auto.
      intros id y Hy F1 F2. apply (last_ids_max _ _ (ids_for_za_sorted _ _ _) El).
      apply elem_of_ids_for_za, (ix_salloc _ Hi). eauto.
    - apply last_None in El. intros id x Hx [E1 E2].
      assert (Hin : id ∈ ids_for_za (sess_alloc s) k a) by (apply elem_of_ids_for_za, (ix_salloc _ Hi); eauto).
      rewrite El in Hin. inversion Hin.
  Qed.
End sessions.

(* none twice, at the level of records: a record determines its identifier *)
Lemma omap_lookup_NoDup {V} (m : gmap Z V) (key : V -> Z) (ids : list Z) :
  (forall id v, m !! id = Some v -> key v = id) -> NoDup ids -> NoDup (omap (fun id => m !! id) ids).
Proof.
  intros Hkey Hnd. induction Hnd as [|x l Hx Hnd IH]; [constructor|].
  change (omap (fun id => m !! id) (x :: l))
    with (match m !! x with Some y => y :: omap (fun id => m !! id) l | None => omap (fun id => m !! id) l end).
  destruct (m !! x) as [v|] eqn:Hv; [|exact IH]. constructor; [|exact IH].
  intros Hin. apply elem_of_list_omap in Hin as (y & Hy & Hvy). apply Hx.
  rewrite <- (Hkey _ _ Hv), (Hkey _ _ Hvy). exact Hy.
Qed.

Lemma sessions_query_NoDup s ids : kinv_sess s -> NoDup ids -> NoDup (omap (fun id => sessions s !! id) ids).
Proof. intros Hk. apply (omap_lookup_NoDup _ ss_id). intros id x Hx. apply (k_ss _ Hk _ _ Hx). Qed.
Lemma subs_query_NoDup s ids : kinv_sub s -> NoDup ids -> NoDup (omap (fun id => subs s !! id) ids).
Proof. intros Hk. apply (omap_lookup_NoDup _ sb_id). intros id x Hx. apply (k_sub _ Hk _ _ Hx). Qed.
Lemma payouts_query_NoDup s ids : kinv_sub s -> NoDup ids -> NoDup (omap (fun id => payouts s !! id) ids).
Proof. intros Hk. apply (omap_lookup_NoDup _ po_id). intros id x Hx. apply (k_po _ Hk _ _ Hx). Qed.

(** * instances: subscriptions and payouts *)

Definition sub_node_of (sb : subscription) : option addr :=
  match sb_kind sb with KNode n _ _ _ => Some n | KPlan _ _ => None end.
Definition sub_plan_of (sb : subscription) : option Z :=
  match sb_kind sb with KNode _ _ _ _ => None | KPlan p _ => Some p end.

Lemma sub_node_of_spec sb n : sub_node_of sb = Some n <-> exists g h d, sb_kind sb = KNode n g h d.
Proof.
  unfold sub_node_of. destruct (sb_kind sb) as [n' g h d|p d]; split.
  - intros [= ->]. eauto.
  - intros (g' & h' & d' & [= -> _ _ _]). reflexivity.
  - discriminate.
  - intros (g' & h' & d' & E). discriminate.
Qed.
Lemma sub_plan_of_spec sb p : sub_plan_of sb = Some p <-> exists d, sb_kind sb = KPlan p d.
Proof.
  unfold sub_plan_of. destruct (sb_kind sb) as [n' g h d|p' d]; split.
  - discriminate.
  - intros (d' & E). discriminate.
  - intros [= ->]. eauto.
  - intros (d' & [= -> _]). reflexivity.
Qed.

Section subscriptions.
  Context (s : state) (Hi : idx_sub s).

  Lemma sub_node_indexes : indexes (sub_node s) (subs s) (fun n _ sb => sub_node_of sb = Some n).
  Proof.
    intros n id. rewrite (ix_subnode _ Hi). split.
    - intros (sb & g & h & d & Hsb & Hk). exists sb. split; [exact Hsb|]. apply sub_node_of_spec. eauto.
    - intros (sb & Hsb & Hk). apply sub_node_of_spec in Hk as (g & h & d & Hk). eauto 6.
  Qed.
  Lemma sub_plan_indexes : indexes (sub_plan s) (subs s) (fun p _ sb => sub_plan_of sb = Some p).
  Proof.
    intros p id. rewrite (ix_subplan _ Hi). split.
    - intros (sb & d & Hsb & Hk). exists sb. split; [exact Hsb|]. apply sub_plan_of_spec. eauto.
    - intros (sb & Hsb & Hk). apply sub_plan_of_spec in Hk as (d & Hk). eauto.
  Qed.
  (* by account: the owner, or anybody holding an allocation of the subscription *)
  Lemma sub_acc_indexes :
    indexes (sub_acc s) (subs s) (fun a id sb => sb_addr sb = a \/ is_Some (allocs s !! (id, a))).
  Proof. intros a id. apply (ix_subacc _ Hi). Qed.
  Lemma pay_acc_indexes : indexes (pay_acc s) (payouts s) (fun a _ po => po_addr po = a).
  Proof. intros a id. apply (ix_payacc _ Hi). Qed.
  Lemma pay_node_indexes : indexes (pay_node s) (payouts s) (fun n _ po => po_node po = n).
  Proof. intros n id. apply (ix_paynode _ Hi). Qed.
  (* the lease index: payouts of ACTIVE subscriptions by (account, node) *)
  Lemma pay_acc_node_indexes :
    indexes (pay_acc_node s) (payouts s)
      (fun k id po => po_addr po = k.1 /\ po_node po = k.2 /\ sb_status <$> subs s !! id = Some SActive).
  Proof.
    intros [a n] id. rewrite (ix_payaccnode _ Hi). simpl. split.
    - intros (po & sb & Hpo & E1 & E2 & Hsb & Hst). exists po. rewrite Hsb. simpl. rewrite Hst. auto.
    - intros (po & Hpo & E1 & E2 & Hst). apply fmap_Some in Hst as (sb & Hsb & Hst). eauto 10.
  Qed.

  (* QuerySubscriptionsForNode *)
  Theorem subscriptions_for_node n :
    omap (fun id => subs s !! id) (ids_for_a (sub_node s) n) = filter (fun sb => sub_node_of sb = Some n) (listing (subs s)).
  Proof. exact (filtered_listing (Qdec := fun k v => decide (sub_node_of v = Some k)) (subs s) _ (sub_node s) sub_node_indexes n). Qed.
  Theorem subscriptions_for_node_ok n :
    query_ok (Qdec := fun _ sb => decide (sub_node_of sb = Some n)) (subs s) (fun _ sb => sub_node_of sb = Some n)
      (ids_for_a (sub_node s) n).
  Proof. exact (indexes_query_ok (Pdec := fun k _ v => decide (sub_node_of v = Some k)) (subs s) _ (sub_node s) n sub_node_indexes). Qed.

  (* QuerySubscriptionsForPlan *)
  Theorem subscriptions_for_plan p :
    omap (fun id => subs s !! id) (ids_for_z (sub_plan s) p) = filter (fun sb => sub_plan_of sb = Some p) (listing (subs s)).
  Proof. exact (filtered_listing (Qdec := fun k v => decide (sub_plan_of v = Some k)) (subs s) _ (sub_plan s) sub_plan_indexes p). Qed.
  Theorem subscriptions_for_plan_ok p :
    query_ok (Qdec := fun _ sb => decide (sub_plan_of sb = Some p)) (subs s) (fun _ sb => sub_plan_of sb = Some p)
      (ids_for_z (sub_plan s) p).
  Proof. exact (indexes_query_ok (Pdec := fun k _ v => decide (sub_plan_of v = Some k)) (subs s) _ (sub_plan s) p sub_plan_indexes). Qed.

  (* QuerySubscriptionsForAccount: the attribute depends on the allocation store as well *)
  Theorem subscriptions_for_account_ok a :
    query_ok (Qdec := fun id sb => decide (sb_addr sb = a \/ is_Some (allocs s !! (id, a)))) (subs s)
      (fun id sb => sb_addr sb = a \/ is_Some (allocs s !! (id, a))) (ids_for_a (sub_acc s) a).
  Proof.
    exact (indexes_query_ok (Pdec := fun k id v => decide (sb_addr v = k \/ is_Some (allocs s !! (id, k)))) (subs s) _ (sub_acc s) a
             sub_acc_indexes).
  Qed.

  (* QueryPayoutsForAccount *)
  Theorem payouts_for_account a :
    omap (fun id => payouts s !! id) (ids_for_a (pay_acc s) a) = filter (fun po => po_addr po = a) (listing (payouts s)).
  Proof. exact (filtered_listing (Qdec := fun k v => decide (po_addr v = k)) (payouts s) _ (pay_acc s) pay_acc_indexes a). Qed.
  Theorem payouts_for_account_ok a :
    query_ok (Qdec := fun _ po => decide (po_addr po = a)) (payouts s) (fun _ po => po_addr po = a) (ids_for_a (pay_acc s) a).
  Proof. exact (indexes_query_ok (Pdec := fun k _ v => decide (po_addr v = k)) (payouts s) _ (pay_acc s) a pay_acc_indexes). Qed.

  (* QueryPayoutsForNode *)
  Theorem payouts_for_node n :
    omap (fun id => payouts s !! id) (ids_for_a (pay_node s) n) = filter (fun po => po_node po = n) (listing (payouts s)).
  Proof. exact (filtered_listing (Qdec := fun k v => decide (po_node v = k)) (payouts s) _ (pay_node s) pay_node_indexes n). Qed.
  Theorem payouts_for_node_ok n :
    query_ok (Qdec := fun _ po => decide (po_node po = n)) (payouts s) (fun _ po => po_node po = n) (ids_for_a (pay_node s) n).
  Proof. exact (indexes_query_ok (Pdec := fun k _ v => decide (po_node v = k)) (payouts s) _ (pay_node s) n pay_node_indexes). Qed.

  (* GetLatestPayoutForAccountByNode iterates the lease index *)
  Theorem payouts_for_account_by_node_ok a n :
    query_ok (Qdec := fun id po => decide (po_addr po = a /\ po_node po = n /\ sb_status <$> subs s !! id = Some SActive))
      (payouts s) (fun id po => po_addr po = a /\ po_node po = n /\ sb_status <$> subs s !! id = Some SActive)
      (ids_for_aa (pay_acc_node s) a n).
  Proof.
    exact (indexes_query_ok
             (Pdec := fun k id v => decide (po_addr v = k.1 /\ po_node v = k.2 /\ sb_status <$> subs s !! id = Some SActive))
             (payouts s) _ (pay_acc_node s) (a, n) pay_acc_node_indexes).
  Qed.

  (* the look-up of the latest lease never hits a dangling index entry *)
  Theorem latest_payout_for_no_panic a n : latest_payout_for s a n <> Panic /\ latest_payout_for s a n <> Err.
  Proof.
    unfold latest_payout_for, last_opt. destruct (last (ids_for_aa (pay_acc_node s) a n)) as [id|] eqn:El; [|split; discriminate].
    apply last_ids_in, elem_of_ids_for_aa, (ix_payaccnode _ Hi) in El as (po & sb & Hpo & _). rewrite Hpo. split; discriminate.
  Qed.

  (* allocations of a subscription: every one belongs to a live subscription *)
  Theorem allocs_for_live id al : al ∈ allocs_for s id -> is_Some (subs s !! id).
  Proof.
    intros Hin. apply elem_of_allocs_for in Hin as [a Hal]. destruct (st_alloc_sub _ Hi _ _ _ Hal) as (sb & Hsb & _). eauto.
  Qed.
End subscriptions.

(** * instances: plans (both status partitions) *)

Definition all_plans (s : state) : gmap Z plan := plan_act s ∪ plan_inact s.

Lemma all_plans_lookup s id : all_plans s !! id = get_plan s id.
Proof.
  unfold all_plans, get_plan. rewrite lookup_union.
  destruct (plan_act s !! id), (plan_inact s !! id); reflexivity.
Qed.

Lemma plans_query_NoDup s ids : kinv_plan s -> NoDup ids -> NoDup (omap (fun id => all_plans s !! id) ids).
Proof.
  intros Hk. apply (omap_lookup_NoDup _ pl_id). intros id p Hp. rewrite all_plans_lookup in Hp.
  apply (get_plan_kinv _ _ _ Hk Hp).
Qed.

Section plans.
  Context (s : state) (Hi : idx_plan s).

  Lemma plan_prov_indexes : indexes (plan_prov s) (all_plans s) (fun a _ p => pl_prov p = a).
  Proof. intros a id. rewrite (ix_planprov _ Hi). setoid_rewrite all_plans_lookup. reflexivity. Qed.

  (* QueryPlansForProvider *)
  Theorem plans_for_provider a :
    omap (fun id => get_plan s id) (ids_for_a (plan_prov s) a) = filter (fun p => pl_prov p = a) (listing (all_plans s)).
  Proof.
    etransitivity;
      [|exact (filtered_listing (Qdec := fun k v => decide (pl_prov v = k)) (all_plans s) _ (plan_prov s) plan_prov_indexes a)].
    apply list_omap_ext, Forall_Forall2_diag, Forall_forall. intros id _. symmetry. apply all_plans_lookup.
  Qed.
  Theorem plans_for_provider_ok a :
    query_ok (Qdec := fun _ p => decide (pl_prov p = a)) (all_plans s) (fun _ p => pl_prov p = a) (ids_for_a (plan_prov s) a).
  Proof. exact (indexes_query_ok (Pdec := fun k _ v => decide (pl_prov v = k)) (all_plans s) _ (plan_prov s) a plan_prov_indexes). Qed.

  Theorem plans_for_provider_no_error a id : id ∈ ids_for_a (plan_prov s) a -> is_Some (get_plan s id).
  Proof. intros Hin. apply elem_of_ids_for_a, (ix_planprov _ Hi) in Hin as (p & Hp & _). eauto. Qed.
End plans.

(** * queue liveness: every entry the block hooks will consume points at a live record with that deadline *)

Theorem sub_q_live s t id T :
  idx_sub s -> (t, id) ∈ due_z (sub_q s) T -> exists sb, subs s !! id = Some sb /\ sb_inactive_at sb = t /\ t <= T.
Proof.
  intros Hi Hin. apply elem_of_due_z in Hin as [Hin Hle]. apply (ix_subq _ Hi) in Hin as (sb & Hsb & Ht). eauto.
Qed.

Theorem sess_q_live s t id T :
  idx_sess s -> (t, id) ∈ due_z (sess_q s) T -> exists x, sessions s !! id = Some x /\ ss_inactive_at x = t /\ t <= T.
Proof.
  intros Hi Hin. apply elem_of_due_z in Hin as [Hin Hle]. apply (ix_sq _ Hi) in Hin as (x & Hx & Ht). eauto.
Qed.

Theorem pay_q_live s t id T :
  idx_sub s -> (t, id) ∈ due_z (pay_q s) T ->
  exists po sb, payouts s !! id = Some po /\ po_next_at po = t /\ 0 < po_hours po /\
                subs s !! id = Some sb /\ sb_status sb = SActive /\ t <= T.
Proof.
  intros Hi Hin. apply elem_of_due_z in Hin as [Hin Hle].
  apply (ix_payq _ Hi) in Hin as (po & sb & Hpo & Ht & Hh & Hsb & Hst). exists po, sb. auto 10.
Qed.

Theorem node_q_live s t a T :
  idx_node s -> (t, a) ∈ due_a (node_q s) T -> exists n, node_act s !! a = Some n /\ nd_inactive_at n = t /\ t <= T.
Proof.
  intros Hi Hin. apply elem_of_due_a in Hin as [Hin Hle]. apply Hi, act_iat_spec in Hin as (n & Hn & Ht). eauto.
Qed.

(* and conversely nothing due is missing from a scan *)
Theorem sub_q_complete s id sb T :
  idx_sub s -> subs s !! id = Some sb -> sb_inactive_at sb <= T -> (sb_inactive_at sb, id) ∈ due_z (sub_q s) T.
Proof. intros Hi Hsb Hle. apply elem_of_due_z. split; [apply (ix_subq _ Hi); eauto|exact Hle]. Qed.
Theorem sess_q_complete s id x T :
  idx_sess s -> sessions s !! id = Some x -> ss_inactive_at x <= T -> (ss_inactive_at x, id) ∈ due_z (sess_q s) T.
Proof. intros Hi Hx Hle. apply elem_of_due_z. split; [apply (ix_sq _ Hi); eauto|exact Hle]. Qed.
Theorem node_q_complete s a n T :
  idx_node s -> node_act s !! a = Some n -> nd_inactive_at n <= T -> (nd_inactive_at n, a) ∈ due_a (node_q s) T.
Proof. intros Hi Hn Hle. apply elem_of_due_a. split; [apply Hi, act_iat_spec; eauto|exact Hle]. Qed.

(* each record is queued once: a scan visits an identifier at most once *)
Theorem sub_q_once s T : idx_sub s -> NoDup (map snd (due_z (sub_q s) T)).
Proof.
  intros Hi. apply NoDup_fmap_2_strong; [|apply NoDup_due_z].
  intros [t1 i1] [t2 i2] H1 H2 E. simpl in E. subst i2.
  apply elem_of_due_z in H1 as [H1 _]. apply elem_of_due_z in H2 as [H2 _].
  apply (ix_subq _ Hi) in H1 as (sb1 & Hs1 & <-). apply (ix_subq _ Hi) in H2 as (sb2 & Hs2 & <-). congruence.
Qed.
Theorem sess_q_once s T : idx_sess s -> NoDup (map snd (due_z (sess_q s) T)).
Proof.
  intros Hi. apply NoDup_fmap_2_strong; [|apply NoDup_due_z].
  intros [t1 i1] [t2 i2] H1 H2 E. simpl in E. subst i2.
  apply elem_of_due_z in H1 as [H1 _]. apply elem_of_due_z in H2 as [H2 _].
  apply (ix_sq _ Hi) in H1 as (x1 & Hs1 & <-). apply (ix_sq _ Hi) in H2 as (x2 & Hs2 & <-). congruence.
Qed.
Theorem node_q_once s T : idx_node s -> NoDup (map snd (due_a (node_q s) T)).
Proof.
  intros Hi. apply NoDup_fmap_2_strong; [|apply NoDup_due_a].
  intros [t1 i1] [t2 i2] H1 H2 E. simpl in E. subst i2.
  apply elem_of_due_a in H1 as [H1 _]. apply elem_of_due_a in H2 as [H2 _].
  apply Hi in H1. apply Hi in H2. congruence.
Qed.

(** * a removed record disappears from every listing at once *)

Theorem filtered_removed {V K} `{Countable K} (m : gmap Z V) (P : K -> Z -> V -> Prop) (ix : gset (K * Z)) id :
  indexes ix m P -> m !! id = None -> forall k, id ∉ ids_gen ix k.
Proof.
  intros Hix Hnone k Hin. apply elem_of_ids_gen, Hix in Hin as (v & Hv & _). congruence.
Qed.

Theorem session_removed s id :
  idx_sess s -> sessions s !! id = None ->
  (forall a, id ∉ ids_for_a (sess_acc s) a) /\ (forall a, id ∉ ids_for_a (sess_node s) a) /\
  (forall k, id ∉ ids_for_z (sess_sub s) k) /\ (forall k a, id ∉ ids_for_za (sess_alloc s) k a) /\
  (forall t T, (t, id) ∉ due_z (sess_q s) T).
Proof.
  intros Hi Hn. repeat split.
  - apply (filtered_removed _ _ _ _ (sess_acc_indexes s Hi) Hn).
  - apply (filtered_removed _ _ _ _ (sess_node_indexes s Hi) Hn).
  - apply (filtered_removed _ _ _ _ (sess_sub_indexes s Hi) Hn).
  - intros k a. apply (filtered_removed _ _ _ _ (sess_alloc_indexes s Hi) Hn (k, a)).
  - intros t T Hin. apply (sess_q_live s t id T Hi) in Hin as (x & Hx & _). congruence.
Qed.

Theorem subscription_removed s id :
  idx_sub s -> subs s !! id = None ->
  (forall a, id ∉ ids_for_a (sub_acc s) a) /\ (forall n, id ∉ ids_for_a (sub_node s) n) /\
  (forall p, id ∉ ids_for_z (sub_plan s) p) /\ (forall t T, (t, id) ∉ due_z (sub_q s) T) /\
  allocs_for s id = [] /\ payouts s !! id = None.
Proof.
  intros Hi Hn. repeat split.
  - apply (filtered_removed _ _ _ _ (sub_acc_indexes s Hi) Hn).
  - apply (filtered_removed _ _ _ _ (sub_node_indexes s Hi) Hn).
  - apply (filtered_removed _ _ _ _ (sub_plan_indexes s Hi) Hn).
  - intros t T Hin. apply (sub_q_live s t id T Hi) in Hin as (x & Hx & _). congruence.
  - destruct (allocs_for s id) as [|al l] eqn:E; [reflexivity|].
    assert (Hin : al ∈ allocs_for s id) by (rewrite E; left).
    apply (allocs_for_live s Hi) in Hin as [sb Hsb]. congruence.
  - destruct (payouts s !! id) as [po|] eqn:E; [|reflexivity].
    destruct (st_pay_sub _ Hi _ _ E) as (_ & sb & g & h & d & Hsb & _). congruence.
Qed.

Theorem payout_removed s id :
  idx_sub s -> payouts s !! id = None ->
  (forall a, id ∉ ids_for_a (pay_acc s) a) /\ (forall n, id ∉ ids_for_a (pay_node s) n) /\
  (forall a n, id ∉ ids_for_aa (pay_acc_node s) a n) /\ (forall t T, (t, id) ∉ due_z (pay_q s) T).
Proof.
  intros Hi Hn. repeat split.
  - apply (filtered_removed _ _ _ _ (pay_acc_indexes s Hi) Hn).
  - apply (filtered_removed _ _ _ _ (pay_node_indexes s Hi) Hn).
  - intros a n. apply (filtered_removed _ _ _ _ (pay_acc_node_indexes s Hi) Hn (a, n)).
  - intros t T Hin. apply (pay_q_live s t id T Hi) in Hin as (po & sb & Hpo & _). congruence.
Qed.

(** * listings by status: each status partition is the full listing filtered by status *)

(* lists strictly ascending in a key and with the same elements are equal *)
Lemma strict_keyed_unique {A} (f : A -> Z) (l1 l2 : list A) :
  StronglySorted (fun x y => f x < f y) l1 -> StronglySorted (fun x y => f x < f y) l2 ->
  (forall x, x ∈ l1 <-> x ∈ l2) -> l1 = l2.
Proof.
  intros H1. revert l2. induction H1 as [|x l1 Hs IH Hall]; intros l2 H2 Hel.
  - destruct l2 as [|y l2]; [reflexivity|]. exfalso. assert (Hy : y ∈ []) by (apply Hel; left). inversion Hy.
  - destruct H2 as [|y l2 Hs2 Hall2]; [exfalso; assert (Hx : x ∈ []) by (apply Hel; left); inversion Hx|].
    rewrite Forall_forall in Hall, Hall2.
    assert (E : x = y).
    { assert (Hx : x ∈ y :: l2) by (apply Hel; left). assert (Hy : y ∈ x :: l1) by (apply Hel; left).
      apply elem_of_cons in Hx as [->|Hx]; [reflexivity|]. apply elem_of_cons in Hy as [->|Hy]; [reflexivity|].
      specialize (Hall _ Hy). specialize (Hall2 _ Hx). lia. }
    subst y. f_equal. apply IH; [exact Hs2|]. intros z. split; intros Hz.
    + assert (Hz' : z ∈ x :: l2) by (apply Hel; right; exact Hz).
      apply elem_of_cons in Hz' as [->|Hz']; [|exact Hz']. specialize (Hall _ Hz). lia.
    + assert (Hz' : z ∈ x :: l1) by (apply Hel; right; exact Hz).
      apply elem_of_cons in Hz' as [->|Hz']; [|exact Hz']. specialize (Hall2 _ Hz). lia.
Qed.

Lemma entries_partition_l {V} (m1 m2 : gmap Z V) (Q : V -> Prop) {Qdec : forall v, Decision (Q v)} :
  map_Forall (fun _ v => Q v) m1 -> map_Forall (fun _ v => ~ Q v) m2 ->
  entries m1 = filter (fun e => Q e.2) (entries (m1 ∪ m2)).
Proof.
  intros F1 F2. apply (strict_keyed_unique fst); [apply entries_strict|apply StronglySorted_filter, entries_strict|].
  intros [id v]. rewrite elem_of_list_filter, !elem_of_entries, lookup_union_Some_raw. simpl. split.
  - intros Hv. split; [apply (F1 _ _ Hv)|auto].
  - intros [Hq [Hv|[_ Hv]]]; [exact Hv|]. exfalso. apply (F2 _ _ Hv). exact Hq.
Qed.

Lemma entries_partition_r {V} (m1 m2 : gmap Z V) (Q : V -> Prop) {Qdec : forall v, Decision (Q v)} :
  map_Forall (fun _ v => ~ Q v) m1 -> map_Forall (fun _ v => Q v) m2 -> disjoint_parts m1 m2 ->
  entries m2 = filter (fun e => Q e.2) (entries (m1 ∪ m2)).
Proof.
  intros F1 F2 D. apply (strict_keyed_unique fst); [apply entries_strict|apply StronglySorted_filter, entries_strict|].
  intros [id v]. rewrite elem_of_list_filter, !elem_of_entries, lookup_union_Some_raw. simpl. split.
  - intros Hv. split; [apply (F2 _ _ Hv)|]. right. split; [eapply dp_sym_none; eauto|exact Hv].
  - intros [Hq [Hv|[_ Hv]]]; [|exact Hv]. exfalso. apply (F1 _ _ Hv). exact Hq.
Qed.

(* QueryPlans with status Active / Inactive vs. the unfiltered listing *)
Theorem plans_active s : kinv_plan s -> listing (plan_act s) = filter (fun p => pl_status p = SActive) (listing (all_plans s)).
Proof.
  intros [A B D _]. unfold listing, all_plans. rewrite <- (filter_map_snd (fun p => pl_status p = SActive)). f_equal.
  refine (entries_partition_l (Qdec := fun p => decide (pl_status p = SActive)) (plan_act s) (plan_inact s) _ _ _).
  - intros id p Hp. apply (A _ _ Hp).
  - intros id p Hp E. destruct (B _ _ Hp) as (_ & E' & _). congruence.
Qed.
Theorem plans_inactive s : kinv_plan s -> listing (plan_inact s) = filter (fun p => pl_status p = SInactive) (listing (all_plans s)).
Proof.
  intros [A B D _]. unfold listing, all_plans. rewrite <- (filter_map_snd (fun p => pl_status p = SInactive)). f_equal.
  refine (entries_partition_r (Qdec := fun p => decide (pl_status p = SInactive)) (plan_act s) (plan_inact s) _ _ _ _).
  - intros id p Hp E. destruct (A _ _ Hp) as (_ & E' & _). congruence.
  - intros id p Hp. apply (B _ _ Hp).
  - exact D.
Qed.

(* QueryNodes with a status vs. the unfiltered listing: the listing is active ++ inactive *)
Lemma filter_all {A} (Q : A -> Prop) `{forall x, Decision (Q x)} (l : list A) : (forall x, x ∈ l -> Q x) -> filter Q l = l.
Proof.
  induction l as [|x l IH]; intros Hl; [reflexivity|]. rewrite filter_cons_True by (apply Hl; left).
  f_equal. apply IH. intros y Hy. apply Hl. right. exact Hy.
Qed.
Lemma filter_none {A} (Q : A -> Prop) `{forall x, Decision (Q x)} (l : list A) : (forall x, x ∈ l -> ~ Q x) -> filter Q l = [].
Proof.
  induction l as [|x l IH]; intros Hl; [reflexivity|]. rewrite filter_cons_False by (apply Hl; left).
  apply IH. intros y Hy. apply Hl. right. exact Hy.
Qed.

Definition nodes_of (m : gmap addr node) : list node := map snd (sort_by (fun x y => addr_cmp x.1 y.1) (map_to_list m)).

Lemma all_nodes_parts s : all_nodes s = nodes_of (node_act s) ++ nodes_of (node_inact s).
Proof. reflexivity. Qed.

Lemma elem_of_nodes_of m n : n ∈ nodes_of m <-> exists a, m !! a = Some n.
Proof.
  unfold nodes_of. rewrite elem_of_list_fmap. split.
  - intros ([a n'] & -> & Hin). apply elem_of_sort_by, elem_of_map_to_list in Hin. eauto.
  - intros [a Hn]. exists (a, n). split; [reflexivity|]. apply elem_of_sort_by, elem_of_map_to_list. exact Hn.
Qed.

Theorem nodes_active s : kinv_node s -> filter (fun n => nd_status n = SActive) (all_nodes s) = nodes_of (node_act s).
Proof.
  intros [A B D]. rewrite all_nodes_parts, filter_app, filter_all, filter_none; [apply app_nil_r| |].
  - intros n Hn E. apply elem_of_nodes_of in Hn as [a Hn]. destruct (B _ _ Hn) as [_ E']. congruence.
  - intros n Hn. apply elem_of_nodes_of in Hn as [a Hn]. apply (A _ _ Hn).
Qed.
Theorem nodes_inactive s : kinv_node s -> filter (fun n => nd_status n = SInactive) (all_nodes s) = nodes_of (node_inact s).
Proof.
  intros [A B D]. rewrite all_nodes_parts, filter_app, filter_none, filter_all; [reflexivity| |].
  - intros n Hn. apply elem_of_nodes_of in Hn as [a Hn]. apply (B _ _ Hn).
  - intros n Hn E. apply elem_of_nodes_of in Hn as [a Hn]. destruct (A _ _ Hn) as [_ E']. congruence.
Qed.

(** * non-vacuity: two addresses in prefix relation *)

Example prefix_pair_listing :
  let ix : gset (addr * Z) := {[ ([1%N], 5); ([1%N; 2%N], 7); ([1%N], 9); ([], 3) ]} in
  ids_for_a ix [1%N] = [5; 9] /\ ids_for_a ix [1%N; 2%N] = [7] /\ ids_for_a ix [] = [3] /\ ids_for_a ix [2%N] = [].
Proof. vm_compute. repeat split; reflexivity. Qed.
