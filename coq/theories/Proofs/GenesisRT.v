(* Genesis round trip (C12): what import (export s) preserves, module by module,
   and what it loses.  The model is Model/Genesis.v. *)
From Hub Require Import Base.Prelude Base.Arith Model.Types Model.Keeper Model.Handlers Model.Hooks Model.Step Model.Genesis.
From Hub Require Import Proofs.Tactics Proofs.Sorting.

(** * generic facts about the folds used by InitGenesis *)

Lemma rfold_total {A S} (f : S -> A -> S) (l : list A) (s : S) :
  rfold (fun s x => Ok (f s x)) l s = Ok (fold_left f l s).
Proof. revert s. induction l as [|x l IH]; intros s; simpl; [reflexivity|apply IH]. Qed.

Lemma fold_left_cond {A S} (c : A -> bool) (g : S -> A -> S) (l : list A) (s : S) :
  fold_left (fun m x => if c x then g m x else m) l s = fold_left g (filter (fun x => c x = true) l) s.
Proof.
  revert s. induction l as [|x l IH]; intros s; simpl; [reflexivity|].
  rewrite filter_cons. destruct (c x) eqn:E.
  - rewrite decide_True by reflexivity. simpl. apply IH.
  - rewrite decide_False by discriminate. apply IH.
Qed.

Section fold_insert.
  Context {K : Type} `{Countable K} {V A : Type} (key : A -> K) (val : A -> V).
  Definition ins_all (l : list A) (m : gmap K V) : gmap K V :=
    fold_left (fun m x => <[key x := val x]> m) l m.

  Lemma ins_all_notin l m k : (forall x, x ∈ l -> key x <> k) -> ins_all l m !! k = m !! k.
  Proof.
    revert m. induction l as [|y l IH]; intros m Hk; simpl; [reflexivity|].
    unfold ins_all in *. simpl. rewrite IH.
    - apply lookup_insert_ne. apply Hk. left.
    - intros x Hx. apply Hk. right. exact Hx.
  Qed.

  Lemma ins_all_in l m x : NoDup (map key l) -> x ∈ l -> ins_all l m !! (key x) = Some (val x).
  Proof.
    revert m. induction l as [|y l IH]; intros m Hnd Hx; [inversion Hx|].
    simpl in Hnd. apply NoDup_cons in Hnd as [Hy Hnd].
    unfold ins_all in *. simpl.
    apply elem_of_cons in Hx as [ ->|Hx].
    - fold (ins_all l (<[key y := val y]> m)). rewrite ins_all_notin; [apply lookup_insert|].
      intros x Hx E. apply Hy. rewrite <- E. apply elem_of_list_fmap_1. exact Hx.
    - apply IH; assumption.
  Qed.

  (* the fold rebuilds exactly the map whose graph the list enumerates *)
  Lemma ins_all_eq l (m : gmap K V) :
    NoDup (map key l) ->
    (forall k v, m !! k = Some v <-> exists x, x ∈ l /\ key x = k /\ val x = v) ->
    ins_all l ∅ = m.
  Proof.
    intros Hnd Hm. apply map_eq. intros k.
    destruct (m !! k) as [v|] eqn:E.
    - apply Hm in E as (x & Hx & <- & <-). apply ins_all_in; assumption.
    - rewrite ins_all_notin; [apply lookup_empty|].
      intros x Hx Hk. assert (m !! k = Some (val x)) as E2 by (apply Hm; eauto). congruence.
  Qed.
End fold_insert.

Section fold_union.
  Context {E : Type} `{Countable E} {A : Type} (f : A -> E).
  Definition add_all (l : list A) (q : gset E) : gset E := fold_left (fun q x => q ∪ {[ f x ]}) l q.
  Lemma elem_of_add_all l q e : e ∈ add_all l q <-> e ∈ q \/ exists x, x ∈ l /\ f x = e.
  Proof.
    revert q. induction l as [|y l IH]; intros q; simpl.
    - split; [auto|]. intros [?|(x & Hx & _)]; [assumption|inversion Hx].
    - unfold add_all in *. simpl. rewrite IH. rewrite elem_of_union, elem_of_singleton. split.
      + intros [[?| ->]|(x & Hx & Hf)]; [auto| |].
        * right. exists y. split; [left|reflexivity].
        * right. exists x. split; [right; exact Hx|exact Hf].
      + intros [?|(x & Hx & Hf)]; [auto|].
        apply elem_of_cons in Hx as [ ->|Hx]; [left; right; symmetry; exact Hf|right; eauto].
  Qed.
End fold_union.

(* the listing of a map in key order enumerates its graph *)
Lemma elem_of_sorted_list {K V} `{Countable K} (c : K * V -> K * V -> comparison) (m : gmap K V) kv :
  kv ∈ sort_by c (map_to_list m) <-> m !! kv.1 = Some kv.2.
Proof. rewrite elem_of_sort_by. destruct kv as [k v]. apply elem_of_map_to_list. Qed.

Lemma NoDup_fst_sorted_list {K V} `{Countable K} (c : K * V -> K * V -> comparison) (m : gmap K V) :
  NoDup (sort_by c (map_to_list m)).*1.
Proof.
  assert (Hp : (sort_by c (map_to_list m)).*1 ≡ₚ (map_to_list m).*1) by (apply fmap_Permutation, sort_by_perm).
  rewrite Hp. apply NoDup_fst_map_to_list.
Qed.

(* values listed in key order, for maps whose values carry their key *)
Lemma elem_of_sorted_vals {K V} `{Countable K} (c : K * V -> K * V -> comparison) (m : gmap K V) v :
  v ∈ map snd (sort_by c (map_to_list m)) <-> exists k, m !! k = Some v.
Proof.
  rewrite elem_of_list_fmap. split.
  - intros ([k v'] & -> & Hin). apply elem_of_sorted_list in Hin. eauto.
  - intros (k & Hk). exists (k, v). split; [reflexivity|]. apply elem_of_sorted_list. exact Hk.
Qed.

Lemma map_key_sorted_vals {K V} `{Countable K} (c : K * V -> K * V -> comparison) (m : gmap K V) (key : V -> K) :
  (forall k v, m !! k = Some v -> key v = k) ->
  map key (map snd (sort_by c (map_to_list m))) = (sort_by c (map_to_list m)).*1.
Proof.
  intros Hk. rewrite map_map. apply map_ext_in. intros [k v] Hin. simpl.
  apply Hk. apply (elem_of_sorted_list c m (k, v)). apply elem_of_list_In. exact Hin.
Qed.

Lemma NoDup_key_sorted_vals {K V} `{Countable K} (c : K * V -> K * V -> comparison) (m : gmap K V) (key : V -> K) :
  (forall k v, m !! k = Some v -> key v = k) ->
  NoDup (map key (map snd (sort_by c (map_to_list m)))).
Proof. intros Hk. rewrite (map_key_sorted_vals c m key Hk). apply NoDup_fst_sorted_list. Qed.

(** * closed forms of the per-module imports *)

Definition gp_id (i : gplan) : Z := pl_id (gp_plan i).
Definition gp_links (i : gplan) (q : gset (Z * addr)) : gset (Z * addr) := add_all (fun a => (gp_id i, a)) (gp_nodes i) q.
Definition is_inact (x : status) : bool := match x with SInactive => true | _ => false end.
Definition is_act (x : status) : bool := match x with SActive => true | _ => false end.
Definition dep_cf l (s : state) := s <| deposits := ins_all fst snd l (deposits s) |>.
Definition node_cf l (s : state) :=
  s <| node_act := ins_all nd_addr id (filter (fun n => is_act (nd_status n) = true) l) (node_act s) |>
    <| node_inact := ins_all nd_addr id (filter (fun n => is_inact (nd_status n) = true) l) (node_inact s) |>
    <| node_q := add_all (fun n => (nd_inactive_at n, nd_addr n)) (filter (fun n => is_act (nd_status n) = true) l) (node_q s) |>.
Definition plan_cf l (s : state) :=
  s <| plan_act := ins_all gp_id gp_plan (filter (fun i => is_act (pl_status (gp_plan i)) = true) l) (plan_act s) |>
    <| plan_inact := ins_all gp_id gp_plan (filter (fun i => is_inact (pl_status (gp_plan i)) = true) l) (plan_inact s) |>
    <| plan_prov := add_all (fun i => (pl_prov (gp_plan i), gp_id i)) l (plan_prov s) |>
    <| node_plan := fold_left (fun q i => gp_links i q) l (node_plan s) |>.
Definition prov_cf l (s : state) :=
  s <| prov_act := ins_all pv_addr id (filter (fun p => is_act (pv_status p) = true) l) (prov_act s) |>
    <| prov_inact := ins_all pv_addr id (filter (fun p => is_inact (pv_status p) = true) l) (prov_inact s) |>.
Definition sess_cf l (s : state) :=
  s <| sessions := ins_all ss_id id l (sessions s) |>
    <| sess_acc := add_all (fun x => (ss_addr x, ss_id x)) l (sess_acc s) |>
    <| sess_node := add_all (fun x => (ss_node x, ss_id x)) l (sess_node s) |>
    <| sess_sub := add_all (fun x => (ss_sub x, ss_id x)) l (sess_sub s) |>
    <| sess_alloc := add_all (fun x => (ss_sub x, ss_addr x, ss_id x)) l (sess_alloc s) |>
    <| sess_q := add_all (fun x => (ss_inactive_at x, ss_id x)) l (sess_q s) |>.
Definition swap_cf l (s : state) := s <| swaps := ins_all (fun w => swap_key_of (sw_hash w)) id l (swaps s) |>.
Definition infl_cf l (s : state) := s <| inflations := ins_all inf_ts id l (inflations s) |>.


Ltac state_eq := match goal with |- Ok ?a = Ok ?b => f_equal end; match goal with s : state |- _ => destruct s end; reflexivity.

Lemma imp_deposits_closed l s :
  rfold imp_deposit l s = Ok (dep_cf l s).
Proof.
  unfold dep_cf.
  revert s. induction l as [|d l IH]; intros s; simpl.
  - state_eq.
  - rewrite IH. state_eq.
Qed.

Lemma imp_swaps_closed l s :
  rfold imp_swap l s = Ok (swap_cf l s).
Proof.
  unfold swap_cf.
  revert s. induction l as [|d l IH]; intros s; simpl.
  - state_eq.
  - rewrite IH. state_eq.
Qed.

Lemma imp_inflations_closed l s :
  rfold imp_inflation l s = Ok (infl_cf l s).
Proof.
  unfold infl_cf.
  revert s. induction l as [|d l IH]; intros s; simpl.
  - state_eq.
  - rewrite IH. state_eq.
Qed.

Lemma imp_sessions_closed l s :
  rfold imp_session l s = Ok (sess_cf l s).
Proof.
  unfold sess_cf.
  revert s. induction l as [|d l IH]; intros s; simpl.
  - state_eq.
  - rewrite IH. state_eq.
Qed.


Lemma imp_providers_closed l s :
  Forall (fun p => status_ai (pv_status p) = true) l ->
  rfold imp_provider l s = Ok (prov_cf l s).
Proof.
  unfold prov_cf.
  revert s. induction l as [|d l IH]; intros s Hl; simpl.
  - state_eq.
  - apply Forall_cons in Hl as [Hd Hl]. unfold imp_provider at 1, set_provider.
    rewrite !filter_cons.
    destruct (pv_status d) eqn:E; simpl in Hd; try discriminate; simpl; rewrite IH by exact Hl; state_eq.
Qed.

Lemma imp_node_step s n :
  status_ai (nd_status n) = true ->
  imp_node s n = Ok (if is_act (nd_status n)
                     then s <| node_act ::= fun m => <[nd_addr n := n]> m |>
                            <| node_q ::= fun q => q ∪ {[ (nd_inactive_at n, nd_addr n) ]} |>
                     else s <| node_inact ::= fun m => <[nd_addr n := n]> m |>).
Proof.
  intros Hs. unfold imp_node, set_node. destruct (nd_status n) eqn:E; simpl in Hs; try discriminate; reflexivity.
Qed.

Lemma imp_nodes_closed l s :
  Forall (fun n => status_ai (nd_status n) = true) l ->
  rfold imp_node l s = Ok (node_cf l s).
Proof.
  unfold node_cf.
  revert s. induction l as [|d l IH]; intros s Hl; simpl.
  - state_eq.
  - apply Forall_cons in Hl as [Hd Hl]. rewrite imp_node_step by exact Hd. simpl rbind.
    rewrite IH by exact Hl. rewrite !filter_cons.
    destruct (nd_status d) eqn:E; simpl in Hd; try discriminate; simpl; state_eq.
Qed.

Lemma imp_plan_links_closed id l s :
  Forall (fun a => addr_ok a = true) l ->
  rfold (imp_plan_link id) l s = Ok (s <| node_plan := add_all (fun a => (id, a)) l (node_plan s) |>).
Proof.
  revert s. induction l as [|a l IH]; intros s Hl; simpl.
  - state_eq.
  - apply Forall_cons in Hl as [Ha Hl]. unfold imp_plan_link at 1. rewrite Ha. simpl rbind.
    rewrite IH by exact Hl. state_eq.
Qed.


Lemma imp_plan_step s i :
  status_ai (pl_status (gp_plan i)) = true -> Forall (fun a => addr_ok a = true) (gp_nodes i) ->
  imp_plan s i =
  Ok ((if is_act (pl_status (gp_plan i))
       then s <| plan_act ::= fun m => <[gp_id i := gp_plan i]> m |>
       else s <| plan_inact ::= fun m => <[gp_id i := gp_plan i]> m |>)
        <| plan_prov ::= fun x => x ∪ {[ (pl_prov (gp_plan i), gp_id i) ]} |>
        <| node_plan ::= gp_links i |>).
Proof.
  intros Hs Hl. unfold imp_plan, set_plan.
  destruct (pl_status (gp_plan i)) eqn:E; simpl in Hs; try discriminate; simpl rbind;
    rewrite imp_plan_links_closed by exact Hl; state_eq.
Qed.

Lemma imp_plans_closed l s :
  Forall (fun i => status_ai (pl_status (gp_plan i)) = true) l ->
  Forall (fun i => Forall (fun a => addr_ok a = true) (gp_nodes i)) l ->
  rfold imp_plan l s = Ok (plan_cf l s).
Proof.
  unfold plan_cf.
  revert s. induction l as [|d l IH]; intros s Hl Hn; simpl.
  - state_eq.
  - apply Forall_cons in Hl as [Hd Hl]. apply Forall_cons in Hn as [Hdn Hn].
    rewrite imp_plan_step by assumption. simpl rbind.
    rewrite IH by assumption. rewrite !filter_cons.
    destruct (pl_status (gp_plan d)) eqn:E; simpl in Hd; try discriminate; simpl; state_eq.
Qed.

Lemma elem_of_links l q e :
  e ∈ fold_left (fun q i => gp_links i q) l q <-> e ∈ q \/ exists i a, i ∈ l /\ a ∈ gp_nodes i /\ e = (gp_id i, a).
Proof.
  revert q. induction l as [|i l IH]; intros q; simpl.
  - split; [auto|]. intros [?|(i & a & Hi & _)]; [assumption|inversion Hi].
  - rewrite IH. unfold gp_links at 1. rewrite elem_of_add_all. split.
    + intros [[?|(a & Ha & <-)]|(j & a & Hj & Ha & ->)]; [auto| |].
      * right. exists i, a. split; [left|auto].
      * right. exists j, a. split; [right; exact Hj|auto].
    + intros [?|(j & a & Hj & Ha & ->)]; [auto|].
      apply elem_of_cons in Hj as [ ->|Hj]; [left; right; eauto|right; eauto 6].
Qed.

(** * closed form of the whole import *)

Definition imported (d : gen_doc) (s : state) : state :=
  let q := gd_params d in
  let s := dep_cf (gd_deposits d) s in
  let s := node_cf (gd_nodes d) (set_node_params q s) in
  let s := plan_cf (gd_plans d) s in
  let s := s <| plan_count := max_id (fun i => pl_id (gp_plan i)) (gd_plans d) |> in
  let s := prov_cf (gd_providers d) (set_prov_params q s) in
  let s := sess_cf (gd_sessions d) (set_sess_params q s) in
  let s := s <| sess_count := max_id ss_id (gd_sessions d) |> in
  let s := set_sub_params q s in
  let s := swap_cf (gd_swaps d) (set_swap_params q s) in
  infl_cf (gd_inflations d) s.

(* what InitGenesis needs in order not to panic *)
Definition doc_wf (d : gen_doc) : Prop :=
  Forall (fun n => status_ai (nd_status n) = true) (gd_nodes d) /\
  Forall (fun i => status_ai (pl_status (gp_plan i)) = true) (gd_plans d) /\
  Forall (fun i => Forall (fun a => addr_ok a = true) (gp_nodes i)) (gd_plans d) /\
  Forall (fun p => status_ai (pv_status p) = true) (gd_providers d).

Lemma rbind_Ok {A B} (a : A) (f : A -> res B) : rbind (Ok a) f = f a.
Proof. reflexivity. Qed.

Lemma import_hub_closed d s : doc_wf d -> import_hub d s = Ok (imported d s).
Proof.
  intros (Hn & Hp & Hl & Hv).
  unfold import_hub, import_vpn, import_swap, import_mint, imported.
  rewrite imp_deposits_closed, rbind_Ok.
  rewrite imp_nodes_closed by exact Hn. rewrite rbind_Ok.
  rewrite imp_plans_closed by assumption. rewrite rbind_Ok.
  rewrite imp_providers_closed by exact Hv. rewrite rbind_Ok.
  rewrite imp_sessions_closed, rbind_Ok, rbind_Ok.
  rewrite imp_swaps_closed, rbind_Ok.
  rewrite imp_inflations_closed. reflexivity.
Qed.

(** * projections of the imported state (a fresh chain: every hub field starts empty) *)

Section projections.
  Variable (d : gen_doc) (s : state).
  Let s' := imported d (fresh_like s).
  Lemma pj_deposits : deposits s' = ins_all fst snd (gd_deposits d) ∅. Proof. reflexivity. Qed.
  Lemma pj_prov_act : prov_act s' = ins_all pv_addr id (filter (fun p => is_act (pv_status p) = true) (gd_providers d)) ∅. Proof. reflexivity. Qed.
  Lemma pj_prov_inact : prov_inact s' = ins_all pv_addr id (filter (fun p => is_inact (pv_status p) = true) (gd_providers d)) ∅. Proof. reflexivity. Qed.
  Lemma pj_node_act : node_act s' = ins_all nd_addr id (filter (fun n => is_act (nd_status n) = true) (gd_nodes d)) ∅. Proof. reflexivity. Qed.
  Lemma pj_node_inact : node_inact s' = ins_all nd_addr id (filter (fun n => is_inact (nd_status n) = true) (gd_nodes d)) ∅. Proof. reflexivity. Qed.
  Lemma pj_node_q : node_q s' = add_all (fun n => (nd_inactive_at n, nd_addr n)) (filter (fun n => is_act (nd_status n) = true) (gd_nodes d)) ∅. Proof. reflexivity. Qed.
  Lemma pj_plan_act : plan_act s' = ins_all gp_id gp_plan (filter (fun i => is_act (pl_status (gp_plan i)) = true) (gd_plans d)) ∅. Proof. reflexivity. Qed.
  Lemma pj_plan_inact : plan_inact s' = ins_all gp_id gp_plan (filter (fun i => is_inact (pl_status (gp_plan i)) = true) (gd_plans d)) ∅. Proof. reflexivity. Qed.
  Lemma pj_plan_prov : plan_prov s' = add_all (fun i => (pl_prov (gp_plan i), gp_id i)) (gd_plans d) ∅. Proof. reflexivity. Qed.
  Lemma pj_node_plan : node_plan s' = fold_left (fun q i => gp_links i q) (gd_plans d) ∅. Proof. reflexivity. Qed.
  Lemma pj_plan_count : plan_count s' = max_id (fun i => pl_id (gp_plan i)) (gd_plans d). Proof. reflexivity. Qed.
  Lemma pj_sessions : sessions s' = ins_all ss_id id (gd_sessions d) ∅. Proof. reflexivity. Qed.
  Lemma pj_sess_acc : sess_acc s' = add_all (fun x => (ss_addr x, ss_id x)) (gd_sessions d) ∅. Proof. reflexivity. Qed.
  Lemma pj_sess_node : sess_node s' = add_all (fun x => (ss_node x, ss_id x)) (gd_sessions d) ∅. Proof. reflexivity. Qed.
  Lemma pj_sess_sub : sess_sub s' = add_all (fun x => (ss_sub x, ss_id x)) (gd_sessions d) ∅. Proof. reflexivity. Qed.
  Lemma pj_sess_alloc : sess_alloc s' = add_all (fun x => (ss_sub x, ss_addr x, ss_id x)) (gd_sessions d) ∅. Proof. reflexivity. Qed.
  Lemma pj_sess_q : sess_q s' = add_all (fun x => (ss_inactive_at x, ss_id x)) (gd_sessions d) ∅. Proof. reflexivity. Qed.
  Lemma pj_sess_count : sess_count s' = max_id ss_id (gd_sessions d). Proof. reflexivity. Qed.
  Lemma pj_swaps : swaps s' = ins_all (fun w => swap_key_of (sw_hash w)) id (gd_swaps d) ∅. Proof. reflexivity. Qed.
  Lemma pj_inflations : inflations s' = ins_all inf_ts id (gd_inflations d) ∅. Proof. reflexivity. Qed.
  (* what the subscription module's InitGenesis leaves behind: nothing but its parameter *)
  Lemma pj_subs : subs s' = ∅ /\ allocs s' = ∅ /\ payouts s' = ∅ /\ sub_count s' = 0 /\
                  sub_q s' = ∅ /\ sub_acc s' = ∅ /\ sub_node s' = ∅ /\ sub_plan s' = ∅ /\
                  pay_q s' = ∅ /\ pay_acc s' = ∅ /\ pay_node s' = ∅ /\ pay_acc_node s' = ∅.
  Proof. repeat split; reflexivity. Qed.
  (* the SDK side is carried over, the transient flags are set *)
  Lemma pj_sdk : bank s' = bank s /\ supply s' = supply s /\ cfg s' = cfg s /\ now s' = now s /\
                 mint_max s' = mint_max s /\ mint_min s' = mint_min s /\ mint_rate s' = mint_rate s /\
                 mint_inflation s' = mint_inflation s /\ modified s' = all_flags.
  Proof. repeat split; reflexivity. Qed.
End projections.

Lemma pj_pars d s : pars (imported d (fresh_like s)) = gd_params d.
Proof. destruct d as [? ? ? ? ? ? ? ? q]. destruct q. reflexivity. Qed.

(** * stores split into an active and an inactive partition *)

Lemma NoDup_map_filter {A K} (key : A -> K) (P : A -> Prop) `{forall x, Decision (P x)} (l : list A) :
  NoDup (map key l) -> NoDup (map key (filter P l)).
Proof.
  induction l as [|x l IH]; simpl; intros Hnd; [constructor|].
  apply NoDup_cons in Hnd as [Hx Hnd]. rewrite filter_cons. destruct (decide (P x)); [|auto].
  simpl. apply NoDup_cons. split; [|auto].
  intros Hin. apply Hx. apply elem_of_list_fmap in Hin as (y & -> & Hy).
  apply elem_of_list_filter in Hy as [_ Hy]. apply elem_of_list_fmap_1. exact Hy.
Qed.

Lemma ins_all_map_filter {A B K V} `{Countable K} (g : A -> B) (P : B -> Prop) `{forall x, Decision (P x)}
      (key : B -> K) (val : B -> V) (l : list A) (m : gmap K V) :
  ins_all key val (filter P (map g l)) m = ins_all (fun x => key (g x)) (fun x => val (g x)) (filter (fun x => P (g x)) l) m.
Proof.
  revert m. induction l as [|x l IH]; intros m; simpl; [reflexivity|].
  rewrite !filter_cons. destruct (decide (P (g x))); simpl; apply IH.
Qed.

Section partition.
  Context {K V : Type} `{Countable K} (act inact : gmap K V) (key : V -> K) (st : V -> status)
          (c : K * V -> K * V -> comparison).
  Hypothesis Hact : forall k v, act !! k = Some v -> key v = k /\ st v = SActive.
  Hypothesis Hin : forall k v, inact !! k = Some v -> key v = k /\ st v = SInactive.
  Hypothesis Hdis : forall k, is_Some (act !! k) -> inact !! k = None.
  Let l := map snd (sort_by c (map_to_list act)) ++ map snd (sort_by c (map_to_list inact)).

  Lemma part_elem v : v ∈ l <-> (exists k, act !! k = Some v) \/ (exists k, inact !! k = Some v).
  Proof. unfold l. rewrite elem_of_app, !elem_of_sorted_vals. reflexivity. Qed.

  Lemma part_nodup : NoDup (map key l).
  Proof.
    unfold l. rewrite map_app. apply NoDup_app. split; [|split].
    - apply NoDup_key_sorted_vals. intros k v Hk. apply (Hact k v Hk).
    - intros x Hx Hx2. apply elem_of_list_fmap in Hx as (v & -> & Hv). apply elem_of_list_fmap in Hx2 as (w & Hkw & Hw).
      apply elem_of_sorted_vals in Hv as (k & Hk). apply elem_of_sorted_vals in Hw as (k2 & Hk2).
      destruct (Hact k v Hk) as [E1 _]. destruct (Hin k2 w Hk2) as [E2 _].
      assert (k = k2) by congruence. subst k2.
      assert (inact !! k = None) as E3 by (apply Hdis; eexists; exact Hk). congruence.
    - apply NoDup_key_sorted_vals. intros k v Hk. apply (Hin k v Hk).
  Qed.

  Lemma part_status : Forall (fun v => status_ai (st v) = true) l.
  Proof.
    apply Forall_forall. intros v Hv. apply part_elem in Hv as [(k & Hk)|(k & Hk)].
    - destruct (Hact k v Hk) as [_ ->]. reflexivity.
    - destruct (Hin k v Hk) as [_ ->]. reflexivity.
  Qed.

  Lemma part_rebuild_act : ins_all key id (filter (fun v => is_act (st v) = true) l) ∅ = act.
  Proof.
    apply ins_all_eq.
    - apply NoDup_map_filter, part_nodup.
    - intros k v. split.
      + intros Hk. exists v. destruct (Hact k v Hk) as [E1 E2]. split; [|auto].
        apply elem_of_list_filter. split; [rewrite E2; reflexivity|]. apply part_elem. eauto.
      + intros (x & Hx & <- & <-). apply elem_of_list_filter in Hx as [Hs Hx]. unfold id.
        apply part_elem in Hx as [(k & Hk)|(k & Hk)].
        * destruct (Hact k x Hk) as [<- _]. exact Hk.
        * destruct (Hin k x Hk) as [_ E]. rewrite E in Hs. discriminate.
  Qed.

  Lemma part_rebuild_inact : ins_all key id (filter (fun v => is_inact (st v) = true) l) ∅ = inact.
  Proof.
    apply ins_all_eq.
    - apply NoDup_map_filter, part_nodup.
    - intros k v. split.
      + intros Hk. exists v. destruct (Hin k v Hk) as [E1 E2]. split; [|auto].
        apply elem_of_list_filter. split; [rewrite E2; reflexivity|]. apply part_elem. eauto.
      + intros (x & Hx & <- & <-). apply elem_of_list_filter in Hx as [Hs Hx]. unfold id.
        apply part_elem in Hx as [(k & Hk)|(k & Hk)].
        * destruct (Hact k x Hk) as [_ E]. rewrite E in Hs. discriminate.
        * destruct (Hin k x Hk) as [<- _]. exact Hk.
  Qed.
End partition.

(* a store of records carrying their key (sessions, swaps, inflation entries, deposits) *)
Lemma keyed_rebuild {K V} `{Countable K} (m : gmap K V) (key : V -> K) (c : K * V -> K * V -> comparison) :
  (forall k v, m !! k = Some v -> key v = k) ->
  ins_all key id (map snd (sort_by c (map_to_list m))) ∅ = m.
Proof.
  intros Hk. apply ins_all_eq.
  - apply NoDup_key_sorted_vals. exact Hk.
  - intros k v. split.
    + intros Hm. exists v. split; [apply elem_of_sorted_vals; eauto|]. split; [apply (Hk k v Hm)|reflexivity].
    + intros (x & Hx & <- & <-). apply elem_of_sorted_vals in Hx as (k & Hm). unfold id. rewrite (Hk k x Hm). exact Hm.
Qed.

Lemma pairs_rebuild {K V} `{Countable K} (m : gmap K V) (c : K * V -> K * V -> comparison) :
  ins_all fst snd (sort_by c (map_to_list m)) ∅ = m.
Proof.
  apply ins_all_eq.
  - apply NoDup_fst_sorted_list.
  - intros k v. split.
    + intros Hm. exists (k, v). split; [apply elem_of_sorted_list; exact Hm|auto].
    + intros ([k' v'] & Hx & <- & <-). apply elem_of_sorted_list in Hx. exact Hx.
Qed.

(** * named premises: consistency of the stored records and of the secondary indices with them.
    Each is an invariant of the keepers (proved separately as part of the index invariant); here they
    are exactly what the corresponding InitGenesis relies on when it rebuilds the indices. *)

Definition part_ok {K V} `{Countable K} (act inact : gmap K V) (key : V -> K) (st : V -> status) : Prop :=
  (forall k v, act !! k = Some v -> key v = k /\ st v = SActive) /\
  (forall k v, inact !! k = Some v -> key v = k /\ st v = SInactive) /\
  (forall k, is_Some (act !! k) -> inact !! k = None).
Definition prov_store_ok (s : state) : Prop := part_ok (prov_act s) (prov_inact s) pv_addr pv_status.
Definition node_store_ok (s : state) : Prop := part_ok (node_act s) (node_inact s) nd_addr nd_status.
Definition plan_store_ok (s : state) : Prop := part_ok (plan_act s) (plan_inact s) pl_id pl_status.
Definition node_q_index_ok (s : state) : Prop :=
  forall t a, (t, a) ∈ node_q s <-> exists n, node_act s !! a = Some n /\ nd_inactive_at n = t.
Definition node_plan_index_ok (s : state) : Prop :=
  forall id a, (id, a) ∈ node_plan s ->
    addr_ok a = true /\ is_Some (get_plan s id) /\ exists n, get_node s a = Some n /\ nd_addr n = a.
Definition plan_prov_index_ok (s : state) : Prop :=
  forall a id, (a, id) ∈ plan_prov s <-> exists p, get_plan s id = Some p /\ pl_prov p = a.
Definition plan_count_ok (s : state) : Prop :=
  (forall id p, get_plan s id = Some p -> id <= plan_count s) /\ 0 <= plan_count s /\
  (plan_count s = 0 \/ is_Some (get_plan s (plan_count s))).
Definition sess_store_ok (s : state) : Prop := forall id x, sessions s !! id = Some x -> ss_id x = id.
Definition sess_index_ok (s : state) : Prop :=
  (forall t id, (t, id) ∈ sess_q s <-> exists x, sessions s !! id = Some x /\ ss_inactive_at x = t) /\
  (forall a id, (a, id) ∈ sess_acc s <-> exists x, sessions s !! id = Some x /\ ss_addr x = a) /\
  (forall a id, (a, id) ∈ sess_node s <-> exists x, sessions s !! id = Some x /\ ss_node x = a) /\
  (forall k id, (k, id) ∈ sess_sub s <-> exists x, sessions s !! id = Some x /\ ss_sub x = k) /\
  (forall k a id, (k, a, id) ∈ sess_alloc s <-> exists x, sessions s !! id = Some x /\ ss_sub x = k /\ ss_addr x = a).
Definition sess_ids_le_count (s : state) : Prop := forall id x, sessions s !! id = Some x -> 0 < id <= sess_count s.
Definition swap_store_ok (s : state) : Prop := forall h w, swaps s !! h = Some w -> sw_hash w = h /\ length h = 32%nat.
Definition infl_store_ok (s : state) : Prop := forall t i, inflations s !! t = Some i -> inf_ts i = t.

(** * the exported document in closed form *)

Definition mk_gplan (s : state) (p : plan) : gplan := {| gp_plan := p; gp_nodes := links_of s (pl_id p) |}.
Definition doc_of (s : state) : gen_doc :=
  {| gd_deposits := exp_deposits s; gd_providers := exp_providers s; gd_nodes := exp_nodes s;
     gd_plans := map (mk_gplan s) (all_plans s); gd_subs := []; gd_sessions := exp_sessions s;
     gd_swaps := exp_swaps s; gd_inflations := exp_inflations s; gd_params := pars s |}.

Lemma elem_of_links_of s id a : a ∈ links_of s id <-> (id, a) ∈ node_plan s.
Proof.
  unfold links_of. rewrite elem_of_sort_by, elem_of_list_bind. split.
  - intros ([i b] & Hy & Hin). simpl in Hy. case_bool_decide as E; [|inversion Hy].
    apply elem_of_list_singleton in Hy. subst. apply elem_of_elements in Hin. exact Hin.
  - intros Hin. exists (id, a). split; [|apply elem_of_elements; exact Hin].
    simpl. rewrite bool_decide_true by reflexivity. apply elem_of_list_singleton. reflexivity.
Qed.

Lemma NoDup_links_aux (q : list (Z * addr)) id :
  NoDup q -> NoDup (q ≫= fun e => if bool_decide (e.1 = id) then [e.2] else []).
Proof.
  induction q as [|[i a] q IH]; intros Hnd; [constructor|].
  apply NoDup_cons in Hnd as [Hx Hnd]. rewrite bind_cons. simpl. case_bool_decide as E; simpl; [|auto].
  apply NoDup_cons. split; [|auto].
  intros Hin. apply elem_of_list_bind in Hin as ([j b] & Hy & Hq). simpl in Hy.
  case_bool_decide as E2; [|inversion Hy]. apply elem_of_list_singleton in Hy. subst. apply Hx. exact Hq.
Qed.

Lemma NoDup_links_of s id : NoDup (links_of s id).
Proof. unfold links_of. apply NoDup_sort_by. apply NoDup_links_aux. apply NoDup_elements. Qed.

Lemma link_addrs_closed s l :
  (forall a, a ∈ l -> exists n, get_node s a = Some n /\ nd_addr n = a) -> link_addrs s l = Ok l.
Proof.
  induction l as [|a l IH]; intros Hl; simpl; [reflexivity|].
  destruct (Hl a) as (n & -> & E); [left|]. rewrite IH; [simpl; rewrite E; reflexivity|].
  intros b Hb. apply Hl. right. exact Hb.
Qed.

Lemma exp_plan_items_closed s l :
  node_plan_index_ok s -> exp_plan_items s l = Ok (map (mk_gplan s) l).
Proof.
  intros Hnp. induction l as [|p l IH]; simpl; [reflexivity|].
  rewrite link_addrs_closed; [rewrite IH; reflexivity|].
  intros a Ha. apply elem_of_links_of in Ha. apply (Hnp _ _ Ha).
Qed.

Lemma export_closed s : node_plan_index_ok s -> export s = Ok (doc_of s).
Proof. intros Hnp. unfold export, exp_plans. rewrite exp_plan_items_closed by exact Hnp. reflexivity. Qed.

Lemma doc_of_wf s :
  prov_store_ok s -> node_store_ok s -> plan_store_ok s -> node_plan_index_ok s -> doc_wf (doc_of s).
Proof.
  intros (Pa & Pi & Pd) (Na & Ni & Nd) (La & Li & Ld) Hnp. repeat split; simpl.
  - apply (part_status (node_act s) (node_inact s) nd_addr nd_status _ Na Ni).
  - apply Forall_fmap. apply (part_status (plan_act s) (plan_inact s) pl_id pl_status _ La Li).
  - apply Forall_fmap. apply Forall_forall. intros p _. simpl. apply Forall_forall. intros a Ha.
    apply elem_of_links_of in Ha. apply (Hnp _ _ Ha).
  - apply (part_status (prov_act s) (prov_inact s) pv_addr pv_status _ Pa Pi).
Qed.

Definition genesis_defined (s : state) : Prop :=
  prov_store_ok s /\ node_store_ok s /\ plan_store_ok s /\ node_plan_index_ok s.

Theorem roundtrip_closed s :
  genesis_defined s -> roundtrip s = Ok (validate (doc_of s), imported (doc_of s) (fresh_like s)).
Proof.
  intros (Hp & Hn & Hl & Hnp). unfold roundtrip, import.
  rewrite export_closed by exact Hnp. rewrite rbind_Ok.
  rewrite import_hub_closed by (apply doc_of_wf; assumption). reflexivity.
Qed.

(** * what the round trip preserves, module by module *)

Section agree.
  Variable s : state.
  Let s' := imported (doc_of s) (fresh_like s).

  Lemma rt_deposit : deposits s' = deposits s.
  Proof. unfold s'. rewrite pj_deposits. apply pairs_rebuild. Qed.

  Lemma rt_provider : prov_store_ok s -> prov_act s' = prov_act s /\ prov_inact s' = prov_inact s.
  Proof.
    intros (Pa & Pi & Pd). unfold s'. rewrite pj_prov_act, pj_prov_inact. split.
    - apply (part_rebuild_act (prov_act s) (prov_inact s) pv_addr pv_status _ Pa Pi Pd).
    - apply (part_rebuild_inact (prov_act s) (prov_inact s) pv_addr pv_status _ Pa Pi Pd).
  Qed.

  Lemma rt_node : node_store_ok s -> node_q_index_ok s ->
    node_act s' = node_act s /\ node_inact s' = node_inact s /\ node_q s' = node_q s.
  Proof.
    intros (Na & Ni & Nd) Hq. unfold s'. rewrite pj_node_act, pj_node_inact, pj_node_q. split; [|split].
    - apply (part_rebuild_act (node_act s) (node_inact s) nd_addr nd_status _ Na Ni Nd).
    - apply (part_rebuild_inact (node_act s) (node_inact s) nd_addr nd_status _ Na Ni Nd).
    - apply sets.set_eq. intros [t a]. rewrite elem_of_add_all. rewrite (Hq t a). split.
      + intros [Hin|(n & Hn & E)]; [set_solver|]. injection E as <- <-.
        apply elem_of_list_filter in Hn as [Hs Hn].
        apply (part_elem (node_act s) (node_inact s)) in Hn as [(k & Hk)|(k & Hk)].
        * destruct (Na k n Hk) as [<- _]. eauto.
        * destruct (Ni k n Hk) as [_ E]. rewrite E in Hs. discriminate.
      + intros (n & Hn & <-). right. exists n. destruct (Na a n Hn) as [<- E]. split; [|reflexivity].
        apply elem_of_list_filter. split; [rewrite E; reflexivity|].
        apply (part_elem (node_act s) (node_inact s)). eauto.
  Qed.

  Lemma rt_swap : swap_store_ok s -> swaps s' = swaps s.
  Proof.
    intros Hk. unfold s'. rewrite pj_swaps. simpl gd_swaps. unfold exp_swaps, by_bytes.
    apply keyed_rebuild. intros h w Hw. destruct (Hk h w Hw) as [-> Hl]. unfold swap_key_of. rewrite Hl. reflexivity.
  Qed.

  Lemma rt_mint : infl_store_ok s ->
    inflations s' = inflations s /\ mint_max s' = mint_max s /\ mint_min s' = mint_min s /\
    mint_rate s' = mint_rate s /\ mint_inflation s' = mint_inflation s.
  Proof.
    intros Hk. split; [|repeat split; reflexivity].
    unfold s'. rewrite pj_inflations. simpl gd_inflations. unfold exp_inflations, by_z. apply keyed_rebuild. exact Hk.
  Qed.

  Lemma rt_params : pars s' = pars s.
  Proof. unfold s'. rewrite pj_pars. reflexivity. Qed.
End agree.

Lemma max_id_acc {A} (f : A -> Z) (l : list A) (c : Z) :
  let m := fold_left (fun c x => if c <? f x then f x else c) l c in
  c <= m /\ (forall x, x ∈ l -> f x <= m) /\ (m = c \/ exists x, x ∈ l /\ f x = m).
Proof.
  revert c. induction l as [|y l IH]; intros c; simpl.
  - split; [lia|]. split; [intros x Hx; inversion Hx|left; reflexivity].
  - specialize (IH (if c <? f y then f y else c)). simpl in IH. destruct IH as (I1 & I2 & I3).
    destruct (Z.ltb_spec c (f y)) as [Hlt|Hge].
    + split; [lia|]. split.
      * intros x Hx. apply elem_of_cons in Hx as [ ->|Hx]; [lia|auto].
      * destruct I3 as [->|(x & Hx & E)]; right; [exists y; split; [left|reflexivity]|exists x; split; [right; exact Hx|exact E]].
    + split; [lia|]. split.
      * intros x Hx. apply elem_of_cons in Hx as [ ->|Hx]; [lia|auto].
      * destruct I3 as [->|(x & Hx & E)]; [left; reflexivity|right; exists x; split; [right; exact Hx|exact E]].
Qed.

Lemma max_id_spec {A} (f : A -> Z) (l : list A) :
  0 <= max_id f l /\ (forall x, x ∈ l -> f x <= max_id f l) /\ (max_id f l = 0 \/ exists x, x ∈ l /\ f x = max_id f l).
Proof. apply (max_id_acc f l 0). Qed.

Lemma get_plan_iff s id p : plan_store_ok s ->
  get_plan s id = Some p <-> (plan_act s !! id = Some p \/ plan_inact s !! id = Some p).
Proof.
  intros (La & Li & Ld). unfold get_plan. destruct (plan_act s !! id) as [q|] eqn:E.
  - split; [intros H; left; exact H|]. intros [H|H]; [exact H|]. rewrite Ld in H by eauto. discriminate.
  - split; [intros H; right; exact H|]. intros [H|H]; [discriminate|exact H].
Qed.

Lemma get_plan_id s id p : plan_store_ok s -> get_plan s id = Some p -> pl_id p = id.
Proof.
  intros Hs Hp. pose proof Hs as (La & Li & Ld). apply (get_plan_iff s id p Hs) in Hp as [Hp|Hp].
  - apply (La _ _ Hp).
  - apply (Li _ _ Hp).
Qed.

Lemma elem_of_all_plans s p : plan_store_ok s -> p ∈ all_plans s <-> get_plan s (pl_id p) = Some p.
Proof.
  intros Hs. rewrite (get_plan_iff s (pl_id p) p Hs). destruct Hs as (La & Li & Ld).
  unfold all_plans, by_z. rewrite (part_elem (plan_act s) (plan_inact s)). split.
  - intros [(k & Hk)|(k & Hk)].
    + left. destruct (La k p Hk) as [<- _]. exact Hk.
    + right. destruct (Li k p Hk) as [<- _]. exact Hk.
  - intros [H|H]; [left|right]; eauto.
Qed.

Section agree2.
  Variable s : state.
  Let s' := imported (doc_of s) (fresh_like s).

  Lemma rt_plan :
    plan_store_ok s -> node_plan_index_ok s -> plan_prov_index_ok s -> plan_count_ok s ->
    plan_act s' = plan_act s /\ plan_inact s' = plan_inact s /\ plan_prov s' = plan_prov s /\
    node_plan s' = node_plan s /\ plan_count s' = plan_count s.
  Proof.
    intros Hs Hnp Hpp (C1 & C2 & C3). pose proof Hs as (La & Li & Ld).
    unfold s'. rewrite pj_plan_act, pj_plan_inact, pj_plan_prov, pj_node_plan, pj_plan_count.
    simpl gd_plans. split; [|split; [|split; [|split]]].
    - rewrite ins_all_map_filter.
      apply (part_rebuild_act (plan_act s) (plan_inact s) pl_id pl_status _ La Li Ld).
    - rewrite ins_all_map_filter.
      apply (part_rebuild_inact (plan_act s) (plan_inact s) pl_id pl_status _ La Li Ld).
    - apply sets.set_eq. intros [a id]. rewrite elem_of_add_all, (Hpp a id). split.
      + intros [Hin|(i & Hi & E)]; [set_solver|]. apply elem_of_list_fmap in Hi as (p & -> & Hp).
        injection E as <- <-. exists p. split; [|reflexivity]. apply elem_of_all_plans; assumption.
      + intros (p & Hp & <-). right. exists (mk_gplan s p). split.
        * apply elem_of_list_fmap_1. apply elem_of_all_plans; [exact Hs|].
          rewrite (get_plan_id s id p Hs Hp). exact Hp.
        * unfold gp_id. simpl. rewrite (get_plan_id s id p Hs Hp). reflexivity.
    - apply sets.set_eq. intros [id a]. rewrite elem_of_links. split.
      + intros [Hin|(i & b & Hi & Hb & E)]; [set_solver|]. apply elem_of_list_fmap in Hi as (p & -> & Hp).
        simpl in Hb. unfold gp_id in E. simpl in E. injection E as -> ->. apply elem_of_links_of. exact Hb.
      + intros Hin. right. destruct (Hnp id a Hin) as (_ & (p & Hp) & _).
        assert (pl_id p = id) as Hid by (apply (get_plan_id s id p Hs Hp)).
        exists (mk_gplan s p), a. split; [|split].
        * apply elem_of_list_fmap_1. apply elem_of_all_plans; [exact Hs|]. rewrite Hid. exact Hp.
        * simpl. apply elem_of_links_of. rewrite Hid. exact Hin.
        * unfold gp_id. simpl. rewrite Hid. reflexivity.
    - destruct (max_id_spec (fun i => pl_id (gp_plan i)) (map (mk_gplan s) (all_plans s))) as (M1 & M2 & M3).
      set (m := max_id _ _) in *.
      assert (m <= plan_count s).
      { destruct M3 as [->|(i & Hi & <-)]; [exact C2|]. apply elem_of_list_fmap in Hi as (p & -> & Hp). simpl.
        apply (C1 (pl_id p) p). apply elem_of_all_plans; assumption. }
      assert (plan_count s <= m).
      { destruct C3 as [->|(p & Hp)]; [exact M1|].
        assert (pl_id p = plan_count s) as Hid by (apply (get_plan_id s _ p Hs Hp)).
        rewrite <- Hid. apply (M2 (mk_gplan s p)). apply elem_of_list_fmap_1. apply elem_of_all_plans; [exact Hs|].
        rewrite Hid. exact Hp. }
      lia.
  Qed.
End agree2.

Section agree3.
  Variable s : state.
  Let s' := imported (doc_of s) (fresh_like s).

  Lemma elem_of_exp_sessions x : sess_store_ok s -> x ∈ exp_sessions s <-> sessions s !! ss_id x = Some x.
  Proof.
    intros Hk. unfold exp_sessions, by_z. rewrite elem_of_sorted_vals. split.
    - intros (k & Hx). rewrite (Hk k x Hx). exact Hx.
    - eauto.
  Qed.

  (* records and all five indices come back; the counter comes back as the largest LIVE id *)
  Lemma rt_session : sess_store_ok s -> sess_index_ok s ->
    sessions s' = sessions s /\ sess_q s' = sess_q s /\ sess_acc s' = sess_acc s /\ sess_node s' = sess_node s /\
    sess_sub s' = sess_sub s /\ sess_alloc s' = sess_alloc s /\
    (forall id x, sessions s !! id = Some x -> id <= sess_count s') /\
    (sess_count s' = 0 \/ is_Some (sessions s !! sess_count s')).
  Proof.
    intros Hk (Iq & Ia & In & Is & Il). unfold s'.
    rewrite pj_sessions, pj_sess_q, pj_sess_acc, pj_sess_node, pj_sess_sub, pj_sess_alloc, pj_sess_count.
    simpl gd_sessions.
    assert (forall {E} `{Countable E} (f : session -> E) (q : gset E),
               (forall e, e ∈ q <-> exists x, sessions s !! ss_id x = Some x /\ f x = e) ->
               add_all f (exp_sessions s) ∅ = q) as Hidx.
    { intros E ? ? f q Hq. apply sets.set_eq. intros e. rewrite elem_of_add_all, (Hq e). split.
      - intros [Hin|(x & Hx & <-)]; [set_solver|]. exists x. split; [apply elem_of_exp_sessions; assumption|reflexivity].
      - intros (x & Hx & <-). right. exists x. split; [apply elem_of_exp_sessions; assumption|reflexivity]. }
    split; [|split; [|split; [|split; [|split; [|split; [|split]]]]]].
    - unfold exp_sessions, by_z. apply keyed_rebuild. exact Hk.
    - apply Hidx. intros [t id]. rewrite (Iq t id). split.
      + intros (x & Hx & <-). exists x. rewrite (Hk id x Hx). auto.
      + intros (x & Hx & E). injection E as <- <-. eauto.
    - apply Hidx. intros [a id]. rewrite (Ia a id). split.
      + intros (x & Hx & <-). exists x. rewrite (Hk id x Hx). auto.
      + intros (x & Hx & E). injection E as <- <-. eauto.
    - apply Hidx. intros [a id]. rewrite (In a id). split.
      + intros (x & Hx & <-). exists x. rewrite (Hk id x Hx). auto.
      + intros (x & Hx & E). injection E as <- <-. eauto.
    - apply Hidx. intros [k id]. rewrite (Is k id). split.
      + intros (x & Hx & <-). exists x. rewrite (Hk id x Hx). auto.
      + intros (x & Hx & E). injection E as <- <-. eauto.
    - apply Hidx. intros [[k a] id]. rewrite (Il k a id). split.
      + intros (x & Hx & <- & <-). exists x. rewrite (Hk id x Hx). auto.
      + intros (x & Hx & E). injection E as <- <- <-. eauto.
    - intros id x Hx. destruct (max_id_spec ss_id (exp_sessions s)) as (_ & M2 & _).
      rewrite <- (Hk id x Hx). apply M2. apply elem_of_exp_sessions; [exact Hk|]. rewrite (Hk id x Hx). exact Hx.
    - destruct (max_id_spec ss_id (exp_sessions s)) as (_ & _ & [M3|(x & Hx & M3)]); [left; exact M3|right].
      rewrite <- M3. exists x. apply elem_of_exp_sessions; assumption.
  Qed.

  (* the subscription module: nothing but the parameter survives *)
  Lemma rt_subscription_lost :
    subs s' = ∅ /\ allocs s' = ∅ /\ payouts s' = ∅ /\ sub_count s' = 0 /\
    sub_q s' = ∅ /\ sub_acc s' = ∅ /\ sub_node s' = ∅ /\ sub_plan s' = ∅ /\
    pay_q s' = ∅ /\ pay_acc s' = ∅ /\ pay_node s' = ∅ /\ pay_acc_node s' = ∅.
  Proof. apply pj_subs. Qed.
End agree3.

(** * the exported document passes validation *)

(* every stored record passes its own Validate (record-level invariants of the keepers), and the
   parameter sets are valid (DESIGN section 5.1; x/params validates every change) *)
Definition dep_records_ok (s : state) : Prop := forall a c, deposits s !! a = Some c -> validate_deposit (a, c) = true.
Definition prov_records_ok (s : state) : Prop :=
  forall p, (exists a, prov_act s !! a = Some p) \/ (exists a, prov_inact s !! a = Some p) -> validate_provider p = true.
Definition node_records_ok (s : state) : Prop :=
  forall n, (exists a, node_act s !! a = Some n) \/ (exists a, node_inact s !! a = Some n) -> validate_node n = true.
Definition plan_records_ok (s : state) : Prop :=
  forall p, (exists k, plan_act s !! k = Some p) \/ (exists k, plan_inact s !! k = Some p) -> validate_plan p = true.
Definition sess_records_ok (s : state) : Prop := forall id x, sessions s !! id = Some x -> validate_session x = true.
Definition swap_records_ok (s : state) : Prop := forall h w, swaps s !! h = Some w -> validate_swap w = true.
Definition infl_records_ok (s : state) : Prop := forall t i, inflations s !! t = Some i -> validate_inflation i = true.
Definition params_valid (p : params) : Prop :=
  prov_params_ok p = true /\ node_params_ok p = true /\ sub_params_ok p = true /\ sess_params_ok p = true /\ swap_params_ok p = true.

Lemma forallb_elem {A} (f : A -> bool) (l : list A) : (forall x, x ∈ l -> f x = true) -> forallb f l = true.
Proof. intros Hf. apply forallb_forall. intros x Hx. apply Hf. apply elem_of_list_In. exact Hx. Qed.
Lemma nodupb_true {A} `{EqDecision A} (l : list A) : NoDup l -> nodupb l = true.
Proof. intros Hn. unfold nodupb. apply bool_decide_eq_true_2. exact Hn. Qed.

Section valid.
  Variable s : state.
  Let d := doc_of s.

  Lemma val_deposit : dep_records_ok s -> v_deposit (validate d) = true.
  Proof.
    intros Hr. simpl. unfold validate_deposits. apply andb_true_intro. split.
    - apply nodupb_true. apply NoDup_fst_sorted_list.
    - apply forallb_elem. intros [a c] Hx. apply Hr. unfold exp_deposits, by_addr in Hx. apply elem_of_sorted_list in Hx. exact Hx.
  Qed.

  Lemma val_provider : prov_store_ok s -> prov_records_ok s -> prov_params_ok (pars s) = true -> v_provider (validate d) = true.
  Proof.
    intros (Pa & Pi & Pd) Hr Hp. simpl. unfold validate_providers. rewrite Hp. simpl. apply andb_true_intro. split.
    - apply nodupb_true. apply (part_nodup (prov_act s) (prov_inact s) pv_addr pv_status _ Pa Pi Pd).
    - apply forallb_elem. intros p Hx. apply Hr. apply (part_elem (prov_act s) (prov_inact s)) in Hx. exact Hx.
  Qed.

  Lemma val_node : node_store_ok s -> node_records_ok s -> node_params_ok (pars s) = true -> v_node (validate d) = true.
  Proof.
    intros (Pa & Pi & Pd) Hr Hp. simpl. unfold validate_nodes. rewrite Hp. simpl. apply andb_true_intro. split.
    - apply nodupb_true. apply (part_nodup (node_act s) (node_inact s) nd_addr nd_status _ Pa Pi Pd).
    - apply forallb_elem. intros p Hx. apply Hr. apply (part_elem (node_act s) (node_inact s)) in Hx. exact Hx.
  Qed.

  Lemma val_plan : plan_store_ok s -> plan_records_ok s -> v_plan (validate d) = true.
  Proof.
    intros (Pa & Pi & Pd) Hr. simpl. unfold validate_plans. apply andb_true_intro. split; [apply andb_true_intro; split|].
    - apply nodupb_true. rewrite map_map. simpl.
      apply (part_nodup (plan_act s) (plan_inact s) pl_id pl_status _ Pa Pi Pd).
    - apply forallb_elem. intros i Hi. apply elem_of_list_fmap in Hi as (p & -> & _). simpl.
      apply nodupb_true. apply NoDup_links_of.
    - apply forallb_elem. intros i Hi. apply elem_of_list_fmap in Hi as (p & -> & Hp). simpl.
      apply Hr. apply (part_elem (plan_act s) (plan_inact s)) in Hp. exact Hp.
  Qed.

  Lemma val_subscription : sub_params_ok (pars s) = true -> v_subscription (validate d) = true.
  Proof. intros Hp. simpl. unfold validate_subs. rewrite Hp. reflexivity. Qed.

  Lemma val_session : sess_store_ok s -> sess_records_ok s -> sess_params_ok (pars s) = true -> v_session (validate d) = true.
  Proof.
    intros Hk Hr Hp. simpl. unfold validate_sessions. rewrite Hp. simpl. apply andb_true_intro. split.
    - apply nodupb_true. unfold exp_sessions, by_z. apply NoDup_key_sorted_vals. exact Hk.
    - apply forallb_elem. intros x Hx. apply elem_of_sorted_vals in Hx as (k & Hx). apply (Hr k x Hx).
  Qed.

  Lemma val_swap : swap_store_ok s -> swap_records_ok s -> swap_params_ok (pars s) = true -> v_swap (validate d) = true.
  Proof.
    intros Hk Hr Hp. simpl. unfold validate_swaps. rewrite Hp. simpl. apply andb_true_intro. split.
    - apply nodupb_true. unfold exp_swaps, by_bytes. apply NoDup_key_sorted_vals. intros h w Hw. apply (Hk h w Hw).
    - apply forallb_elem. intros x Hx. apply elem_of_sorted_vals in Hx as (k & Hx). apply (Hr k x Hx).
  Qed.

  Lemma val_mint : infl_store_ok s -> infl_records_ok s -> v_mint (validate d) = true.
  Proof.
    intros Hk Hr. simpl. unfold validate_inflations. apply andb_true_intro. split.
    - apply nodupb_true. unfold exp_inflations, by_z. apply NoDup_key_sorted_vals. exact Hk.
    - apply forallb_elem. intros x Hx. apply elem_of_sorted_vals in Hx as (k & Hx). apply (Hr k x Hx).
  Qed.
End valid.

(** * the full statement, and why it is false of the code *)

Definition same_hub (s s' : state) : Prop :=
  cfg s' = cfg s /\ bank s' = bank s /\ supply s' = supply s /\ deposits s' = deposits s /\
  prov_act s' = prov_act s /\ prov_inact s' = prov_inact s /\
  node_act s' = node_act s /\ node_inact s' = node_inact s /\ node_q s' = node_q s /\ node_plan s' = node_plan s /\
  plan_count s' = plan_count s /\ plan_act s' = plan_act s /\ plan_inact s' = plan_inact s /\ plan_prov s' = plan_prov s /\
  sub_count s' = sub_count s /\ subs s' = subs s /\ sub_q s' = sub_q s /\ sub_acc s' = sub_acc s /\
  sub_node s' = sub_node s /\ sub_plan s' = sub_plan s /\ allocs s' = allocs s /\ payouts s' = payouts s /\
  pay_q s' = pay_q s /\ pay_acc s' = pay_acc s /\ pay_node s' = pay_node s /\ pay_acc_node s' = pay_acc_node s /\
  sess_count s' = sess_count s /\ sessions s' = sessions s /\ sess_q s' = sess_q s /\ sess_acc s' = sess_acc s /\
  sess_node s' = sess_node s /\ sess_sub s' = sess_sub s /\ sess_alloc s' = sess_alloc s /\
  pars s' = pars s /\ swaps s' = swaps s /\ inflations s' = inflations s /\
  mint_max s' = mint_max s /\ mint_min s' = mint_min s /\ mint_rate s' = mint_rate s /\ mint_inflation s' = mint_inflation s /\
  now s' = now s.

(* C12 as stated: from every reachable state the export validates, the re-imported chain holds the same
   records, indices, counters and parameters, and no continuation halts on it that runs on the original *)
Definition C12_full_statement : Prop :=
  forall g ops s, run (init g) ops = RunOk s ->
    exists v s', roundtrip s = Ok (v, s') /\ verdict_ok v = true /\ same_hub s s' /\
      forall ops2, (exists a, run s ops2 = RunOk a) -> (exists b, run s' ops2 = RunOk b).

Definition w_cfg : config :=
  {| c_deposit := [1%N]; c_feecoll := [2%N]; c_distr := [3%N]; c_swap := [4%N]; c_blocked := [[1%N]; [2%N]; [3%N]; [4%N]] |}.
Definition w_params : params :=
  {| p_prov_deposit := (1%N, 10); p_prov_share := 0; p_node_deposit := (1%N, 10); p_node_active := HOUR;
     p_max_gb := ∅; p_min_gb := ∅; p_max_hr := ∅; p_min_hr := ∅;
     p_max_sub_gb := 10; p_min_sub_gb := 1; p_max_sub_hr := 10; p_min_sub_hr := 1; p_node_share := 0;
     p_sub_delay := 120; p_sess_delay := 120; p_sess_proof := false;
     p_swap_enabled := true; p_swap_denom := 1%N; p_swap_approver := canon RAcc [9%N] |}.
Definition w_genesis : genesis :=
  {| g_cfg := w_cfg; g_balances := [([7%N], (1%N, 1000)); ([8%N], (1%N, 1000))]; g_params := w_params;
     g_inflations := []; g_mint := (1, 1, 1, 1); g_time := 0 |}.
(* a node registers and goes active, an account buys 2 GB on it *)
Definition w_ops_sub : list op :=
  [ OBegin 1000;
    OTx (MNodeRegister (canon RAcc [7%N]) (Some [(1%N, 5)]) (Some [(1%N, 7)]) "https://n:1" true);
    OTx (MNodeUpdateStatus (canon RNode [7%N]) SActive);
    OTx (MNodeSubscribe (canon RAcc [8%N]) (canon RNode [7%N]) 2 0 1%N);
    OEnd ].
(* ... starts session 1 and ends it; the session is still pending at the end of the block *)
Definition w_ops_live_session : list op :=
  w_ops_sub ++ [ OBegin 2000; OTx (MSessStart (canon RAcc [8%N]) 1 (canon RNode [7%N])); OTx (MSessEnd (canon RAcc [8%N]) 1 0); OEnd ].
(* ... and one block later session 1 has been settled and removed *)
Definition w_ops_session_gone : list op := w_ops_live_session ++ [ OBegin 3000; OEnd ].

Definition wit (ops : list op) (P : state -> verdict -> state -> bool) : bool :=
  match run (init w_genesis) ops with
  | RunOk s => match roundtrip s with Ok (v, s') => P s v s' | _ => false end
  | _ => false
  end.
Lemma wit_elim ops P : wit ops P = true ->
  exists s v s', run (init w_genesis) ops = RunOk s /\ roundtrip s = Ok (v, s') /\ P s v s' = true.
Proof.
  unfold wit. destruct (run (init w_genesis) ops) as [s|]; [|discriminate].
  destruct (roundtrip s) as [[v s']| |] eqn:Hrt; try discriminate.
  intros HP. exists s, v, s'. split; [reflexivity|]. split; [exact Hrt|exact HP].
Qed.
Definition is_nil {A} (l : list A) : bool := match l with [] => true | _ => false end.
Lemma is_nil_map {K V} `{Countable K} (m : gmap K V) : is_nil (map_to_list m) = true -> m = ∅.
Proof. intros E. apply map_to_list_empty_iff. destruct (map_to_list m); [reflexivity|discriminate]. Qed.

Definition P_sub (s : state) (v : verdict) (s' : state) : bool :=
  verdict_ok v && bool_decide (is_Some (subs s !! 1)) && bool_decide (is_Some (allocs s !! (1, [8%N]))) &&
  (sub_count s =? 1) && is_nil (map_to_list (subs s')) && is_nil (map_to_list (allocs s')) && (sub_count s' =? 0).
Lemma P_sub_true : wit w_ops_sub P_sub = true.
Proof. vm_compute. reflexivity. Qed.

Lemma refuted_subscriptions :
  exists ops s v s', run (init w_genesis) ops = RunOk s /\ roundtrip s = Ok (v, s') /\ verdict_ok v = true /\
    is_Some (subs s !! 1) /\ is_Some (allocs s !! (1, [8%N])) /\ sub_count s = 1 /\
    subs s' = ∅ /\ allocs s' = ∅ /\ sub_count s' = 0.
Proof.
  destruct (wit_elim _ _ P_sub_true) as (s & v & s' & Hrun & Hrt & HP). exists w_ops_sub, s, v, s'.
  unfold P_sub in HP.
  apply andb_prop in HP as [HP H7]. apply andb_prop in HP as [HP H6]. apply andb_prop in HP as [HP H5].
  apply andb_prop in HP as [HP H4]. apply andb_prop in HP as [HP H3]. apply andb_prop in HP as [H1 H2].
  split; [exact Hrun|]. split; [exact Hrt|]. split; [exact H1|].
  split; [apply (bool_decide_eq_true_1 _ H2)|]. split; [apply (bool_decide_eq_true_1 _ H3)|].
  split; [apply Z.eqb_eq; exact H4|]. split; [apply is_nil_map; exact H5|]. split; [apply is_nil_map; exact H6|].
  apply Z.eqb_eq; exact H7.
Qed.

Definition P_cnt (s : state) (v : verdict) (s' : state) : bool :=
  verdict_ok v && is_nil (map_to_list (sessions s)) && (sess_count s =? 1) && (sess_count s' =? 0).
Lemma P_cnt_true : wit w_ops_session_gone P_cnt = true.
Proof. vm_compute. reflexivity. Qed.

Lemma refuted_session_counter :
  exists ops s v s', run (init w_genesis) ops = RunOk s /\ roundtrip s = Ok (v, s') /\ verdict_ok v = true /\
    sessions s = ∅ /\ sess_count s = 1 /\ sess_count s' = 0.
Proof.
  destruct (wit_elim _ _ P_cnt_true) as (s & v & s' & Hrun & Hrt & HP). exists w_ops_session_gone, s, v, s'.
  unfold P_cnt in HP.
  apply andb_prop in HP as [HP H4]. apply andb_prop in HP as [HP H3]. apply andb_prop in HP as [H1 H2].
  split; [exact Hrun|]. split; [exact Hrt|]. split; [exact H1|].
  split; [apply is_nil_map; exact H2|]. split; apply Z.eqb_eq; assumption.
Qed.

(* a chain re-imported while session 1 is pending halts in the EndBlock that settles it *)
Definition P_halt (s : state) (v : verdict) (s' : state) : bool :=
  verdict_ok v && (match run s [OBegin 3000; OEnd] with RunOk _ => true | _ => false end) &&
  (match run s' [OBegin 3000; OEnd] with RunHalt _ _ => true | _ => false end).
Lemma P_halt_true : wit w_ops_live_session P_halt = true.
Proof. vm_compute. reflexivity. Qed.

Lemma refuted_continuation_halts :
  exists ops s v s', run (init w_genesis) ops = RunOk s /\ roundtrip s = Ok (v, s') /\ verdict_ok v = true /\
    (exists a, run s [OBegin 3000; OEnd] = RunOk a) /\ (exists b i, run s' [OBegin 3000; OEnd] = RunHalt b i).
Proof.
  destruct (wit_elim _ _ P_halt_true) as (s & v & s' & Hrun & Hrt & HP). exists w_ops_live_session, s, v, s'.
  unfold P_halt in HP.
  apply andb_prop in HP as [HP H3]. apply andb_prop in HP as [H1 H2].
  split; [exact Hrun|]. split; [exact Hrt|]. split; [exact H1|]. split.
  - destruct (run s [OBegin 3000; OEnd]); [eauto|discriminate].
  - destruct (run s' [OBegin 3000; OEnd]); [discriminate|eauto].
Qed.

Lemma full_statement_refuted : ~ C12_full_statement.
Proof.
  intros Hfull. destruct refuted_subscriptions as (ops & s & v & s' & Hrun & Hrt & _ & Hsub & _ & _ & Hs' & _).
  destruct (Hfull _ _ _ Hrun) as (v2 & s2 & Hrt2 & _ & Hsame & _).
  rewrite Hrt in Hrt2. injection Hrt2 as <- <-.
  destruct Hsame as (_ & _ & _ & _ & _ & _ & _ & _ & _ & _ & _ & _ & _ & _ & _ & Hsubs & _).
  rewrite Hs' in Hsubs. rewrite <- Hsubs in Hsub. rewrite lookup_empty in Hsub. destruct Hsub as [? ?]. discriminate.
Qed.

(** * packaged per-module statements about [roundtrip] *)

Section packaged.
  Variables (s : state) (v : verdict) (s' : state).
  Hypothesis Hd : genesis_defined s.
  Hypothesis Hrt : roundtrip s = Ok (v, s').

  Lemma rt_inv : v = validate (doc_of s) /\ s' = imported (doc_of s) (fresh_like s).
  Proof. rewrite roundtrip_closed in Hrt by exact Hd. injection Hrt as <- <-. split; reflexivity. Qed.

  Lemma partial_deposit :
    deposits s' = deposits s /\ (dep_records_ok s -> v_deposit v = true).
  Proof. destruct rt_inv as [-> ->]. split; [apply rt_deposit|apply val_deposit]. Qed.

  Lemma partial_provider :
    prov_act s' = prov_act s /\ prov_inact s' = prov_inact s /\
    (prov_records_ok s -> prov_params_ok (pars s) = true -> v_provider v = true).
  Proof.
    destruct rt_inv as [-> ->]. destruct Hd as (Hp & _). destruct (rt_provider s Hp) as [A B].
    split; [exact A|]. split; [exact B|]. apply val_provider. exact Hp.
  Qed.

  Lemma partial_node : node_q_index_ok s ->
    node_act s' = node_act s /\ node_inact s' = node_inact s /\ node_q s' = node_q s /\
    (node_records_ok s -> node_params_ok (pars s) = true -> v_node v = true).
  Proof.
    intros Hq. destruct rt_inv as [-> ->]. destruct Hd as (_ & Hn & _). destruct (rt_node s Hn Hq) as (A & B & C).
    split; [exact A|]. split; [exact B|]. split; [exact C|]. apply val_node. exact Hn.
  Qed.

  Lemma partial_plan : plan_prov_index_ok s -> plan_count_ok s ->
    plan_act s' = plan_act s /\ plan_inact s' = plan_inact s /\ plan_prov s' = plan_prov s /\
    node_plan s' = node_plan s /\ plan_count s' = plan_count s /\
    (plan_records_ok s -> v_plan v = true).
  Proof.
    intros Hpp Hc. destruct rt_inv as [-> ->]. destruct Hd as (_ & _ & Hl & Hnp).
    destruct (rt_plan s Hl Hnp Hpp Hc) as (A & B & C & D & E).
    repeat (split; [assumption|]). apply val_plan. exact Hl.
  Qed.

  Lemma partial_session : sess_store_ok s -> sess_index_ok s ->
    sessions s' = sessions s /\ sess_q s' = sess_q s /\ sess_acc s' = sess_acc s /\ sess_node s' = sess_node s /\
    sess_sub s' = sess_sub s /\ sess_alloc s' = sess_alloc s /\
    (forall id x, sessions s !! id = Some x -> id <= sess_count s') /\
    (sess_count s' = 0 \/ is_Some (sessions s !! sess_count s')) /\
    (sess_records_ok s -> sess_params_ok (pars s) = true -> v_session v = true).
  Proof.
    intros Hk Hi. destruct rt_inv as [-> ->]. destruct (rt_session s Hk Hi) as (A & B & C & D & E & F & G & H).
    repeat (split; [assumption|]). apply val_session. exact Hk.
  Qed.

  Lemma partial_swap : swap_store_ok s ->
    swaps s' = swaps s /\ (swap_records_ok s -> swap_params_ok (pars s) = true -> v_swap v = true).
  Proof. intros Hk. destruct rt_inv as [-> ->]. split; [apply rt_swap; exact Hk|apply val_swap; exact Hk]. Qed.

  Lemma partial_mint : infl_store_ok s ->
    inflations s' = inflations s /\ mint_max s' = mint_max s /\ mint_min s' = mint_min s /\
    mint_rate s' = mint_rate s /\ mint_inflation s' = mint_inflation s /\
    (infl_records_ok s -> v_mint v = true).
  Proof.
    intros Hk. destruct rt_inv as [-> ->]. destruct (rt_mint s Hk) as (A & B & C & D & E).
    repeat (split; [assumption|]). apply val_mint. exact Hk.
  Qed.

  Lemma partial_params :
    pars s' = pars s /\ modified s' = all_flags /\ (sub_params_ok (pars s) = true -> v_subscription v = true).
  Proof. destruct rt_inv as [-> ->]. split; [apply rt_params|]. split; [reflexivity|apply val_subscription]. Qed.

  Lemma partial_sdk_side : bank s' = bank s /\ supply s' = supply s /\ cfg s' = cfg s /\ now s' = now s.
  Proof. destruct rt_inv as [_ ->]. repeat split; reflexivity. Qed.

  (* and what is lost, for every state *)
  Lemma subscriptions_always_lost :
    subs s' = ∅ /\ allocs s' = ∅ /\ payouts s' = ∅ /\ sub_count s' = 0 /\
    sub_q s' = ∅ /\ sub_acc s' = ∅ /\ sub_node s' = ∅ /\ sub_plan s' = ∅ /\
    pay_q s' = ∅ /\ pay_acc s' = ∅ /\ pay_node s' = ∅ /\ pay_acc_node s' = ∅.
  Proof. destruct rt_inv as [_ ->]. apply rt_subscription_lost. Qed.
End packaged.

(* the export/import pair is defined (no panic) on every state satisfying the store premises *)
Lemma roundtrip_defined s : genesis_defined s -> exists v s', roundtrip s = Ok (v, s').
Proof. intros Hd. rewrite roundtrip_closed by exact Hd. eauto. Qed.
