(* C08 (run level): at most one ACTIVE session per (subscription, address).  Invariant: an active
   session is the newest live session of its (subscription, address) pair.  MsgStart only creates a
   session when the newest one of the pair is not active (GetLatestSessionForAllocation), every other
   operation only moves statuses forward. *)
From Hub Require Import Base.Prelude Base.Arith Model.Types Model.Keeper Model.Handlers Model.Hooks Model.Step.
From Hub Require Import Proofs.Tactics Proofs.Frames Proofs.KeysInv Proofs.Lifecycle Proofs.IndexSess Proofs.Listing Proofs.IndexAll.

Definition one_act (s : state) : Prop :=
  forall i x j y, sessions s !! i = Some x -> sessions s !! j = Some y -> ss_status x = SActive ->
                  ss_sub x = ss_sub y -> ss_addr x = ss_addr y -> j <= i.

Lemma one_act_evo s s' : sess_evo s s' -> one_act s -> one_act s'.
Proof.
  intros [_ E] H i x' j y' Hx Hy Hact E1 E2.
  destruct (E _ _ Hx) as (x & Hx0 & (_ & S1 & _ & S2 & F)). destruct (E _ _ Hy) as (y & Hy0 & (_ & T1 & _ & T2 & _)).
  apply (H i x j y Hx0 Hy0); [destruct F as [F|[F1 F2]]; congruence|congruence|congruence].
Qed.

Lemma one_act_frame s s' : sessions s' = sessions s -> one_act s -> one_act s'.
Proof. unfold one_act. intros ->. auto. Qed.

Lemma one_act_start s from id nd s' :
  kinv_sess s -> idx_sess s -> one_act s -> h_sess_start s from id nd = Ok s' -> one_act s'.
Proof.
  intros Hk Hix Hone H. unfold h_sess_start in H. destruct (subs s !! id) as [sb|] eqn:Hsb; [|discriminate].
  apply rbind_ok in H as (u & _ & H). destruct (get_node s (ta_bytes nd)) as [n|] eqn:Hn; [|discriminate].
  apply rbind_ok in H as (u2 & _ & H). apply rbind_ok in H as (u3 & _ & H). apply rbind_ok in H as (chk & _ & H).
  apply rbind_ok in H as (u4 & _ & H). apply rbind_ok in H as (latest & Hl & H). apply rbind_ok in H as (u5 & Hnl & H).
  apply ensure_ok in Hnl. injection H as <-.
  pose proof (latest_session_for_alloc_ok s Hix id (ta_bytes from) Hk) as L. rewrite Hl in L.
  set (n0 := sess_count s + 1).
  assert (Hold : forall k z, sessions s !! k = Some z -> k <> n0).
  { intros k z Hz. destruct (k_ss _ Hk _ _ Hz) as (_ & ? & _). unfold n0. lia. }
  (* no active session of the pair (id, from) in s *)
  assert (Hno : forall k z, sessions s !! k = Some z -> ss_sub z = id -> ss_addr z = ta_bytes from -> ss_status z <> SActive).
  { intros k z Hz Z1 Z2 Zact. destruct latest as [w|].
    - destruct L as (W1 & W2 & Hw & Wmax). apply negb_true_iff, bool_decide_eq_false in Hnl.
      pose proof (Wmax _ _ Hz Z1 Z2) as Hle1.
      pose proof (Hone k z (ss_id w) w Hz Hw Zact ltac:(congruence) ltac:(congruence)) as Hle2.
      assert (k = ss_id w) by lia. subst k. rewrite Hw in Hz. injection Hz as <-. contradiction.
    - apply (L _ _ Hz). auto. }
  intros i x j y Hx Hy Hact E1 E2. simpl in Hx, Hy. fold n0 in Hx, Hy.
  destruct (decide (i = n0)) as [->|Hi]; destruct (decide (j = n0)) as [->|Hj].
  - lia.
  - rewrite lookup_insert_ne in Hy by congruence. destruct (k_ss _ Hk _ _ Hy) as (_ & ? & _). unfold n0. lia.
  - rewrite lookup_insert_ne in Hx by congruence. rewrite lookup_insert in Hy. injection Hy as <-. simpl in E1, E2.
    exfalso. exact (Hno _ _ Hx E1 E2 Hact).
  - rewrite lookup_insert_ne in Hx, Hy by congruence. eapply Hone; eauto.
Qed.

(* every operation other than a session start only moves session statuses forward *)
Lemma sess_evo_handle_nonstart s m s' :
  kinv s -> handle s m = Ok s' -> (forall f i n, m <> MSessStart f i n) -> sess_evo s s'.
Proof.
  intros Hi H Hns. destruct m; simpl in H.
  all: try (eapply sess_evo_keeps; [handler_keeps H; exact H|reflexivity]).
  - eapply sess_step_cancel; eauto.
  - exfalso. eapply Hns. reflexivity.
  - eapply evo_h_sess_update; [apply Hi|exact H].
  - eapply evo_h_sess_end; [apply Hi|exact H].
Qed.

Lemma classic_start o : (exists f i n, o = OTx (MSessStart f i n)) \/ (forall f i n, o <> OTx (MSessStart f i n)).
Proof. destruct o as [|m| |]; try (right; intros; discriminate). destruct m; try (right; intros; discriminate). left; eauto. Qed.

Theorem one_act_step s o s' : kinv s -> idx_sess s -> one_act s -> step s o = OOk s' -> one_act s'.
Proof.
  intros Hi Hix Hone Hstep.
  destruct (classic_start o) as [(f & i & n & ->)|Hns].
  - unfold step, run_tx in Hstep. destruct (validate_basic _); [|discriminate].
    destruct (handle _ _) as [x| |] eqn:H; try discriminate. injection Hstep as <-. simpl in H.
    eapply one_act_start; [| | |exact H].
    + eapply kinv_sess_frame; [..|apply (ki_sess _ Hi)]; reflexivity.
    + eapply idx_sess_frame; [..|exact Hix]; reflexivity.
    + eapply one_act_frame; [|exact Hone]. reflexivity.
  - destruct (evo_step _ _ _ Hi Hstep) as [_ [E|E]]; [eapply one_act_evo; eauto|].
    (* a session was created: only MsgStart does that *)
    exfalso. unfold step in Hstep. destruct o.
    + destruct (begin_block _) as [x| |] eqn:H; try discriminate. injection Hstep as <-.
      apply begin_block_keeps in H. destruct E as [Ec _ _ _]. assert (sess_count x = sess_count s) by keeps_solve. lia.
    + unfold run_tx in Hstep. destruct (validate_basic m); [|discriminate].
      destruct (handle _ m) as [x| |] eqn:H; try discriminate. injection Hstep as <-.
      assert (Hev : sess_evo (clear_events s) x).
      { eapply sess_evo_handle_nonstart; [apply kinv_clear; exact Hi|exact H|]. intros f i n ->. eapply Hns. reflexivity. }
      destruct E as [Ec _ _ _]. destruct Hev as [Ec' _]. simpl in Ec'. lia.
    + destruct (forallb pchange_valid _); [|discriminate]. injection Hstep as <-. destruct E as [Ec _ _ _].
      assert (sess_count (fold_left apply_pchange cs (clear_events s)) = sess_count s); [|lia].
      apply (fold_left_inv (fun y => sess_count y = sess_count s)); [|reflexivity].
      intros y c Hy. pose proof (apply_pchange_keeps y c). rewrite <- Hy. keeps_solve.
    + destruct (end_block _) as [se| |] eqn:H; try discriminate. injection Hstep as <-.
      destruct E as [Ec _ _ _]. simpl in Ec.
      unfold end_block in H. apply rbind_ok in H as (s1 & H1 & H). apply rbind_ok in H as (s2 & H2 & H3).
      assert (Hi0 : kinv (clear_events s)) by (apply kinv_clear; exact Hi).
      pose proof (kinv_node_end_block _ _ Hi0 H1) as Hi1. apply node_end_block_keeps in H1.
      assert (G2 : kinv s2 /\ sess_evo s1 s2 /\ sub_evo s1 s2).
      { unfold session_end_block in H2. eapply sess_evo_rfold; [exact Hi1| |exact H2].
        intros a0 e0 b0 Ha Hs. split; [eapply kinv_session_expire_one; eauto|].
        split; [eapply evo_session_expire_one; [apply Ha|exact Hs]|eapply evo_session_expire_one_sub; eauto]. }
      destruct G2 as (Hi2 & [C2 _] & _).
      assert (G3 : kinv se /\ sess_evo s2 se /\ sub_evo s2 se).
      { unfold sub_end_block in H3. eapply sess_evo_rfold; [exact Hi2| |exact H3].
        intros a0 e0 b0 Ha Hs. split; [eapply kinv_sub_expire_one; eauto|].
        split; [eapply evo_sub_expire_one_sess; eauto|eapply evo_sub_expire_one; [apply Ha|exact Hs]]. }
      destruct G3 as (_ & [C3 _] & _).
      assert (sess_count s1 = sess_count s) by keeps_solve. lia.
Qed.

Lemma one_act_init g : one_act (init g).
Proof.
  intros i x j y Hx. exfalso. revert Hx. unfold init.
  assert (G : forall l s0, sessions s0 = ∅ -> sessions (fold_left (fun s '(a, (d, v)) => set_bal (s <| supply ::= fun c => coins_add c d v |>) a d (bal s a d + v)) l s0) = ∅).
  { induction l as [|[a [d v]] l IH]; intros s0 H0; [exact H0|]. simpl. apply IH. exact H0. }
  destruct (g_mint g) as [[[mx mn] rc] inf]. simpl. rewrite G by reflexivity. rewrite lookup_empty. discriminate.
Qed.

Theorem one_act_run ops : forall s i s', all_idx s -> one_act s -> run_from s ops i = RunOk s' -> one_act s'.
Proof.
  induction ops as [|o ops IH]; simpl; intros s i s' Hall Hone H.
  - injection H as <-. exact Hone.
  - destruct (step s o) as [s1| |] eqn:E; try discriminate.
    + eapply IH; [eapply all_idx_step; eauto|eapply one_act_step; [apply (ai_k _ Hall)|apply (ai_sess _ Hall)|exact Hone|exact E]|exact H].
    + eapply IH; [apply all_idx_clear; exact Hall|eapply one_act_frame; [|exact Hone]; reflexivity|exact H].
Qed.

(* at most one active session per (subscription, address), in every reachable state *)
Theorem one_active_session g ops s' x y :
  run (init g) ops = RunOk s' -> sessions s' !! ss_id x = Some x -> sessions s' !! ss_id y = Some y ->
  ss_status x = SActive -> ss_status y = SActive -> ss_sub x = ss_sub y -> ss_addr x = ss_addr y -> ss_id x = ss_id y.
Proof.
  intros H Hx Hy Ax Ay E1 E2.
  pose proof (one_act_run ops (init g) 0%nat s' (all_idx_init g) (one_act_init g) H) as Hone.
  pose proof (Hone _ _ _ _ Hx Hy Ax E1 E2). pose proof (Hone _ _ _ _ Hy Hx Ay (eq_sym E1) (eq_sym E2)). lia.
Qed.
