(* Proofs about Model/Paginate.v: paging with cosmos-sdk Paginate / FilteredPaginate enumerates the
   matching entries exactly once, in store order, and count_total reports their number - for every
   callback whose hit decision does not depend on [accumulate]; and the historical defect (hit
   reported only when accumulate is set) breaks it. *)
From Hub Require Import Base.Prelude Model.Paginate.
From Coq Require Import ZifyN ZifyNat ZifyBool Sorted.
Local Open Scope N_scope.

(* ------------------------------------------------------------------ key order *)

Lemma key_ltb_irrefl a : key_ltb a a = false.
Proof.
  induction a as [|x a IH]; cbn [key_ltb]; [reflexivity|].
  rewrite N.ltb_irrefl. exact IH.
Qed.

Lemma key_ltb_trans a b c : key_ltb a b = true -> key_ltb b c = true -> key_ltb a c = true.
Proof.
  revert b c. induction a as [|x a IH]; intros [|y b] [|z c]; cbn [key_ltb]; try congruence.
  destruct (N.ltb_spec x y) as [Hxy|Hxy], (N.ltb_spec y z) as [Hyz|Hyz];
    destruct (N.ltb_spec y x) as [Hyx|Hyx]; destruct (N.ltb_spec z y) as [Hzy|Hzy];
    destruct (N.ltb_spec x z) as [Hxz|Hxz]; destruct (N.ltb_spec z x) as [Hzx|Hzx];
    try congruence; try lia.
  intros Hab Hbc. exact (IH b c Hab Hbc).
Qed.

Definition key_lt {V} (a b : key * V) : Prop := key_ltb (fst a) (fst b) = true.

(* the entries of a prefix store in store order: strictly ascending keys *)
Definition key_sorted {V} (items : list (key * V)) : Prop := StronglySorted key_lt items.

Lemma sorted_key_sorted {V} (items : list (key * V)) : Sorted key_lt items -> key_sorted items.
Proof.
  apply Sorted_StronglySorted. intros a b c. unfold key_lt. apply key_ltb_trans.
Qed.

Lemma key_sorted_split {V} (A : list (key * V)) x B :
  key_sorted (A ++ x :: B) -> Forall (fun a => key_lt a x) A /\ Forall (key_lt x) B.
Proof.
  induction A as [|a A IH]; cbn [app]; intros Hs.
  - apply StronglySorted_inv in Hs as [_ Hf]. split; [constructor|exact Hf].
  - apply StronglySorted_inv in Hs as [Hs Hf].
    destruct (IH Hs) as [HA HB]. split; [|exact HB].
    constructor; [|exact HA].
    rewrite Forall_app in Hf. destruct Hf as [_ Hf]. inversion Hf; assumption.
Qed.

(* ---------------------------------------------------------------- list lemmas *)

Lemma drop_while_app_all {A} (p : A -> bool) (l : list A) x l' :
  Forall (fun a => p a = true) l -> p x = false -> drop_while p (l ++ x :: l') = x :: l'.
Proof.
  intros Hl Hx. induction Hl as [|a l Ha Hl IH]; cbn [app drop_while].
  - rewrite Hx. reflexivity.
  - rewrite Ha. exact IH.
Qed.

Lemma take_while_app_all {A} (p : A -> bool) (l : list A) x l' :
  Forall (fun a => p a = true) l -> p x = false -> take_while p (l ++ x :: l') = l.
Proof.
  intros Hl Hx. induction Hl as [|a l Ha Hl IH]; cbn [app take_while].
  - rewrite Hx. reflexivity.
  - rewrite Ha, IH. reflexivity.
Qed.

Lemma filter_split {A} (p : A -> bool) (l : list A) : forall H1 x H2,
  List.filter p l = H1 ++ x :: H2 ->
  exists P S, l = P ++ x :: S /\ List.filter p P = H1 /\ List.filter p S = H2 /\ p x = true.
Proof.
  induction l as [|a l IH]; intros H1 x H2 Heq; cbn [List.filter] in Heq.
  - destruct H1; discriminate.
  - destruct (p a) eqn:Hpa.
    + destruct H1 as [|b H1]; cbn [app] in Heq.
      * injection Heq as -> Hl. exists [], l. cbn [app List.filter]. auto.
      * injection Heq as -> Hl. destruct (IH _ _ _ Hl) as (P & S & -> & HP & HS & Hx).
        exists (b :: P), S. cbn [app List.filter]. rewrite Hpa, HP. auto.
    + destruct (IH _ _ _ Heq) as (P & S & -> & HP & HS & Hx).
      exists (a :: P), S. cbn [app List.filter]. rewrite Hpa. auto.
Qed.

Lemma filter_app' {A} (p : A -> bool) (l1 l2 : list A) :
  List.filter p (l1 ++ l2) = List.filter p l1 ++ List.filter p l2.
Proof.
  induction l1 as [|a l1 IH]; cbn [app List.filter]; [reflexivity|].
  destruct (p a); cbn [app]; rewrite IH; reflexivity.
Qed.

Lemma filter_rev' {A} (p : A -> bool) (l : list A) :
  List.filter p (rev l) = rev (List.filter p l).
Proof.
  induction l as [|a l IH]; cbn [rev List.filter]; [reflexivity|].
  rewrite filter_app', IH. cbn [List.filter]. destruct (p a); cbn [rev]; [reflexivity|].
  rewrite app_nil_r. reflexivity.
Qed.

Lemma filter_true' {A} (l : list A) : List.filter (fun _ => true) l = l.
Proof. induction l as [|a l IH]; cbn [List.filter]; [reflexivity|]. rewrite IH. reflexivity. Qed.

Lemma nth_error_split' {A} (l : list A) n x :
  nth_error l n = Some x -> exists l1 l2, l = l1 ++ x :: l2 /\ length l1 = n.
Proof. apply nth_error_split. Qed.

(* the iteration order of a request *)
Definition order {A} (rv : bool) (l : list A) : list A := if rv then rev l else l.

(* ------------------------------------------------------------------ iterators *)

Section Iter.
  Context {V : Type}.

  Lemma iter_fwd_at A k (v : V) B :
    key_sorted (A ++ (k, v) :: B) ->
    iter_from (A ++ (k, v) :: B) (Some k) false = Ok ((k, v) :: B).
  Proof.
    intros Hs. destruct (key_sorted_split _ _ _ Hs) as [HA _].
    unfold iter_from. rewrite drop_while_app_all; [reflexivity|exact HA|].
    cbn [fst]. apply key_ltb_irrefl.
  Qed.

  Lemma iter_rev_at A k (v : V) k2 v2 B :
    key_sorted (A ++ (k, v) :: (k2, v2) :: B) ->
    iter_from (A ++ (k, v) :: (k2, v2) :: B) (Some k) true = Ok ((k, v) :: rev A).
  Proof.
    intros Hs. destruct (key_sorted_split _ _ _ Hs) as [HA _].
    unfold iter_from. rewrite drop_while_app_all; [|exact HA|cbn [fst]; apply key_ltb_irrefl].
    replace (A ++ (k, v) :: (k2, v2) :: B) with ((A ++ [(k, v)]) ++ (k2, v2) :: B) in *
      by (rewrite <- app_assoc; reflexivity).
    destruct (key_sorted_split _ _ _ Hs) as [HA2 _].
    rewrite take_while_app_all; [|exact HA2|cbn [fst]; apply key_ltb_irrefl].
    rewrite rev_app_distr. reflexivity.
  Qed.

  (* positioning an iterator at an existing key that is not the first one in iteration order *)
  Lemma iter_at items rv P k (v : V) S :
    key_sorted items -> order rv items = P ++ (k, v) :: S -> P <> [] ->
    iter_from items (Some k) rv = Ok ((k, v) :: S).
  Proof.
    intros Hs Ho HP. destruct rv; cbn [order] in Ho.
    - assert (Hi : items = rev S ++ (k, v) :: rev P).
      { rewrite <- (rev_involutive items), Ho, rev_app_distr. cbn [rev].
        rewrite <- app_assoc. reflexivity. }
      destruct (rev P) as [|[k2 v2] B] eqn:HrP.
      { exfalso. apply HP. rewrite <- (rev_involutive P), HrP. reflexivity. }
      rewrite Hi in Hs |- *. rewrite (iter_rev_at _ _ _ _ _ _ Hs), rev_involutive. reflexivity.
    - rewrite Ho in Hs |- *. apply iter_fwd_at. exact Hs.
  Qed.
End Iter.

(* --------------------------------------------- single calls with a good callback *)

Lemma wrap_small n : n < u64 -> wrap n = n.
Proof. intros Hn. unfold wrap. apply N.mod_small. exact Hn. Qed.

Lemma eff_limit_pos l : 1 <= eff_limit l.
Proof. unfold eff_limit, default_limit. destruct (N.eqb_spec l 0); lia. Qed.

Section Single.
  Context {V R : Type} (h : key -> V -> bool) (f : key -> V -> R).
  Let h' (kv : key * V) : bool := h (fst kv) (snd kv).
  Let f' (kv : key * V) : R := f (fst kv) (snd kv).


  Lemma filter_hit k v it : h k v = true -> List.filter h' ((k, v) :: it) = (k, v) :: List.filter h' it.
  Proof. intros Hh. cbn [List.filter]. unfold h' at 1. cbn [fst snd]. rewrite Hh. reflexivity. Qed.

  Lemma filter_miss k v it : h k v = false -> List.filter h' ((k, v) :: it) = List.filter h' it.
  Proof. intros Hh. cbn [List.filter]. unfold h' at 1. cbn [fst snd]. rewrite Hh. reflexivity. Qed.

  (* key mode: the page holds the hits of a prefix [it1] of the iterator and next_key is the key of the
     entry right after it; or the iterator is exhausted. *)
  Lemma fp_key_loop_spec (lim : N) : lim < u64 -> forall it n, n <= lim ->
    exists page nk, fp_key_loop (good_cb h f) lim it n = Ok (page, nk) /\
      ((nk = None /\ page = map f' (List.filter h' it)) \/
       (exists it1 k v it2, it = it1 ++ (k, v) :: it2 /\ (n < lim -> it1 <> []) /\ nk = Some k /\
                            page = map f' (List.filter h' it1))).
  Proof.
    intros Hlim. induction it as [|[k v] it IH]; intros n Hn; cbn [fp_key_loop].
    - exists [], None. split; [reflexivity|]. left. split; reflexivity.
    - destruct (N.eqb_spec n lim) as [->|Hne].
      + exists [], (Some k). split; [reflexivity|]. right.
        exists [], k, v, it. cbn [app List.filter map]. repeat split; try reflexivity. lia.
      + unfold good_cb at 1. cbn [andb rbind].
        destruct (h k v) eqn:Hh.
        * rewrite wrap_small by lia.
          destruct (IH (n + 1)) as (page & nk & Heq & Hspec); [lia|].
          rewrite Heq. cbn [rbind opt_list app].
          exists (f k v :: page), nk. split; [reflexivity|].
          destruct Hspec as [[-> ->]|(it1 & k1 & v1 & it2 & -> & Hne1 & -> & ->)].
          -- left. split; [reflexivity|]. rewrite (filter_hit _ _ _ Hh). reflexivity.
          -- right. exists ((k, v) :: it1), k1, v1, it2. rewrite (filter_hit _ _ _ Hh).
             repeat split; try reflexivity. congruence.
        * destruct (IH n) as (page & nk & Heq & Hspec); [lia|].
          rewrite Heq. cbn [rbind opt_list app].
          exists page, nk. split; [reflexivity|].
          destruct Hspec as [[-> ->]|(it1 & k1 & v1 & it2 & -> & Hne1 & -> & ->)].
          -- left. split; [reflexivity|]. rewrite (filter_miss _ _ _ Hh). reflexivity.
          -- right. exists ((k, v) :: it1), k1, v1, it2. rewrite (filter_miss _ _ _ Hh).
             repeat split; try reflexivity. congruence.
  Qed.

  (* offset mode *)
  Section Off.
    Variables (o e : N) (ct : bool).
    Hypothesis Hoe : o <= e.
    Hypothesis He : e + 1 < u64.

    (* the hits with global index in [o, e), when the list starts at global index n *)
    Definition window {A} (n : N) (H : list A) : list A :=
      firstn (N.to_nat (e - N.max n o)) (skipn (N.to_nat (o - n)) H).

    Lemma window_cons {A} n (x : A) H :
      window n (x :: H) = (if (o <=? n) && (n <? e) then [x] else []) ++ window (n + 1) H.
    Proof.
      unfold window.
      destruct (N.leb_spec o n) as [Hon|Hon]; destruct (N.ltb_spec n e) as [Hne|Hne]; cbn [andb app].
      - replace (N.to_nat (o - n)) with 0%nat by lia.
        replace (N.to_nat (o - (n + 1))) with 0%nat by lia.
        replace (N.to_nat (e - N.max n o)) with (S (N.to_nat (e - N.max (n + 1) o))) by lia.
        reflexivity.
      - replace (N.to_nat (e - N.max n o)) with 0%nat by lia.
        replace (N.to_nat (e - N.max (n + 1) o)) with 0%nat by lia.
        reflexivity.
      - replace (N.to_nat (o - n)) with (S (N.to_nat (o - (n + 1)))) by lia.
        replace (N.max (n + 1) o) with (N.max n o) by lia.
        reflexivity.
      - lia.
    Qed.

    Definition nk_spec (n : N) (nk : option key) (H : list (key * V)) : option key :=
      if n <=? e then option_map fst (nth_error H (N.to_nat (e - n))) else nk.

    Lemma fp_off_loop_spec : forall it n nk,
      (n <= e -> nk = None) -> (e < n -> nk <> None) -> n + N.of_nat (length it) < u64 ->
      exists n', fp_off_loop (good_cb h f) o e ct it n nk =
                   Ok (map f' (window n (List.filter h' it)), nk_spec n nk (List.filter h' it), n') /\
                 (ct = true -> n' = n + N.of_nat (length (List.filter h' it))).
    Proof.
      induction it as [|[k v] it IH]; intros n nk Hnk1 Hnk2 Hlen; cbn [fp_off_loop].
      - cbn [List.filter]. exists n. split; [|cbn [length]; lia].
        unfold window, nk_spec. rewrite skipn_nil, firstn_nil. cbn [map].
        destruct (N.leb_spec n e) as [Hn|Hn].
        + rewrite (Hnk1 Hn). destruct (N.to_nat (e - n)); reflexivity.
        + reflexivity.
      - cbn [length] in Hlen. unfold good_cb at 1. cbn [rbind].
        rewrite (wrap_small (e + 1)) by exact He.
        destruct (h k v) eqn:Hh.
        + rewrite (filter_hit _ _ _ Hh). rewrite wrap_small by lia. rewrite andb_true_r.
          rewrite window_cons.
          destruct (N.eqb_spec (n + 1) (e + 1)) as [Heq|Hneq].
          * assert (n = e) as -> by lia.
            rewrite (Hnk1 (N.le_refl e)).
            replace ((o <=? e) && (e <? e)) with false
              by (destruct (N.ltb_spec e e); [lia|rewrite andb_false_r; reflexivity]).
            cbn [opt_list app].
            destruct ct.
            -- destruct (IH (e + 1) (Some k)) as (n' & Heq' & Hn'); [lia|congruence|lia|].
               rewrite Heq'. cbn [rbind]. exists n'. split.
               ++ unfold nk_spec. destruct (N.leb_spec (e + 1) e); [lia|].
                  rewrite N.leb_refl, N.sub_diag. reflexivity.
               ++ intros _. cbn [length]. rewrite Hn' by reflexivity. lia.
            -- exists (e + 1). split; [|discriminate].
               unfold nk_spec. rewrite N.leb_refl, N.sub_diag. cbn [nth_error option_map fst].
               unfold window. replace (N.to_nat (e - N.max (e + 1) o)) with 0%nat by lia.
               reflexivity.
          * destruct (IH (n + 1) nk) as (n' & Heq' & Hn'); [intros; apply Hnk1; lia|intros; apply Hnk2; lia|lia|].
            rewrite Heq'. cbn [rbind]. exists n'. split.
            -- f_equal. f_equal. f_equal.
               ++ rewrite map_app. f_equal.
                  destruct ((o <=? n) && (n <? e)); reflexivity.
               ++ unfold nk_spec.
                  destruct (N.leb_spec n e) as [Hn|Hn]; destruct (N.leb_spec (n + 1) e) as [Hn1|Hn1]; try lia.
                  ** replace (N.to_nat (e - n)) with (S (N.to_nat (e - (n + 1)))) by lia. reflexivity.
                  ** reflexivity.
            -- intros Hct. cbn [length]. rewrite (Hn' Hct). lia.
        + rewrite (filter_miss _ _ _ Hh). rewrite andb_false_r. cbn [opt_list app].
          destruct (N.eqb_spec n (e + 1)) as [Heq|Hneq].
          * assert (Hnk : match nk with None => Some k | Some _ => nk end = nk).
            { destruct nk; [reflexivity|]. exfalso. apply Hnk2; [lia|reflexivity]. }
            rewrite Hnk.
            destruct ct.
            -- destruct (IH n nk) as (n' & Heq' & Hn'); [exact Hnk1|exact Hnk2|lia|].
               rewrite Heq'. cbn [rbind]. exists n'. split; [reflexivity|exact Hn'].
            -- exists n. split; [|discriminate].
               unfold nk_spec, window. destruct (N.leb_spec n e); [lia|].
               replace (N.to_nat (e - N.max n o)) with 0%nat by lia. reflexivity.
          * destruct (IH n nk) as (n' & Heq' & Hn'); [exact Hnk1|exact Hnk2|lia|].
            rewrite Heq'. cbn [rbind]. exists n'. split; [reflexivity|exact Hn'].
    Qed.
  End Off.

  (* a whole offset-mode call from the start of the iterator *)
  Lemma fp_off_start (ORD : list (key * V)) o L ct :
    1 <= L -> o + L + 1 < u64 -> N.of_nat (length ORD) < u64 ->
    let H := List.filter h' ORD in
    exists n', fp_off_loop (good_cb h f) o (wrap (o + L)) ct ORD 0 None =
                 Ok (map f' (firstn (N.to_nat L) (skipn (N.to_nat o) H)),
                     option_map fst (nth_error H (N.to_nat (o + L))), n') /\
               (ct = true -> n' = N.of_nat (length H)).
  Proof.
    intros HL Hw Hlen H. rewrite wrap_small by lia.
    destruct (fp_off_loop_spec o (o + L) ct ltac:(lia) ltac:(lia) ORD 0 None) as (n' & Heq & Hn');
      [reflexivity|lia|lia|].
    exists n'. split; [|intros Hct; rewrite (Hn' Hct); fold H; lia].
    rewrite Heq. fold H. unfold window, nk_spec.
    replace (N.to_nat (o + L - N.max 0 o)) with (N.to_nat L) by lia.
    replace (N.to_nat (o - 0)) with (N.to_nat o) by lia.
    replace (0 <=? o + L) with true by (symmetry; apply N.leb_le; lia).
    replace (N.to_nat (o + L - 0)) with (N.to_nat (o + L)) by lia.
    reflexivity.
  Qed.

  Lemma filtered_offset_call items o l ct rv :
    o + eff_limit l + 1 < u64 -> N.of_nat (length items) < u64 ->
    let H := List.filter h' (order rv items) in
    filtered_paginate (good_cb h f) items (mk_req None o l ct rv) =
      Ok (map f' (firstn (N.to_nat (eff_limit l)) (skipn (N.to_nat o) H)),
          mk_resp (option_map fst (nth_error H (N.to_nat (o + eff_limit l))))
                  (if (l =? 0) || ct then N.of_nat (length H) else 0)).
  Proof.
    intros Hw Hlen H. unfold filtered_paginate. cbn [pr_key pr_offset pr_limit pr_count_total pr_reverse].
    rewrite andb_false_r.
    assert (Hord : N.of_nat (length (order rv items)) < u64).
    { destruct rv; cbn [order]; [rewrite rev_length|]; exact Hlen. }
    assert (Hit : iter_from items None rv = Ok (order rv items)) by reflexivity.
    pose proof (eff_limit_pos l) as Hpos.
    unfold eff_limit in *. destruct (N.eqb_spec l 0) as [->|Hl0]; cbn [orb].
    - rewrite Hit. cbn [rbind].
      destruct (fp_off_start (order rv items) o default_limit true Hpos Hw Hord) as (n' & Heq & Hn').
      rewrite Heq. cbn [rbind]. rewrite (Hn' eq_refl). reflexivity.
    - rewrite Hit. cbn [rbind].
      destruct (fp_off_start (order rv items) o l ct Hpos Hw Hord) as (n' & Heq & Hn').
      rewrite Heq. cbn [rbind]. destruct ct; [rewrite (Hn' eq_refl)|]; reflexivity.
  Qed.

  Lemma filtered_key_call items l ct rv P k v S :
    key_sorted items -> k <> [] -> eff_limit l < u64 ->
    order rv items = P ++ (k, v) :: S -> P <> [] ->
    exists page nk,
      filtered_paginate (good_cb h f) items (mk_req (Some k) 0 l ct rv) = Ok (page, mk_resp nk 0) /\
      ((nk = None /\ page = map f' (List.filter h' ((k, v) :: S))) \/
       (exists it1 k' v' it2, (k, v) :: S = it1 ++ (k', v') :: it2 /\ it1 <> [] /\ nk = Some k' /\
                              page = map f' (List.filter h' it1))).
  Proof.
    intros Hs Hk Hw Ho HP. unfold filtered_paginate.
    cbn [pr_key pr_offset pr_limit pr_count_total pr_reverse].
    replace (0 <? 0) with false by reflexivity. cbn [andb].
    destruct k as [|b kt]; [contradiction|].
    pose proof (eff_limit_pos l) as Hpos.
    assert (Hgen : forall lim c, 1 <= lim -> lim < u64 ->
      exists page nk,
        (let! it := iter_from items (Some (b :: kt)) rv in
         let! '(page, nk) := fp_key_loop (good_cb h f) lim it 0 in Ok (page, mk_resp nk (c : N))) =
          Ok (page, mk_resp nk c) /\
        ((nk = None /\ page = map f' (List.filter h' ((b :: kt, v) :: S))) \/
         (exists it1 k' v' it2, (b :: kt, v) :: S = it1 ++ (k', v') :: it2 /\ it1 <> [] /\ nk = Some k' /\
                                page = map f' (List.filter h' it1)))).
    { intros lim c Hl1 Hl2.
      destruct (fp_key_loop_spec lim Hl2 ((b :: kt, v) :: S) 0 ltac:(lia)) as (page & nk & Heq & Hspec).
      exists page, nk. split.
      { rewrite (iter_at items rv P _ v S Hs Ho HP). cbn [rbind]. rewrite Heq. reflexivity. }
      destruct Hspec as [Hl|(it1 & k1 & v1 & it2 & Hit & Hne & Hnk & Hpg)]; [left; exact Hl|right].
      exists it1, k1, v1, it2. repeat split; try assumption. apply Hne. lia. }
    unfold eff_limit in *. destruct (N.eqb_spec l 0) as [->|Hl0].
    - apply Hgen; assumption.
    - apply Hgen; assumption.
  Qed.
End Single.

(* ---------------------------------------- Paginate is FilteredPaginate with "always hit" *)

Ltac destr_loop :=
  match goal with
  | |- context [fp_off_loop ?a ?b ?c ?d ?e ?f ?g] =>
      destruct (fp_off_loop a b c d e f g) as [[[? ?] ?]| |]; reflexivity
  | |- context [fp_key_loop ?a ?b ?c ?d] =>
      destruct (fp_key_loop a b c d) as [[? ?]| |]; reflexivity
  end.

Section PaginateAsFiltered.
  Context {V R : Type} (f : key -> V -> R).
  Let yes : key -> V -> bool := fun _ _ => true.

  Lemma good_yes k v acc : good_cb yes f k v acc = Ok (true, if acc : bool then Some (f k v) else None).
  Proof. unfold good_cb, yes. rewrite andb_true_r. reflexivity. Qed.

  Lemma pg_key_loop_eq lim it n :
    pg_key_loop (total_cb f) lim it n = fp_key_loop (good_cb yes f) lim it n.
  Proof.
    revert n. induction it as [|[k v] it IH]; intros n; cbn [pg_key_loop fp_key_loop]; [reflexivity|].
    destruct (n =? lim); [reflexivity|].
    rewrite good_yes. unfold total_cb at 1. cbn [rbind andb opt_list app].
    rewrite IH. destr_loop.
  Qed.

  Lemma pg_off_loop_eq o e ct : o <= e -> e + 1 < u64 -> forall it n nk,
    (n <= e -> nk = None) -> n + N.of_nat (length it) < u64 ->
    pg_off_loop (total_cb f) o e ct it n nk = fp_off_loop (good_cb yes f) o e ct it n nk.
  Proof.
    intros Hoe He. induction it as [|[k v] it IH]; intros n nk Hnk Hlen;
      cbn [pg_off_loop fp_off_loop]; [reflexivity|].
    cbn [length] in Hlen.
    rewrite good_yes. unfold total_cb at 1. cbn [rbind].
    rewrite (wrap_small (n + 1)) by lia. rewrite (wrap_small (e + 1)) by exact He.
    destruct (N.leb_spec (n + 1) o) as [H1|H1].
    - replace (o <=? n) with false by (symmetry; apply N.leb_gt; lia). cbn [andb opt_list app].
      replace (n + 1 =? e + 1) with false by (symmetry; apply N.eqb_neq; lia).
      rewrite IH by (try lia; intros; apply Hnk; lia).
      destr_loop.
    - replace (o <=? n) with true by (symmetry; apply N.leb_le; lia). cbn [andb].
      destruct (N.leb_spec (n + 1) e) as [H2|H2].
      + replace (n <? e) with true by (symmetry; apply N.ltb_lt; lia). cbn [opt_list app].
        replace (n + 1 =? e + 1) with false by (symmetry; apply N.eqb_neq; lia).
        rewrite IH by (try lia; intros; apply Hnk; lia).
        destr_loop.
      + replace (n <? e) with false by (symmetry; apply N.ltb_ge; lia). cbn [opt_list app].
        destruct (N.eqb_spec (n + 1) (e + 1)) as [H3|H3].
        * rewrite (Hnk ltac:(lia)).
          destruct ct; [|reflexivity].
          rewrite IH by (try lia; intros; lia).
          destr_loop.
        * rewrite IH by (try lia; intros; lia).
          destr_loop.
  Qed.

  Lemma paginate_as_filtered items req :
    pr_offset req + eff_limit (pr_limit req) + 1 < u64 -> N.of_nat (length items) < u64 ->
    paginate (total_cb f) items req = filtered_paginate (good_cb yes f) items req.
  Proof.
    intros Hw Hlen. unfold paginate, filtered_paginate.
    destruct ((0 <? pr_offset req) && match pr_key req with Some _ => true | None => false end);
      [reflexivity|].
    pose proof (eff_limit_pos (pr_limit req)) as Hpos.
    assert (Hgen : forall lim c, 1 <= lim -> pr_offset req + lim + 1 < u64 ->
      (let! it := iter_from items None (pr_reverse req) in
       let! '(page, nk, n) := pg_off_loop (total_cb f) (pr_offset req) (wrap (pr_offset req + lim)) c it 0 None in
       Ok (page, mk_resp nk (if c then n else 0))) =
      (let! it := iter_from items None (pr_reverse req) in
       let! '(page, nk, n) := fp_off_loop (good_cb yes f) (pr_offset req) (wrap (pr_offset req + lim)) c it 0 None in
       Ok (page, mk_resp nk (if c then n else 0)))).
    { intros lim c Hl1 Hl2. unfold iter_from. cbn [rbind].
      rewrite wrap_small by lia.
      rewrite pg_off_loop_eq; [reflexivity|lia|lia|reflexivity|].
      destruct (pr_reverse req); [rewrite rev_length|]; lia. }
    unfold eff_limit in *.
    destruct (pr_limit req =? 0).
    - destruct (pr_key req) as [[|b kt]|].
      + apply Hgen; assumption.
      + destruct (iter_from items (Some (b :: kt)) (pr_reverse req)) as [it| |]; cbn [rbind];
          [rewrite pg_key_loop_eq|..]; reflexivity.
      + apply Hgen; assumption.
    - destruct (pr_key req) as [[|b kt]|].
      + apply Hgen; assumption.
      + destruct (iter_from items (Some (b :: kt)) (pr_reverse req)) as [it| |]; cbn [rbind];
          [rewrite pg_key_loop_eq|..]; reflexivity.
      + apply Hgen; assumption.
  Qed.
End PaginateAsFiltered.

(* ------------------------------------------------------------------ clients *)

Lemma skipn_add {A} (a b : nat) (l : list A) : skipn (a + b) l = skipn b (skipn a l).
Proof.
  revert l. induction a as [|a IH]; intros l; [reflexivity|].
  destruct l as [|x l]; cbn [Nat.add skipn]; [rewrite skipn_nil; reflexivity|apply IH].
Qed.

Lemma filter_length_le' {A} (p : A -> bool) (l : list A) : (length (List.filter p l) <= length l)%nat.
Proof.
  induction l as [|a l IH]; cbn [List.filter length]; [lia|]. destruct (p a); cbn [length]; lia.
Qed.

Lemma follow_keys_length {R} fuel (q : page_request -> res (list R * page_response)) : forall req pages,
  follow_keys fuel q req = Some pages -> (length pages <= fuel)%nat.
Proof.
  induction fuel as [|fuel IH]; intros req pages; cbn [follow_keys]; [discriminate|].
  destruct (q req) as [[page resp]| |]; try discriminate.
  destruct (next_key resp) as [[|b kt]|].
  - intros [= <-]. cbn [length]. lia.
  - destruct (follow_keys fuel q _) as [ps|] eqn:Hf; cbn [option_map]; [|discriminate].
    intros [= <-]. cbn [length]. apply IH in Hf. lia.
  - intros [= <-]. cbn [length]. lia.
Qed.

Lemma follow_keys_mono {R} fuel (q : page_request -> res (list R * page_response)) : forall req pages,
  follow_keys fuel q req = Some pages -> forall fuel', (fuel <= fuel')%nat -> follow_keys fuel' q req = Some pages.
Proof.
  induction fuel as [|fuel IH]; intros req pages; cbn [follow_keys]; [discriminate|].
  intros Hf [|fuel'] Hle; [lia|]. cbn [follow_keys].
  destruct (q req) as [[page resp]| |]; try discriminate.
  destruct (next_key resp) as [[|b kt]|]; try exact Hf.
  destruct (follow_keys fuel q _) as [ps|] eqn:Hf'; cbn [option_map] in Hf; [|discriminate].
  rewrite (IH _ _ Hf' fuel') by lia. exact Hf.
Qed.

Section Client.
  Context {V R : Type} (items : list (key * V)) (h' : key * V -> bool) (f' : key * V -> R)
          (l : N) (ct rv : bool) (q : page_request -> res (list R * page_response)).
  Let L := eff_limit l.
  Let ORD := order rv items.
  Let H := List.filter h' ORD.

  Hypothesis Hne : Forall (fun kv => fst kv <> []) items.
  Hypothesis q_off : forall o, o <= N.of_nat (length H) ->
    exists t, q (mk_req None o l ct rv) =
      Ok (map f' (firstn (N.to_nat L) (skipn (N.to_nat o) H)),
          mk_resp (option_map fst (nth_error H (N.to_nat (o + L)))) t).
  Hypothesis q_key : forall P k v S, ORD = P ++ (k, v) :: S -> P <> [] ->
    exists page nk, q (mk_req (Some k) 0 l ct rv) = Ok (page, mk_resp nk 0) /\
      ((nk = None /\ page = map f' (List.filter h' ((k, v) :: S))) \/
       (exists it1 k' v' it2, (k, v) :: S = it1 ++ (k', v') :: it2 /\ it1 <> [] /\ nk = Some k' /\
                              page = map f' (List.filter h' it1))).

  Lemma L_pos : 1 <= L.
  Proof. apply eff_limit_pos. Qed.

  Lemma ORD_ne : Forall (fun kv => fst kv <> []) ORD.
  Proof.
    unfold ORD, order. destruct rv; [|exact Hne].
    apply List.Forall_rev. exact Hne.
  Qed.

  Lemma ORD_length : length ORD = length items.
  Proof. unfold ORD, order. destruct rv; [apply rev_length|reflexivity]. Qed.

  Lemma H_length : (length H <= length items)%nat.
  Proof. rewrite <- ORD_length. apply filter_length_le'. Qed.

  Lemma follow_from_key : forall fuel P k v S,
    ORD = P ++ (k, v) :: S -> P <> [] -> (length S < fuel)%nat ->
    exists pages, follow_keys fuel q (mk_req (Some k) 0 l ct rv) = Some pages /\
                  concat pages = map f' (List.filter h' ((k, v) :: S)).
  Proof.
    induction fuel as [|fuel IH]; intros P k v S Ho HP Hlen; [lia|].
    cbn [follow_keys].
    destruct (q_key P k v S Ho HP) as (page & nk & Hq & Hs). rewrite Hq. cbn [next_key].
    destruct Hs as [[-> ->]|(it1 & k' & v' & it2 & Hit & Hne1 & -> & ->)].
    - eexists. split; [reflexivity|]. cbn [concat]. apply app_nil_r.
    - assert (Ho' : ORD = (P ++ it1) ++ (k', v') :: it2).
      { rewrite Ho, Hit, app_assoc. reflexivity. }
      assert (Hk' : k' <> []).
      { pose proof ORD_ne as Hn. rewrite Ho' in Hn. apply Forall_app in Hn as [_ Hn].
        apply Forall_inv in Hn. exact Hn. }
      destruct k' as [|b kt]; [contradiction|].
      change (mk_req (Some k) 0 l ct rv <| pr_key := Some (b :: kt) |>)
        with (mk_req (Some (b :: kt)) 0 l ct rv).
      destruct (IH (P ++ it1) (b :: kt) v' it2 Ho') as (pages & Hf & Hc).
      { intros Happ. apply app_eq_nil in Happ as [? _]. contradiction. }
      { apply (f_equal (@length _)) in Hit. rewrite app_length in Hit. cbn [length] in Hit.
        destruct it1; [contradiction|cbn [length] in Hit; lia]. }
      rewrite Hf. cbn [option_map]. eexists. split; [reflexivity|].
      cbn [concat]. rewrite Hc, Hit, filter_app', map_app. reflexivity.
  Qed.

  (* (a) following next_key from an empty key until it comes back empty *)
  Theorem follow_complete :
    exists pages, (forall fuel, (length items < fuel)%nat ->
                     follow_keys fuel q (mk_req None 0 l ct rv) = Some pages) /\
                  concat pages = map f' H /\ (length pages <= S (length items))%nat.
  Proof.
    assert (Hmain : exists pages, follow_keys (S (length items)) q (mk_req None 0 l ct rv) = Some pages /\
                                  concat pages = map f' H).
    { cbn [follow_keys].
      destruct (q_off 0 ltac:(lia)) as (t & Hq). rewrite Hq. cbn [next_key].
      replace (N.to_nat 0) with 0%nat by reflexivity. rewrite skipn_O.
      replace (N.to_nat (0 + L)) with (N.to_nat L) by lia.
      destruct (nth_error H (N.to_nat L)) as [[k' v']|] eqn:Hnth; cbn [option_map fst].
      - destruct (nth_error_split _ _ Hnth) as (H1 & H2 & HH & HlenH1).
        destruct (filter_split h' ORD H1 (k', v') H2 HH) as (P & S & Ho & HP & HS & Hx).
        assert (Hk' : k' <> []).
        { pose proof ORD_ne as Hn. rewrite Ho in Hn. apply Forall_app in Hn as [_ Hn].
          apply Forall_inv in Hn. exact Hn. }
        destruct k' as [|b kt]; [contradiction|].
        change (mk_req None 0 l ct rv <| pr_key := Some (b :: kt) |>)
          with (mk_req (Some (b :: kt)) 0 l ct rv).
        pose proof L_pos as HL.
        assert (HPne : P <> []).
        { intros ->. cbn [List.filter] in HP. subst H1. cbn [length] in HlenH1. lia. }
        destruct (follow_from_key (length items) P (b :: kt) v' S Ho HPne) as (pages & Hf & Hc).
        { pose proof ORD_length as Hol. rewrite Ho, app_length in Hol. cbn [length] in Hol.
          destruct P; [contradiction|cbn [length] in Hol; lia]. }
        rewrite Hf. cbn [option_map]. eexists. split; [reflexivity|].
        cbn [concat]. rewrite Hc, HH.
        replace (N.to_nat L) with (length H1 + 0)%nat by lia.
        rewrite firstn_app_2. cbn [firstn]. rewrite app_nil_r.
        cbn [List.filter]. rewrite Hx, HS, map_app. reflexivity.
      - eexists. split; [reflexivity|]. cbn [concat]. rewrite app_nil_r.
        apply nth_error_None in Hnth. rewrite firstn_all2 by exact Hnth. reflexivity. }
    destruct Hmain as (pages & Hf & Hc). exists pages. split; [|split].
    - intros fuel Hfuel. apply (follow_keys_mono _ _ _ _ Hf). lia.
    - exact Hc.
    - apply (follow_keys_length _ _ _ _ Hf).
  Qed.

  (* (b) stepping the offset by the limit until a page is short *)
  Lemma step_from : forall fuel o, o <= N.of_nat (length H) -> (length H - N.to_nat o < fuel)%nat ->
    exists pages, step_offsets fuel q (mk_req None 0 l ct rv) L o = Some pages /\
                  concat pages = map f' (skipn (N.to_nat o) H).
  Proof.
    pose proof L_pos as HL.
    induction fuel as [|fuel IH]; intros o Ho Hfuel; [lia|].
    cbn [step_offsets].
    change (mk_req None 0 l ct rv <| pr_offset := o |>) with (mk_req None o l ct rv).
    destruct (q_off o Ho) as (t & Hq). rewrite Hq.
    rewrite map_length, firstn_length, skipn_length.
    destruct (N.ltb_spec (N.of_nat (Nat.min (N.to_nat L) (length H - N.to_nat o))) L) as [Hshort|Hfull].
    - eexists. split; [reflexivity|]. cbn [concat]. rewrite app_nil_r.
      rewrite firstn_all2; [reflexivity|]. rewrite skipn_length. lia.
    - destruct (IH (o + L)) as (pages & Hf & Hc); [lia|lia|].
      rewrite Hf. cbn [option_map]. eexists. split; [reflexivity|].
      cbn [concat]. rewrite Hc.
      replace (N.to_nat (o + L)) with (N.to_nat o + N.to_nat L)%nat by lia.
      rewrite skipn_add, <- map_app, firstn_skipn. reflexivity.
  Qed.

  Theorem step_complete : forall fuel, (length items < fuel)%nat ->
    exists pages, step_offsets fuel q (mk_req None 0 l ct rv) L 0 = Some pages /\ concat pages = map f' H.
  Proof.
    intros fuel Hfuel. pose proof H_length as HH.
    destruct (step_from fuel 0) as (pages & Hf & Hc); [lia|lia|].
    exists pages. split; [exact Hf|exact Hc].
  Qed.

  (* (b') stepping the offset by the limit until no next_key comes back *)
  Lemma step_nk_from : forall fuel o, o <= N.of_nat (length H) -> (length H - N.to_nat o < fuel)%nat ->
    exists pages, step_offsets_nk fuel q (mk_req None 0 l ct rv) L o = Some pages /\
                  concat pages = map f' (skipn (N.to_nat o) H).
  Proof.
    pose proof L_pos as HL.
    induction fuel as [|fuel IH]; intros o Ho Hfuel; [lia|].
    cbn [step_offsets_nk].
    change (mk_req None 0 l ct rv <| pr_offset := o |>) with (mk_req None o l ct rv).
    destruct (q_off o Ho) as (t & Hq). rewrite Hq. cbn [next_key].
    destruct (nth_error H (N.to_nat (o + L))) as [[k' v']|] eqn:Hnth; cbn [option_map fst].
    - assert (Hlt : (N.to_nat (o + L) < length H)%nat) by (apply nth_error_Some; congruence).
      assert (Hk' : k' <> []).
      { apply nth_error_In in Hnth. unfold H in Hnth. apply filter_In in Hnth as [Hin _].
        pose proof ORD_ne as Hn. rewrite List.Forall_forall in Hn. exact (Hn _ Hin). }
      destruct k' as [|b kt]; [contradiction|].
      destruct (IH (o + L)) as (pages & Hf & Hc); [lia|lia|].
      rewrite Hf. cbn [option_map]. eexists. split; [reflexivity|].
      cbn [concat]. rewrite Hc.
      replace (N.to_nat (o + L)) with (N.to_nat o + N.to_nat L)%nat by lia.
      rewrite skipn_add, <- map_app, firstn_skipn. reflexivity.
    - apply nth_error_None in Hnth.
      eexists. split; [reflexivity|]. cbn [concat]. rewrite app_nil_r.
      rewrite firstn_all2; [reflexivity|]. rewrite skipn_length. lia.
  Qed.

  Theorem step_nk_complete : forall fuel, (length items < fuel)%nat ->
    exists pages, step_offsets_nk fuel q (mk_req None 0 l ct rv) L 0 = Some pages /\ concat pages = map f' H.
  Proof.
    intros fuel Hfuel. pose proof H_length as HH.
    destruct (step_nk_from fuel 0) as (pages & Hf & Hc); [lia|lia|].
    exists pages. split; [exact Hf|exact Hc].
  Qed.
End Client.

(* ------------------------------------------------------- the statement of C13 *)

(* [q] pages [expected] completely: with limit [l] (0 = default 100), count_total [ct], direction [rv],
   for a store of [n] entries:
   (a) following next_key from the empty key until it is empty terminates after at most n+1 requests and
       the pages concatenate to [expected];
   (b) stepping offset = 0, L, 2L, ... until a page has fewer than L elements - or until no next_key is
       returned - gives the same concatenation;
   (c) every offset-mode request with count_total set (or limit 0) reports total = |expected|. *)
Definition pages_completely {R} (q : page_request -> res (list R * page_response))
    (l : N) (ct rv : bool) (n : nat) (expected : list R) : Prop :=
  (exists pages, (forall fuel, (n < fuel)%nat -> follow_keys fuel q (mk_req None 0 l ct rv) = Some pages) /\
                 concat pages = expected /\ (length pages <= S n)%nat) /\
  (forall fuel, (n < fuel)%nat ->
     exists pages, step_offsets fuel q (mk_req None 0 l ct rv) (eff_limit l) 0 = Some pages /\
                   concat pages = expected) /\
  (forall fuel, (n < fuel)%nat ->
     exists pages, step_offsets_nk fuel q (mk_req None 0 l ct rv) (eff_limit l) 0 = Some pages /\
                   concat pages = expected) /\
  (forall o, o <= N.of_nat (length expected) -> (l =? 0) || ct = true ->
     exists page nk, q (mk_req None o l ct rv) = Ok (page, mk_resp nk (N.of_nat (length expected)))).

(* no uint64 wrap-around in [offset + limit + 1] for any offset up to the size of the store *)
Definition no_wrap {V} (items : list (key * V)) (l : N) : Prop :=
  N.of_nat (length items) + eff_limit l + 1 < u64.

Definition keys_nonempty {V} (items : list (key * V)) : Prop := Forall (fun kv => fst kv <> []) items.

Lemma order_filter {A} (p : A -> bool) rv (l : list A) :
  List.filter p (order rv l) = order rv (List.filter p l).
Proof. destruct rv; cbn [order]; [apply filter_rev'|reflexivity]. Qed.

Lemma order_in {A} rv (l : list A) x : In x (order rv l) -> In x l.
Proof. destruct rv; cbn [order]; [rewrite <- in_rev|]; auto. Qed.

Section Instances.
  Context {V R : Type} (h : key -> V -> bool) (f : key -> V -> R).
  Let h' (kv : key * V) : bool := h (fst kv) (snd kv).
  Let f' (kv : key * V) : R := f (fst kv) (snd kv).

  Theorem filtered_pages_completely items l ct rv :
    key_sorted items -> keys_nonempty items -> no_wrap items l ->
    pages_completely (filtered_paginate (good_cb h f) items) l ct rv (length items)
                     (map f' (order rv (List.filter h' items))).
  Proof.
    intros Hs Hne Hw. unfold no_wrap in Hw. rewrite <- order_filter.
    assert (HlenH : (length (List.filter h' (order rv items)) <= length items)%nat).
    { etransitivity; [apply filter_length_le'|]. destruct rv; cbn [order]; [rewrite rev_length|]; lia. }
    assert (Hoff : forall o, o <= N.of_nat (length (List.filter h' (order rv items))) ->
      filtered_paginate (good_cb h f) items (mk_req None o l ct rv) =
      Ok (map f' (firstn (N.to_nat (eff_limit l)) (skipn (N.to_nat o) (List.filter h' (order rv items)))),
          mk_resp (option_map fst (nth_error (List.filter h' (order rv items)) (N.to_nat (o + eff_limit l))))
                  (if (l =? 0) || ct then N.of_nat (length (List.filter h' (order rv items))) else 0))).
    { intros o Ho. apply (filtered_offset_call h f items o l ct rv); lia. }
    assert (Hkey : forall P k v S, order rv items = P ++ (k, v) :: S -> P <> [] ->
      exists page nk, filtered_paginate (good_cb h f) items (mk_req (Some k) 0 l ct rv) = Ok (page, mk_resp nk 0) /\
        ((nk = None /\ page = map f' (List.filter h' ((k, v) :: S))) \/
         (exists it1 k' v' it2, (k, v) :: S = it1 ++ (k', v') :: it2 /\ it1 <> [] /\ nk = Some k' /\
                                page = map f' (List.filter h' it1)))).
    { intros P k v S Ho HP. apply (filtered_key_call h f items l ct rv P k v S Hs); try assumption; [|lia].
      unfold keys_nonempty in Hne. rewrite List.Forall_forall in Hne.
      apply (Hne (k, v)). apply (order_in rv). rewrite Ho. apply in_or_app. right. left. reflexivity. }
    assert (Hoff' : forall o, o <= N.of_nat (length (List.filter h' (order rv items))) ->
      exists t, filtered_paginate (good_cb h f) items (mk_req None o l ct rv) =
      Ok (map f' (firstn (N.to_nat (eff_limit l)) (skipn (N.to_nat o) (List.filter h' (order rv items)))),
          mk_resp (option_map fst (nth_error (List.filter h' (order rv items)) (N.to_nat (o + eff_limit l)))) t)).
    { intros o Ho. eexists. apply (Hoff o Ho). }
    split; [|split; [|split]].
    - apply (follow_complete items h' f' l ct rv); assumption.
    - apply (step_complete items h' f' l ct rv); assumption.
    - apply (step_nk_complete items h' f' l ct rv); assumption.
    - intros o Ho Hct. rewrite map_length in *. rewrite (Hoff o Ho), Hct. eexists. eexists. reflexivity.
  Qed.

  Theorem paginate_pages_completely items l ct rv :
    key_sorted items -> keys_nonempty items -> no_wrap items l ->
    pages_completely (paginate (total_cb f) items) l ct rv (length items) (map f' (order rv items)).
  Proof.
    intros Hs Hne Hw. unfold no_wrap in Hw.
    set (yes := fun (_ : key) (_ : V) => true).
    set (y' := fun kv : key * V => yes (fst kv) (snd kv)).
    assert (Hall : forall X : list (key * V), List.filter y' X = X).
    { intros X. apply filter_true'. }
    assert (Hlen : length (order rv items) = length items).
    { destruct rv; cbn [order]; [apply rev_length|reflexivity]. }
    assert (Hoff : forall o, o <= N.of_nat (length (List.filter y' (order rv items))) ->
      paginate (total_cb f) items (mk_req None o l ct rv) =
      Ok (map f' (firstn (N.to_nat (eff_limit l)) (skipn (N.to_nat o) (List.filter y' (order rv items)))),
          mk_resp (option_map fst (nth_error (List.filter y' (order rv items)) (N.to_nat (o + eff_limit l))))
                  (if (l =? 0) || ct then N.of_nat (length (List.filter y' (order rv items))) else 0))).
    { intros o Ho. rewrite Hall, Hlen in Ho.
      rewrite paginate_as_filtered by (cbn [pr_offset pr_limit]; lia).
      apply (filtered_offset_call yes f items o l ct rv); lia. }
    assert (Hkey : forall P k v S, order rv items = P ++ (k, v) :: S -> P <> [] ->
      exists page nk, paginate (total_cb f) items (mk_req (Some k) 0 l ct rv) = Ok (page, mk_resp nk 0) /\
        ((nk = None /\ page = map f' (List.filter y' ((k, v) :: S))) \/
         (exists it1 k' v' it2, (k, v) :: S = it1 ++ (k', v') :: it2 /\ it1 <> [] /\ nk = Some k' /\
                                page = map f' (List.filter y' it1)))).
    { intros P k v S Ho HP.
      rewrite paginate_as_filtered by (cbn [pr_offset pr_limit]; lia).
      apply (filtered_key_call yes f items l ct rv P k v S Hs); try assumption; [|lia].
      unfold keys_nonempty in Hne. rewrite List.Forall_forall in Hne.
      apply (Hne (k, v)). apply (order_in rv). rewrite Ho. apply in_or_app. right. left. reflexivity. }
    assert (Hoff' : forall o, o <= N.of_nat (length (List.filter y' (order rv items))) ->
      exists t, paginate (total_cb f) items (mk_req None o l ct rv) =
      Ok (map f' (firstn (N.to_nat (eff_limit l)) (skipn (N.to_nat o) (List.filter y' (order rv items)))),
          mk_resp (option_map fst (nth_error (List.filter y' (order rv items)) (N.to_nat (o + eff_limit l)))) t)).
    { intros o Ho. eexists. apply (Hoff o Ho). }
    rewrite <- (Hall (order rv items)).
    split; [|split; [|split]].
    - apply (follow_complete items y' f' l ct rv); assumption.
    - apply (step_complete items y' f' l ct rv); assumption.
    - apply (step_nk_complete items y' f' l ct rv); assumption.
    - intros o Ho Hct. rewrite map_length in *. rewrite (Hoff o Ho), Hct. eexists. eexists. reflexivity.
  Qed.
End Instances.

(* ------------------------------------------ any callback that agrees on the store entries *)

Section Ext.
  Context {V R : Type}.

  Lemma fp_key_loop_ext (cb cb' : fcallback V R) lim : forall it n,
    (forall k v, In (k, v) it -> forall acc, cb k v acc = cb' k v acc) ->
    fp_key_loop cb lim it n = fp_key_loop cb' lim it n.
  Proof.
    induction it as [|[k v] it IH]; intros n Hext; cbn [fp_key_loop]; [reflexivity|].
    destruct (n =? lim); [reflexivity|].
    rewrite (Hext k v (or_introl eq_refl)).
    destruct (cb' k v true) as [[hit out]| |]; cbn [rbind]; try reflexivity.
    rewrite IH; [reflexivity|]. intros k0 v0 Hin. apply Hext. right. exact Hin.
  Qed.

  Lemma fp_off_loop_ext (cb cb' : fcallback V R) o e ct : forall it n nk,
    (forall k v, In (k, v) it -> forall acc, cb k v acc = cb' k v acc) ->
    fp_off_loop cb o e ct it n nk = fp_off_loop cb' o e ct it n nk.
  Proof.
    induction it as [|[k v] it IH]; intros n nk Hext; cbn [fp_off_loop]; [reflexivity|].
    rewrite (Hext k v (or_introl eq_refl)).
    destruct (cb' k v ((o <=? n) && (n <? e))) as [[hit out]| |]; cbn [rbind]; try reflexivity.
    assert (Hext' : forall k0 v0, In (k0, v0) it -> forall acc, cb k0 v0 acc = cb' k0 v0 acc).
    { intros k0 v0 Hin. apply Hext. right. exact Hin. }
    rewrite !(IH _ _ Hext'). reflexivity.
  Qed.

  Lemma pg_key_loop_ext (cb cb' : callback V R) lim : forall it n,
    (forall k v, In (k, v) it -> cb k v = cb' k v) ->
    pg_key_loop cb lim it n = pg_key_loop cb' lim it n.
  Proof.
    induction it as [|[k v] it IH]; intros n Hext; cbn [pg_key_loop]; [reflexivity|].
    destruct (n =? lim); [reflexivity|].
    rewrite (Hext k v (or_introl eq_refl)).
    destruct (cb' k v) as [r| |]; cbn [rbind]; try reflexivity.
    rewrite IH; [reflexivity|]. intros k0 v0 Hin. apply Hext. right. exact Hin.
  Qed.

  Lemma pg_off_loop_ext (cb cb' : callback V R) o e ct : forall it n nk,
    (forall k v, In (k, v) it -> cb k v = cb' k v) ->
    pg_off_loop cb o e ct it n nk = pg_off_loop cb' o e ct it n nk.
  Proof.
    induction it as [|[k v] it IH]; intros n nk Hext; cbn [pg_off_loop]; [reflexivity|].
    assert (Hext' : forall k0 v0, In (k0, v0) it -> cb k0 v0 = cb' k0 v0).
    { intros k0 v0 Hin. apply Hext. right. exact Hin. }
    rewrite (Hext k v (or_introl eq_refl)). rewrite !(IH _ _ Hext'). reflexivity.
  Qed.

  Lemma drop_while_incl {A} (p : A -> bool) (l : list A) : incl (drop_while p l) l.
  Proof.
    induction l as [|a l IH]; cbn [drop_while]; [apply incl_refl|].
    destruct (p a); [apply incl_tl; exact IH|apply incl_refl].
  Qed.

  Lemma take_while_incl {A} (p : A -> bool) (l : list A) : incl (take_while p l) l.
  Proof.
    induction l as [|a l IH]; cbn [take_while]; [apply incl_refl|].
    destruct (p a); [apply incl_cons; [left; reflexivity|apply incl_tl; exact IH]|intros x []].
  Qed.

  Lemma iter_from_incl (items : list (key * V)) st rv it :
    iter_from items st rv = Ok it -> incl it items.
  Proof.
    unfold iter_from. destruct st as [st|].
    - destruct rv.
      + destruct (drop_while _ items) as [|x [|[k2 v2] t]]; intros [= <-].
        * intros y Hy. apply in_rev. exact Hy.
        * intros y Hy. apply in_rev in Hy. apply (take_while_incl _ _ _ Hy).
      + intros [= <-]. apply drop_while_incl.
    - intros [= <-]. destruct rv; [|apply incl_refl]. intros x Hx. apply in_rev. exact Hx.
  Qed.

  Lemma filtered_paginate_ext (cb cb' : fcallback V R) items req :
    (forall k v, In (k, v) items -> forall acc, cb k v acc = cb' k v acc) ->
    filtered_paginate cb items req = filtered_paginate cb' items req.
  Proof.
    intros Hext. unfold filtered_paginate.
    destruct ((0 <? pr_offset req) && _); [reflexivity|].
    destruct (if pr_limit req =? 0 then _ else _) as [lim c].
    assert (Hsub : forall st it, iter_from items st (pr_reverse req) = Ok it ->
                   forall k v, In (k, v) it -> forall acc, cb k v acc = cb' k v acc).
    { intros st it Hit k v Hin. apply Hext. apply (iter_from_incl _ _ _ _ Hit). exact Hin. }
    destruct (pr_key req) as [[|b kt]|].
    - destruct (iter_from items None (pr_reverse req)) as [it| |] eqn:Hit; cbn [rbind]; try reflexivity.
      rewrite (fp_off_loop_ext cb cb'); [reflexivity|]. apply (Hsub _ _ Hit).
    - destruct (iter_from items (Some (b :: kt)) (pr_reverse req)) as [it| |] eqn:Hit; cbn [rbind]; try reflexivity.
      rewrite (fp_key_loop_ext cb cb'); [reflexivity|]. apply (Hsub _ _ Hit).
    - destruct (iter_from items None (pr_reverse req)) as [it| |] eqn:Hit; cbn [rbind]; try reflexivity.
      rewrite (fp_off_loop_ext cb cb'); [reflexivity|]. apply (Hsub _ _ Hit).
  Qed.

  Lemma paginate_ext (cb cb' : callback V R) items req :
    (forall k v, In (k, v) items -> cb k v = cb' k v) ->
    paginate cb items req = paginate cb' items req.
  Proof.
    intros Hext. unfold paginate.
    destruct ((0 <? pr_offset req) && _); [reflexivity|].
    destruct (if pr_limit req =? 0 then _ else _) as [lim c].
    assert (Hsub : forall st it, iter_from items st (pr_reverse req) = Ok it ->
                   forall k v, In (k, v) it -> cb k v = cb' k v).
    { intros st it Hit k v Hin. apply Hext. apply (iter_from_incl _ _ _ _ Hit). exact Hin. }
    destruct (pr_key req) as [[|b kt]|].
    - destruct (iter_from items None (pr_reverse req)) as [it| |] eqn:Hit; cbn [rbind]; try reflexivity.
      rewrite (pg_off_loop_ext cb cb'); [reflexivity|]. apply (Hsub _ _ Hit).
    - destruct (iter_from items (Some (b :: kt)) (pr_reverse req)) as [it| |] eqn:Hit; cbn [rbind]; try reflexivity.
      rewrite (pg_key_loop_ext cb cb'); [reflexivity|]. apply (Hsub _ _ Hit).
    - destruct (iter_from items None (pr_reverse req)) as [it| |] eqn:Hit; cbn [rbind]; try reflexivity.
      rewrite (pg_off_loop_ext cb cb'); [reflexivity|]. apply (Hsub _ _ Hit).
  Qed.
End Ext.

Lemma follow_keys_ext {R} (q q' : page_request -> res (list R * page_response)) :
  (forall req, q req = q' req) -> forall fuel req, follow_keys fuel q req = follow_keys fuel q' req.
Proof.
  intros Hq. induction fuel as [|fuel IH]; intros req; cbn [follow_keys]; [reflexivity|].
  rewrite Hq. destruct (q' req) as [[page resp]| |]; try reflexivity.
  destruct (next_key resp) as [[|b kt]|]; try reflexivity. rewrite IH. reflexivity.
Qed.

Lemma step_offsets_ext {R} (q q' : page_request -> res (list R * page_response)) :
  (forall req, q req = q' req) -> forall fuel req lim off,
  step_offsets fuel q req lim off = step_offsets fuel q' req lim off.
Proof.
  intros Hq. induction fuel as [|fuel IH]; intros req lim off; cbn [step_offsets]; [reflexivity|].
  rewrite Hq. destruct (q' _) as [[page resp]| |]; try reflexivity.
  destruct (_ <? lim); try reflexivity. rewrite IH. reflexivity.
Qed.

Lemma step_offsets_nk_ext {R} (q q' : page_request -> res (list R * page_response)) :
  (forall req, q req = q' req) -> forall fuel req lim off,
  step_offsets_nk fuel q req lim off = step_offsets_nk fuel q' req lim off.
Proof.
  intros Hq. induction fuel as [|fuel IH]; intros req lim off; cbn [step_offsets_nk]; [reflexivity|].
  rewrite Hq. destruct (q' _) as [[page resp]| |]; try reflexivity.
  destruct (next_key resp) as [[|b kt]|]; try reflexivity. rewrite IH. reflexivity.
Qed.

Lemma pages_completely_ext {R} (q q' : page_request -> res (list R * page_response)) l ct rv n expected :
  (forall req, q req = q' req) -> pages_completely q' l ct rv n expected -> pages_completely q l ct rv n expected.
Proof.
  intros Hq (Ha & Hb & Hb' & Hc). split; [|split; [|split]].
  - destruct Ha as (pages & Hf & Hrest). exists pages. split; [|exact Hrest].
    intros fuel Hfuel. rewrite (follow_keys_ext q q' Hq). apply Hf. exact Hfuel.
  - intros fuel Hfuel. rewrite (step_offsets_ext q q' Hq). apply Hb. exact Hfuel.
  - intros fuel Hfuel. rewrite (step_offsets_nk_ext q q' Hq). apply Hb'. exact Hfuel.
  - intros o Ho Hct. rewrite Hq. apply Hc; assumption.
Qed.

(* The hypothesis on a FilteredPaginate callback: on every entry of the store it succeeds, reports the
   hit [h k v] whatever [accumulate] is, and appends [f k v] exactly when it is a hit and accumulate is set. *)
Definition hit_independent_of_accumulate {V R} (cb : fcallback V R) (h : key -> V -> bool)
    (f : key -> V -> R) (items : list (key * V)) : Prop :=
  forall k v, In (k, v) items -> forall acc : bool,
    cb k v acc = Ok (h k v, if acc && h k v then Some (f k v) else None).

(* The hypothesis on a Paginate callback: on every entry of the store it succeeds and appends [f k v]. *)
Definition appends_each {V R} (cb : callback V R) (f : key -> V -> R) (items : list (key * V)) : Prop :=
  forall k v, In (k, v) items -> cb k v = Ok (f k v).

Theorem filtered_paging_complete {V R} (cb : fcallback V R) h f items l ct rv :
  key_sorted items -> keys_nonempty items -> no_wrap items l ->
  hit_independent_of_accumulate cb h f items ->
  pages_completely (filtered_paginate cb items) l ct rv (length items)
    (map (fun kv => f (fst kv) (snd kv)) (order rv (List.filter (fun kv => h (fst kv) (snd kv)) items))).
Proof.
  intros Hs Hne Hw Hcb.
  apply (pages_completely_ext _ (filtered_paginate (good_cb h f) items)).
  - intros req. apply filtered_paginate_ext. intros k v Hin acc. rewrite (Hcb k v Hin acc). reflexivity.
  - apply (filtered_pages_completely h f items l ct rv Hs Hne Hw).
Qed.

Theorem paginate_paging_complete {V R} (cb : callback V R) f items l ct rv :
  key_sorted items -> keys_nonempty items -> no_wrap items l ->
  appends_each cb f items ->
  pages_completely (paginate cb items) l ct rv (length items)
    (map (fun kv => f (fst kv) (snd kv)) (order rv items)).
Proof.
  intros Hs Hne Hw Hcb.
  apply (pages_completely_ext _ (paginate (total_cb f) items)).
  - intros req. apply paginate_ext. intros k v Hin. rewrite (Hcb k v Hin). reflexivity.
  - apply (paginate_pages_completely f items l ct rv Hs Hne Hw).
Qed.

(* ------------------------------------------------- handler shapes (Gen/QueryShapes.v) *)

Definition shape_okb (s : query_shape) : bool :=
  negb (qs_hit_depends_on_accumulate s) && negb (qs_appends_unguarded s).

Theorem shape_pages_completely {V R} (s : query_shape) (h : key -> V -> bool) (f : key -> V -> R) items l ct rv :
  shape_okb s = true -> key_sorted items -> keys_nonempty items -> no_wrap items l ->
  pages_completely (run_query s h f items) l ct rv (length items)
    (map (fun kv => f (fst kv) (snd kv)) (order rv (matching s h items))).
Proof.
  intros Hok Hs Hne Hw. unfold shape_okb in Hok. apply andb_prop in Hok as [Hdep _].
  apply negb_true_iff in Hdep.
  unfold run_query, matching, shape_cb. rewrite Hdep. destruct (qs_paginator s).
  - apply (paginate_pages_completely f items l ct rv Hs Hne Hw).
  - apply (filtered_pages_completely h f items l ct rv Hs Hne Hw).
Qed.

Theorem shapes_complete (tbl : list query_shape) :
  forallb shape_okb tbl = true ->
  Forall (fun s => qs_hit_depends_on_accumulate s = false /\ qs_appends_unguarded s = false) tbl /\
  forall s, In s tbl ->
  forall (V R : Type) (h : key -> V -> bool) (f : key -> V -> R) items l ct rv,
    key_sorted items -> keys_nonempty items -> no_wrap items l ->
    pages_completely (run_query s h f items) l ct rv (length items)
      (map (fun kv => f (fst kv) (snd kv)) (order rv (matching s h items))).
Proof.
  intros Hall. rewrite forallb_forall in Hall. split.
  - apply List.Forall_forall. intros s Hin. specialize (Hall s Hin). unfold shape_okb in Hall.
    apply andb_prop in Hall as [H1 H2]. apply negb_true_iff in H1, H2. split; assumption.
  - intros s Hin V R h f items l ct rv. apply shape_pages_completely. apply Hall. exact Hin.
Qed.

(* ------------------------------------------------------------------ refutations *)

(* five entries, every one a hit, page size 2 *)
Definition five : list (key * unit) := [([1], tt); ([2], tt); ([3], tt); ([4], tt); ([5], tt)].
Definition all_hit : key -> unit -> bool := fun _ _ => true.
Definition the_key : key -> unit -> key := fun k _ => k.

Lemma five_sorted : key_sorted five.
Proof. unfold key_sorted, five. repeat (constructor; try reflexivity). Qed.

Lemma five_nonempty : keys_nonempty five.
Proof. unfold keys_nonempty, five. repeat (constructor; try discriminate). Qed.

Lemma five_no_wrap : no_wrap five 2.
Proof. unfold no_wrap. vm_compute. reflexivity. Qed.

(* with the callback shape before commit 629f405: one page of two, no next_key, total = 2;
   offset 2 returns nothing *)
Lemma defect_first_page :
  filtered_paginate (defect_cb all_hit the_key) five (mk_req None 0 2 true false) =
    Ok ([[1]; [2]], mk_resp None 2).
Proof. vm_compute. reflexivity. Qed.

Lemma defect_second_offset :
  filtered_paginate (defect_cb all_hit the_key) five (mk_req None 2 2 true false) = Ok ([], mk_resp None 0).
Proof. vm_compute. reflexivity. Qed.

Lemma defect_follow :
  follow_keys 6 (filtered_paginate (defect_cb all_hit the_key) five) (mk_req None 0 2 true false) =
    Some [[[1]; [2]]].
Proof. vm_compute. reflexivity. Qed.

Lemma defect_steps :
  step_offsets 6 (filtered_paginate (defect_cb all_hit the_key) five) (mk_req None 0 2 true false) 2 0 =
    Some [[[1]; [2]]; []].
Proof. vm_compute. reflexivity. Qed.

Theorem defect_incomplete :
  key_sorted five /\ keys_nonempty five /\ no_wrap five 2 /\
  (* (a) fails *)
  (forall pages, follow_keys 6 (filtered_paginate (defect_cb all_hit the_key) five)
                   (mk_req None 0 2 true false) = Some pages ->
                 concat pages <> map fst five) /\
  (* (b) fails *)
  (forall pages, step_offsets 6 (filtered_paginate (defect_cb all_hit the_key) five)
                   (mk_req None 0 2 true false) 2 0 = Some pages ->
                 concat pages <> map fst five) /\
  (* (c) fails *)
  (forall page resp, filtered_paginate (defect_cb all_hit the_key) five (mk_req None 0 2 true false) =
                       Ok (page, resp) -> total resp <> 5).
Proof.
  split; [exact five_sorted|]. split; [exact five_nonempty|]. split; [exact five_no_wrap|].
  split; [|split].
  - intros pages. rewrite defect_follow. intros [= <-]. vm_compute. discriminate.
  - intros pages. rewrite defect_steps. intros [= <-]. vm_compute. discriminate.
  - intros page resp. rewrite defect_first_page. intros [= <- <-]. vm_compute. discriminate.
Qed.

(* a handler row whose hit depends on accumulate does not page completely *)
Theorem defect_shape_incomplete (s : query_shape) :
  qs_paginator s = UsesFilteredPaginate -> qs_hit_depends_on_accumulate s = true ->
  ~ pages_completely (run_query s all_hit the_key five) 2 true false (length five)
      (map (fun kv => the_key (fst kv) (snd kv)) (order false (matching s all_hit five))).
Proof.
  intros Hp Hd (Ha & _). destruct Ha as (pages & Hf & Hc & _).
  specialize (Hf 6%nat ltac:(cbn; lia)).
  assert (Hq : forall req, run_query s all_hit the_key five req =
                           filtered_paginate (defect_cb all_hit the_key) five req).
  { intros req. unfold run_query, shape_cb. rewrite Hp, Hd. reflexivity. }
  rewrite (follow_keys_ext _ _ Hq), defect_follow in Hf. injection Hf as <-.
  unfold matching in Hc. rewrite Hp in Hc. vm_compute in Hc. discriminate.
Qed.

(* uint64 wrap-around of end+1 in FilteredPaginate (limit = 2^64-1, first entry not a hit, no count_total):
   the loop stops at the first entry, the page is empty although the second entry matches. *)
Definition two : list (key * bool) := [([1], false); ([2], true)].
Definition flag_hit : key -> bool -> bool := fun _ v => v.
Definition flag_key : key -> bool -> key := fun k _ => k.

Theorem maxlimit_incomplete :
  key_sorted two /\ keys_nonempty two /\
  filtered_paginate (good_cb flag_hit flag_key) two (mk_req None 0 (u64 - 1) false false) =
    Ok ([], mk_resp (Some [1]) 0) /\
  step_offsets 3 (filtered_paginate (good_cb flag_hit flag_key) two) (mk_req None 0 (u64 - 1) false false)
    (u64 - 1) 0 = Some [[]] /\
  (* following next_key still finds it *)
  follow_keys 3 (filtered_paginate (good_cb flag_hit flag_key) two) (mk_req None 0 (u64 - 1) false false) =
    Some [[]; [[2]]].
Proof.
  split; [unfold key_sorted, two; repeat (constructor; try reflexivity)|].
  split; [unfold keys_nonempty, two; repeat (constructor; try discriminate)|].
  split; [vm_compute; reflexivity|]. split; vm_compute; reflexivity.
Qed.
