(* C09: all index invariants together, for every reachable state. *)
From Hub Require Import Base.Prelude Base.Arith Model.Types Model.Keeper Model.Handlers Model.Hooks Model.Step.
From Hub Require Import Proofs.Tactics Proofs.Frames Proofs.KeysInv Proofs.IndexSess Proofs.IndexNode Proofs.InvDefs
  Proofs.IndexSub Proofs.IndexSub2 Proofs.IndexPlan.

Record all_idx (s : state) : Prop := {
  ai_k : kinv s; ai_sess : idx_sess s; ai_node : idx_node s; ai_sub : idx_sub s; ai_plan : idx_plan s }.

Lemma idx_sess_init g : idx_sess (init g).
Proof.
  assert (H0 : idx_sess (empty_state (g_cfg g) (g_params g))).
  { split; simpl; intros; (split; [set_solver|]); intros (x & Hx & _); rewrite lookup_empty in Hx; discriminate. }
  unfold init.
  assert (H1 : idx_sess (fold_left (fun s '(a, (d, v)) => set_bal (s <| supply ::= fun c => coins_add c d v |>) a d (bal s a d + v))
                       (g_balances g) (empty_state (g_cfg g) (g_params g)))).
  { apply (fold_left_inv idx_sess); [|exact H0]. intros x [a [d v]] Hx. eapply idx_sess_frame; [..|exact Hx]; reflexivity. }
  destruct (g_mint g) as [[[mx mn] rc] inf]. eapply idx_sess_frame; [..|exact H1]; reflexivity.
Qed.

Lemma idx_node_init g : idx_node (init g).
Proof.
  assert (H0 : idx_node (empty_state (g_cfg g) (g_params g))).
  { intros t a. unfold act_iat. simpl. rewrite lookup_empty. simpl. split; [set_solver|discriminate]. }
  unfold init.
  assert (H1 : idx_node (fold_left (fun s '(a, (d, v)) => set_bal (s <| supply ::= fun c => coins_add c d v |>) a d (bal s a d + v))
                       (g_balances g) (empty_state (g_cfg g) (g_params g)))).
  { apply (fold_left_inv idx_node); [|exact H0]. intros x [a [d v]] Hx. eapply idx_node_frame; [..|exact Hx]; reflexivity. }
  destruct (g_mint g) as [[[mx mn] rc] inf]. eapply idx_node_frame; [..|exact H1]; reflexivity.
Qed.

Theorem all_idx_init g : all_idx (init g).
Proof. split; [apply kinv_init|apply idx_sess_init|apply idx_node_init|apply idx_sub_init|apply idx_plan_init]. Qed.

Theorem all_idx_step s o s' : all_idx s -> step s o = OOk s' -> all_idx s'.
Proof.
  intros [A B C D E] H. destruct (idx_sess_node_step _ _ _ A B C H) as [B' C'].
  split; [eapply kinv_step; eauto|exact B'|exact C'|eapply idx_sub_step; eauto|eapply idx_plan_step; eauto].
Qed.

Lemma all_idx_clear s : all_idx s -> all_idx (clear_events s).
Proof.
  intros [A B C D E]. split; [apply kinv_clear; exact A|eapply idx_sess_frame; [..|exact B]; reflexivity
    |eapply idx_node_frame; [..|exact C]; reflexivity|eapply idx_sub_frame; [..|exact D]; reflexivity|apply idx_plan_clear; exact E].
Qed.

Theorem all_idx_run ops : forall s i s', all_idx s -> run_from s ops i = RunOk s' -> all_idx s'.
Proof.
  induction ops as [|o ops IH]; simpl; intros s i s' Hi H.
  - injection H as <-. exact Hi.
  - destruct (step s o) eqn:E; try discriminate.
    + eapply IH; [eapply all_idx_step; eauto|exact H].
    + eapply IH; [apply all_idx_clear; exact Hi|exact H].
Qed.

Theorem all_idx_reachable g ops s' : run (init g) ops = RunOk s' -> all_idx s'.
Proof. intros H. eapply all_idx_run; [apply all_idx_init|exact H]. Qed.
