(* FormatTimeBytes is an order isomorphism on the years 1..9999:
   the 29-byte text of an instant compares (bytewise) like the instant. *)
From Hub Require Import Base.Prelude Base.Bytes Base.Time Proofs.BytesThm Proofs.Calendar.
From Coq Require Import ZifyN ZifyNat ZifyBool.

(* ---- the domain: years 1..9999 ---- *)
Definition MIN_DAY : Z := -719162.
Definition MAX_DAY : Z := 2932896.

Lemma civil_min : civil_from_days MIN_DAY = (1, 1, 1).
Proof. vm_compute. reflexivity. Qed.
Lemma civil_max : civil_from_days MAX_DAY = (9999, 12, 31).
Proof. vm_compute. reflexivity. Qed.

Lemma civil_year_range days : MIN_DAY <= days <= MAX_DAY ->
  let '(y, m, d) := civil_from_days days in 1 <= y <= 9999.
Proof.
  intros H.
  assert (Hlo : code (civil_from_days MIN_DAY) <= code (civil_from_days days)).
  { destruct (Z.eq_dec MIN_DAY days) as [->|Hne]; [lia|]. apply Z.lt_le_incl, civil_mono_lt. lia. }
  assert (Hhi : code (civil_from_days days) <= code (civil_from_days MAX_DAY)).
  { destruct (Z.eq_dec days MAX_DAY) as [->|Hne]; [lia|]. apply Z.lt_le_incl, civil_mono_lt. lia. }
  rewrite civil_min in Hlo. rewrite civil_max in Hhi.
  assert (Hr := civil_range days).
  destruct (civil_from_days days) as [[y m] d]. cbn [code] in *. lia.
Qed.

Lemma time_ok_days t : time_ok t = true -> MIN_DAY <= t / NS_PER_S / S_PER_DAY <= MAX_DAY.
Proof.
  unfold time_ok, MIN_TIME, MAX_TIME, NS_PER_S, S_PER_DAY, MIN_DAY, MAX_DAY. intros H.
  apply andb_true_iff in H as [H1 H2]. apply Z.leb_le in H1, H2.
  split.
  - apply Z.div_le_lower_bound; [lia|]. apply Z.div_le_lower_bound; lia.
  - apply Z.lt_succ_r. apply Z.div_lt_upper_bound; [lia|].
    assert (t / 1000000000 < 253402300800); [|lia].
    apply Z.div_lt_upper_bound; lia.
Qed.

(* ---- the text ---- *)
Lemma dec_length k v : length (dec k v) = k.
Proof. apply digits_length. Qed.

Lemma fmt_time_length t : length (fmt_time t) = 29%nat.
Proof.
  unfold fmt_time. destruct (civil_from_days _) as [[y m] d].
  rewrite !app_length, !dec_length. reflexivity.
Qed.

Lemma dec_cmp_app k a b r1 r2 :
  0 <= a < 10 ^ Z.of_nat k -> 0 <= b < 10 ^ Z.of_nat k ->
  bytes_cmp (dec k a ++ r1) (dec k b ++ r2) = lex (Z.compare a b) (bytes_cmp r1 r2).
Proof.
  intros Ha Hb. unfold dec.
  assert (Hp : (10 ^ N.of_nat k)%N = Z.to_N (10 ^ Z.of_nat k)).
  { rewrite Z2N.inj_pow by lia. f_equal. lia. }
  rewrite digits_cmp_app; [|lia| |]; try (rewrite Hp; lia).
  rewrite Z2N.inj_compare by lia. unfold lex. destruct (Z.compare a b); reflexivity.
Qed.

Lemma sep_cmp c r1 r2 : bytes_cmp ([c] ++ r1) ([c] ++ r2) = bytes_cmp r1 r2.
Proof. apply bytes_cmp_app_same. Qed.

Lemma lex_assoc a b c : lex (lex a b) c = lex a (lex b c).
Proof. destruct a; reflexivity. Qed.

Lemma mod_3600_60 o : (o mod 3600) mod 60 = o mod 60.
Proof.
  assert (H := Z.div_mod o 3600 ltac:(discriminate)).
  rewrite H at 2.
  replace (3600 * (o / 3600) + o mod 3600) with (o mod 3600 + (60 * (o / 3600)) * 60) by lia.
  rewrite Z.mod_add by discriminate. reflexivity.
Qed.

(* the text, followed by anything, compares like the instant, then the rest *)
Theorem fmt_time_cmp_app t1 t2 r1 r2 : time_ok t1 = true -> time_ok t2 = true ->
  bytes_cmp (fmt_time t1 ++ r1) (fmt_time t2 ++ r2) = lex (Z.compare t1 t2) (bytes_cmp r1 r2).
Proof.
  intros H1 H2.
  assert (Hd1 := time_ok_days t1 H1). assert (Hd2 := time_ok_days t2 H2).
  rewrite (cmp_divmod NS_PER_S t1 t2) by reflexivity.
  rewrite (cmp_divmod S_PER_DAY (t1 / NS_PER_S) (t2 / NS_PER_S)) by reflexivity.
  rewrite <- (civil_code_cmp (t1 / NS_PER_S / S_PER_DAY) (t2 / NS_PER_S / S_PER_DAY)).
  unfold fmt_time.
  set (s1 := t1 / NS_PER_S) in *. set (s2 := t2 / NS_PER_S) in *.
  assert (Hn1 := Z.mod_pos_bound t1 NS_PER_S ltac:(reflexivity)).
  assert (Hn2 := Z.mod_pos_bound t2 NS_PER_S ltac:(reflexivity)).
  set (n1 := t1 mod NS_PER_S) in *. set (n2 := t2 mod NS_PER_S) in *.
  assert (Ho1 := Z.mod_pos_bound s1 S_PER_DAY ltac:(reflexivity)).
  assert (Ho2 := Z.mod_pos_bound s2 S_PER_DAY ltac:(reflexivity)).
  set (o1 := s1 mod S_PER_DAY) in *. set (o2 := s2 mod S_PER_DAY) in *.
  assert (Hy1 := civil_year_range _ Hd1). assert (Hy2 := civil_year_range _ Hd2).
  assert (Hr1 := civil_range (s1 / S_PER_DAY)). assert (Hr2 := civil_range (s2 / S_PER_DAY)).
  destruct (civil_from_days (s1 / S_PER_DAY)) as [[y1 m1] d1].
  destruct (civil_from_days (s2 / S_PER_DAY)) as [[y2 m2] d2].
  rewrite code_lex by lia.
  rewrite (cmp_divmod 3600 o1 o2) by reflexivity.
  rewrite (cmp_divmod 60 (o1 mod 3600) (o2 mod 3600)) by reflexivity.
  rewrite !mod_3600_60.
  unfold NS_PER_S, S_PER_DAY in *.
  assert (0 <= o1 / 3600 < 24) by (split; [apply Z.div_pos; lia|apply Z.div_lt_upper_bound; lia]).
  assert (0 <= o2 / 3600 < 24) by (split; [apply Z.div_pos; lia|apply Z.div_lt_upper_bound; lia]).
  assert (Hq1 := Z.mod_pos_bound o1 3600 ltac:(reflexivity)).
  assert (Hq2 := Z.mod_pos_bound o2 3600 ltac:(reflexivity)).
  assert (0 <= o1 mod 3600 / 60 < 60) by (split; [apply Z.div_pos; lia|apply Z.div_lt_upper_bound; lia]).
  assert (0 <= o2 mod 3600 / 60 < 60) by (split; [apply Z.div_pos; lia|apply Z.div_lt_upper_bound; lia]).
  assert (Hs1 := Z.mod_pos_bound o1 60 ltac:(reflexivity)).
  assert (Hs2 := Z.mod_pos_bound o2 60 ltac:(reflexivity)).
  rewrite <- !app_assoc.
  rewrite dec_cmp_app by (cbn; lia). rewrite sep_cmp.
  rewrite dec_cmp_app by (cbn; lia). rewrite sep_cmp.
  rewrite dec_cmp_app by (cbn; lia). rewrite sep_cmp.
  rewrite dec_cmp_app by (cbn; lia). rewrite sep_cmp.
  rewrite dec_cmp_app by (cbn; lia). rewrite sep_cmp.
  rewrite dec_cmp_app by (cbn; lia). rewrite sep_cmp.
  rewrite dec_cmp_app by (cbn; lia).
  rewrite !lex_assoc. reflexivity.
Qed.

Corollary fmt_time_cmp t1 t2 : time_ok t1 = true -> time_ok t2 = true ->
  bytes_cmp (fmt_time t1) (fmt_time t2) = Z.compare t1 t2.
Proof.
  intros H1 H2.
  rewrite <- (app_nil_r (fmt_time t1)), <- (app_nil_r (fmt_time t2)).
  rewrite fmt_time_cmp_app by assumption. destruct (Z.compare t1 t2); reflexivity.
Qed.

Corollary fmt_time_inj t1 t2 : time_ok t1 = true -> time_ok t2 = true ->
  fmt_time t1 = fmt_time t2 -> t1 = t2.
Proof.
  intros H1 H2 He. apply Z.compare_eq_iff. rewrite <- fmt_time_cmp by assumption.
  apply bytes_cmp_eq, He.
Qed.
