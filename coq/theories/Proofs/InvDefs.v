(* Definitions of the structural invariants of the marketplace state (DESIGN §3.3):
   I-index and I-struct for subscriptions, allocations and payouts, the link
   between sessions and their subscriptions, parameter sanity, and the escrow
   ledger (I-ledger).  Only definitions and one-line projections here; the
   preservation proofs are in IndexSub.v, Link.v, Ledger.v. *)
From Hub Require Import Base.Prelude Base.Arith Model.Types Model.Keeper Model.Handlers Model.Hooks Model.Step.
From Hub Require Import Proofs.Tactics Proofs.Frames Proofs.KeysInv Proofs.ArithThm.

(** * kinds of subscriptions *)

(* an hourly pay-as-you-go subscription: has a payout record and no allocation *)
Definition hourly (sb : subscription) : bool :=
  match sb_kind sb with KNode _ _ h _ => negb (h =? 0) | KPlan _ _ => false end.
(* a per-gigabyte pay-as-you-go subscription: one allocation (the subscriber's), metered settlement *)
Definition metered (sb : subscription) : bool :=
  match sb_kind sb with KNode _ g _ _ => negb (g =? 0) | KPlan _ _ => false end.

(* what stateless validation and the handlers guarantee about a stored kind *)
Definition kind_ok (k : sub_kind) : Prop :=
  match k with
  | KNode _ g h dep => ((g = 0 /\ 0 < h) \/ (0 < g /\ h = 0)) /\ 0 <= dep.2
  | KPlan _ _ => True
  end.

(** * subscriptions, allocations, payouts: indices and structure *)

Record idx_sub (s : state) : Prop := {
  (* I-index *)
  ix_subq : forall t id, (t, id) ∈ sub_q s <-> exists sb, subs s !! id = Some sb /\ sb_inactive_at sb = t;
  ix_subnode : forall n id, (n, id) ∈ sub_node s <->
               exists sb g h d, subs s !! id = Some sb /\ sb_kind sb = KNode n g h d;
  ix_subplan : forall p id, (p, id) ∈ sub_plan s <->
               exists sb d, subs s !! id = Some sb /\ sb_kind sb = KPlan p d;
  ix_subacc : forall a id, (a, id) ∈ sub_acc s <->
              exists sb, subs s !! id = Some sb /\ (sb_addr sb = a \/ is_Some (allocs s !! (id, a)));
  ix_payacc : forall a id, (a, id) ∈ pay_acc s <-> exists po, payouts s !! id = Some po /\ po_addr po = a;
  ix_paynode : forall n id, (n, id) ∈ pay_node s <-> exists po, payouts s !! id = Some po /\ po_node po = n;
  (* the (account, node) lease index and the payout queue only hold payouts of ACTIVE subscriptions *)
  ix_payaccnode : forall a n id, (a, n, id) ∈ pay_acc_node s <->
                  exists po sb, payouts s !! id = Some po /\ po_addr po = a /\ po_node po = n /\
                                subs s !! id = Some sb /\ sb_status sb = SActive;
  ix_payq : forall t id, (t, id) ∈ pay_q s <->
            exists po sb, payouts s !! id = Some po /\ po_next_at po = t /\ 0 < po_hours po /\
                          subs s !! id = Some sb /\ sb_status sb = SActive;
  (* I-struct *)
  st_kind : forall id sb, subs s !! id = Some sb -> kind_ok (sb_kind sb);
  st_alloc_sub : forall id a al, allocs s !! (id, a) = Some al ->
                 exists sb, subs s !! id = Some sb /\ hourly sb = false /\ (metered sb = true -> a = sb_addr sb);
  st_sub_alloc : forall id sb, subs s !! id = Some sb -> hourly sb = false -> is_Some (allocs s !! (id, sb_addr sb));
  st_pay_sub : forall id po, payouts s !! id = Some po ->
               0 <= po_hours po /\
               exists sb g h d, subs s !! id = Some sb /\ sb_kind sb = KNode (po_node po) g h d /\ h <> 0 /\
                                po_addr po = sb_addr sb;
  st_sub_pay : forall id sb, subs s !! id = Some sb -> hourly sb = true -> is_Some (payouts s !! id) }.

(** * plans *)

Record idx_plan (s : state) : Prop := {
  ix_planprov : forall a id, (a, id) ∈ plan_prov s <-> exists p, get_plan s id = Some p /\ pl_prov p = a;
  ix_nodeplan : forall id a, (id, a) ∈ node_plan s -> is_Some (get_plan s id) /\ is_Some (get_node s a);
  st_plan_prov : forall id p, get_plan s id = Some p -> is_Some (get_provider s (pl_prov p));
  st_plan_pos : forall id p, get_plan s id = Some p -> 0 < pl_duration p /\ 0 < pl_gb p }.

(** * parameters the block hooks rely on (each enforced by the modules' Params.Validate,
      except [sess <= sub], the assumption of DESIGN §5.1) *)

Record par_ok (p : params) : Prop := {
  po_sub_delay : 0 < p_sub_delay p;
  po_sess_delay : 0 < p_sess_delay p;
  po_delays : p_sess_delay p <= p_sub_delay p;
  po_node_active : 0 < p_node_active p;
  po_node_share : 0 <= p_node_share p <= P18;
  po_prov_share : 0 <= p_prov_share p <= P18 }.

(** * sessions and their subscriptions *)

Record link_inv (s : state) : Prop := {
  lk_sub : forall sid x, sessions s !! sid = Some x ->
           exists sb, subs s !! ss_sub x = Some sb /\
             (hourly sb = true \/ is_Some (allocs s !! (ss_sub x, ss_addr x))) /\
             (ss_status x = SActive -> sb_status sb = SActive) /\
             (* a pending session never outlives its subscription *)
             (ss_status x = SPending -> sb_status sb = SPending -> ss_inactive_at x <= sb_inactive_at sb) /\
             (ss_status x = SPending -> sb_status sb = SActive -> ss_inactive_at x <= now s + p_sub_delay (pars s)) }.

(* after the session end-blocker every remaining session has a deadline in the future *)
Definition sess_fresh (s : state) : Prop := forall sid x, sessions s !! sid = Some x -> now s < ss_inactive_at x.

(** * the escrow ledger (I-ledger, C02) *)

(* exact ceiling charge of utils.AmountForBytes (ArithThm.afb_exact) *)
Definition afb (p b : Z) : Z := cdiv (p * b) GB.

(* the part of subscription [sb] not yet settled, in denomination [d], owed to account [a] *)
Definition unsettled (s : state) (a : addr) (d : denom) (sb : subscription) : Z :=
  match sb_kind sb with
  | KNode _ g h dep =>
      if bool_decide (sb_addr sb = a /\ dep.1 = d) then
        if h =? 0 then
          match allocs s !! (sb_id sb, sb_addr sb) with
          | Some al => dep.2 - afb (Z.quot dep.2 g) (al_used al)
          | None => 0
          end
        else
          match payouts s !! sb_id sb with
          | Some po => (po_price po).2 * po_hours po
          | None => 0
          end
      else 0
  | KPlan _ _ => 0
  end.

Definition ledger_total (s : state) (a : addr) (d : denom) : Z := msum (unsettled s a d) (subs s).

Record ledger_inv (s : state) : Prop := {
  (* every deposit record is the sum of the unsettled parts of its owner's live pay-as-you-go subscriptions *)
  lg_eq : forall a d, amount_of (dep_of s a) d = ledger_total s a d;
  (* no subscription has been charged beyond its deposit *)
  lg_nonneg : forall id sb a d, subs s !! id = Some sb -> 0 <= unsettled s a d sb;
  (* a per-gigabyte subscription's allocation grants exactly what was bought, and usage stays within it *)
  lg_alloc : forall id sb n g h dep al, subs s !! id = Some sb -> sb_kind sb = KNode n g h dep -> h = 0 ->
             allocs s !! (id, sb_addr sb) = Some al -> al_granted al = GB * g /\ 0 <= al_used al <= al_granted al;
  (* an hourly subscription's payout price is deposit / hours, in the deposit's denomination *)
  lg_price : forall id sb n g h dep po, subs s !! id = Some sb -> sb_kind sb = KNode n g h dep -> h <> 0 ->
             payouts s !! id = Some po -> po_price po = (dep.1, Z.quot dep.2 h) /\ 0 <= po_hours po <= h }.

(** * well-formed operations for the life-cycle theorems (DESIGN §5.3, §5.4) *)

Definition wf_op_life (s : state) (o : op) : Prop :=
  match o with
  | OBegin t => now s < t
  | OGov cs =>
      (* only a proposal that passes every per-key validator is executed; what those cannot see is the one
         cross-field condition: the session delay never exceeds the subscription delay *)
      forallb pchange_valid cs = true ->
      let s' := fold_left apply_pchange cs s in
      p_sess_delay (pars s') <= p_sub_delay (pars s') /\
      (* governance does not lower the subscription delay below the remaining pending time of a
         live pending session (implied by DESIGN §5.3: sess_delay(i) <= sub_delay(j) for i <= j) *)
      (forall sid x, sessions s !! sid = Some x -> ss_status x = SPending -> ss_inactive_at x <= now s + p_sub_delay (pars s'))
  | _ => True
  end.
