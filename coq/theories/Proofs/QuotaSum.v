(* C06 (run level): for every live subscription of every reachable state the granted bytes of its
   allocations add up to exactly what was bought: 10^9 x gigabytes of a pay-as-you-go subscription
   (0 for an hourly one), 10^9 x the plan's gigabytes for a plan subscription. *)
From Hub Require Import Base.Prelude Base.Arith Model.Types Model.Keeper Model.Handlers Model.Hooks Model.Step.
From Hub Require Import Proofs.Tactics Proofs.Frames Proofs.KeysInv Proofs.Lifecycle Proofs.Quota Proofs.IndexSess Proofs.InvDefs
  Proofs.IndexSub Proofs.IndexSub2 Proofs.IndexAll.

Definition bought (s : state) (sb : subscription) : option Z :=
  match sb_kind sb with
  | KNode _ gb _ _ => Some (GB * gb)
  | KPlan pid _ => (fun p => GB * pl_gb p) <$> get_plan s pid
  end.

Definition sum_inv (s : state) : Prop := forall id sb, subs s !! id = Some sb -> bought s sb = Some (gsum s id).

(* plans are never removed and keep their gigabytes *)
Definition plans_persist (s s' : state) : Prop :=
  forall pid p, get_plan s pid = Some p -> exists p', get_plan s' pid = Some p' /\ pl_gb p' = pl_gb p.

Lemma plans_persist_refl s : plans_persist s s.
Proof. intros pid p Hp. eauto. Qed.
Lemma plans_persist_frame s s' : plan_act s' = plan_act s -> plan_inact s' = plan_inact s -> plans_persist s s'.
Proof. intros E1 E2 pid p Hp. exists p. split; [|reflexivity]. unfold get_plan in *. rewrite E1, E2. exact Hp. Qed.

Lemma plans_persist_step s o s' : kinv s -> step s o = OOk s' -> plans_persist s s'.
Proof.
  intros Hi H pid p Hp. destruct (plan_step _ _ _ Hi H) as [(_ & _ & F)|(_ & (q & _ & _ & Hnone) & F)].
  - destruct (F _ _ Hp) as (p' & Hp' & S). exists p'. split; [exact Hp'|apply S].
  - exists p. split; [|reflexivity]. rewrite F; [exact Hp|]. intros ->. congruence.
Qed.

Lemma bought_persist s s' sb b : plans_persist s s' -> bought s sb = Some b -> bought s' sb = Some b.
Proof.
  intros Hp. unfold bought. destruct (sb_kind sb) as [| pid dn]; [auto|].
  destruct (get_plan s pid) as [p|] eqn:E; [|discriminate]. simpl. intros [= <-].
  destruct (Hp _ _ E) as (p' & -> & Egb). simpl. rewrite Egb. reflexivity.
Qed.

(* the generic transfer: subscriptions only evolve (same kind) or disappear, the sums of the surviving
   ones do not change, plans persist *)
Lemma sum_inv_transfer s s' :
  (forall id sb', subs s' !! id = Some sb' -> exists sb, subs s !! id = Some sb /\ sb_kind sb' = sb_kind sb) ->
  (forall id, is_Some (subs s' !! id) -> gsum s' id = gsum s id) ->
  plans_persist s s' -> sum_inv s -> sum_inv s'.
Proof.
  intros Hs Hg Hp Hinv id sb' Hsb'. destruct (Hs _ _ Hsb') as (sb & Hsb & Ek).
  rewrite (Hg id) by eauto. pose proof (Hinv _ _ Hsb) as Hb.
  apply (bought_persist s s' sb _ Hp) in Hb. unfold bought in *. rewrite Ek. exact Hb.
Qed.

Lemma gsum_frame s s' id : allocs s' = allocs s -> gsum s' id = gsum s id.
Proof. unfold gsum. intros ->. reflexivity. Qed.

Lemma sub_evo_kind s s' : sub_evo s s' -> forall id sb', subs s' !! id = Some sb' -> exists sb, subs s !! id = Some sb /\ sb_kind sb' = sb_kind sb.
Proof. intros [_ E _] id sb' H. destruct (E _ _ H) as (sb & Hsb & (_ & _ & K & _)). eauto. Qed.

Lemma sum_inv_frame s s' :
  subs s' = subs s -> allocs s' = allocs s -> plan_act s' = plan_act s -> plan_inact s' = plan_inact s -> sum_inv s -> sum_inv s'.
Proof.
  intros E1 E2 E3 E4. apply sum_inv_transfer.
  - rewrite E1. eauto.
  - intros id _. apply gsum_frame. exact E2.
  - apply plans_persist_frame; assumption.
Qed.

Lemma sum_inv_keeps T s s' : keeps T s s' -> touched GSub T = false -> touched GPl T = false -> sum_inv s -> sum_inv s'.
Proof.
  intros (_ & _ & _ & _ & _ & Kp & _ & Ks & _) T1 T2. rewrite T1 in Ks. rewrite T2 in Kp. simpl in *. apply sum_inv_frame; tauto.
Qed.

(* plans change, subscriptions and allocations do not *)
Lemma sum_inv_plans s s' : subs s' = subs s -> allocs s' = allocs s -> plans_persist s s' -> sum_inv s -> sum_inv s'.
Proof.
  intros E1 E2 Hp. apply sum_inv_transfer; [rewrite E1; eauto|intros id _; apply gsum_frame; exact E2|exact Hp].
Qed.

(** * purchases *)

Lemma sum_create_node s acc nd g h dn s' id :
  kinv_sub s -> sum_inv s -> create_sub_for_node s acc nd g h dn = Ok (s', id) -> sum_inv s'.
Proof.
  intros Hk Hinv H. pose proof (create_sub_for_node_keeps _ _ _ _ _ _ _ _ H) as Hkp.
  destruct (node_purchase_grants _ _ _ _ _ _ _ _ Hk H) as [G1 G2].
  destruct (kinv_create_sub_for_node _ _ _ _ _ _ _ _ Hk H) as [_ Eid].
  destruct (evo_create_sub_for_node _ _ _ _ _ _ _ _ Hk H) as [N1 (sbn & N2 & _) N3 _ _].
  assert (Ekind : sb_kind sbn = KNode nd g h (match sb_kind sbn with KNode _ _ _ d => d | _ => (0%N, 0) end)).
  { revert N2. unfold create_sub_for_node in H. res_inv; pose_keeps; simpl; to_base s; rewrite lookup_insert; intros [= <-]; reflexivity. }
  assert (Hpp : plans_persist s s') by (apply plans_persist_frame; keeps_solve).
  intros id0 sb0 Hsb0. destruct (decide (id0 = sub_count s + 1)) as [->|Hne].
  - rewrite N2 in Hsb0. injection Hsb0 as <-. unfold bought. rewrite Ekind. rewrite <- Eid, G1. reflexivity.
  - pose proof (N3 _ _ Hne Hsb0) as Hold. rewrite G2 by congruence.
    apply (bought_persist s s' sb0 _ Hpp). apply Hinv. exact Hold.
Qed.

Lemma sum_create_plan s acc pid dn s' id :
  kinv_sub s -> sum_inv s -> create_sub_for_plan s acc pid dn = Ok (s', id) -> sum_inv s'.
Proof.
  intros Hk Hinv H. pose proof (create_sub_for_plan_keeps _ _ _ _ _ _ H) as Hkp.
  destruct (plan_purchase_grants _ _ _ _ _ _ Hk H) as [(p & Hp & G1) G2].
  destruct (kinv_create_sub_for_plan _ _ _ _ _ _ Hk H) as [_ Eid].
  destruct (evo_create_sub_for_plan _ _ _ _ _ _ Hk H) as [N1 (sbn & N2 & _) N3 _ _].
  assert (Ekind : sb_kind sbn = KPlan pid dn).
  { revert N2. unfold create_sub_for_plan in H. res_inv; pose_keeps.
    assert (Ec : sub_count x3 = sub_count s) by keeps_solve. simpl. rewrite Ec, lookup_insert. intros [= <-]. reflexivity. }
  assert (Hpp : plans_persist s s') by (apply plans_persist_frame; keeps_solve).
  intros id0 sb0 Hsb0. destruct (decide (id0 = sub_count s + 1)) as [->|Hne].
  - rewrite N2 in Hsb0. injection Hsb0 as <-. unfold bought. rewrite Ekind.
    destruct (Hpp _ _ Hp) as (p' & -> & Egb). simpl. rewrite Egb, <- Eid, G1. reflexivity.
  - pose proof (N3 _ _ Hne Hsb0) as Hold. rewrite G2 by congruence.
    apply (bought_persist s s' sb0 _ Hpp). apply Hinv. exact Hold.
Qed.

(** * handlers *)

Lemma sum_handle s m s' : kinv s -> sum_inv s -> handle s m = Ok s' -> plans_persist s s' -> sum_inv s'.
Proof.
  intros Hi Hinv H Hpp. destruct m; simpl in H.
  all: try (eapply sum_inv_keeps; [handler_keeps H; exact H|reflexivity|reflexivity|exact Hinv]).
  - (* node subscribe *)
    unfold h_node_subscribe in H. res_inv.
    match goal with Hc : create_sub_for_node _ _ _ _ _ _ = Ok (?y, _) |- _ =>
      apply (sum_inv_frame y); [reflexivity..|]; eapply sum_create_node; [apply Hi|exact Hinv|exact Hc] end.
  - (* plan create *) pose proof (h_plan_create_keeps _ _ _ _ _ _ H) as Hk. apply (sum_inv_plans s); [keeps_solve|keeps_solve|exact Hpp|exact Hinv].
  - (* plan status *) pose proof (h_plan_update_status_keeps _ _ _ _ _ H) as Hk. apply (sum_inv_plans s); [keeps_solve|keeps_solve|exact Hpp|exact Hinv].
  - (* link *) pose proof (h_plan_link_keeps _ _ _ _ _ H) as Hk. apply (sum_inv_plans s); [keeps_solve|keeps_solve|exact Hpp|exact Hinv].
  - (* unlink *) pose proof (h_plan_unlink_keeps _ _ _ _ _ H) as Hk. apply (sum_inv_plans s); [keeps_solve|keeps_solve|exact Hpp|exact Hinv].
  - (* plan subscribe *)
    unfold h_plan_subscribe in H. res_inv.
    match goal with Hc : create_sub_for_plan _ _ _ _ = Ok (?y, _) |- _ =>
      apply (sum_inv_frame y); [reflexivity..|]; eapply sum_create_plan; [apply Hi|exact Hinv|exact Hc] end.
  - (* cancel: statuses and queues only *)
    pose proof (h_sub_cancel_keeps _ _ _ _ H) as Hk.
    apply (sum_inv_transfer s); [apply sub_evo_kind; eapply evo_h_sub_cancel; [apply Hi|exact H]| |exact Hpp|exact Hinv].
    intros id0 _. apply gsum_frame.
    unfold h_sub_cancel in H. destruct (subs s !! id) as [sb|]; [|discriminate]. res_inv.
    match goal with Hp : sub_pending_hook _ _ = Ok ?y |- _ => apply sub_pending_hook_keeps in Hp end.
    unfold detach_payout in H. repeat case_match; res_inv; simpl; to_base s; auto.
  - (* allocate: quota moves between two holders of one subscription *)
    apply (sum_inv_transfer s); [| |exact Hpp|exact Hinv].
    + replace (subs s') with (subs s); [eauto|]. unfold h_sub_allocate in H. res_inv; reflexivity.
    + intros id0 _. eapply allocate_conserves; [apply Hi|exact H].
Qed.

(** * hooks *)

Lemma sum_payout_step s e s' : sum_inv s -> payout_step s e = Ok s' -> sum_inv s'.
Proof.
  intros Hinv H. destruct (payout_step_allocs _ _ _ H) as (E1 & _ & E3 & E4).
  destruct (payouts s !! e.2) as [po|] eqn:Hpo; [|unfold payout_step in H; rewrite Hpo in H; discriminate].
  destruct (payout_step_spec s e s' po Hpo H) as (S1 & _). eapply sum_inv_frame; eauto.
Qed.

Lemma sum_session_expire_one s e s' : kinv s -> sum_inv s -> session_expire_one s e = Ok s' -> sum_inv s'.
Proof.
  intros Hi Hinv H. pose proof (session_expire_one_keeps _ _ _ H) as Hk.
  unfold session_expire_one in H. destruct (sessions s !! e.2) as [x|] eqn:Hx; [|discriminate].
  case_bool_decide.
  - injection H as <-. eapply sum_inv_frame; [..|exact Hinv]; reflexivity.
  - apply rbind_ok in H as (total & _ & H). apply rbind_ok in H as (s1 & Hh & H). apply must_ok in Hh. injection H as <-.
    destruct (session_inactive_hook_subfields _ _ _ _ _ _ Hh) as (S1 & _).
    pose proof (session_inactive_hook_keeps _ _ _ _ _ _ Hh) as K1.
    apply (sum_inv_transfer s); [simpl; rewrite S1; eauto| |apply plans_persist_frame; keeps_solve|exact Hinv].
    intros id0 _. transitivity (gsum s1 id0); [reflexivity|].
    match type of Hh with session_inactive_hook ?a _ _ _ _ = _ => set (s0 := a) in * end.
    assert (Hk0 : kinv_sub s0) by (eapply kinv_sub_frame; [..|apply (ki_sub _ Hi)]; reflexivity).
    rewrite (settlement_conserves s0 _ _ _ _ s1 Hk0 Hh id0). reflexivity.
Qed.

(* removing the allocations of one subscription does not change the sums of the others *)
Lemma gsum_removed s s' id :
  kinv_sub s -> (forall k, allocs s' !! k = if bool_decide (k.1 = id) then None else allocs s !! k) ->
  forall id0, id0 <> id -> gsum s' id0 = gsum s id0.
Proof.
  intros Hk Hal id0 Hne. unfold gsum.
  assert (Hsub : allocs s' = filter (fun kv => kv.1.1 <> id) (allocs s)).
  { apply map_eq. intros k. rewrite Hal. case_bool_decide as E.
    - symmetry. apply map_filter_lookup_None. right. intros v _ Hc. simpl in Hc. contradiction.
    - destruct (allocs s !! k) as [v|] eqn:Ev.
      + symmetry. apply map_filter_lookup_Some. split; [exact Ev|exact E].
      + symmetry. apply map_filter_lookup_None. left. exact Ev. }
  rewrite Hsub. clear Hsub Hal.
  assert (Hz : forall k al, allocs s !! k = Some al -> k.1 = id -> granted_of id0 al = 0).
  { intros k al Hl Ek. destruct (k_al _ Hk _ _ Hl) as (E1 & _). unfold granted_of. case_bool_decide; [congruence|reflexivity]. }
  revert Hz. generalize (allocs s). intros m. induction m as [|k v m Hfresh IH] using map_ind; intros Hz.
  - rewrite map_filter_empty. reflexivity.
  - destruct (decide (k.1 = id)) as [Ek|Ek].
    + rewrite map_filter_insert_not' by (simpl; intros; try congruence; tauto).
      rewrite msum_insert_fresh by exact Hfresh. rewrite (Hz k v) by (try apply lookup_insert; exact Ek).
      rewrite IH; [lia|]. intros k' al Hl. apply Hz. rewrite lookup_insert_ne; [exact Hl|]. intros ->. congruence.
    + rewrite map_filter_insert_True by exact Ek.
      rewrite !msum_insert_fresh; [|exact Hfresh|apply map_filter_lookup_None; left; exact Hfresh].
      rewrite IH; [reflexivity|]. intros k' al Hl. apply Hz. rewrite lookup_insert_ne; [exact Hl|]. intros ->. congruence.
Qed.

Lemma sum_sub_expire_one s e s' : kinv s -> idx_sub s -> sum_inv s -> sub_expire_one s e = Ok s' -> sum_inv s'.
Proof.
  intros Hi Hix Hinv H. pose proof (sub_expire_one_keeps _ _ _ H) as Hk.
  pose proof (evo_sub_expire_one _ _ _ (ki_sub _ Hi) H) as Hev.
  assert (Hpp : plans_persist s s') by (apply plans_persist_frame; keeps_solve).
  destruct (subs s !! e.2) as [sb|] eqn:Hsb; [|unfold sub_expire_one in H; rewrite Hsb in H; discriminate].
  destruct (decide (sb_status sb = SActive)) as [Hact|Hact].
  - (* demotion: allocations untouched *)
    apply (sum_inv_transfer s); [apply sub_evo_kind; exact Hev| |exact Hpp|exact Hinv].
    intros id0 _. apply gsum_frame. unfold sub_expire_one in H. rewrite Hsb in H. rewrite bool_decide_eq_true_2 in H by exact Hact.
    apply rbind_ok in H as (s1 & Hp & H). apply must_ok, sub_pending_hook_keeps in Hp.
    unfold detach_payout in H. repeat case_match; res_inv; simpl; to_base s; auto.
  - (* removal *)
    destruct (sub_remove_spec s e s' sb (ki_sub _ Hi) Hix Hsb Hact H) as (R1 & _ & R3 & _).
    apply (sum_inv_transfer s); [apply sub_evo_kind; exact Hev| |exact Hpp|exact Hinv].
    intros id0 [sb0 Hsb0]. rewrite R1 in Hsb0. apply lookup_delete_Some in Hsb0 as [Hne _].
    apply (gsum_removed s s' e.2 (ki_sub _ Hi) R3). congruence.
Qed.

(** * every operation, every history *)

Theorem sum_step s o s' : kinv s -> idx_sub s -> sum_inv s -> step s o = OOk s' -> sum_inv s'.
Proof.
  intros Hi Hix Hinv Hstep. pose proof (plans_persist_step _ _ _ Hi Hstep) as Hpp. unfold step in Hstep. destruct o.
  - destruct (begin_block _) as [x| |] eqn:H; try discriminate. injection Hstep as <-.
    unfold begin_block in H. apply rbind_ok in H as (s1 & Hm & H). apply mint_begin_block_keeps in Hm.
    assert (H1 : sum_inv s1) by (eapply (sum_inv_frame s); [..|exact Hinv]; keeps_solve).
    unfold sub_begin_block in H. eapply (rfold_inv sum_inv); [|exact H1|exact H].
    intros a e b Ha Hs. eapply sum_payout_step; eauto.
  - unfold run_tx in Hstep. destruct (validate_basic m); [|discriminate].
    destruct (handle _ m) as [x| |] eqn:H; try discriminate. injection Hstep as <-.
    eapply (sum_handle (clear_events s)); [apply kinv_clear; exact Hi| |exact H|exact Hpp].
    eapply (sum_inv_frame s); [..|exact Hinv]; reflexivity.
  - destruct (forallb pchange_valid _); [|discriminate]. injection Hstep as <-. apply (fold_left_inv sum_inv).
    + intros x c Hx. pose proof (apply_pchange_keeps x c). eapply sum_inv_keeps; eauto.
    + eapply (sum_inv_frame s); [..|exact Hinv]; reflexivity.
  - destruct (end_block _) as [se| |] eqn:H; try discriminate. injection Hstep as <-.
    unfold end_block in H. apply rbind_ok in H as (s1 & H1 & H). apply rbind_ok in H as (s2 & H2 & H3).
    assert (Hi0 : kinv (clear_events s)) by (apply kinv_clear; exact Hi).
    pose proof (kinv_node_end_block _ _ Hi0 H1) as Hi1. apply node_end_block_keeps in H1.
    assert (Hx1 : idx_sub s1) by (eapply (idx_sub_keeps [GNode]); [|reflexivity|exact Hix]; keeps_solve).
    assert (Hs1 : sum_inv s1) by (eapply (sum_inv_frame s); [..|exact Hinv]; keeps_solve).
    assert (G2 : kinv s2 /\ idx_sub s2 /\ sum_inv s2).
    { unfold session_end_block in H2. eapply (rfold_inv (fun y => kinv y /\ idx_sub y /\ sum_inv y)); [|split; [exact Hi1|split; eassumption]|exact H2].
      intros a e b (Ha & Hxa & Hsa) Hs. split; [eapply kinv_session_expire_one; eauto|].
      split; [eapply idx_session_expire_one; eauto|eapply sum_session_expire_one; eauto]. }
    assert (G3 : kinv se /\ idx_sub se /\ sum_inv se).
    { unfold sub_end_block in H3. eapply (rfold_inv (fun y => kinv y /\ idx_sub y /\ sum_inv y)); [|exact G2|exact H3].
      intros a e b (Ha & Hxa & Hsa) Hs. split; [eapply kinv_sub_expire_one; eauto|].
      split; [eapply idx_sub_expire_one; eauto|eapply sum_sub_expire_one; eauto]. }
    eapply (sum_inv_frame se); [..|apply G3]; reflexivity.
Qed.

Lemma sum_inv_init g : sum_inv (init g).
Proof.
  intros id sb Hsb. exfalso. revert Hsb. unfold init.
  assert (G : forall l s0, subs s0 = ∅ -> subs (fold_left (fun s '(a, (d, v)) => set_bal (s <| supply ::= fun c => coins_add c d v |>) a d (bal s a d + v)) l s0) = ∅).
  { induction l as [|[a [d v]] l IH]; intros s0 H0; [exact H0|]. simpl. apply IH. exact H0. }
  destruct (g_mint g) as [[[mx mn] rc] inf]. simpl. rewrite G by reflexivity. rewrite lookup_empty. discriminate.
Qed.

Theorem sum_run ops : forall s i s', all_idx s -> sum_inv s -> run_from s ops i = RunOk s' -> sum_inv s'.
Proof.
  induction ops as [|o ops IH]; simpl; intros s i s' Hall Hinv H.
  - injection H as <-. exact Hinv.
  - destruct (step s o) as [s1| |] eqn:E; try discriminate.
    + eapply IH; [eapply all_idx_step; eauto|eapply sum_step; [apply (ai_k _ Hall)|apply (ai_sub _ Hall)|exact Hinv|exact E]|exact H].
    + eapply IH; [apply all_idx_clear; exact Hall|eapply (sum_inv_frame s); [..|exact Hinv]; reflexivity|exact H].
Qed.

(* the granted bytes of every live subscription of every reachable state add up to what was bought *)
Theorem granted_sum_is_bought g ops s' id sb :
  run (init g) ops = RunOk s' -> subs s' !! id = Some sb ->
  match sb_kind sb with
  | KNode _ gb _ _ => gsum s' id = GB * gb
  | KPlan pid _ => exists p, get_plan s' pid = Some p /\ gsum s' id = GB * pl_gb p
  end.
Proof.
  intros H Hsb. pose proof (sum_run ops (init g) 0%nat s' (all_idx_init g) (sum_inv_init g) H _ _ Hsb) as Hb.
  unfold bought in Hb. destruct (sb_kind sb) as [nd gb h dep|pid dn].
  - injection Hb as <-. reflexivity.
  - destruct (get_plan s' pid) as [p|]; [|discriminate]. simpl in Hb. injection Hb as <-. eauto.
Qed.
