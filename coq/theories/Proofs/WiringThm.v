(* Application wiring (regenerated from app/module.go and x/vpn/abci.go on every run, Gen/Wiring.v):
   the facts about module order and module-account permissions that the model is written against. *)
From Coq Require Import String List Bool Arith.
Import ListNotations.
From Hub Require Import Gen.Wiring.
From Hub Require Import Base.Prelude Model.Types Model.Keeper Model.Handlers Model.Hooks Model.Step.
Open Scope string_scope.

Fixpoint index_of (x : string) (l : list string) : option nat :=
  match l with
  | [] => None
  | y :: l' => if String.eqb x y then Some 0%nat else option_map S (index_of x l')
  end.

(* x and y both occur, x strictly earlier *)
Definition runs_before (x y : string) (l : list string) : Prop :=
  exists i j, index_of x l = Some i /\ index_of y l = Some j /\ (i < j)%nat.
Definition runs_before_b (x y : string) (l : list string) : bool :=
  match index_of x l, index_of y l with Some i, Some j => Nat.ltb i j | _, _ => false end.
Lemma runs_before_b_sound x y l : runs_before_b x y l = true -> runs_before x y l.
Proof.
  unfold runs_before_b, runs_before. destruct (index_of x l) as [i|]; [|discriminate]. destruct (index_of y l) as [j|]; [|discriminate].
  intros H. apply Nat.ltb_lt in H. eauto.
Qed.

Definition perms_of (m : string) : option (list string) :=
  match find (fun kv => String.eqb (fst kv) m) module_perms with Some kv => Some (snd kv) | None => None end.

(** * order of the block hooks *)

(* the inflation-schedule hook rewrites the SDK minting parameters BEFORE the SDK mint module uses them in the same block *)
Theorem custommint_before_mint : runs_before "customminttypes.ModuleName" "minttypes.ModuleName" begin_blockers.
Proof. apply runs_before_b_sound. vm_compute. reflexivity. Qed.

(* parameter changes enacted by governance at the end of a block are seen (as Modified) by the marketplace end-blocker of
   the SAME block: the model's [OGov] sits before [OEnd] *)
Theorem gov_before_vpn_at_block_end : runs_before "govtypes.ModuleName" "vpntypes.ModuleName" end_blockers.
Proof. apply runs_before_b_sound. vm_compute. reflexivity. Qed.

(* the marketplace hooks call the sub-module hooks in the order the model's [begin_block] / [end_block] are written in *)
Theorem vpn_begin_block_is_model : vpn_begin_block_calls = ["subscription.BeginBlock"].
Proof. reflexivity. Qed.
Theorem vpn_end_block_is_model : vpn_end_block_calls = ["node.EndBlock"; "session.EndBlock"; "subscription.EndBlock"].
Proof. reflexivity. Qed.
Theorem model_begin_block_order s : begin_block s = (let! s1 := mint_begin_block s in sub_begin_block s1).
Proof. reflexivity. Qed.
Theorem model_end_block_order s :
  end_block s = (let! s1 := node_end_block s in let! s2 := session_end_block s1 in sub_end_block s2).
Proof. reflexivity. Qed.

(** * module accounts *)

(* the escrow account of the deposit module can neither mint nor burn: escrowed coins only move *)
Theorem deposit_cannot_mint_or_burn : perms_of "deposittypes.ModuleName" = Some [].
Proof. reflexivity. Qed.
Theorem custommint_has_no_permission : perms_of "customminttypes.ModuleName" = Some [].
Proof. reflexivity. Qed.
(* the swap module mints and does nothing else; it is the only hub module account that can change the supply *)
Theorem swap_can_only_mint : perms_of "swaptypes.ModuleName" = Some ["authtypes.Minter"].
Proof. reflexivity. Qed.
(* the recipients the hooks pay fees to are module accounts, and every module account is a blocked recipient of
   module-to-account transfers (so is the escrow account itself: [wf_cfg]) *)
Theorem payees_are_module_accounts :
  perms_of "authtypes.FeeCollectorName" = Some [] /\ perms_of "distributiontypes.ModuleName" = Some [] /\
  blocked_is_all_module_accounts = true.
Proof. repeat split. Qed.
