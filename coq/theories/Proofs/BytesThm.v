(* Facts about Base/Bytes.v: fixed-width numerals compare like numbers, the
   length prefix is self-delimiting, byte order and prefix lemmas, slicing. *)
From Hub Require Import Base.Prelude Base.Bytes.
From Coq Require Import ZifyN ZifyNat ZifyBool.
Local Open Scope N_scope.

(* ---- byte order ---- *)
Lemma bytes_cmp_refl a : bytes_cmp a a = Eq.
Proof. induction a as [|x a IH]; cbn; [reflexivity|]. rewrite N.compare_refl. exact IH. Qed.

Lemma bytes_cmp_eq a b : bytes_cmp a b = Eq <-> a = b.
Proof.
  split; [|intros ->; apply bytes_cmp_refl].
  revert b; induction a as [|x a IH]; intros [|y b] H; cbn in H; try discriminate; [reflexivity|].
  destruct (N.compare_spec x y) as [->|Hlt|Hgt]; try discriminate.
  f_equal. apply IH, H.
Qed.

Lemma bytes_cmp_app_same p a b : bytes_cmp (p ++ a) (p ++ b) = bytes_cmp a b.
Proof. induction p as [|x p IH]; cbn; [reflexivity|]. rewrite N.compare_refl. exact IH. Qed.

(* segments of equal length are compared first *)
Lemma bytes_cmp_app_len x y r1 r2 :
  length x = length y ->
  bytes_cmp (x ++ r1) (y ++ r2) = match bytes_cmp x y with Eq => bytes_cmp r1 r2 | c => c end.
Proof.
  revert y; induction x as [|a x IH]; intros [|b y] Hl; cbn in Hl; try discriminate; cbn; [reflexivity|].
  destruct (N.compare a b); try reflexivity. apply IH. congruence.
Qed.

Lemma bytes_cmp_antisym a b : bytes_cmp b a = CompOpp (bytes_cmp a b).
Proof.
  revert b; induction a as [|x a IH]; intros [|y b]; cbn; try reflexivity.
  rewrite (N.compare_antisym x y). destruct (N.compare x y); cbn; auto.
Qed.

(* ---- prefixes ---- *)
Lemma is_prefixb_spec p k : is_prefixb p k = true <-> p `prefix_of` k.
Proof.
  revert k; induction p as [|x p IH]; intros k; cbn.
  - split; [intros _; exists k; reflexivity|reflexivity].
  - destruct k as [|y k].
    + split; [discriminate|]. intros [r Hr]. discriminate.
    + rewrite andb_true_iff, N.eqb_eq, IH. split.
      * intros [-> [r ->]]. exists r. reflexivity.
      * intros [r Hr]. injection Hr as -> ->. split; [reflexivity|]. exists r. reflexivity.
Qed.

Lemma prefix_app_cancel (p a b : bytes) : (p ++ a) `prefix_of` (p ++ b) <-> a `prefix_of` b.
Proof.
  split; intros [r Hr].
  - rewrite <- app_assoc in Hr. apply app_inv_head in Hr. exists r. exact Hr.
  - exists r. rewrite Hr, app_assoc. reflexivity.
Qed.

(* if P1 ++ x is a prefix of P2 ++ y then one of P1, P2 is a prefix of the other *)
Lemma prefix_heads_comparable (p1 p2 x y : bytes) :
  (p1 ++ x) `prefix_of` (p2 ++ y) -> is_prefixb p1 p2 || is_prefixb p2 p1 = true.
Proof.
  revert p2; induction p1 as [|a p1 IH]; intros p2 H; [reflexivity|].
  destruct p2 as [|b p2]; [cbn; reflexivity|].
  destruct H as [r Hr]. cbn in Hr. injection Hr as -> Hr.
  cbn. rewrite N.eqb_refl. cbn. apply IH. exists r. exact Hr.
Qed.

(* ---- fixed-width numerals ---- *)
Lemma digits_length base off k n : length (digits base off k n) = k.
Proof. induction k as [|k IH]; cbn; [reflexivity|]. rewrite IH. reflexivity. Qed.

Lemma pow_succ_nat (b : N) (k : nat) : b ^ N.of_nat (S k) = b ^ N.of_nat k * b.
Proof. rewrite Nat2N.inj_succ, N.pow_succ_r'. apply N.mul_comm. Qed.

Lemma add_compare_l (o a b : N) : N.compare (o + a) (o + b) = N.compare a b.
Proof.
  destruct (N.compare_spec a b) as [->|H|H];
    [apply N.compare_refl|apply N.compare_lt_iff; lia|apply N.compare_gt_iff; lia].
Qed.

(* numerals of numbers that agree above the k-th digit compare like the numbers *)
Lemma digits_cmp_gen base off k : 2 <= base -> forall n m r1 r2,
  n / base ^ N.of_nat k = m / base ^ N.of_nat k ->
  bytes_cmp (digits base off k n ++ r1) (digits base off k m ++ r2) =
  match N.compare n m with Eq => bytes_cmp r1 r2 | c => c end.
Proof.
  intros Hb. induction k as [|k IH]; intros n m r1 r2 Hq.
  - cbn in Hq. rewrite !N.div_1_r in Hq. subst m. rewrite N.compare_refl. reflexivity.
  - cbn [digits app bytes_cmp].
    set (P := base ^ N.of_nat k) in *.
    assert (HP : 0 < P) by (apply N.neq_0_lt_0, N.pow_nonzero; lia).
    rewrite pow_succ_nat in Hq. fold P in Hq.
    rewrite <- !N.div_div in Hq by lia.
    set (qn := n / P) in *. set (qm := m / P) in *.
    rewrite add_compare_l.
    assert (Hqn : qn = base * (qn / base) + qn mod base) by (apply N.div_mod; lia).
    assert (Hqm : qm = base * (qm / base) + qm mod base) by (apply N.div_mod; lia).
    assert (Hn : n = P * qn + n mod P) by (apply N.div_mod; lia).
    assert (Hm : m = P * qm + m mod P) by (apply N.div_mod; lia).
    assert (Hrn : n mod P < P) by (apply N.mod_lt; lia).
    assert (Hrm : m mod P < P) by (apply N.mod_lt; lia).
    destruct (N.compare_spec (qn mod base) (qm mod base)) as [He|Hlt|Hgt].
    + apply IH. fold P. fold qn qm. lia.
    + assert (Hq' : qn < qm) by lia.
      assert (Hnm : n < m).
      { set (rn := n mod P) in *. set (rm := m mod P) in *.
        clearbody rn rm qn qm. clear IH Hq Hqn Hqm Hlt.
        assert (P * (qn + 1) <= P * qm) by (apply N.mul_le_mono_l; lia). lia. }
      apply N.compare_lt_iff in Hnm. rewrite Hnm. reflexivity.
    + assert (Hq' : qm < qn) by lia.
      assert (Hnm : m < n).
      { set (rn := n mod P) in *. set (rm := m mod P) in *.
        clearbody rn rm qn qm. clear IH Hq Hqn Hqm Hgt.
        assert (P * (qm + 1) <= P * qn) by (apply N.mul_le_mono_l; lia). lia. }
      apply N.compare_gt_iff in Hnm. rewrite Hnm. reflexivity.
Qed.

Lemma digits_cmp_app base off k n m r1 r2 : 2 <= base ->
  n < base ^ N.of_nat k -> m < base ^ N.of_nat k ->
  bytes_cmp (digits base off k n ++ r1) (digits base off k m ++ r2) =
  match N.compare n m with Eq => bytes_cmp r1 r2 | c => c end.
Proof.
  intros Hb Hn Hm. apply digits_cmp_gen; [exact Hb|].
  rewrite !N.div_small by assumption. reflexivity.
Qed.

Lemma digits_cmp base off k n m : 2 <= base ->
  n < base ^ N.of_nat k -> m < base ^ N.of_nat k ->
  bytes_cmp (digits base off k n) (digits base off k m) = N.compare n m.
Proof.
  intros Hb Hn Hm.
  rewrite <- (app_nil_r (digits base off k n)), <- (app_nil_r (digits base off k m)).
  rewrite digits_cmp_app by assumption. destruct (N.compare n m); reflexivity.
Qed.

Lemma digits_inj base off k n m : 2 <= base ->
  n < base ^ N.of_nat k -> m < base ^ N.of_nat k ->
  digits base off k n = digits base off k m -> n = m.
Proof.
  intros Hb Hn Hm He. apply N.compare_eq_iff. rewrite <- (digits_cmp base off k) by assumption.
  apply bytes_cmp_eq, He.
Qed.

(* ---- 64-bit big-endian integers ---- *)
Definition U64_BOUND : N := 2 ^ 64.

Lemma u64be_length n : length (u64be n) = 8%nat.
Proof. apply digits_length. Qed.

Lemma u64_bound_pow : 256 ^ N.of_nat 8 = U64_BOUND.
Proof. reflexivity. Qed.

Lemma u64be_cmp_app n m r1 r2 : n < U64_BOUND -> m < U64_BOUND ->
  bytes_cmp (u64be n ++ r1) (u64be m ++ r2) = match N.compare n m with Eq => bytes_cmp r1 r2 | c => c end.
Proof. intros Hn Hm. apply digits_cmp_app; [lia| |]; rewrite u64_bound_pow; assumption. Qed.

Lemma u64be_cmp n m : n < U64_BOUND -> m < U64_BOUND -> bytes_cmp (u64be n) (u64be m) = N.compare n m.
Proof. intros Hn Hm. apply digits_cmp; [lia| |]; rewrite u64_bound_pow; assumption. Qed.

Lemma u64be_inj n m : n < U64_BOUND -> m < U64_BOUND -> u64be n = u64be m -> n = m.
Proof. intros Hn Hm. apply digits_inj; [lia| |]; rewrite u64_bound_pow; assumption. Qed.

Lemma be_fold_digits k : forall n acc,
  fold_left (fun a b => a * 256 + b) (digits 256 0 k n) acc = acc * 256 ^ N.of_nat k + n mod 256 ^ N.of_nat k.
Proof.
  induction k as [|k IH]; intros n acc.
  - cbn. rewrite N.mod_1_r. lia.
  - cbn [digits fold_left]. rewrite IH, pow_succ_nat.
    set (P := 256 ^ N.of_nat k).
    assert (HP : P <> 0) by (apply N.pow_nonzero; lia).
    rewrite (N.mod_mul_r n P 256) by lia. lia.
Qed.

Lemma be_u64_u64be n : n < U64_BOUND -> be_u64 (u64be n) = Ok n.
Proof.
  intros Hn. unfold be_u64.
  assert (Hl := u64be_length n).
  destruct (u64be n) as [|b l] eqn:E; [discriminate|].
  rewrite Hl. cbn [Nat.ltb Nat.leb].
  replace (firstn 8 (b :: l)) with (b :: l) by (symmetry; apply firstn_all2; rewrite Hl; lia).
  rewrite <- E. unfold be_val, u64be. rewrite be_fold_digits, u64_bound_pow.
  rewrite N.mod_small by exact Hn. f_equal.
Qed.

(* every byte of a numeral is a byte *)
Lemma digits_bound base off k n : base <> 0 -> Forall (fun b => b < off + base) (digits base off k n).
Proof.
  intros Hb. induction k as [|k IH]; cbn; constructor; [|exact IH].
  assert (n / base ^ N.of_nat k mod base < base) by (apply N.mod_lt; exact Hb). lia.
Qed.

(* ---- length prefix ---- *)
Lemma len_prefix_cons (a : bytes) : a <> [] -> len_prefix a = N.of_nat (length a) :: a.
Proof. destruct a; [congruence|reflexivity]. Qed.

Lemma len_prefix_length (a : bytes) : a <> [] -> length (len_prefix a) = S (length a).
Proof. intros H. rewrite len_prefix_cons by exact H. reflexivity. Qed.

(* self-delimiting: two length-prefixed strings followed by anything *)
Lemma len_prefix_delim (a b r1 r2 : bytes) : a <> [] -> b <> [] ->
  len_prefix a ++ r1 = len_prefix b ++ r2 -> a = b /\ r1 = r2.
Proof.
  intros Ha Hb. rewrite !len_prefix_cons by assumption. cbn. intros H.
  injection H as Hl H. apply Nat2N.inj in Hl.
  apply app_inj_1 in H; [exact H|exact Hl].
Qed.

(* without the length prefix the same statement is false *)
Lemma no_len_prefix_ambiguous : exists a b r1 r2 : bytes,
  a <> [] /\ b <> [] /\ a ++ r1 = b ++ r2 /\ a <> b.
Proof. exists [1], [1; 2], [2; 3], [3]. repeat split; discriminate. Qed.

(* ---- slicing ---- *)
Lemma key_at_app (p : bytes) b s i : length p = N.to_nat i -> key_at (p ++ b :: s) i = Ok b.
Proof.
  intros H. unfold key_at. rewrite <- H.
  rewrite nth_error_app2 by lia. rewrite Nat.sub_diag. reflexivity.
Qed.

Lemma slice_from_app (p s : bytes) n : length p = N.to_nat n -> slice_from (p ++ s) n = Ok s.
Proof.
  intros H. unfold slice_from. rewrite <- H, app_length.
  destruct (Nat.ltb_spec (length p + length s) (length p)); [lia|].
  rewrite skipn_app, Nat.sub_diag, skipn_all. reflexivity.
Qed.

Lemma slice_app (p m s : bytes) a b :
  length p = N.to_nat a -> (length p + length m)%nat = N.to_nat b -> slice (p ++ m ++ s) a b = Ok m.
Proof.
  intros Ha Hb. unfold slice.
  destruct (N.ltb_spec b a); [lia|]. cbn [orb].
  rewrite !app_length.
  destruct (Nat.ltb_spec (length p + (length m + length s)) (N.to_nat b)); [lia|].
  rewrite <- Ha, <- Hb. rewrite skipn_app, Nat.sub_diag, skipn_all. cbn [app skipn].
  replace (length p + length m - length p)%nat with (length m) by lia.
  rewrite skipn_O, firstn_app, Nat.sub_diag, firstn_all. cbn. rewrite app_nil_r. reflexivity.
Qed.
