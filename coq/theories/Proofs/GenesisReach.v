(* C12: the per-module round-trip theorems of GenesisRT.v hold for EVERY REACHABLE STATE: their premises
   (records under their own keys and in the partition of their status, exact indices, valid node
   addresses, the plan counter pointing at the newest plan, swaps keyed by their 32-byte hash, schedule
   entries keyed by their timestamp) are invariants of every history from genesis. *)
From Hub Require Import Base.Prelude Base.Arith Model.Types Model.Keeper Model.Handlers Model.Hooks Model.Step Model.Genesis.
From Hub Require Import Proofs.Tactics Proofs.Sorting Proofs.Frames Proofs.KeysInv Proofs.Lifecycle Proofs.Auth Proofs.IndexSess Proofs.IndexNode
  Proofs.InvDefs Proofs.IndexSub Proofs.Listing Proofs.IndexPlan Proofs.IndexAll Proofs.GenesisRT.

(** * the extra store facts the genesis code relies on *)

Definition node_addr_ok (n : node) : Prop := addr_ok (nd_addr n) = true.
Definition nodes_addr_ok (s : state) : Prop :=
  map_Forall (fun _ => node_addr_ok) (node_act s) /\ map_Forall (fun _ => node_addr_ok) (node_inact s).
Definition plan_count_top (s : state) : Prop := plan_count s = 0 \/ is_Some (get_plan s (plan_count s)).

Record store_inv (s : state) : Prop := {
  si_nodes : nodes_addr_ok s;
  si_count : plan_count_top s;
  si_swaps : swap_store_ok s;
  si_infl : infl_store_ok s }.

(* nodes *)
Lemma nao_frame s s' : node_act s' = node_act s -> node_inact s' = node_inact s -> nodes_addr_ok s -> nodes_addr_ok s'.
Proof. unfold nodes_addr_ok. intros -> ->. auto. Qed.
Lemma nao_get s a n : nodes_addr_ok s -> get_node s a = Some n -> node_addr_ok n.
Proof. intros [A B] H. apply get_node_cases in H as [H|[_ H]]; [exact (A _ _ H)|exact (B _ _ H)]. Qed.
Lemma nao_set s n s' : nodes_addr_ok s -> node_addr_ok n -> set_node s n = Ok s' -> nodes_addr_ok s'.
Proof.
  intros [A B] Hn H. unfold set_node in H. destruct (nd_status n); try discriminate; injection H as <-; split; simpl; auto;
    apply map_Forall_insert_2; auto.
Qed.
Lemma nao_del_act s a : nodes_addr_ok s -> nodes_addr_ok (s <| node_act ::= fun m => delete a m |>).
Proof. intros [A B]. split; simpl; [apply map_Forall_delete|]; assumption. Qed.
Lemma nao_del_inact s a : nodes_addr_ok s -> nodes_addr_ok (s <| node_inact ::= fun m => delete a m |>).
Proof. intros [A B]. split; simpl; [|apply map_Forall_delete]; assumption. Qed.

Lemma ta_valid_addr_ok r t : ta_valid r t = true -> addr_ok (ta_bytes t) = true.
Proof. unfold ta_valid, addr_ok. rewrite !andb_true_iff. tauto. Qed.

Lemma nao_handle s m s' : kinv s -> nodes_addr_ok s -> validate_basic m = true -> handle s m = Ok s' -> nodes_addr_ok s'.
Proof.
  intros Hi Hn Hv H. destruct m; simpl in H, Hv.
  all: try (eapply nao_frame; [| |exact Hn]; handler_keeps H; keeps_solve; fail).
  - (* register *)
    repeat rewrite andb_true_iff in Hv. destruct Hv as [[[[[Hf _] _] _] _] _]. apply ta_valid_addr_ok in Hf.
    unfold h_node_register in H. res_inv.
    match goal with Hf0 : fund_pool s _ _ = Ok ?y |- _ => apply fund_pool_keeps in Hf0;
      assert (Hn1 : nodes_addr_ok y) by (eapply nao_frame; [..|exact Hn]; keeps_solve) end.
    match goal with Hs : set_node _ _ = Ok ?y |- _ => apply (nao_frame y); [reflexivity..|]; eapply nao_set; [exact Hn1| |exact Hs] end.
    exact Hf.
  - (* update details *)
    unfold h_node_update_details in H. res_inv.
    match goal with Hs : set_node _ _ = Ok ?y, Hg : get_node s _ = Some ?n |- _ =>
      apply (nao_frame y); [reflexivity..|]; eapply nao_set; [exact Hn| |exact Hs]; exact (nao_get _ _ _ Hn Hg) end.
  - (* update status *)
    unfold h_node_update_status in H. destruct (get_node s (ta_bytes from)) as [n|] eqn:Hg; [|discriminate].
    pose proof (nao_get _ _ _ Hn Hg) as Hnn.
    match type of H with (let '(s3, n1) := ?p in _) = _ => destruct p as [s3 n1] eqn:Ep end.
    apply rbind_ok in H as (s4 & Hset & H). injection H as <-.
    assert (G : nodes_addr_ok s3 /\ nd_addr n1 = nd_addr n).
    { repeat case_bool_decide; injection Ep as <- <-; simpl; (split; [|reflexivity]);
        repeat first [apply nao_del_act | apply nao_del_inact | (eapply nao_frame; [..|exact Hn]; reflexivity)]. }
    destruct G as [G1 G2]. apply (nao_frame s4); [reflexivity..|].
    eapply nao_set; [exact G1| |exact Hset]. unfold node_addr_ok. case_bool_decide; simpl; rewrite G2; exact Hnn.
Qed.

Lemma nao_node_end_block s s' : kinv s -> nodes_addr_ok s -> node_end_block s = Ok s' -> nodes_addr_ok s'.
Proof.
  intros Hi Hn H. unfold node_end_block in H. apply rbind_ok in H as (s1 & Hsw & H).
  assert (H1 : nodes_addr_ok s1).
  { destruct (_ || _); [|injection Hsw as <-; exact Hn].
    eapply (rfold_inv_in nodes_addr_ok); [|exact Hn|exact Hsw].
    intros x n x' Hin Hx Hstep. unfold node_sweep_one in Hstep. apply rbind_ok in Hstep as (x1 & Hset & Hstep). injection Hstep as <-.
    apply must_ok in Hset. apply (nao_frame x1); [reflexivity..|]. eapply nao_set; [exact Hx| |exact Hset].
    unfold node_addr_ok. simpl. destruct (elem_of_all_nodes _ _ (ki_node _ Hi) Hin) as [[Hl _]|[Hl _]]; [exact (proj1 Hn _ _ Hl)|exact (proj2 Hn _ _ Hl)]. }
  eapply (rfold_inv nodes_addr_ok); [|exact H1|exact H].
  intros x e x' Hx Hstep. unfold node_expire_one in Hstep. destruct (get_node x e.2) as [n|] eqn:Hg; [|discriminate].
  apply rbind_ok in Hstep as (x2 & Hset & Hstep). injection Hstep as <-. apply must_ok in Hset.
  apply (nao_frame x2); [reflexivity..|]. eapply nao_set; [| |exact Hset].
  - eapply nao_frame; [| |apply (nao_del_act x (nd_addr n)); exact Hx]; reflexivity.
  - exact (nao_get _ _ _ Hx Hg).
Qed.

(* swaps *)
Lemma swaps_handle s m s' : swap_store_ok s -> validate_basic m = true -> handle s m = Ok s' -> swap_store_ok s'.
Proof.
  intros Hs Hv H. destruct m; simpl in H, Hv.
  all: try (unfold swap_store_ok; replace (swaps s') with (swaps s); [exact Hs|]; symmetry; handler_keeps H; keeps_solve; fail).
  repeat rewrite andb_true_iff in Hv. destruct Hv as [[[_ Hlen] _] _]. apply Z.eqb_eq in Hlen.
  unfold h_swap in H. res_inv. pose_keeps. intros h w Hl. simpl in Hl.
  apply lookup_insert_Some in Hl as [[<- <-]|[_ Hl]]; [simpl; split; [reflexivity|lia]|].
  apply Hs. match type of Hl with swaps ?y !! _ = _ => replace (swaps s) with (swaps y) by keeps_solve end. exact Hl.
Qed.

(* the inflation schedule *)
Lemma infl_store_mint_loop l : forall s s', mint_loop l s = Ok s' -> infl_store_ok s -> infl_store_ok s'.
Proof.
  induction l as [|it l IH]; intros s s' H F; simpl in H; [injection H as <-; exact F|].
  destruct (now s <? inf_ts it); [injection H as <-; exact F|]. apply rbind_ok in H as (u & _ & H).
  apply IH in H; [exact H|]. unfold mint_apply. intros t i Hl. simpl in Hl. apply lookup_delete_Some in Hl as [_ Hl]. exact (F _ _ Hl).
Qed.

(** * the invariant over one operation *)

Theorem store_inv_step s o s' : kinv s -> store_inv s -> step s o = OOk s' -> store_inv s'.
Proof.
  intros Hi [A B C D] Hstep. pose proof (plan_step _ _ _ Hi Hstep) as Hpl. split.
  - (* node addresses *)
    unfold step in Hstep. destruct o.
    + destruct (begin_block _) as [x| |] eqn:H; try discriminate. injection Hstep as <-. apply begin_block_keeps in H.
      eapply nao_frame; [| |exact A]; keeps_solve.
    + unfold run_tx in Hstep. destruct (validate_basic m) eqn:Hv; [|discriminate].
      destruct (handle _ m) as [x| |] eqn:H; try discriminate. injection Hstep as <-.
      eapply nao_handle; [apply kinv_clear; exact Hi| |exact Hv|exact H]. eapply nao_frame; [| |exact A]; reflexivity.
    + destruct (forallb pchange_valid _); [|discriminate]. injection Hstep as <-. apply (fold_left_inv nodes_addr_ok).
      * intros x c Hx. pose proof (apply_pchange_keeps x c). eapply nao_frame; [| |exact Hx]; keeps_solve.
      * eapply nao_frame; [| |exact A]; reflexivity.
    + destruct (end_block _) as [x| |] eqn:H; try discriminate. injection Hstep as <-.
      unfold end_block in H. apply rbind_ok in H as (s1 & H1 & H). apply rbind_ok in H as (s2 & H2 & H3).
      pose proof (nao_node_end_block _ _ (kinv_clear _ Hi) ltac:(eapply nao_frame; [| |exact A]; reflexivity) H1) as A1.
      apply session_end_block_keeps in H2. apply sub_end_block_keeps in H3.
      apply (nao_frame s1); [simpl; transitivity (node_act s2); keeps_solve|simpl; transitivity (node_inact s2); keeps_solve|exact A1].
  - (* the plan counter points at the newest plan *)
    unfold plan_count_top in *. destruct Hpl as [(Ec & _ & F)|(Ec & (p & Hp & _) & _)].
    + rewrite Ec. destruct B as [B|[p Hp]]; [left; exact B|right]. destruct (F _ _ Hp) as (p' & Hp' & _). eauto.
    + right. rewrite Ec. eauto.
  - (* swaps *)
    unfold step in Hstep. destruct o.
    + destruct (begin_block _) as [x| |] eqn:H; try discriminate. injection Hstep as <-. apply begin_block_keeps in H.
      unfold swap_store_ok. replace (swaps x) with (swaps s) by (symmetry; keeps_solve). exact C.
    + unfold run_tx in Hstep. destruct (validate_basic m) eqn:Hv; [|discriminate].
      destruct (handle _ m) as [x| |] eqn:H; try discriminate. injection Hstep as <-.
      eapply swaps_handle; [|exact Hv|exact H]. exact C.
    + destruct (forallb pchange_valid _); [|discriminate]. injection Hstep as <-. unfold swap_store_ok.
      replace (swaps (fold_left apply_pchange cs (clear_events s))) with (swaps s); [exact C|]. symmetry.
      apply (fold_left_inv (fun y => swaps y = swaps s)); [|reflexivity]. intros y c Hy. pose proof (apply_pchange_keeps y c). rewrite <- Hy. keeps_solve.
    + destruct (end_block _) as [x| |] eqn:H; try discriminate. injection Hstep as <-. apply end_block_keeps in H.
      unfold swap_store_ok. simpl. replace (swaps x) with (swaps s) by (symmetry; keeps_solve). exact C.
  - (* the inflation schedule only shrinks *)
    unfold step in Hstep. destruct o.
    + destruct (begin_block _) as [x| |] eqn:H; try discriminate. injection Hstep as <-.
      unfold begin_block in H. apply rbind_ok in H as (s1 & Hm & H). apply sub_begin_block_keeps in H.
      unfold infl_store_ok. replace (inflations x) with (inflations s1) by (symmetry; keeps_solve).
      eapply infl_store_mint_loop; [exact Hm|]. exact D.
    + unfold run_tx in Hstep. destruct (validate_basic m); [|discriminate].
      destruct (handle _ m) as [x| |] eqn:H; try discriminate. injection Hstep as <-. apply handle_keeps in H.
      unfold infl_store_ok. replace (inflations x) with (inflations s) by (symmetry; keeps_solve). exact D.
    + destruct (forallb pchange_valid _); [|discriminate]. injection Hstep as <-. unfold infl_store_ok.
      replace (inflations (fold_left apply_pchange cs (clear_events s))) with (inflations s); [exact D|]. symmetry.
      apply (fold_left_inv (fun y => inflations y = inflations s)); [|reflexivity]. intros y c Hy. pose proof (apply_pchange_keeps y c). rewrite <- Hy. keeps_solve.
    + destruct (end_block _) as [x| |] eqn:H; try discriminate. injection Hstep as <-. apply end_block_keeps in H.
      unfold infl_store_ok. simpl. replace (inflations x) with (inflations s) by (symmetry; keeps_solve). exact D.
Qed.

Lemma store_inv_clear s : store_inv s -> store_inv (clear_events s).
Proof. intros [A B C D]. split; assumption. Qed.

Lemma store_inv_init g : store_inv (init g).
Proof.
  assert (E : node_act (init g) = ∅ /\ node_inact (init g) = ∅ /\ plan_count (init g) = 0 /\ swaps (init g) = ∅ /\
              inflations (init g) = list_to_map (map (fun i => (inf_ts i, i)) (g_inflations g))).
  { unfold init. destruct (g_mint g) as [[[mx mn] rc] inf]. simpl.
    apply (fold_left_inv (fun x => node_act x = ∅ /\ node_inact x = ∅ /\ plan_count x = 0 /\ swaps x = ∅ /\ _ = _)); [|repeat split; reflexivity].
    intros x [b [d v]] Hx. exact Hx. }
  destruct E as (E1 & E2 & E3 & E4 & E5). split.
  - unfold nodes_addr_ok. rewrite E1, E2. split; apply map_Forall_empty.
  - left. exact E3.
  - intros h w. rewrite E4, lookup_empty. discriminate.
  - intros t i. rewrite E5. intros Hl. apply elem_of_list_to_map_2, elem_of_list_fmap in Hl as (x & Heq & _). injection Heq as -> ->. reflexivity.
Qed.

Theorem store_inv_run ops : forall s i s', kinv s -> store_inv s -> run_from s ops i = RunOk s' -> store_inv s'.
Proof.
  induction ops as [|o ops IH]; simpl; intros s i s' Hi Hs H.
  - injection H as <-. exact Hs.
  - destruct (step s o) as [s1| |] eqn:E; try discriminate.
    + eapply IH; [eapply kinv_step; eauto|eapply store_inv_step; eauto|exact H].
    + eapply IH; [apply kinv_clear; exact Hi|apply store_inv_clear; exact Hs|exact H].
Qed.

(** * the premises of the round-trip theorems, at every reachable state *)

Section reachable.
  Context (g : genesis) (ops : list op) (s : state) (Hrun : run (init g) ops = RunOk s).

  Let Hall : all_idx s := all_idx_reachable g ops s Hrun.
  Let Hst : store_inv s := store_inv_run ops (init g) 0%nat s (kinv_init g) (store_inv_init g) Hrun.

  Lemma reach_part_pv : prov_store_ok s.
  Proof. destruct (ki_pv _ (ai_k _ Hall)) as [A B D]. split; [exact A|split; [exact B|]]. intros k [v Hv]. eapply D; eauto. Qed.
  Lemma reach_part_node : node_store_ok s.
  Proof. destruct (ki_node _ (ai_k _ Hall)) as [A B D]. split; [exact A|split; [exact B|]]. intros k [v Hv]. eapply D; eauto. Qed.
  Lemma reach_part_plan : plan_store_ok s.
  Proof.
    destruct (ki_plan _ (ai_k _ Hall)) as [A B D C]. split; [|split].
    - intros k v Hv. destruct (A _ _ Hv) as (E1 & E2 & _). auto.
    - intros k v Hv. destruct (B _ _ Hv) as (E1 & E2 & _). auto.
    - intros k [v Hv]. eapply D; eauto.
  Qed.

  Lemma reach_node_plan : node_plan_index_ok s.
  Proof.
    intros id a Hin. destruct (ix_nodeplan _ (ai_plan _ Hall) _ _ Hin) as [Hp [n Hn]].
    destruct (get_node_kinv _ _ _ (ki_node _ (ai_k _ Hall)) Hn) as [Ea _].
    split; [|split; [exact Hp|eauto]]. pose proof (nao_get _ _ _ (si_nodes _ Hst) Hn) as Hok. unfold node_addr_ok in Hok. rewrite Ea in Hok. exact Hok.
  Qed.

  Theorem reachable_genesis_defined : genesis_defined s.
  Proof. split; [apply reach_part_pv|split; [apply reach_part_node|split; [apply reach_part_plan|apply reach_node_plan]]]. Qed.

  Lemma reach_node_q : node_q_index_ok s.
  Proof. intros t a. rewrite (ai_node _ Hall t a). apply act_iat_spec. Qed.
  Lemma reach_plan_prov : plan_prov_index_ok s.
  Proof. intros a id. apply (ix_planprov _ (ai_plan _ Hall)). Qed.
  Lemma reach_plan_count : plan_count_ok s.
  Proof.
    destruct (ki_plan _ (ai_k _ Hall)) as [A B D C]. split; [|split; [exact C|exact (si_count _ Hst)]].
    intros id p Hp. apply get_plan_cases in Hp as [Hp|[_ Hp]]; [destruct (A _ _ Hp) as (_ & _ & ?)|destruct (B _ _ Hp) as (_ & _ & ?)]; lia.
  Qed.
  Lemma reach_sess_store : sess_store_ok s.
  Proof. intros id x Hx. destruct (k_ss _ (ki_sess _ (ai_k _ Hall)) _ _ Hx) as (E & _). exact E. Qed.
  Lemma reach_sess_index : sess_index_ok s.
  Proof. destruct (ai_sess _ Hall) as [A B C D E]. split; [exact A|split; [exact B|split; [exact C|split; [exact D|exact E]]]]. Qed.

  (* For EVERY reachable state the export/import round trip is defined and gives back, module by module, exactly the
     records and rebuilt indices of providers, nodes (with the lease queue), plans (with provider index, node links,
     counter), deposits, sessions (with all five indices), swaps, the inflation schedule with the SDK mint parameters,
     and all parameter sets; only the subscription module's state is lost (known finding F5) and the session counter
     comes back as the largest live id (F8). *)
  Theorem reachable_roundtrip :
    exists v s', roundtrip s = Ok (v, s') /\
      deposits s' = deposits s /\
      prov_act s' = prov_act s /\ prov_inact s' = prov_inact s /\
      node_act s' = node_act s /\ node_inact s' = node_inact s /\ node_q s' = node_q s /\
      plan_act s' = plan_act s /\ plan_inact s' = plan_inact s /\ plan_prov s' = plan_prov s /\
      node_plan s' = node_plan s /\ plan_count s' = plan_count s /\
      sessions s' = sessions s /\ sess_q s' = sess_q s /\ sess_acc s' = sess_acc s /\ sess_node s' = sess_node s /\
      sess_sub s' = sess_sub s /\ sess_alloc s' = sess_alloc s /\
      swaps s' = swaps s /\ inflations s' = inflations s /\
      mint_max s' = mint_max s /\ mint_min s' = mint_min s /\ mint_rate s' = mint_rate s /\ mint_inflation s' = mint_inflation s /\
      pars s' = pars s /\
      subs s' = ∅ /\ allocs s' = ∅ /\ payouts s' = ∅ /\ sub_count s' = 0.
  Proof.
    pose proof reachable_genesis_defined as Hd.
    destruct (roundtrip_defined s Hd) as (v & s' & Hr). exists v, s'. split; [exact Hr|].
    destruct (partial_deposit s v s' Hd Hr) as [D1 _].
    destruct (partial_provider s v s' Hd Hr) as (P1 & P2 & _).
    destruct (partial_node s v s' Hd Hr reach_node_q) as (N1 & N2 & N3 & _).
    destruct (partial_plan s v s' Hd Hr reach_plan_prov reach_plan_count) as (L1 & L2 & L3 & L4 & L5 & _).
    destruct (partial_session s v s' Hd Hr reach_sess_store reach_sess_index) as (S1 & S2 & S3 & S4 & S5 & S6 & _).
    destruct (partial_swap s v s' Hd Hr (si_swaps _ Hst)) as [W1 _].
    destruct (partial_mint s v s' Hd Hr (si_infl _ Hst)) as (M1 & M2 & M3 & M4 & M5 & _).
    destruct (partial_params s v s' Hd Hr) as (Q1 & _).
    destruct (subscriptions_always_lost s v s' Hd Hr) as (X1 & X2 & X3 & X4 & _).
    repeat split; assumption.
  Qed.
End reachable.
