(* C19 — proofs about the hand-written codec code of the hub:
     * Status <-> JSON through jsonpb (tables of Gen/StatusTables.v, model Model/StatusCodec.v),
     * EthereumHash <-> bytes / hex JSON (Model/HashCodec.v).
   The finite statements (all declared enum values) are proved by computation over the GENERATED tables and
   lifted with forallb_forall: they are re-checked against the current source on every run.  The hex and
   BytesToHash statements are for all byte lists (induction). *)
From Coq Require Import ZArith NArith String Ascii List Bool Lia Permutation DecimalString DecimalFacts DecimalPos DecimalZ.
From Hub Require Import Gen.StatusTables Model.StatusCodec Model.HashCodec.
Import ListNotations.

(* ------------------------------------------------------------------------------------------- *)
(* Association lists                                                                           *)
(* ------------------------------------------------------------------------------------------- *)
Lemma assoc_s_app k l1 l2 :
  assoc_s k (l1 ++ l2) = match assoc_s k l1 with Some v => Some v | None => assoc_s k l2 end.
Proof.
  induction l1 as [|[k' v] l1 IH]; cbn; [reflexivity|].
  destruct (String.eqb k k'); [reflexivity|exact IH].
Qed.

Lemma assoc_s_perm l l' :
  Permutation l l' -> NoDup (map fst l) -> forall k, assoc_s k l = assoc_s k l'.
Proof.
  intros HP. induction HP as [| [a x] l l' HP IH | [a x] [b y] l | l l' l'' HP1 IH1 HP2 IH2]; intros HN k.
  - reflexivity.
  - cbn in *. inversion HN as [|? ? _ HN']; subst. destruct (String.eqb k a); [reflexivity|]. apply IH, HN'.
  - cbn in *. inversion HN as [|? ? Hnin _]; subst.
    destruct (String.eqb k b) eqn:Eb, (String.eqb k a) eqn:Ea; try reflexivity.
    apply String.eqb_eq in Eb, Ea. subst. exfalso. apply Hnin. left. reflexivity.
  - rewrite IH1 by exact HN. apply IH2.
    eapply Permutation_NoDup; [|exact HN]. apply Permutation_map, HP1.
Qed.

Lemma existsb_eqb_false_notin x (l : list string) : existsb (String.eqb x) l = false -> ~ In x l.
Proof.
  induction l as [|y l IH]; cbn; [tauto|].
  intros H [E|E].
  - subst. rewrite String.eqb_refl in H. discriminate.
  - apply orb_false_iff in H as [_ H]. exact (IH H E).
Qed.

Lemma nodup_strings_NoDup l : nodup_strings l = true -> NoDup l.
Proof.
  induction l as [|x l IH]; cbn; intros H; constructor.
  - apply andb_true_iff in H as [H _]. apply negb_true_iff in H. apply existsb_eqb_false_notin, H.
  - apply andb_true_iff in H as [_ H]. apply IH, H.
Qed.

(* ------------------------------------------------------------------------------------------- *)
(* Status: JSON round trip for every declared value                                            *)
(* ------------------------------------------------------------------------------------------- *)
Definition opt_is (o : option Z) (v : Z) : bool := match o with Some v' => Z.eqb v' v | None => false end.

Lemma opt_is_true o v : opt_is o v = true -> o = Some v.
Proof. destruct o as [v'|]; cbn; [|discriminate]. intros H. apply Z.eqb_eq in H. subst. reflexivity. Qed.

(* computed over the generated tables *)
Lemma status_json_roundtrip_b :
  forallb (fun v => opt_is (parse_status_json (print_status_json v)) v) declared_values = true.
Proof. vm_compute. reflexivity. Qed.

Theorem status_json_roundtrip :
  forall v, In v declared_values -> parse_status_json (print_status_json v) = Some v.
Proof.
  intros v Hin. apply opt_is_true.
  exact (proj1 (forallb_forall _ _) status_json_roundtrip_b v Hin).
Qed.

(* no two declared values print the same name: the effect of init()'s loop over the Go map does not
   depend on the (unspecified) iteration order *)
Lemma status_printed_names_distinct_b : nodup_strings (map status_string declared_values) = true.
Proof. vm_compute. reflexivity. Qed.

Lemma status_printed_names_distinct : NoDup (map status_string declared_values).
Proof. apply nodup_strings_NoDup, status_printed_names_distinct_b. Qed.

Theorem status_value_runtime_order_independent :
  forall order, Permutation order declared_values ->
  forall name, assoc_s name (status_value_runtime_of order) = assoc_s name status_value_runtime.
Proof.
  intros order HP name. unfold status_value_runtime, status_value_runtime_of.
  destruct status_init_registers_printed_names; [|reflexivity].
  rewrite !assoc_s_app.
  assert (HP' : Permutation (status_value_aliases_of order) (status_value_aliases_of declared_values)).
  { unfold status_value_aliases_of. rewrite <- !Permutation_rev. apply Permutation_map, HP. }
  rewrite (assoc_s_perm _ _ HP'); [reflexivity|].
  eapply Permutation_NoDup.
  - apply Permutation_map. symmetry. exact HP'.
  - unfold status_value_aliases_of. rewrite map_rev, map_map. cbn [fst].
    apply NoDup_rev, status_printed_names_distinct.
Qed.

Theorem status_json_roundtrip_any_init_order :
  forall order, Permutation order declared_values ->
  forall v, In v declared_values ->
  parse_enum_json (status_value_runtime_of order) (print_status_json v) = Some v.
Proof.
  intros order HP v Hin. rewrite <- (status_json_roundtrip v Hin).
  unfold parse_status_json, parse_enum_json.
  destruct (print_status_json v) as [|c r]; [reflexivity|].
  destruct (Ascii.eqb c StatusCodec.dquote); [|reflexivity].
  apply status_value_runtime_order_independent, HP.
Qed.

(* the generated STATUS_* names are accepted as well and mean the declared numbers *)
Lemma status_generated_names_parse_b :
  forallb (fun p => opt_is (parse_status_json (StatusCodec.quote (snd p))) (fst p)) status_name_pb = true.
Proof. vm_compute. reflexivity. Qed.

Theorem status_generated_names_parse :
  forall v name, In (v, name) status_name_pb -> parse_status_json (StatusCodec.quote name) = Some v.
Proof.
  intros v name Hin. apply opt_is_true.
  exact (proj1 (forallb_forall _ _) status_generated_names_parse_b (v, name) Hin).
Qed.

(* the historical defect (before `fix: Status values printed in JSON can be parsed back`): with the generated
   table alone the printed form of a declared value is not read back *)
Definition status_json_roundtrip_generated_only : Prop :=
  forall v, In v declared_values -> parse_status_json_generated_only (print_status_json v) = Some v.

Theorem status_json_roundtrip_generated_only_refuted :
  exists v, In v declared_values /\ parse_status_json_generated_only (print_status_json v) <> Some v.
Proof. exists 1%Z. split; [vm_compute; tauto|vm_compute; discriminate]. Qed.

Corollary status_json_roundtrip_generated_only_false : ~ status_json_roundtrip_generated_only.
Proof.
  intros H. destruct status_json_roundtrip_generated_only_refuted as [v [Hin Hne]]. exact (Hne (H v Hin)).
Qed.

(* boundary of the claim: a number outside the declared enum is printed by String()'s default arm and so is
   NOT preserved by JSON (the binary encoding keeps it); such a value is rejected by every ValidateBasic /
   genesis Validate of the hub and cannot be stored *)
Theorem status_json_undeclared_not_preserved :
  exists v, ~ In v declared_values /\ status_is_valid v = false /\
            parse_status_json (print_status_json v) = Some 0%Z /\ v <> 0%Z.
Proof.
  exists 7%Z. split; [|split; [|split]].
  - vm_compute. intuition discriminate.
  - vm_compute. reflexivity.
  - vm_compute. reflexivity.
  - discriminate.
Qed.

(* IsValid accepts declared values only; StatusFromString reads back String() *)
Lemma status_valid_declared_b : forallb (fun v => existsb (Z.eqb v) declared_values) status_is_valid_values = true.
Proof. vm_compute. reflexivity. Qed.

Theorem status_valid_is_declared : forall v, status_is_valid v = true -> In v declared_values.
Proof.
  intros v H. unfold status_is_valid in H. apply existsb_exists in H as [w [Hw E]].
  apply Z.eqb_eq in E. subst w.
  pose proof (proj1 (forallb_forall _ _) status_valid_declared_b v Hw) as H2. cbv beta in H2.
  apply existsb_exists in H2 as [w [Hw2 E]]. apply Z.eqb_eq in E. subst. exact Hw2.
Qed.

Lemma status_from_string_roundtrip_b :
  forallb (fun v => Z.eqb (status_from_string (status_string v)) v) declared_values = true.
Proof. vm_compute. reflexivity. Qed.

Theorem status_from_string_roundtrip :
  forall v, In v declared_values -> status_from_string (status_string v) = v.
Proof.
  intros v Hin. apply Z.eqb_eq.
  exact (proj1 (forallb_forall _ _) status_from_string_roundtrip_b v Hin).
Qed.

(* ------------------------------------------------------------------------------------------- *)
(* Status: a bare number is read back as that number (every int32, declared or not)            *)
(* ------------------------------------------------------------------------------------------- *)
Lemma to_uint_head_nonzero p d' : Pos.to_uint p <> Decimal.D0 d'.
Proof.
  intros E.
  pose proof (DecimalPos.Unsigned.to_of (Pos.to_uint p)) as H.
  rewrite DecimalPos.Unsigned.of_to in H. cbn [N.to_uint] in H.
  unfold Decimal.unorm in H.
  destruct (Decimal.nzhead (Pos.to_uint p)) eqn:En;
    try (rewrite E in H; discriminate H).
  - exact (DecimalPos.Unsigned.to_uint_nonzero p H).
  - exact (DecimalFacts.nzhead_nonzero _ _ En).
Qed.

Lemma all_digits_string_of_uint d : all_digits (NilEmpty.string_of_uint d) = true.
Proof. induction d; cbn; auto. Qed.

Lemma json_uint_literal_to_uint p : json_uint_literal (NilZero.string_of_uint (Pos.to_uint p)) = true.
Proof.
  pose proof (DecimalPos.Unsigned.to_uint_nonnil p) as Hn.
  pose proof (to_uint_head_nonzero p) as Hz.
  destruct (Pos.to_uint p) as [|u|u|u|u|u|u|u|u|u|u]; [congruence | exfalso; exact (Hz u eq_refl) | ..];
    cbn; apply all_digits_string_of_uint.
Qed.

Lemma json_int_literal_itoa z : json_int_literal (itoa z) = true.
Proof.
  destruct z as [|p|p]; [reflexivity | |].
  - unfold itoa. cbn [Z.to_int NilZero.string_of_int].
    pose proof (json_uint_literal_to_uint p) as H.
    pose proof (DecimalPos.Unsigned.to_uint_nonnil p) as Hn.
    pose proof (to_uint_head_nonzero p) as Hz.
    destruct (Pos.to_uint p) as [|u|u|u|u|u|u|u|u|u|u]; [congruence | exfalso; exact (Hz u eq_refl) | ..];
      exact H.
  - unfold itoa. cbn [Z.to_int NilZero.string_of_int]. cbn [json_int_literal].
    change (Ascii.eqb "-" "-") with true. cbv iota. apply json_uint_literal_to_uint.
Qed.

Lemma parse_int32_json_itoa z : in_int32 z = true -> parse_int32_json (itoa z) = Some z.
Proof.
  intros Hr. unfold parse_int32_json. rewrite json_int_literal_itoa.
  unfold itoa. rewrite NilZero.isi.
  - rewrite DecimalZ.of_to, Hr. reflexivity.
  - destruct z as [|p|p]; cbn; try discriminate.
    intros E. injection E as E. exact (DecimalPos.Unsigned.to_uint_nonnil p E).
  - destruct z as [|p|p]; cbn; try discriminate.
    intros E. injection E as E. exact (DecimalPos.Unsigned.to_uint_nonnil p E).
Qed.

Definition starts_numeric (s : string) : bool :=
  match s with
  | String c _ => (is_digit c || Ascii.eqb c "-"%char)%bool
  | EmptyString => false
  end.

Lemma parse_enum_json_numeric table s :
  starts_numeric s = true -> parse_enum_json table s = parse_int32_json s.
Proof.
  destruct s as [|c r]; [discriminate|].
  destruct c as [[] [] [] [] [] [] [] []]; cbn; try discriminate; intros _; reflexivity.
Qed.

Lemma starts_numeric_itoa z : starts_numeric (itoa z) = true.
Proof.
  pose proof (json_int_literal_itoa z) as H.
  destruct (itoa z) as [|c r]; [discriminate|].
  unfold json_int_literal in H. cbn [starts_numeric].
  destruct (Ascii.eqb c "-") eqn:E; [apply orb_true_r|].
  unfold json_uint_literal in H. destruct (Ascii.eqb c "0") eqn:E0.
  - apply Ascii.eqb_eq in E0. subst c. reflexivity.
  - apply andb_true_iff in H as [H _].
    unfold is_digit19 in H. unfold is_digit. apply andb_true_iff in H as [H1 H2].
    rewrite H2. apply Nat.leb_le in H1. rewrite orb_false_r, andb_true_r. apply Nat.leb_le. lia.
Qed.

Theorem status_json_number_roundtrip :
  forall z, in_int32 z = true -> parse_status_json (itoa z) = Some z.
Proof.
  intros z Hr. unfold parse_status_json.
  rewrite parse_enum_json_numeric by apply starts_numeric_itoa.
  apply parse_int32_json_itoa, Hr.
Qed.

(* ------------------------------------------------------------------------------------------- *)
(* EthereumHash: hex, SetBytes / BytesToHash, binary and JSON round trips                      *)
(* ------------------------------------------------------------------------------------------- *)
Local Open Scope N_scope.

Definition nibbles : list N := map N.of_nat (seq 0 16).

Lemma nibble_in n : n < 16 -> In n nibbles.
Proof.
  intros H. unfold nibbles. rewrite <- (N2Nat.id n). apply in_map, in_seq. lia.
Qed.

Definition optN_is (o : option N) (v : N) : bool := match o with Some v' => N.eqb v' v | None => false end.

Lemma nibble_roundtrip_b :
  forallb (fun n => optN_is (from_hex_char (hexdigit n)) n && optN_is (from_hex_char (upper_hex_char (hexdigit n))) n
                    && plain_char (hexdigit n))%bool nibbles = true.
Proof. vm_compute. reflexivity. Qed.

Lemma nibble_facts n : n < 16 ->
  from_hex_char (hexdigit n) = Some n /\ from_hex_char (upper_hex_char (hexdigit n)) = Some n /\
  plain_char (hexdigit n) = true.
Proof.
  intros H. pose proof (proj1 (forallb_forall _ _) nibble_roundtrip_b n (nibble_in n H)) as Hb.
  cbv beta in Hb. apply andb_true_iff in Hb as [Hb H3]. apply andb_true_iff in Hb as [H1 H2].
  assert (Hopt : forall o v, optN_is o v = true -> o = Some v).
  { intros [v'|] v; cbn; [|discriminate]. intros E. apply N.eqb_eq in E. subst. reflexivity. }
  auto.
Qed.

Lemma byte_split b : b < 256 -> b / 16 < 16 /\ b mod 16 < 16 /\ b / 16 * 16 + b mod 16 = b.
Proof.
  intros H. split; [|split].
  - apply N.div_lt_upper_bound; lia.
  - apply N.mod_lt. lia.
  - pose proof (N.div_mod b 16). lia.
Qed.

(* hex.DecodeString (hex.EncodeToString l) = l, for every byte list *)
Theorem hex_roundtrip : forall l, bytes_ok l -> hex_decode (hex_encode l) = Some l.
Proof.
  intros l Hok. induction Hok as [|b l Hb _ IH]; [reflexivity|].
  destruct (byte_split b Hb) as [H1 [H2 H3]].
  cbn [hex_encode hex_decode].
  rewrite (proj1 (nibble_facts _ H1)), (proj1 (nibble_facts _ H2)), IH, H3. reflexivity.
Qed.

(* ... and the upper-case spelling of the same text decodes to the same bytes *)
Theorem hex_roundtrip_upper : forall l, bytes_ok l -> hex_decode (upper_hex (hex_encode l)) = Some l.
Proof.
  intros l Hok. induction Hok as [|b l Hb _ IH]; [reflexivity|].
  destruct (byte_split b Hb) as [H1 [H2 H3]].
  cbn [hex_encode upper_hex hex_decode].
  rewrite (proj1 (proj2 (nibble_facts _ H1))), (proj1 (proj2 (nibble_facts _ H2))), IH, H3. reflexivity.
Qed.

Theorem hex_encode_length : forall l, String.length (hex_encode l) = (2 * List.length l)%nat.
Proof. induction l as [|b l IH]; cbn [hex_encode String.length List.length]; lia. Qed.

(* an odd number of characters never decodes *)
Theorem hex_decode_length : forall s l, hex_decode s = Some l -> String.length s = (2 * List.length l)%nat.
Proof.
  fix IH 1. intros s l. destruct s as [|a [|b r]]; cbn [hex_decode].
  - intros E. injection E as <-. reflexivity.
  - discriminate.
  - destruct (from_hex_char a), (from_hex_char b); try discriminate.
    destruct (hex_decode r) as [l'|] eqn:E; try discriminate.
    intros E2. injection E2 as <-. cbn [String.length List.length]. rewrite (IH r l' E). lia.
Qed.

Lemma firstn_repeat {A} (x : A) k n : firstn k (repeat x n) = repeat x (Nat.min k n).
Proof.
  revert n. induction k as [|k IH]; intros [|n]; cbn; try reflexivity. f_equal. apply IH.
Qed.

Lemma zero_hash_length : List.length zero_hash = HASH_LEN.
Proof. apply repeat_length. Qed.

(* the result always has 32 bytes *)
Theorem set_bytes_length : forall e b, List.length e = HASH_LEN -> List.length (set_bytes e b) = HASH_LEN.
Proof.
  intros e b He. unfold set_bytes.
  destruct (Nat.ltb HASH_LEN (List.length b)) eqn:E.
  - apply Nat.ltb_lt in E. rewrite app_length, firstn_length, skipn_length. lia.
  - apply Nat.ltb_ge in E. rewrite app_length, firstn_length. lia.
Qed.

Theorem bytes_to_hash_length : forall b, List.length (bytes_to_hash b) = HASH_LEN.
Proof. intros b. apply set_bytes_length, zero_hash_length. Qed.

(* shorter input is left-padded with zero bytes, longer input keeps its last 32 bytes *)
Theorem bytes_to_hash_short : forall b, (List.length b <= HASH_LEN)%nat ->
  bytes_to_hash b = repeat 0 (HASH_LEN - List.length b) ++ b.
Proof.
  intros b H. unfold bytes_to_hash, set_bytes.
  destruct (Nat.ltb HASH_LEN (List.length b)) eqn:E; [apply Nat.ltb_lt in E; lia|].
  unfold zero_hash. rewrite firstn_repeat. f_equal. f_equal. lia.
Qed.

Theorem bytes_to_hash_long : forall b, (HASH_LEN < List.length b)%nat ->
  bytes_to_hash b = skipn (List.length b - HASH_LEN) b.
Proof.
  intros b H. unfold bytes_to_hash, set_bytes.
  apply Nat.ltb_lt in H. rewrite H. apply Nat.ltb_lt in H.
  rewrite skipn_length. replace (HASH_LEN - _)%nat with 0%nat by lia. reflexivity.
Qed.

Theorem bytes_to_hash_exact : forall b, List.length b = HASH_LEN -> bytes_to_hash b = b.
Proof.
  intros b H. rewrite bytes_to_hash_short by lia. rewrite H, Nat.sub_diag. reflexivity.
Qed.

(* binary: Unmarshal (Marshal e) = e for every 32-byte value *)
Theorem hash_binary_roundtrip : forall e, List.length e = HASH_LEN -> hash_unmarshal (hash_marshal e) = e.
Proof. intros e H. apply bytes_to_hash_exact, H. Qed.

(* JSON string layer on text without escapes *)
Fixpoint all_plain (s : string) : bool :=
  match s with
  | EmptyString => true
  | String c r => (plain_char c && all_plain r)%bool
  end.

Lemma plain_not_quote c : plain_char c = true -> Ascii.eqb c HashCodec.dquote = false.
Proof.
  intros H. destruct (Ascii.eqb c HashCodec.dquote) eqn:E; [|reflexivity].
  apply Ascii.eqb_eq in E. subst c. vm_compute in H. discriminate.
Qed.

Lemma unquote_body_plain s : all_plain s = true -> unquote_body (s ++ String HashCodec.dquote EmptyString) = JOk s.
Proof.
  induction s as [|c r IH]; cbn [all_plain append unquote_body]; intros H.
  - rewrite Ascii.eqb_refl. reflexivity.
  - apply andb_true_iff in H as [Hc Hr]. rewrite (plain_not_quote c Hc), Hc, (IH Hr). reflexivity.
Qed.

Theorem json_unquote_quote : forall s, all_plain s = true -> json_unquote (HashCodec.quote s) = JOk s.
Proof.
  intros s H. unfold json_unquote, HashCodec.quote. rewrite Ascii.eqb_refl. apply unquote_body_plain, H.
Qed.

Lemma hex_encode_plain l : bytes_ok l -> all_plain (hex_encode l) = true.
Proof.
  intros Hok. induction Hok as [|b l Hb _ IH]; [reflexivity|].
  destruct (byte_split b Hb) as [H1 [H2 _]].
  cbn [hex_encode all_plain].
  rewrite (proj2 (proj2 (nibble_facts _ H1))), (proj2 (proj2 (nibble_facts _ H2))), IH. reflexivity.
Qed.

(* JSON: UnmarshalJSON (MarshalJSON e) = e for every 32-byte value *)
Theorem hash_json_roundtrip : forall e, List.length e = HASH_LEN -> bytes_ok e ->
  hash_unmarshal_json (hash_marshal_json e) = JOk e.
Proof.
  intros e Hl Hok. unfold hash_unmarshal_json, hash_marshal_json.
  rewrite json_unquote_quote by (apply hex_encode_plain, Hok).
  rewrite hex_roundtrip by exact Hok. rewrite bytes_to_hash_exact by exact Hl. reflexivity.
Qed.

(* what is NOT preserved: values that are not 32 bytes long are normalised to 32 bytes on reading *)
Theorem hash_unmarshal_not_injective :
  exists d1 d2, d1 <> d2 /\ hash_unmarshal d1 = hash_unmarshal d2.
Proof. exists [], [0]. split; [discriminate|vm_compute; reflexivity]. Qed.
