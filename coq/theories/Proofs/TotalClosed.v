(* C03: the no-halt theorem.  The Section hypotheses of Total.v are discharged by Range.v; the
   combined invariant [hook_inv] is inductive over every operation, holds at genesis, and
   implies that neither block hook can panic -- so no well-formed history ever halts. *)
From Hub Require Import Base.Prelude Base.Arith Model.Types Model.Keeper Model.Handlers Model.Hooks Model.Step.
From Hub Require Import Proofs.Tactics Proofs.Sorting Proofs.Frames Proofs.Money Proofs.KeysInv Proofs.ArithThm Proofs.Quota Proofs.Pricing
  Proofs.IndexSess Proofs.IndexNode Proofs.InvDefs Proofs.IndexSub Proofs.Listing Proofs.IndexSub2 Proofs.IndexPlan Proofs.IndexAll Proofs.Link
  Proofs.Ledger1 Proofs.Ledger2 Proofs.Ledger3 Proofs.LedgerClosed Proofs.RangeDefs Proofs.Range Proofs.Total.

Lemma rps s e s' : kinv s -> range_inv s -> payout_step s e = Ok s' -> range_inv s'.
Proof. intros _. apply range_payout_step. Qed.

(** * the hooks, with the range hypotheses discharged *)

Theorem begin_block_never_panics s t :
  hook_inv s -> now s < t -> exists s', begin_block (clear_events s <| now := t |>) = Ok s' /\ hook_inv s'.
Proof. exact (begin_block_total rps range_session_expire_one range_sub_expire_one range_node_end_block range_mint_begin_block s t). Qed.

Theorem end_block_never_panics s :
  hook_inv s -> exists s', end_block (clear_events s) = Ok s' /\ hook_inv s' /\ now s' = now s.
Proof. exact (end_block_total range_session_expire_one range_sub_expire_one range_node_end_block s). Qed.

(* each iteration of each hook loop, for the record *)
Theorem payout_never_panics s e : hook_inv s -> e ∈ pay_q s -> exists s', payout_step s e = Ok s'.
Proof. apply payout_step_total. Qed.
Theorem session_expiry_never_panics s e : hook_inv s -> e ∈ sess_q s -> exists s', session_expire_one s e = Ok s'.
Proof. apply session_expire_one_total. Qed.
Theorem subscription_expiry_never_panics s e : hook_inv s -> e ∈ sub_q s -> exists s', sub_expire_one s e = Ok s'.
Proof. apply sub_expire_one_total. Qed.

(** * [range_inv] over one operation *)

Lemma range_step s o s' : kinv s -> quota_inv s -> range_inv s -> wf_op_c03 s o -> step s o = OOk s' -> range_inv s'.
Proof.
  intros Hi Hq Hr (_ & W2 & W3). unfold step. destruct o.
  - destruct (begin_block _) as [x| |] eqn:H; try discriminate. intros [= <-].
    unfold begin_block in H. apply rbind_ok in H as (s1 & Hm & H).
    assert (Hr0 : range_inv (clear_events s <| now := t |>)) by (eapply range_frame; [..|exact Hr]; reflexivity).
    pose proof (range_mint_begin_block _ _ Hr0 Hm) as Hr1.
    unfold sub_begin_block in H. eapply (rfold_inv range_inv); [|exact Hr1|exact H].
    intros a e b Ha Hs. eapply range_payout_step; eauto.
  - unfold run_tx. destruct (validate_basic m) eqn:Hv; [|discriminate].
    destruct (handle _ m) as [x| |] eqn:H; try discriminate. intros [= <-].
    eapply range_handle; [apply kinv_clear; exact Hi| | |exact Hv| | |exact H].
    + eapply (quota_inv_frame s); [..|exact Hq]; reflexivity.
    + apply range_clear. exact Hr.
    + exact W2.
    + exact W3.
  - destruct (forallb pchange_valid _); [|discriminate]. intros [= <-]. apply (fold_left_inv range_inv).
    + intros x c Hx. pose proof (apply_pchange_keeps x c). eapply range_keeps; eauto.
    + apply range_clear. exact Hr.
  - destruct (end_block _) as [se| |] eqn:H; try discriminate. intros [= <-].
    unfold end_block in H. apply rbind_ok in H as (s1 & H1 & H). apply rbind_ok in H as (s2 & H2 & H3).
    assert (Hi0 : kinv (clear_events s)) by (apply kinv_clear; exact Hi).
    pose proof (kinv_node_end_block _ _ Hi0 H1) as Hi1.
    pose proof (range_node_end_block _ _ Hi0 (range_clear _ Hr) H1) as Hr1.
    assert (G2 : kinv s2 /\ range_inv s2).
    { unfold session_end_block in H2. eapply (rfold_inv (fun y => kinv y /\ range_inv y)); [|split; eassumption|exact H2].
      intros a e b [Ha Hra] Hs. split; [eapply kinv_session_expire_one|eapply range_session_expire_one]; eauto. }
    assert (G3 : kinv se /\ range_inv se).
    { unfold sub_end_block in H3. eapply (rfold_inv (fun y => kinv y /\ range_inv y)); [|exact G2|exact H3].
      intros a e b [Ha Hra] Hs. split; [eapply kinv_sub_expire_one|eapply range_sub_expire_one]; eauto. }
    eapply (range_frame se); [..|apply G3]; reflexivity.
Qed.

(** * [hook_inv] is inductive *)

Lemma hook_inv_clear s : hook_inv s -> hook_inv (clear_events s).
Proof.
  intros [Hl Hq Hg Hm Hr]. split.
  - apply life_clear. exact Hl.
  - eapply quota_inv_frame; [..|exact Hq]; reflexivity.
  - eapply ledger_inv_frame; [..|exact Hg]; reflexivity.
  - apply money_inv_clear. exact Hm.
  - apply range_clear. exact Hr.
Qed.

Theorem hook_inv_step s o s' : hook_inv s -> wf_op_c03 s o -> step s o = OOk s' -> hook_inv s'.
Proof.
  intros [Hl Hq Hg Hm Hr] Hwf H. pose proof Hwf as (W1 & W2 & W3).
  pose proof (ai_k _ (lf_idx _ Hl)) as Hi. pose proof (ai_sub _ (lf_idx _ Hl)) as Hix. split.
  - eapply life_step; eauto.
  - eapply quota_step; eauto.
  - eapply ledger_step_closed; eauto.
  - eapply money_inv_step; eauto.
  - eapply range_step; eauto.
Qed.

Theorem hook_inv_init g : wf_genesis_c03 g -> hook_inv (init g).
Proof.
  intros (Hg & Hp & Hinf). split.
  - apply life_init. exact Hp.
  - apply quota_inv_init.
  - apply ledger_init.
  - apply money_inv_init. exact Hg.
  - apply range_init. exact Hinf.
Qed.

(** * no history halts *)

Lemma step_never_halts s o : hook_inv s -> wf_op_c03 s o -> step s o <> OHalt.
Proof.
  intros Hh (W1 & _ & _). unfold step. destruct o.
  - simpl in W1. destruct (begin_block_never_panics s t Hh W1) as (s' & -> & _). discriminate.
  - destruct (run_tx _ m); discriminate.
  - destruct (forallb pchange_valid _); discriminate.
  - destruct (end_block_never_panics s Hh) as (s' & -> & _). discriminate.
Qed.

Theorem run_never_halts ops : forall s i,
  hook_inv s -> wf_hist wf_op_c03 s ops -> exists s', run_from s ops i = RunOk s' /\ hook_inv s'.
Proof.
  induction ops as [|o ops IH]; simpl; intros s i Hh Hwf; [eauto|].
  destruct Hwf as [Hw1 Hw2]. pose proof (step_never_halts s o Hh Hw1) as Hnh.
  destruct (step s o) as [s1| |] eqn:E; [| |congruence].
  - apply IH; [eapply hook_inv_step; eauto|exact Hw2].
  - apply IH; [apply hook_inv_clear; exact Hh|exact Hw2].
Qed.

(* from any genesis of the configuration domain, no well-formed history halts the chain *)
Theorem chain_never_halts g ops :
  wf_genesis_c03 g -> wf_hist wf_op_c03 (init g) ops -> exists s', run (init g) ops = RunOk s' /\ hook_inv s'.
Proof. intros Hg Hwf. apply run_never_halts; [apply hook_inv_init; exact Hg|exact Hwf]. Qed.

(** * a boolean check of the premises, for concrete histories (non-vacuity examples, correspondence) *)

Lemma bal_small_sound s a : bal_small_b s a = true -> forall d, bal s a d < BIG.
Proof.
  intros H d. apply bool_decide_eq_true in H. unfold bal, amount_of.
  destruct (default ∅ (bank s !! a) !! d) as [v|] eqn:E; simpl; [exact (H _ _ E)|apply BIG_pos].
Qed.

Lemma par_ok_b_sound p : par_ok_b p = true -> par_ok p.
Proof.
  unfold par_ok_b. rewrite !andb_true_iff. intros [[[[[[[A B] C] D] E] F] G] H].
  apply Z.ltb_lt in A, B, D. apply Z.leb_le in C, E, F, G, H. split; lia.
Qed.

Lemma msg_sender_from m : msg_sender m = msg_from m.
Proof. destruct m; reflexivity. Qed.

Lemma wf_op_c03_b_sound s o : wf_op_c03_b s o = true -> wf_op_c03 s o.
Proof.
  unfold wf_op_c03, wf_op_c03_b, wf_op_life, wf_op. destruct o; intros H; rewrite ?msg_sender_from in H.
  - apply Z.ltb_lt in H. auto.
  - apply andb_true_iff in H as [H1 H2]. apply bool_decide_eq_true in H1. split; [exact I|]. split; [exact H1|]. apply bal_small_sound. exact H2.
  - split; [|auto]. intros Hgate. rewrite Hgate in H. simpl in H.
    apply andb_true_iff in H as [H1 H2]. apply bool_decide_eq_true in H2. apply Z.leb_le in H1. split; [exact H1|].
    intros sid x Hx. exact (H2 _ _ Hx).
  - auto.
Qed.

Fixpoint wf_hist_b (s : state) (ops : list op) : bool :=
  match ops with
  | [] => true
  | o :: r => wf_op_c03_b s o && match step s o with OOk s' => wf_hist_b s' r | ORejected => wf_hist_b (clear_events s) r | OHalt => true end
  end.
Lemma wf_hist_b_sound ops : forall s, wf_hist_b s ops = true -> wf_hist wf_op_c03 s ops.
Proof.
  induction ops as [|o r IH]; simpl; intros s H; [exact I|].
  apply andb_true_iff in H as [H1 H2]. split; [apply wf_op_c03_b_sound; exact H1|].
  destruct (step s o); auto.
Qed.
