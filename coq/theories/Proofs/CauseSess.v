(* C04 (run level, sessions): WHY a session is demoted or removed.  Across one whole operation a
   session goes active -> inactive-pending only by its owner's MsgEnd, by the cancellation of its
   subscription (MsgCancel of the subscription's owner), or in the end-blocker of a block at or after
   its own deadline or at or after its subscription's deadline; it is then pending until exactly
   now + the session delay.  It is removed (and settled) only in the end-blocker of a block at or after
   the end of its pending period, never while it was still active when the operation started. *)
From Hub Require Import Base.Prelude Base.Arith Model.Types Model.Keeper Model.Handlers Model.Hooks Model.Step.
From Hub Require Import Proofs.Tactics Proofs.Sorting Proofs.Frames Proofs.KeysInv Proofs.Lifecycle Proofs.Quota
  Proofs.IndexSess Proofs.IndexNode Proofs.InvDefs Proofs.IndexSub Proofs.Listing Proofs.IndexSub2 Proofs.IndexPlan Proofs.IndexAll Proofs.Link
  Proofs.Cause.

Definition pend_sess_at (s : state) (x : session) : session :=
  x <| ss_inactive_at := now s + p_sess_delay (pars s) |> <| ss_status := SPending |> <| ss_status_at := now s |>.

(** * transactions *)

(* what one transaction does to one stored session *)
Lemma handle_sess s m s' id x :
  kinv s -> idx_sess s -> handle s m = Ok s' -> sessions s !! id = Some x ->
  (exists x', sessions s' !! id = Some x' /\ ss_status x' = ss_status x /\
              (ss_status x <> SActive -> ss_inactive_at x' = ss_inactive_at x)) \/
  (ss_status x = SActive /\ sessions s' !! id = Some (pend_sess_at s x) /\
   ((exists from rating, m = MSessEnd from id rating /\ from = canon RAcc (ss_addr x)) \/
    (exists from sb, m = MSubCancel from (ss_sub x) /\ subs s !! ss_sub x = Some sb /\ ta_bytes from = sb_addr sb))).
Proof.
  intros Hi Hix H Hx. destruct (k_ss _ (ki_sess _ Hi) _ _ Hx) as (Eid & _).
  destruct m; simpl in H.
  all: try (left; exists x; split; [replace (sessions s') with (sessions s); [exact Hx|]; symmetry; handler_keeps H; keeps_solve|split; [reflexivity|reflexivity]]; fail).
  - (* cancel of a subscription: its active sessions become pending *)
    destruct (h_sub_cancel_subs _ _ _ _ (ki_sub _ Hi) H) as (sb0 & Hsb0 & Hact0 & Hown & _).
    unfold h_sub_cancel in H. rewrite Hsb0 in H.
    apply rbind_ok in H as (u & _ & H). apply rbind_ok in H as (u2 & _ & H). apply rbind_ok in H as (s2 & Hp & H).
    destruct (detach_payout_fields _ _ Err _ ltac:(intros ? ?; discriminate) H) as (D1 & _).
    match type of Hp with sub_pending_hook ?a _ = _ => set (s0 := a) in * end.
    assert (Hk0 : kinv_sess s0) by (eapply kinv_sess_frame; [..|apply (ki_sess _ Hi)]; reflexivity).
    assert (Hix0 : idx_sess s0) by (eapply idx_sess_frame; [..|exact Hix]; reflexivity).
    pose proof (sub_pending_hook_sessions s0 id0 s2 Hk0 Hix0 Hp id) as Hs.
    change (sessions s0) with (sessions s) in Hs. change (now s0) with (now s) in Hs. change (pars s0) with (pars s) in Hs.
    rewrite Hx in Hs. simpl in Hs.
    assert (E : sessions s' !! id = Some (demote_sess id0 (now s + p_sess_delay (pars s)) (now s) x)) by (rewrite D1; unfold sub_make_pending; simpl; exact Hs).
    unfold demote_sess in E. case_bool_decide as Hc.
    + destruct Hc as [<- Hact]. right. split; [exact Hact|]. split; [exact E|]. right. exists from, sb0. auto.
    + left. exists x. auto.
  - (* start of another session *)
    left. exists x. split; [|auto]. destruct (evo_h_sess_start _ _ _ _ _ (ki_sess _ Hi) H) as [_ _ _ Kp].
    apply Kp; [exact Hx|]. destruct (k_ss _ (ki_sess _ Hi) _ _ Hx) as (_ & ? & _). lia.
  - (* usage report: details change, the status does not; only an ACTIVE session's deadline is refreshed *)
    unfold h_sess_update in H. destruct (sessions s !! id0) as [x0|] eqn:Hx0; [|discriminate].
    apply rbind_ok in H as (u1 & _ & H). apply rbind_ok in H as (u2 & _ & H). apply rbind_ok in H as (u3 & _ & H).
    left. destruct (decide (id = id0)) as [->|Hne].
    + rewrite Hx in Hx0. injection Hx0 as <-. case_bool_decide as Hact; injection H as <-; simpl; rewrite lookup_insert;
        eexists; (split; [reflexivity|]); simpl; split; auto; intros; congruence.
    + exists x. split; [|auto]. case_bool_decide; injection H as <-; simpl; rewrite lookup_insert_ne by congruence; exact Hx.
  - (* end *)
    unfold h_sess_end in H. destruct (sessions s !! id0) as [x0|] eqn:Hx0; [|discriminate].
    apply rbind_ok in H as (u1 & Hact & H). apply ensure_ok, bool_decide_eq_true in Hact.
    apply rbind_ok in H as (u2 & Hown & H). apply ensure_ok in Hown. unfold ta_eqb in Hown. apply bool_decide_eq_true in Hown.
    injection H as <-. destruct (k_ss _ (ki_sess _ Hi) _ _ Hx0) as (Eid0 & _).
    unfold session_make_pending. simpl. rewrite Eid0.
    destruct (decide (id = id0)) as [->|Hne].
    + rewrite Hx in Hx0. injection Hx0 as <-. right. split; [exact Hact|]. rewrite lookup_insert. split; [reflexivity|]. left. eauto.
    + left. exists x. rewrite lookup_insert_ne by congruence. auto.
Qed.

(** * the session end-blocker, followed for one session *)

Definition sess_fate (s0 : state) (id : Z) (x : session) (y : state) : Prop :=
  sessions y !! id = Some x \/
  (ss_status x = SActive /\ ss_inactive_at x <= now s0 /\ sessions y !! id = Some (pend_sess_at s0 x)) \/
  (ss_status x <> SActive /\ ss_inactive_at x <= now s0 /\ sessions y !! id = None).

Lemma session_end_block_fate s s' id x :
  end_inv s -> session_end_block s = Ok s' -> sessions s !! id = Some x -> sess_fate s id x s'.
Proof.
  intros Hinv H Hx0. unfold session_end_block in H.
  set (P := fun (rest : list (time * Z)) (y : state) =>
              end_inv y /\ now y = now s /\ pars y = pars s /\ NoDup rest /\ (forall e, e ∈ rest -> e ∈ sess_q y /\ e.1 <= now s) /\
              ((exists t, (t, id) ∈ rest) -> sessions y !! id = Some x) /\ sess_fate s id x y).
  assert (G : P [] s').
  { eapply (IndexSub2.rfold_rest P); [| |exact H].
    - intros e rest y y' (Hy & N1 & N2 & Hnd & Hin & Hpend & Hfate) Hstep.
      apply NoDup_cons in Hnd as [Hnotin Hnd].
      destruct e as [t id1]. destruct (Hin (t, id1) ltac:(left)) as [He Hle]. simpl in Hle.
      destruct (proj1 (ix_sq _ (ei_sess _ Hy) t id1) He) as (z & Hz & Hiat).
      destruct (k_ss _ (ki_sess _ (ei_k _ Hy)) _ _ Hz) as (Eid & _).
      destruct (session_expire_one_sessions y (t, id1) y' z Hz Eid Hstep) as (M1 & M2 & M3). simpl in M3.
      pose proof (end_inv_session_expire_one _ _ _ Hy Hstep) as Hy'.
      split; [exact Hy'|]. split; [congruence|]. split; [congruence|]. split; [exact Hnd|].
      assert (Hrest : forall e, e ∈ rest -> e ∈ sess_q y' /\ e.1 <= now s).
      { intros [t' id'] He'. destruct (Hin (t', id') ltac:(right; exact He')) as [He'q Hle']. split; [|exact Hle'].
        apply (ix_sq _ (ei_sess _ Hy')). destruct (proj1 (ix_sq _ (ei_sess _ Hy) t' id') He'q) as (z' & Hz' & Hiat').
        assert (Hne : id' <> id1). { intros ->. rewrite Hz in Hz'. injection Hz' as <-. apply Hnotin. rewrite <- Hiat, Hiat'. exact He'. }
        exists z'. split; [|exact Hiat']. rewrite M3. case_bool_decide; [rewrite lookup_insert_ne by congruence|rewrite lookup_delete_ne by congruence]; exact Hz'. }
      split; [exact Hrest|].
      destruct (decide (id1 = id)) as [->|Hne].
      + assert (Hcur : sessions y !! id = Some x) by (apply Hpend; exists t; left).
        rewrite Hz in Hcur. injection Hcur as ->.
        split.
        * intros [t' Hin']. exfalso. destruct (Hin (t', id) ltac:(right; exact Hin')) as [Hq _].
          destruct (proj1 (ix_sq _ (ei_sess _ Hy) t' id) Hq) as (z' & Hz' & Hiat'). rewrite Hz in Hz'. injection Hz' as <-.
          apply Hnotin. rewrite <- Hiat, Hiat'. exact Hin'.
        * rewrite <- Hiat in Hle. unfold sess_fate. rewrite M3. case_bool_decide as Hact.
          -- right. left. split; [exact Hact|]. split; [exact Hle|]. rewrite lookup_insert. unfold pend_sess_at. rewrite N1, N2. reflexivity.
          -- right. right. split; [exact Hact|]. split; [exact Hle|]. apply lookup_delete.
      + assert (Hsame : sessions y' !! id = sessions y !! id).
        { rewrite M3. case_bool_decide; [rewrite lookup_insert_ne by congruence|rewrite lookup_delete_ne by congruence]; reflexivity. }
        split.
        * intros [t' Hin']. rewrite Hsame. apply Hpend. exists t'. right. exact Hin'.
        * unfold sess_fate in *. rewrite Hsame. exact Hfate.
    - split; [exact Hinv|]. split; [reflexivity|]. split; [reflexivity|]. split; [apply NoDup_due_z|]. split.
      + intros e He. apply elem_of_due_z in He. tauto.
      + split; [intros _; exact Hx0|left; exact Hx0]. }
  destruct G as (_ & _ & _ & _ & _ & _ & G). exact G.
Qed.

(** * the subscription end-blocker, followed for one session and its subscription *)

(* session [sid] (stored as [y], of subscription [k] stored as [sbk], when the loop started) is either
   untouched or was demoted together with its subscription *)
Definition sess_via_sub (s0 : state) (sid : Z) (y : session) (sbk : subscription) (z : state) : Prop :=
  sessions z !! sid = Some y \/
  (ss_status y = SActive /\ sb_status sbk = SActive /\ sb_inactive_at sbk <= now s0 /\ sessions z !! sid = Some (pend_sess_at s0 y)).

Lemma sub_end_block_sess_fate s s' sid y sbk :
  end_inv s -> sess_fresh s -> sub_end_block s = Ok s' -> sessions s !! sid = Some y -> subs s !! ss_sub y = Some sbk ->
  sess_via_sub s sid y sbk s'.
Proof.
  intros Hinv Hfr H Hy0 Hsb0. unfold sub_end_block in H. set (k := ss_sub y) in *.
  set (P := fun (rest : list (time * Z)) (x : state) =>
              end_inv x /\ sess_fresh x /\ now x = now s /\ pars x = pars s /\ NoDup rest /\
              (forall e, e ∈ rest -> e ∈ sub_q x /\ e.1 <= now s) /\
              ((exists t, (t, k) ∈ rest) -> subs x !! k = Some sbk) /\ sess_via_sub s sid y sbk x).
  assert (G : P [] s').
  { eapply (IndexSub2.rfold_rest P); [| |exact H].
    - intros e rest x x' (Hx & Hfx & N1 & N2 & Hnd & Hin & Hpend & Hfate) Hstep.
      apply NoDup_cons in Hnd as [Hnotin Hnd].
      destruct e as [t id1]. destruct (Hin (t, id1) ltac:(left)) as [He Hle]. simpl in Hle.
      destruct (proj1 (ix_subq _ (ei_sub _ Hx) t id1) He) as (sb1 & Hsb1 & Hiat).
      destruct (k_sub _ (ki_sub _ (ei_k _ Hx)) _ _ Hsb1) as (Eid & _).
      destruct (sub_expire_one_effect x (t, id1) x' sb1 (ei_k _ Hx) (ei_sess _ Hx) Hsb1 Eid Hstep) as (M1 & M2 & M3 & M4). simpl in M3, M4.
      assert (Hx' : end_inv x').
      { destruct Hx as [A B C D E]. split.
        - eapply kinv_sub_expire_one; eauto.
        - eapply idx_sess_sub_expire_one; eauto.
        - eapply idx_sub_expire_one; eauto.
        - rewrite M2. exact D.
        - eapply link_sub_expire_one; eauto. simpl. lia. }
      split; [exact Hx'|]. split.
      { intros sid0 y0 Hy. rewrite M4 in Hy. rewrite M1. case_bool_decide.
        - destruct (sessions x !! sid0) as [y1|] eqn:Hy1; [|discriminate]. simpl in Hy. injection Hy as <-.
          unfold demote_sess. case_bool_decide; simpl; [destruct (ei_par _ Hx); lia|apply (Hfx _ _ Hy1)].
        - apply (Hfx _ _ Hy). }
      split; [congruence|]. split; [congruence|]. split; [exact Hnd|].
      assert (Hrest : forall e, e ∈ rest -> e ∈ sub_q x' /\ e.1 <= now s).
      { intros [t' id'] He'. destruct (Hin (t', id') ltac:(right; exact He')) as [He'q Hle']. split; [|exact Hle'].
        apply (ix_subq _ (ei_sub _ Hx')). destruct (proj1 (ix_subq _ (ei_sub _ Hx) t' id') He'q) as (sb' & Hsb' & Hiat').
        assert (Hne : id' <> id1). { intros ->. rewrite Hsb1 in Hsb'. injection Hsb' as <-. apply Hnotin. rewrite <- Hiat, Hiat'. exact He'. }
        exists sb'. split; [|exact Hiat']. rewrite M3. case_bool_decide; [rewrite lookup_insert_ne by congruence|rewrite lookup_delete_ne by congruence]; exact Hsb'. }
      split; [exact Hrest|].
      destruct (decide (id1 = k)) as [->|Hne].
      + (* the session's own subscription is processed *)
        assert (Hcur : subs x !! k = Some sbk) by (apply Hpend; exists t; left).
        rewrite Hsb1 in Hcur. injection Hcur as ->.
        split.
        * intros [t' Hin']. exfalso. destruct (Hin (t', k) ltac:(right; exact Hin')) as [Hq _].
          destruct (proj1 (ix_subq _ (ei_sub _ Hx) t' k) Hq) as (sb' & Hsb' & Hiat'). rewrite Hsb1 in Hsb'. injection Hsb' as <-.
          apply Hnotin. rewrite <- Hiat, Hiat'. exact Hin'.
        * rewrite <- Hiat in Hle. unfold sess_via_sub in *. rewrite M4. case_bool_decide as Hact.
          -- destruct Hfate as [F|(F1 & F2 & F3 & F4)].
             ++ rewrite F. simpl. unfold demote_sess. case_bool_decide as Hc.
                ** right. destruct Hc as [_ Hya]. split; [exact Hya|]. split; [exact Hact|]. split; [exact Hle|].
                   unfold pend_sess_at. rewrite N1, N2. reflexivity.
                ** left. reflexivity.
             ++ right. split; [exact F1|]. split; [exact F2|]. split; [exact F3|]. rewrite F4. simpl. unfold demote_sess.
                rewrite bool_decide_eq_false_2; [reflexivity|]. simpl. intros [_ ?]. discriminate.
          -- exact Hfate.
      + (* another subscription: this session is not one of its sessions *)
        assert (Hsame : subs x' !! k = subs x !! k).
        { rewrite M3. case_bool_decide; [rewrite lookup_insert_ne by congruence|rewrite lookup_delete_ne by congruence]; reflexivity. }
        split.
        * intros [t' Hin']. rewrite Hsame. apply Hpend. exists t'. right. exact Hin'.
        * unfold sess_via_sub in *. rewrite M4. case_bool_decide as Hact; [|exact Hfate].
          destruct Hfate as [F|(F1 & F2 & F3 & F4)].
          -- left. rewrite F. simpl. unfold demote_sess. rewrite bool_decide_eq_false_2; [reflexivity|]. intros [? _]. apply Hne. symmetry. assumption.
          -- right. split; [exact F1|]. split; [exact F2|]. split; [exact F3|]. rewrite F4. simpl. unfold demote_sess.
             rewrite bool_decide_eq_false_2; [reflexivity|]. simpl. intros [_ ?]. discriminate.
    - split; [exact Hinv|]. split; [exact Hfr|]. split; [reflexivity|]. split; [reflexivity|]. split; [apply NoDup_due_z|]. split.
      + intros e He. apply elem_of_due_z in He. tauto.
      + split; [intros _; exact Hsb0|left; exact Hy0]. }
  destruct G as (_ & _ & _ & _ & _ & _ & _ & G). exact G.
Qed.

(* a session that is gone stays gone through the subscription end-blocker *)
Lemma sub_end_block_sess_none s s' sid :
  kinv s -> sub_end_block s = Ok s' -> sessions s !! sid = None -> sessions s' !! sid = None.
Proof.
  intros Hi H Hn. unfold sub_end_block in H.
  assert (G : kinv s' /\ sess_evo s s' /\ sub_evo s s').
  { eapply sess_evo_rfold; [exact Hi| |exact H].
    intros a0 e0 b0 Ha Hs. split; [eapply kinv_sub_expire_one; eauto|].
    split; [eapply evo_sub_expire_one_sess; eauto|eapply evo_sub_expire_one; [apply Ha|exact Hs]]. }
  destruct G as (_ & [_ E] & _). destruct (sessions s' !! sid) as [y|] eqn:Hy; [|reflexivity].
  destruct (E _ _ Hy) as (y0 & Hy0 & _). congruence.
Qed.

(** * the whole end-blocker *)

Definition sess_end_fate (s : state) (id : Z) (x : session) (s' : state) : Prop :=
  sessions s' !! id = Some x \/
  (ss_status x = SActive /\ sessions s' !! id = Some (pend_sess_at s x) /\
   (ss_inactive_at x <= now s \/
    exists sb, subs s !! ss_sub x = Some sb /\ sb_status sb = SActive /\ sb_inactive_at sb <= now s)) \/
  (ss_status x <> SActive /\ ss_inactive_at x <= now s /\ sessions s' !! id = None).

Lemma end_block_sess_fate s s' id x :
  life_inv s -> end_block s = Ok s' -> sessions s !! id = Some x -> sess_end_fate s id x s'.
Proof.
  intros Hl H Hx. unfold end_block in H. apply rbind_ok in H as (s1 & H1 & H). apply rbind_ok in H as (s2 & H2 & H3).
  pose proof (life_end_inv _ Hl) as [A B C D E]. pose proof (lf_link _ Hl) as [Lk]. destruct Hl as [Hall _ _].
  pose proof (node_end_block_keeps _ _ H1) as K1.
  assert (Hinv1 : end_inv s1).
  { split.
    - eapply kinv_node_end_block; eauto.
    - eapply idx_sess_keeps; eauto.
    - eapply idx_sub_keeps; eauto.
    - replace (pars s1) with (pars s) by keeps_solve. exact D.
    - eapply link_keeps; eauto. }
  destruct (session_end_block_fresh _ _ Hinv1 H2) as (Hinv2 & Sf2 & N2 & P2).
  assert (En1 : now s1 = now s) by keeps_solve. assert (Ep1 : pars s1 = pars s) by keeps_solve.
  assert (Hx1 : sessions s1 !! id = Some x) by (replace (sessions s1) with (sessions s) by (symmetry; keeps_solve); exact Hx).
  assert (Esub : subs s2 = subs s).
  { transitivity (subs s1); [|keeps_solve]. unfold session_end_block in H2.
    eapply (rfold_inv (fun y => subs y = subs s1)); [|reflexivity|exact H2].
    intros a e b Ha Hs. rewrite <- Ha. unfold session_expire_one in Hs. destruct (sessions a !! e.2) as [z|]; [|discriminate].
    case_bool_decide; [injection Hs as <-; reflexivity|].
    apply rbind_ok in Hs as (total & _ & Hs). apply rbind_ok in Hs as (a1 & Hh & Hs). apply must_ok in Hh. injection Hs as <-.
    destruct (session_inactive_hook_subfields _ _ _ _ _ _ Hh) as (S1 & _). simpl. rewrite S1. reflexivity. }
  destruct (Lk _ _ Hx) as (sbk & Hsbk & _).
  destruct (session_end_block_fate s1 s2 id x Hinv1 H2 Hx1) as [F|[(F1 & F2 & F3)|(F1 & F2 & F3)]].
  - (* untouched by the session end-blocker: follow it through the subscription end-blocker *)
    assert (Hsbk2 : subs s2 !! ss_sub x = Some sbk) by (rewrite Esub; exact Hsbk).
    destruct (sub_end_block_sess_fate s2 s' id x sbk Hinv2 Sf2 H3 F Hsbk2) as [G|(G1 & G2 & G3 & G4)].
    + left. exact G.
    + right. left. split; [exact G1|]. split.
      * rewrite G4. unfold pend_sess_at. rewrite N2, P2, En1, Ep1. reflexivity.
      * right. exists sbk. rewrite N2, En1 in G3. auto.
  - (* demoted at its own deadline *)
    assert (Hsbk2 : subs s2 !! ss_sub (pend_sess_at s1 x) = Some sbk) by (simpl; rewrite Esub; exact Hsbk).
    destruct (sub_end_block_sess_fate s2 s' id (pend_sess_at s1 x) sbk Hinv2 Sf2 H3 F3 Hsbk2) as [G|(G1 & _)]; [|simpl in G1; discriminate].
    right. left. split; [exact F1|]. split.
    + rewrite G. unfold pend_sess_at. rewrite En1, Ep1. reflexivity.
    + left. rewrite En1 in F2. exact F2.
  - (* removed (settled) at the end of its pending period *)
    right. right. split; [exact F1|]. split; [rewrite En1 in F2; exact F2|].
    eapply sub_end_block_sess_none; [apply Hinv2|exact H3|exact F3].
Qed.

(** * one whole operation *)

Theorem sess_demotion_cause s o s' id x x' :
  life_inv s -> step s o = OOk s' -> sessions s !! id = Some x -> sessions s' !! id = Some x' ->
  ss_status x = SActive -> ss_status x' = SPending ->
  ss_inactive_at x' = now s + p_sess_delay (pars s) /\
  ((exists from rating, o = OTx (MSessEnd from id rating) /\ from = canon RAcc (ss_addr x)) \/
   (exists from sb, o = OTx (MSubCancel from (ss_sub x)) /\ subs s !! ss_sub x = Some sb /\ ta_bytes from = sb_addr sb) \/
   (o = OEnd /\ (ss_inactive_at x <= now s \/
                 exists sb, subs s !! ss_sub x = Some sb /\ sb_status sb = SActive /\ sb_inactive_at sb <= now s))).
Proof.
  intros Hl Hstep Hx Hx' Hact Hpend. pose proof (ai_k _ (lf_idx _ Hl)) as Hi. pose proof (ai_sess _ (lf_idx _ Hl)) as Hix.
  unfold step in Hstep. destruct o.
  - exfalso. destruct (begin_block _) as [y| |] eqn:H; try discriminate. injection Hstep as <-.
    apply begin_block_keeps in H. assert (E : sessions y = sessions s) by keeps_solve. rewrite E, Hx in Hx'. injection Hx' as <-. congruence.
  - unfold run_tx in Hstep. destruct (validate_basic m); [|discriminate].
    destruct (handle _ m) as [y| |] eqn:H; try discriminate. injection Hstep as <-.
    destruct (handle_sess (clear_events s) m y id x (kinv_clear _ Hi) ltac:(eapply idx_sess_frame; [..|exact Hix]; reflexivity) H Hx)
      as [(x1 & Hx1 & Hst & _)|(_ & Hx1 & Hc)].
    + rewrite Hx1 in Hx'. injection Hx' as <-. congruence.
    + rewrite Hx1 in Hx'. injection Hx' as <-. split; [reflexivity|].
      destruct Hc as [(from & r & -> & Hf)|(from & sb & -> & Hsb & Hf)]; [left; eauto|right; left; eauto].
  - exfalso. destruct (forallb pchange_valid _); [|discriminate]. injection Hstep as <-. destruct (fold_pchange_fields cs (clear_events s)) as (G1 & _). rewrite G1 in Hx'. simpl in Hx'.
    rewrite Hx in Hx'. injection Hx' as <-. congruence.
  - destruct (end_block _) as [y| |] eqn:H; try discriminate. injection Hstep as <-.
    destruct (end_block_sess_fate (clear_events s) y id x (life_clear _ Hl) H Hx) as [F|[(F1 & F2 & F3)|(F1 & F2 & F3)]]; simpl in *.
    + rewrite F in Hx'. injection Hx' as <-. congruence.
    + rewrite F2 in Hx'. injection Hx' as <-. split; [reflexivity|]. right. right. split; [reflexivity|exact F3].
    + rewrite F3 in Hx'. discriminate.
Qed.

Theorem sess_removal_cause s o s' id x :
  life_inv s -> step s o = OOk s' -> sessions s !! id = Some x -> sessions s' !! id = None ->
  o = OEnd /\ ss_status x = SPending /\ ss_inactive_at x <= now s.
Proof.
  intros Hl Hstep Hx Hnone. pose proof (ai_k _ (lf_idx _ Hl)) as Hi. pose proof (ai_sess _ (lf_idx _ Hl)) as Hix.
  unfold step in Hstep. destruct o.
  - exfalso. destruct (begin_block _) as [y| |] eqn:H; try discriminate. injection Hstep as <-.
    apply begin_block_keeps in H. assert (E : sessions y = sessions s) by keeps_solve. rewrite E, Hx in Hnone. discriminate.
  - exfalso. unfold run_tx in Hstep. destruct (validate_basic m); [|discriminate].
    destruct (handle _ m) as [y| |] eqn:H; try discriminate. injection Hstep as <-.
    destruct (handle_sess (clear_events s) m y id x (kinv_clear _ Hi) ltac:(eapply idx_sess_frame; [..|exact Hix]; reflexivity) H Hx)
      as [(x1 & Hx1 & _)|(_ & Hx1 & _)]; rewrite Hx1 in Hnone; discriminate.
  - exfalso. destruct (forallb pchange_valid _); [|discriminate]. injection Hstep as <-. destruct (fold_pchange_fields cs (clear_events s)) as (G1 & _). rewrite G1 in Hnone. simpl in Hnone.
    rewrite Hx in Hnone. discriminate.
  - destruct (end_block _) as [y| |] eqn:H; try discriminate. injection Hstep as <-.
    destruct (end_block_sess_fate (clear_events s) y id x (life_clear _ Hl) H Hx) as [F|[(F1 & F2 & F3)|(F1 & F2 & F3)]]; simpl in *.
    + rewrite F in Hnone. discriminate.
    + rewrite F2 in Hnone. discriminate.
    + split; [reflexivity|]. split; [|exact F2].
      destruct (k_ss _ (ki_sess _ Hi) _ _ Hx) as (_ & _ & [Hs|Hs]); [contradiction|exact Hs].
Qed.

(* a pending session's deadline never moves: it is removed exactly when the pending period it was given ends *)
Theorem pending_session_deadline_fixed s o s' id x x' :
  life_inv s -> step s o = OOk s' -> sessions s !! id = Some x -> sessions s' !! id = Some x' ->
  ss_status x = SPending -> ss_status x' = SPending /\ ss_inactive_at x' = ss_inactive_at x.
Proof.
  intros Hl Hstep Hx Hx' Hp. pose proof (ai_k _ (lf_idx _ Hl)) as Hi. pose proof (ai_sess _ (lf_idx _ Hl)) as Hix.
  unfold step in Hstep. destruct o.
  - destruct (begin_block _) as [y| |] eqn:H; try discriminate. injection Hstep as <-.
    apply begin_block_keeps in H. assert (E : sessions y = sessions s) by keeps_solve. rewrite E, Hx in Hx'. injection Hx' as <-. auto.
  - unfold run_tx in Hstep. destruct (validate_basic m); [|discriminate].
    destruct (handle _ m) as [y| |] eqn:H; try discriminate. injection Hstep as <-.
    destruct (handle_sess (clear_events s) m y id x (kinv_clear _ Hi) ltac:(eapply idx_sess_frame; [..|exact Hix]; reflexivity) H Hx)
      as [(x1 & Hx1 & Hst & Hiat)|(Hact & _)]; [|congruence].
    rewrite Hx1 in Hx'. injection Hx' as <-. split; [congruence|]. apply Hiat. congruence.
  - destruct (forallb pchange_valid _); [|discriminate]. injection Hstep as <-. destruct (fold_pchange_fields cs (clear_events s)) as (G1 & _). rewrite G1 in Hx'. simpl in Hx'.
    rewrite Hx in Hx'. injection Hx' as <-. auto.
  - destruct (end_block _) as [y| |] eqn:H; try discriminate. injection Hstep as <-.
    destruct (end_block_sess_fate (clear_events s) y id x (life_clear _ Hl) H Hx) as [F|[(F1 & _)|(_ & _ & F3)]]; simpl in *.
    + rewrite F in Hx'. injection Hx' as <-. auto.
    + congruence.
    + rewrite F3 in Hx'. discriminate.
Qed.
