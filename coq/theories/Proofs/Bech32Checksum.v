(* bech32 checksum (Base/Bech32.v): polymod is affine over GF(2), hence the six symbols
   Encode appends make VerifyChecksum succeed, for every human-readable part and data. *)
From Coq Require Import Btauto.
From Hub Require Import Base.Prelude Base.Bytes Base.Bech32 Proofs.BytesThm.
From Coq Require Import ZifyN ZifyNat ZifyBool.
Local Open Scope N_scope.

(* ------------------------------------------------------------------------- *)
(* small numbers                                                               *)
(* ------------------------------------------------------------------------- *)
Lemma testbit_small x n m : x < 2 ^ n -> n <= m -> N.testbit x m = false.
Proof.
  intros Hx Hm. destruct (N.eq_dec x 0) as [->|Hne]; [apply N.bits_0|].
  apply N.bits_above_log2. apply N.log2_lt_pow2 in Hx; lia.
Qed.

Lemma small_testbit x n : (forall m, n <= m -> N.testbit x m = false) -> x < 2 ^ n.
Proof.
  intros H. destruct (N.lt_ge_cases x (2 ^ n)) as [Hlt|Hge]; [exact Hlt|exfalso].
  assert (Hne : x <> 0) by (assert (0 < 2 ^ n) by (apply N.neq_0_lt_0, N.pow_nonzero; discriminate); lia).
  assert (Hl : n <= N.log2 x) by (apply N.log2_le_pow2; lia).
  assert (Hb := N.bit_log2 x Hne). rewrite (H _ Hl) in Hb. discriminate.
Qed.

Definition small30 (x : N) : Prop := forall m, 30 <= m -> N.testbit x m = false.

Lemma small30_lt x : x < 2 ^ 30 -> small30 x.
Proof. intros H m Hm. apply (testbit_small x 30 m H Hm). Qed.

Lemma small30_lxor a b : small30 a -> small30 b -> small30 (N.lxor a b).
Proof. intros Ha Hb m Hm. rewrite N.lxor_spec, Ha, Hb by exact Hm. reflexivity. Qed.

Lemma small30_sel b i g : g < 2 ^ 30 -> small30 (sel b i g).
Proof. intros Hg. unfold sel. destruct (N.testbit b i); [apply small30_lt, Hg|intros m _; apply N.bits_0]. Qed.

Lemma small30_gen_mix b : small30 (gen_mix b).
Proof.
  unfold gen_mix. repeat apply small30_lxor; apply small30_sel; reflexivity.
Qed.

Lemma MASK25_ones : MASK25 = N.ones 25.
Proof. reflexivity. Qed.

(* whatever the state, one round with a small value yields a 30-bit state *)
Lemma small30_pm_step chk v : small30 v -> small30 (pm_step chk v).
Proof.
  intros Hv. unfold pm_step. apply small30_lxor; [apply small30_lxor; [|exact Hv]|apply small30_gen_mix].
  intros m Hm. rewrite N.shiftl_spec_high' by lia. rewrite N.land_spec, MASK25_ones.
  rewrite (N.ones_spec_high 25 (m - 5)) by lia. apply andb_false_r.
Qed.

(* ------------------------------------------------------------------------- *)
(* polymod is affine over GF(2)                                                *)
(* ------------------------------------------------------------------------- *)
Definition Lin (c : N) : N := pm_step c 0.

Lemma pm_step_Lin c v : pm_step c v = N.lxor (Lin c) v.
Proof.
  unfold Lin, pm_step. apply N.bits_inj. intros n. rewrite !N.lxor_spec, N.bits_0. btauto.
Qed.

Lemma sel_lxor p q i g : sel (N.lxor p q) i g = N.lxor (sel p i g) (sel q i g).
Proof.
  unfold sel. rewrite N.lxor_spec.
  destruct (N.testbit p i), (N.testbit q i); cbn [xorb];
    rewrite ?N.lxor_nilpotent, ?N.lxor_0_r, ?N.lxor_0_l; reflexivity.
Qed.

Lemma gen_mix_lxor p q : gen_mix (N.lxor p q) = N.lxor (gen_mix p) (gen_mix q).
Proof.
  unfold gen_mix. rewrite !sel_lxor. apply N.bits_inj. intros n. rewrite !N.lxor_spec. btauto.
Qed.

Lemma land_lxor_l a b m : N.land (N.lxor a b) m = N.lxor (N.land a m) (N.land b m).
Proof. apply N.bits_inj. intros n. rewrite !N.lxor_spec, !N.land_spec, N.lxor_spec. btauto. Qed.

Lemma Lin_lxor a b : Lin (N.lxor a b) = N.lxor (Lin a) (Lin b).
Proof.
  unfold Lin, pm_step. rewrite !N.lxor_0_r, land_lxor_l, N.shiftl_lxor, N.shiftr_lxor, gen_mix_lxor.
  apply N.bits_inj. intros n. rewrite !N.lxor_spec. btauto.
Qed.

Lemma fold_affine l : forall c d,
  fold_left pm_step l (N.lxor c d) = N.lxor (fold_left pm_step l c) (fold_left pm_step (map (fun _ => 0) l) d).
Proof.
  induction l as [|v l IH]; intros c d; [reflexivity|].
  cbn [fold_left map]. rewrite <- IH. f_equal.
  rewrite !pm_step_Lin, Lin_lxor, N.lxor_0_r.
  apply N.bits_inj. intros n. rewrite !N.lxor_spec. btauto.
Qed.

(* ------------------------------------------------------------------------- *)
(* feeding the six checksum symbols                                            *)
(* ------------------------------------------------------------------------- *)
Lemma gen_mix_0 : gen_mix 0 = 0.
Proof. reflexivity. Qed.

Lemma lxor_shift_add x v : v < 32 -> N.lxor (N.shiftl x 5) v = x * 32 + v.
Proof.
  intros Hv. rewrite N.shiftl_mul_pow2. change (2 ^ 5) with 32.
  symmetry. apply N.add_nocarry_lxor. apply N.bits_inj. intros n.
  rewrite N.land_spec, N.bits_0.
  destruct (N.lt_ge_cases n 5) as [Hn|Hn].
  - change 32 with (2 ^ 5). rewrite N.mul_pow2_bits_low by exact Hn. reflexivity.
  - rewrite (testbit_small v 5 n) by (assumption || exact Hv). apply andb_false_r.
Qed.

Lemma pm_step_small x v : x < 2 ^ 25 -> v < 32 -> pm_step x v = x * 32 + v.
Proof.
  intros Hx Hv. unfold pm_step.
  rewrite MASK25_ones, N.land_ones, N.mod_small by exact Hx.
  rewrite N.shiftr_div_pow2, N.div_small by exact Hx.
  rewrite gen_mix_0, N.lxor_0_r. apply lxor_shift_add, Hv.
Qed.

Definition chunks (pm : N) : list N :=
  map (fun i => N.land (N.shiftr pm (5 * (5 - i))) 31) [0; 1; 2; 3; 4; 5].

Lemma chunk_eq pm k : N.land (N.shiftr pm (5 * k)) 31 = (pm / 32 ^ k) mod 32.
Proof.
  change 31 with (N.ones 5). rewrite N.land_ones, N.shiftr_div_pow2.
  rewrite N.pow_mul_r. reflexivity.
Qed.

Lemma fold_chunks pm : pm < 2 ^ 30 -> fold_left pm_step (chunks pm) 0 = pm.
Proof.
  intros Hpm. unfold chunks. cbn [map fold_left].
  change (5 * (5 - 0)) with (5 * 5). change (5 * (5 - 1)) with (5 * 4). change (5 * (5 - 2)) with (5 * 3).
  change (5 * (5 - 3)) with (5 * 2). change (5 * (5 - 4)) with (5 * 1). change (5 * (5 - 5)) with (5 * 0).
  rewrite !chunk_eq.
  change (32 ^ 0) with 1. change (32 ^ 1) with 32. change (32 ^ 2) with (32 * 32).
  change (32 ^ 3) with (32 * 32 * 32). change (32 ^ 4) with (32 * 32 * 32 * 32).
  change (32 ^ 5) with (32 * 32 * 32 * 32 * 32).
  rewrite N.div_1_r. rewrite <- !N.div_div by discriminate.
  set (q1 := pm / 32). set (q2 := q1 / 32). set (q3 := q2 / 32). set (q4 := q3 / 32). set (q5 := q4 / 32).
  assert (E0 := N.div_mod pm 32 ltac:(discriminate)). fold q1 in E0.
  assert (E1 := N.div_mod q1 32 ltac:(discriminate)). fold q2 in E1.
  assert (E2 := N.div_mod q2 32 ltac:(discriminate)). fold q3 in E2.
  assert (E3 := N.div_mod q3 32 ltac:(discriminate)). fold q4 in E3.
  assert (E4 := N.div_mod q4 32 ltac:(discriminate)). fold q5 in E4.
  assert (M0 := N.mod_lt pm 32 ltac:(discriminate)).
  assert (M1 := N.mod_lt q1 32 ltac:(discriminate)).
  assert (M2 := N.mod_lt q2 32 ltac:(discriminate)).
  assert (M3 := N.mod_lt q3 32 ltac:(discriminate)).
  assert (M4 := N.mod_lt q4 32 ltac:(discriminate)).
  assert (M5 := N.mod_lt q5 32 ltac:(discriminate)).
  change (2 ^ 30) with 1073741824 in Hpm.
  set (r0 := pm mod 32) in *. set (r1 := q1 mod 32) in *. set (r2 := q2 mod 32) in *.
  set (r3 := q3 mod 32) in *. set (r4 := q4 mod 32) in *.
  assert (H5 : q5 < 32) by lia.
  rewrite (N.mod_small q5 32 H5).
  rewrite (pm_step_small 0 q5) by (change (2 ^ 25) with 33554432; lia). rewrite N.mul_0_l, N.add_0_l.
  rewrite (pm_step_small q5 r4) by (change (2 ^ 25) with 33554432; lia). replace (q5 * 32 + r4) with q4 by lia.
  rewrite (pm_step_small q4 r3) by (change (2 ^ 25) with 33554432; lia). replace (q4 * 32 + r3) with q3 by lia.
  rewrite (pm_step_small q3 r2) by (change (2 ^ 25) with 33554432; lia). replace (q3 * 32 + r2) with q2 by lia.
  rewrite (pm_step_small q2 r1) by (change (2 ^ 25) with 33554432; lia). replace (q2 * 32 + r1) with q1 by lia.
  rewrite (pm_step_small q1 r0) by (change (2 ^ 25) with 33554432; lia). lia.
Qed.

(* the checksum Encode appends is accepted by VerifyChecksum: for every human-readable
   part and every data part *)
Theorem checksum_verifies hrp data : polymod hrp data (checksum hrp data) = 1.
Proof.
  unfold polymod, checksum. fold (chunks (N.lxor (polymod hrp data ZERO6) 1)).
  set (X := hrp_expand hrp ++ data).
  assert (HP : polymod hrp data ZERO6 = fold_left pm_step ZERO6 (fold_left pm_step X 1)).
  { unfold polymod, X. rewrite app_assoc, fold_left_app. reflexivity. }
  rewrite app_assoc, fold_left_app. fold X. set (c0 := fold_left pm_step X 1) in *.
  set (P := polymod hrp data ZERO6) in *.
  assert (HPs : small30 P).
  { rewrite HP. unfold ZERO6. cbn [fold_left]. apply small30_pm_step. intros m _. apply N.bits_0. }
  assert (Hpm : N.lxor P 1 < 2 ^ 30).
  { apply small_testbit. apply small30_lxor; [exact HPs|]. apply small30_lt. reflexivity. }
  rewrite <- (N.lxor_0_l c0), fold_affine, fold_chunks by exact Hpm.
  change (map (fun _ : N => 0) (chunks (N.lxor P 1))) with ZERO6. rewrite <- HP.
  apply N.bits_inj. intros n. rewrite !N.lxor_spec. btauto.
Qed.

