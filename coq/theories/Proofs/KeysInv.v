(* Key/record agreement: every record is stored under the key built from its own
   identifier or address, in the status partition that matches its stored status,
   the two partitions of a kind are disjoint, and identifiers are between 1 and the
   counter of their kind.  Foundation of C09 and C18; preserved by every operation. *)
From Hub Require Import Base.Prelude Base.Arith Model.Types Model.Keeper Model.Handlers Model.Hooks Model.Step.
From Hub Require Import Proofs.Tactics Proofs.Frames.

Definition kprov (st : status) (a : addr) (p : provider) : Prop := pv_addr p = a /\ pv_status p = st.
Definition knode (st : status) (a : addr) (n : node) : Prop := nd_addr n = a /\ nd_status n = st.
Definition kplan (st : status) (c id : Z) (p : plan) : Prop := pl_id p = id /\ pl_status p = st /\ 1 <= id <= c.
Definition live (st : status) : Prop := st = SActive \/ st = SPending.
Definition ksub (c id : Z) (sb : subscription) : Prop := sb_id sb = id /\ 1 <= id <= c /\ live (sb_status sb).
Definition kalloc (c : Z) (k : Z * addr) (al : allocation) : Prop := al_id al = k.1 /\ al_addr al = k.2 /\ 1 <= k.1 <= c.
Definition kpay (c id : Z) (po : payout) : Prop := po_id po = id /\ 1 <= id <= c.
Definition ksess (c id : Z) (x : session) : Prop := ss_id x = id /\ 1 <= id <= c /\ live (ss_status x).

Definition disjoint_parts {K V} `{Countable K} (a b : gmap K V) : Prop := forall k v, a !! k = Some v -> b !! k = None.

Record kinv_pv (s : state) : Prop := {
  k_pa : map_Forall (kprov SActive) (prov_act s);
  k_pi : map_Forall (kprov SInactive) (prov_inact s);
  k_pd : disjoint_parts (prov_act s) (prov_inact s) }.
Record kinv_node (s : state) : Prop := {
  k_na : map_Forall (knode SActive) (node_act s);
  k_ni : map_Forall (knode SInactive) (node_inact s);
  k_nd : disjoint_parts (node_act s) (node_inact s) }.
Record kinv_plan (s : state) : Prop := {
  k_la : map_Forall (kplan SActive (plan_count s)) (plan_act s);
  k_li : map_Forall (kplan SInactive (plan_count s)) (plan_inact s);
  k_ld : disjoint_parts (plan_act s) (plan_inact s);
  k_lc : 0 <= plan_count s }.
Record kinv_sub (s : state) : Prop := {
  k_sub : map_Forall (ksub (sub_count s)) (subs s);
  k_al : map_Forall (kalloc (sub_count s)) (allocs s);
  k_po : map_Forall (kpay (sub_count s)) (payouts s);
  k_sc : 0 <= sub_count s }.
Record kinv_sess (s : state) : Prop := {
  k_ss : map_Forall (ksess (sess_count s)) (sessions s);
  k_ssc : 0 <= sess_count s }.

Record kinv (s : state) : Prop := {
  ki_pv : kinv_pv s; ki_node : kinv_node s; ki_plan : kinv_plan s; ki_sub : kinv_sub s; ki_sess : kinv_sess s }.

(** * frames *)

Lemma kinv_pv_frame s s' : prov_act s' = prov_act s -> prov_inact s' = prov_inact s -> kinv_pv s -> kinv_pv s'.
Proof. intros E1 E2 [A B C]. split; rewrite ?E1, ?E2; assumption. Qed.
Lemma kinv_node_frame s s' : node_act s' = node_act s -> node_inact s' = node_inact s -> kinv_node s -> kinv_node s'.
Proof. intros E1 E2 [A B C]. split; rewrite ?E1, ?E2; assumption. Qed.
Lemma kinv_plan_frame s s' :
  plan_act s' = plan_act s -> plan_inact s' = plan_inact s -> plan_count s' = plan_count s -> kinv_plan s -> kinv_plan s'.
Proof. intros E1 E2 E3 [A B C D]. split; rewrite ?E1, ?E2, ?E3; assumption. Qed.
Lemma kinv_sub_frame s s' :
  subs s' = subs s -> allocs s' = allocs s -> payouts s' = payouts s -> sub_count s' = sub_count s -> kinv_sub s -> kinv_sub s'.
Proof. intros E1 E2 E3 E4 [A B C D]. split; rewrite ?E1, ?E2, ?E3, ?E4; assumption. Qed.
Lemma kinv_sess_frame s s' :
  sessions s' = sessions s -> sess_count s' = sess_count s -> kinv_sess s -> kinv_sess s'.
Proof. intros E1 E2 [A B]. split; rewrite ?E1, ?E2; assumption. Qed.

Lemma kinv_keeps T s s' :
  keeps T s s' -> kinv s ->
  (touched GPv T = true -> kinv_pv s') -> (touched GNode T = true -> kinv_node s') ->
  (touched GPl T = true -> kinv_plan s') -> (touched GSub T = true -> kinv_sub s') ->
  (touched GSess T = true -> kinv_sess s') -> kinv s'.
Proof.
  intros (_ & _ & _ & _ & Kpv & Kpl & Kn & Ksub & Kss & _) [I1 I2 I3 I4 I5] H1 H2 H3 H4 H5.
  split.
  - destruct (touched GPv T); [auto|]. simpl in Kpv. eapply kinv_pv_frame; [..|exact I1]; tauto.
  - destruct (touched GNode T); [auto|]. simpl in Kn. eapply kinv_node_frame; [..|exact I2]; tauto.
  - destruct (touched GPl T); [auto|]. simpl in Kpl. eapply kinv_plan_frame; [..|exact I3]; tauto.
  - destruct (touched GSub T); [auto|]. simpl in Ksub. eapply kinv_sub_frame; [..|exact I4]; tauto.
  - destruct (touched GSess T); [auto|]. simpl in Kss. eapply kinv_sess_frame; [..|exact I5]; tauto.
Qed.

(* a state related to [s] by [keeps T] where the listed groups are untouched *)
Ltac kinv_frame Hk Hi :=
  eapply (kinv_keeps _ _ _ Hk Hi); cbn [touched existsb grp_eqb orb]; try (intros; discriminate).

(** * disjoint partitions under the update patterns of the keepers *)

Section parts.
  Context {K V : Type} `{Countable K}.
  Implicit Types a b : gmap K V.

  Lemma dp_insert_l a b k v : disjoint_parts a b -> b !! k = None -> disjoint_parts (<[k := v]> a) b.
  Proof. intros D Hb k' v'. destruct (decide (k = k')) as [->|Hne]; [auto|]. rewrite lookup_insert_ne by exact Hne. apply D. Qed.
  Lemma dp_insert_r a b k v : disjoint_parts a b -> a !! k = None -> disjoint_parts a (<[k := v]> b).
  Proof.
    intros D Ha k' v' Hk'. destruct (decide (k = k')) as [->|Hne]; [congruence|].
    rewrite lookup_insert_ne by exact Hne. eapply D; eauto.
  Qed.
  Lemma dp_delete_l a b k : disjoint_parts a b -> disjoint_parts (delete k a) b.
  Proof. intros D k' v' Hk'. apply lookup_delete_Some in Hk' as [_ Hk']. eapply D; eauto. Qed.
  Lemma dp_delete_r a b k : disjoint_parts a b -> disjoint_parts a (delete k b).
  Proof. intros D k' v' Hk'. destruct (decide (k = k')) as [->|Hne]; [apply lookup_delete|]. rewrite lookup_delete_ne by exact Hne. eapply D; eauto. Qed.
  Lemma dp_sym_none a b k v : disjoint_parts a b -> b !! k = Some v -> a !! k = None.
  Proof. intros D Hb. destruct (a !! k) eqn:E; [|reflexivity]. rewrite (D _ _ E) in Hb. discriminate. Qed.
  Lemma dp_empty b : disjoint_parts (∅ : gmap K V) b.
  Proof. intros k v H0. rewrite lookup_empty in H0. discriminate. Qed.
End parts.

Lemma kinv_pv_emit e s : kinv_pv s -> kinv_pv (emit e s).
Proof. apply kinv_pv_frame; reflexivity. Qed.
Lemma kinv_node_emit e s : kinv_node s -> kinv_node (emit e s).
Proof. apply kinv_node_frame; reflexivity. Qed.
Lemma kinv_plan_emit e s : kinv_plan s -> kinv_plan (emit e s).
Proof. apply kinv_plan_frame; reflexivity. Qed.
Lemma kinv_sub_emit e s : kinv_sub s -> kinv_sub (emit e s).
Proof. apply kinv_sub_frame; reflexivity. Qed.
Lemma kinv_sess_emit e s : kinv_sess s -> kinv_sess (emit e s).
Proof. apply kinv_sess_frame; reflexivity. Qed.

(** * providers *)

Lemma get_provider_cases s a p :
  get_provider s a = Some p ->
  prov_act s !! a = Some p \/ (prov_act s !! a = None /\ prov_inact s !! a = Some p).
Proof. unfold get_provider. destruct (prov_act s !! a); [intros [= ->]; auto|auto]. Qed.

Lemma get_provider_kinv s a p :
  kinv_pv s -> get_provider s a = Some p ->
  pv_addr p = a /\
  ((pv_status p = SActive /\ prov_act s !! a = Some p /\ prov_inact s !! a = None) \/
   (pv_status p = SInactive /\ prov_act s !! a = None /\ prov_inact s !! a = Some p)).
Proof.
  intros [A B D] H. apply get_provider_cases in H as [H|[H1 H2]].
  - destruct (A _ _ H) as [E1 E2]. split; [exact E1|]. left. repeat split; auto. eapply D; eauto.
  - destruct (B _ _ H2) as [E1 E2]. split; [exact E1|]. right. auto.
Qed.

Lemma kinv_pv_set s p s' :
  kinv_pv s -> set_provider s p = Ok s' ->
  (pv_status p = SActive -> prov_inact s !! pv_addr p = None) ->
  (pv_status p = SInactive -> prov_act s !! pv_addr p = None) -> kinv_pv s'.
Proof.
  intros [A B D] H H1 H2. unfold set_provider in H. destruct (pv_status p) eqn:E; try discriminate; injection H as <-; split; simpl; auto.
  - apply map_Forall_insert_2; [split; auto|exact A].
  - apply dp_insert_l; auto.
  - apply map_Forall_insert_2; [split; auto|exact B].
  - apply dp_insert_r; auto.
Qed.

Lemma kinv_h_prov_register s from n i w d s' : kinv s -> h_prov_register s from n i w d = Ok s' -> kinv s'.
Proof.
  intros Hi H. pose proof (h_prov_register_keeps _ _ _ _ _ _ _ H) as Hk. kinv_frame Hk Hi. intros _.
  unfold h_prov_register in H. res_inv.
  apply negb_true_iff, bool_decide_eq_false in Hx.
  assert (Hnone : prov_act s !! ta_bytes from = None /\ prov_inact s !! ta_bytes from = None).
  { unfold get_provider in Hx. destruct (prov_act s !! ta_bytes from) eqn:E1; [exfalso; apply Hx; eauto|].
    destruct (prov_inact s !! ta_bytes from) eqn:E2; [exfalso; apply Hx; eauto|]. auto. }
  apply fund_pool_keeps in Hx0.
  assert (Hpv : kinv_pv x0) by (eapply kinv_pv_frame; [..|apply Hi]; keeps_solve).
  assert (E1 : prov_act x0 = prov_act s) by keeps_solve.
  assert (E2 : prov_inact x0 = prov_inact s) by keeps_solve.
  apply kinv_pv_emit.
  eapply kinv_pv_set; [exact Hpv|exact Hx1| |]; simpl; intros; try discriminate. rewrite E1. tauto.
Qed.

Lemma kinv_h_prov_update s from n i w d st s' : kinv s -> h_prov_update s from n i w d st = Ok s' -> kinv s'.
Proof.
  intros Hi H. pose proof (h_prov_update_keeps _ _ _ _ _ _ _ _ H) as Hk. kinv_frame Hk Hi. intros _.
  unfold h_prov_update in H. destruct (get_provider s (ta_bytes from)) as [p|] eqn:Hg; [|discriminate].
  destruct (get_provider_kinv _ _ _ (ki_pv _ Hi) Hg) as [Ea Hcase].
  destruct (ki_pv _ Hi) as [A B D].
  case_bool_decide as Hst.
  - (* status unspecified: the record is rewritten in its own partition *)
    apply rbind_ok in H as (s2 & Hset & H). injection H as <-.
    apply kinv_pv_emit.
    eapply kinv_pv_set; [split; eauto|exact Hset| |]; simpl; rewrite Ea; intros Hs; destruct Hcase as [(E&_&?)|(E&?&_)]; congruence.
  - apply rbind_ok in H as (s2 & Hset & H). injection H as <-.
    apply kinv_pv_emit.
    eapply kinv_pv_set; [|exact Hset| |]; simpl; rewrite ?Ea.
    + destruct Hcase as [(E & E1 & E2)|(E & E1 & E2)]; rewrite E; repeat case_bool_decide; split; simpl;
        try (apply map_Forall_delete); try (apply dp_delete_l); try (apply dp_delete_r); auto; intuition congruence.
    + intros ->. destruct Hcase as [(E & E1 & E2)|(E & E1 & E2)]; rewrite E; repeat case_bool_decide; simpl;
        rewrite ?lookup_delete; auto; intuition congruence.
    + intros ->. destruct Hcase as [(E & E1 & E2)|(E & E1 & E2)]; rewrite E; repeat case_bool_decide; simpl;
        rewrite ?lookup_delete; auto; intuition congruence.
Qed.

(** * nodes *)

Lemma get_node_cases s a n :
  get_node s a = Some n ->
  node_act s !! a = Some n \/ (node_act s !! a = None /\ node_inact s !! a = Some n).
Proof. unfold get_node. destruct (node_act s !! a); [intros [= ->]; auto|auto]. Qed.

Lemma get_node_kinv s a n :
  kinv_node s -> get_node s a = Some n ->
  nd_addr n = a /\
  ((nd_status n = SActive /\ node_act s !! a = Some n /\ node_inact s !! a = None) \/
   (nd_status n = SInactive /\ node_act s !! a = None /\ node_inact s !! a = Some n)).
Proof.
  intros [A B D] H. apply get_node_cases in H as [H|[H1 H2]].
  - destruct (A _ _ H) as [E1 E2]. split; [exact E1|]. left. repeat split; auto. eapply D; eauto.
  - destruct (B _ _ H2) as [E1 E2]. split; [exact E1|]. right. auto.
Qed.

Lemma kinv_node_set s n s' :
  kinv_node s -> set_node s n = Ok s' ->
  (nd_status n = SActive -> node_inact s !! nd_addr n = None) ->
  (nd_status n = SInactive -> node_act s !! nd_addr n = None) -> kinv_node s'.
Proof.
  intros [A B D] H H1 H2. unfold set_node in H. destruct (nd_status n) eqn:E; try discriminate; injection H as <-; split; simpl; auto.
  - apply map_Forall_insert_2; [split; auto|exact A].
  - apply dp_insert_l; auto.
  - apply map_Forall_insert_2; [split; auto|exact B].
  - apply dp_insert_r; auto.
Qed.

Lemma kinv_h_node_register s from gb hr url s' : kinv s -> h_node_register s from gb hr url = Ok s' -> kinv s'.
Proof.
  intros Hi H. pose proof (h_node_register_keeps _ _ _ _ _ _ H) as Hk. kinv_frame Hk Hi. intros _.
  unfold h_node_register in H. res_inv.
  match goal with Hn : negb (has_node _ _) = true |- _ => apply negb_true_iff, bool_decide_eq_false in Hn; rename Hn into Hnn end.
  assert (Hnone : node_act s !! ta_bytes from = None /\ node_inact s !! ta_bytes from = None).
  { unfold get_node in Hnn. destruct (node_act s !! ta_bytes from) eqn:E1; [exfalso; apply Hnn; eauto|].
    destruct (node_inact s !! ta_bytes from) eqn:E2; [exfalso; apply Hnn; eauto|]. auto. }
  match goal with Hf : fund_pool s _ _ = Ok ?y |- _ => apply fund_pool_keeps in Hf;
    assert (Hpv : kinv_node y) by (eapply kinv_node_frame; [..|apply Hi]; keeps_solve);
    assert (E1 : node_act y = node_act s) by keeps_solve end.
  apply kinv_node_emit.
  match goal with Hs : set_node _ _ = Ok _ |- _ => eapply kinv_node_set; [exact Hpv|exact Hs| |]; simpl; intros; try discriminate end.
  rewrite E1. tauto.
Qed.

Lemma kinv_node_reset s n n' s' :
  kinv_node s -> get_node s (nd_addr n') = Some n -> nd_status n' = nd_status n -> set_node s n' = Ok s' -> kinv_node s'.
Proof.
  intros Hn Hg Hst Hs. destruct (get_node_kinv _ _ _ Hn Hg) as [Ea Hcase].
  eapply kinv_node_set; [exact Hn|exact Hs| |]; rewrite Hst; intros E; destruct Hcase as [(E' & ? & ?)|(E' & ? & ?)]; congruence.
Qed.

Lemma kinv_h_node_update_details s from gb hr url s' : kinv s -> h_node_update_details s from gb hr url = Ok s' -> kinv s'.
Proof.
  intros Hi H. pose proof (h_node_update_details_keeps _ _ _ _ _ _ H) as Hk. kinv_frame Hk Hi. intros _.
  unfold h_node_update_details in H. res_inv. apply kinv_node_emit.
  match goal with Hs : set_node s ?n' = Ok _, Hg : get_node s _ = Some ?n |- _ =>
    pose proof (proj1 (get_node_kinv _ _ _ (ki_node _ Hi) Hg)) as Ea;
    eapply (kinv_node_reset s n n'); [apply Hi| | |exact Hs]; simpl; [rewrite Ea; exact Hg|reflexivity] end.
Qed.

Lemma kinv_h_node_update_status s from st s' : kinv s -> h_node_update_status s from st = Ok s' -> kinv s'.
Proof.
  intros Hi H. pose proof (h_node_update_status_keeps _ _ _ _ H) as Hk. kinv_frame Hk Hi. intros _.
  unfold h_node_update_status in H. destruct (get_node s (ta_bytes from)) as [n|] eqn:Hg; [|discriminate].
  destruct (get_node_kinv _ _ _ (ki_node _ Hi) Hg) as [Ea Hcase].
  destruct (ki_node _ Hi) as [A B D].
  match type of H with (let '(s3, n1) := ?p in _) = _ => destruct p as [s3 n1] eqn:Ep end.
  apply rbind_ok in H as (s4 & Hset & H). injection H as <-. apply kinv_node_emit.
  assert (Hn1 : nd_addr n1 = ta_bytes from /\ kinv_node s3 /\
                (st = SActive -> node_inact s3 !! ta_bytes from = None) /\
                (st = SInactive -> node_act s3 !! ta_bytes from = None)).
  { destruct Hcase as [(E & E1 & E2)|(E & E1 & E2)]; rewrite E in Ep;
      repeat (case_bool_decide; try (exfalso; intuition congruence)); injection Ep as <- <-; simpl;
      (split; [exact Ea|]); (split; [split; simpl; try (apply map_Forall_delete); try (apply dp_delete_l); try (apply dp_delete_r); auto|]);
      split; intros; subst; simpl; rewrite ?lookup_delete; try congruence; auto; intuition congruence. }
  destruct Hn1 as (En1 & Hk3 & Ha & Hb).
  eapply kinv_node_set; [exact Hk3|exact Hset| |]; simpl;
    repeat (case_bool_decide; simpl); rewrite ?En1; intros; subst; auto; try discriminate; intuition congruence.
Qed.

From Hub Require Import Proofs.Sorting.

Lemma elem_of_all_nodes s n :
  kinv_node s -> n ∈ all_nodes s ->
  (node_act s !! nd_addr n = Some n /\ nd_status n = SActive) \/
  (node_inact s !! nd_addr n = Some n /\ nd_status n = SInactive).
Proof.
  intros [A B D] H. unfold all_nodes in H. apply elem_of_app in H as [H|H];
    apply elem_of_list_fmap in H as ([a x] & -> & H); apply elem_of_sort_by, elem_of_map_to_list in H; simpl.
  - destruct (A _ _ H) as [E1 E2]. left. rewrite E1. auto.
  - destruct (B _ _ H) as [E1 E2]. right. rewrite E1. auto.
Qed.

Definition same_dom {K V} `{Countable K} (a b : gmap K V) : Prop := forall k, is_Some (a !! k) <-> is_Some (b !! k).

Lemma same_dom_insert {K V} `{Countable K} (a b : gmap K V) k v :
  same_dom a b -> is_Some (a !! k) -> same_dom (<[k := v]> a) b.
Proof.
  intros Hd Hk k'. destruct (decide (k = k')) as [->|Hne].
  - rewrite lookup_insert. split; [intros _; apply Hd; exact Hk|eauto].
  - rewrite lookup_insert_ne by exact Hne. apply Hd.
Qed.

Lemma kinv_node_sweep_one s0 s n s' :
  kinv_node s0 -> n ∈ all_nodes s0 ->
  kinv_node s /\ same_dom (node_act s) (node_act s0) /\ same_dom (node_inact s) (node_inact s0) ->
  node_sweep_one s n = Ok s' ->
  kinv_node s' /\ same_dom (node_act s') (node_act s0) /\ same_dom (node_inact s') (node_inact s0).
Proof.
  intros H0 Hn (Hk & Da & Di) H. unfold node_sweep_one in H. apply rbind_ok in H as (s1 & Hset & H). injection H as <-.
  apply must_ok in Hset.
  match type of Hset with set_node s ?nn = _ => set (n' := nn) in * end.
  assert (Ea : nd_addr n' = nd_addr n) by reflexivity. assert (Es : nd_status n' = nd_status n) by reflexivity.
  destruct (elem_of_all_nodes _ _ H0 Hn) as [[H1 H2]|[H1 H2]].
  - assert (Hin : is_Some (node_act s !! nd_addr n)) by (apply Da; eauto).
    assert (Hno : node_inact s !! nd_addr n = None) by (destruct Hin as [y Hy]; eapply (k_nd _ Hk); eauto).
    split; [apply kinv_node_emit; eapply kinv_node_set; [exact Hk|exact Hset| |]; rewrite Ea, Es; intros; congruence|].
    unfold set_node in Hset. rewrite Es, H2 in Hset. injection Hset as <-. simpl. split; [|exact Di].
    apply same_dom_insert; auto.
  - assert (Hin : is_Some (node_inact s !! nd_addr n)) by (apply Di; eauto).
    assert (Hno : node_act s !! nd_addr n = None) by (destruct Hin as [y Hy]; eapply dp_sym_none; [apply Hk|eauto]).
    split; [apply kinv_node_emit; eapply kinv_node_set; [exact Hk|exact Hset| |]; rewrite Ea, Es; intros; congruence|].
    unfold set_node in Hset. rewrite Es, H2 in Hset. injection Hset as <-. simpl. split; [exact Da|].
    apply same_dom_insert; auto.
Qed.

Lemma kinv_node_expire_one s e s' : kinv_node s -> node_expire_one s e = Ok s' -> kinv_node s'.
Proof.
  intros Hk H. unfold node_expire_one in H. destruct (get_node s e.2) as [n|] eqn:Hg; [|discriminate].
  apply rbind_ok in H as (s2 & Hset & H). injection H as <-. apply must_ok in Hset. apply kinv_node_emit.
  destruct Hk as [A B D].
  eapply kinv_node_set; [|exact Hset| |]; simpl; try discriminate.
  - split; simpl; [apply map_Forall_delete; exact A|exact B|apply dp_delete_l; exact D].
  - intros _. apply lookup_delete.
Qed.

Lemma kinv_node_end_block s s' : kinv s -> node_end_block s = Ok s' -> kinv s'.
Proof.
  intros Hi H. pose proof (node_end_block_keeps _ _ H) as Hk. kinv_frame Hk Hi. intros _.
  unfold node_end_block in H. apply rbind_ok in H as (s1 & Hsw & H).
  assert (H1 : kinv_node s1).
  { destruct (_ || _); [|injection Hsw as <-; apply Hi].
    assert (J : kinv_node s1 /\ same_dom (node_act s1) (node_act s) /\ same_dom (node_inact s1) (node_inact s)).
    { eapply (rfold_inv_in (fun x => kinv_node x /\ same_dom (node_act x) (node_act s) /\ same_dom (node_inact x) (node_inact s)));
        [|split; [apply Hi|split; intros k; reflexivity]|exact Hsw].
      intros x n x' Hn Hx Hstep. eapply kinv_node_sweep_one; eauto. apply Hi. }
    apply J. }
  eapply (rfold_inv kinv_node); [|exact H1|exact H]. intros; eapply kinv_node_expire_one; eauto.
Qed.

(** * plans *)

Lemma get_plan_cases s a n :
  get_plan s a = Some n ->
  plan_act s !! a = Some n \/ (plan_act s !! a = None /\ plan_inact s !! a = Some n).
Proof. unfold get_plan. destruct (plan_act s !! a); [intros [= ->]; auto|auto]. Qed.

Lemma get_plan_kinv s a n :
  kinv_plan s -> get_plan s a = Some n ->
  pl_id n = a /\ 1 <= a <= plan_count s /\
  ((pl_status n = SActive /\ plan_act s !! a = Some n /\ plan_inact s !! a = None) \/
   (pl_status n = SInactive /\ plan_act s !! a = None /\ plan_inact s !! a = Some n)).
Proof.
  intros [A B D _] H. apply get_plan_cases in H as [H|[H1 H2]].
  - destruct (A _ _ H) as (E1 & E2 & E3). split; [exact E1|]. split; [exact E3|]. left. repeat split; auto. eapply D; eauto.
  - destruct (B _ _ H2) as (E1 & E2 & E3). split; [exact E1|]. split; [exact E3|]. right. auto.
Qed.

Lemma kinv_plan_set s n s' :
  kinv_plan s -> set_plan s n = Ok s' -> 1 <= pl_id n <= plan_count s ->
  (pl_status n = SActive -> plan_inact s !! pl_id n = None) ->
  (pl_status n = SInactive -> plan_act s !! pl_id n = None) -> kinv_plan s'.
Proof.
  intros [A B D C] H Hr H1 H2. unfold set_plan in H. destruct (pl_status n) eqn:E; try discriminate; injection H as <-; split; simpl; auto.
  - apply map_Forall_insert_2; [repeat split; auto; lia|exact A].
  - apply dp_insert_l; auto.
  - apply map_Forall_insert_2; [repeat split; auto; lia|exact B].
  - apply dp_insert_r; auto.
Qed.

Lemma kplan_mono st c c' id p : c <= c' -> kplan st c id p -> kplan st c' id p.
Proof. unfold kplan. intros; intuition lia. Qed.

Lemma kinv_h_plan_create s from du g pr s' : kinv s -> h_plan_create s from du g pr = Ok s' -> kinv s'.
Proof.
  intros Hi H. pose proof (h_plan_create_keeps _ _ _ _ _ _ H) as Hk. kinv_frame Hk Hi. intros _.
  unfold h_plan_create in H. res_inv. destruct (ki_plan _ Hi) as [A B D C].
  match goal with Hs : set_plan _ _ = Ok _ |- _ => unfold set_plan in Hs; simpl in Hs; injection Hs as <- end.
  assert (Hfresh : forall p, plan_act s !! (plan_count s + 1) = Some p -> False).
  { intros p Hp. destruct (A _ _ Hp) as (_ & _ & ?). lia. }
  split; simpl.
  - eapply map_Forall_impl; [exact A|]. intros id p. apply kplan_mono. lia.
  - apply map_Forall_insert_2; [repeat split; simpl; lia|]. eapply map_Forall_impl; [exact B|]. intros id p. apply kplan_mono. lia.
  - apply dp_insert_r; [exact D|]. destruct (plan_act s !! (plan_count s + 1)) eqn:E; [exfalso; eauto|reflexivity].
  - lia.
Qed.

Lemma kinv_h_plan_update_status s from id st s' : kinv s -> h_plan_update_status s from id st = Ok s' -> kinv s'.
Proof.
  intros Hi H. pose proof (h_plan_update_status_keeps _ _ _ _ _ H) as Hk. kinv_frame Hk Hi. intros _.
  unfold h_plan_update_status in H. destruct (get_plan s id) as [p|] eqn:Hg; [|discriminate].
  destruct (get_plan_kinv _ _ _ (ki_plan _ Hi) Hg) as (Ea & Hr & Hcase).
  destruct (ki_plan _ Hi) as [A B D C].
  apply rbind_ok in H as (u & _ & H). apply rbind_ok in H as (s3 & Hset & H). injection H as <-. apply kinv_plan_emit.
  eapply kinv_plan_set; [|exact Hset| | |]; simpl; rewrite ?Ea.
  - destruct Hcase as [(E & E1 & E2)|(E & E1 & E2)]; rewrite E; repeat case_bool_decide; split; simpl;
      try (apply map_Forall_delete); try (apply dp_delete_l); try (apply dp_delete_r); auto; intuition congruence.
  - destruct Hcase as [(E & E1 & E2)|(E & E1 & E2)]; rewrite E; repeat case_bool_decide; simpl; lia.
  - intros ->. destruct Hcase as [(E & E1 & E2)|(E & E1 & E2)]; rewrite E; repeat case_bool_decide; simpl;
      rewrite ?lookup_delete; auto; intuition congruence.
  - intros ->. destruct Hcase as [(E & E1 & E2)|(E & E1 & E2)]; rewrite E; repeat case_bool_decide; simpl;
      rewrite ?lookup_delete; auto; intuition congruence.
Qed.

Lemma kinv_h_plan_link s from id nd s' : kinv s -> h_plan_link s from id nd = Ok s' -> kinv s'.
Proof.
  intros Hi H. pose proof (h_plan_link_keeps _ _ _ _ _ H) as Hk. kinv_frame Hk Hi. intros _.
  unfold h_plan_link in H. res_inv. apply kinv_plan_emit. eapply kinv_plan_frame; [..|apply Hi]; reflexivity.
Qed.
Lemma kinv_h_plan_unlink s from id nd s' : kinv s -> h_plan_unlink s from id nd = Ok s' -> kinv s'.
Proof.
  intros Hi H. pose proof (h_plan_unlink_keeps _ _ _ _ _ H) as Hk. kinv_frame Hk Hi. intros _.
  unfold h_plan_unlink in H. res_inv. apply kinv_plan_emit. eapply kinv_plan_frame; [..|apply Hi]; reflexivity.
Qed.

(** * subscriptions, allocations, payouts *)

Ltac kunf := unfold ksub, kalloc, kpay, ksess, live in *; simpl in *.
(* [map_Forall P (updates of m)] from [H : map_Forall P0 m] where P0 implies P *)
Ltac mf_solve H :=
  repeat first [ apply map_Forall_insert_2; [kunf; try (intuition (auto; lia))|]
               | apply map_Forall_delete ];
  first [ exact H
        | eapply map_Forall_impl; [exact H|]; intros ? ?; kunf; intuition (auto; lia) ].

(* rewrite the fields of intermediate states (related to [s] by frame facts in the context) to those of [s] *)
Ltac to_base s :=
  repeat match goal with
  | |- context [subs ?y] => is_var y; lazymatch y with s => fail | _ => idtac end; replace (subs y) with (subs s) by (symmetry; keeps_solve)
  | |- context [allocs ?y] => is_var y; lazymatch y with s => fail | _ => idtac end; replace (allocs y) with (allocs s) by (symmetry; keeps_solve)
  | |- context [payouts ?y] => is_var y; lazymatch y with s => fail | _ => idtac end; replace (payouts y) with (payouts s) by (symmetry; keeps_solve)
  | |- context [sessions ?y] => is_var y; lazymatch y with s => fail | _ => idtac end; replace (sessions y) with (sessions s) by (symmetry; keeps_solve)
  | |- context [sub_count ?y] => is_var y; lazymatch y with s => fail | _ => idtac end; replace (sub_count y) with (sub_count s) by (symmetry; keeps_solve)
  | |- context [sess_count ?y] => is_var y; lazymatch y with s => fail | _ => idtac end; replace (sess_count y) with (sess_count s) by (symmetry; keeps_solve)
  end.

Lemma kinv_create_sub_for_node s acc nd g h dn s' id :
  kinv_sub s -> create_sub_for_node s acc nd g h dn = Ok (s', id) -> kinv_sub s' /\ id = sub_count s + 1.
Proof.
  intros [A B C D] H. unfold create_sub_for_node in H. res_inv; pose_keeps;
  (split; [|reflexivity]); split; simpl; to_base s; try lia.
  all: try mf_solve A. all: try mf_solve B. all: try mf_solve C.
Qed.

Lemma kinv_create_sub_for_plan s acc pid dn s' id :
  kinv_sub s -> create_sub_for_plan s acc pid dn = Ok (s', id) -> kinv_sub s' /\ id = sub_count s + 1.
Proof.
  intros [A B C D] H. unfold create_sub_for_plan in H. res_inv; pose_keeps.
  assert (Ec : sub_count x3 = sub_count s) by keeps_solve.
  split; [|simpl; rewrite Ec; reflexivity]. split; simpl; to_base s; try lia.
  all: try mf_solve A. all: try mf_solve B. all: try mf_solve C.
Qed.

Lemma kinv_h_node_subscribe s from nd g h dn s' : kinv s -> h_node_subscribe s from nd g h dn = Ok s' -> kinv s'.
Proof.
  intros Hi H. pose proof (h_node_subscribe_keeps _ _ _ _ _ _ _ H) as Hk. kinv_frame Hk Hi. intros _.
  unfold h_node_subscribe in H. res_inv. apply kinv_sub_emit.
  match goal with Hc : create_sub_for_node _ _ _ _ _ _ = Ok _ |- _ => apply (kinv_create_sub_for_node _ _ _ _ _ _ _ _ (ki_sub _ Hi)) in Hc; apply Hc end.
Qed.

Lemma kinv_h_plan_subscribe s from pid dn s' : kinv s -> h_plan_subscribe s from pid dn = Ok s' -> kinv s'.
Proof.
  intros Hi H. pose proof (h_plan_subscribe_keeps _ _ _ _ _ H) as Hk. kinv_frame Hk Hi. intros _.
  unfold h_plan_subscribe in H. res_inv. apply kinv_sub_emit.
  match goal with Hc : create_sub_for_plan _ _ _ _ = Ok _ |- _ => apply (kinv_create_sub_for_plan _ _ _ _ _ _ (ki_sub _ Hi)) in Hc; apply Hc end.
Qed.

Lemma kinv_sub_make_pending s sb :
  kinv_sub s -> subs s !! sb_id sb = Some sb -> kinv_sub (sub_make_pending s sb).
Proof.
  intros [A B C D] Hsb. destruct (A _ _ Hsb) as (E1 & E2 & E3).
  unfold sub_make_pending. apply kinv_sub_emit. split; simpl; auto. mf_solve A.
Qed.

Lemma kinv_detach_payout s sb m s' :
  kinv_sub s -> (forall s'', m = Ok s'' -> kinv_sub s'') -> detach_payout s sb m = Ok s' -> kinv_sub s'.
Proof.
  intros [A B C D] Hm H. unfold detach_payout in H. repeat case_match; res_inv; try (split; assumption); auto.
  match goal with Hp : payouts s !! _ = Some ?po |- _ => destruct (C _ _ Hp) as (E1 & E2) end.
  split; simpl; auto. mf_solve C.
Qed.

(** * sessions *)

Lemma kinv_session_make_pending s x :
  kinv_sess s -> sessions s !! ss_id x = Some x -> kinv_sess (session_make_pending s x).
Proof.
  intros [A B] Hx. destruct (A _ _ Hx) as (E1 & E2 & E3).
  unfold session_make_pending. apply kinv_sess_emit. split; simpl; auto. mf_solve A.
Qed.

Lemma kinv_sub_pending_hook s id s' : kinv_sess s -> sub_pending_hook s id = Ok s' -> kinv_sess s'.
Proof.
  intros Hk H. unfold sub_pending_hook in H. eapply (rfold_inv kinv_sess); [|exact Hk|exact H].
  intros a sid b Ha Hstep. cbv beta in Hstep. destruct (sessions a !! sid) as [x|] eqn:Hx; [|discriminate].
  destruct (k_ss _ Ha _ _ Hx) as (E1 & _).
  case_bool_decide; injection Hstep as <-; [|exact Ha]. apply kinv_session_make_pending; [exact Ha|]. rewrite E1. exact Hx.
Qed.

Lemma kinv_h_sess_start s from id nd s' : kinv s -> h_sess_start s from id nd = Ok s' -> kinv s'.
Proof.
  intros Hi H. pose proof (h_sess_start_keeps _ _ _ _ _ H) as Hk. kinv_frame Hk Hi. intros _.
  destruct (ki_sess _ Hi) as [A B].
  unfold h_sess_start in H. res_inv; apply kinv_sess_emit; split; simpl; try lia; mf_solve A.
Qed.

Lemma kinv_h_sess_update s from id u d du ok s' : kinv s -> h_sess_update s from id u d du ok = Ok s' -> kinv s'.
Proof.
  intros Hi H. pose proof (h_sess_update_keeps _ _ _ _ _ _ _ _ H) as Hk. kinv_frame Hk Hi. intros _.
  destruct (ki_sess _ Hi) as [A B].
  unfold h_sess_update in H. destruct (sessions s !! id) as [x|] eqn:Hx; [|discriminate].
  destruct (A _ _ Hx) as (E1 & E2 & E3).
  res_inv; apply kinv_sess_emit; split; simpl; try lia; mf_solve A.
Qed.

Lemma kinv_h_sess_end s from id s' : kinv s -> h_sess_end s from id = Ok s' -> kinv s'.
Proof.
  intros Hi H. pose proof (h_sess_end_keeps _ _ _ _ H) as Hk. kinv_frame Hk Hi. intros _.
  unfold h_sess_end in H. destruct (sessions s !! id) as [x|] eqn:Hx; [|discriminate].
  destruct (k_ss _ (ki_sess _ Hi) _ _ Hx) as (E1 & _). res_inv.
  apply kinv_session_make_pending; [apply Hi|exact Hx].
Qed.

Lemma kinv_h_sub_cancel s from id s' : kinv s -> h_sub_cancel s from id = Ok s' -> kinv s'.
Proof.
  intros Hi H. pose proof (h_sub_cancel_keeps _ _ _ _ H) as Hk. kinv_frame Hk Hi.
  - intros _. unfold h_sub_cancel in H. destruct (subs s !! id) as [sb|] eqn:Hsb; [|discriminate]. res_inv.
    destruct (k_sub _ (ki_sub _ Hi) _ _ Hsb) as (E1 & _).
    match goal with Hp : sub_pending_hook ?s1 _ = Ok ?s2 |- _ => apply sub_pending_hook_keeps in Hp;
      assert (Hk2 : kinv_sub s2) by (eapply kinv_sub_frame; [..|apply Hi]; keeps_solve);
      assert (Es : subs s2 = subs s) by keeps_solve end.
    eapply kinv_detach_payout; [| |exact H]; [|discriminate]. apply kinv_sub_make_pending; [exact Hk2|]. rewrite Es, E1. exact Hsb.
  - intros _. unfold h_sub_cancel in H. destruct (subs s !! id) as [sb|] eqn:Hsb; [|discriminate]. res_inv.
    pose proof (sub_make_pending_keeps x1 sb) as Hmp. apply detach_payout_keeps in H; [|discriminate].
    eapply (kinv_sess_frame x1); [keeps_solve|keeps_solve|].
    match goal with Hp : sub_pending_hook ?s1 _ = Ok _ |- _ =>
      eapply kinv_sub_pending_hook; [|exact Hp]; eapply kinv_sess_frame; [..|apply (ki_sess _ Hi)]; reflexivity end.
Qed.

Lemma kinv_h_sub_allocate s from id to b s' : kinv s -> h_sub_allocate s from id to b = Ok s' -> kinv s'.
Proof.
  intros Hi H. pose proof (h_sub_allocate_keeps _ _ _ _ _ _ H) as Hk. kinv_frame Hk Hi. intros _.
  destruct (ki_sub _ Hi) as [A B C D].
  unfold h_sub_allocate in H. destruct (subs s !! id) as [sb|] eqn:Hsb; [|discriminate].
  destruct (A _ _ Hsb) as (E1 & E2 & E3).
  apply rbind_ok in H as (u1 & _ & H). apply rbind_ok in H as (u2 & _ & H).
  destruct (allocs s !! (id, ta_bytes from)) as [fal|] eqn:Hf; [|discriminate].
  destruct (B _ _ Hf) as (F1 & F2 & F3). simpl in F1, F2, F3.
  apply rbind_ok in H as (u3 & _ & H).
  destruct (allocs s !! (id, ta_bytes to)) as [tal|] eqn:Ht.
  - destruct (B _ _ Ht) as (G1 & G2 & G3). simpl in G1, G2, G3.
    res_inv. apply kinv_sub_emit. split; simpl; auto. mf_solve B.
  - res_inv. apply kinv_sub_emit. split; simpl; auto. mf_solve B.
Qed.

Lemma kinv_payout_step s e s' : kinv_sub s -> payout_step s e = Ok s' -> kinv_sub s'.
Proof.
  intros [A B C D] H. unfold payout_step in H. destruct (payouts s !! e.2) as [po|] eqn:Hp; [|discriminate].
  destruct (C _ _ Hp) as (E1 & E2).
  res_inv; pose_keeps; goal_cases; split; simpl; to_base s; auto.
  all: try mf_solve C.
Qed.

Lemma kinv_sub_begin_block s s' : kinv s -> sub_begin_block s = Ok s' -> kinv s'.
Proof.
  intros Hi H. pose proof (sub_begin_block_keeps _ _ H) as Hk. kinv_frame Hk Hi. intros _.
  unfold sub_begin_block in H. eapply (rfold_inv kinv_sub); [|apply Hi|exact H]. intros; eapply kinv_payout_step; eauto.
Qed.

Lemma kinv_sub_alloc_update s k al al' :
  kinv_sub s -> allocs s !! k = Some al -> al_id al' = al_id al -> al_addr al' = al_addr al ->
  kinv_sub (s <| allocs ::= fun m => <[k := al']> m |>).
Proof.
  intros [A B C D] Hal E1 E2. destruct (B _ _ Hal) as (F1 & F2 & F3).
  split; simpl; auto. apply map_Forall_insert_2; [|exact B]. unfold kalloc. rewrite E1, E2. auto.
Qed.

Lemma kinv_sub_keeps T s s' : keeps T s s' -> touched GSub T = false -> kinv_sub s -> kinv_sub s'.
Proof.
  intros (_ & _ & _ & _ & _ & _ & _ & Ksub & _) Ht. rewrite Ht in Ksub. simpl in Ksub.
  apply kinv_sub_frame; tauto.
Qed.

(* carry [kinv_sub] along the frame facts in the context *)
Ltac ksub_chain :=
  repeat match goal with
  | Hk : keeps _ ?a ?b, Hi : kinv_sub ?a |- _ =>
      lazymatch goal with
      | _ : kinv_sub b |- _ => fail
      | _ => assert (kinv_sub b) by (eapply kinv_sub_keeps; [exact Hk|reflexivity|exact Hi])
      end
  end.

(* backwards: reduce [kinv_sub b] to [kinv_sub a] along a frame fact *)
Ltac ksub_back :=
  match goal with
  | Hk : keeps _ ?a ?b |- kinv_sub ?b => eapply (kinv_sub_keeps _ a b); [exact Hk|reflexivity|]
  end.

Lemma kinv_session_inactive_hook s sid acc nd b s' :
  kinv_sub s -> session_inactive_hook s sid acc nd b = Ok s' -> kinv_sub s'.
Proof.
  intros Hk H. unfold session_inactive_hook in H.
  destruct (sessions s !! sid) as [x|]; [|discriminate]. apply rbind_ok in H as (u & _ & H).
  destruct (subs s !! ss_sub x) as [sb|] eqn:Hsb; [|discriminate].
  match type of H with (if ?b then _ else _) = _ => destruct b end; [injection H as <-; assumption|].
  destruct (allocs s !! (sb_id sb, acc)) as [al|] eqn:Hal; [|discriminate].
  destruct (k_al _ Hk _ _ Hal) as (F1 & F2 & F3). simpl in F1, F2, F3.
  assert (Hupd : forall u e, kinv_sub (emit e (s <| allocs ::= fun m => <[(al_id al, al_addr al) := al <| al_used := u |>]> m |>))).
  { intros u0 e0. apply kinv_sub_emit. eapply kinv_sub_alloc_update; [exact Hk|rewrite F1, F2; exact Hal|reflexivity|reflexivity]. }
  res_inv; pose_keeps; repeat first [ apply Hupd | apply kinv_sub_emit | ksub_back ].
  all: eapply kinv_sub_alloc_update; [exact Hk|rewrite F1, F2; exact Hal|reflexivity|reflexivity].
Qed.

Lemma kinv_session_expire_one s e s' : kinv s -> session_expire_one s e = Ok s' -> kinv s'.
Proof.
  intros Hi H. pose proof (session_expire_one_keeps _ _ _ H) as Hk. kinv_frame Hk Hi; intros _.
  - unfold session_expire_one in H. destruct (sessions s !! e.2) as [x|] eqn:Hx; [|discriminate].
    case_bool_decide.
    + injection H as <-. apply kinv_sub_emit. eapply kinv_sub_frame; [..|apply (ki_sub _ Hi)]; reflexivity.
    + res_inv. apply kinv_sub_emit.
      match goal with Hh : session_inactive_hook ?s1 _ _ _ _ = Ok ?s2 |- _ =>
        apply kinv_session_inactive_hook in Hh; [|eapply kinv_sub_frame; [..|apply (ki_sub _ Hi)]; reflexivity] end.
      eapply kinv_sub_frame; [..|eassumption]; reflexivity.
  - destruct (ki_sess _ Hi) as [A B].
    unfold session_expire_one in H. destruct (sessions s !! e.2) as [x|] eqn:Hx; [|discriminate].
    destruct (A _ _ Hx) as (E1 & E2 & E3).
    case_bool_decide.
    + injection H as <-. apply kinv_sess_emit. split; simpl; auto. mf_solve A.
    + res_inv. apply kinv_sess_emit.
      match goal with Hh : session_inactive_hook ?s1 _ _ _ _ = Ok ?s2 |- _ => apply session_inactive_hook_keeps in Hh end.
      split; simpl; to_base s; auto. mf_solve A.
Qed.

Lemma kinv_session_end_block s s' : kinv s -> session_end_block s = Ok s' -> kinv s'.
Proof.
  intros Hi H. unfold session_end_block in H. eapply (rfold_inv kinv); [|exact Hi|exact H].
  intros; eapply kinv_session_expire_one; eauto.
Qed.

Lemma kinv_sub_cleanup s sb : kinv_sub s -> kinv_sub (sub_cleanup s sb).
Proof.
  intros Hk. unfold sub_cleanup. destruct (sb_kind sb).
  - destruct Hk as [A B C D]. split; simpl; auto. mf_solve B.
  - apply fold_left_inv.
    + intros x al [A B C D]. split; simpl; auto. mf_solve B.
    + destruct Hk as [A B C D]. split; simpl; auto.
Qed.

Lemma kinv_sub_expire_one s e s' : kinv s -> sub_expire_one s e = Ok s' -> kinv s'.
Proof.
  intros Hi H. pose proof (sub_expire_one_keeps _ _ _ H) as Hk. kinv_frame Hk Hi; intros _.
  - unfold sub_expire_one in H. destruct (subs s !! e.2) as [sb|] eqn:Hsb; [|discriminate].
    destruct (k_sub _ (ki_sub _ Hi) _ _ Hsb) as (E1 & E2 & E3).
    case_bool_decide.
    + apply rbind_ok in H as (s1 & Hp & H). apply must_ok, sub_pending_hook_keeps in Hp.
      assert (Hk2 : kinv_sub s1) by (eapply kinv_sub_frame; [..|apply (ki_sub _ Hi)]; keeps_solve).
      assert (Es : subs s1 = subs s) by keeps_solve.
      eapply kinv_detach_payout; [| |exact H]; [|discriminate]. apply kinv_sub_make_pending; [exact Hk2|]. rewrite Es, E1. exact Hsb.
    + apply rbind_ok in H as (s1 & Hr & H). apply sub_refund_keeps in Hr.
      assert (Hk1 : kinv_sub s1) by (eapply kinv_sub_frame; [..|apply (ki_sub _ Hi)]; keeps_solve).
      pose proof (kinv_sub_cleanup s1 sb Hk1) as [A B C D].
      unfold sub_delete_payout in H. repeat case_match; res_inv; try apply kinv_sub_emit; split; simpl; auto.
      all: try mf_solve A. all: try mf_solve B. all: try mf_solve C.
  - unfold sub_expire_one in H. destruct (subs s !! e.2) as [sb|] eqn:Hsb; [|discriminate].
    case_bool_decide.
    + apply rbind_ok in H as (s1 & Hp & H). apply must_ok in Hp.
      pose proof (sub_make_pending_keeps s1 sb) as Hmp. apply detach_payout_keeps in H; [|discriminate].
      eapply (kinv_sess_frame s1); [keeps_solve|keeps_solve|].
      eapply kinv_sub_pending_hook; [|exact Hp]. eapply kinv_sess_frame; [..|apply (ki_sess _ Hi)]; reflexivity.
    + apply rbind_ok in H as (s1 & Hr & H). apply sub_refund_keeps in Hr. apply sub_delete_payout_keeps in H.
      pose proof (sub_cleanup_keeps s1 sb) as Hc.
      eapply kinv_sess_frame; [..|apply (ki_sess _ Hi)]; keeps_solve.
Qed.

Lemma kinv_sub_end_block s s' : kinv s -> sub_end_block s = Ok s' -> kinv s'.
Proof.
  intros Hi H. unfold sub_end_block in H. eapply (rfold_inv kinv); [|exact Hi|exact H].
  intros; eapply kinv_sub_expire_one; eauto.
Qed.

(** * every operation preserves the invariant *)

Lemma kinv_other T s s' :
  keeps T s s' -> touched GPv T = false -> touched GNode T = false -> touched GPl T = false ->
  touched GSub T = false -> touched GSess T = false -> kinv s -> kinv s'.
Proof. intros Hk T1 T2 T3 T4 T5 Hi. eapply kinv_keeps; eauto; rewrite ?T1, ?T2, ?T3, ?T4, ?T5; discriminate. Qed.

Lemma kinv_handle s m s' : kinv s -> handle s m = Ok s' -> kinv s'.
Proof.
  intros Hi H. destruct m; simpl in H.
  - eapply kinv_h_prov_register; eauto.
  - eapply kinv_h_prov_update; eauto.
  - eapply kinv_h_node_register; eauto.
  - eapply kinv_h_node_update_details; eauto.
  - eapply kinv_h_node_update_status; eauto.
  - eapply kinv_h_node_subscribe; eauto.
  - eapply kinv_h_plan_create; eauto.
  - eapply kinv_h_plan_update_status; eauto.
  - eapply kinv_h_plan_link; eauto.
  - eapply kinv_h_plan_unlink; eauto.
  - eapply kinv_h_plan_subscribe; eauto.
  - eapply kinv_h_sub_cancel; eauto.
  - eapply kinv_h_sub_allocate; eauto.
  - eapply kinv_h_sess_start; eauto.
  - eapply kinv_h_sess_update; eauto.
  - eapply kinv_h_sess_end; eauto.
  - apply h_swap_keeps in H. eapply kinv_other; eauto.
Qed.

Lemma kinv_updates s s' : keeps [GPar; GNow; GMint] s s' -> kinv s -> kinv s'.
Proof. intros Hk. eapply kinv_other; eauto. Qed.

Theorem kinv_step s o s' : kinv s -> step s o = OOk s' -> kinv s'.
Proof.
  intros Hi. unfold step. destruct o.
  - destruct (begin_block _) as [x| |] eqn:H; try discriminate. intros [= <-].
    unfold begin_block in H. apply rbind_ok in H as (s1 & Hm & H).
    eapply kinv_sub_begin_block; [|exact H]. apply mint_begin_block_keeps in Hm.
    eapply (kinv_other [GMint; GNow] s); [| | | | | |exact Hi]; [keeps_solve|..]; reflexivity.
  - unfold run_tx. destruct (validate_basic m); [|discriminate].
    destruct (handle _ m) as [x| |] eqn:H; try discriminate. intros [= <-].
    eapply kinv_handle; [|exact H]. eapply (kinv_updates s); [keeps_solve|exact Hi].
  - destruct (forallb pchange_valid _); [|discriminate]. intros [= <-]. apply (fold_left_inv kinv).
    + intros x c Hx. pose proof (apply_pchange_keeps x c). eapply kinv_other; eauto.
    + eapply (kinv_updates s); [keeps_solve|exact Hi].
  - destruct (end_block _) as [se| |] eqn:H; try discriminate. intros [= <-].
    unfold end_block in H. apply rbind_ok in H as (s1 & H1 & H). apply rbind_ok in H as (s2 & H2 & H3).
    eapply (kinv_updates se); [keeps_solve|].
    eapply kinv_sub_end_block; [|exact H3]. eapply kinv_session_end_block; [|exact H2].
    eapply kinv_node_end_block; [|exact H1]. eapply (kinv_updates s); [keeps_solve|exact Hi].
Qed.

Lemma kinv_clear s : kinv s -> kinv (clear_events s).
Proof. apply kinv_updates. keeps_solve. Qed.

Theorem kinv_run ops : forall s i s', kinv s -> run_from s ops i = RunOk s' -> kinv s'.
Proof.
  induction ops as [|o ops IH]; simpl; intros s i s' Hi H.
  - injection H as <-. exact Hi.
  - destruct (step s o) eqn:E; try discriminate.
    + eapply IH; [eapply kinv_step; eauto|exact H].
    + eapply IH; [apply kinv_clear; exact Hi|exact H].
Qed.

Lemma kinv_init g : kinv (init g).
Proof.
  assert (H0 : kinv (empty_state (g_cfg g) (g_params g))).
  { split; split; try (cbv [empty_state plan_count sub_count sess_count]; lia); simpl; first [apply dp_empty | apply map_Forall_empty]. }
  unfold init.
  assert (H1 : kinv (fold_left (fun s '(a, (d, v)) => set_bal (s <| supply ::= fun c => coins_add c d v |>) a d (bal s a d + v))
                       (g_balances g) (empty_state (g_cfg g) (g_params g)))).
  { apply (fold_left_inv kinv); [|exact H0]. intros x [a [d v]] Hx.
    eapply (kinv_other [GBank; GSupply]); [|reflexivity..|exact Hx]. keeps_solve. }
  destruct (g_mint g) as [[[mx mn] rc] inf].
  eapply (kinv_other [GMint; GNow]); [|reflexivity..|exact H1]. keeps_solve.
Qed.
