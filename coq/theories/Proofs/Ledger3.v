(* C02, part 3: corollaries of the escrow ledger invariant -- every hourly payout, every session
   settlement and the refund at removal move exactly the advertised amount out of the owner's
   deposit record and lower the unsettled part of that very subscription by the same amount;
   nobody is charged beyond the deposit; no debit can draw on another subscription's share
   (hence none can fail for lack of recorded funds).  With a non-vacuity example. *)
From Hub Require Import Base.Prelude Base.Arith Model.Types Model.Keeper Model.Handlers Model.Hooks Model.Step.
From Hub Require Import Proofs.Tactics Proofs.Sorting Proofs.Frames Proofs.Money Proofs.KeysInv Proofs.ArithThm.
From Hub Require Import Proofs.Lifecycle Proofs.Auth Proofs.Quota Proofs.Pricing Proofs.InvDefs Proofs.Ledger1 Proofs.Ledger2.
From Coq Require Import ZifyBool.

Local Open Scope Z_scope.

(** * never overcharged *)

Theorem never_overcharged s id sb n g h dep :
  kinv s -> idx_sub s -> ledger_inv s -> subs s !! id = Some sb -> sb_kind sb = KNode n g h dep ->
  forall a d, 0 <= unsettled s a d sb <= dep.2.
Proof.
  intros Hk Hx Hl Hsb Hkd. eapply unsettled_within_deposit; eauto; [apply Hk|apply idx_lstruct; exact Hx].
Qed.

(* what has been paid out of a node subscription's deposit so far *)
Definition paid_so_far (s : state) (sb : subscription) : Z :=
  match sb_kind sb with
  | KNode _ _ _ dep => dep.2 - unsettled s (sb_addr sb) dep.1 sb
  | KPlan _ _ => 0
  end.

Corollary paid_within_deposit s id sb n g h dep :
  kinv s -> idx_sub s -> ledger_inv s -> subs s !! id = Some sb -> sb_kind sb = KNode n g h dep ->
  0 <= paid_so_far s sb <= dep.2.
Proof.
  intros Hk Hx Hl Hsb Hkd. unfold paid_so_far. rewrite Hkd.
  pose proof (never_overcharged s id sb n g h dep Hk Hx Hl Hsb Hkd (sb_addr sb) dep.1). lia.
Qed.

(** * an hourly payout is exact *)

Theorem payout_exact s e s' po sb :
  kinv s -> idx_sub s -> ledger_inv s -> e ∈ pay_q s -> payout_step s e = Ok s' ->
  payouts s !! e.2 = Some po -> subs s !! e.2 = Some sb ->
  let amt := (po_price po).2 in
  let d0 := (po_price po).1 in
  0 <= amt /\ po_addr po = sb_addr sb /\
  (* the subscriber's record in the price's denomination, and nothing else, goes down by the hourly price *)
  (forall a d, damt s' a d = damt s a d - dlt (po_addr po) d0 amt a d) /\
  (* so does the unsettled part of the paid subscription *)
  (forall a d, unsettled s' a d sb = unsettled s a d sb - dlt (po_addr po) d0 amt a d) /\
  (* every other subscription is as it was *)
  subs s' = subs s /\
  (forall id' sb', id' <> e.2 -> subs s !! id' = Some sb' -> forall a d, unsettled s' a d sb' = unsettled s a d sb') /\
  (* the money goes to the fee collector and to the node, without loss *)
  exists fee, 0 <= fee <= amt /\
    forall x d', bal s' x d' = bal s x d' + moved (c_deposit (cfg s)) (c_feecoll (cfg s)) d0 fee x d'
                                          + moved (c_deposit (cfg s)) (po_node po) d0 (amt - fee) x d'.
Proof.
  intros Hi Hx Hl He H Hp Hsb. cbv zeta. pose proof (ki_sub _ Hi) as Hk. pose proof (idx_lstruct _ Hx) as Hst.
  destruct (payout_step_effect _ _ _ H) as (po0 & po' & Hp0 & Hd & Hsubs & Hal & Hpo & Epr & Ehr & _).
  rewrite Hp in Hp0. injection Hp0 as <-.
  destruct (k_po _ Hk _ _ Hp) as (Eid & _).
  assert (Hpos : 0 < po_hours po).
  { destruct e as [t id]. apply (ix_payq _ Hx) in He as (po2 & sb2 & Hp2 & _ & Hpos & _).
    simpl in Hp. rewrite Hp in Hp2. injection Hp2 as <-. exact Hpos. }
  destruct (ls_pay_sub _ Hst _ _ Hp) as (Hh0 & sb2 & g & h & dep & Hsb2 & Hkd & Hh & Eaddr).
  rewrite Hsb in Hsb2. injection Hsb2 as <-.
  destruct (k_sub _ Hk _ _ Hsb) as (Esid & _).
  destruct (lg_price _ Hl _ _ _ _ _ _ _ Hsb Hkd Hh Hp) as (Eprice & Hhr).
  pose proof (ls_kind _ Hst _ _ Hsb) as Hko. rewrite Hkd in Hko. simpl in Hko. destruct Hko as [Hgh Hdep].
  assert (Hhpos : 0 < h) by lia.
  pose proof (quot_nonneg dep.2 h Hdep Hhpos) as Hq.
  split; [rewrite Eprice; exact Hq|]. split; [exact Eaddr|]. split; [exact Hd|]. split; [|split; [exact Hsubs|split]].
  - intros a d.
    rewrite (unsettled_hourly s a d sb _ g h dep po Hkd Hh) by (rewrite Esid; exact Hp).
    rewrite (unsettled_hourly s' a d sb _ g h dep po' Hkd Hh) by (rewrite Esid, Hpo, Eid; apply lookup_insert).
    rewrite Epr, Ehr, Eprice. cbn [fst snd]. unfold dlt. rewrite Eaddr.
    repeat case_bool_decide; try lia; exfalso; naive_solver.
  - intros id' sb' Hne Hsb' a d. destruct (k_sub _ Hk _ _ Hsb') as (Esid' & _).
    apply unsettled_same; [rewrite Hal; reflexivity|]. rewrite Hpo, Esid', Eid. rewrite lookup_insert_ne by congruence. reflexivity.
  - destruct (payout_split _ _ _ H) as (po2 & fee & Hp2 & _ & Hfee & Hbal).
    rewrite Hp in Hp2. injection Hp2 as <-. exists fee. split; [exact Hfee|exact Hbal].
Qed.

(** * the settlement of a session on a per-gigabyte subscription is exact *)

Theorem settlement_exact s sid acc nd b s' x sb n g dep :
  kinv s -> idx_sub s -> ledger_inv s -> 0 <= b -> session_inactive_hook s sid acc nd b = Ok s' ->
  sessions s !! sid = Some x -> subs s !! ss_sub x = Some sb -> sb_kind sb = KNode n g 0 dep ->
  exists al used',
    acc = sb_addr sb /\ allocs s !! (ss_sub x, acc) = Some al /\
    used' = (if al_granted al - al_used al <? b then al_granted al else al_used al + b) /\
    let amt := afb (Z.quot dep.2 g) used' - afb (Z.quot dep.2 g) (al_used al) in
    0 <= amt /\
    (forall a d, damt s' a d = damt s a d - dlt acc dep.1 amt a d) /\
    (forall a d, unsettled s' a d sb = unsettled s a d sb - dlt acc dep.1 amt a d) /\
    subs s' = subs s /\
    (forall id' sb', id' <> ss_sub x -> subs s !! id' = Some sb' -> forall a d, unsettled s' a d sb' = unsettled s a d sb').
Proof.
  intros Hi Hx Hl Hb H Hses Hsb Hkd. pose proof (ki_sub _ Hi) as Hk. pose proof (idx_lstruct _ Hx) as Hst.
  pose proof (ls_kind _ Hst _ _ Hsb) as Hko. rewrite Hkd in Hko. simpl in Hko. destruct Hko as [Hgh Hdep].
  assert (Hg : 0 < g) by lia.
  destruct (k_sub _ Hk _ _ Hsb) as (Esid & _).
  destruct (settlement_spec _ _ _ _ _ _ _ _ _ _ _ Hk Hst Hl Hb H Hses Hsb Hkd Hg)
    as (al & used' & Eacc & Hal & Eu & Hub & Hdiff0 & F1 & F2 & F3 & Hd).
  exists al, used'. subst acc. split; [reflexivity|]. split; [rewrite <- Esid; exact Hal|]. split; [exact Eu|].
  cbv zeta. split; [exact Hdiff0|]. split; [exact Hd|]. split; [|split; [exact F1|]].
  - intros a d. rewrite (unsettled_metered s a d sb n g dep al Hkd Hal).
    rewrite (unsettled_metered s' a d sb n g dep (al <| al_used := used' |>) Hkd) by (rewrite F3; apply lookup_insert).
    simpl. unfold dlt. repeat case_bool_decide; try lia; exfalso; naive_solver.
  - intros id' sb' Hne Hsb' a d. destruct (k_sub _ Hk _ _ Hsb') as (Esid' & _).
    apply unsettled_same; [|rewrite F2; reflexivity]. rewrite F3, Esid', Esid. rewrite lookup_insert_ne by congruence. reflexivity.
Qed.

(** * removal: the refund is exactly the unsettled part, so paid + refund = deposit *)

Theorem removal_refund_exact s e s' sb :
  kinv s -> idx_sub s -> ledger_inv s -> sub_expire_one s e = Ok s' ->
  subs s !! e.2 = Some sb -> sb_status sb <> SActive ->
  (* the owner's record is debited by exactly the unsettled part ... *)
  (forall a d, damt s' a d = damt s a d - unsettled s a d sb) /\
  (* ... the records of other accounts do not change *)
  (forall a d, a <> sb_addr sb -> damt s' a d = damt s a d) /\
  (* the subscription is gone, every other one is as it was *)
  subs s' = delete e.2 (subs s) /\
  (forall id' sb', id' <> e.2 -> subs s !! id' = Some sb' -> forall a d, unsettled s' a d sb' = unsettled s a d sb') /\
  (* the subscriber receives the refund: paid so far + refund = deposit, 0 <= refund <= deposit *)
  (forall n g h dep, sb_kind sb = KNode n g h dep ->
     let refund := unsettled s (sb_addr sb) dep.1 sb in
     paid_so_far s sb + refund = dep.2 /\ 0 <= refund <= dep.2 /\
     forall x d', bal s' x d' = bal s x d' + moved (c_deposit (cfg s)) (sb_addr sb) dep.1 refund x d').
Proof.
  intros Hi Hx Hl H Hsb Hst. pose proof (ki_sub _ Hi) as Hk. pose proof (idx_lstruct _ Hx) as Hls.
  destruct (k_sub _ Hk _ _ Hsb) as (Esid & _).
  unfold sub_expire_one in H. rewrite Hsb in H. rewrite bool_decide_eq_false_2 in H by exact Hst.
  match type of H with context [sub_refund ?t _] => set (s0 := t) in * end.
  assert (Hk0 : kinv_sub s0) by (eapply kinv_sub_frame; [..|exact Hk]; reflexivity).
  assert (Hl0 : ledger_inv s0) by (eapply ledger_inv_frame; [..|exact Hl]; reflexivity).
  assert (Hst0 : lstruct s0) by (eapply lstruct_frame; [..|exact Hls]; reflexivity).
  assert (Hsb0 : subs s0 !! e.2 = Some sb) by exact Hsb.
  apply rbind_ok in H as (s1 & Hr & H).
  destruct (sub_refund_spec _ _ _ _ Hk0 Hst0 Hl0 Hsb0 Hr) as (D1 & S1 & A1 & P1 & B1).
  assert (Hk1 : kinv_sub s1) by (eapply kinv_sub_frame; [..|exact Hk0]; auto; apply sub_refund_keeps in Hr; keeps_solve).
  destruct (sub_cleanup_fields s1 sb) as (S2 & P2 & D2 & A2).
  pose proof (kinv_sub_cleanup s1 sb Hk1) as Hk2.
  pose proof (sub_cleanup_keeps s1 sb) as Kc.
  match type of H with sub_delete_payout ?t _ = _ => set (s3 := t) in * end.
  assert (Hk3 : kinv_sub s3).
  { destruct Hk2 as [KA KB KC KD]. split; simpl; auto. apply map_Forall_delete. exact KA. }
  destruct (sub_delete_payout_fields _ _ _ Hk3 H) as (S4 & A4 & D4 & P4).
  pose proof (sub_delete_payout_keeps _ _ _ H) as Kd.
  assert (Hdm : forall a d, damt s' a d = damt s a d - unsettled s a d sb).
  { intros a d. rewrite (damt_frame s3 s' D4). change (damt s3 a d) with (damt (sub_cleanup s1 sb) a d).
    rewrite (damt_frame s1 _ D2). rewrite D1. reflexivity. }
  split; [exact Hdm|]. split; [|split; [|split]].
  - intros a d Hne. rewrite Hdm, unsettled_other by congruence. lia.
  - rewrite S4. unfold s3. simpl. rewrite Esid, S2, S1. reflexivity.
  - intros id' sb' Hne Hsb' a d. destruct (k_sub _ Hk _ _ Hsb') as (Esid' & _).
    apply unsettled_same.
    + rewrite A4. unfold s3. simpl. rewrite Esid'. rewrite A2 by congruence. rewrite A1. reflexivity.
    + rewrite Esid'. rewrite P4 by congruence. unfold s3. simpl. rewrite P2, P1. reflexivity.
  - intros n g h dep Hkd. cbv zeta.
    pose proof (never_overcharged s e.2 sb n g h dep Hi Hx Hl Hsb Hkd (sb_addr sb) dep.1) as Hno.
    split; [unfold paid_so_far; rewrite Hkd; lia|]. split; [exact Hno|].
    intros x d'. specialize (B1 _ _ _ _ Hkd x d').
    assert (Eb : bank s' = bank s1) by (transitivity (bank s3); [keeps_solve|]; unfold s3; simpl; keeps_solve).
    unfold bal at 1. rewrite Eb. fold (bal s1 x d'). exact B1.
Qed.

(** * no cross-subsidy: every hook-side debit is covered by the very subscription being processed *)

(* the two debits of an hourly payout (fee, then node) never fail for lack of recorded funds *)
Theorem payout_debits_covered s e po :
  kinv s -> idx_sub s -> ledger_inv s -> e ∈ pay_q s -> payouts s !! e.2 = Some po ->
  forall fee, 0 <= fee <= (po_price po).2 ->
  let s1 := s <| pay_q ::= fun q => q ∖ {[ (po_next_at po, po_id po) ]} |> in
  (fee <> 0 -> exists c, dep_remaining s1 (po_addr po) (po_price po).1 fee = Ok c) /\
  (forall s2, z_dep_to_module s1 (po_addr po) (c_feecoll (cfg s1)) ((po_price po).1, fee) = Ok s2 ->
     (po_price po).2 - fee <> 0 ->
     exists c, dep_remaining s2 (po_addr po) (po_price po).1 ((po_price po).2 - fee) = Ok c).
Proof.
  intros Hi Hx Hl He Hp fee Hfee s1. pose proof (ki_sub _ Hi) as Hk. pose proof (idx_lstruct _ Hx) as Hst.
  assert (Hpos : 0 < po_hours po).
  { destruct e as [t id]. apply (ix_payq _ Hx) in He as (po2 & sb2 & Hp2 & _ & Hpos & _).
    simpl in Hp. rewrite Hp in Hp2. injection Hp2 as <-. exact Hpos. }
  destruct (ls_pay_sub _ Hst _ _ Hp) as (Hh0 & sb & g & h & dep & Hsb & Hkd & Hh & Eaddr).
  destruct (k_sub _ Hk _ _ Hsb) as (Esid & _).
  assert (Hun : (po_price po).2 <= unsettled s (po_addr po) (po_price po).1 sb).
  { destruct (lg_price _ Hl _ _ _ _ _ _ _ Hsb Hkd Hh Hp) as (Eprice & Hhr).
    rewrite (unsettled_hourly s _ _ sb _ g h dep po Hkd Hh) by (rewrite Esid; exact Hp).
    rewrite bool_decide_eq_true_2 by (rewrite Eprice; auto). nia. }
  destruct (ledger_covers2 s (po_addr po) (po_price po).1 e.2 sb fee ((po_price po).2 - fee) Hl Hsb) as [C1 C2]; try lia.
  split.
  - intros Hne. exact (C1 Hne).
  - intros s2 Hs2 Hne. apply C2; [|exact Hne]. intros x d'.
    rewrite (z_dep_to_module_damt _ _ _ _ _ Hs2). reflexivity.
Qed.

(* the two debits of a session settlement *)
Theorem settlement_debits_covered s sid acc x sb n g dep al b :
  kinv s -> idx_sub s -> ledger_inv s -> 0 <= b ->
  sessions s !! sid = Some x -> subs s !! ss_sub x = Some sb -> sb_kind sb = KNode n g 0 dep ->
  allocs s !! (ss_sub x, acc) = Some al ->
  let used' := (if al_granted al - al_used al <? b then al_granted al else al_used al + b) in
  let amt := afb (Z.quot dep.2 g) used' - afb (Z.quot dep.2 g) (al_used al) in
  forall s1, deposits s1 = deposits s ->
  forall fee, 0 <= fee <= amt ->
  (fee <> 0 -> exists c, dep_remaining s1 acc dep.1 fee = Ok c) /\
  (forall s2 m, z_dep_to_module s1 acc m (dep.1, fee) = Ok s2 ->
     amt - fee <> 0 -> exists c, dep_remaining s2 acc dep.1 (amt - fee) = Ok c).
Proof.
  intros Hi Hx Hl Hb Hses Hsb Hkd Hal used' amt s1 Hd1 fee Hfee.
  pose proof (ki_sub _ Hi) as Hk. pose proof (idx_lstruct _ Hx) as Hst.
  pose proof (ls_kind _ Hst _ _ Hsb) as Hko. rewrite Hkd in Hko. simpl in Hko. destruct Hko as [Hgh Hdep].
  assert (Hg : 0 < g) by lia.
  destruct (k_sub _ Hk _ _ Hsb) as (Esid & _).
  destruct (ls_alloc_sub _ Hst _ _ _ Hal) as (sb2 & Hsb2 & _ & Hmet).
  rewrite Hsb in Hsb2. injection Hsb2 as <-.
  assert (Eacc : acc = sb_addr sb).
  { apply Hmet. unfold metered. rewrite Hkd. apply negb_true_iff, Z.eqb_neq. lia. }
  subst acc.
  destruct (lg_alloc _ Hl _ _ _ _ _ _ _ Hsb Hkd eq_refl Hal) as (Egr & Hu0 & Hu1).
  pose proof (quot_nonneg dep.2 g Hdep Hg) as Hpr0.
  assert (Hub : al_used al <= used' <= al_granted al) by (unfold used'; destruct (_ <? b) eqn:E; lia).
  assert (Hfull : afb (Z.quot dep.2 g) used' <= dep.2).
  { etransitivity; [apply (afb_le_mono _ used' (GB * g)); lia|]. apply afb_full; lia. }
  assert (Hun : amt <= unsettled s (sb_addr sb) dep.1 sb).
  { rewrite (unsettled_metered s _ _ sb n g dep al Hkd) by (rewrite Esid; exact Hal).
    rewrite bool_decide_eq_true_2 by auto. unfold amt. lia. }
  destruct (ledger_covers2 s (sb_addr sb) dep.1 (ss_sub x) sb fee (amt - fee) Hl Hsb) as [C1 C2]; try lia.
  assert (Hds : forall y d', damt s1 y d' = damt s y d') by (apply damt_frame; exact Hd1).
  split.
  - intros Hne. destruct (C1 Hne) as [c Hc]. exists c. unfold dep_remaining in *. rewrite Hd1. exact Hc.
  - intros s2 m Hs2 Hne. apply C2; [|exact Hne]. intros y d'.
    rewrite (z_dep_to_module_damt _ _ _ _ _ Hs2). rewrite Hds. reflexivity.
Qed.

(* the refund at removal *)
Theorem refund_covered s id sb n g h dep :
  ledger_inv s -> subs s !! id = Some sb -> sb_kind sb = KNode n g h dep ->
  let refund := unsettled s (sb_addr sb) dep.1 sb in
  refund <> 0 -> exists c, dep_remaining s (sb_addr sb) dep.1 refund = Ok c.
Proof.
  intros Hl Hsb Hkd refund Hne. apply (ledger_covers s _ _ id sb); [exact Hl|exact Hsb|].
  pose proof (lg_nonneg _ Hl _ _ (sb_addr sb) dep.1 Hsb). unfold refund in *. lia.
Qed.

(* one account's escrow is never spent on another's obligations: a debit of account [a] changes no
   other account's record (all three hook-side debits go through these two keeper functions) *)
Theorem debit_own_record_only s from m c s' :
  z_dep_to_module s from m c = Ok s' \/ z_dep_to_account s from m c = Ok s' ->
  forall a d, a <> from -> damt s' a d = damt s a d.
Proof.
  intros [H|H] a d Hne; [rewrite (z_dep_to_module_damt _ _ _ _ _ H)|rewrite (z_dep_to_account_damt _ _ _ _ _ H)];
    unfold dlt; rewrite bool_decide_eq_false_2 by (intros [? _]; contradiction); lia.
Qed.

(** * non-vacuity: a reachable state with two live pay-as-you-go subscriptions of one account in
      one denomination -- a per-gigabyte one with 500000001 bytes settled (charge 351 of 1400, rounded
      up from 350.0000007) and an hourly one with one of three payouts made (11 of 33) -- on which
      the deposit record (1071) equals the sum of the two unsettled parts (1049 + 22) *)

Definition ledger_ex_cfg : config :=
  {| c_deposit := [1%N]; c_feecoll := [2%N]; c_distr := [3%N]; c_swap := [4%N];
     c_blocked := [[1%N]; [2%N]; [3%N]; [4%N]] |}.
Definition ledger_ex_genesis : genesis :=
  {| g_cfg := ledger_ex_cfg; g_balances := [([9%N], (1%N, 100000)); ([5%N], (1%N, 100))];
     g_params := g_params_dummy <| p_node_share := 2 * 10 ^ 17 |>;
     g_inflations := []; g_mint := (0, 0, 0, 0); g_time := 0 |}.
Definition ledger_ex_ops : list op :=
  let acc9 := {| ta_role := RAcc; ta_upper := false; ta_bytes := [9%N] |} in
  let acc5 := {| ta_role := RAcc; ta_upper := false; ta_bytes := [5%N] |} in
  let node5 := {| ta_role := RNode; ta_upper := false; ta_bytes := [5%N] |} in
  [OBegin 10;
   OTx (MNodeRegister acc5 (Some [(1%N, 700)]) (Some [(1%N, 11)]) "u" true);
   OTx (MNodeUpdateStatus node5 SActive);
   OTx (MNodeSubscribe acc9 node5 2 0 1%N);          (* subscription 1: 2 GB at 700/GB, deposit 1400 *)
   OTx (MNodeSubscribe acc9 node5 0 3 1%N);          (* subscription 2: 3 hours at 11/h, deposit 33 *)
   OTx (MSessStart acc9 1 node5);
   OTx (MSessUpdate node5 1 300000000 200000001 60 None true);
   OTx (MSessEnd acc9 1 0);
   OEnd;
   OBegin 200;                                       (* first hourly payout of subscription 2 *)
   OEnd].                                            (* the session is settled: 500000001 bytes *)

Example ledger_nonvacuous :
  match run (init ledger_ex_genesis) ledger_ex_ops with
  | RunOk s =>
      damt s [9%N] 1%N = 1071 /\ ledger_total s [9%N] 1%N = 1071 /\
      map (fun kv => unsettled s [9%N] 1%N kv.2) (map_to_list (subs s)) = [1049; 22] /\
      (al_used <$> allocs s !! (1, [9%N])) = Some 500000001 /\
      ((fun po => (po_price po, po_hours po)) <$> payouts s !! 2) = Some ((1%N, 11), 2)
  | _ => False
  end.
Proof. vm_compute. repeat split; reflexivity. Qed.
