(* C09 / C04 / C03: every secondary index of the KV store is exactly the image of the
   primary records it is derived from (stated pointwise), so filtered listings agree
   with the full listing, nothing dangles, and every queue entry the block hooks will
   consume points at a live record with exactly that deadline. *)
From Hub Require Import Base.Prelude Base.Arith Model.Types Model.Keeper Model.Handlers Model.Hooks Model.Step.
From Hub Require Import Proofs.Tactics Proofs.Frames Proofs.KeysInv.

(* case on the key of an updated map, rewriting the look-ups *)
Ltac ix_case k id :=
  destruct (decide (id = k)) as [->|?];
  [rewrite ?lookup_insert, ?lookup_delete | rewrite ?lookup_insert_ne, ?lookup_delete_ne by congruence].
Ltac ix_sets := rewrite ?elem_of_union, ?elem_of_difference, ?elem_of_singleton.

(** * sessions *)

Record idx_sess (s : state) : Prop := {
  ix_sq : forall t id, (t, id) ∈ sess_q s <-> exists x, sessions s !! id = Some x /\ ss_inactive_at x = t;
  ix_sacc : forall a id, (a, id) ∈ sess_acc s <-> exists x, sessions s !! id = Some x /\ ss_addr x = a;
  ix_snode : forall a id, (a, id) ∈ sess_node s <-> exists x, sessions s !! id = Some x /\ ss_node x = a;
  ix_ssub : forall sid id, (sid, id) ∈ sess_sub s <-> exists x, sessions s !! id = Some x /\ ss_sub x = sid;
  ix_salloc : forall sid a id, (sid, a, id) ∈ sess_alloc s <-> exists x, sessions s !! id = Some x /\ ss_sub x = sid /\ ss_addr x = a }.

Lemma idx_sess_frame s s' :
  sessions s' = sessions s -> sess_q s' = sess_q s -> sess_acc s' = sess_acc s -> sess_node s' = sess_node s ->
  sess_sub s' = sess_sub s -> sess_alloc s' = sess_alloc s -> idx_sess s -> idx_sess s'.
Proof. intros E1 E2 E3 E4 E5 E6 [A B C D E]. split; rewrite ?E1, ?E2, ?E3, ?E4, ?E5, ?E6; assumption. Qed.

Lemma idx_sess_keeps T s s' : keeps T s s' -> touched GSess T = false -> idx_sess s -> idx_sess s'.
Proof.
  intros (_ & _ & _ & _ & _ & _ & _ & _ & K & _) Ht. rewrite Ht in K. simpl in K. apply idx_sess_frame; tauto.
Qed.

Lemma idx_session_make_pending s x :
  kinv_sess s -> idx_sess s -> sessions s !! ss_id x = Some x -> idx_sess (session_make_pending s x).
Proof.
  intros Hk [A B C D E] Hx. unfold session_make_pending.
  split; simpl; intros; ix_sets; rewrite ?A, ?B, ?C, ?D, ?E;
    (ix_case (ss_id x) id; [rewrite ?Hx|]); try naive_solver.
Qed.

Lemma idx_sub_pending_hook s id s' : kinv_sess s -> idx_sess s -> sub_pending_hook s id = Ok s' -> idx_sess s'.
Proof.
  intros Hk Hix H. unfold sub_pending_hook in H.
  assert (G : kinv_sess s' /\ idx_sess s').
  { eapply (rfold_inv (fun y => kinv_sess y /\ idx_sess y)); [|split; eassumption|exact H].
    intros a sid b [Ha Hq] Hstep. cbv beta in Hstep. destruct (sessions a !! sid) as [x|] eqn:Hx; [|discriminate].
    destruct (k_ss _ Ha _ _ Hx) as (E1 & _).
    case_bool_decide; injection Hstep as <-; [|auto]. split.
    - apply kinv_session_make_pending; [exact Ha|rewrite E1; exact Hx].
    - apply idx_session_make_pending; [exact Ha|exact Hq|rewrite E1; exact Hx]. }
  apply G.
Qed.

Lemma idx_h_sess_start s from id nd s' : kinv_sess s -> idx_sess s -> h_sess_start s from id nd = Ok s' -> idx_sess s'.
Proof.
  intros [KA KB] [A B C D E] H. unfold h_sess_start in H.
  assert (Hfresh : sessions s !! (sess_count s + 1) = None).
  { destruct (sessions s !! (sess_count s + 1)) eqn:E0; [|reflexivity]. destruct (KA _ _ E0) as (_ & ? & _). lia. }
  res_inv; split; simpl; intros; ix_sets; rewrite ?A, ?B, ?C, ?D, ?E;
    (match goal with |- context [<[?k := _]> _ !! ?i] => ix_case k i end; [rewrite ?Hfresh|]); naive_solver.
Qed.

Lemma idx_h_sess_update s from id u d du ok s' : kinv_sess s -> idx_sess s -> h_sess_update s from id u d du ok = Ok s' -> idx_sess s'.
Proof.
  intros Hk [A B C D E] H. unfold h_sess_update in H. destruct (sessions s !! id) as [x|] eqn:Hx; [|discriminate].
  apply rbind_ok in H as (u1 & _ & H). apply rbind_ok in H as (u2 & _ & H). apply rbind_ok in H as (u3 & _ & H).
  case_bool_decide; injection H as <-; split; simpl; intros; ix_sets; rewrite ?A, ?B, ?C, ?D, ?E;
    (match goal with |- context [<[?k := _]> _ !! ?i] => ix_case k i end; [rewrite ?Hx|]); naive_solver.
Qed.

Lemma idx_h_sess_end s from id s' : kinv_sess s -> idx_sess s -> h_sess_end s from id = Ok s' -> idx_sess s'.
Proof.
  intros Hk Hix H. unfold h_sess_end in H. destruct (sessions s !! id) as [x|] eqn:Hx; [|discriminate].
  destruct (k_ss _ Hk _ _ Hx) as (E1 & _).
  apply rbind_ok in H as (u & _ & H). apply rbind_ok in H as (u2 & _ & H). injection H as <-.
  apply idx_session_make_pending; [exact Hk|exact Hix|rewrite E1; exact Hx].
Qed.

Lemma idx_session_expire_one s e s' : kinv_sess s -> idx_sess s -> session_expire_one s e = Ok s' -> idx_sess s'.
Proof.
  intros Hk [A B C D E] H. unfold session_expire_one in H. destruct (sessions s !! e.2) as [x|] eqn:Hx; [|discriminate].
  destruct (k_ss _ Hk _ _ Hx) as (E1 & _). rewrite <- E1 in Hx.
  case_bool_decide.
  - injection H as <-. split; simpl; intros; ix_sets; rewrite ?A, ?B, ?C, ?D, ?E;
      (ix_case (ss_id x) id; [rewrite ?Hx|]); naive_solver.
  - apply rbind_ok in H as (total & _ & H). apply rbind_ok in H as (s1 & Hh & H). apply must_ok in Hh. injection H as <-.
    apply session_inactive_hook_keeps in Hh.
    assert (F : sessions s1 = sessions s /\ sess_q s1 = sess_q s ∖ {[(ss_inactive_at x, ss_id x)]} /\ sess_acc s1 = sess_acc s /\
                sess_node s1 = sess_node s /\ sess_sub s1 = sess_sub s /\ sess_alloc s1 = sess_alloc s) by (repeat split; keeps_solve).
    destruct F as (F1 & F2 & F3 & F4 & F5 & F6).
    split; simpl; intros; rewrite ?F1, ?F2, ?F3, ?F4, ?F5, ?F6; ix_sets; rewrite ?A, ?B, ?C, ?D, ?E;
      (ix_case (ss_id x) id; [rewrite ?Hx|]); naive_solver.
Qed.

