(* C08, converse for the purchases: a well-formed request that meets every admission rule and can be paid
   for IS accepted.  "Can be paid for" = the buyer's balance covers the quoted price x quantity; the
   arithmetic side conditions are the ones under which the checked 256-/315-bit operations of
   cosmossdk.io/math succeed (amounts below the supply bound 2^250 of DESIGN section 5.1). *)
From Hub Require Import Base.Prelude Base.Arith Model.Types Model.Keeper Model.Handlers Model.Hooks Model.Step.
From Hub Require Import Proofs.Tactics Proofs.Frames Proofs.Money Proofs.KeysInv Proofs.ArithThm Proofs.Quota Proofs.Pricing Proofs.InvDefs
  Proofs.Ledger1 Proofs.Admission Proofs.RangeDefs Proofs.Total.

Lemma bank_send_ok s f t d amt : 0 <= amt <= bal s f d -> exists s', bank_send s f t d amt = Ok s'.
Proof. apply bank_send_total. Qed.

Lemma dep_add_ok s a d amt : 0 < amt <= bal s a d -> exists s', dep_add s a d amt = Ok s'.
Proof.
  intros H. unfold dep_add. destruct (bank_send_ok s a (c_deposit (cfg s)) d amt ltac:(lia)) as [s1 ->]. simpl. eauto.
Qed.

Lemma z_dep_add_ok s a d amt : 0 <= amt <= bal s a d -> exists s', z_dep_add s a (d, amt) = Ok s'.
Proof.
  intros H. unfold z_dep_add. simpl. destruct (Z.eqb_spec amt 0); [eauto|]. apply dep_add_ok. lia.
Qed.

Lemma afb_gigabytes p g : 0 <= p -> 0 <= g -> p * g < BIG -> amount_for_bytes p (GB * g) = Ok (p * g).
Proof.
  intros Hp Hg Hlim. pose proof GB_pos. destruct BIG_facts as (B0 & B1 & B2 & B3 & B4 & B5 & B6).
  rewrite afb_total; [| lia | nia | nia]. f_equal. unfold afb.
  replace (p * (GB * g)) with (GB * (p * g)) by lia. apply cdiv_exact. exact H.
Qed.

(* a per-gigabyte purchase *)
Theorem node_subscribe_gb_complete s from nd g dn n price :
  get_node s (ta_bytes nd) = Some n -> nd_status n = SActive ->
  0 < g -> valid_sub_gb s g = true -> nd_gb_prices n !! dn = Some price ->
  0 <= price -> price * g <= bal s (ta_bytes from) dn -> price * g < BIG -> GB * g < MAXINT ->
  exists s', h_node_subscribe s from nd g 0 dn = Ok s'.
Proof.
  intros Hn Hact Hg Hvg Hp Hp0 Hbal Hbig Hgb. pose proof GB_pos.
  unfold h_node_subscribe. rewrite Hvg, orb_true_r. simpl.
  unfold create_sub_for_node. rewrite Hn. rewrite (bool_decide_eq_true_2 _ Hact). simpl.
  destruct (Z.eqb_spec g 0) as [E|_]; [lia|]. simpl. rewrite Hp.
  rewrite (int_mul_total GB g) by (try nia; lia). simpl.
  rewrite (afb_gigabytes price g) by lia. simpl.
  rewrite (new_coin_total dn (price * g)) by nia. simpl.
  destruct (z_dep_add_ok s (ta_bytes from) dn (price * g) ltac:(nia)) as [s1 ->]. simpl. eauto.
Qed.

(* a per-hour purchase *)
Theorem node_subscribe_hr_complete s from nd h dn n price :
  get_node s (ta_bytes nd) = Some n -> nd_status n = SActive ->
  0 < h -> valid_sub_hr s h = true -> nd_hr_prices n !! dn = Some price ->
  0 <= price -> price * h <= bal s (ta_bytes from) dn -> price * h < MAXINT ->
  exists s', h_node_subscribe s from nd 0 h dn = Ok s'.
Proof.
  intros Hn Hact Hh Hvh Hp Hp0 Hbal Hbig.
  unfold h_node_subscribe. simpl. rewrite Hvh, orb_true_r. simpl.
  unfold create_sub_for_node. rewrite Hn. rewrite (bool_decide_eq_true_2 _ Hact). simpl.
  destruct (Z.eqb_spec h 0) as [E|_]; [lia|]. simpl. rewrite Hp.
  rewrite (int_mul_total price h) by (try nia; lia). simpl.
  rewrite (new_coin_total dn (price * h)) by nia. simpl.
  destruct (z_dep_add_ok s (ta_bytes from) dn (price * h) ltac:(nia)) as [s1 ->]. simpl.
  unfold int_quo. destruct (Z.eqb_spec h 0) as [E|_]; [lia|]. simpl.
  rewrite new_coin_total by (apply quot_nonneg; nia). simpl. eauto.
Qed.

(* a plan purchase *)
Theorem plan_subscribe_complete s from pid dn p price :
  get_plan s pid = Some p -> pl_status p = SActive -> pl_prices p !! dn = Some price ->
  0 <= p_prov_share (pars s) <= P18 -> 0 <= price < BIG -> price <= bal s (ta_bytes from) dn ->
  ta_bytes from <> c_feecoll (cfg s) -> 0 <= pl_gb p -> GB * pl_gb p < MAXINT ->
  exists s', h_plan_subscribe s from pid dn = Ok s'.
Proof.
  intros Hp Hact Hpr Hshare Hprice Hbal Hnf Hgb0 Hgb. pose proof GB_pos.
  destruct BIG_facts as (B0 & B1 & B2 & _).
  unfold h_plan_subscribe, create_sub_for_plan. rewrite Hp. rewrite (bool_decide_eq_true_2 _ Hact). simpl. rewrite Hpr.
  destruct (proportion_total price (p_prov_share (pars s)) Hprice Hshare) as (r & -> & Hr). simpl.
  (* fee to the fee collector *)
  assert (Hs1 : exists s1, z_send s (ta_bytes from) (c_feecoll (cfg s)) (dn, r) = Ok s1 /\
                           bal s1 (ta_bytes from) dn = bal s (ta_bytes from) dn - r).
  { unfold z_send. simpl. destruct (Z.eqb_spec r 0) as [->|Hr0]; [exists s; split; [reflexivity|lia]|].
    destruct (bank_send_ok s (ta_bytes from) (c_feecoll (cfg s)) dn r ltac:(lia)) as [s1 Hs1]. exists s1. split; [exact Hs1|].
    destruct (bank_send_bal _ _ _ _ _ _ Hs1) as [_ Hb]. rewrite Hb.
    rewrite (bool_decide_eq_true_2 (ta_bytes from = ta_bytes from /\ dn = dn)) by auto.
    rewrite (bool_decide_eq_false_2 (c_feecoll (cfg s) = ta_bytes from /\ dn = dn)) by (intros [? _]; congruence).
    unfold delta. lia. }
  destruct Hs1 as (s1 & -> & Hb1). simpl.
  rewrite (coin_sub_total dn price r) by lia. simpl.
  assert (Hs2 : exists s2, z_send s1 (ta_bytes from) (pl_prov p) (dn, price - r) = Ok s2).
  { unfold z_send. simpl. destruct (Z.eqb_spec (price - r) 0); [eauto|]. apply bank_send_ok. lia. }
  destruct Hs2 as (s2 & ->). simpl.
  rewrite (int_mul_total GB (pl_gb p)) by (try nia; lia). simpl. eauto.
Qed.

(* registrations: an account that is not registered yet and can pay the registration deposit IS registered *)
Lemma fund_pool_ok s a c : 0 <= c.2 <= bal s a c.1 -> exists s', fund_pool s a c = Ok s'.
Proof.
  intros H. unfold fund_pool. destruct (Z.eqb_spec c.2 0); [eauto|]. apply bank_send_ok. exact H.
Qed.

Theorem prov_register_complete s from n i w d :
  get_provider s (ta_bytes from) = None ->
  0 <= (p_prov_deposit (pars s)).2 <= bal s (ta_bytes from) (p_prov_deposit (pars s)).1 ->
  exists s', h_prov_register s from n i w d = Ok s'.
Proof.
  intros Hnone Hbal. unfold h_prov_register, has_provider. rewrite Hnone. simpl.
  destruct (fund_pool_ok s (ta_bytes from) _ Hbal) as [s1 ->]. simpl. eauto.
Qed.

Theorem node_register_complete s from gb hr url :
  valid_gb_prices s (coins_of gb) = true -> valid_hr_prices s (coins_of hr) = true ->
  get_node s (ta_bytes from) = None ->
  0 <= (p_node_deposit (pars s)).2 <= bal s (ta_bytes from) (p_node_deposit (pars s)).1 ->
  exists s', h_node_register s from gb hr url = Ok s'.
Proof.
  intros Hg Hh Hnone Hbal. unfold h_node_register, has_node. rewrite Hg, Hh, Hnone. simpl.
  destruct (fund_pool_ok s (ta_bytes from) _ Hbal) as [s1 ->]. simpl. eauto.
Qed.
