(* Ordered iteration: facts about [sort_by] (std++ merge sort under a comparison
   function) and the queue scans [due_z]/[due_a] of Model/Keeper.v. *)
From Hub Require Import Base.Prelude Base.Arith Model.Types Model.Keeper.

(* a comparison function that behaves like one: [Gt] flips, [cmp_le] is transitive *)
Class GoodCmp {A} (c : A -> A -> comparison) := {
  gc_total : forall x y, c x y = Gt -> c y x <> Gt;
  gc_trans : forall x y z, c x y <> Gt -> c y z <> Gt -> c x z <> Gt }.

#[export] Instance cmp_le_total {A} (c : A -> A -> comparison) `{!GoodCmp c} : Total (cmp_le c).
Proof.
  intros x y. unfold cmp_le. destruct (c x y) eqn:E; [left; congruence|left; congruence|right; apply gc_total; exact E].
Qed.
#[export] Instance cmp_le_trans {A} (c : A -> A -> comparison) `{!GoodCmp c} : Transitive (cmp_le c).
Proof. intros x y z. unfold cmp_le. apply gc_trans. Qed.

Lemma sort_by_perm {A} (c : A -> A -> comparison) (l : list A) : sort_by c l ≡ₚ l.
Proof. apply merge_sort_Permutation. Qed.

Lemma sort_by_sorted {A} (c : A -> A -> comparison) `{!GoodCmp c} (l : list A) :
  StronglySorted (cmp_le c) (sort_by c l).
Proof. apply StronglySorted_merge_sort; apply _. Qed.

Lemma elem_of_sort_by {A} (c : A -> A -> comparison) (l : list A) x : x ∈ sort_by c l <-> x ∈ l.
Proof. rewrite (sort_by_perm c l). reflexivity. Qed.

Lemma NoDup_sort_by {A} (c : A -> A -> comparison) (l : list A) : NoDup l -> NoDup (sort_by c l).
Proof. intros H. rewrite (sort_by_perm c l). exact H. Qed.

(* comparison of a Z-valued projection *)
#[export] Instance good_cmp_proj {A} (f : A -> Z) : GoodCmp (fun x y => Z.compare (f x) (f y)).
Proof.
  split.
  - intros x y H H2. cbv beta in *. rewrite Z.compare_gt_iff in H, H2. lia.
  - intros x y z H1 H2 H3. cbv beta in *. rewrite Z.compare_gt_iff in H3. rewrite Z.compare_le_iff in H1, H2. lia.
Qed.

(** * queue scans *)

Lemma elem_of_due_z q t e : e ∈ due_z q t <-> e ∈ q /\ e.1 <= t.
Proof. unfold due_z. rewrite elem_of_list_filter, elem_of_sort_by, elem_of_elements. tauto. Qed.

Lemma NoDup_due_z q t : NoDup (due_z q t).
Proof. unfold due_z. apply NoDup_filter, NoDup_sort_by, NoDup_elements. Qed.

Lemma elem_of_due_a q t e : e ∈ due_a q t <-> e ∈ q /\ e.1 <= t.
Proof. unfold due_a. rewrite elem_of_list_filter, elem_of_sort_by, elem_of_elements. tauto. Qed.

Lemma NoDup_due_a q t : NoDup (due_a q t).
Proof. unfold due_a. apply NoDup_filter, NoDup_sort_by, NoDup_elements. Qed.
