(* Bank and escrow: the escrow module account always equals the sum of the
   deposit records (C01), nothing but MsgSwap changes the supply (C01, C14). *)
From Hub Require Import Base.Prelude Base.Arith Model.Types Model.Keeper Model.Handlers Model.Hooks Model.Step.
From Hub Require Import Proofs.Tactics.

(** * coins algebra *)

Lemma amount_of_empty d : amount_of ∅ d = 0.
Proof. unfold amount_of. rewrite lookup_empty. reflexivity. Qed.

Lemma amount_of_coins_set c d v d' :
  amount_of (coins_set c d v) d' = if bool_decide (d = d') then v else amount_of c d'.
Proof.
  unfold coins_set, amount_of. case_bool_decide as Hd.
  - subst d'. destruct (v =? 0) eqn:E.
    + rewrite lookup_delete. simpl. lia.
    + rewrite lookup_insert. reflexivity.
  - destruct (v =? 0) eqn:E.
    + rewrite lookup_delete_ne by exact Hd. reflexivity.
    + rewrite lookup_insert_ne by exact Hd. reflexivity.
Qed.

Lemma amount_of_coins_add c d v d' :
  amount_of (coins_add c d v) d' = amount_of c d' + (if bool_decide (d = d') then v else 0).
Proof.
  unfold coins_add. rewrite amount_of_coins_set. case_bool_decide; subst; lia.
Qed.

(** * balances *)

Lemma bal_set_bal s a d v a' d' :
  bal (set_bal s a d v) a' d' = if bool_decide (a = a' /\ d = d') then v else bal s a' d'.
Proof.
  unfold bal, set_bal. simpl.
  destruct (decide (a = a')) as [->|Ha].
  - rewrite lookup_insert. simpl. rewrite amount_of_coins_set.
    repeat case_bool_decide; try reflexivity; intuition congruence.
  - rewrite lookup_insert_ne by exact Ha.
    case_bool_decide; [intuition congruence|reflexivity].
Qed.

Definition delta (b : bool) (v : Z) : Z := if b then v else 0.
Ltac solve_delta := unfold delta; repeat case_bool_decide; first [lia | naive_solver lia].

Lemma bank_send_bal s f t d a s' :
  bank_send s f t d a = Ok s' ->
  0 <= a /\
  forall x d', bal s' x d' = bal s x d' + delta (bool_decide (t = x /\ d = d')) a - delta (bool_decide (f = x /\ d = d')) a.
Proof.
  unfold bank_send. intros H.
  destruct (a <? 0) eqn:E1; [discriminate|].
  destruct (a =? 0) eqn:E2.
  { injection H as <-. split; [lia|]. intros. unfold delta. repeat case_bool_decide; lia. }
  destruct (bal s f d <? a) eqn:E3; [discriminate|]. injection H as <-.
  split; [lia|]. intros x d'. rewrite !bal_set_bal. solve_delta.
Qed.

(* everything except the bank is untouched *)
Lemma bank_send_frame s f t d a s' :
  bank_send s f t d a = Ok s' -> s' = s <| bank := bank s' |>.
Proof.
  unfold bank_send. intros H. repeat case_match; try discriminate; injection H as <-; destruct s; reflexivity.
Qed.

(* conservation inside the bank: the balances of a denomination add up to its supply *)
Definition bank_total (s : state) (d : denom) : Z := msum (fun c => amount_of c d) (bank s).
Definition conserved (s : state) : Prop := forall d, bank_total s d = amount_of (supply s) d.

Lemma bank_total_set_bal s a d v d' :
  bank_total (set_bal s a d v) d' = bank_total s d' + (if bool_decide (d = d') then v - bal s a d else 0).
Proof.
  unfold bank_total, set_bal, bal. simpl. rewrite msum_insert, amount_of_coins_set.
  destruct (bank s !! a) as [w|] eqn:E; simpl; case_bool_decide; subst; rewrite ?amount_of_empty; lia.
Qed.

Lemma bank_send_total s f t d a s' d' : bank_send s f t d a = Ok s' -> bank_total s' d' = bank_total s d'.
Proof.
  unfold bank_send. intros H. repeat case_match; try discriminate; injection H as <-; [reflexivity|].
  rewrite !bank_total_set_bal, bal_set_bal. repeat case_bool_decide; try lia; naive_solver lia.
Qed.

Lemma bank_send_to_account_inv s f t d a s' :
  bank_send_to_account s f t d a = Ok s' -> is_blocked s t = false /\ bank_send s f t d a = Ok s'.
Proof. unfold bank_send_to_account. destruct (is_blocked s t); [discriminate|auto]. Qed.

(** * the escrow invariant *)

Definition dep_total (s : state) (d : denom) : Z := msum (fun c => amount_of c d) (deposits s).
Definition escrow_ok (s : state) : Prop := forall d, bal s (c_deposit (cfg s)) d = dep_total s d.

Record wf_cfg (c : config) : Prop := {
  wf_dep_blocked : c_deposit c ∈ c_blocked c;
  wf_fee_ne : c_feecoll c <> c_deposit c;
  wf_distr_ne : c_distr c <> c_deposit c;
  wf_swap_ne : c_swap c <> c_deposit c }.

Lemma dep_total_frame s s' d : deposits s' = deposits s -> dep_total s' d = dep_total s d.
Proof. unfold dep_total. intros ->. reflexivity. Qed.

(* a transfer that does not involve the escrow account keeps the invariant *)
Lemma escrow_ok_bank_send s f t d a s' :
  escrow_ok s -> f <> c_deposit (cfg s) -> t <> c_deposit (cfg s) ->
  bank_send s f t d a = Ok s' -> escrow_ok s'.
Proof.
  intros Hok Hf Ht H. pose proof (bank_send_frame _ _ _ _ _ _ H) as Hfr.
  destruct (bank_send_bal _ _ _ _ _ _ H) as [_ Hb].
  intros d'. rewrite Hfr at 2 3. simpl.
  replace (dep_total (s <| bank := bank s' |>) d') with (dep_total s d') by reflexivity.
  rewrite <- Hok. rewrite Hb. solve_delta.
Qed.

Lemma cfg_bank_send s f t d a s' : bank_send s f t d a = Ok s' -> cfg s' = cfg s.
Proof. intros H. rewrite (bank_send_frame _ _ _ _ _ _ H). reflexivity. Qed.

Lemma dep_total_insert s a c d :
  msum (fun c => amount_of c d) (<[a := c]> (deposits s)) =
  dep_total s d - amount_of (dep_of s a) d + amount_of c d.
Proof.
  unfold dep_total, dep_of. rewrite msum_insert. destruct (deposits s !! a); simpl; [reflexivity|].
  rewrite amount_of_empty. reflexivity.
Qed.

Lemma dep_total_delete s a d :
  msum (fun c => amount_of c d) (delete a (deposits s)) = dep_total s d - amount_of (dep_of s a) d.
Proof.
  unfold dep_total, dep_of. rewrite msum_delete'. destruct (deposits s !! a); simpl; [reflexivity|].
  rewrite amount_of_empty. lia.
Qed.

Lemma dep_add_escrow s a d v s' :
  escrow_ok s -> a <> c_deposit (cfg s) -> dep_add s a d v = Ok s' -> escrow_ok s' /\ cfg s' = cfg s.
Proof.
  intros Hok Ha H. unfold dep_add in H. res_inv.
  pose proof (bank_send_frame _ _ _ _ _ _ Hx) as Hfr.
  destruct (bank_send_bal _ _ _ _ _ _ Hx) as [Hv Hb].
  assert (Hcfg : cfg x = cfg s) by (rewrite Hfr; reflexivity).
  assert (Hdeps : deposits x = deposits s) by (rewrite Hfr; reflexivity).
  split; [|simpl; exact Hcfg].
  intros d'.
  change (bal x (c_deposit (cfg x)) d' = msum (fun c => amount_of c d') (<[a:=coins_add (dep_of x a) d v]> (deposits x))).
  rewrite dep_total_insert, amount_of_coins_add, Hcfg, Hb.
  rewrite (dep_total_frame s x d' Hdeps). unfold dep_of. rewrite Hdeps. fold (dep_of s a).
  rewrite (Hok d'). solve_delta.
Qed.

Lemma dep_remaining_spec s from d amt dep :
  dep_remaining s from d amt = Ok dep ->
  exists old, deposits s !! from = Some old /\ 0 <= amount_of old d - amt /\ dep = coins_set old d (amount_of old d - amt).
Proof.
  unfold dep_remaining. destruct (deposits s !! from) as [old|]; [|discriminate].
  destruct (amount_of old d - amt <? 0) eqn:E; [discriminate|]. intros [= <-].
  exists old. split; [reflexivity|]. split; [lia|reflexivity].
Qed.

Lemma dep_store_total s from dep d' :
  dep_total (dep_store s from dep) d' = dep_total s d' - amount_of (dep_of s from) d' + amount_of dep d'.
Proof.
  unfold dep_store. case_bool_decide as He.
  - subst dep. unfold dep_total at 1. simpl. rewrite dep_total_delete. rewrite amount_of_empty. lia.
  - unfold dep_total at 1. simpl. apply dep_total_insert.
Qed.

Lemma dep_store_frame s from dep : cfg (dep_store s from dep) = cfg s /\ bank (dep_store s from dep) = bank s.
Proof. unfold dep_store. case_bool_decide; split; reflexivity. Qed.

(* money leaving the escrow towards [t] with the record of [from] reduced accordingly *)
Lemma dep_out_escrow s s1 from t d amt dep :
  escrow_ok s -> t <> c_deposit (cfg s) ->
  dep_remaining s from d amt = Ok dep ->
  bank_send s (c_deposit (cfg s)) t d amt = Ok s1 ->
  escrow_ok (dep_store s1 from dep).
Proof.
  intros Hok Ht Hrem Hsend.
  destruct (dep_remaining_spec _ _ _ _ _ Hrem) as (old & Hold & Hge & ->).
  pose proof (bank_send_frame _ _ _ _ _ _ Hsend) as Hfr.
  destruct (bank_send_bal _ _ _ _ _ _ Hsend) as [Hv Hb].
  assert (Hcfg : cfg s1 = cfg s) by (rewrite Hfr; reflexivity).
  assert (Hdeps : deposits s1 = deposits s) by (rewrite Hfr; reflexivity).
  intros d'. rewrite dep_store_total.
  destruct (dep_store_frame s1 from (coins_set old d (amount_of old d - amt))) as [Hc Hbk].
  unfold bal. rewrite Hc, Hbk. fold (bal s1 (c_deposit (cfg s1)) d'). rewrite Hcfg, Hb.
  rewrite (dep_total_frame s s1 d' Hdeps). unfold dep_of. rewrite Hdeps, Hold. simpl.
  rewrite amount_of_coins_set. rewrite (Hok d'). solve_delta.
Qed.

Lemma emit_escrow e s : escrow_ok s -> escrow_ok (emit e s).
Proof. intros H d. exact (H d). Qed.

Lemma dep_to_account_escrow s from t d amt s' :
  escrow_ok s -> wf_cfg (cfg s) -> dep_to_account s from t d amt = Ok s' -> escrow_ok s' /\ cfg s' = cfg s.
Proof.
  intros Hok Hwf H. unfold dep_to_account in H. res_inv.
  apply bank_send_to_account_inv in Hx0 as [Hbl Hsend].
  assert (t <> c_deposit (cfg s)).
  { intros ->. unfold is_blocked in Hbl. apply bool_decide_eq_false in Hbl. apply Hbl, Hwf. }
  split.
  - apply emit_escrow. eapply dep_out_escrow; eauto.
  - simpl. rewrite (proj1 (dep_store_frame _ _ _)). eapply cfg_bank_send; eauto.
Qed.

Lemma dep_to_module_escrow s from m d amt s' :
  escrow_ok s -> m <> c_deposit (cfg s) -> dep_to_module s from m d amt = Ok s' -> escrow_ok s' /\ cfg s' = cfg s.
Proof.
  intros Hok Hm H. unfold dep_to_module in H. res_inv. split.
  - apply emit_escrow. eapply dep_out_escrow; eauto.
  - simpl. rewrite (proj1 (dep_store_frame _ _ _)). eapply cfg_bank_send; eauto.
Qed.

(** * preservation of the money invariant by every operation *)

From Hub Require Import Proofs.Frames.

Definition msg_from (m : msg) : taddr :=
  match m with
  | MProvRegister f _ _ _ _ _ | MProvUpdate f _ _ _ _ _ _ | MNodeRegister f _ _ _ _ | MNodeUpdateDetails f _ _ _ _
  | MNodeUpdateStatus f _ | MNodeSubscribe f _ _ _ _ | MPlanCreate f _ _ _ | MPlanUpdateStatus f _ _
  | MPlanLink f _ _ | MPlanUnlink f _ _ | MPlanSubscribe f _ _ | MSubCancel f _ | MSubAllocate f _ _ _
  | MSessStart f _ _ | MSessUpdate f _ _ _ _ _ _ | MSessEnd f _ _ | MSwap f _ _ _ => f
  end.

(* module accounts never originate transactions (DESIGN section 5.5) *)
Definition wf_op (s : state) (o : op) : Prop :=
  match o with
  | OTx m => ta_bytes (msg_from m) ∉ c_blocked (cfg s)
  | _ => True
  end.

Definition plans_ok (s : state) : Prop :=
  map_Forall (fun _ p => pl_prov p ∉ c_blocked (cfg s)) (plan_act s) /\
  map_Forall (fun _ p => pl_prov p ∉ c_blocked (cfg s)) (plan_inact s).

Lemma plans_ok_get s id p : plans_ok s -> get_plan s id = Some p -> pl_prov p ∉ c_blocked (cfg s).
Proof.
  intros [Ha Hi]. unfold get_plan. destruct (plan_act s !! id) eqn:E.
  - intros [= <-]. exact (Ha _ _ E).
  - intros E2. exact (Hi _ _ E2).
Qed.

Record money_inv (s : state) : Prop := {
  mi_cfg : wf_cfg (cfg s);
  mi_escrow : escrow_ok s;
  mi_plans : plans_ok s;
  mi_total : conserved s }.

Lemma escrow_ok_keeps T s s' :
  keeps T s s' -> touched GBank T = false -> touched GDep T = false -> escrow_ok s -> escrow_ok s'.
Proof.
  intros (Hc & Hb & Hd & _) Tb Td Hok. rewrite Tb in Hb. rewrite Td in Hd. simpl in *.
  intros d. unfold bal, dep_total. rewrite Hc, Hb, Hd. apply Hok.
Qed.

Lemma plans_keeps T s s' :
  keeps T s s' -> touched GPl T = false -> plans_ok s -> plans_ok s'.
Proof.
  intros (Hc & _ & _ & _ & _ & Hp & _) Tp H. rewrite Tp in Hp. simpl in Hp.
  destruct Hp as (Ha & Hi & _). unfold plans_ok. rewrite Hc, Ha, Hi. exact H.
Qed.

Lemma conserved_keeps T s s' :
  keeps T s s' -> touched GBank T = false -> touched GSupply T = false -> conserved s -> conserved s'.
Proof.
  intros (Hc & Hb & _ & Hs & _) Tb Ts Hok. rewrite Tb in Hb. rewrite Ts in Hs. simpl in *.
  intros d. unfold bank_total. rewrite Hb, Hs. apply Hok.
Qed.

Lemma money_inv_keeps T s s' :
  keeps T s s' -> touched GBank T = false -> touched GDep T = false -> touched GPl T = false ->
  touched GSupply T = false -> money_inv s -> money_inv s'.
Proof.
  intros Hk Tb Td Tp Ts [Hc He Hp Ht]. pose proof Hk as (Hcfg & _).
  split.
  - rewrite Hcfg. exact Hc.
  - eapply escrow_ok_keeps; eauto.
  - eapply plans_keeps; [exact Hk|exact Tp|exact Hp].
  - eapply conserved_keeps; eauto.
Qed.

Lemma not_blocked_ne_deposit c a : wf_cfg c -> a ∉ c_blocked c -> a <> c_deposit c.
Proof. intros Hwf Ha ->. apply Ha, Hwf. Qed.

(* a bank transfer between two accounts that are not the escrow *)
Lemma money_inv_bank_send s f t d a s' :
  money_inv s -> f <> c_deposit (cfg s) -> t <> c_deposit (cfg s) -> bank_send s f t d a = Ok s' -> money_inv s'.
Proof.
  intros [Hc He Hp Ht0] Hf Ht H. pose proof (bank_send_keeps _ _ _ _ _ _ H) as Hk. pose proof Hk as (Hcfg & _).
  split.
  - rewrite Hcfg. exact Hc.
  - exact (escrow_ok_bank_send _ _ _ _ _ _ He Hf Ht H).
  - eapply plans_keeps; [exact Hk|reflexivity|exact Hp].
  - intros d'. rewrite (bank_send_total _ _ _ _ _ _ d' H).
    assert (Hs : supply s' = supply s) by keeps_solve. rewrite Hs. apply Ht0.
Qed.

Lemma money_inv_fund_pool s f c s' :
  money_inv s -> f <> c_deposit (cfg s) -> fund_pool s f c = Ok s' -> money_inv s'.
Proof.
  intros Hi Hf. unfold fund_pool. case_match; [intros [= <-]; exact Hi|].
  apply money_inv_bank_send; auto. apply Hi.
Qed.

Lemma money_inv_z_send s f t c s' :
  money_inv s -> f <> c_deposit (cfg s) -> t <> c_deposit (cfg s) -> z_send s f t c = Ok s' -> money_inv s'.
Proof.
  intros Hi Hf Ht. unfold z_send. case_match; [intros [= <-]; exact Hi|]. apply money_inv_bank_send; auto.
Qed.

Lemma money_inv_intro s s' :
  money_inv s -> cfg s' = cfg s -> escrow_ok s' ->
  plan_act s' = plan_act s -> plan_inact s' = plan_inact s -> conserved s' -> money_inv s'.
Proof.
  intros [Hc He Hp Ht] Hcfg He' Ha Hi Ht'. split; [rewrite Hcfg; exact Hc|exact He'| |exact Ht'].
  unfold plans_ok. rewrite Hcfg, Ha, Hi. exact Hp.
Qed.

Lemma dep_store_bank_total s a c d : bank_total (dep_store s a c) d = bank_total s d.
Proof. unfold bank_total. rewrite (proj2 (dep_store_frame s a c)). reflexivity. Qed.

Lemma conserved_dep_add s a d v s' : conserved s -> dep_add s a d v = Ok s' -> conserved s'.
Proof.
  intros Ht H. unfold dep_add in H. res_inv.
  intros d'. change (bank_total x d' = amount_of (supply x) d').
  rewrite (bank_send_total _ _ _ _ _ _ d' Hx).
  apply bank_send_keeps in Hx. assert (Hs : supply x = supply s) by keeps_solve. rewrite Hs. apply Ht.
Qed.

Lemma conserved_dep_to_account s f t d v s' : conserved s -> dep_to_account s f t d v = Ok s' -> conserved s'.
Proof.
  intros Ht H. unfold dep_to_account in H. res_inv.
  apply bank_send_to_account_inv in Hx0 as [_ Hsend].
  intros d'. change (bank_total (dep_store x0 f x) d' = amount_of (supply (dep_store x0 f x)) d').
  rewrite dep_store_bank_total, (bank_send_total _ _ _ _ _ _ d' Hsend).
  apply bank_send_keeps in Hsend. pose proof (dep_store_keeps x0 f x).
  assert (Hs : supply (dep_store x0 f x) = supply s) by keeps_solve. rewrite Hs. apply Ht.
Qed.

Lemma conserved_dep_to_module s f t d v s' : conserved s -> dep_to_module s f t d v = Ok s' -> conserved s'.
Proof.
  intros Ht H. unfold dep_to_module in H. res_inv.
  intros d'. change (bank_total (dep_store x0 f x) d' = amount_of (supply (dep_store x0 f x)) d').
  rewrite dep_store_bank_total, (bank_send_total _ _ _ _ _ _ d' Hx0).
  apply bank_send_keeps in Hx0. pose proof (dep_store_keeps x0 f x).
  assert (Hs : supply (dep_store x0 f x) = supply s) by keeps_solve. rewrite Hs. apply Ht.
Qed.

Lemma money_inv_dep_add s a d v s' :
  money_inv s -> a <> c_deposit (cfg s) -> dep_add s a d v = Ok s' -> money_inv s'.
Proof.
  intros Hi Ha H. pose proof (dep_add_keeps _ _ _ _ _ H) as Hk.
  destruct (dep_add_escrow _ _ _ _ _ (mi_escrow _ Hi) Ha H) as [He Hc].
  eapply money_inv_intro; eauto; try solve [keeps_solve]. eapply conserved_dep_add; [apply Hi|eauto].
Qed.

Lemma money_inv_dep_to_account s f t d v s' :
  money_inv s -> dep_to_account s f t d v = Ok s' -> money_inv s'.
Proof.
  intros Hi H. pose proof (dep_to_account_keeps _ _ _ _ _ _ H) as Hk.
  destruct (dep_to_account_escrow _ _ _ _ _ _ (mi_escrow _ Hi) (mi_cfg _ Hi) H) as [He Hc].
  eapply money_inv_intro; eauto; try solve [keeps_solve]. eapply conserved_dep_to_account; [apply Hi|eauto].
Qed.

Lemma money_inv_dep_to_module s f m d v s' :
  money_inv s -> m <> c_deposit (cfg s) -> dep_to_module s f m d v = Ok s' -> money_inv s'.
Proof.
  intros Hi Hm H. pose proof (dep_to_module_keeps _ _ _ _ _ _ H) as Hk.
  destruct (dep_to_module_escrow _ _ _ _ _ _ (mi_escrow _ Hi) Hm H) as [He Hc].
  eapply money_inv_intro; eauto; try solve [keeps_solve]. eapply conserved_dep_to_module; [apply Hi|eauto].
Qed.

Lemma money_inv_z_dep_add s a c s' :
  money_inv s -> a <> c_deposit (cfg s) -> z_dep_add s a c = Ok s' -> money_inv s'.
Proof. intros Hi Ha. unfold z_dep_add. case_match; [intros [= <-]; exact Hi|]. apply money_inv_dep_add; auto. Qed.
Lemma money_inv_z_dep_to_account s f t c s' : money_inv s -> z_dep_to_account s f t c = Ok s' -> money_inv s'.
Proof. intros Hi. unfold z_dep_to_account. case_match; [intros [= <-]; exact Hi|]. apply money_inv_dep_to_account; auto. Qed.
Lemma money_inv_z_dep_to_module s f m c s' :
  money_inv s -> m <> c_deposit (cfg s) -> z_dep_to_module s f m c = Ok s' -> money_inv s'.
Proof. intros Hi Hm. unfold z_dep_to_module. case_match; [intros [= <-]; exact Hi|]. apply money_inv_dep_to_module; auto. Qed.

(* record updates that leave bank, deposits and the plans alone *)
Ltac money_frame := eapply money_inv_keeps; [|reflexivity|reflexivity|reflexivity|reflexivity|eassumption].

Definition NONMONEY : list grp := [GPv; GNode; GSub; GSess; GPar; GSwap; GMint; GNow].
(* the goal is [money_inv (updates of sprev)] *)
Ltac money_updates sprev := eapply (money_inv_keeps NONMONEY sprev); [keeps_solve|reflexivity|reflexivity|reflexivity|reflexivity|].

Lemma bank_mint_bal s m d a s' :
  bank_mint s m d a = Ok s' -> forall x d', bal s' x d' = bal s x d' + delta (bool_decide (m = x /\ d = d')) a.
Proof.
  unfold bank_mint. case_match; [discriminate|]. intros [= <-] x d'. rewrite bal_set_bal.
  unfold bal at 1 2. simpl. fold (bal s m d). fold (bal s x d'). solve_delta.
Qed.

Lemma money_inv_bank_mint s m d a s' :
  money_inv s -> m <> c_deposit (cfg s) -> bank_mint s m d a = Ok s' -> money_inv s'.
Proof.
  intros Hi Hm H. pose proof (bank_mint_keeps _ _ _ _ _ H) as Hk. pose proof (bank_mint_bal _ _ _ _ _ H) as Hb.
  assert (Hc : cfg s' = cfg s) by keeps_solve.
  assert (Hd : deposits s' = deposits s) by keeps_solve.
  eapply money_inv_intro; eauto; try solve [keeps_solve].
  - intros d'. rewrite Hc, Hb. rewrite (dep_total_frame s s' d' Hd). rewrite <- (mi_escrow _ Hi d'). solve_delta.
  - unfold bank_mint in H. destruct (a <=? 0) eqn:E; [discriminate|]. injection H as <-.
    intros d'. rewrite bank_total_set_bal. unfold bank_total, bal. simpl.
    fold (bank_total s d'). fold (bal s m d). rewrite amount_of_coins_add, <- (mi_total _ Hi d').
    case_bool_decide; lia.
Qed.

Section handlers.
  Variable s : state.
  Hypothesis Hi : money_inv s.

  Lemma mi_from_ne a : a ∉ c_blocked (cfg s) -> a <> c_deposit (cfg s).
  Proof. apply not_blocked_ne_deposit, Hi. Qed.

  Lemma money_h_prov_register from n i w d s' :
    ta_bytes from ∉ c_blocked (cfg s) -> h_prov_register s from n i w d = Ok s' -> money_inv s'.
  Proof.
    intros Hf H. unfold h_prov_register in H. res_inv.
    apply (money_inv_fund_pool _ _ _ _ Hi (mi_from_ne _ Hf)) in Hx0.
    apply set_provider_keeps in Hx1. money_updates x0. exact Hx0.
  Qed.

  Lemma money_h_node_register from gb hr url s' :
    ta_bytes from ∉ c_blocked (cfg s) -> h_node_register s from gb hr url = Ok s' -> money_inv s'.
  Proof.
    intros Hf H. unfold h_node_register in H. res_inv.
    apply (money_inv_fund_pool _ _ _ _ Hi (mi_from_ne _ Hf)) in Hx2.
    apply set_node_keeps in Hx3. money_updates x2. exact Hx2.
  Qed.

  Lemma money_create_sub_for_node acc nd g h dn s' id :
    acc ∉ c_blocked (cfg s) -> create_sub_for_node s acc nd g h dn = Ok (s', id) -> money_inv s'.
  Proof.
    intros Hf H. unfold create_sub_for_node in H. res_inv;
    match goal with Hz : z_dep_add s acc _ = Ok ?y |- _ =>
      apply (money_inv_z_dep_add _ _ _ _ Hi (mi_from_ne _ Hf)) in Hz; money_updates y; exact Hz end.
  Qed.

  Lemma money_h_plan_create from du g pr s' :
    ta_bytes from ∉ c_blocked (cfg s) -> h_plan_create s from du g pr = Ok s' -> money_inv s'.
  Proof.
    intros Hf H. unfold h_plan_create in H. res_inv. unfold set_plan in Hx0. simpl in Hx0. injection Hx0 as <-.
    destruct Hi as [Hc He [Hpa Hpi] Ht]. split; [exact Hc| | |intros d'; exact (Ht d')].
    - intros d'. exact (He d').
    - split; simpl; [exact Hpa|]. apply map_Forall_insert_2; [exact Hf|exact Hpi].
  Qed.

  Lemma plans_ok_set_plan s1 p s2 :
    cfg s1 = cfg s -> plans_ok s1 -> pl_prov p ∉ c_blocked (cfg s) -> set_plan s1 p = Ok s2 -> plans_ok s2.
  Proof.
    intros Hc [Ha Hb] Hp H. unfold set_plan in H. unfold plans_ok in *. rewrite Hc in *.
    destruct (pl_status p); try discriminate; injection H as <-; simpl; rewrite ?Hc; split; auto;
    apply map_Forall_insert_2; auto.
  Qed.

  Lemma money_h_plan_update_status from id st s' : h_plan_update_status s from id st = Ok s' -> money_inv s'.
  Proof.
    intros H. unfold h_plan_update_status in H. res_inv.
    assert (Hprov : pl_prov p ∉ c_blocked (cfg s)) by (eapply plans_ok_get; [apply Hi|eauto]).
    match type of Hx0 with set_plan ?ss _ = _ => remember ss as s1 eqn:Es1 end.
    assert (H1 : cfg s1 = cfg s /\ bank s1 = bank s /\ deposits s1 = deposits s /\ plans_ok s1 /\ supply s1 = supply s).
    { subst s1. destruct Hi as [_ _ [Ha Hb] _]. unfold plans_ok.
      repeat case_bool_decide; simpl; repeat split; auto; apply map_Forall_delete; auto. }
    clear Es1. destruct H1 as (Hc1 & Hb1 & Hd1 & Hp1 & Hs1).
    pose proof (set_plan_keeps _ _ _ Hx0) as Hk.
    assert (Hc2 : cfg x0 = cfg s) by (destruct Hk as [Hk _]; congruence).
    assert (Hb2 : bank x0 = bank s /\ deposits x0 = deposits s /\ supply x0 = supply s) by (keeps_unfold; simpl in *; intuition congruence).
    destruct Hb2 as (Hb2 & Hd2 & Hs2).
    split.
    - simpl. rewrite Hc2. apply Hi.
    - intros d'. unfold bal, dep_total. simpl. rewrite Hb2, Hd2, Hc2. apply (mi_escrow _ Hi d').
    - change (plans_ok x0). refine (plans_ok_set_plan s1 _ x0 Hc1 Hp1 _ Hx0). exact Hprov.
    - intros d'. unfold bank_total. simpl. rewrite Hb2, Hs2. apply (mi_total _ Hi d').
  Qed.

  Lemma money_h_plan_link from id nd s' : h_plan_link s from id nd = Ok s' -> money_inv s'.
  Proof.
    intros H. unfold h_plan_link in H. res_inv. destruct Hi as [Hc He Hp Ht]. split; [exact Hc|intros d'; exact (He d')|exact Hp|intros d'; exact (Ht d')].
  Qed.
  Lemma money_h_plan_unlink from id nd s' : h_plan_unlink s from id nd = Ok s' -> money_inv s'.
  Proof.
    intros H. unfold h_plan_unlink in H. res_inv. destruct Hi as [Hc He Hp Ht]. split; [exact Hc|intros d'; exact (He d')|exact Hp|intros d'; exact (Ht d')].
  Qed.

  Lemma money_create_sub_for_plan acc pid dn s' id :
    acc ∉ c_blocked (cfg s) -> create_sub_for_plan s acc pid dn = Ok (s', id) -> money_inv s'.
  Proof.
    intros Hf H. unfold create_sub_for_plan in H. res_inv.
    assert (Hprov : pl_prov p ∉ c_blocked (cfg s)) by (eapply plans_ok_get; [apply Hi|eauto]).
    pose proof (z_send_keeps _ _ _ _ _ Hx1) as Hk1.
    assert (Hc1 : cfg x1 = cfg s) by keeps_solve.
    apply (money_inv_z_send _ _ _ _ _ Hi (mi_from_ne _ Hf) (wf_fee_ne _ (mi_cfg _ Hi))) in Hx1.
    apply (money_inv_z_send _ _ _ _ _ Hx1) in Hx3; [| rewrite Hc1; apply mi_from_ne; exact Hf | rewrite Hc1; apply mi_from_ne; exact Hprov].
    money_updates x3. exact Hx3.
  Qed.

  Lemma money_h_swap from h r a s' : h_swap s from h r a = Ok s' -> money_inv s'.
  Proof.
    intros H. unfold h_swap in H. res_inv.
    pose proof (bank_mint_keeps _ _ _ _ _ Hx4) as Hk1.
    assert (Hc1 : cfg x4 = cfg s) by keeps_solve.
    apply (money_inv_bank_mint _ _ _ _ _ Hi (wf_swap_ne _ (mi_cfg _ Hi))) in Hx4.
    apply bank_send_to_account_inv in Hx5 as [Hbl Hsend].
    apply (money_inv_bank_send _ _ _ _ _ _ Hx4) in Hsend.
    - money_updates x5. exact Hsend.
    - rewrite Hc1. apply (wf_swap_ne _ (mi_cfg _ Hi)).
    - rewrite Hc1. intros Heq. unfold is_blocked in Hbl. apply bool_decide_eq_false in Hbl. apply Hbl.
      rewrite Hc1, Heq. apply (mi_cfg _ Hi).
  Qed.

End handlers.

(** * hooks *)

(* [money_inv] of a state that is some already known state plus non-money record updates *)
Ltac money_known :=
  first [ assumption
        | match goal with Hk : money_inv ?sp |- _ => solve [money_updates sp; exact Hk] end ].

(* push the invariant through the next escrow primitive found in the context *)
Ltac money_prim :=
  match goal with
  | H : z_dep_to_module ?s1 _ (c_feecoll (cfg ?s0)) _ = Ok ?s2 |- _ =>
      let Hi1 := fresh "Hmi" in assert (Hi1 : money_inv s1) by money_known;
      apply (money_inv_z_dep_to_module _ _ _ _ _ Hi1) in H; [|simpl; apply (wf_fee_ne _ (mi_cfg _ Hi1))]
  | H : z_dep_to_account ?s1 _ _ _ = Ok ?s2 |- _ =>
      let Hi1 := fresh "Hmi" in assert (Hi1 : money_inv s1) by money_known;
      apply (money_inv_z_dep_to_account _ _ _ _ _ Hi1) in H
  | H : dep_to_account ?s1 _ _ _ _ = Ok ?s2 |- _ =>
      let Hi1 := fresh "Hmi" in assert (Hi1 : money_inv s1) by money_known;
      apply (money_inv_dep_to_account _ _ _ _ _ _ Hi1) in H
  end.

Lemma money_payout_step s e s' : money_inv s -> payout_step s e = Ok s' -> money_inv s'.
Proof.
  intros Hi H. unfold payout_step in H. res_inv. repeat money_prim. goal_cases; money_known.
Qed.

Lemma money_session_inactive_hook s sid acc nd b s' :
  money_inv s -> session_inactive_hook s sid acc nd b = Ok s' -> money_inv s'.
Proof.
  intros Hi H. unfold session_inactive_hook in H. res_inv; repeat money_prim; try exact Hi; goal_cases; money_known.
Qed.

Lemma money_session_expire_one s e s' : money_inv s -> session_expire_one s e = Ok s' -> money_inv s'.
Proof.
  intros Hi H. unfold session_expire_one in H. res_inv; [money_known|].
  match goal with H : session_inactive_hook ?s1 _ _ _ _ = Ok _ |- _ =>
    assert (Hi1 : money_inv s1) by money_known; apply (money_session_inactive_hook _ _ _ _ _ _ Hi1) in H end.
  money_known.
Qed.

Lemma money_sub_pending_hook s id s' : money_inv s -> sub_pending_hook s id = Ok s' -> money_inv s'.
Proof. intros Hi H. apply sub_pending_hook_keeps in H. eapply money_inv_keeps; eauto. Qed.

Lemma money_sub_refund s sb s' : money_inv s -> sub_refund s sb = Ok s' -> money_inv s'.
Proof.
  intros Hi H. unfold sub_refund in H. res_inv; repeat money_prim; try exact Hi; goal_cases; money_known.
Qed.

Lemma money_sub_expire_one s e s' : money_inv s -> sub_expire_one s e = Ok s' -> money_inv s'.
Proof.
  intros Hi H. unfold sub_expire_one in H. res_inv.
  - match goal with H : sub_pending_hook ?s1 _ = Ok _ |- _ =>
      assert (Hi1 : money_inv s1) by money_known; apply (money_sub_pending_hook _ _ _ Hi1) in H end.
    match goal with H : detach_payout ?s1 _ _ = Ok _ |- _ =>
      assert (Hi2 : money_inv s1) by (pose proof (sub_make_pending_keeps x s0); eapply money_inv_keeps; eauto);
      apply detach_payout_keeps in H; [|discriminate]; eapply money_inv_keeps; eauto end.
  - match goal with H : sub_refund ?s1 _ = Ok _ |- _ =>
      assert (Hi1 : money_inv s1) by money_known; apply (money_sub_refund _ _ _ Hi1) in H end.
    match goal with H : sub_delete_payout ?s1 _ = Ok _ |- _ =>
      apply sub_delete_payout_keeps in H; eapply money_inv_keeps; [exact H|reflexivity|reflexivity|reflexivity|reflexivity|] end.
    pose proof (sub_cleanup_keeps x s0) as Hc. money_updates (sub_cleanup x s0).
    eapply money_inv_keeps; eauto.
Qed.

Lemma money_begin_block s s' : money_inv s -> begin_block s = Ok s' -> money_inv s'.
Proof.
  intros Hi H. unfold begin_block in H. res_inv.
  apply mint_begin_block_keeps in Hx. assert (Hi1 : money_inv x) by (eapply money_inv_keeps; eauto).
  unfold sub_begin_block in H. eapply (rfold_inv money_inv); [|exact Hi1|exact H].
  intros; eapply money_payout_step; eauto.
Qed.

Lemma money_end_block s s' : money_inv s -> end_block s = Ok s' -> money_inv s'.
Proof.
  intros Hi H. unfold end_block in H. res_inv.
  apply node_end_block_keeps in Hx. assert (Hi1 : money_inv x) by (eapply money_inv_keeps; eauto).
  assert (Hi2 : money_inv x0).
  { unfold session_end_block in Hx0. eapply (rfold_inv money_inv); [|exact Hi1|exact Hx0].
    intros; eapply money_session_expire_one; eauto. }
  unfold sub_end_block in H. eapply (rfold_inv money_inv); [|exact Hi2|exact H].
  intros; eapply money_sub_expire_one; eauto.
Qed.

Lemma money_handle s m s' :
  money_inv s -> ta_bytes (msg_from m) ∉ c_blocked (cfg s) -> handle s m = Ok s' -> money_inv s'.
Proof.
  intros Hi Hf H. destruct m; simpl in *.
  - eapply money_h_prov_register; eauto.
  - apply h_prov_update_keeps in H. eapply money_inv_keeps; eauto.
  - eapply money_h_node_register; eauto.
  - apply h_node_update_details_keeps in H. eapply money_inv_keeps; eauto.
  - apply h_node_update_status_keeps in H. eapply money_inv_keeps; eauto.
  - unfold h_node_subscribe in H. res_inv.
    match goal with H : create_sub_for_node _ _ _ _ _ _ = Ok _ |- _ => eapply money_create_sub_for_node in H; eauto end.
    money_known.
  - eapply money_h_plan_create; eauto.
  - eapply money_h_plan_update_status; eauto.
  - eapply money_h_plan_link; eauto.
  - eapply money_h_plan_unlink; eauto.
  - unfold h_plan_subscribe in H. res_inv.
    match goal with H : create_sub_for_plan _ _ _ _ = Ok _ |- _ => eapply money_create_sub_for_plan in H; eauto end.
    money_known.
  - apply h_sub_cancel_keeps in H. eapply money_inv_keeps; eauto.
  - apply h_sub_allocate_keeps in H. eapply money_inv_keeps; eauto.
  - apply h_sess_start_keeps in H. eapply money_inv_keeps; eauto.
  - apply h_sess_update_keeps in H. eapply money_inv_keeps; eauto.
  - apply h_sess_end_keeps in H. eapply money_inv_keeps; eauto.
  - eapply money_h_swap; eauto.
Qed.

(* the invariant is inductive *)
Theorem money_inv_step s o s' : money_inv s -> wf_op s o -> step s o = OOk s' -> money_inv s'.
Proof.
  intros Hi Hwf. unfold step. destruct o.
  - destruct (begin_block _) eqn:H; try discriminate. intros [= <-].
    eapply money_begin_block; [|exact H]. money_updates s. exact Hi.
  - unfold run_tx. destruct (validate_basic m); [|discriminate].
    destruct (handle _ m) eqn:H; try discriminate. intros [= <-].
    eapply money_handle; [| |exact H]; [money_updates s; exact Hi|exact Hwf].
  - destruct (forallb pchange_valid _); [|discriminate]. intros [= <-]. apply (fold_left_inv money_inv).
    + intros x c Hx. pose proof (apply_pchange_keeps x c). eapply money_inv_keeps; eauto.
    + money_updates s. exact Hi.
  - destruct (end_block _) as [se| |] eqn:H; try discriminate. intros [= <-].
    eapply money_end_block in H; [|money_updates s; exact Hi]. money_updates se. exact H.
Qed.

Lemma money_inv_clear s : money_inv s -> money_inv (clear_events s).
Proof. intros Hi. unfold clear_events. money_updates s. exact Hi. Qed.

(* every reachable state of every well-formed history satisfies it *)
Fixpoint wf_ops (s : state) (ops : list op) : Prop :=
  match ops with
  | [] => True
  | o :: ops' => wf_op s o /\ wf_ops s ops'
  end.

Theorem money_inv_run ops : forall s i s',
  money_inv s -> wf_ops s ops -> run_from s ops i = RunOk s' -> money_inv s'.
Proof.
  induction ops as [|o ops IH]; simpl; intros s i s' Hi Hwf H.
  - injection H as <-. exact Hi.
  - destruct Hwf as [Hw1 Hw2]. destruct (step s o) eqn:E; try discriminate.
    + pose proof (step_cfg _ _ _ E) as Hc. eapply IH; [eapply money_inv_step; eauto| |exact H].
      clear -Hw2 Hc. induction ops; simpl in *; auto. destruct Hw2. split; auto.
      destruct a; simpl in *; auto. rewrite Hc. auto.
    + eapply IH; [apply money_inv_clear; exact Hi| |exact H].
      clear -Hw2. induction ops; simpl in *; auto. destruct Hw2. split; auto.
Qed.

(** * the genesis state of DESIGN section 5.2 (empty marketplace) satisfies the invariant *)

Definition wf_genesis (g : genesis) : Prop :=
  wf_cfg (g_cfg g) /\ (forall a c, (a, c) ∈ g_balances g -> a <> c_deposit (g_cfg g)).

Lemma money_inv_init g : wf_genesis g -> money_inv (init g).
Proof.
  intros [Hwf Hb]. unfold init.
  set (f := fun s '(a, (d, v)) => set_bal (s <| supply ::= fun c => coins_add c d v |>) a d (bal s a d + v)).
  set (s0 := empty_state (g_cfg g) (g_params g)).
  assert (Hfold : money_inv (fold_left f (g_balances g) s0) /\ cfg (fold_left f (g_balances g) s0) = g_cfg g /\
                  deposits (fold_left f (g_balances g) s0) = ∅).
  { assert (H0 : money_inv s0 /\ cfg s0 = g_cfg g /\ deposits s0 = ∅).
    { split; [|split; reflexivity]. split; simpl; auto.
      - intros d. unfold bal, dep_total. simpl. rewrite lookup_empty. simpl. rewrite amount_of_empty, msum_empty. reflexivity.
      - split; apply map_Forall_empty.
      - intros d. unfold bank_total. simpl. rewrite msum_empty, amount_of_empty. reflexivity. }
    revert H0. generalize s0. clear s0.
    assert (Hin : forall x, x ∈ g_balances g -> x.1 <> c_deposit (g_cfg g)) by (intros [a c] Hx; eapply Hb; eauto).
    revert Hin. generalize (g_balances g). intros l. induction l as [|[a [d v]] l IH]; intros Hin s0 H0; [exact H0|].
    simpl. apply IH; [intros x Hx; apply Hin; right; exact Hx|].
    destruct H0 as ([Hc He Hp Ht] & Hcfg & Hdep).
    assert (Ha : a <> c_deposit (g_cfg g)) by (apply (Hin (a, (d, v))); left).
    split; [|split; [exact Hcfg|exact Hdep]].
    split; simpl.
    - exact Hc.
    - intros d'. rewrite bal_set_bal. simpl. rewrite Hcfg.
      case_bool_decide as E; [destruct E; congruence|].
      unfold bal. simpl. rewrite <- Hcfg. exact (He d').
    - exact Hp.
    - intros d'. rewrite bank_total_set_bal. simpl. rewrite amount_of_coins_add.
      unfold bank_total, bal. simpl. fold (bank_total s0 d'). fold (bal s0 a d). rewrite (Ht d').
      case_bool_decide; lia. }
  destruct Hfold as (Hi & Hc & Hd). destruct (g_mint g) as [[[mx mn] rc] inf].
  money_updates (fold_left f (g_balances g) s0). exact Hi.
Qed.

(* a parameter set used by non-vacuity examples *)
Definition g_params_dummy : params :=
  {| p_prov_deposit := (1%N, 10); p_prov_share := 0; p_node_deposit := (1%N, 10); p_node_active := HOUR;
     p_max_gb := ∅; p_min_gb := ∅; p_max_hr := ∅; p_min_hr := ∅;
     p_max_sub_gb := 10; p_min_sub_gb := 1; p_max_sub_hr := 10; p_min_sub_hr := 1; p_node_share := 0;
     p_sub_delay := 120; p_sess_delay := 120; p_sess_proof := false;
     p_swap_enabled := true; p_swap_denom := 1%N; p_swap_approver := canon RAcc [9%N] |}.
