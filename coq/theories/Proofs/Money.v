(* Bank and escrow: the escrow module account always equals the sum of the
   deposit records (C01), nothing but MsgSwap changes the supply (C01, C14). *)
From Hub Require Import Base.Prelude Base.Arith Model.Types Model.Keeper Model.Handlers Model.Hooks Model.Step.
From Hub Require Import Proofs.Tactics.

(** * coins algebra *)

Lemma amount_of_empty d : amount_of ∅ d = 0.
Proof. unfold amount_of. rewrite lookup_empty. reflexivity. Qed.

Lemma amount_of_coins_set c d v d' :
  amount_of (coins_set c d v) d' = if bool_decide (d = d') then v else amount_of c d'.
Proof.
  unfold coins_set, amount_of. case_bool_decide as Hd.
  - subst d'. destruct (v =? 0) eqn:E.
    + rewrite lookup_delete. simpl. lia.
    + rewrite lookup_insert. reflexivity.
  - destruct (v =? 0) eqn:E.
    + rewrite lookup_delete_ne by exact Hd. reflexivity.
    + rewrite lookup_insert_ne by exact Hd. reflexivity.
Qed.

Lemma amount_of_coins_add c d v d' :
  amount_of (coins_add c d v) d' = amount_of c d' + (if bool_decide (d = d') then v else 0).
Proof.
  unfold coins_add. rewrite amount_of_coins_set. case_bool_decide; subst; lia.
Qed.

(** * balances *)

Lemma bal_set_bal s a d v a' d' :
  bal (set_bal s a d v) a' d' = if bool_decide (a = a' /\ d = d') then v else bal s a' d'.
Proof.
  unfold bal, set_bal. simpl.
  destruct (decide (a = a')) as [->|Ha].
  - rewrite lookup_insert. simpl. rewrite amount_of_coins_set.
    repeat case_bool_decide; try reflexivity; intuition congruence.
  - rewrite lookup_insert_ne by exact Ha.
    case_bool_decide; [intuition congruence|reflexivity].
Qed.

Definition delta (b : bool) (v : Z) : Z := if b then v else 0.
Ltac solve_delta := unfold delta; repeat case_bool_decide; first [lia | naive_solver lia].

Lemma bank_send_bal s f t d a s' :
  bank_send s f t d a = Ok s' ->
  0 <= a /\
  forall x d', bal s' x d' = bal s x d' + delta (bool_decide (t = x /\ d = d')) a - delta (bool_decide (f = x /\ d = d')) a.
Proof.
  unfold bank_send. intros H.
  destruct (a <? 0) eqn:E1; [discriminate|].
  destruct (a =? 0) eqn:E2.
  { injection H as <-. split; [lia|]. intros. unfold delta. repeat case_bool_decide; lia. }
  destruct (bal s f d <? a) eqn:E3; [discriminate|]. injection H as <-.
  split; [lia|]. intros x d'. rewrite !bal_set_bal. solve_delta.
Qed.

(* everything except the bank is untouched *)
Lemma bank_send_frame s f t d a s' :
  bank_send s f t d a = Ok s' -> s' = s <| bank := bank s' |>.
Proof.
  unfold bank_send. intros H. repeat case_match; try discriminate; injection H as <-; destruct s; reflexivity.
Qed.

Lemma bank_send_to_account_inv s f t d a s' :
  bank_send_to_account s f t d a = Ok s' -> is_blocked s t = false /\ bank_send s f t d a = Ok s'.
Proof. unfold bank_send_to_account. destruct (is_blocked s t); [discriminate|auto]. Qed.

(** * the escrow invariant *)

Definition dep_total (s : state) (d : denom) : Z := msum (fun c => amount_of c d) (deposits s).
Definition escrow_ok (s : state) : Prop := forall d, bal s (c_deposit (cfg s)) d = dep_total s d.

Record wf_cfg (c : config) : Prop := {
  wf_dep_blocked : c_deposit c ∈ c_blocked c;
  wf_fee_ne : c_feecoll c <> c_deposit c;
  wf_distr_ne : c_distr c <> c_deposit c;
  wf_swap_ne : c_swap c <> c_deposit c }.

Lemma dep_total_frame s s' d : deposits s' = deposits s -> dep_total s' d = dep_total s d.
Proof. unfold dep_total. intros ->. reflexivity. Qed.

(* a transfer that does not involve the escrow account keeps the invariant *)
Lemma escrow_ok_bank_send s f t d a s' :
  escrow_ok s -> f <> c_deposit (cfg s) -> t <> c_deposit (cfg s) ->
  bank_send s f t d a = Ok s' -> escrow_ok s'.
Proof.
  intros Hok Hf Ht H. pose proof (bank_send_frame _ _ _ _ _ _ H) as Hfr.
  destruct (bank_send_bal _ _ _ _ _ _ H) as [_ Hb].
  intros d'. rewrite Hfr at 2 3. simpl.
  replace (dep_total (s <| bank := bank s' |>) d') with (dep_total s d') by reflexivity.
  rewrite <- Hok. rewrite Hb. solve_delta.
Qed.

Lemma cfg_bank_send s f t d a s' : bank_send s f t d a = Ok s' -> cfg s' = cfg s.
Proof. intros H. rewrite (bank_send_frame _ _ _ _ _ _ H). reflexivity. Qed.

Lemma dep_total_insert s a c d :
  msum (fun c => amount_of c d) (<[a := c]> (deposits s)) =
  dep_total s d - amount_of (dep_of s a) d + amount_of c d.
Proof.
  unfold dep_total, dep_of. rewrite msum_insert. destruct (deposits s !! a); simpl; [reflexivity|].
  rewrite amount_of_empty. reflexivity.
Qed.

Lemma dep_total_delete s a d :
  msum (fun c => amount_of c d) (delete a (deposits s)) = dep_total s d - amount_of (dep_of s a) d.
Proof.
  unfold dep_total, dep_of. rewrite msum_delete'. destruct (deposits s !! a); simpl; [reflexivity|].
  rewrite amount_of_empty. lia.
Qed.

Lemma dep_add_escrow s a d v s' :
  escrow_ok s -> a <> c_deposit (cfg s) -> dep_add s a d v = Ok s' -> escrow_ok s' /\ cfg s' = cfg s.
Proof.
  intros Hok Ha H. unfold dep_add in H. res_inv.
  pose proof (bank_send_frame _ _ _ _ _ _ Hx) as Hfr.
  destruct (bank_send_bal _ _ _ _ _ _ Hx) as [Hv Hb].
  assert (Hcfg : cfg x = cfg s) by (rewrite Hfr; reflexivity).
  assert (Hdeps : deposits x = deposits s) by (rewrite Hfr; reflexivity).
  split; [|simpl; exact Hcfg].
  intros d'.
  change (bal x (c_deposit (cfg x)) d' = msum (fun c => amount_of c d') (<[a:=coins_add (dep_of x a) d v]> (deposits x))).
  rewrite dep_total_insert, amount_of_coins_add, Hcfg, Hb.
  rewrite (dep_total_frame s x d' Hdeps). unfold dep_of. rewrite Hdeps. fold (dep_of s a).
  rewrite (Hok d'). solve_delta.
Qed.

Lemma dep_remaining_spec s from d amt dep :
  dep_remaining s from d amt = Ok dep ->
  exists old, deposits s !! from = Some old /\ 0 <= amount_of old d - amt /\ dep = coins_set old d (amount_of old d - amt).
Proof.
  unfold dep_remaining. destruct (deposits s !! from) as [old|]; [|discriminate].
  destruct (amount_of old d - amt <? 0) eqn:E; [discriminate|]. intros [= <-].
  exists old. split; [reflexivity|]. split; [lia|reflexivity].
Qed.

Lemma dep_store_total s from dep d' :
  dep_total (dep_store s from dep) d' = dep_total s d' - amount_of (dep_of s from) d' + amount_of dep d'.
Proof.
  unfold dep_store. case_bool_decide as He.
  - subst dep. unfold dep_total at 1. simpl. rewrite dep_total_delete. rewrite amount_of_empty. lia.
  - unfold dep_total at 1. simpl. apply dep_total_insert.
Qed.

Lemma dep_store_frame s from dep : cfg (dep_store s from dep) = cfg s /\ bank (dep_store s from dep) = bank s.
Proof. unfold dep_store. case_bool_decide; split; reflexivity. Qed.

(* money leaving the escrow towards [t] with the record of [from] reduced accordingly *)
Lemma dep_out_escrow s s1 from t d amt dep :
  escrow_ok s -> t <> c_deposit (cfg s) ->
  dep_remaining s from d amt = Ok dep ->
  bank_send s (c_deposit (cfg s)) t d amt = Ok s1 ->
  escrow_ok (dep_store s1 from dep).
Proof.
  intros Hok Ht Hrem Hsend.
  destruct (dep_remaining_spec _ _ _ _ _ Hrem) as (old & Hold & Hge & ->).
  pose proof (bank_send_frame _ _ _ _ _ _ Hsend) as Hfr.
  destruct (bank_send_bal _ _ _ _ _ _ Hsend) as [Hv Hb].
  assert (Hcfg : cfg s1 = cfg s) by (rewrite Hfr; reflexivity).
  assert (Hdeps : deposits s1 = deposits s) by (rewrite Hfr; reflexivity).
  intros d'. rewrite dep_store_total.
  destruct (dep_store_frame s1 from (coins_set old d (amount_of old d - amt))) as [Hc Hbk].
  unfold bal. rewrite Hc, Hbk. fold (bal s1 (c_deposit (cfg s1)) d'). rewrite Hcfg, Hb.
  rewrite (dep_total_frame s s1 d' Hdeps). unfold dep_of. rewrite Hdeps, Hold. simpl.
  rewrite amount_of_coins_set. rewrite (Hok d'). solve_delta.
Qed.

Lemma emit_escrow e s : escrow_ok s -> escrow_ok (emit e s).
Proof. intros H d. exact (H d). Qed.

Lemma dep_to_account_escrow s from t d amt s' :
  escrow_ok s -> wf_cfg (cfg s) -> dep_to_account s from t d amt = Ok s' -> escrow_ok s' /\ cfg s' = cfg s.
Proof.
  intros Hok Hwf H. unfold dep_to_account in H. res_inv.
  apply bank_send_to_account_inv in Hx0 as [Hbl Hsend].
  assert (t <> c_deposit (cfg s)).
  { intros ->. unfold is_blocked in Hbl. apply bool_decide_eq_false in Hbl. apply Hbl, Hwf. }
  split.
  - apply emit_escrow. eapply dep_out_escrow; eauto.
  - simpl. rewrite (proj1 (dep_store_frame _ _ _)). eapply cfg_bank_send; eauto.
Qed.

Lemma dep_to_module_escrow s from m d amt s' :
  escrow_ok s -> m <> c_deposit (cfg s) -> dep_to_module s from m d amt = Ok s' -> escrow_ok s' /\ cfg s' = cfg s.
Proof.
  intros Hok Hm H. unfold dep_to_module in H. res_inv. split.
  - apply emit_escrow. eapply dep_out_escrow; eauto.
  - simpl. rewrite (proj1 (dep_store_frame _ _ _)). eapply cfg_bank_send; eauto.
Qed.
