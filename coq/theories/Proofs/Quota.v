(* C06: bandwidth quota is conserved.  0 <= used <= granted for every allocation,
   used never decreases and grows only at the settlement of a session of that very
   holder, by at most the bytes the session reported; the granted bytes of the
   allocations of a subscription always add up to what was bought. *)
From Hub Require Import Base.Prelude Base.Arith Model.Types Model.Keeper Model.Handlers Model.Hooks Model.Step.
From Hub Require Import Proofs.Tactics Proofs.Frames Proofs.KeysInv Proofs.Lifecycle Proofs.Auth.

Definition alloc_ok (al : allocation) : Prop := 0 <= al_used al <= al_granted al.

Record quota_inv (s : state) : Prop := {
  q_alloc : map_Forall (fun _ al => alloc_ok al) (allocs s);
  q_plans : forall id p, get_plan s id = Some p -> 0 <= pl_gb p;
  q_sess : map_Forall (fun _ x => 0 <= ss_up x /\ 0 <= ss_down x) (sessions s) }.

(** * sum of the granted bytes of one subscription *)

Definition granted_of (id : Z) (al : allocation) : Z := if bool_decide (al_id al = id) then al_granted al else 0.
Definition gsum (s : state) (id : Z) : Z := msum (granted_of id) (allocs s).

Lemma msum_zero {K} `{Countable K} {V} (f : V -> Z) (m : gmap K V) :
  map_Forall (fun _ v => f v = 0) m -> msum f m = 0.
Proof.
  unfold msum. induction m as [|k v m Hk IH] using map_ind; intros Hall; [apply map_fold_empty|].
  rewrite (map_fold_insert_L (fun _ v acc => acc + f v)); [| intros; lia | exact Hk].
  apply map_Forall_insert in Hall as [Hv Hall]; [|exact Hk]. rewrite IH by exact Hall. lia.
Qed.

Lemma gsum_fresh s id : kinv_sub s -> sub_count s < id -> gsum s id = 0.
Proof.
  intros Hk Hlt. apply msum_zero. intros k al Hal. unfold granted_of.
  destruct (k_al _ Hk _ _ Hal) as (E1 & _ & E3). case_bool_decide; [lia|reflexivity].
Qed.

Lemma gsum_insert s k al id :
  msum (granted_of id) (<[k := al]> (allocs s)) =
  gsum s id - (match allocs s !! k with Some w => granted_of id w | None => 0 end) + granted_of id al.
Proof. apply msum_insert. Qed.

Lemma gsum_delete s k id :
  msum (granted_of id) (delete k (allocs s)) =
  gsum s id - (match allocs s !! k with Some w => granted_of id w | None => 0 end).
Proof. apply msum_delete'. Qed.

(** * the plan gigabytes and the reported bandwidth stay non-negative *)

Lemma get_plan_set_plan s p s' id q :
  set_plan s p = Ok s' -> get_plan s' id = Some q -> q = p \/ get_plan s id = Some q \/
  (exists q0, (plan_act s !! id = Some q0 \/ plan_inact s !! id = Some q0) /\ q = q0).
Proof.
  unfold set_plan, get_plan. destruct (pl_status p); try discriminate; intros [= <-]; simpl.
  - destruct (decide (pl_id p = id)) as [->|Hne]; [rewrite lookup_insert; intros [= <-]; auto|].
    rewrite lookup_insert_ne by exact Hne. auto.
  - destruct (plan_act s !! id) eqn:E; [intros [= <-]; right; left; reflexivity|].
    destruct (decide (pl_id p = id)) as [->|Hne]; [rewrite lookup_insert; intros [= <-]; auto|].
    rewrite lookup_insert_ne by exact Hne. auto.
Qed.

(** * allocations: per function *)

Lemma quota_alloc_frame s s' : allocs s' = allocs s -> map_Forall (fun _ al => alloc_ok al) (allocs s) -> map_Forall (fun _ al => alloc_ok al) (allocs s').
Proof. intros ->. auto. Qed.

Lemma alloc_ok_create_node s acc nd g h dn s' id :
  0 <= g -> map_Forall (fun _ al => alloc_ok al) (allocs s) ->
  create_sub_for_node s acc nd g h dn = Ok (s', id) -> map_Forall (fun _ al => alloc_ok al) (allocs s').
Proof.
  intros Hg Hall H. unfold create_sub_for_node in H. res_inv; pose_keeps; simpl; to_base s; auto.
  all: apply map_Forall_insert_2; auto; unfold alloc_ok; simpl;
       repeat match goal with Hm : int_mul GB _ = Ok ?x |- _ => unfold int_mul, chk in Hm; destruct (fits _); [|discriminate]; injection Hm as <- end;
       unfold GB; lia.
Qed.

Lemma alloc_ok_create_plan s acc pid dn s' id :
  (forall p, get_plan s pid = Some p -> 0 <= pl_gb p) -> map_Forall (fun _ al => alloc_ok al) (allocs s) ->
  create_sub_for_plan s acc pid dn = Ok (s', id) -> map_Forall (fun _ al => alloc_ok al) (allocs s').
Proof.
  intros Hp Hall H. unfold create_sub_for_plan in H. destruct (get_plan s pid) as [p|] eqn:Hg; [|discriminate].
  specialize (Hp p eq_refl).
  res_inv; pose_keeps; simpl; to_base s.
  apply map_Forall_insert_2; auto; unfold alloc_ok; simpl.
  match goal with Hm : int_mul GB _ = Ok ?x |- _ => unfold int_mul, chk in Hm; destruct (fits _); [|discriminate]; injection Hm as <- end.
  unfold GB; lia.
Qed.

Lemma int_add_ok a b c : int_add a b = Ok c -> c = a + b.
Proof. unfold int_add, chk. destruct (fits _); [intros [= <-]; reflexivity|discriminate]. Qed.
Lemma int_sub_ok a b c : int_sub a b = Ok c -> c = a - b.
Proof. unfold int_sub, chk. destruct (fits _); [intros [= <-]; reflexivity|discriminate]. Qed.
Lemma int_mul_ok a b c : int_mul a b = Ok c -> c = a * b.
Proof. unfold int_mul, chk. destruct (fits _); [intros [= <-]; reflexivity|discriminate]. Qed.

(* what MsgAllocate does to the two allocations *)
Lemma h_sub_allocate_spec s from id to b s' :
  h_sub_allocate s from id to b = Ok s' ->
  exists sb fal,
    subs s !! id = Some sb /\ allocs s !! (id, ta_bytes from) = Some fal /\ ta_bytes from <> ta_bytes to /\
    let tg := match allocs s !! (id, ta_bytes to) with Some t => al_granted t | None => 0 end in
    let tu := match allocs s !! (id, ta_bytes to) with Some t => al_used t | None => 0 end in
    let tal := match allocs s !! (id, ta_bytes to) with Some t => t | None => {| al_id := id; al_addr := ta_bytes to; al_granted := 0; al_used := 0 |} end in
    al_used fal <= al_granted fal + tg - b /\ tu <= b /\
    allocs s' = <[(id, ta_bytes to) := tal <| al_granted := b |>]>
                  (<[(id, ta_bytes from) := fal <| al_granted := al_granted fal + tg - b |>]> (allocs s)).
Proof.
  intros H. unfold h_sub_allocate in H. destruct (subs s !! id) as [sb|] eqn:Hsb; [|discriminate].
  apply rbind_ok in H as (u1 & _ & H). apply rbind_ok in H as (u2 & _ & H).
  destruct (allocs s !! (id, ta_bytes from)) as [fal|] eqn:Hf; [|discriminate].
  apply rbind_ok in H as (u3 & Hne & H). apply ensure_ok, negb_true_iff, bool_decide_eq_false in Hne.
  exists sb, fal. split; [reflexivity|]. split; [reflexivity|]. split; [exact Hne|].
  destruct (allocs s !! (id, ta_bytes to)) as [tal|] eqn:Ht; cbv zeta.
  - res_inv. repeat match goal with Hx : int_add _ _ = Ok _ |- _ => apply int_add_ok in Hx | Hx : int_sub _ _ = Ok _ |- _ => apply int_sub_ok in Hx end.
    subst. repeat match goal with Hx : negb (_ <? _) = true |- _ => apply negb_true_iff, Z.ltb_ge in Hx end.
    split; [lia|]. split; [lia|]. reflexivity.
  - res_inv. repeat match goal with Hx : int_add _ _ = Ok _ |- _ => apply int_add_ok in Hx | Hx : int_sub _ _ = Ok _ |- _ => apply int_sub_ok in Hx end.
    subst. simpl in *. repeat match goal with Hx : negb (_ <? _) = true |- _ => apply negb_true_iff, Z.ltb_ge in Hx end.
    split; [lia|]. split; [lia|]. rewrite Z.add_0_r. reflexivity.
Qed.

Lemma alloc_ok_allocate s from id to b s' :
  map_Forall (fun _ al => alloc_ok al) (allocs s) -> h_sub_allocate s from id to b = Ok s' ->
  map_Forall (fun _ al => alloc_ok al) (allocs s').
Proof.
  intros Hall H. destruct (h_sub_allocate_spec _ _ _ _ _ _ H) as (sb & fal & Hsb & Hf & Hne & H1 & H2 & Ea).
  rewrite Ea. pose proof (Hall _ _ Hf) as [F1 F2].
  apply map_Forall_insert_2; [|apply map_Forall_insert_2; [|exact Hall]].
  - destruct (allocs s !! (id, ta_bytes to)) as [tal|] eqn:Ht; unfold alloc_ok; simpl; [pose proof (Hall _ _ Ht) as [G1 G2]|]; lia.
  - unfold alloc_ok. simpl. lia.
Qed.

(* what the settlement hook does to the allocations: only the allocation of the session's own
   (subscription, holder), used grows by at most the reported bytes, granted is untouched *)
Lemma session_inactive_hook_allocs s sid acc nd b s' :
  kinv_sub s -> session_inactive_hook s sid acc nd b = Ok s' ->
  allocs s' = allocs s \/
  exists x al u', sessions s !! sid = Some x /\ allocs s !! (ss_sub x, acc) = Some al /\
    allocs s' = <[(ss_sub x, acc) := al <| al_used := u' |>]> (allocs s) /\
    (u' = al_granted al \/ u' = al_used al + b) /\ (al_used al <= al_granted al -> 0 <= b -> al_used al <= u' <= al_granted al /\ u' <= al_used al + b).
Proof.
  intros Hk H. unfold session_inactive_hook in H.
  destruct (sessions s !! sid) as [x|] eqn:Hx; [|discriminate]. apply rbind_ok in H as (u & _ & H).
  destruct (subs s !! ss_sub x) as [sb|] eqn:Hsb; [|discriminate].
  destruct (k_sub _ Hk _ _ Hsb) as (Eid & _).
  match type of H with (if ?c then _ else _) = _ => destruct c end; [injection H as <-; left; reflexivity|].
  destruct (allocs s !! (sb_id sb, acc)) as [al|] eqn:Hal; [|discriminate].
  destruct (k_al _ Hk _ _ Hal) as (F1 & F2 & F3). simpl in F1, F2.
  right. exists x, al.
  apply rbind_ok in H as ([price previous] & _ & H).
  apply rbind_ok in H as (remaining & Hrem & H). apply int_sub_ok in Hrem.
  apply rbind_ok in H as (used' & Hu & H).
  exists used'. split; [reflexivity|]. rewrite <- Eid. split; [exact Hal|].
  assert (Hu' : (used' = al_granted al \/ used' = al_used al + b) /\
                (al_used al <= al_granted al -> 0 <= b -> al_used al <= used' <= al_granted al /\ used' <= al_used al + b)).
  { destruct (remaining <? b) eqn:E; [injection Hu as <-; split; [auto|intros; lia]|].
    apply int_add_ok in Hu. subst. apply Z.ltb_ge in E. split; [auto|intros; lia]. }
  split; [|exact Hu'].
  rewrite F1, F2 in H.
  destruct (match sb_kind sb with KNode _ g _ dep => if g =? 0 then None else Some (g, dep) | KPlan _ _ => None end).
  - destruct p as [g0 dep0].
    repeat (let v := fresh "v" in let Hv := fresh "Hv" in apply rbind_ok in H as (v & Hv & H)).
    injection H as <-. pose_keeps. simpl.
    match goal with Hk2 : keeps _ ?a ?b2, Hk1 : keeps _ (emit _ _) ?a |- allocs ?b2 = _ =>
      transitivity (allocs a); [keeps_solve|]; etransitivity; [|reflexivity]; keeps_solve end.
  - injection H as <-. reflexivity.
Qed.

(** * the invariant is preserved by every operation *)

Lemma payout_step_allocs s e s' : payout_step s e = Ok s' -> allocs s' = allocs s /\ sessions s' = sessions s /\ plan_act s' = plan_act s /\ plan_inact s' = plan_inact s.
Proof.
  intros H. unfold payout_step in H. destruct (payouts s !! e.2) as [po|]; [|discriminate].
  res_inv; pose_keeps; goal_cases; simpl; repeat split; keeps_solve.
Qed.

Lemma quota_inv_frame s s' :
  allocs s' = allocs s -> sessions s' = sessions s -> plan_act s' = plan_act s -> plan_inact s' = plan_inact s ->
  quota_inv s -> quota_inv s'.
Proof. intros E1 E2 E3 E4 [A B C]. split; unfold get_plan in *; rewrite ?E1, ?E2, ?E3, ?E4; assumption. Qed.

Lemma quota_inv_keeps T s s' :
  keeps T s s' -> touched GSub T = false -> touched GSess T = false -> touched GPl T = false -> quota_inv s -> quota_inv s'.
Proof.
  intros (_ & _ & _ & _ & _ & Kp & _ & Ks & Kss & _) T1 T2 T3. rewrite T1 in Ks. rewrite T2 in Kss. rewrite T3 in Kp. simpl in *.
  apply quota_inv_frame; tauto.
Qed.

Lemma q_sess_make_pending s x :
  sessions s !! ss_id x = Some x ->
  map_Forall (fun _ x => 0 <= ss_up x /\ 0 <= ss_down x) (sessions s) ->
  map_Forall (fun _ x => 0 <= ss_up x /\ 0 <= ss_down x) (sessions (session_make_pending s x)).
Proof. intros Hx Hall. unfold session_make_pending. simpl. apply map_Forall_insert_2; [exact (Hall _ _ Hx)|exact Hall]. Qed.

Lemma q_sess_pending_hook s id s' :
  kinv_sess s -> map_Forall (fun _ x => 0 <= ss_up x /\ 0 <= ss_down x) (sessions s) -> sub_pending_hook s id = Ok s' ->
  map_Forall (fun _ x => 0 <= ss_up x /\ 0 <= ss_down x) (sessions s').
Proof.
  intros Hk Hall H. unfold sub_pending_hook in H.
  assert (G : kinv_sess s' /\ map_Forall (fun _ x => 0 <= ss_up x /\ 0 <= ss_down x) (sessions s')).
  { eapply (rfold_inv (fun y => kinv_sess y /\ map_Forall (fun _ x => 0 <= ss_up x /\ 0 <= ss_down x) (sessions y))); [|split; eassumption|exact H].
    intros a sid b [Ha Hq] Hstep. cbv beta in Hstep. destruct (sessions a !! sid) as [x|] eqn:Hx; [|discriminate].
    destruct (k_ss _ Ha _ _ Hx) as (E1 & _).
    case_bool_decide; injection Hstep as <-; [|auto]. split.
    - apply kinv_session_make_pending; [exact Ha|rewrite E1; exact Hx].
    - apply q_sess_make_pending; [rewrite E1; exact Hx|exact Hq]. }
  apply G.
Qed.

Lemma quota_handle s m s' : kinv s -> quota_inv s -> validate_basic m = true -> handle s m = Ok s' -> quota_inv s'.
Proof.
  intros Hi Hq Hv H. destruct m; simpl in H, Hv.
  all: try (eapply quota_inv_keeps; [handler_keeps H; exact H|reflexivity|reflexivity|reflexivity|exact Hq]).
  - (* node_subscribe *)
    destruct Hq as [A B C]. pose proof (h_node_subscribe_keeps _ _ _ _ _ _ _ H) as Hk.
    split; [|unfold get_plan in *; replace (plan_act s') with (plan_act s) by (symmetry; keeps_solve); replace (plan_inact s') with (plan_inact s) by (symmetry; keeps_solve); exact B
            |replace (sessions s') with (sessions s) by (symmetry; keeps_solve); exact C].
    unfold h_node_subscribe in H. res_inv.
    repeat rewrite andb_true_iff in Hv. destruct Hv as [[[_ Hg] _] _]. apply Z.leb_le in Hg.
    match goal with Hc : create_sub_for_node _ _ _ _ _ _ = Ok _ |- _ => apply (alloc_ok_create_node _ _ _ _ _ _ _ _ Hg A) in Hc; exact Hc end.
  - (* plan_create *)
    destruct Hq as [A B C]. pose proof (h_plan_create_keeps _ _ _ _ _ _ H) as Hk.
    split; [replace (allocs s') with (allocs s) by (symmetry; keeps_solve); exact A| |replace (sessions s') with (sessions s) by (symmetry; keeps_solve); exact C].
    repeat rewrite andb_true_iff in Hv. destruct Hv as [[_ Hg] _]. apply Z.ltb_lt in Hg.
    unfold h_plan_create in H. res_inv.
    match goal with Hs : set_plan _ _ = Ok _ |- _ => unfold set_plan in Hs; simpl in Hs; injection Hs as <- end.
    intros id p Hp. unfold get_plan in Hp. simpl in Hp.
    destruct (plan_act s !! id) eqn:E1; [injection Hp as <-; apply (B id); unfold get_plan; rewrite E1; reflexivity|].
    apply lookup_insert_Some in Hp as [[_ <-]|[_ Hp]]; [simpl; lia|]. apply (B id). unfold get_plan. rewrite E1. exact Hp.
  - (* plan_update_status *)
    destruct Hq as [A B C]. pose proof (h_plan_update_status_keeps _ _ _ _ _ H) as Hk.
    split; [replace (allocs s') with (allocs s) by (symmetry; keeps_solve); exact A| |replace (sessions s') with (sessions s) by (symmetry; keeps_solve); exact C].
    destruct (evo_h_plan_update_status _ _ _ _ _ (ki_plan _ Hi) H) as (_ & Hback & _).
    intros id0 p' Hp'. destruct (Hback _ _ Hp') as (p & Hp & S). destruct S as (_ & _ & _ & Eg & _). rewrite Eg. eapply B; eauto.
  - (* plan_link *) unfold h_plan_link in H. res_inv. eapply quota_inv_frame; [..|exact Hq]; reflexivity.
  - (* plan_unlink *) unfold h_plan_unlink in H. res_inv. eapply quota_inv_frame; [..|exact Hq]; reflexivity.
  - (* plan_subscribe *)
    destruct Hq as [A B C]. pose proof (h_plan_subscribe_keeps _ _ _ _ _ H) as Hk.
    split; [|unfold get_plan in *; replace (plan_act s') with (plan_act s) by (symmetry; keeps_solve); replace (plan_inact s') with (plan_inact s) by (symmetry; keeps_solve); exact B
            |replace (sessions s') with (sessions s) by (symmetry; keeps_solve); exact C].
    unfold h_plan_subscribe in H. res_inv.
    match goal with Hc : create_sub_for_plan _ _ ?pid _ = Ok _ |- _ => apply (alloc_ok_create_plan _ _ _ _ _ _ (B pid) A) in Hc; exact Hc end.
  - (* cancel *)
    destruct Hq as [A B C]. pose proof (h_sub_cancel_keeps _ _ _ _ H) as Hk.
    split; [|unfold get_plan in *; replace (plan_act s') with (plan_act s) by (symmetry; keeps_solve); replace (plan_inact s') with (plan_inact s) by (symmetry; keeps_solve); exact B|].
    + unfold h_sub_cancel in H. destruct (subs s !! id) as [sb|]; [|discriminate]. res_inv.
      match goal with Hp : sub_pending_hook _ _ = Ok ?y |- _ => apply sub_pending_hook_keeps in Hp end.
      unfold detach_payout in H. repeat case_match; res_inv; simpl; to_base s; auto.
    + unfold h_sub_cancel in H. destruct (subs s !! id) as [sb|]; [|discriminate]. res_inv.
      match goal with Hp : sub_pending_hook ?a _ = Ok ?y |- _ =>
        apply (q_sess_pending_hook a) in Hp; [|eapply kinv_sess_frame; [..|apply (ki_sess _ Hi)]; reflexivity|exact C] end.
      pose proof (sub_make_pending_keeps x1 sb) as Hmp. apply detach_payout_keeps in H; [|discriminate].
      replace (sessions s') with (sessions x1) by (symmetry; keeps_solve). assumption.
  - (* allocate *)
    destruct Hq as [A B C]. pose proof (h_sub_allocate_keeps _ _ _ _ _ _ H) as Hk.
    split; [eapply alloc_ok_allocate; eauto
           |unfold get_plan in *; replace (plan_act s') with (plan_act s) by (symmetry; keeps_solve); replace (plan_inact s') with (plan_inact s) by (symmetry; keeps_solve); exact B
           |replace (sessions s') with (sessions s) by (symmetry; keeps_solve); exact C].
  - (* sess_start *)
    destruct Hq as [A B C]. pose proof (h_sess_start_keeps _ _ _ _ _ H) as Hk.
    split; [replace (allocs s') with (allocs s) by (symmetry; keeps_solve); exact A
           |unfold get_plan in *; replace (plan_act s') with (plan_act s) by (symmetry; keeps_solve); replace (plan_inact s') with (plan_inact s) by (symmetry; keeps_solve); exact B|].
    unfold h_sess_start in H. res_inv; simpl; apply map_Forall_insert_2; auto; simpl; lia.
  - (* sess_update *)
    destruct Hq as [A B C]. pose proof (h_sess_update_keeps _ _ _ _ _ _ _ _ H) as Hk.
    split; [replace (allocs s') with (allocs s) by (symmetry; keeps_solve); exact A
           |unfold get_plan in *; replace (plan_act s') with (plan_act s) by (symmetry; keeps_solve); replace (plan_inact s') with (plan_inact s) by (symmetry; keeps_solve); exact B|].
    repeat rewrite andb_true_iff in Hv. destruct Hv as [[[[[[[[_ _] Hu] _] Hd] _] _] _] _]. apply Z.leb_le in Hu, Hd.
    unfold h_sess_update in H. res_inv; simpl; apply map_Forall_insert_2; auto; simpl; lia.
  - (* sess_end *)
    destruct Hq as [A B C]. pose proof (h_sess_end_keeps _ _ _ _ H) as Hk.
    split; [replace (allocs s') with (allocs s) by (symmetry; keeps_solve); exact A
           |unfold get_plan in *; replace (plan_act s') with (plan_act s) by (symmetry; keeps_solve); replace (plan_inact s') with (plan_inact s) by (symmetry; keeps_solve); exact B|].
    unfold h_sess_end in H. destruct (sessions s !! id) as [x|] eqn:Hx; [|discriminate].
    destruct (k_ss _ (ki_sess _ Hi) _ _ Hx) as (E1 & _). res_inv. apply q_sess_make_pending; [exact Hx|exact C].
Qed.

Lemma quota_session_expire_one s e s' : kinv s -> quota_inv s -> session_expire_one s e = Ok s' -> quota_inv s'.
Proof.
  intros Hi [A B C] H. pose proof (session_expire_one_keeps _ _ _ H) as Hk.
  assert (Bp : forall id p, get_plan s' id = Some p -> 0 <= pl_gb p).
  { unfold get_plan in *. replace (plan_act s') with (plan_act s) by (symmetry; keeps_solve). replace (plan_inact s') with (plan_inact s) by (symmetry; keeps_solve). exact B. }
  unfold session_expire_one in H. destruct (sessions s !! e.2) as [x|] eqn:Hx; [|discriminate].
  destruct (C _ _ Hx) as [Hu Hd].
  case_bool_decide.
  - injection H as <-. split; [exact A|exact Bp|]. simpl. apply map_Forall_insert_2; [simpl; auto|exact C].
  - apply rbind_ok in H as (total & Ht & H). apply int_add_ok in Ht.
    apply rbind_ok in H as (s1 & Hh & H). apply must_ok in Hh. injection H as <-.
    pose proof (session_inactive_hook_keeps _ _ _ _ _ _ Hh) as Hk1.
    split; [|exact Bp|simpl; replace (sessions s1) with (sessions s) by (symmetry; keeps_solve); apply map_Forall_delete; exact C].
    simpl. apply (session_inactive_hook_allocs) in Hh; [|eapply kinv_sub_frame; [..|apply (ki_sub _ Hi)]; reflexivity].
    destruct Hh as [E|(x0 & al & u' & Hx0 & Hal & E & _ & Hb)]; [rewrite E; exact A|].
    rewrite E. simpl in Hal. pose proof (A _ _ Hal) as [G1 G2].
    destruct (Hb G2 ltac:(lia)) as [[R1 R2] _]. apply map_Forall_insert_2; [unfold alloc_ok; simpl; lia|exact A].
Qed.

Lemma quota_sub_cleanup s sb : map_Forall (fun _ al => alloc_ok al) (allocs s) -> map_Forall (fun _ al => alloc_ok al) (allocs (sub_cleanup s sb)).
Proof.
  intros Hall. unfold sub_cleanup. destruct (sb_kind sb); simpl; [apply map_Forall_delete; exact Hall|].
  apply (fold_left_inv (fun y => map_Forall (fun _ al => alloc_ok al) (allocs y))); [|exact Hall].
  intros y al Hy. simpl. apply map_Forall_delete. exact Hy.
Qed.

Lemma quota_sub_expire_one s e s' : kinv s -> quota_inv s -> sub_expire_one s e = Ok s' -> quota_inv s'.
Proof.
  intros Hi [A B C] H. pose proof (sub_expire_one_keeps _ _ _ H) as Hk.
  assert (Bp : forall id p, get_plan s' id = Some p -> 0 <= pl_gb p).
  { unfold get_plan in *. replace (plan_act s') with (plan_act s) by (symmetry; keeps_solve). replace (plan_inact s') with (plan_inact s) by (symmetry; keeps_solve). exact B. }
  unfold sub_expire_one in H. destruct (subs s !! e.2) as [sb|] eqn:Hsb; [|discriminate].
  case_bool_decide.
  - apply rbind_ok in H as (s1 & Hp & H). apply must_ok in Hp.
    pose proof (sub_pending_hook_keeps _ _ _ Hp) as Hk1. pose proof (sub_make_pending_keeps s1 sb) as Hmp.
    assert (C1 : map_Forall (fun _ x => 0 <= ss_up x /\ 0 <= ss_down x) (sessions s1)).
    { eapply q_sess_pending_hook; [| |exact Hp]; [eapply kinv_sess_frame; [..|apply (ki_sess _ Hi)]; reflexivity|exact C]. }
    assert (Ea : allocs s' = allocs s).
    { unfold detach_payout in H. repeat case_match; res_inv; simpl; keeps_solve. }
    apply detach_payout_keeps in H; [|discriminate].
    split; [rewrite Ea; exact A|exact Bp|replace (sessions s') with (sessions s1) by (symmetry; keeps_solve); exact C1].
  - apply rbind_ok in H as (s1 & Hr & H). apply sub_refund_keeps in Hr.
    assert (A1 : map_Forall (fun _ al => alloc_ok al) (allocs s1)) by (replace (allocs s1) with (allocs s) by (symmetry; keeps_solve); exact A).
    pose proof (quota_sub_cleanup s1 sb A1) as A2. pose proof (sub_cleanup_keeps s1 sb) as Hc.
    assert (Ea : allocs s' = allocs (sub_cleanup s1 sb)).
    { unfold sub_delete_payout in H. repeat case_match; res_inv; reflexivity. }
    apply sub_delete_payout_keeps in H.
    split; [rewrite Ea; exact A2|exact Bp|replace (sessions s') with (sessions s) by (symmetry; keeps_solve); exact C].
Qed.

Theorem quota_step s o s' : kinv s -> quota_inv s -> step s o = OOk s' -> quota_inv s'.
Proof.
  intros Hi Hq. unfold step. destruct o.
  - destruct (begin_block _) as [x| |] eqn:H; try discriminate. intros [= <-].
    unfold begin_block in H. apply rbind_ok in H as (s1 & Hm & H). apply mint_begin_block_keeps in Hm.
    assert (Hq1 : quota_inv s1) by (eapply (quota_inv_frame s); [..|exact Hq]; keeps_solve).
    unfold sub_begin_block in H. eapply (rfold_inv quota_inv); [|exact Hq1|exact H].
    intros a e b Ha Hs. destruct (payout_step_allocs _ _ _ Hs) as (E1 & E2 & E3 & E4). eapply quota_inv_frame; eauto.
  - unfold run_tx. destruct (validate_basic m) eqn:Hv; [|discriminate].
    destruct (handle _ m) as [x| |] eqn:H; try discriminate. intros [= <-].
    eapply quota_handle; [apply kinv_clear; exact Hi| |exact Hv|exact H]. eapply (quota_inv_frame s); [..|exact Hq]; reflexivity.
  - destruct (forallb pchange_valid _); [|discriminate]. intros [= <-]. apply (fold_left_inv quota_inv).
    + intros x c Hx. pose proof (apply_pchange_keeps x c). eapply quota_inv_keeps; eauto.
    + eapply (quota_inv_frame s); [..|exact Hq]; reflexivity.
  - destruct (end_block _) as [se| |] eqn:H; try discriminate. intros [= <-].
    unfold end_block in H. apply rbind_ok in H as (s1 & H1 & H). apply rbind_ok in H as (s2 & H2 & H3).
    assert (Hi0 : kinv (clear_events s)) by (apply kinv_clear; exact Hi).
    pose proof (kinv_node_end_block _ _ Hi0 H1) as Hi1. apply node_end_block_keeps in H1.
    assert (Hq1 : quota_inv s1) by (eapply (quota_inv_frame s); [..|exact Hq]; keeps_solve).
    assert (G2 : kinv s2 /\ quota_inv s2).
    { unfold session_end_block in H2. eapply (rfold_inv (fun y => kinv y /\ quota_inv y)); [|split; eassumption|exact H2].
      intros a e b [Ha Hqa] Hs. split; [eapply kinv_session_expire_one|eapply quota_session_expire_one]; eauto. }
    assert (G3 : kinv se /\ quota_inv se).
    { unfold sub_end_block in H3. eapply (rfold_inv (fun y => kinv y /\ quota_inv y)); [|exact G2|exact H3].
      intros a e b [Ha Hqa] Hs. split; [eapply kinv_sub_expire_one|eapply quota_sub_expire_one]; eauto. }
    eapply (quota_inv_frame se); [..|apply G3]; reflexivity.
Qed.

Lemma quota_inv_init g : quota_inv (init g).
Proof.
  assert (E : allocs (init g) = ∅ /\ sessions (init g) = ∅ /\ plan_act (init g) = ∅ /\ plan_inact (init g) = ∅).
  { unfold init. destruct (g_mint g) as [[[mx mn] rc] inf]. simpl.
    apply (fold_left_inv (fun x => allocs x = ∅ /\ sessions x = ∅ /\ plan_act x = ∅ /\ plan_inact x = ∅)); [|repeat split; reflexivity].
    intros x [b [d v]] Hx. exact Hx. }
  destruct E as (E1 & E2 & E3 & E4). split; unfold get_plan; rewrite ?E1, ?E2, ?E3, ?E4; [apply map_Forall_empty| |apply map_Forall_empty].
  intros id p. rewrite !lookup_empty. discriminate.
Qed.

Theorem quota_run ops : forall s i s', kinv s -> quota_inv s -> run_from s ops i = RunOk s' -> quota_inv s'.
Proof.
  induction ops as [|o ops IH]; simpl; intros s i s' Hi Hq H.
  - injection H as <-. exact Hq.
  - destruct (step s o) as [s1| |] eqn:E; try discriminate.
    + eapply IH; [eapply kinv_step; eauto|eapply quota_step; eauto|exact H].
    + eapply IH; [apply kinv_clear; exact Hi| |exact H]. eapply (quota_inv_frame s); [..|exact Hq]; reflexivity.
Qed.

(** * sharing moves quota, it never creates or destroys it *)

Theorem allocate_conserves s from id to b s' :
  kinv_sub s -> h_sub_allocate s from id to b = Ok s' -> forall id0, gsum s' id0 = gsum s id0.
Proof.
  intros Hk H id0. destruct (h_sub_allocate_spec _ _ _ _ _ _ H) as (sb & fal & Hsb & Hf & Hne & H1 & H2 & Ea).
  unfold gsum at 1. rewrite Ea. rewrite !msum_insert. rewrite lookup_insert_ne by congruence. rewrite Hf. fold (gsum s id0).
  destruct (k_al _ Hk _ _ Hf) as (F1 & _). simpl in F1.
  destruct (allocs s !! (id, ta_bytes to)) as [tal|] eqn:Ht.
  - destruct (k_al _ Hk _ _ Ht) as (G1 & _). simpl in G1. unfold granted_of. simpl. rewrite F1, G1. case_bool_decide; lia.
  - unfold granted_of. simpl. rewrite F1. case_bool_decide; lia.
Qed.

(* settlement leaves every grant as it is *)
Theorem settlement_conserves s sid acc nd b s' :
  kinv_sub s -> session_inactive_hook s sid acc nd b = Ok s' -> forall id0, gsum s' id0 = gsum s id0.
Proof.
  intros Hk H id0. destruct (session_inactive_hook_allocs _ _ _ _ _ _ Hk H) as [E|(x & al & u' & Hx & Hal & E & _)]; unfold gsum at 1; rewrite E; [reflexivity|].
  rewrite gsum_insert, Hal. unfold granted_of. simpl. case_bool_decide; lia.
Qed.

(* a purchase grants exactly what was bought, to the buyer, and nothing to anyone else *)
Lemma create_sub_for_node_allocs s acc nd g h dn s' id :
  create_sub_for_node s acc nd g h dn = Ok (s', id) ->
  (g = 0 /\ allocs s' = allocs s) \/
  (g <> 0 /\ allocs s' = <[(id, acc) := {| al_id := id; al_addr := acc; al_granted := GB * g; al_used := 0 |}]> (allocs s)).
Proof.
  intros H. unfold create_sub_for_node in H. res_inv; pose_keeps; simpl; to_base s.
  all: repeat match goal with Hm : int_mul GB _ = Ok ?x |- _ => apply int_mul_ok in Hm; subst x end.
  all: first [ right; split; [|reflexivity]; intros Hg0; rewrite Hg0 in *; simpl in *; discriminate
             | left; split; [|reflexivity]; match goal with Hz : negb (?gg =? 0) = false |- ?gg = 0 => apply negb_false_iff, Z.eqb_eq in Hz; exact Hz end ].
Qed.

Theorem node_purchase_grants s acc nd g h dn s' id :
  kinv_sub s -> create_sub_for_node s acc nd g h dn = Ok (s', id) ->
  gsum s' id = GB * g /\ forall id0, id0 <> id -> gsum s' id0 = gsum s id0.
Proof.
  intros Hk H. destruct (kinv_create_sub_for_node _ _ _ _ _ _ _ _ Hk H) as [_ Eid].
  assert (Hfresh : gsum s id = 0) by (apply gsum_fresh; [exact Hk|lia]).
  assert (Hno : forall a, allocs s !! (id, a) = None).
  { intros a. destruct (allocs s !! (id, a)) eqn:E; [|reflexivity]. destruct (k_al _ Hk _ _ E) as (_ & _ & ?). simpl in *. lia. }
  destruct (create_sub_for_node_allocs _ _ _ _ _ _ _ _ H) as [[-> E]|[Hg E]]; unfold gsum at 1 2; rewrite E.
  - fold (gsum s id). rewrite Hfresh. split; [lia|reflexivity].
  - split.
    + rewrite gsum_insert, Hno. unfold granted_of. simpl. rewrite bool_decide_eq_true_2 by reflexivity. rewrite Hfresh. lia.
    + intros id0 Hne. rewrite gsum_insert, Hno. unfold granted_of. simpl. rewrite bool_decide_eq_false_2 by congruence. lia.
Qed.

Theorem plan_purchase_grants s acc pid dn s' id :
  kinv_sub s -> create_sub_for_plan s acc pid dn = Ok (s', id) ->
  (exists p, get_plan s pid = Some p /\ gsum s' id = GB * pl_gb p) /\ forall id0, id0 <> id -> gsum s' id0 = gsum s id0.
Proof.
  intros Hk H. destruct (kinv_create_sub_for_plan _ _ _ _ _ _ Hk H) as [_ Eid].
  assert (Hfresh : gsum s id = 0) by (apply gsum_fresh; [exact Hk|lia]).
  assert (Hno : forall a, allocs s !! (id, a) = None).
  { intros a. destruct (allocs s !! (id, a)) eqn:E; [|reflexivity]. destruct (k_al _ Hk _ _ E) as (_ & _ & ?). simpl in *. lia. }
  unfold create_sub_for_plan in H. destruct (get_plan s pid) as [p|] eqn:Hg; [|discriminate].
  res_inv; pose_keeps.
  assert (Ec : sub_count x3 = sub_count s) by keeps_solve. simpl in Eid. rewrite Ec in *.
  match goal with Hm : int_mul GB _ = Ok ?x |- _ => apply int_mul_ok in Hm; subst x end.
  split.
  - exists p. split; [reflexivity|]. unfold gsum. simpl. to_base s. rewrite gsum_insert, Hno. unfold granted_of. simpl.
    rewrite bool_decide_eq_true_2 by reflexivity. fold (gsum s (sub_count s + 1)). lia.
  - intros id0 Hne. unfold gsum. simpl. to_base s. rewrite gsum_insert, Hno. unfold granted_of. simpl.
    rewrite bool_decide_eq_false_2 by congruence. unfold gsum, granted_of. lia.
Qed.

(** * usage only grows, and only by the settlement of a session of that holder *)

Theorem settlement_usage s e s' x :
  kinv s -> quota_inv s -> session_expire_one s e = Ok s' -> sessions s !! e.2 = Some x ->
  forall k al al', allocs s !! k = Some al -> allocs s' !! k = Some al' ->
    al_granted al' = al_granted al /\ al_used al <= al_used al' /\
    (al_used al < al_used al' -> k = (ss_sub x, ss_addr x) /\ ss_status x = SPending /\ al_used al' <= al_used al + (ss_up x + ss_down x)).
Proof.
  intros Hi [A B C] H Hx k al al' Hal Hal'. unfold session_expire_one in H. rewrite Hx in H.
  destruct (C _ _ Hx) as [Hu Hd]. destruct (k_ss _ (ki_sess _ Hi) _ _ Hx) as (Eid & _ & Hlive).
  case_bool_decide as Hact.
  - injection H as <-. simpl in Hal'. rewrite Hal in Hal'. injection Hal' as <-. split; [reflexivity|]. split; lia.
  - apply rbind_ok in H as (total & Ht & H). apply int_add_ok in Ht.
    apply rbind_ok in H as (s1 & Hh & H). apply must_ok in Hh. injection H as <-. simpl in Hal'.
    apply session_inactive_hook_allocs in Hh; [|eapply kinv_sub_frame; [..|apply (ki_sub _ Hi)]; reflexivity].
    destruct Hh as [E|(x0 & al0 & u' & Hx0 & Hal0 & E & _ & Hb)].
    + rewrite E in Hal'. simpl in Hal'. rewrite Hal in Hal'. injection Hal' as <-. split; [reflexivity|]. split; lia.
    + simpl in Hx0. rewrite Eid, Hx in Hx0. injection Hx0 as <-. simpl in Hal0. rewrite E in Hal'. simpl in Hal'.
      apply lookup_insert_Some in Hal' as [[<- <-]|[Hne Hal']].
      * rewrite Hal in Hal0. injection Hal0 as <-. pose proof (A _ _ Hal) as [G1 G2].
        destruct (Hb G2 ltac:(lia)) as [[R1 R2] R3]. simpl. split; [reflexivity|]. split; [exact R1|]. intros _.
        split; [reflexivity|]. split; [destruct Hlive as [?|?]; [contradiction|assumption]|lia].
      * rewrite Hal in Hal'. injection Hal' as <-. split; [reflexivity|]. split; lia.
Qed.

(* a holder whose quota is exhausted cannot start a session (hourly subscriptions have no quota) *)
Theorem exhausted_cannot_start s from id nd s' sb :
  h_sess_start s from id nd = Ok s' -> subs s !! id = Some sb ->
  (match sb_kind sb with KNode _ _ h _ => h = 0 | KPlan _ _ => True end) ->
  exists al, allocs s !! (id, ta_bytes from) = Some al /\ al_used al < al_granted al.
Proof.
  intros H Hsb Hk. unfold h_sess_start in H. rewrite Hsb in H.
  apply rbind_ok in H as (u & _ & H). destruct (get_node _ _) as [n|]; [|discriminate].
  apply rbind_ok in H as (u2 & _ & H). apply rbind_ok in H as (u3 & _ & H).
  apply rbind_ok in H as (chk & Hc & H).
  assert (chk = true).
  { destruct (sb_kind sb); [|injection Hc as <-; reflexivity]. apply rbind_ok in Hc as (u4 & _ & Hc). injection Hc as <-. subst. reflexivity. }
  subst chk. apply rbind_ok in H as (u5 & Ha & _).
  destruct (allocs s !! (id, ta_bytes from)) as [al|]; [|discriminate]. apply ensure_ok, negb_true_iff, Z.leb_gt in Ha. eauto.
Qed.
