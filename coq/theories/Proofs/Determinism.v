(* C10 on the model side: the transition function is a function of (state, operation)
   only, and every ordered iteration of the model (deadline queues, listings) is
   canonical: it depends only on the SET of entries, not on the order in which a
   finite-set/finite-map representation happens to enumerate them. *)
From Hub Require Import Base.Prelude Base.Arith Model.Types Model.Keeper Model.Handlers Model.Hooks Model.Step.
From Hub Require Import Proofs.Sorting.

(** * total orders given by comparison functions *)

Class OrderCmp {A} (c : A -> A -> comparison) := {
  oc_opp : forall x y, c x y = CompOpp (c y x);
  oc_eq : forall x y, c x y = Eq -> x = y;
  oc_trans : forall x y z, c x y <> Gt -> c y z <> Gt -> c x z <> Gt }.

#[export] Instance order_good {A} (c : A -> A -> comparison) `{!OrderCmp c} : GoodCmp c.
Proof.
  split.
  - intros x y H. rewrite oc_opp, H. discriminate.
  - apply oc_trans.
Qed.

#[export] Instance order_antisym {A} (c : A -> A -> comparison) `{!OrderCmp c} : AntiSymm (=) (cmp_le c).
Proof.
  intros x y H1 H2. unfold cmp_le in *. apply (oc_eq (c := c)).
  rewrite oc_opp in H2. destruct (c x y); [reflexivity|exfalso; apply H2; reflexivity|congruence].
Qed.

(* sorting is canonical: any two enumerations of the same entries sort to the same list *)
Theorem sort_by_canonical {A} (c : A -> A -> comparison) `{!OrderCmp c} (l1 l2 : list A) :
  l1 ≡ₚ l2 -> sort_by c l1 = sort_by c l2.
Proof.
  intros Hp. apply (StronglySorted_unique (cmp_le c)).
  - apply sort_by_sorted, _.
  - apply sort_by_sorted, _.
  - rewrite !sort_by_perm. exact Hp.
Qed.

(** * the orders used by the model *)

#[export] Instance order_Z : OrderCmp Z.compare.
Proof.
  split.
  - intros x y. apply Z.compare_antisym.
  - intros x y. apply Z.compare_eq.
  - intros x y z H1 H2 H3. rewrite Z.compare_le_iff in H1, H2. rewrite Z.compare_gt_iff in H3. lia.
Qed.

Lemma lex_cases {A B} (ca : A -> A -> comparison) (cb : B -> B -> comparison) x y :
  lex ca cb x y = match ca x.1 y.1 with Eq => cb x.2 y.2 | c => c end.
Proof. reflexivity. Qed.

#[export] Instance order_lex {A B} (ca : A -> A -> comparison) (cb : B -> B -> comparison)
  `{!OrderCmp ca} `{!OrderCmp cb} : OrderCmp (lex ca cb).
Proof.
  split.
  - intros [a1 b1] [a2 b2]. unfold lex. simpl. rewrite (oc_opp (c := ca) a1 a2).
    destruct (ca a2 a1); simpl; [apply oc_opp|reflexivity|reflexivity].
  - intros [a1 b1] [a2 b2]. unfold lex. simpl. destruct (ca a1 a2) eqn:E; try discriminate.
    intros H. apply oc_eq in E. apply oc_eq in H. congruence.
  - intros [a1 b1] [a2 b2] [a3 b3]. unfold lex. simpl. intros H1 H2.
    destruct (ca a1 a2) eqn:E12; [|clear H1|congruence].
    + apply oc_eq in E12. subst a2. destruct (ca a1 a3) eqn:E13; [|discriminate|exact H2].
      eapply oc_trans; eauto.
    + destruct (ca a2 a3) eqn:E23; [|clear H2|congruence].
      * apply oc_eq in E23. subst a3. rewrite E12. discriminate.
      * assert (Hne : ca a1 a3 <> Gt) by (eapply oc_trans; [rewrite E12|rewrite E23]; discriminate).
        destruct (ca a1 a3) eqn:E13; [|discriminate|congruence].
        apply oc_eq in E13. subst a3. rewrite oc_opp, E12 in E23. discriminate.
Qed.

Lemma bytes_cmp_opp a : forall b, bytes_cmp a b = CompOpp (bytes_cmp b a).
Proof.
  induction a as [|x a IH]; intros [|y b]; simpl; try reflexivity.
  rewrite (N.compare_antisym y x). destruct (y ?= x)%N; simpl; auto.
Qed.
Lemma bytes_cmp_eq a : forall b, bytes_cmp a b = Eq -> a = b.
Proof.
  induction a as [|x a IH]; intros [|y b]; simpl; try discriminate; auto.
  destruct (x ?= y)%N eqn:E; try discriminate. intros H. apply N.compare_eq in E. f_equal; auto.
Qed.
Lemma bytes_cmp_trans a : forall b c, bytes_cmp a b <> Gt -> bytes_cmp b c <> Gt -> bytes_cmp a c <> Gt.
Proof.
  induction a as [|x a IH]; intros [|y b] [|z c]; simpl; try congruence.
  destruct (x ?= y)%N eqn:E1; destruct (y ?= z)%N eqn:E2; try congruence; intros H1 H2.
  - apply N.compare_eq in E1, E2. subst. rewrite N.compare_refl. eauto.
  - apply N.compare_eq in E1. subst. rewrite E2. discriminate.
  - apply N.compare_eq in E2. subst. rewrite E1. discriminate.
  - rewrite N.compare_lt_iff in E1, E2. assert ((x ?= z)%N = Lt) as -> by (apply N.compare_lt_iff; lia). discriminate.
Qed.
#[export] Instance order_bytes : OrderCmp bytes_cmp.
Proof. split; [apply bytes_cmp_opp|apply bytes_cmp_eq|apply bytes_cmp_trans]. Qed.

#[export] Instance order_addr : OrderCmp addr_cmp.
Proof.
  split.
  - intros x y. unfold addr_cmp. rewrite (Nat.compare_antisym (length y) (length x)).
    destruct (length y ?= length x)%nat; simpl; [apply bytes_cmp_opp|reflexivity|reflexivity].
  - intros x y. unfold addr_cmp. destruct (length x ?= length y)%nat; try discriminate. apply bytes_cmp_eq.
  - intros x y z. unfold addr_cmp.
    destruct (length x ?= length y)%nat eqn:E1; destruct (length y ?= length z)%nat eqn:E2; try congruence; intros H1 H2.
    + apply Nat.compare_eq in E1, E2. rewrite E1, E2, Nat.compare_refl. eapply bytes_cmp_trans; eauto.
    + apply Nat.compare_eq in E1. rewrite E1, E2. discriminate.
    + apply Nat.compare_eq in E2. rewrite <- E2, E1. discriminate.
    + rewrite Nat.compare_lt_iff in E1, E2. assert ((length x ?= length z)%nat = Lt) as -> by (apply Nat.compare_lt_iff; lia). discriminate.
Qed.

#[export] Instance order_tz : OrderCmp cmp_tz := order_lex _ _.
#[export] Instance order_ta : OrderCmp cmp_ta := order_lex _ _.
#[export] Instance order_az : OrderCmp cmp_az := order_lex _ _.
#[export] Instance order_zz : OrderCmp cmp_zz := order_lex _ _.
#[export] Instance order_za : OrderCmp cmp_za := order_lex _ _.

(** * consequences for the block hooks *)

(* the scan of a deadline queue is determined by the set of its entries *)
Theorem due_z_canonical (q : gset (time * Z)) (t : time) (l : list (time * Z)) :
  l ≡ₚ elements q -> filter (fun e => e.1 <= t) (sort_by cmp_tz l) = due_z q t.
Proof. intros Hp. unfold due_z. f_equal. apply sort_by_canonical; [apply _|exact Hp]. Qed.

Theorem due_a_canonical (q : gset (time * addr)) (t : time) (l : list (time * addr)) :
  l ≡ₚ elements q -> filter (fun e => e.1 <= t) (sort_by cmp_ta l) = due_a q t.
Proof. intros Hp. unfold due_a. f_equal. apply sort_by_canonical; [apply _|exact Hp]. Qed.

(* and it is chronological: timestamps never decrease along the scan, ties by identifier *)
Lemma StronglySorted_filter {A} (R : relation A) (P : A -> Prop) `{forall x, Decision (P x)} (l : list A) :
  StronglySorted R l -> StronglySorted R (filter P l).
Proof.
  induction 1 as [|x l Hs IH Hall]; [constructor|].
  destruct (decide (P x)) as [Hx|Hx].
  - rewrite filter_cons_True by exact Hx. constructor; [exact IH|].
    apply Forall_forall. intros y Hy. apply elem_of_list_filter in Hy as [_ Hy]. rewrite Forall_forall in Hall. auto.
  - rewrite filter_cons_False by exact Hx. exact IH.
Qed.

Theorem due_z_sorted q t : StronglySorted (cmp_le cmp_tz) (due_z q t).
Proof. unfold due_z. apply StronglySorted_filter, sort_by_sorted, _. Qed.
Theorem due_a_sorted q t : StronglySorted (cmp_le cmp_ta) (due_a q t).
Proof. unfold due_a. apply StronglySorted_filter, sort_by_sorted, _. Qed.

Lemma cmp_tz_le_time (x y : time * Z) : cmp_le cmp_tz x y -> x.1 <= y.1.
Proof.
  destruct x as [t1 i1], y as [t2 i2]. unfold cmp_le, cmp_tz, lex. simpl. intros H.
  destruct (Z.compare_spec t1 t2) as [E|E|E]; [lia|lia|]. exfalso. apply H. reflexivity.
Qed.

(* the transition function and the run of a history are functions *)
Theorem step_deterministic s o r1 r2 : step s o = r1 -> step s o = r2 -> r1 = r2.
Proof. congruence. Qed.
Theorem run_deterministic s ops r1 r2 : run s ops = r1 -> run s ops = r2 -> r1 = r2.
Proof. congruence. Qed.

(* two executions of the same history agree on every intermediate state and event list *)
Theorem run_prefix_deterministic ops1 : forall ops2 s i,
  run_from s (ops1 ++ ops2) i =
  match run_from s ops1 i with
  | RunOk s1 => run_from s1 ops2 (i + length ops1)
  | h => h
  end.
Proof.
  induction ops1 as [|o ops1 IH]; intros ops2 s i; simpl.
  - f_equal. lia.
  - destruct (step s o); [rewrite IH; destruct (run_from _ ops1 _); try reflexivity; f_equal; lia
                         |rewrite IH; destruct (run_from _ ops1 _); try reflexivity; f_equal; lia|reflexivity].
Qed.
