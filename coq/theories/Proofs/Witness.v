(* A concrete reachable state used by the non-vacuity examples of the property files:
   one node, one provider with a plan that leases the node by the hour, one account with a
   per-gigabyte, an hourly and a plan subscription, a second holder whose address EXTENDS the
   first one's bytes (prefix pair) sharing the plan quota, a settled-pending and an active session. *)
From Hub Require Import Base.Prelude Base.Arith Model.Types Model.Keeper Model.Handlers Model.Hooks Model.Step.

Definition wt_cfg : config :=
  {| c_deposit := [1%N]; c_feecoll := [2%N]; c_distr := [3%N]; c_swap := [4%N]; c_blocked := [[1%N]; [2%N]; [3%N]; [4%N]] |}.
Definition wt_params : params :=
  {| p_prov_deposit := (1%N, 10); p_prov_share := 2 * 10 ^ 17; p_node_deposit := (1%N, 10); p_node_active := 100 * HOUR;
     p_max_gb := ∅; p_min_gb := ∅; p_max_hr := ∅; p_min_hr := ∅;
     p_max_sub_gb := 10; p_min_sub_gb := 1; p_max_sub_hr := 10; p_min_sub_hr := 1; p_node_share := 10 ^ 17;
     p_sub_delay := 240; p_sess_delay := 120; p_sess_proof := false;
     p_swap_enabled := true; p_swap_denom := 1%N; p_swap_approver := canon RAcc [9%N] |}.
Definition wt_genesis : genesis :=
  {| g_cfg := wt_cfg;
     g_balances := [([7%N], (1%N, 1000)); ([8%N], (1%N, 100000)); ([8%N; 1%N], (1%N, 1000)); ([9%N], (1%N, 100000))];
     g_params := wt_params; g_inflations := []; g_mint := (1, 1, 1, 1); g_time := 0 |}.

Definition wt_node := canon RNode [7%N].
Definition wt_acc := canon RAcc [8%N].
Definition wt_acc2 := canon RAcc [8%N; 1%N].
Definition wt_prov := canon RProv [9%N].

Definition wt_ops1 : list op :=
  [ OBegin 1000;
    OTx (MNodeRegister (canon RAcc [7%N]) (Some [(1%N, 5)]) (Some [(1%N, 7)]) "https://n:1" true);
    OTx (MNodeUpdateStatus wt_node SActive);
    OTx (MProvRegister (canon RAcc [9%N]) "prov" "" "" "" true);
    OTx (MPlanCreate wt_prov 1000000 5 (Some [(1%N, 20)]));
    OTx (MPlanUpdateStatus wt_prov 1 SActive);
    OTx (MPlanLink wt_prov 1 wt_node);
    OTx (MNodeSubscribe (canon RAcc [9%N]) wt_node 0 2 1%N);      (* 1: the provider leases the node for 2 hours *)
    OTx (MNodeSubscribe wt_acc wt_node 2 0 1%N);                   (* 2: 2 GB *)
    OTx (MNodeSubscribe wt_acc wt_node 0 3 1%N);                   (* 3: 3 hours *)
    OTx (MPlanSubscribe wt_acc 1 1%N);                             (* 4: the plan *)
    OTx (MSubAllocate wt_acc 4 wt_acc2 1000);                      (* share 1000 bytes with [8;1] *)
    OEnd ].
Definition wt_ops2 : list op :=
  [ OBegin 2000;
    OTx (MSessStart wt_acc 2 wt_node);                             (* session 1 on the 2 GB subscription *)
    OTx (MSessStart wt_acc2 4 wt_node);                            (* session 2 on the shared plan quota *)
    OTx (MSessUpdate wt_node 1 300000000 200000000 60 None true);
    OTx (MSessEnd wt_acc 1 0);
    OEnd ].
(* ... session 1 settled and removed, one more hourly payout made *)
Definition wt_ops3 : list op := [ OBegin (1000 + HOUR); OEnd ].

Definition wt_run (ops : list op) : option state :=
  match run (init wt_genesis) ops with RunOk s => Some s | _ => None end.
Definition wt_state2 : option state := wt_run (wt_ops1 ++ wt_ops2).
Definition wt_state3 : option state := wt_run (wt_ops1 ++ wt_ops2 ++ wt_ops3).

(* a boolean observation of an optional state *)
Definition wt_obs {A} (o : option state) (f : state -> A) : option A := f <$> o.
