(* C04 (run level, nodes): an active node stops being active, across one whole operation, only by its own
   MsgUpdateStatus or in the end-blocker of a block at or after the end of its lease. *)
From Hub Require Import Base.Prelude Base.Arith Model.Types Model.Keeper Model.Handlers Model.Hooks Model.Step.
From Hub Require Import Proofs.Tactics Proofs.Sorting Proofs.Frames Proofs.KeysInv Proofs.Lifecycle Proofs.Auth
  Proofs.IndexSess Proofs.IndexNode Proofs.InvDefs Proofs.IndexSub Proofs.Listing Proofs.IndexSub2 Proofs.IndexPlan Proofs.IndexAll Proofs.Link.

(* the lease-expiry loop leaves alone every node that has no entry in the list it runs over *)
Lemma node_expire_loop_untouched l : forall x x' a,
  kinv_node x -> idx_node x -> NoDup l -> (forall e, e ∈ l -> e ∈ node_q x) -> (forall e, e ∈ l -> e.2 <> a) ->
  rfold node_expire_one l x = Ok x' -> node_act x' !! a = node_act x !! a.
Proof.
  intros x x' a Hk Hix Hnd Hin Hne H.
  set (P := fun (rest : list (time * addr)) (y : state) =>
              kinv_node y /\ idx_node y /\ NoDup rest /\ (forall e, e ∈ rest -> e ∈ node_q y) /\ (forall e, e ∈ rest -> e.2 <> a) /\
              node_act y !! a = node_act x !! a).
  assert (G : P [] x').
  { eapply (IndexSub2.rfold_rest P); [| |exact H].
    - intros e rest y y' (Hky & Hiy & Hndy & Hiny & Hney & Hsame) Hstep.
      apply NoDup_cons in Hndy as [Hnotin Hndy]. destruct e as [t b].
      assert (He : (t, b) ∈ node_q y) by (apply Hiny; left).
      destruct (proj1 (act_iat_spec y b t) (proj1 (Hiy t b) He)) as (n & Hn & Hiat).
      destruct (node_expire_one_effect y (t, b) y' n Hky Hn Hstep) as [M1 M2]. simpl in M2.
      pose proof (kinv_node_expire_one _ _ _ Hky Hstep) as Hky'. pose proof (idx_node_expire_one _ _ _ Hky Hiy Hstep) as Hiy'.
      split; [exact Hky'|]. split; [exact Hiy'|]. split; [exact Hndy|]. split; [|split].
      + intros [t' b'] He'. assert (He'q : (t', b') ∈ node_q y) by (apply Hiny; right; exact He').
        apply Hiy'. apply act_iat_spec. destruct (proj1 (act_iat_spec y b' t') (proj1 (Hiy t' b') He'q)) as (n' & Hn' & Hiat').
        assert (Hneb : b' <> b). { intros ->. rewrite Hn in Hn'. injection Hn' as <-. apply Hnotin. rewrite <- Hiat, Hiat'. exact He'. }
        exists n'. split; [|exact Hiat']. rewrite M2, lookup_delete_ne by congruence. exact Hn'.
      + intros e He'. apply Hney. right. exact He'.
      + rewrite M2. rewrite lookup_delete_ne; [exact Hsame|]. specialize (Hney (t, b) ltac:(left)). simpl in Hney. congruence.
    - split; [exact Hk|]. split; [exact Hix|]. split; [exact Hnd|]. split; [exact Hin|]. split; [exact Hne|reflexivity]. }
  apply G.
Qed.

(* the node end-blocker (price sweep + lease expiry) keeps every node active whose lease has not run out *)
Lemma node_end_block_keeps_leased s s' a n :
  kinv s -> idx_node s -> node_end_block s = Ok s' -> node_act s !! a = Some n -> now s < nd_inactive_at n ->
  is_Some (node_act s' !! a).
Proof.
  intros Hi Hix H Hn Hlt. unfold node_end_block in H. apply rbind_ok in H as (s1 & Hsw & H).
  assert (H1 : kinv_node s1 /\ idx_node s1 /\ now s1 = now s /\ act_iat s1 a = act_iat s a).
  { destruct (_ || _); [|injection Hsw as <-; split; [apply Hi|split; [exact Hix|split; reflexivity]]].
    destruct (node_sweep_keeps_act_iat _ _ Hi Hsw) as (K1 & K2 & K3 & K4). split; [exact K1|]. split; [|split; [exact K4|apply K3]].
    eapply idx_node_frame; eauto. }
  destruct H1 as (Hk1 & Hix1 & Hn1 & Ha1).
  assert (Hact : act_iat s a = Some (nd_inactive_at n)) by (apply act_iat_spec; eauto).
  rewrite Hact in Ha1. destruct (proj1 (act_iat_spec s1 a _) Ha1) as (n1 & Hn1a & Hiat1).
  assert (Hsame : node_act s' !! a = node_act s1 !! a).
  { apply (node_expire_loop_untouched (due_a (node_q s1) (now s1)) s1 s' a Hk1 Hix1 (NoDup_due_a _ _)); [| |exact H].
    - intros e He. apply elem_of_due_a in He. tauto.
    - intros [t b] He Eb. simpl in Eb. subst b. apply elem_of_due_a in He as [Hq Hle]. simpl in Hle.
      apply Hix1 in Hq. rewrite Ha1 in Hq. injection Hq as <-. lia. }
  rewrite Hsame, Hn1a. eauto.
Qed.

Theorem node_deactivation_cause s o s' a n :
  life_inv s -> step s o = OOk s' -> node_act s !! a = Some n -> node_act s' !! a = None ->
  (exists from, o = OTx (MNodeUpdateStatus from SInactive) /\ ta_bytes from = a) \/ (o = OEnd /\ nd_inactive_at n <= now s).
Proof.
  intros Hl Hstep Hn Hnone. pose proof (ai_k _ (lf_idx _ Hl)) as Hi. pose proof (ai_node _ (lf_idx _ Hl)) as Hix.
  destruct o.
  - exfalso. unfold step in Hstep. destruct (begin_block _) as [y| |] eqn:H; try discriminate. injection Hstep as <-.
    apply begin_block_keeps in H. assert (E : node_act y = node_act s) by keeps_solve. rewrite E, Hn in Hnone. discriminate.
  - destruct (step_tx_ok _ _ _ Hstep) as [Hv H].
    destruct m; simpl in H;
      try (exfalso; assert (E : node_act s' = node_act s) by (handler_keeps H; keeps_solve); rewrite E, Hn in Hnone; discriminate).
    + (* register *) exfalso. destruct (decide (a = ta_bytes from)) as [->|Hne].
      * unfold h_node_register in H. res_inv.
        match goal with Hh : negb (has_node _ _) = true |- _ => apply negb_true_iff, bool_decide_eq_false in Hh; apply Hh end.
        unfold get_node. simpl. rewrite Hn. eauto.
      * destruct (auth_node_register_isolated _ _ _ _ _ _ _ Hstep a Hne) as [E _]. rewrite E, Hn in Hnone. discriminate.
    + (* update details: the status is kept *) exfalso. destruct (decide (a = ta_bytes from)) as [->|Hne].
      * unfold h_node_update_details in H. apply rbind_ok in H as (u1 & _ & H). apply rbind_ok in H as (u2 & _ & H).
        unfold get_node in H. simpl in H. rewrite Hn in H. apply rbind_ok in H as (s1 & Hs & H). injection H as <-.
        destruct (k_na _ (ki_node _ Hi) _ _ Hn) as [Ea Est]. unfold set_node in Hs. simpl in Hs. rewrite Est in Hs. injection Hs as <-.
        simpl in Hnone. rewrite Ea, lookup_insert in Hnone. discriminate.
      * destruct (auth_node_update_details_isolated _ _ _ _ _ _ _ Hi Hstep a Hne) as [E _]. rewrite E, Hn in Hnone. discriminate.
    + (* update status: the node's own request *)
      destruct (decide (a = ta_bytes from)) as [->|Hne].
      * left. exists from. split; [|reflexivity]. f_equal. f_equal.
        simpl in Hv. apply andb_true_iff in Hv as [_ Hst]. apply bool_decide_eq_true in Hst. destruct Hst as [->| ->]; [|reflexivity].
        exfalso. unfold h_node_update_status in H. unfold get_node in H. simpl in H. rewrite Hn in H.
        destruct (k_na _ (ki_node _ Hi) _ _ Hn) as [Ea Est]. rewrite Est in H.
        injection H as <-. simpl in Hnone. rewrite Ea, lookup_insert in Hnone. discriminate.
      * exfalso. destruct (auth_node_update_status_isolated _ _ _ _ Hi Hstep a Hne) as [E _]. rewrite E, Hn in Hnone. discriminate.
  - exfalso. unfold step in Hstep. destruct (forallb pchange_valid _); [|discriminate]. injection Hstep as <-.
    assert (E : node_act (fold_left apply_pchange cs (clear_events s)) = node_act s).
    { apply (fold_left_inv (fun y => node_act y = node_act s)); [|reflexivity]. intros y c Hy. pose proof (apply_pchange_keeps y c). rewrite <- Hy. keeps_solve. }
    rewrite E, Hn in Hnone. discriminate.
  - right. split; [reflexivity|]. unfold step in Hstep. destruct (end_block _) as [y| |] eqn:H; try discriminate. injection Hstep as <-.
    unfold end_block in H. apply rbind_ok in H as (s1 & H1 & H). apply rbind_ok in H as (s2 & H2 & H3).
    destruct (Z_lt_le_dec (now s) (nd_inactive_at n)) as [Hlt|Hle]; [exfalso|exact Hle].
    destruct (node_end_block_keeps_leased (clear_events s) s1 a n (kinv_clear _ Hi) ltac:(eapply idx_node_frame; [..|exact Hix]; reflexivity) H1 Hn Hlt) as [n1 Hn1].
    apply session_end_block_keeps in H2. apply sub_end_block_keeps in H3.
    assert (E : node_act y = node_act s1) by (transitivity (node_act s2); keeps_solve).
    simpl in Hnone. rewrite E, Hn1 in Hnone. discriminate.
Qed.

