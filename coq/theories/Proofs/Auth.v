(* C07: every owner-restricted message that is accepted was sent by the owner of the
   record it changes (accepted => authorised); anything else is [ORejected], which by
   construction of [step] leaves the state unchanged. *)
From Hub Require Import Base.Prelude Base.Arith Model.Types Model.Keeper Model.Handlers Model.Hooks Model.Step.
From Hub Require Import Proofs.Tactics Proofs.Frames.

Lemma step_tx_ok s m s' : step s (OTx m) = OOk s' -> validate_basic m = true /\ handle (clear_events s) m = Ok s'.
Proof.
  unfold step, run_tx. destruct (validate_basic m); [|discriminate].
  destruct (handle _ m) as [x| |]; try discriminate. intros [= <-]. auto.
Qed.

Lemma ta_eqb_true a b : ta_eqb a b = true -> a = b.
Proof. unfold ta_eqb. apply bool_decide_eq_true. Qed.

(** * plans: status, links *)

Theorem auth_plan_update_status s from id st s' :
  step s (OTx (MPlanUpdateStatus from id st)) = OOk s' ->
  exists p, get_plan s id = Some p /\ from = canon RProv (pl_prov p).
Proof.
  intros H. apply step_tx_ok in H as [_ H]. simpl in H. unfold h_plan_update_status in H.
  change (get_plan (clear_events s) id) with (get_plan s id) in H.
  destruct (get_plan s id) as [p|]; [|discriminate]. apply rbind_ok in H as (u & Ha & _).
  apply ensure_ok, ta_eqb_true in Ha. eauto.
Qed.

Theorem auth_plan_link s from id nd s' :
  step s (OTx (MPlanLink from id nd)) = OOk s' ->
  exists p, get_plan s id = Some p /\ from = canon RProv (pl_prov p).
Proof.
  intros H. apply step_tx_ok in H as [_ H]. simpl in H. unfold h_plan_link in H.
  change (get_plan (clear_events s) id) with (get_plan s id) in H.
  destruct (get_plan s id) as [p|]; [|discriminate]. apply rbind_ok in H as (u & Ha & _).
  apply ensure_ok, ta_eqb_true in Ha. eauto.
Qed.

Theorem auth_plan_unlink s from id nd s' :
  step s (OTx (MPlanUnlink from id nd)) = OOk s' ->
  exists p, get_plan s id = Some p /\ from = canon RProv (pl_prov p).
Proof.
  intros H. apply step_tx_ok in H as [_ H]. simpl in H. unfold h_plan_unlink in H.
  change (get_plan (clear_events s) id) with (get_plan s id) in H.
  destruct (get_plan s id) as [p|]; [|discriminate]. apply rbind_ok in H as (u & Ha & _).
  apply ensure_ok, ta_eqb_true in Ha. eauto.
Qed.

(** * subscriptions: cancel, share *)

Theorem auth_sub_cancel s from id s' :
  step s (OTx (MSubCancel from id)) = OOk s' ->
  exists sb, subs s !! id = Some sb /\ ta_bytes from = sb_addr sb /\ ta_role from = RAcc.
Proof.
  intros H. apply step_tx_ok in H as [Hv H]. simpl in H. unfold h_sub_cancel in H.
  change (subs (clear_events s)) with (subs s) in H.
  destruct (subs s !! id) as [sb|]; [|discriminate]. apply rbind_ok in H as (u & _ & H).
  apply rbind_ok in H as (u2 & Ha & _). apply ensure_ok, bool_decide_eq_true in Ha.
  simpl in Hv. apply andb_true_iff in Hv as [Hv _]. unfold ta_valid in Hv.
  repeat rewrite andb_true_iff in Hv. destruct Hv as [[Hr _] _]. apply bool_decide_eq_true in Hr. eauto.
Qed.

Theorem auth_sub_allocate s from id to bytes s' :
  step s (OTx (MSubAllocate from id to bytes)) = OOk s' ->
  exists sb, subs s !! id = Some sb /\ ta_bytes from = sb_addr sb /\ ta_role from = RAcc.
Proof.
  intros H. apply step_tx_ok in H as [Hv H]. simpl in H. unfold h_sub_allocate in H.
  change (subs (clear_events s)) with (subs s) in H.
  destruct (subs s !! id) as [sb|]; [|discriminate]. apply rbind_ok in H as (u & _ & H).
  apply rbind_ok in H as (u2 & Ha & _). apply ensure_ok, bool_decide_eq_true in Ha.
  simpl in Hv. repeat rewrite andb_true_iff in Hv. destruct Hv as [[[[Hv _] _] _] _]. unfold ta_valid in Hv.
  repeat rewrite andb_true_iff in Hv. destruct Hv as [[Hr _] _]. apply bool_decide_eq_true in Hr. eauto.
Qed.

(** * sessions: end, usage report, start on a pay-as-you-go subscription *)

Theorem auth_sess_end s from id rating s' :
  step s (OTx (MSessEnd from id rating)) = OOk s' ->
  exists x, sessions s !! id = Some x /\ from = canon RAcc (ss_addr x).
Proof.
  intros H. apply step_tx_ok in H as [_ H]. simpl in H. unfold h_sess_end in H.
  change (sessions (clear_events s)) with (sessions s) in H.
  destruct (sessions s !! id) as [x|]; [|discriminate]. apply rbind_ok in H as (u & _ & H).
  apply rbind_ok in H as (u2 & Ha & _). apply ensure_ok, ta_eqb_true in Ha. eauto.
Qed.

(* usage reports: only the session's node, and under proof verification only with a valid
   signature of the session's subscriber over exactly the reported figures ([sig_ok] is the
   verdict of the real verifier for (session id, upload, download, duration) and that key) *)
Theorem auth_sess_update s from id up down duration sig_len sig_ok s' :
  step s (OTx (MSessUpdate from id up down duration sig_len sig_ok)) = OOk s' ->
  exists x, sessions s !! id = Some x /\ from = canon RNode (ss_node x) /\
            (p_sess_proof (pars s) = true -> sig_ok = true).
Proof.
  intros H. apply step_tx_ok in H as [_ H]. simpl in H. unfold h_sess_update in H.
  change (sessions (clear_events s)) with (sessions s) in H. change (pars (clear_events s)) with (pars s) in H.
  destruct (sessions s !! id) as [x|]; [|discriminate]. apply rbind_ok in H as (u & _ & H).
  apply rbind_ok in H as (u2 & Ha & H). apply ensure_ok, ta_eqb_true in Ha.
  apply rbind_ok in H as (u3 & Hp & _). apply ensure_ok in Hp.
  exists x. split; [reflexivity|]. split; [exact Ha|]. intros E. rewrite E in Hp. exact Hp.
Qed.

Theorem auth_sess_start_node_subscription s from id nd s' sb n g h d :
  step s (OTx (MSessStart from id nd)) = OOk s' ->
  subs s !! id = Some sb -> sb_kind sb = KNode n g h d -> from = canon RAcc (sb_addr sb).
Proof.
  intros H Hsb Hk. apply step_tx_ok in H as [_ H]. simpl in H. unfold h_sess_start in H.
  change (subs (clear_events s)) with (subs s) in H. rewrite Hsb in H.
  apply rbind_ok in H as (u & _ & H).
  destruct (get_node _ _) as [nn|]; [|discriminate]. apply rbind_ok in H as (u2 & _ & H).
  apply rbind_ok in H as (u3 & _ & H). rewrite Hk in H. apply rbind_ok in H as (chk & Hc & _).
  apply rbind_ok in Hc as (u4 & Ha & _). apply ensure_ok, ta_eqb_true in Ha. exact Ha.
Qed.

(** * swaps: only the configured approver *)

Theorem auth_swap s from hash receiver amount s' :
  step s (OTx (MSwap from hash receiver amount)) = OOk s' -> p_swap_approver (pars s) = from.
Proof.
  intros H. apply step_tx_ok in H as [_ H]. simpl in H. unfold h_swap in H.
  apply rbind_ok in H as (u & _ & H). apply rbind_ok in H as (u2 & Ha & _). apply ensure_ok, ta_eqb_true in Ha. exact Ha.
Qed.

(** * providers and nodes: a message acts on the sender's own record only *)

From Hub Require Import Proofs.KeysInv.

Theorem auth_prov_update_isolated s from n i w d ok st s' :
  kinv s -> step s (OTx (MProvUpdate from n i w d ok st)) = OOk s' ->
  forall a, a <> ta_bytes from -> prov_act s' !! a = prov_act s !! a /\ prov_inact s' !! a = prov_inact s !! a.
Proof.
  intros Hi H a Hne. apply step_tx_ok in H as [_ H]. simpl in H. unfold h_prov_update in H.
  change (get_provider (clear_events s) (ta_bytes from)) with (get_provider s (ta_bytes from)) in H.
  destruct (get_provider s (ta_bytes from)) as [p|] eqn:Hg; [|discriminate].
  destruct (get_provider_kinv _ _ _ (ki_pv _ Hi) Hg) as [Ea _].
  match type of H with (let '(s1, p2) := ?pp in _) = _ => destruct pp as [s1 p2] eqn:Ep end.
  apply rbind_ok in H as (s2 & Hset & H). injection H as <-.
  assert (G : prov_act s1 !! a = prov_act s !! a /\ prov_inact s1 !! a = prov_inact s !! a /\ pv_addr p2 = ta_bytes from).
  { repeat case_bool_decide; injection Ep as <- <-; simpl; rewrite ?lookup_delete_ne by congruence; auto. }
  destruct G as (G1 & G2 & G3).
  unfold set_provider in Hset. destruct (pv_status p2); try discriminate; injection Hset as <-; simpl;
    rewrite ?lookup_insert_ne by congruence; auto.
Qed.

Lemma set_node_other s n s' a :
  set_node s n = Ok s' -> a <> nd_addr n -> node_act s' !! a = node_act s !! a /\ node_inact s' !! a = node_inact s !! a.
Proof.
  unfold set_node. destruct (nd_status n); try discriminate; intros [= <-] Hne; simpl; rewrite ?lookup_insert_ne by congruence; auto.
Qed.

Theorem auth_node_update_details_isolated s from gb hr url ok s' :
  kinv s -> step s (OTx (MNodeUpdateDetails from gb hr url ok)) = OOk s' ->
  forall a, a <> ta_bytes from -> node_act s' !! a = node_act s !! a /\ node_inact s' !! a = node_inact s !! a.
Proof.
  intros Hi H a Hne. apply step_tx_ok in H as [_ H]. simpl in H. unfold h_node_update_details in H.
  apply rbind_ok in H as (u1 & _ & H). apply rbind_ok in H as (u2 & _ & H).
  change (get_node (clear_events s) (ta_bytes from)) with (get_node s (ta_bytes from)) in H.
  destruct (get_node s (ta_bytes from)) as [n|] eqn:Hg; [|discriminate].
  destruct (get_node_kinv _ _ _ (ki_node _ Hi) Hg) as [Ea _].
  apply rbind_ok in H as (s1 & Hset & H). injection H as <-.
  apply (set_node_other _ _ _ a) in Hset; [exact Hset|]. simpl. congruence.
Qed.

Theorem auth_node_update_status_isolated s from st s' :
  kinv s -> step s (OTx (MNodeUpdateStatus from st)) = OOk s' ->
  forall a, a <> ta_bytes from -> node_act s' !! a = node_act s !! a /\ node_inact s' !! a = node_inact s !! a.
Proof.
  intros Hi H a Hne. apply step_tx_ok in H as [_ H]. simpl in H. unfold h_node_update_status in H.
  change (get_node (clear_events s) (ta_bytes from)) with (get_node s (ta_bytes from)) in H.
  destruct (get_node s (ta_bytes from)) as [n|] eqn:Hg; [|discriminate].
  destruct (get_node_kinv _ _ _ (ki_node _ Hi) Hg) as [Ea _].
  match type of H with (let '(s3, n1) := ?pp in _) = _ => destruct pp as [s3 n1] eqn:Ep end.
  apply rbind_ok in H as (s4 & Hset & H). injection H as <-.
  assert (G : node_act s3 !! a = node_act s !! a /\ node_inact s3 !! a = node_inact s !! a /\ nd_addr n1 = ta_bytes from).
  { repeat case_bool_decide; injection Ep as <- <-; simpl; rewrite ?lookup_delete_ne by congruence; auto. }
  destruct G as (G1 & G2 & G3).
  apply (set_node_other _ _ _ a) in Hset; [|repeat case_bool_decide; simpl; congruence].
  simpl. destruct Hset as [-> ->]. auto.
Qed.

(* registration creates the sender's own record and touches no other *)
Theorem auth_node_register_isolated s from gb hr url ok s' :
  step s (OTx (MNodeRegister from gb hr url ok)) = OOk s' ->
  forall a, a <> ta_bytes from -> node_act s' !! a = node_act s !! a /\ node_inact s' !! a = node_inact s !! a.
Proof.
  intros H a Hne. apply step_tx_ok in H as [_ H]. simpl in H. unfold h_node_register in H. res_inv.
  match goal with Hf : fund_pool _ _ _ = Ok ?y |- _ => apply fund_pool_keeps in Hf;
    assert (E1 : node_act y = node_act s) by keeps_solve; assert (E2 : node_inact y = node_inact s) by keeps_solve end.
  match goal with Hs : set_node _ _ = Ok _ |- _ => apply (set_node_other _ _ _ a) in Hs; [|simpl; congruence]; destruct Hs as [A B] end.
  simpl. rewrite A, B, E1, E2. auto.
Qed.
