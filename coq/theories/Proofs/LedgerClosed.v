(* C02: the escrow ledger invariant with the Section hypotheses of Ledger2.v discharged by the
   index-invariant preservation lemmas of IndexSub2.v.  Kept apart from Ledger1-3 so that those
   do not depend on IndexSub*.v. *)
From Hub Require Import Base.Prelude Base.Arith Model.Types Model.Keeper Model.Handlers Model.Hooks Model.Step.
From Hub Require Import Proofs.Tactics Proofs.Frames Proofs.KeysInv Proofs.Quota Proofs.InvDefs.
From Hub Require Import Proofs.IndexSub Proofs.IndexSub2 Proofs.Ledger1 Proofs.Ledger2 Proofs.Ledger3.

Lemma lc_idx_payout_step s e s' :
  kinv s -> quota_inv s -> idx_sub s -> ledger_inv s -> e ∈ pay_q s -> payout_step s e = Ok s' -> idx_sub s'.
Proof. intros Hk _ Hx _ He H. eapply IndexSub2.idx_payout_step; eauto. apply Hk. Qed.

Lemma lc_idx_session_expire_one s e s' :
  kinv s -> quota_inv s -> idx_sub s -> ledger_inv s -> session_expire_one s e = Ok s' -> idx_sub s'.
Proof. intros Hk _ Hx _ H. eapply IndexSub2.idx_session_expire_one; eauto. Qed.

Lemma lc_idx_sub_expire_one s e s' :
  kinv s -> quota_inv s -> idx_sub s -> ledger_inv s -> sub_expire_one s e = Ok s' -> idx_sub s'.
Proof. intros Hk _ Hx _ H. eapply IndexSub2.idx_sub_expire_one; eauto. Qed.

Lemma lc_idx_step s o s' :
  kinv s -> quota_inv s -> idx_sub s -> ledger_inv s -> step s o = OOk s' -> idx_sub s'.
Proof. intros Hk _ Hx _ H. eapply IndexSub2.idx_sub_step; eauto. Qed.

(* the combined invariant (key agreement, quota, index/structure, ledger) is inductive *)
Theorem linv_step_closed s o s' : linv s -> step s o = OOk s' -> linv s'.
Proof. exact (linv_step lc_idx_payout_step lc_idx_session_expire_one lc_idx_sub_expire_one lc_idx_step s o s'). Qed.

Theorem ledger_step_closed s o s' :
  kinv s -> quota_inv s -> idx_sub s -> ledger_inv s -> step s o = OOk s' -> ledger_inv s'.
Proof. exact (ledger_step lc_idx_payout_step lc_idx_session_expire_one lc_idx_sub_expire_one s o s'). Qed.

(* the ledger equation holds after every operation of every history from genesis *)
Theorem ledger_reachable g ops s' : run (init g) ops = RunOk s' -> ledger_inv s'.
Proof. exact (ledger_run lc_idx_payout_step lc_idx_session_expire_one lc_idx_sub_expire_one lc_idx_step g ops s'). Qed.

Theorem linv_reachable g ops s' : run (init g) ops = RunOk s' -> linv s'.
Proof.
  intros H.
  eapply (linv_run lc_idx_payout_step lc_idx_session_expire_one lc_idx_sub_expire_one lc_idx_step ops (init g) 0%nat s'); [|exact H].
  split; [apply kinv_init|split; [apply quota_inv_init|split; [apply ledger_idx_sub_init|apply ledger_init]]].
Qed.

(* the block hooks *)
Theorem ledger_begin_block_closed s s' : linv s -> begin_block s = Ok s' -> linv s'.
Proof. exact (linv_begin_block lc_idx_payout_step s s'). Qed.
Theorem ledger_end_block_closed s s' : linv s -> end_block s = Ok s' -> linv s'.
Proof. exact (linv_end_block lc_idx_session_expire_one lc_idx_sub_expire_one s s'). Qed.

(* C02 at reachable states, without invariant premises *)
Corollary reachable_never_overcharged g ops s id sb n gb h dep :
  run (init g) ops = RunOk s -> subs s !! id = Some sb -> sb_kind sb = KNode n gb h dep ->
  forall a d, 0 <= unsettled s a d sb <= dep.2.
Proof.
  intros H Hsb Hkd. destruct (linv_reachable _ _ _ H) as (A & _ & C & D).
  eapply never_overcharged; eauto.
Qed.

Corollary reachable_ledger_equation g ops s a d :
  run (init g) ops = RunOk s -> amount_of (dep_of s a) d = ledger_total s a d.
Proof. intros H. apply (lg_eq _ (ledger_reachable _ _ _ H)). Qed.

