(* C02, part 2: every operation of the model preserves the escrow ledger invariant. *)
From Hub Require Import Base.Prelude Base.Arith Model.Types Model.Keeper Model.Handlers Model.Hooks Model.Step.
From Hub Require Import Proofs.Tactics Proofs.Sorting Proofs.Frames Proofs.Money Proofs.KeysInv Proofs.ArithThm.
From Hub Require Import Proofs.Lifecycle Proofs.Auth Proofs.Quota Proofs.Pricing Proofs.InvDefs Proofs.Ledger1.
From Coq Require Import ZifyBool.

Local Open Scope Z_scope.

(** * hourly payouts *)

Lemma payout_step_effect s e s' :
  payout_step s e = Ok s' ->
  exists po po',
    payouts s !! e.2 = Some po /\
    (forall x d', damt s' x d' = damt s x d' - dlt (po_addr po) (po_price po).1 (po_price po).2 x d') /\
    subs s' = subs s /\ allocs s' = allocs s /\
    payouts s' = <[po_id po := po']> (payouts s) /\
    po_price po' = po_price po /\ po_hours po' = po_hours po - 1 /\
    pay_q s ∖ {[ (po_next_at po, po_id po) ]} ⊆ pay_q s'.
Proof.
  intros H. unfold payout_step in H. destruct (payouts s !! e.2) as [po|] eqn:Hp; [|discriminate].
  apply rbind_ok in H as (fee & Hfee & H). apply must_ok in Hfee.
  apply rbind_ok in H as (s2 & Hs2 & H). apply must_ok in Hs2.
  apply rbind_ok in H as (payment & Hpay & H). apply must_ok in Hpay. apply coin_sub_ok in Hpay as [-> Hge].
  apply rbind_ok in H as (s3 & Hs3 & H). apply must_ok in Hs3.
  pose proof (z_dep_to_module_damt _ _ _ _ _ Hs2) as D2. pose proof (z_dep_to_account_damt _ _ _ _ _ Hs3) as D3.
  apply z_dep_to_module_keeps in Hs2. apply z_dep_to_account_keeps in Hs3. cbn [fst snd] in *.
  exists po, (po <| po_hours := po_hours po - 1 |> <| po_next_at := if po_hours po - 1 =? 0 then tzero else po_next_at po + HOUR |>).
  split; [reflexivity|].
  assert (Hd : forall x d', damt s3 x d' = damt s x d' - dlt (po_addr po) (po_price po).1 (po_price po).2 x d').
  { intros x d'. rewrite D3, D2. cbn [fst snd].
    pose proof (dlt_add (po_addr po) (po_price po).1 fee ((po_price po).2 - fee) x d') as Hadd.
    replace (fee + ((po_price po).2 - fee)) with (po_price po).2 in Hadd by lia.
    match goal with |- context [damt ?t x d'] =>
      lazymatch t with s => fail | _ => change (damt t x d') with (damt s x d') end end. lia. }
  assert (Hsubs : subs s3 = subs s) by keeps_solve.
  assert (Hal : allocs s3 = allocs s) by keeps_solve.
  assert (Hpo : payouts s3 = payouts s) by keeps_solve.
  assert (Hq : pay_q s3 = pay_q s ∖ {[(po_next_at po, po_id po)]}) by keeps_solve.
  injection H as <-.
  destruct (0 <? po_hours po - 1); cbn [subs allocs payouts pay_q set emit events]; simpl;
    (split; [intros x d'; rewrite <- Hd; reflexivity|]); (split; [exact Hsubs|]); (split; [exact Hal|]);
    (split; [rewrite Hpo; reflexivity|]); (split; [reflexivity|]); (split; [reflexivity|]); rewrite Hq; set_solver.
Qed.

(* one hourly payout: the deposit record of the subscriber and the unsettled part of the paid
   subscription both go down by exactly the hourly price *)
Theorem ledger_payout_step_gen s e s' :
  kinv_sub s -> lstruct s -> ledger_inv s ->
  (forall po, payouts s !! e.2 = Some po -> 0 < po_hours po) ->
  payout_step s e = Ok s' -> ledger_inv s'.
Proof.
  intros Hk Hst Hl Hpos H.
  destruct (payout_step_effect _ _ _ H) as (po & po' & Hp & Hd & Hsubs & Hal & Hpo & Epr & Ehr & _).
  destruct (k_po _ Hk _ _ Hp) as (Eid & _).
  specialize (Hpos _ Hp).
  destruct (ls_pay_sub _ Hst _ _ Hp) as (Hh0 & sb & g & h & dep & Hsb & Hkd & Hh & Eaddr).
  destruct (k_sub _ Hk _ _ Hsb) as (Esid & _).
  destruct (lg_price _ Hl _ _ _ _ _ _ _ Hsb Hkd Hh Hp) as (Eprice & Hhr).
  pose proof (ls_kind _ Hst _ _ Hsb) as Hko. rewrite Hkd in Hko. simpl in Hko. destruct Hko as [Hgh Hdep].
  assert (Hhpos : 0 < h) by lia.
  pose proof (quot_nonneg dep.2 h Hdep Hhpos) as Hq.
  apply (ledger_inv_change s s' e.2 (fun a d => - dlt (po_addr po) (po_price po).1 (po_price po).2 a d));
    [exact Hk|exact Hl|..].
  - intros i Hne. rewrite Hsubs. reflexivity.
  - intros i a Hne. rewrite Hal. reflexivity.
  - intros i Hne. rewrite Hpo, Eid. rewrite lookup_insert_ne by congruence. reflexivity.
  - intros a d. rewrite Hd. lia.
  - intros a d. rewrite Hsubs, Hsb. simpl.
    rewrite (unsettled_hourly s a d sb _ g h dep po Hkd Hh) by (rewrite Esid; exact Hp).
    rewrite (unsettled_hourly s' a d sb _ g h dep po' Hkd Hh) by (rewrite Esid, Hpo, Eid; apply lookup_insert).
    rewrite Epr, Ehr, Eprice. cbn [fst snd]. unfold dlt. rewrite Eaddr.
    repeat case_bool_decide; try lia; exfalso; naive_solver.
  - intros sb' Hsb'. rewrite Hsubs, Hsb in Hsb'. injection Hsb' as <-. split; [|split].
    + intros a d.
      rewrite (unsettled_hourly s' a d sb _ g h dep po' Hkd Hh) by (rewrite Esid, Hpo, Eid; apply lookup_insert).
      case_bool_decide; [|lia]. rewrite Epr, Ehr, Eprice. cbn [fst snd]. nia.
    + intros n' g' h' dep' al Hkd' Hh'. rewrite Hkd in Hkd'. injection Hkd' as _ _ Eh _. congruence.
    + intros n' g' h' dep' po2 Hkd' Hh' Hp2. rewrite Hpo, Eid, lookup_insert in Hp2. injection Hp2 as <-.
      rewrite Hkd in Hkd'. injection Hkd' as _ <- <- <-. rewrite Epr, Ehr. split; [exact Eprice|lia].
Qed.

Theorem ledger_payout_step s e s' :
  kinv s -> idx_sub s -> ledger_inv s -> e ∈ pay_q s -> payout_step s e = Ok s' -> ledger_inv s'.
Proof.
  intros Hk Hx Hl He H. eapply ledger_payout_step_gen; eauto; [apply Hk|apply idx_lstruct; exact Hx|].
  intros po Hp. destruct e as [t id]. apply (ix_payq _ Hx) in He as (po2 & sb & Hp2 & _ & Hpos & _).
  simpl in Hp. rewrite Hp in Hp2. injection Hp2 as <-. exact Hpos.
Qed.

(** * settlement of a session *)

Lemma new_coin_ok d a c : new_coin d a = Ok c -> c = (d, a) /\ 0 <= a.
Proof. unfold new_coin. destruct (a <? 0) eqn:E; [discriminate|]. intros [= <-]. split; [reflexivity|lia]. Qed.

Lemma int_quo_ok a b c : int_quo a b = Ok c -> b <> 0 /\ c = Z.quot a b.
Proof. unfold int_quo. destruct (b =? 0) eqn:E; [discriminate|]. intros [= <-]. split; [lia|reflexivity]. Qed.

(* what the settlement of a session on a per-gigabyte subscription does: usage grows to [used'],
   the subscriber's deposit record pays exactly afb(used') - afb(used) *)
Lemma settlement_spec s sid acc nd b s' x sb n g dep :
  kinv_sub s -> lstruct s -> ledger_inv s -> 0 <= b ->
  session_inactive_hook s sid acc nd b = Ok s' ->
  sessions s !! sid = Some x -> subs s !! ss_sub x = Some sb -> sb_kind sb = KNode n g 0 dep -> 0 < g ->
  exists al used',
    acc = sb_addr sb /\ allocs s !! (sb_id sb, sb_addr sb) = Some al /\
    used' = (if al_granted al - al_used al <? b then al_granted al else al_used al + b) /\
    al_used al <= used' <= al_granted al /\
    0 <= afb (Z.quot dep.2 g) used' - afb (Z.quot dep.2 g) (al_used al) /\
    subs s' = subs s /\ payouts s' = payouts s /\
    allocs s' = <[(sb_id sb, sb_addr sb) := al <| al_used := used' |>]> (allocs s) /\
    (forall a d, damt s' a d = damt s a d -
       dlt (sb_addr sb) dep.1 (afb (Z.quot dep.2 g) used' - afb (Z.quot dep.2 g) (al_used al)) a d).
Proof.
  intros Hk Hst Hl Hb H Hx Hsb Hkd Hg. unfold session_inactive_hook in H. rewrite Hx in H.
  apply rbind_ok in H as (u & _ & H). rewrite Hsb in H.
  destruct (k_sub _ Hk _ _ Hsb) as (Esid & _).
  pose proof (ls_kind _ Hst _ _ Hsb) as Hko. rewrite Hkd in Hko. simpl in Hko. destruct Hko as [_ Hdep].
  rewrite Hkd in H. cbv beta iota zeta in H.
  change (negb (0 =? 0)) with false in H. cbv beta iota in H.
  destruct (allocs s !! (sb_id sb, acc)) as [al|] eqn:Hal; [|discriminate].
  replace (g =? 0) with false in H by (symmetry; apply Z.eqb_neq; lia). cbv beta iota in H.
  apply rbind_ok in H as ([price previous] & Hpp & H).
  apply rbind_ok in Hpp as (pr & Hpr & Hpp). apply rbind_ok in Hpp as (pc & Hpc & Hpp).
  apply rbind_ok in Hpp as (prev & Hprev & Hpp). injection Hpp as <- <-.
  apply int_quo_ok in Hpr as [_ ->]. apply new_coin_ok in Hpc as [-> Hpr0]. cbn [fst snd] in H.
  apply rbind_ok in H as (remaining & Hrem & H). apply int_sub_ok in Hrem.
  apply rbind_ok in H as (used' & Hu & H).
  apply rbind_ok in H as (current & Hcur & H).
  apply rbind_ok in H as (diff & Hdiff & H). apply int_sub_ok in Hdiff.
  apply rbind_ok in H as (pay & Hpay & H). apply new_coin_ok in Hpay as [-> Hdiff0]. cbn [fst snd] in H.
  apply rbind_ok in H as (reward & Hrew & H).
  apply rbind_ok in H as (s2 & Hs2 & H).
  apply rbind_ok in H as (payment & Hpm & H). apply coin_sub_ok in Hpm as [-> Hpm0]. cbn [fst snd] in H, Hpm0.
  apply rbind_ok in H as (s3 & Hs3 & H). injection H as <-.
  (* the allocation is the subscriber's own *)
  destruct (ls_alloc_sub _ Hst _ _ _ Hal) as (sb2 & Hsb2 & _ & Hmet).
  rewrite Esid, Hsb in Hsb2. injection Hsb2 as <-.
  assert (Eacc : acc = sb_addr sb).
  { apply Hmet. unfold metered. rewrite Hkd. apply negb_true_iff, Z.eqb_neq. lia. }
  clear Hmet. subst acc.
  destruct (k_al _ Hk _ _ Hal) as (Ka1 & Ka2 & _). cbn [fst snd] in Ka1, Ka2.
  assert (Hal2 : allocs s !! (ss_sub x, sb_addr sb) = Some al) by (rewrite <- Esid; exact Hal).
  destruct (lg_alloc _ Hl _ _ _ _ _ _ _ Hsb Hkd eq_refl Hal2) as (Egr & Hu0 & Hu1).
  assert (Hu' : used' = (if al_granted al - al_used al <? b then al_granted al else al_used al + b) /\
                al_used al <= used' <= al_granted al).
  { rewrite <- Hrem. destruct (remaining <? b) eqn:E; [injection Hu as <-; split; [reflexivity|lia]|].
    apply int_add_ok in Hu. split; [exact Hu|lia]. }
  destruct Hu' as [Hu' Hub].
  apply afb_ok_exact in Hprev; [|lia|lia]. apply afb_ok_exact in Hcur; [|lia|lia].
  pose proof (z_dep_to_module_damt _ _ _ _ _ Hs2) as D2. pose proof (z_dep_to_account_damt _ _ _ _ _ Hs3) as D3.
  apply z_dep_to_module_keeps in Hs2. apply z_dep_to_account_keeps in Hs3. cbn [fst snd] in D2, D3.
  rewrite Ka1, Ka2 in *.
  match type of Hs2 with keeps _ ?t _ => set (s1 := t) in * end.
  match goal with |- context [subs ?t = subs s] => set (sf := t) end.
  assert (F1 : subs sf = subs s) by (unfold sf; simpl; transitivity (subs s1); [keeps_solve|reflexivity]).
  assert (F2 : payouts sf = payouts s) by (unfold sf; simpl; transitivity (payouts s1); [keeps_solve|reflexivity]).
  assert (F3 : allocs sf = <[(sb_id sb, sb_addr sb) := al <| al_used := used' |>]> (allocs s))
    by (unfold sf; simpl; transitivity (allocs s1); [keeps_solve|reflexivity]).
  assert (Hd : forall a d, damt sf a d = damt s a d - dlt (sb_addr sb) dep.1 diff a d).
  { intros a d. change (damt sf a d) with (damt s3 a d). rewrite D3, D2.
    change (damt s1 a d) with (damt s a d).
    pose proof (dlt_add (sb_addr sb) dep.1 reward (diff - reward) a d) as Hadd.
    replace (reward + (diff - reward)) with diff in Hadd by lia. lia. }
  clearbody sf s1. subst diff current prev.
  exists al, used'. repeat (split; [assumption || reflexivity|]). exact Hd.
Qed.

Theorem ledger_session_inactive_hook s sid acc nd b s' :
  kinv_sub s -> lstruct s -> ledger_inv s -> 0 <= b ->
  session_inactive_hook s sid acc nd b = Ok s' -> ledger_inv s'.
Proof.
  intros Hk Hst Hl Hb H0. pose proof H0 as H. unfold session_inactive_hook in H.
  destruct (sessions s !! sid) as [x|] eqn:Hx; [|discriminate].
  apply rbind_ok in H as (u & _ & H).
  destruct (subs s !! ss_sub x) as [sb|] eqn:Hsb; [|discriminate].
  destruct (k_sub _ Hk _ _ Hsb) as (Esid & _).
  pose proof (ls_kind _ Hst _ _ Hsb) as Hko.
  destruct (sb_kind sb) as [n g h dep|pid dn] eqn:Hkd; cbv beta iota zeta in H.
  - simpl in Hko. destruct Hko as [[[-> Hh]|[Hg ->]] Hdep].
    + replace (negb (h =? 0)) with true in H by (symmetry; apply negb_true_iff, Z.eqb_neq; lia).
      injection H as <-. exact Hl.
    + clear H.
      destruct (settlement_spec _ _ _ _ _ _ _ _ _ _ _ Hk Hst Hl Hb H0 Hx Hsb Hkd Hg)
        as (al & used' & _ & Hal & _ & Hub & Hdiff0 & F1 & F2 & F3 & Hd).
      assert (Hal2 : allocs s !! (ss_sub x, sb_addr sb) = Some al) by (rewrite <- Esid; exact Hal).
      destruct (lg_alloc _ Hl _ _ _ _ _ _ _ Hsb Hkd eq_refl Hal2) as (Egr & Hu0 & Hu1).
      pose proof (quot_nonneg dep.2 g Hdep Hg) as Hpr0.
      assert (Hq0 : 0 <= afb (Z.quot dep.2 g) (al_used al)) by (apply afb_nonneg; lia).
      assert (Hfull : afb (Z.quot dep.2 g) used' <= dep.2).
      { etransitivity; [apply (afb_le_mono _ used' (GB * g)); lia|]. apply afb_full; lia. }
      set (diff := afb (Z.quot dep.2 g) used' - afb (Z.quot dep.2 g) (al_used al)) in *.
      apply (ledger_inv_change s s' (ss_sub x) (fun a d => - dlt (sb_addr sb) dep.1 diff a d));
        [exact Hk|exact Hl|..].
      * intros i Hne. rewrite F1. reflexivity.
      * intros i a Hne. rewrite F3, Esid. rewrite lookup_insert_ne by congruence. reflexivity.
      * intros i Hne. rewrite F2. reflexivity.
      * intros a d. rewrite Hd. lia.
      * intros a d. rewrite F1, Hsb. simpl.
        rewrite (unsettled_metered s a d sb n g dep al Hkd Hal).
        rewrite (unsettled_metered s' a d sb n g dep (al <| al_used := used' |>) Hkd) by (rewrite F3; apply lookup_insert).
        simpl. unfold dlt, diff. repeat case_bool_decide; try lia; exfalso; naive_solver.
      * intros sb' Hsb'. rewrite F1, Hsb in Hsb'. injection Hsb' as <-. split; [|split].
        -- intros a d.
           rewrite (unsettled_metered s' a d sb n g dep (al <| al_used := used' |>) Hkd) by (rewrite F3; apply lookup_insert).
           simpl. case_bool_decide; lia.
        -- intros n' g' h' dep' al2 Hkd' Hh' Hal'. rewrite F3, <- Esid, lookup_insert in Hal'. injection Hal' as <-.
           rewrite Hkd in Hkd'. injection Hkd' as _ <- _ _. simpl. split; [exact Egr|lia].
        -- intros n' g' h' dep' po Hkd' Hh'. rewrite Hkd in Hkd'. injection Hkd' as _ _ Eh _. congruence.
  - destruct (allocs s !! (sb_id sb, acc)) as [al|] eqn:Hal; [|discriminate].
    cbn [rbind] in H. apply rbind_ok in H as (remaining & _ & H). apply rbind_ok in H as (used' & _ & H).
    injection H as <-.
    destruct (k_al _ Hk _ _ Hal) as (Ka1 & Ka2 & _). cbn [fst snd] in Ka1, Ka2. rewrite Ka1, Ka2.
    match goal with |- ledger_inv ?t => set (sf := t) end.
    assert (F3 : allocs sf = <[(sb_id sb, acc) := al <| al_used := used' |>]> (allocs s)) by reflexivity.
    apply (ledger_inv_change s sf (ss_sub x) (fun a d => 0)); [exact Hk|exact Hl|..].
    + intros i Hne. reflexivity.
    + intros i a Hne. rewrite F3, Esid. rewrite lookup_insert_ne by congruence. reflexivity.
    + intros i Hne. reflexivity.
    + intros a d. change (damt sf a d) with (damt s a d). lia.
    + intros a d. change (subs sf) with (subs s). rewrite Hsb. simpl.
      rewrite !(unsettled_plan _ a d sb pid dn Hkd). lia.
    + intros sb' Hsb'. change (subs sf) with (subs s) in Hsb'. rewrite Hsb in Hsb'. injection Hsb' as <-.
      split; [|split].
      * intros a d. rewrite (unsettled_plan _ a d sb pid dn Hkd). lia.
      * intros n' g' h' dep' al2 Hkd'. rewrite Hkd in Hkd'. discriminate.
      * intros n' g' h' dep' po Hkd'. rewrite Hkd in Hkd'. discriminate.
Qed.

Theorem ledger_session_expire_one_gen s e s' :
  kinv_sub s -> lstruct s -> quota_inv s -> ledger_inv s -> session_expire_one s e = Ok s' -> ledger_inv s'.
Proof.
  intros Hk Hst Hq Hl H. unfold session_expire_one in H.
  destruct (sessions s !! e.2) as [x|] eqn:Hx; [|discriminate].
  destruct (q_sess _ Hq _ _ Hx) as [Hu Hd].
  case_bool_decide.
  - injection H as <-. eapply ledger_inv_frame; [..|exact Hl]; reflexivity.
  - apply rbind_ok in H as (total & Ht & H). apply int_add_ok in Ht.
    apply rbind_ok in H as (s1 & Hh & H). apply must_ok in Hh. injection H as <-.
    apply ledger_session_inactive_hook in Hh.
    + eapply ledger_inv_frame; [..|exact Hh]; reflexivity.
    + eapply kinv_sub_frame; [..|exact Hk]; reflexivity.
    + eapply lstruct_frame; [..|exact Hst]; reflexivity.
    + eapply ledger_inv_frame; [..|exact Hl]; reflexivity.
    + lia.
Qed.

Theorem ledger_session_expire_one s e s' :
  kinv s -> quota_inv s -> idx_sub s -> ledger_inv s -> session_expire_one s e = Ok s' -> ledger_inv s'.
Proof.
  intros Hk Hq Hx Hl H. eapply ledger_session_expire_one_gen; eauto; [apply Hk|apply idx_lstruct; exact Hx].
Qed.

(** * expiry of a subscription *)

(* what the ledger reads of an allocation / a payout *)
Lemma unsettled_view s s' a d sb :
  al_used <$> allocs s' !! (sb_id sb, sb_addr sb) = al_used <$> allocs s !! (sb_id sb, sb_addr sb) ->
  (fun po => (po_price po, po_hours po)) <$> payouts s' !! sb_id sb =
  (fun po => (po_price po, po_hours po)) <$> payouts s !! sb_id sb ->
  unsettled s' a d sb = unsettled s a d sb.
Proof.
  intros E1 E2. unfold unsettled.
  destruct (allocs s' !! (sb_id sb, sb_addr sb)) as [al'|], (allocs s !! (sb_id sb, sb_addr sb)) as [al|];
    simpl in E1; try discriminate;
  destruct (payouts s' !! sb_id sb) as [po'|], (payouts s !! sb_id sb) as [po|]; simpl in E2; try discriminate;
  try (injection E1 as E1); try (injection E2 as E2a E2b); rewrite ?E1, ?E2a, ?E2b; reflexivity.
Qed.

Lemma ledger_sub_make_pending s sb :
  kinv_sub s -> ledger_inv s -> subs s !! sb_id sb = Some sb -> ledger_inv (sub_make_pending s sb).
Proof.
  intros Hk Hl Hsb. unfold sub_make_pending.
  match goal with |- ledger_inv ?t => set (sf := t) end.
  assert (F : subs sf = <[sb_id sb := sb <| sb_inactive_at := now s + p_sub_delay (pars s) |> <| sb_status := SPending |>
                                       <| sb_status_at := now s |>]> (subs s)) by reflexivity.
  apply (ledger_inv_change s sf (sb_id sb) (fun a d => 0)); [exact Hk|exact Hl|..].
  - intros i Hne. rewrite F. rewrite lookup_insert_ne by congruence. reflexivity.
  - intros i a Hne. reflexivity.
  - intros i Hne. reflexivity.
  - intros a d. change (damt sf a d) with (damt s a d). lia.
  - intros a d. rewrite F, lookup_insert, Hsb. simpl.
    rewrite (unsettled_core sf a d sb) by reflexivity.
    rewrite (unsettled_same s sf a d sb) by reflexivity. lia.
  - intros sb' Hsb'. rewrite F, lookup_insert in Hsb'. injection Hsb' as <-.
    apply (sub_ok_core sf _ sb); try reflexivity.
    apply (sub_ok_same s sf); try reflexivity. eapply ledger_sub_ok; eauto.
Qed.

Lemma ledger_detach_payout s sb m s' :
  kinv_sub s -> ledger_inv s -> (forall s'', m = Ok s'' -> ledger_inv s'') ->
  detach_payout s sb m = Ok s' -> ledger_inv s'.
Proof.
  intros Hk Hl Hm H. unfold detach_payout in H.
  destruct (sb_kind sb) as [n g h dep|]; [|injection H as <-; exact Hl].
  destruct (h =? 0); [injection H as <-; exact Hl|].
  destruct (payouts s !! sb_id sb) as [po|] eqn:Hp; [|apply Hm; exact H].
  injection H as <-. destruct (k_po _ Hk _ _ Hp) as (Eid & _).
  match goal with |- ledger_inv ?t => set (sf := t) end.
  assert (F : payouts sf = <[sb_id sb := po <| po_next_at := tzero |>]> (payouts s)) by (unfold sf; simpl; rewrite Eid; reflexivity).
  apply (ledger_inv_change s sf (sb_id sb) (fun a d => 0)); [exact Hk|exact Hl|..].
  - intros i Hne. reflexivity.
  - intros i a Hne. reflexivity.
  - intros i Hne. rewrite F. rewrite lookup_insert_ne by congruence. reflexivity.
  - intros a d. change (damt sf a d) with (damt s a d). lia.
  - intros a d. change (subs sf) with (subs s). destruct (subs s !! sb_id sb) as [sb0|] eqn:Hsb0; simpl; [|lia].
    destruct (k_sub _ Hk _ _ Hsb0) as (E0 & _).
    rewrite (unsettled_view s sf a d sb0); [lia|reflexivity|]. rewrite E0, F, lookup_insert, Hp. reflexivity.
  - intros sb0 Hsb0. change (subs sf) with (subs s) in Hsb0. destruct (k_sub _ Hk _ _ Hsb0) as (E0 & _).
    pose proof (ledger_sub_ok _ _ _ Hl Hsb0) as (A & B & C). split; [|split].
    + intros a d. rewrite (unsettled_view s sf a d sb0); [apply A|reflexivity|].
      rewrite E0, F, lookup_insert, Hp. reflexivity.
    + intros n' g' h' dep' al. apply B.
    + intros n' g' h' dep' po2 Hkd' Hh' Hp2. rewrite F, lookup_insert in Hp2. injection Hp2 as <-. simpl.
      eapply C; eauto.
Qed.

Lemma sub_cleanup_fields s sb :
  subs (sub_cleanup s sb) = subs s /\ payouts (sub_cleanup s sb) = payouts s /\
  deposits (sub_cleanup s sb) = deposits s /\
  forall i a, i <> sb_id sb -> allocs (sub_cleanup s sb) !! (i, a) = allocs s !! (i, a).
Proof.
  unfold sub_cleanup. destruct (sb_kind sb).
  - simpl. repeat split. intros i a Hne. rewrite lookup_delete_ne by congruence. reflexivity.
  - apply (fold_left_inv (fun y => subs y = subs s /\ payouts y = payouts s /\ deposits y = deposits s /\
                                  forall i a, i <> sb_id sb -> allocs y !! (i, a) = allocs s !! (i, a))).
    + intros y al (E1 & E2 & E3 & E4). simpl. repeat split; auto.
      intros i a Hne. rewrite lookup_delete_ne by congruence. apply E4. exact Hne.
    + simpl. repeat split.
Qed.

Lemma sub_delete_payout_fields s sb s' :
  kinv_sub s -> sub_delete_payout s sb = Ok s' ->
  subs s' = subs s /\ allocs s' = allocs s /\ deposits s' = deposits s /\
  forall i, i <> sb_id sb -> payouts s' !! i = payouts s !! i.
Proof.
  intros Hk H. unfold sub_delete_payout in H.
  destruct (sb_kind sb) as [n g h dep|]; [|injection H as <-; auto].
  destruct (h =? 0); [injection H as <-; auto|].
  destruct (payouts s !! sb_id sb) as [po|] eqn:Hp; [|discriminate]. injection H as <-.
  destruct (k_po _ Hk _ _ Hp) as (Eid & _). simpl. repeat split.
  intros i Hne. rewrite Eid. rewrite lookup_delete_ne by congruence. reflexivity.
Qed.

(* the refund at removal is exactly the unsettled part of the removed subscription: it leaves the
   subscriber's deposit record and arrives on the subscriber's bank balance *)
Theorem sub_refund_spec s id sb s1 :
  kinv_sub s -> lstruct s -> ledger_inv s -> subs s !! id = Some sb -> sub_refund s sb = Ok s1 ->
  (forall a d, damt s1 a d = damt s a d - unsettled s a d sb) /\
  subs s1 = subs s /\ allocs s1 = allocs s /\ payouts s1 = payouts s /\
  (forall n g h dep, sb_kind sb = KNode n g h dep -> forall x d',
     bal s1 x d' = bal s x d' + moved (c_deposit (cfg s)) (sb_addr sb) dep.1 (unsettled s (sb_addr sb) dep.1 sb) x d').
Proof.
  intros Hk Hst Hl Hsb H. pose proof (sub_refund_keeps _ _ _ H) as Hkp.
  assert (Hfr : subs s1 = subs s /\ allocs s1 = allocs s /\ payouts s1 = payouts s) by (repeat split; keeps_solve).
  destruct Hfr as (F1 & F2 & F3). clear Hkp.
  cut ((forall a d, damt s1 a d = damt s a d - unsettled s a d sb) /\
       (forall n g h dep, sb_kind sb = KNode n g h dep -> forall x d',
          bal s1 x d' = bal s x d' + moved (c_deposit (cfg s)) (sb_addr sb) dep.1 (unsettled s (sb_addr sb) dep.1 sb) x d')).
  { intros [A B]. auto. }
  destruct (k_sub _ Hk _ _ Hsb) as (Esid & _).
  pose proof (ls_kind _ Hst _ _ Hsb) as Hko.
  unfold sub_refund in H. destruct (sb_kind sb) as [n g h dep|pid dn] eqn:Hkd.
  - simpl in Hko. destruct Hko as [[[-> Hh]|[Hg ->]] Hdep].
    + change (negb (0 =? 0)) with false in H. cbv beta iota in H. cbn [rbind] in H.
      assert (Hhne : h <> 0) by lia.
      replace (negb (h =? 0)) with true in H by (symmetry; apply negb_true_iff, Z.eqb_neq; lia).
      destruct (payouts s !! sb_id sb) as [po|] eqn:Hp; [|discriminate].
      apply rbind_ok in H as (r & Hr & H). apply int_mul_ok in Hr.
      apply rbind_ok in H as (refund & Hrf & H). apply new_coin_ok in Hrf as [-> Hr0]. cbn [fst snd] in H.
      apply rbind_ok in H as (s2 & Hs2 & H). apply must_ok in Hs2. injection H as <-.
      change (z_dep_to_account s (po_addr po) (po_addr po) ((po_price po).1, r) = Ok s2) in Hs2.
      assert (Hp' : payouts s !! id = Some po) by (rewrite <- Esid; exact Hp).
      destruct (lg_price _ Hl _ _ _ _ _ _ _ Hsb Hkd Hhne Hp') as (Eprice & Hhr).
      destruct (ls_pay_sub _ Hst _ _ Hp') as (_ & sb2 & g2 & h2 & d2 & Hsb2 & _ & _ & Eaddr).
      rewrite Hsb in Hsb2. injection Hsb2 as <-.
      pose proof (z_dep_to_account_damt _ _ _ _ _ Hs2) as D2.
      destruct (z_dep_to_account_bal _ _ _ _ _ Hs2) as (_ & _ & B2). cbn [fst snd] in D2, B2.
      rewrite Eaddr, Eprice in D2, B2. cbn [fst] in D2, B2.
      split.
      * intros a d. rewrite (unsettled_hourly s a d sb n 0 h dep po Hkd Hhne Hp). rewrite <- Hr.
        change (damt (emit (ev "subscription.EventRefund" [VT (canon RAcc (sb_addr sb)); VC [((po_price po).1, r)]; VZ (sb_id sb)]) s2) a d)
          with (damt s2 a d).
        rewrite D2. unfold dlt. repeat case_bool_decide; try lia; exfalso; naive_solver.
      * intros n' g' h' dep' Hkd' x d'. injection Hkd' as <- <- <- <-.
        rewrite (unsettled_hourly s (sb_addr sb) dep.1 sb n 0 h dep po Hkd Hhne Hp). rewrite <- Hr.
        rewrite bool_decide_eq_true_2 by auto.
        change (bal (emit (ev "subscription.EventRefund" [VT (canon RAcc (sb_addr sb)); VC [((po_price po).1, r)]; VZ (sb_id sb)]) s2) x d')
          with (bal s2 x d').
        apply B2.
    + replace (negb (g =? 0)) with true in H by (symmetry; apply negb_true_iff, Z.eqb_neq; lia).
      change (negb (0 =? 0)) with false in H. cbv beta iota in H.
      apply rbind_ok in H as (s2 & H2 & H). injection H as <-.
      apply rbind_ok in H2 as (pr & Hpr & H2). apply int_quo_ok in Hpr as [_ ->].
      apply rbind_ok in H2 as (pc & Hpc & H2). apply new_coin_ok in Hpc as [_ Hpr0].
      destruct (allocs s !! (sb_id sb, sb_addr sb)) as [al|] eqn:Hal; [|discriminate].
      assert (Hal' : allocs s !! (id, sb_addr sb) = Some al) by (rewrite <- Esid; exact Hal).
      destruct (lg_alloc _ Hl _ _ _ _ _ _ _ Hsb Hkd eq_refl Hal') as (_ & Hu0 & _).
      apply rbind_ok in H2 as (paid & Hpaid & H2). apply afb_ok_exact in Hpaid; [|lia|lia].
      apply rbind_ok in H2 as (r & Hr & H2). apply int_sub_ok in Hr.
      apply rbind_ok in H2 as (refund & Hrf & H2). apply new_coin_ok in Hrf as [-> Hr0]. cbn [fst snd] in H2.
      apply rbind_ok in H2 as (s3 & Hs3 & H2). apply must_ok in Hs3. injection H2 as <-.
      change (z_dep_to_account s (sb_addr sb) (sb_addr sb) (dep.1, r) = Ok s3) in Hs3.
      pose proof (z_dep_to_account_damt _ _ _ _ _ Hs3) as D2.
      destruct (z_dep_to_account_bal _ _ _ _ _ Hs3) as (_ & _ & B2). cbn [fst snd] in D2, B2.
      split.
      * intros a d. rewrite (unsettled_metered s a d sb n g dep al Hkd Hal). rewrite <- Hpaid, <- Hr.
        change (damt (emit (ev "subscription.EventRefund" [VT (canon RAcc (sb_addr sb)); VC [(dep.1, r)]; VZ (sb_id sb)]) s3) a d)
          with (damt s3 a d).
        rewrite D2. unfold dlt. repeat case_bool_decide; try lia; exfalso; naive_solver.
      * intros n' g' h' dep' Hkd' x d'. injection Hkd' as <- <- <- <-.
        rewrite (unsettled_metered s (sb_addr sb) dep.1 sb n g dep al Hkd Hal). rewrite <- Hpaid, <- Hr.
        rewrite bool_decide_eq_true_2 by auto.
        change (bal (emit (ev "subscription.EventRefund" [VT (canon RAcc (sb_addr sb)); VC [(dep.1, r)]; VZ (sb_id sb)]) s3) x d')
          with (bal s3 x d').
        apply B2.
  - injection H as <-. split; [|intros; discriminate].
    intros a d. rewrite (unsettled_plan s a d sb pid dn Hkd). lia.
Qed.

Theorem ledger_sub_expire_one_gen s e s' :
  kinv s -> lstruct s -> ledger_inv s -> sub_expire_one s e = Ok s' -> ledger_inv s'.
Proof.
  intros Hi Hst Hl H. pose proof (ki_sub _ Hi) as Hk. unfold sub_expire_one in H.
  destruct (subs s !! e.2) as [sb|] eqn:Hsb; [|discriminate].
  destruct (k_sub _ Hk _ _ Hsb) as (Esid & _).
  match type of H with context [sub_pending_hook ?t _] => set (s0 := t) in * end.
  assert (Hk0 : kinv_sub s0) by (eapply kinv_sub_frame; [..|exact Hk]; reflexivity).
  assert (Hl0 : ledger_inv s0) by (eapply ledger_inv_frame; [..|exact Hl]; reflexivity).
  assert (Hst0 : lstruct s0) by (eapply lstruct_frame; [..|exact Hst]; reflexivity).
  assert (Hsb0 : subs s0 !! sb_id sb = Some sb) by (rewrite Esid; exact Hsb).
  clearbody s0.
  case_bool_decide.
  - apply rbind_ok in H as (s1 & Hp & H). apply must_ok, sub_pending_hook_keeps in Hp.
    assert (Hk1 : kinv_sub s1) by (eapply kinv_sub_frame; [..|exact Hk0]; keeps_solve).
    assert (Hl1 : ledger_inv s1) by (eapply ledger_inv_frame; [..|exact Hl0]; keeps_solve).
    assert (Hsb1 : subs s1 !! sb_id sb = Some sb) by (replace (subs s1) with (subs s0) by (symmetry; keeps_solve); exact Hsb0).
    eapply ledger_detach_payout; [| | |exact H].
    + apply kinv_sub_make_pending; assumption.
    + apply ledger_sub_make_pending; assumption.
    + discriminate.
  - apply rbind_ok in H as (s1 & Hr & H).
    destruct (sub_refund_spec _ _ _ _ Hk0 Hst0 Hl0 Hsb0 Hr) as (D1 & S1 & A1 & P1 & _).
    assert (Hk1 : kinv_sub s1) by (eapply kinv_sub_frame; [..|exact Hk0]; auto; apply sub_refund_keeps in Hr; keeps_solve).
    destruct (sub_cleanup_fields s1 sb) as (S2 & P2 & D2 & A2).
    pose proof (kinv_sub_cleanup s1 sb Hk1) as Hk2.
    match type of H with sub_delete_payout ?t _ = _ => set (s3 := t) in * end.
    assert (Hk3 : kinv_sub s3).
    { destruct Hk2 as [KA KB KC KD]. split; simpl; auto. apply map_Forall_delete. exact KA. }
    destruct (sub_delete_payout_fields _ _ _ Hk3 H) as (S4 & A4 & D4 & P4).
    apply (ledger_inv_change s0 s' (sb_id sb) (fun a d => - unsettled s0 a d sb)); [exact Hk0|exact Hl0|..].
    + intros i Hne. rewrite S4. unfold s3. simpl. rewrite lookup_delete_ne by congruence. rewrite S2, S1. reflexivity.
    + intros i a Hne. rewrite A4. unfold s3. simpl. rewrite A2 by exact Hne. rewrite A1. reflexivity.
    + intros i Hne. rewrite P4 by exact Hne. unfold s3. simpl. rewrite P2, P1. reflexivity.
    + intros a d. rewrite (damt_frame s3 s' D4). change (damt s3 a d) with (damt (sub_cleanup s1 sb) a d).
      rewrite (damt_frame s1 _ D2). rewrite D1. lia.
    + intros a d. rewrite S4. unfold s3. simpl. rewrite lookup_delete, Hsb0. simpl. lia.
    + intros sb' Hsb'. rewrite S4 in Hsb'. unfold s3 in Hsb'. simpl in Hsb'. rewrite lookup_delete in Hsb'. discriminate.
Qed.

Theorem ledger_sub_expire_one s e s' :
  kinv s -> idx_sub s -> ledger_inv s -> sub_expire_one s e = Ok s' -> ledger_inv s'.
Proof. intros Hk Hx Hl H. eapply ledger_sub_expire_one_gen; eauto. apply idx_lstruct; exact Hx. Qed.

(** * purchases *)

Lemma fresh_sub_id s : kinv_sub s ->
  subs s !! (sub_count s + 1) = None /\ (forall a, allocs s !! (sub_count s + 1, a) = None) /\
  payouts s !! (sub_count s + 1) = None.
Proof.
  intros [A B C D]. repeat split.
  - destruct (subs s !! (sub_count s + 1)) eqn:E; [|reflexivity]. destruct (A _ _ E) as (_ & ? & _). lia.
  - intros a. destruct (allocs s !! (sub_count s + 1, a)) eqn:E; [|reflexivity]. destruct (B _ _ E) as (_ & _ & ?). simpl in *. lia.
  - destruct (payouts s !! (sub_count s + 1)) eqn:E; [|reflexivity]. destruct (C _ _ E) as (_ & ?). lia.
Qed.

Theorem ledger_create_sub_for_node s acc nd g h dn s' id :
  kinv_sub s -> ledger_inv s -> 0 <= g -> 0 <= h -> (g = 0 /\ h <> 0) \/ (g <> 0 /\ h = 0) ->
  create_sub_for_node s acc nd g h dn = Ok (s', id) -> ledger_inv s'.
Proof.
  intros Hk Hl Hg0 Hh0 Hgh H. destruct (fresh_sub_id s Hk) as (Fs & Fa & Fp).
  unfold create_sub_for_node in H. destruct (get_node s nd) as [n|]; [|discriminate].
  apply rbind_ok in H as (u & _ & H).
  destruct Hgh as [[-> Hh]|[Hg ->]].
  - change (negb (0 =? 0)) with false in H. cbv beta iota in H. cbn [rbind] in H.
    replace (negb (h =? 0)) with true in H by (symmetry; apply negb_true_iff, Z.eqb_neq; lia).
    destruct (nd_hr_prices n !! dn) as [price|]; [|discriminate].
    apply rbind_ok in H as ([inact2 dep2] & Hx & H).
    apply rbind_ok in Hx as (amt & Hamt & Hx). apply int_mul_ok in Hamt.
    apply rbind_ok in Hx as (c & Hc & Hx). apply new_coin_ok in Hc as [-> Hamt0]. injection Hx as <- <-.
    apply rbind_ok in H as (s1 & Hs1 & H). apply rbind_ok in H as (s4 & Hs4 & H). injection H as <- <-.
    apply rbind_ok in Hs4 as (pr & Hpr & Hs4). apply int_quo_ok in Hpr as [_ ->].
    apply rbind_ok in Hs4 as (pc & Hpc & Hs4). apply new_coin_ok in Hpc as [-> Hpr0]. injection Hs4 as <-.
    cbn [fst snd] in *.
    pose proof (z_dep_add_damt _ _ _ _ Hs1) as D1. apply z_dep_add_keeps in Hs1. cbn [fst snd] in D1.
    match goal with |- ledger_inv ?t => set (sf := t) end.
    set (id := sub_count s + 1) in *.
    assert (Epr : Z.quot amt h * h = amt) by (rewrite Hamt, Z.quot_mul by exact Hh; reflexivity).
    destruct (subs sf !! id) as [sb|] eqn:Hsb; [|unfold sf in Hsb; simpl in Hsb; rewrite lookup_insert in Hsb; discriminate].
    assert (Esb : sb_id sb = id /\ sb_addr sb = acc /\ sb_kind sb = KNode nd 0 h (dn, amt)).
    { unfold sf in Hsb. simpl in Hsb. rewrite lookup_insert in Hsb. injection Hsb as <-. auto. }
    destruct Esb as (Eid & Ead & Ekd).
    destruct (payouts sf !! id) as [po|] eqn:Hpo; [|unfold sf in Hpo; simpl in Hpo; rewrite lookup_insert in Hpo; discriminate].
    assert (Epo : po_price po = (dn, Z.quot amt h) /\ po_hours po = h).
    { unfold sf in Hpo. simpl in Hpo. rewrite lookup_insert in Hpo. injection Hpo as <-. auto. }
    destruct Epo as (Ep1 & Ep2).
    apply (ledger_inv_change s sf id (fun a d => dlt acc dn amt a d)); [exact Hk|exact Hl|..].
    + intros i Hne. unfold sf. simpl. rewrite lookup_insert_ne by congruence. f_equal. keeps_solve.
    + intros i a Hne. unfold sf. simpl. f_equal. keeps_solve.
    + intros i Hne. unfold sf. simpl. rewrite lookup_insert_ne by congruence. f_equal. keeps_solve.
    + intros a d. change (damt sf a d) with (damt s1 a d). rewrite D1. reflexivity.
    + intros a d. rewrite Hsb. fold id. rewrite Fs. simpl.
      rewrite (unsettled_hourly sf a d sb nd 0 h (dn, amt) po Ekd Hh) by (rewrite Eid; exact Hpo).
      rewrite Ep1, Ep2, Ead. cbn [fst snd]. unfold dlt. repeat case_bool_decide; try lia; exfalso; naive_solver.
    + intros sb' Hsb'. rewrite Hsb in Hsb'. injection Hsb' as <-. split; [|split].
      * intros a d. rewrite (unsettled_hourly sf a d sb nd 0 h (dn, amt) po Ekd Hh) by (rewrite Eid; exact Hpo).
        rewrite Ep1, Ep2. cbn [fst snd]. case_bool_decide; lia.
      * intros n' g' h' dep' al Hkd' Hh'. rewrite Ekd in Hkd'. injection Hkd' as _ _ E _. congruence.
      * intros n' g' h' dep' po2 Hkd' Hh' Hp2. rewrite Hpo in Hp2. injection Hp2 as <-.
        rewrite Ekd in Hkd'. injection Hkd' as _ _ <- <-. rewrite Ep1, Ep2. cbn [fst snd]. split; [reflexivity|lia].
  - replace (negb (g =? 0)) with true in H by (symmetry; apply negb_true_iff, Z.eqb_neq; lia).
    change (negb (0 =? 0)) with false in H. cbv beta iota in H.
    destruct (nd_gb_prices n !! dn) as [price|]; [|discriminate].
    apply rbind_ok in H as ([inact1 dep1] & Hx & H).
    apply rbind_ok in Hx as (bytes & Hbytes & Hx).
    apply rbind_ok in Hx as (amt & Hamt & Hx).
    apply rbind_ok in Hx as (c & Hc & Hx). apply new_coin_ok in Hc as [-> Hamt0]. injection Hx as <- <-.
    cbn [rbind] in H.
    apply rbind_ok in H as (s1 & Hs1 & H). apply rbind_ok in H as (s3 & Hs3 & H). injection H as <- <-.
    apply rbind_ok in Hs3 as (gr & Hgr & Hs3). apply int_mul_ok in Hgr. injection Hs3 as <-.
    pose proof (z_dep_add_damt _ _ _ _ Hs1) as D1. apply z_dep_add_keeps in Hs1. cbn [fst snd] in D1.
    match goal with |- ledger_inv ?t => set (sf := t) end.
    set (id := sub_count s + 1) in *.
    destruct (subs sf !! id) as [sb|] eqn:Hsb; [|unfold sf in Hsb; simpl in Hsb; rewrite lookup_insert in Hsb; discriminate].
    assert (Esb : sb_id sb = id /\ sb_addr sb = acc /\ sb_kind sb = KNode nd g 0 (dn, amt)).
    { unfold sf in Hsb. simpl in Hsb. rewrite lookup_insert in Hsb. injection Hsb as <-. auto. }
    destruct Esb as (Eid & Ead & Ekd).
    destruct (allocs sf !! (id, acc)) as [al|] eqn:Hal; [|unfold sf in Hal; simpl in Hal; rewrite lookup_insert in Hal; discriminate].
    assert (Eal : al_granted al = GB * g /\ al_used al = 0).
    { unfold sf in Hal. simpl in Hal. rewrite lookup_insert in Hal. injection Hal as <-. auto. }
    destruct Eal as (Ea1 & Ea2).
    pose proof GB_pos as HGB.
    apply (ledger_inv_change s sf id (fun a d => dlt acc dn amt a d)); [exact Hk|exact Hl|..].
    + intros i Hne. unfold sf. simpl. rewrite lookup_insert_ne by congruence. f_equal. keeps_solve.
    + intros i a Hne. unfold sf. simpl. rewrite lookup_insert_ne by congruence. f_equal. keeps_solve.
    + intros i Hne. unfold sf. simpl. f_equal. keeps_solve.
    + intros a d. change (damt sf a d) with (damt s1 a d). rewrite D1. reflexivity.
    + intros a d. rewrite Hsb. fold id. rewrite Fs. simpl.
      rewrite (unsettled_metered sf a d sb nd g (dn, amt) al Ekd) by (rewrite Eid, Ead; exact Hal).
      rewrite Ea2, afb_0, Ead. cbn [fst snd]. unfold dlt. repeat case_bool_decide; try lia; exfalso; naive_solver.
    + intros sb' Hsb'. rewrite Hsb in Hsb'. injection Hsb' as <-. split; [|split].
      * intros a d. rewrite (unsettled_metered sf a d sb nd g (dn, amt) al Ekd) by (rewrite Eid, Ead; exact Hal).
        rewrite Ea2, afb_0. cbn [fst snd]. case_bool_decide; lia.
      * intros n' g' h' dep' al2 Hkd' Hh' Hal'. rewrite Ead, Hal in Hal'. injection Hal' as <-.
        rewrite Ekd in Hkd'. injection Hkd' as _ <- _ _. rewrite Ea1, Ea2. split; [reflexivity|nia].
      * intros n' g' h' dep' po2 Hkd' Hh'. rewrite Ekd in Hkd'. injection Hkd' as _ _ E _. congruence.
Qed.

Theorem ledger_create_sub_for_plan s acc pid dn s' id :
  kinv_sub s -> ledger_inv s -> create_sub_for_plan s acc pid dn = Ok (s', id) -> ledger_inv s'.
Proof.
  intros Hk Hl H. destruct (fresh_sub_id s Hk) as (Fs & Fa & Fp).
  unfold create_sub_for_plan in H. destruct (get_plan s pid) as [p|]; [|discriminate].
  apply rbind_ok in H as (u & _ & H). destruct (pl_prices p !! dn) as [price|]; [|discriminate].
  apply rbind_ok in H as (reward & _ & H). apply rbind_ok in H as (s1 & Hs1 & H).
  apply rbind_ok in H as (payment & _ & H). apply rbind_ok in H as (s2 & Hs2 & H).
  apply rbind_ok in H as (gr & _ & H). injection H as <- <-.
  apply z_send_keeps in Hs1, Hs2.
  match goal with |- ledger_inv ?t => set (sf := t) end.
  assert (Ec : sub_count s2 = sub_count s) by keeps_solve.
  set (id := sub_count s + 1) in *.
  assert (Hsb : exists sb, subs sf !! id = Some sb /\ sb_kind sb = KPlan pid dn).
  { unfold sf. simpl. rewrite Ec. fold id. rewrite lookup_insert. eauto. }
  destruct Hsb as (sb & Hsb & Ekd).
  apply (ledger_inv_change s sf id (fun a d => 0)); [exact Hk|exact Hl|..].
  - intros i Hne. unfold sf. simpl. rewrite Ec. fold id. rewrite lookup_insert_ne by congruence. f_equal. keeps_solve.
  - intros i a Hne. unfold sf. simpl. rewrite Ec. fold id. rewrite lookup_insert_ne by congruence. f_equal. keeps_solve.
  - intros i Hne. unfold sf. simpl. f_equal. keeps_solve.
  - intros a d. rewrite (damt_frame s sf); [lia|]. unfold sf. simpl. keeps_solve.
  - intros a d. rewrite Hsb, Fs. simpl. rewrite (unsettled_plan sf a d sb pid dn Ekd). lia.
  - intros sb' Hsb'. rewrite Hsb in Hsb'. injection Hsb' as <-. split; [|split].
    + intros a d. rewrite (unsettled_plan sf a d sb pid dn Ekd). lia.
    + intros n' g' h' dep' al Hkd'. rewrite Ekd in Hkd'. discriminate.
    + intros n' g' h' dep' po Hkd'. rewrite Ekd in Hkd'. discriminate.
Qed.

(** * sharing quota, cancelling *)

Lemma h_sub_allocate_fields s from id to b s' :
  h_sub_allocate s from id to b = Ok s' -> subs s' = subs s /\ payouts s' = payouts s /\ deposits s' = deposits s.
Proof. intros H. unfold h_sub_allocate in H. res_inv; repeat split; reflexivity. Qed.

Theorem ledger_h_sub_allocate s from id to b s' :
  kinv_sub s -> ledger_inv s -> h_sub_allocate s from id to b = Ok s' -> ledger_inv s'.
Proof.
  intros Hk Hl H. destruct (h_sub_allocate_fields _ _ _ _ _ _ H) as (Es & Ep & Ed).
  destruct (h_sub_allocate_spec _ _ _ _ _ _ H) as (sb & fal & Hsb & Hf & Hne & _ & _ & Ea). cbv zeta in Ea.
  assert (Ekd : exists p dn, sb_kind sb = KPlan p dn).
  { unfold h_sub_allocate in H. rewrite Hsb in H. apply rbind_ok in H as (u & Hu & _). apply ensure_ok in Hu.
    destruct (sb_kind sb); [discriminate|eauto]. }
  destruct Ekd as (p & dn & Ekd).
  apply (ledger_inv_change s s' id (fun a d => 0)); [exact Hk|exact Hl|..].
  - intros i Hi. rewrite Es. reflexivity.
  - intros i a Hi. rewrite Ea. rewrite !lookup_insert_ne by congruence. reflexivity.
  - intros i Hi. rewrite Ep. reflexivity.
  - intros a d. rewrite (damt_frame s s' Ed). lia.
  - intros a d. rewrite Es, Hsb. simpl. rewrite !(unsettled_plan _ a d sb p dn Ekd). lia.
  - intros sb' Hsb'. rewrite Es, Hsb in Hsb'. injection Hsb' as <-. split; [|split].
    + intros a d. rewrite (unsettled_plan s' a d sb p dn Ekd). lia.
    + intros n' g' h' dep' al Hkd'. rewrite Ekd in Hkd'. discriminate.
    + intros n' g' h' dep' po Hkd'. rewrite Ekd in Hkd'. discriminate.
Qed.

Theorem ledger_h_sub_cancel s from id s' :
  kinv_sub s -> ledger_inv s -> h_sub_cancel s from id = Ok s' -> ledger_inv s'.
Proof.
  intros Hk Hl H. unfold h_sub_cancel in H. destruct (subs s !! id) as [sb|] eqn:Hsb; [|discriminate].
  destruct (k_sub _ Hk _ _ Hsb) as (Esid & _).
  apply rbind_ok in H as (u1 & _ & H). apply rbind_ok in H as (u2 & _ & H).
  apply rbind_ok in H as (s2 & Hp & H). apply sub_pending_hook_keeps in Hp.
  assert (Hk2 : kinv_sub s2) by (eapply kinv_sub_frame; [..|exact Hk]; keeps_solve).
  assert (Hl2 : ledger_inv s2) by (eapply ledger_inv_frame; [..|exact Hl]; keeps_solve).
  assert (Hsb2 : subs s2 !! sb_id sb = Some sb) by (replace (subs s2) with (subs s) by (symmetry; keeps_solve); rewrite Esid; exact Hsb).
  eapply ledger_detach_payout; [| | |exact H].
  - apply kinv_sub_make_pending; assumption.
  - apply ledger_sub_make_pending; assumption.
  - discriminate.
Qed.

(** * transactions *)

Theorem ledger_handle s m s' :
  kinv s -> ledger_inv s -> validate_basic m = true -> handle s m = Ok s' -> ledger_inv s'.
Proof.
  intros Hi Hl Hv H. destruct m; simpl in H.
  all: try (eapply ledger_inv_keeps; [handler_keeps H; exact H|reflexivity|reflexivity|exact Hl]).
  - (* node_subscribe *)
    simpl in Hv. repeat rewrite andb_true_iff in Hv. destruct Hv as [[[[[[_ _] Hv1] Hv2] Hv3] Hv4] _].
    unfold h_node_subscribe in H. apply rbind_ok in H as (u1 & _ & H). apply rbind_ok in H as (u2 & _ & H).
    apply rbind_ok in H as ([s1 id] & Hc & H). injection H as <-.
    eapply ledger_inv_frame; [..|eapply ledger_create_sub_for_node; [apply Hi|exact Hl| | | |exact Hc]]; try reflexivity; lia.
  - (* plan_subscribe *)
    unfold h_plan_subscribe in H. apply rbind_ok in H as ([s1 id0] & Hc & H). injection H as <-.
    eapply ledger_inv_frame; [..|eapply ledger_create_sub_for_plan; [apply Hi|exact Hl|exact Hc]]; reflexivity.
  - eapply ledger_h_sub_cancel; [apply Hi|exact Hl|exact H].
  - eapply ledger_h_sub_allocate; [apply Hi|exact Hl|exact H].
Qed.

(** * the genesis state *)

Theorem ledger_init g : ledger_inv (init g).
Proof.
  assert (E : deposits (init g) = ∅ /\ subs (init g) = ∅).
  { unfold init. destruct (g_mint g) as [[[mx mn] rc] inf]. simpl.
    apply (fold_left_inv (fun x => deposits x = ∅ /\ subs x = ∅)); [|split; reflexivity].
    intros x [b [d v]] Hx. exact Hx. }
  destruct E as (E1 & E2). apply ledger_inv_intro.
  - intros a d. unfold damt, dep_of, ledger_total. rewrite E1, E2, lookup_empty, msum_empty. apply amount_of_empty.
  - intros id sb Hsb. rewrite E2, lookup_empty in Hsb. discriminate.
Qed.

Lemma ledger_idx_sub_init g : idx_sub (init g).
Proof.
  assert (E : subs (init g) = ∅ /\ allocs (init g) = ∅ /\ payouts (init g) = ∅ /\ sub_q (init g) = ∅ /\
              sub_acc (init g) = ∅ /\ sub_node (init g) = ∅ /\ sub_plan (init g) = ∅ /\ pay_q (init g) = ∅ /\
              pay_acc (init g) = ∅ /\ pay_node (init g) = ∅ /\ pay_acc_node (init g) = ∅).
  { unfold init. destruct (g_mint g) as [[[mx mn] rc] inf]. simpl.
    apply (fold_left_inv (fun x => subs x = ∅ /\ allocs x = ∅ /\ payouts x = ∅ /\ sub_q x = ∅ /\
              sub_acc x = ∅ /\ sub_node x = ∅ /\ sub_plan x = ∅ /\ pay_q x = ∅ /\
              pay_acc x = ∅ /\ pay_node x = ∅ /\ pay_acc_node x = ∅)); [|repeat split; reflexivity].
    intros x [b [d v]] Hx. exact Hx. }
  destruct E as (E1 & E2 & E3 & E4 & E5 & E6 & E7 & E8 & E9 & E10 & E11).
  split; intros; rewrite ?E1, ?E2, ?E3, ?E4, ?E5, ?E6, ?E7, ?E8, ?E9, ?E10, ?E11 in *;
    rewrite ?lookup_empty in *; try discriminate;
    try (split; [intros Hin; apply elem_of_empty in Hin; contradiction|]);
    try (intros (? & ? & ? & ? & Hf & _); rewrite lookup_empty in Hf; discriminate);
    try (intros (? & ? & Hf & _); rewrite lookup_empty in Hf; discriminate);
    try (intros (? & Hf & _); rewrite lookup_empty in Hf; discriminate).
  all: naive_solver.
Qed.

(** * block hooks *)

Lemma rfold_inv_queue {A S} (P : S -> Prop) (Q : S -> A -> Prop) (f : S -> A -> res S) l s s' :
  NoDup l ->
  (forall s x s', P s -> Q s x -> f s x = Ok s' -> P s' /\ forall y, y <> x -> Q s y -> Q s' y) ->
  P s -> (forall x, x ∈ l -> Q s x) -> rfold f l s = Ok s' -> P s'.
Proof.
  intros Hnd Hf. revert s. induction Hnd as [|x l Hx Hnd IH]; simpl; intros s Hs Hq H.
  - injection H as <-. exact Hs.
  - apply rbind_ok in H as (s1 & H1 & H2).
    destruct (Hf s x s1 Hs (Hq x ltac:(left)) H1) as [Hs1 Hq1].
    eapply IH; [exact Hs1| |exact H2]. intros y Hy. apply Hq1; [intros ->; contradiction|]. apply Hq. right. exact Hy.
Qed.

(* a payout step only touches the queue entries of its own payout *)
Lemma payout_step_queue s e s' :
  kinv_sub s -> idx_sub s -> e ∈ pay_q s -> payout_step s e = Ok s' ->
  forall y, y <> e -> y ∈ pay_q s -> y ∈ pay_q s'.
Proof.
  intros Hk Hx He H y Hne Hy.
  destruct (payout_step_effect _ _ _ H) as (po & po' & Hp & _ & _ & _ & _ & _ & _ & Hq).
  destruct (k_po _ Hk _ _ Hp) as (Eid & _). destruct e as [t id]. simpl in *.
  apply (ix_payq _ Hx) in He as (po2 & sb & Hp2 & Et & _). rewrite Hp in Hp2. injection Hp2 as <-.
  apply Hq. rewrite Eid, Et. set_solver.
Qed.

Lemma kinv_payout_step_full s e s' : kinv s -> payout_step s e = Ok s' -> kinv s'.
Proof.
  intros Hi H. pose proof (payout_step_keeps _ _ _ H) as Hk. kinv_frame Hk Hi. intros _.
  eapply kinv_payout_step; [apply Hi|exact H].
Qed.

Lemma quota_payout_step s e s' : quota_inv s -> payout_step s e = Ok s' -> quota_inv s'.
Proof. intros Hq H. destruct (payout_step_allocs _ _ _ H) as (E1 & E2 & E3 & E4). eapply quota_inv_frame; eauto. Qed.

(* the conjunction carried through the block hooks *)
Definition linv (s : state) : Prop := kinv s /\ quota_inv s /\ idx_sub s /\ ledger_inv s.

Lemma linv_keeps T s s' :
  keeps T s s' -> touched GDep T = false -> touched GSub T = false -> touched GSess T = false ->
  touched GPl T = false -> touched GPv T = false -> touched GNode T = false -> linv s -> linv s'.
Proof.
  intros Hk T1 T2 T3 T4 T5 T6 (A & B & C & D). split; [|split; [|split]].
  - eapply kinv_other; eauto.
  - eapply quota_inv_keeps; eauto.
  - eapply ledger_idx_keeps; eauto.
  - eapply ledger_inv_keeps; eauto.
Qed.

(* Preservation of the index/structure invariant [idx_sub] by the three iteration bodies of the
   block hooks is proved separately (IndexSub.v); the block- and step-level theorems take it as
   Section hypotheses, with every invariant available at that point as a premise. *)
Section with_idx.
  Hypothesis idx_payout_step : forall s e s',
    kinv s -> quota_inv s -> idx_sub s -> ledger_inv s -> e ∈ pay_q s -> payout_step s e = Ok s' -> idx_sub s'.
  Hypothesis idx_session_expire_one : forall s e s',
    kinv s -> quota_inv s -> idx_sub s -> ledger_inv s -> session_expire_one s e = Ok s' -> idx_sub s'.
  Hypothesis idx_sub_expire_one : forall s e s',
    kinv s -> quota_inv s -> idx_sub s -> ledger_inv s -> sub_expire_one s e = Ok s' -> idx_sub s'.

  Theorem linv_sub_begin_block s s' : linv s -> sub_begin_block s = Ok s' -> linv s'.
  Proof.
    intros Hs H. unfold sub_begin_block in H.
    eapply (rfold_inv_queue linv (fun y e => e ∈ pay_q y)); [apply NoDup_due_z| |exact Hs| |exact H].
    - intros a e b (A & B & C & D) He Hstep. split.
      + split; [|split; [|split]].
        * eapply kinv_payout_step_full; eauto.
        * eapply quota_payout_step; eauto.
        * eapply idx_payout_step; eauto.
        * eapply ledger_payout_step; eauto.
      + eapply payout_step_queue; eauto. apply A.
    - intros e He. apply elem_of_due_z in He. apply He.
  Qed.

  Theorem linv_session_end_block s s' : linv s -> session_end_block s = Ok s' -> linv s'.
  Proof.
    intros Hs H. unfold session_end_block in H. eapply (rfold_inv linv); [|exact Hs|exact H].
    intros a e b (A & B & C & D) Hstep. split; [|split; [|split]].
    - eapply kinv_session_expire_one; eauto.
    - eapply quota_session_expire_one; eauto.
    - eapply idx_session_expire_one; eauto.
    - eapply ledger_session_expire_one; eauto.
  Qed.

  Theorem linv_sub_end_block s s' : linv s -> sub_end_block s = Ok s' -> linv s'.
  Proof.
    intros Hs H. unfold sub_end_block in H. eapply (rfold_inv linv); [|exact Hs|exact H].
    intros a e b (A & B & C & D) Hstep. split; [|split; [|split]].
    - eapply kinv_sub_expire_one; eauto.
    - eapply quota_sub_expire_one; eauto.
    - eapply idx_sub_expire_one; eauto.
    - eapply ledger_sub_expire_one; eauto.
  Qed.

  Theorem linv_begin_block s s' : linv s -> begin_block s = Ok s' -> linv s'.
  Proof.
    intros Hs H. unfold begin_block in H. apply rbind_ok in H as (s1 & Hm & H).
    apply mint_begin_block_keeps in Hm. eapply linv_sub_begin_block; [|exact H].
    eapply linv_keeps; [exact Hm|reflexivity..|exact Hs].
  Qed.

  Theorem linv_end_block s s' : linv s -> end_block s = Ok s' -> linv s'.
  Proof.
    intros Hs H. unfold end_block in H. apply rbind_ok in H as (s1 & H1 & H). apply rbind_ok in H as (s2 & H2 & H3).
    eapply linv_sub_end_block; [|exact H3]. eapply linv_session_end_block; [|exact H2].
    destruct Hs as (A & B & C & D). pose proof (kinv_node_end_block _ _ A H1) as A1.
    apply node_end_block_keeps in H1. split; [exact A1|split; [|split]].
    - eapply quota_inv_keeps; eauto.
    - eapply ledger_idx_keeps; eauto.
    - eapply ledger_inv_keeps; eauto.
  Qed.

  (* the escrow ledger invariant is inductive (given the index invariant and the quota invariant) *)
  Theorem ledger_step s o s' :
    kinv s -> quota_inv s -> idx_sub s -> ledger_inv s -> step s o = OOk s' -> ledger_inv s'.
  Proof.
    intros A B C D. unfold step. destruct o.
    - destruct (begin_block _) as [x| |] eqn:H; try discriminate. intros [= <-].
      apply linv_begin_block in H; [apply H|].
      eapply (linv_keeps [GNow] s); [keeps_solve|reflexivity..|]. exact (conj A (conj B (conj C D))).
    - unfold run_tx. destruct (validate_basic m) eqn:Hv; [|discriminate].
      destruct (handle _ m) as [x| |] eqn:H; try discriminate. intros [= <-].
      eapply ledger_handle; [apply kinv_clear; exact A| |exact Hv|exact H].
      eapply (ledger_inv_frame s); [..|exact D]; reflexivity.
    - destruct (forallb pchange_valid _); [|discriminate]. intros [= <-]. apply (fold_left_inv ledger_inv).
      + intros x c Hx. pose proof (apply_pchange_keeps x c). eapply ledger_inv_keeps; eauto.
      + eapply (ledger_inv_frame s); [..|exact D]; reflexivity.
    - destruct (end_block _) as [se| |] eqn:H; try discriminate. intros [= <-].
      apply linv_end_block in H.
      + eapply (ledger_inv_frame se); [..|apply H]; reflexivity.
      + eapply (linv_keeps [] s); [keeps_solve|reflexivity..|]. exact (conj A (conj B (conj C D))).
  Qed.

  Corollary ledger_begin_block s s' : linv s -> begin_block s = Ok s' -> ledger_inv s'.
  Proof. intros Hs H. apply (linv_begin_block s s' Hs H). Qed.
  Corollary ledger_end_block s s' : linv s -> end_block s = Ok s' -> ledger_inv s'.
  Proof. intros Hs H. apply (linv_end_block s s' Hs H). Qed.

  (* lifted to histories: needs the step-level preservation of [idx_sub] as well *)
  Hypothesis idx_step : forall s o s',
    kinv s -> quota_inv s -> idx_sub s -> ledger_inv s -> step s o = OOk s' -> idx_sub s'.

  Theorem linv_step s o s' : linv s -> step s o = OOk s' -> linv s'.
  Proof.
    intros (A & B & C & D) H. split; [|split; [|split]].
    - eapply kinv_step; eauto.
    - eapply quota_step; eauto.
    - eapply idx_step; eauto.
    - eapply ledger_step; eauto.
  Qed.

  Theorem linv_run ops : forall s i s', linv s -> run_from s ops i = RunOk s' -> linv s'.
  Proof.
    induction ops as [|o ops IH]; simpl; intros s i s' Hs H.
    - injection H as <-. exact Hs.
    - destruct (step s o) as [s1| |] eqn:E; try discriminate.
      + eapply IH; [eapply linv_step; eauto|exact H].
      + eapply IH; [|exact H]. eapply (linv_keeps [] s); [unfold clear_events; keeps_solve|reflexivity..|exact Hs].
  Qed.

  (* the ledger equation holds at every point of every history from genesis *)
  Theorem ledger_run g ops s' : run (init g) ops = RunOk s' -> ledger_inv s'.
  Proof.
    intros H. eapply (linv_run ops (init g) 0%nat s'); [|exact H].
    split; [apply kinv_init|split; [apply quota_inv_init|split; [apply ledger_idx_sub_init|apply ledger_init]]].
  Qed.
End with_idx.
