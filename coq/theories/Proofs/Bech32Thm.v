(* bech32 (Base/Bech32.v): 8<->5 bit regrouping round trip, text round trip for every
   address length 1..255, role separation.  The checksum is in Proofs/Bech32Checksum.v. *)
From Hub Require Import Base.Prelude Base.Bytes Base.Bech32 Gen.KeysGen Proofs.BytesThm Proofs.Bech32Checksum.
From Coq Require Import ZifyN ZifyNat ZifyBool.
Local Open Scope N_scope.

(* ------------------------------------------------------------------------- *)
(* bit lists                                                                   *)
(* ------------------------------------------------------------------------- *)
Definition bstep (acc : N) (b : bool) : N := 2 * acc + (if b then 1 else 0).

Lemma bits_val_fold bs : bits_val bs = fold_left bstep bs 0.
Proof. reflexivity. Qed.

Lemma bits_of_length w v : length (bits_of w v) = w.
Proof. induction w as [|w IH]; cbn; [reflexivity|]. rewrite IH. reflexivity. Qed.

Lemma fold_bstep_acc bs : forall acc,
  fold_left bstep bs acc = acc * 2 ^ N.of_nat (length bs) + fold_left bstep bs 0.
Proof.
  induction bs as [|b bs IH]; intros acc.
  - cbn. lia.
  - cbn [fold_left length]. rewrite IH, (IH (bstep 0 b)). rewrite Nat2N.inj_succ, N.pow_succ_r'.
    unfold bstep. lia.
Qed.

Lemma bits_val_bound bs : bits_val bs < 2 ^ N.of_nat (length bs).
Proof.
  rewrite bits_val_fold. induction bs as [|b bs IH].
  - cbn. lia.
  - cbn [fold_left length]. rewrite fold_bstep_acc, Nat2N.inj_succ, N.pow_succ_r'.
    change (bstep 0 b) with (2 * 0 + (if b then 1 else 0)).
    set (p := 2 ^ N.of_nat (length bs)) in *. destruct b; lia.
Qed.

Lemma b2n_testbit v n : (if N.testbit v n then 1 else 0) = (v / 2 ^ n) mod 2.
Proof. rewrite <- N.testbit_spec'. destruct (N.testbit v n); reflexivity. Qed.

(* the w low bits of v, most significant first, read back as a number *)
Lemma bits_val_bits_of w v : bits_val (bits_of w v) = v mod 2 ^ N.of_nat w.
Proof.
  rewrite bits_val_fold. induction w as [|w IH].
  - cbn. rewrite N.mod_1_r. reflexivity.
  - cbn [bits_of fold_left]. rewrite fold_bstep_acc, bits_of_length, IH.
    unfold bstep. rewrite N.mul_0_r, N.add_0_l, b2n_testbit.
    rewrite Nat2N.inj_succ, N.pow_succ_r'.
    rewrite (N.mul_comm 2), N.mod_mul_r by (try apply N.pow_nonzero; discriminate). lia.
Qed.

Lemma bits_of_mod w : forall v, bits_of w (v mod 2 ^ N.of_nat w) = bits_of w v.
Proof.
  assert (G : forall k v, (k <= w)%nat -> bits_of k (v mod 2 ^ N.of_nat w) = bits_of k v).
  { induction k as [|k IH]; intros v Hk; [reflexivity|].
    cbn [bits_of]. rewrite N.mod_pow2_bits_low by lia. rewrite IH by lia. reflexivity. }
  intros v. apply G. lia.
Qed.

Lemma bits_of_bits_val bs : bits_of (length bs) (bits_val bs) = bs.
Proof.
  induction bs as [|b bs IH]; [reflexivity|].
  cbn [length bits_of]. rewrite bits_val_fold. cbn [fold_left]. rewrite fold_bstep_acc.
  assert (Hb := bits_val_bound bs). rewrite bits_val_fold in Hb.
  set (x := fold_left bstep bs 0) in *. set (n := N.of_nat (length bs)) in *.
  assert (Hp : 2 ^ n <> 0) by (apply N.pow_nonzero; discriminate).
  f_equal.
  - assert (Hq : (bstep 0 b * 2 ^ n + x) / 2 ^ n = bstep 0 b).
    { rewrite N.div_add_l by exact Hp. rewrite N.div_small by exact Hb. lia. }
    assert (Ht := b2n_testbit (bstep 0 b * 2 ^ n + x) n). rewrite Hq in Ht.
    unfold bstep in *. destruct b, (N.testbit _ n); cbn in Ht; try reflexivity; discriminate.
  - rewrite <- bits_of_mod. fold n.
    rewrite N.add_comm, N.mod_add by exact Hp. rewrite N.mod_small by exact Hb.
    unfold x. rewrite <- bits_val_fold. exact IH.
Qed.

(* ---- take_bits / group_bits ---- *)
Lemma take_bits_app w : forall b1 tl acc, length b1 = w ->
  take_bits w (b1 ++ tl) acc = Some (fold_left bstep b1 acc, tl).
Proof.
  induction w as [|w IH]; intros [|b b1] tl acc Hl; cbn in Hl; try discriminate; [reflexivity|].
  cbn [app take_bits fold_left]. apply IH. congruence.
Qed.

Lemma take_bits_short w : forall bs acc, (length bs < w)%nat -> take_bits w bs acc = None.
Proof.
  induction w as [|w IH]; intros bs acc Hl; [lia|].
  destruct bs as [|b bs]; [reflexivity|]. cbn [take_bits]. apply IH. cbn in Hl. lia.
Qed.

Lemma take_bits_some w : forall bs acc v tl, take_bits w bs acc = Some (v, tl) ->
  exists b1, bs = b1 ++ tl /\ length b1 = w /\ v = fold_left bstep b1 acc.
Proof.
  induction w as [|w IH]; intros bs acc v tl H.
  - cbn in H. injection H as <- <-. exists []. repeat split.
  - destruct bs as [|b bs]; [discriminate|]. cbn [take_bits] in H.
    apply IH in H. destruct H as (b1 & -> & Hl & ->). exists (b :: b1). repeat split. cbn. congruence.
Qed.

(* grouping the concatenated w-bit expansions of small values gives the values back *)
Lemma group_bits_flat w : (0 < w)%nat -> forall vs fuel rest,
  Forall (fun v => v < 2 ^ N.of_nat w) vs -> (length rest < w)%nat -> (length vs <= fuel)%nat ->
  group_bits fuel w (flat_map (bits_of w) vs ++ rest) = (vs, rest).
Proof.
  intros Hw. induction vs as [|v vs IH]; intros fuel rest Hvs Hr Hf.
  - cbn [flat_map app]. destruct fuel; [reflexivity|]. cbn [group_bits].
    rewrite take_bits_short by exact Hr. reflexivity.
  - destruct fuel as [|fuel]; [cbn in Hf; lia|].
    inversion Hvs as [|? ? Hv Hvs']; subst.
    cbn [flat_map group_bits]. rewrite <- app_assoc.
    rewrite take_bits_app by apply bits_of_length.
    rewrite <- bits_val_fold, bits_val_bits_of, N.mod_small by exact Hv.
    rewrite IH; [reflexivity|exact Hvs'|exact Hr|cbn in Hf; lia].
Qed.

(* any bit list splits into full groups and a short rest *)
Lemma group_bits_split w : (0 < w)%nat -> forall fuel bs gs rest, (length bs <= fuel)%nat ->
  group_bits fuel w bs = (gs, rest) ->
  flat_map (bits_of w) gs ++ rest = bs /\ (length rest < w)%nat /\ Forall (fun v => v < 2 ^ N.of_nat w) gs.
Proof.
  intros Hw. induction fuel as [|fuel IH]; intros bs gs rest Hf H.
  - cbn in H. injection H as <- <-. destruct bs; [|cbn in Hf; lia]. repeat split; [cbn; lia|constructor].
  - cbn [group_bits] in H. destruct (take_bits w bs 0) as [[v tl]|] eqn:E.
    + apply take_bits_some in E. destruct E as (b1 & -> & Hl & ->).
      destruct (group_bits fuel w tl) as [gs' r'] eqn:E2. injection H as <- <-.
      apply IH in E2; [|rewrite app_length in Hf; lia].
      destruct E2 as (E2 & Hr & Hg). repeat split; [|exact Hr|].
      * cbn [flat_map]. rewrite <- app_assoc, E2. f_equal.
        rewrite <- bits_val_fold. rewrite <- Hl at 1. apply bits_of_bits_val.
      * constructor; [|exact Hg]. rewrite <- bits_val_fold, <- Hl. apply bits_val_bound.
    + injection H as <- <-. repeat split; [|constructor].
      destruct (Nat.lt_ge_cases (length bs) w) as [Hlt|Hge]; [exact Hlt|exfalso].
      rewrite <- (firstn_skipn w bs) in E.
      rewrite take_bits_app in E by (apply firstn_length_le; exact Hge). discriminate.
Qed.

Lemma flat_bits_length w vs : length (flat_map (bits_of w) vs) = (w * length vs)%nat.
Proof.
  induction vs as [|v vs IH]; cbn [flat_map length]; [lia|].
  rewrite app_length, bits_of_length, IH. lia.
Qed.

Lemma bits_val_zeros k : bits_val (repeat false k) = 0.
Proof.
  rewrite bits_val_fold. induction k as [|k IH]; [reflexivity|]. cbn [repeat fold_left]. exact IH.
Qed.

(* ConvertBits(data, 8, 5, true) followed by ConvertBits(_, 5, 8, false) *)
Theorem convert_bits_roundtrip (a : bytes) : bytes_ok a = true ->
  exists c, convert_bits 8 5 true a = Some c /\ Forall (fun v => v < 32) c /\
            (5 * length c <= 8 * length a + 4)%nat /\ convert_bits 5 8 false c = Some a.
Proof.
  intros Ha.
  assert (Ha' : Forall (fun v => v < 2 ^ N.of_nat 8) a).
  { unfold bytes_ok in Ha. rewrite forallb_forall in Ha. apply Coq.Lists.List.Forall_forall. intros x Hx.
    apply Ha in Hx. unfold byte_ok in Hx. apply N.ltb_lt in Hx. exact Hx. }
  unfold convert_bits at 1.
  set (bs := flat_map (bits_of 8) a).
  destruct (group_bits (length bs) 5 bs) as [gs rest] eqn:E.
  apply group_bits_split in E; [|lia|lia]. destruct E as (Ebs & Hr & Hg).
  assert (Hlen : (5 * length gs + length rest = 8 * length a)%nat).
  { rewrite <- (flat_bits_length 5 gs), <- (flat_bits_length 8 a). fold bs. rewrite <- Ebs, app_length. reflexivity. }
  (* decoding a 5-bit list whose bits are bs followed by p < 5 zero bits *)
  assert (Hdec : forall c p, flat_map (bits_of 5) c = bs ++ repeat false p -> (p <= 4)%nat ->
                  convert_bits 5 8 false c = Some a).
  { intros c p Hc Hp. unfold convert_bits. rewrite Hc. unfold bs.
    rewrite group_bits_flat; [|lia|exact Ha'|rewrite repeat_length; lia|].
    - destruct (repeat false p) as [|b l] eqn:Er; [reflexivity|]. rewrite <- Er.
      rewrite repeat_length, bits_val_zeros.
      destruct (Nat.ltb_spec 4 p); [lia|]. reflexivity.
    - rewrite app_length, flat_bits_length. lia. }
  destruct rest as [|b rest'].
  - exists gs. rewrite app_nil_r in Ebs. repeat split.
    + exact Hg.
    + cbn [length] in Hlen. lia.
    + apply (Hdec gs 0%nat); [cbn [repeat]; rewrite app_nil_r; exact Ebs|lia].
  - set (rest := b :: rest') in *.
    set (p := (5 - length rest)%nat).
    assert (Hr1 : (1 <= length rest)%nat) by (cbn; lia).
    assert (Hp : (length (rest ++ repeat false p) = 5)%nat) by (rewrite app_length, repeat_length; lia).
    exists (gs ++ [bits_val (rest ++ repeat false p)]). repeat split.
    + apply Forall_app. split; [exact Hg|]. constructor; [|constructor].
      change 32 with (2 ^ N.of_nat 5). rewrite <- Hp. apply bits_val_bound.
    + rewrite app_length. cbn [length]. lia.
    + apply (Hdec _ p); [|lia].
      rewrite flat_map_app. cbn [flat_map]. rewrite app_nil_r.
      pose proof (bits_of_bits_val (rest ++ repeat false p)) as Hb. rewrite Hp in Hb.
      rewrite Hb, app_assoc, Ebs. reflexivity.
Qed.

(* ------------------------------------------------------------------------- *)
(* characters                                                                  *)
(* ------------------------------------------------------------------------- *)
Definition cgood (c : N) : bool := printable c && negb (is_upper c).

Definition char_good (v : N) : bool :=
  let c := char_of v in
  cgood c && negb (c =? 49) && match char_index c with Some v' => v' =? v | None => false end.

Lemma chars_good : forallb char_good (map N.of_nat (seq 0 32)) = true.
Proof. vm_compute. reflexivity. Qed.

Lemma char_good_lt v : v < 32 -> char_good v = true.
Proof.
  intros Hv. assert (H := chars_good). rewrite forallb_forall in H. apply H.
  rewrite <- (N2Nat.id v). apply in_map. apply in_seq. lia.
Qed.

Lemma char_props v : v < 32 ->
  cgood (char_of v) = true /\ (char_of v =? 49) = false /\ char_index (char_of v) = Some v.
Proof.
  intros Hv. assert (H := char_good_lt v Hv). unfold char_good in H.
  apply andb_true_iff in H as [H H3]. apply andb_true_iff in H as [H1 H2].
  repeat split; [exact H1|apply negb_true_iff, H2|].
  destruct (char_index (char_of v)) as [v'|]; [|discriminate]. apply N.eqb_eq in H3. congruence.
Qed.

Lemma to_values_chars vs : Forall (fun v => v < 32) vs -> to_values (map char_of vs) = Some vs.
Proof.
  induction 1 as [|v vs Hv _ IH]; [reflexivity|].
  cbn [map to_values]. destruct (char_props v Hv) as (_ & _ & ->). rewrite IH. reflexivity.
Qed.

Lemma cgood_to_lower c : cgood c = true -> to_lower c = c.
Proof.
  unfold cgood, to_lower, is_upper. intros H. apply andb_true_iff in H as [_ H].
  apply negb_true_iff in H. rewrite H. reflexivity.
Qed.

Lemma cgood_not_space c : cgood c = true -> is_space c = false.
Proof. unfold cgood, printable, is_space, is_upper. lia. Qed.

Lemma map_to_lower_good s : Forall (fun c => cgood c = true) s -> map to_lower s = s.
Proof. induction 1 as [|c s Hc _ IH]; [reflexivity|]. cbn. rewrite cgood_to_lower, IH by exact Hc. reflexivity. Qed.

Lemma normalize_good s : Forall (fun c => cgood c = true) s -> normalize s = Some s.
Proof.
  intros H. unfold normalize.
  assert (Hp : forallb printable s = true).
  { apply forallb_forall. intros c Hc. rewrite Coq.Lists.List.Forall_forall in H. apply H in Hc.
    unfold cgood in Hc. apply andb_true_iff in Hc. apply Hc. }
  assert (Hu : existsb is_upper s = false).
  { induction H as [|c s Hc _ IH]; [reflexivity|]. cbn. unfold cgood in Hc.
    apply andb_true_iff in Hc as [_ Hc]. apply negb_true_iff in Hc. rewrite Hc. apply IH.
    cbn in Hp. apply andb_true_iff in Hp. apply Hp. }
  rewrite Hp, Hu, andb_false_r. reflexivity.
Qed.

(* strings.LastIndexByte *)
Lemma last_index_absent c q : Forall (fun x => (x =? c) = false) q -> forall i acc, last_index c q i acc = acc.
Proof. induction 1 as [|x q Hx _ IH]; intros i acc; [reflexivity|]. cbn. rewrite Hx. apply IH. Qed.

Lemma last_index_sep c p q : Forall (fun x => (x =? c) = false) q ->
  forall i acc, last_index c (p ++ c :: q) i acc = Some (i + length p)%nat.
Proof.
  intros Hq. induction p as [|x p IH]; intros i acc.
  - cbn. rewrite N.eqb_refl, last_index_absent by exact Hq. f_equal. lia.
  - cbn [app last_index length]. rewrite IH. f_equal. lia.
Qed.

Lemma bytes_eqb_refl a : bytes_eqb a a = true.
Proof. induction a as [|x a IH]; [reflexivity|]. cbn. rewrite N.eqb_refl. exact IH. Qed.

Lemma checksum_props hrp data : length (checksum hrp data) = 6%nat /\ Forall (fun v => v < 32) (checksum hrp data).
Proof.
  unfold checksum. split; [reflexivity|].
  repeat constructor; change 31 with (N.ones 5); rewrite N.land_ones; apply N.mod_lt; discriminate.
Qed.

(* ------------------------------------------------------------------------- *)
(* Encode then Decode                                                          *)
(* ------------------------------------------------------------------------- *)
Definition hrp_good (h : bytes) : bool :=
  negb (length h =? 0)%nat && (length h <=? 83)%nat && forallb cgood h.

Theorem bech32_roundtrip hrp data limit :
  hrp_good hrp = true -> Forall (fun v => v < 32) data ->
  (length hrp + 1 + length data + 6 <= limit)%nat ->
  exists s, bech32_encode hrp data = Some s /\ bech32_decode s limit = Some (hrp, data) /\
            Forall (fun c => cgood c = true) s /\ s <> [].
Proof.
  intros Hh Hd Hlim. unfold hrp_good in Hh.
  apply andb_true_iff in Hh as [Hh Hh3]. apply andb_true_iff in Hh as [Hh1 Hh2].
  apply negb_true_iff, Nat.eqb_neq in Hh1.
  assert (Hhg : Forall (fun c => cgood c = true) hrp).
  { apply Coq.Lists.List.Forall_forall. rewrite forallb_forall in Hh3. exact Hh3. }
  destruct (checksum_props hrp data) as [Hcl Hcs].
  set (cs := checksum hrp data) in *.
  set (D := data ++ cs).
  assert (HD : Forall (fun v => v < 32) D) by (apply Forall_app; split; assumption).
  set (s := hrp ++ 49 :: map char_of D).
  assert (Hdata : Forall (fun c => cgood c = true) (map char_of D)).
  { apply Forall_map. eapply Forall_impl; [exact HD|]. intros v Hv. apply (char_props v Hv). }
  assert (Hs : Forall (fun c => cgood c = true) s).
  { apply Forall_app. split; [exact Hhg|]. constructor; [reflexivity|exact Hdata]. }
  assert (Hlen : length s = (length hrp + 1 + length data + 6)%nat).
  { unfold s, D. rewrite app_length. cbn [length]. rewrite map_length, app_length, Hcl. lia. }
  exists s. repeat split.
  - unfold bech32_encode. rewrite map_to_lower_good by exact Hhg.
    assert (Hf : forallb (fun v => v <? 32) data = true).
    { apply forallb_forall. intros v Hv. rewrite Coq.Lists.List.Forall_forall in Hd. apply N.ltb_lt, Hd, Hv. }
    rewrite Hf. fold cs. unfold s, D. rewrite map_app. reflexivity.
  - unfold bech32_decode.
    destruct (Nat.ltb_spec limit (length s)); [lia|].
    destruct (Nat.ltb_spec (length s) 8); [lia|].
    rewrite normalize_good by exact Hs.
    assert (Hno : Forall (fun x => (x =? 49) = false) (map char_of D)).
    { apply Forall_map. eapply Forall_impl; [exact HD|]. intros v Hv. apply (char_props v Hv). }
    unfold s at 1. rewrite last_index_sep by exact Hno. cbn [Nat.add].
    destruct (Nat.ltb_spec (length hrp) 1); [lia|].
    destruct (Nat.ltb_spec (length s) (length hrp + 7)); [lia|]. cbn [orb].
    assert (E1 : firstn (length hrp) s = hrp).
    { unfold s. rewrite firstn_app, Nat.sub_diag, firstn_all. cbn. apply app_nil_r. }
    assert (E2 : skipn (length hrp + 1) s = map char_of D).
    { unfold s. rewrite skipn_app, skipn_all2 by lia.
      replace (length hrp + 1 - length hrp)%nat with 1%nat by lia. reflexivity. }
    rewrite E1, E2, to_values_chars by exact HD.
    assert (E3 : (length D - 6)%nat = length data) by (unfold D; rewrite app_length, Hcl; lia).
    rewrite E3. unfold D. rewrite firstn_app, Nat.sub_diag, firstn_all, skipn_app, Nat.sub_diag, skipn_all.
    cbn [firstn skipn app]. rewrite app_nil_r. unfold cs. rewrite checksum_verifies. reflexivity.
  - exact Hs.
  - unfold s. destruct hrp; discriminate.
Qed.

(* ------------------------------------------------------------------------- *)
(* addresses                                                                   *)
(* ------------------------------------------------------------------------- *)
Lemma hrps_good : forall r, hrp_good (hrp_of r) = true.
Proof. intros []; vm_compute; reflexivity. Qed.

Lemma hrps_distinct : forall r r', r <> r' -> bytes_eqb (hrp_of r) (hrp_of r') = false.
Proof. intros [] [] H; try congruence; vm_compute; reflexivity. Qed.

Lemma hrp_short r : (length (hrp_of r) <= 83)%nat.
Proof.
  assert (H := hrps_good r). unfold hrp_good in H. apply andb_true_iff in H as [H _].
  apply andb_true_iff in H as [_ H]. apply Nat.leb_le, H.
Qed.

Lemma trim_left_good s : Forall (fun c => is_space c = false) s -> trim_left s = s.
Proof. intros H. destruct H as [|c s Hc _]; [reflexivity|]. cbn. rewrite Hc. reflexivity. Qed.

Lemma trim_space_good s : Forall (fun c => cgood c = true) s -> trim_space s = s.
Proof.
  intros H.
  assert (Hn : Forall (fun c => is_space c = false) s).
  { eapply Forall_impl; [exact H|]. intros c. apply cgood_not_space. }
  unfold trim_space. rewrite (trim_left_good s Hn).
  rewrite trim_left_good; [apply rev_involutive|]. apply Forall_rev, Hn.
Qed.

Definition addr_bytes_ok (a : bytes) : Prop := (1 <= length a <= 255)%nat /\ bytes_ok a = true.

(* the text of an address, and what each role's parser makes of it *)
Lemma addr_text_parse r a : addr_bytes_ok a ->
  exists s, addr_to_text hrp_of r a = Some s /\
    forall r', addr_from_text hrp_of r' s = if bytes_eqb (hrp_of r) (hrp_of r') then Some a else None.
Proof.
  intros [Hl Hb].
  destruct (convert_bits_roundtrip a Hb) as (c & Hc & Hc32 & Hcl & Hback).
  destruct (bech32_roundtrip (hrp_of r) c 1023 (hrps_good r) Hc32) as (s & Henc & Hdec & Hs & Hne).
  { assert (H := hrp_short r). lia. }
  exists s. split.
  - unfold addr_to_text. destruct a as [|x a]; [cbn in Hl; lia|].
    unfold convert_and_encode. rewrite Hc. exact Henc.
  - intros r'. unfold addr_from_text. rewrite trim_space_good by exact Hs.
    destruct s as [|x s'] eqn:Es; [congruence|]. rewrite <- Es in *.
    replace (match r' with RoleAcc => s | _ => s end) with s by (destruct r'; reflexivity).
    unfold get_from_bech32. rewrite Es. rewrite <- Es.
    unfold decode_and_convert. rewrite Hdec, Hback.
    destruct (bytes_eqb (hrp_of r) (hrp_of r')); [|reflexivity].
    unfold verify_address_format.
    destruct (Nat.eqb_spec (length a) 0); [lia|]. destruct (Nat.leb_spec (length a) 255); [reflexivity|lia].
Qed.

(* account, node and provider addresses convert to text and back without change, for
   every length from 1 to 255 bytes *)
Theorem addr_roundtrip r a : addr_bytes_ok a ->
  exists s, addr_to_text hrp_of r a = Some s /\ addr_from_text hrp_of r s = Some a.
Proof.
  intros Ha. destruct (addr_text_parse r a Ha) as (s & Hs & Hp). exists s. split; [exact Hs|].
  rewrite Hp, bytes_eqb_refl. reflexivity.
Qed.

(* text written for one role is rejected when read as another role *)
Theorem role_separation r r' a s : r <> r' -> addr_bytes_ok a ->
  addr_to_text hrp_of r a = Some s -> addr_from_text hrp_of r' s = None.
Proof.
  intros Hr Ha Hs. destruct (addr_text_parse r a Ha) as (s' & Hs' & Hp).
  rewrite Hs in Hs'. injection Hs' as <-. rewrite Hp, hrps_distinct by exact Hr. reflexivity.
Qed.

(* the text determines the bytes: two addresses of one role with the same text are equal *)
Corollary addr_text_injective r a b s : addr_bytes_ok a -> addr_bytes_ok b ->
  addr_to_text hrp_of r a = Some s -> addr_to_text hrp_of r b = Some s -> a = b.
Proof.
  intros Ha Hb Hsa Hsb.
  destruct (addr_roundtrip r a Ha) as (s1 & E1 & P1). destruct (addr_roundtrip r b Hb) as (s2 & E2 & P2).
  rewrite Hsa in E1. rewrite Hsb in E2. injection E1 as <-. injection E2 as <-. congruence.
Qed.
