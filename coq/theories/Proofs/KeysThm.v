(* Store keys (C17): every key constructor of Gen/KeysGen.v (generated from
   x/*/types/keys.go) is injective, no record key is a prefix of another record key of
   the same KV store, listing prefixes isolate their owner, decoders invert the
   constructors, deadline-queue keys sort by (time, then identifier / address).

   Method: every constructor is  family prefix ++ concatenation of self-delimiting
   fields  (length-prefixed address, 8-byte integer, 29-byte time, 32-byte hash);
   [key_bytes_spec] ties the generated definitions to that format by unfolding, and
   the family prefixes (with the child-store prefixes) are pairwise incomparable by
   computation on the generated constants. *)
From Hub Require Import Base.Prelude Base.Bytes Base.Time Base.Bech32 Gen.KeysGen.
From Hub Require Import Proofs.BytesThm Proofs.Calendar Proofs.TimeThm.
From Coq Require Import ZifyN ZifyNat ZifyBool.

(* ------------------------------------------------------------------------- *)
(* inventory: the theorems below cover exactly what the translator found       *)
(* ------------------------------------------------------------------------- *)
Lemma inventory_prefixes : gen_prefixes =
  ["deposit_DepositKeyPrefix"; "mint_InflationKeyPrefix"; "node_NodeKeyPrefix"; "node_ActiveNodeKeyPrefix";
   "node_InactiveNodeKeyPrefix"; "node_NodeForInactiveAtKeyPrefix"; "node_NodeForPlanKeyPrefix"; "plan_CountKey";
   "plan_PlanKeyPrefix"; "plan_ActivePlanKeyPrefix"; "plan_InactivePlanKeyPrefix"; "plan_PlanForProviderKeyPrefix";
   "provider_ProviderKeyPrefix"; "provider_ActiveProviderKeyPrefix"; "provider_InactiveProviderKeyPrefix";
   "session_CountKey"; "session_SessionKeyPrefix"; "session_SessionForInactiveAtKeyPrefix";
   "session_SessionForAccountKeyPrefix"; "session_SessionForNodeKeyPrefix"; "session_SessionForSubscriptionKeyPrefix";
   "session_SessionForAllocationKeyPrefix"; "subscription_CountKey"; "subscription_SubscriptionKeyPrefix";
   "subscription_SubscriptionForInactiveAtKeyPrefix"; "subscription_SubscriptionForAccountKeyPrefix";
   "subscription_SubscriptionForNodeKeyPrefix"; "subscription_SubscriptionForPlanKeyPrefix";
   "subscription_AllocationKeyPrefix"; "subscription_PayoutKeyPrefix"; "subscription_PayoutForNextAtKeyPrefix";
   "subscription_PayoutForAccountKeyPrefix"; "subscription_PayoutForNodeKeyPrefix";
   "subscription_PayoutForAccountByNodeKeyPrefix"; "swap_SwapKeyPrefix"]%string.
Proof. reflexivity. Qed.

Lemma inventory_constructors : gen_constructors =
  ["deposit_DepositKey"; "mint_InflationKey"; "node_ActiveNodeKey"; "node_InactiveNodeKey";
   "node_GetNodeForPlanKeyPrefix"; "node_NodeForPlanKey"; "node_GetNodeForInactiveAtKeyPrefix";
   "node_NodeForInactiveAtKey"; "plan_ActivePlanKey"; "plan_InactivePlanKey"; "plan_GetPlanForProviderKeyPrefix";
   "plan_PlanForProviderKey"; "provider_ActiveProviderKey"; "provider_InactiveProviderKey"; "session_SessionKey";
   "session_GetSessionForAccountKeyPrefix"; "session_SessionForAccountKey"; "session_GetSessionForNodeKeyPrefix";
   "session_SessionForNodeKey"; "session_GetSessionForSubscriptionKeyPrefix"; "session_SessionForSubscriptionKey";
   "session_GetSessionForAllocationKeyPrefix"; "session_SessionForAllocationKey";
   "session_GetSessionForInactiveAtKeyPrefix"; "session_SessionForInactiveAtKey"; "subscription_SubscriptionKey";
   "subscription_GetSubscriptionForAccountKeyPrefix"; "subscription_SubscriptionForAccountKey";
   "subscription_GetSubscriptionForNodeKeyPrefix"; "subscription_SubscriptionForNodeKey";
   "subscription_GetSubscriptionForPlanKeyPrefix"; "subscription_SubscriptionForPlanKey";
   "subscription_GetSubscriptionForInactiveAtKeyPrefix"; "subscription_SubscriptionForInactiveAtKey";
   "subscription_GetAllocationForSubscriptionKeyPrefix"; "subscription_AllocationKey"; "subscription_PayoutKey";
   "subscription_GetPayoutForNextAtKeyPrefix"; "subscription_PayoutForNextAtKey";
   "subscription_GetPayoutForAccountKeyPrefix"; "subscription_PayoutForAccountKey";
   "subscription_GetPayoutForNodeKeyPrefix"; "subscription_PayoutForNodeKey";
   "subscription_GetPayoutForAccountByNodeKeyPrefix"; "subscription_PayoutForAccountByNodeKey"; "swap_SwapKey"]%string.
Proof. reflexivity. Qed.

Lemma inventory_decoders : gen_decoders =
  ["node_AddressFromNodeForPlanKey"; "node_AddressFromNodeForInactiveAtKey"; "plan_IDFromPlanForProviderKey";
   "session_IDFromSessionForAccountKey"; "session_IDFromSessionForNodeKey"; "session_IDFromSessionForSubscriptionKey";
   "session_IDFromSessionForAllocationKey"; "session_IDFromSessionForInactiveAtKey";
   "subscription_AccAddrFromSubscriptionForAccountKey"; "subscription_IDFromSubscriptionForAccountKey";
   "subscription_IDFromSubscriptionForNodeKey"; "subscription_IDFromSubscriptionForPlanKey";
   "subscription_IDFromSubscriptionForInactiveAtKey"; "subscription_IDFromPayoutForAccountKey";
   "subscription_IDFromPayoutForNodeKey"; "subscription_IDFromPayoutForAccountByNodeKey";
   "subscription_IDFromPayoutForNextAtKey"]%string.
Proof. reflexivity. Qed.

Lemma inventory_stores : gen_stores =
  ["deposit"; "mint"; "node"; "plan"; "provider"; "session"; "subscription"; "swap"]%string.
Proof. reflexivity. Qed.

(* ------------------------------------------------------------------------- *)
(* fields                                                                      *)
(* ------------------------------------------------------------------------- *)
Inductive field := FAddr (a : bytes) | FU64 (n : N) | FTime (t : Z) | FHash (h : bytes).
Inductive kind := KAddr | KU64 | KTime | KHash.

Definition kind_of (f : field) : kind :=
  match f with FAddr _ => KAddr | FU64 _ => KU64 | FTime _ => KTime | FHash _ => KHash end.

Definition enc_field (f : field) : bytes :=
  match f with
  | FAddr a => len_prefix a
  | FU64 n => u64be n
  | FTime t => fmt_time t
  | FHash h => h
  end.

(* the input domain of C17 *)
Definition addr_ok (a : bytes) : Prop := (1 <= length a <= 255)%nat.
Definition u64_ok (n : N) : Prop := (n < U64_BOUND)%N.
Definition hash_ok (h : bytes) : Prop := length h = swap_EthereumHashLength.

Definition field_ok (f : field) : Prop :=
  match f with
  | FAddr a => addr_ok a
  | FU64 n => u64_ok n
  | FTime t => time_ok t = true
  | FHash h => hash_ok h
  end.

Fixpoint enc_fields (fs : list field) : bytes :=
  match fs with
  | [] => []
  | f :: fs' => enc_field f ++ enc_fields fs'
  end.

Lemma enc_fields_app fs gs : enc_fields (fs ++ gs) = enc_fields fs ++ enc_fields gs.
Proof. induction fs as [|f fs IH]; cbn; [reflexivity|]. rewrite IH, app_assoc. reflexivity. Qed.

Lemma addr_ok_nonempty a : addr_ok a -> a <> [].
Proof. unfold addr_ok. destruct a; cbn; [lia|discriminate]. Qed.

(* every field encoding is self-delimiting among fields of its kind *)
Lemma enc_field_delim f1 f2 r1 r2 : field_ok f1 -> field_ok f2 -> kind_of f1 = kind_of f2 ->
  enc_field f1 ++ r1 = enc_field f2 ++ r2 -> f1 = f2 /\ r1 = r2.
Proof.
  destruct f1 as [a1|n1|t1|h1], f2 as [a2|n2|t2|h2]; cbn [enc_field kind_of field_ok];
    intros H1 H2 Hk H; try discriminate.
  - apply len_prefix_delim in H; try (apply addr_ok_nonempty; assumption).
    destruct H as [-> ->]. split; reflexivity.
  - apply app_inj_1 in H; [|rewrite !u64be_length; reflexivity].
    destruct H as [H ->]. apply u64be_inj in H; try assumption. subst. split; reflexivity.
  - apply app_inj_1 in H; [|rewrite !fmt_time_length; reflexivity].
    destruct H as [H ->]. apply fmt_time_inj in H; try assumption. subst. split; reflexivity.
  - apply app_inj_1 in H; [|unfold hash_ok in *; congruence].
    destruct H as [-> ->]. split; reflexivity.
Qed.

Lemma enc_fields_delim fs1 : forall fs2 r1 r2,
  Forall field_ok fs1 -> Forall field_ok fs2 -> map kind_of fs1 = map kind_of fs2 ->
  enc_fields fs1 ++ r1 = enc_fields fs2 ++ r2 -> fs1 = fs2 /\ r1 = r2.
Proof.
  induction fs1 as [|f1 fs1 IH]; intros [|f2 fs2] r1 r2 H1 H2 Hk H; cbn in Hk; try discriminate.
  - split; [reflexivity|exact H].
  - injection Hk as Hk1 Hk2. inversion H1; inversion H2; subst.
    cbn in H. rewrite <- !app_assoc in H.
    apply enc_field_delim in H; try assumption. destruct H as [-> H].
    apply IH in H; try assumption. destruct H as [-> ->]. split; reflexivity.
Qed.

(* ------------------------------------------------------------------------- *)
(* the record keys of the chain                                                *)
(* ------------------------------------------------------------------------- *)
(* one constructor per kind of stored record / index entry, with its components *)
Inductive rkey :=
| RDeposit (a : bytes)
| RActiveProvider (a : bytes) | RInactiveProvider (a : bytes)
| RActiveNode (a : bytes) | RInactiveNode (a : bytes)
| RNodeForInactiveAt (t : Z) (a : bytes) | RNodeForPlan (plan : N) (a : bytes)
| RPlanCount | RActivePlan (id : N) | RInactivePlan (id : N) | RPlanForProvider (a : bytes) (id : N)
| RSubCount | RSubscription (id : N) | RSubForInactiveAt (t : Z) (id : N)
| RSubForAccount (a : bytes) (id : N) | RSubForNode (a : bytes) (id : N) | RSubForPlan (plan id : N)
| RAllocation (id : N) (a : bytes)
| RPayout (id : N) | RPayoutForNextAt (t : Z) (id : N)
| RPayoutForAccount (a : bytes) (id : N) | RPayoutForNode (a : bytes) (id : N)
| RPayoutForAccountByNode (acc node : bytes) (id : N)
| RSessCount | RSession (id : N) | RSessForInactiveAt (t : Z) (id : N)
| RSessForAccount (a : bytes) (id : N) | RSessForNode (a : bytes) (id : N)
| RSessForSubscription (sub id : N) | RSessForAllocation (sub : N) (a : bytes) (id : N)
| RSwap (h : bytes)
| RInflation (t : Z).

(* the key under which the record is stored (relative to its module's store):
   the generated constructor functions *)
Definition key_bytes (k : rkey) : bytes :=
  match k with
  | RDeposit a => deposit_DepositKey a
  | RActiveProvider a => provider_ActiveProviderKey a
  | RInactiveProvider a => provider_InactiveProviderKey a
  | RActiveNode a => node_ActiveNodeKey a
  | RInactiveNode a => node_InactiveNodeKey a
  | RNodeForInactiveAt t a => node_NodeForInactiveAtKey t a
  | RNodeForPlan p a => node_NodeForPlanKey p a
  | RPlanCount => plan_CountKey
  | RActivePlan id => plan_ActivePlanKey id
  | RInactivePlan id => plan_InactivePlanKey id
  | RPlanForProvider a id => plan_PlanForProviderKey a id
  | RSubCount => subscription_CountKey
  | RSubscription id => subscription_SubscriptionKey id
  | RSubForInactiveAt t id => subscription_SubscriptionForInactiveAtKey t id
  | RSubForAccount a id => subscription_SubscriptionForAccountKey a id
  | RSubForNode a id => subscription_SubscriptionForNodeKey a id
  | RSubForPlan p id => subscription_SubscriptionForPlanKey p id
  | RAllocation id a => subscription_AllocationKey id a
  | RPayout id => subscription_PayoutKey id
  | RPayoutForNextAt t id => subscription_PayoutForNextAtKey t id
  | RPayoutForAccount a id => subscription_PayoutForAccountKey a id
  | RPayoutForNode a id => subscription_PayoutForNodeKey a id
  | RPayoutForAccountByNode acc node id => subscription_PayoutForAccountByNodeKey acc node id
  | RSessCount => session_CountKey
  | RSession id => session_SessionKey id
  | RSessForInactiveAt t id => session_SessionForInactiveAtKey t id
  | RSessForAccount a id => session_SessionForAccountKey a id
  | RSessForNode a id => session_SessionForNodeKey a id
  | RSessForSubscription s id => session_SessionForSubscriptionKey s id
  | RSessForAllocation s a id => session_SessionForAllocationKey s a id
  | RSwap h => swap_SwapKey h
  | RInflation t => mint_InflationKey t
  end.

Inductive fam :=
| FDeposit | FActiveProvider | FInactiveProvider | FActiveNode | FInactiveNode | FNodeForInactiveAt | FNodeForPlan
| FPlanCount | FActivePlan | FInactivePlan | FPlanForProvider
| FSubCount | FSubscription | FSubForInactiveAt | FSubForAccount | FSubForNode | FSubForPlan | FAllocation
| FPayout | FPayoutForNextAt | FPayoutForAccount | FPayoutForNode | FPayoutForAccountByNode
| FSessCount | FSession | FSessForInactiveAt | FSessForAccount | FSessForNode | FSessForSubscription
| FSessForAllocation | FSwap | FInflation.

Definition all_fams : list fam :=
  [FDeposit; FActiveProvider; FInactiveProvider; FActiveNode; FInactiveNode; FNodeForInactiveAt; FNodeForPlan;
   FPlanCount; FActivePlan; FInactivePlan; FPlanForProvider;
   FSubCount; FSubscription; FSubForInactiveAt; FSubForAccount; FSubForNode; FSubForPlan; FAllocation;
   FPayout; FPayoutForNextAt; FPayoutForAccount; FPayoutForNode; FPayoutForAccountByNode;
   FSessCount; FSession; FSessForInactiveAt; FSessForAccount; FSessForNode; FSessForSubscription;
   FSessForAllocation; FSwap; FInflation].

Lemma all_fams_complete f : In f all_fams.
Proof. destruct f; cbn; repeat (try (left; reflexivity); right). Qed.

Definition fam_idx (f : fam) : N :=
  match f with
  | FDeposit => 0 | FActiveProvider => 1 | FInactiveProvider => 2 | FActiveNode => 3 | FInactiveNode => 4
  | FNodeForInactiveAt => 5 | FNodeForPlan => 6 | FPlanCount => 7 | FActivePlan => 8 | FInactivePlan => 9
  | FPlanForProvider => 10 | FSubCount => 11 | FSubscription => 12 | FSubForInactiveAt => 13
  | FSubForAccount => 14 | FSubForNode => 15 | FSubForPlan => 16 | FAllocation => 17 | FPayout => 18
  | FPayoutForNextAt => 19 | FPayoutForAccount => 20 | FPayoutForNode => 21 | FPayoutForAccountByNode => 22
  | FSessCount => 23 | FSession => 24 | FSessForInactiveAt => 25 | FSessForAccount => 26 | FSessForNode => 27
  | FSessForSubscription => 28 | FSessForAllocation => 29 | FSwap => 30 | FInflation => 31
  end%N.

Definition fam_of_idx (i : N) : fam := nth (N.to_nat i) all_fams FDeposit.

Lemma fam_of_idx_idx f : fam_of_idx (fam_idx f) = f.
Proof. destruct f; reflexivity. Qed.

Lemma fam_idx_inj f g : fam_idx f = fam_idx g -> f = g.
Proof. intros H. rewrite <- (fam_of_idx_idx f), <- (fam_of_idx_idx g), H. reflexivity. Qed.

Definition rk_fam (k : rkey) : fam :=
  match k with
  | RDeposit _ => FDeposit | RActiveProvider _ => FActiveProvider | RInactiveProvider _ => FInactiveProvider
  | RActiveNode _ => FActiveNode | RInactiveNode _ => FInactiveNode | RNodeForInactiveAt _ _ => FNodeForInactiveAt
  | RNodeForPlan _ _ => FNodeForPlan | RPlanCount => FPlanCount | RActivePlan _ => FActivePlan
  | RInactivePlan _ => FInactivePlan | RPlanForProvider _ _ => FPlanForProvider | RSubCount => FSubCount
  | RSubscription _ => FSubscription | RSubForInactiveAt _ _ => FSubForInactiveAt | RSubForAccount _ _ => FSubForAccount
  | RSubForNode _ _ => FSubForNode | RSubForPlan _ _ => FSubForPlan | RAllocation _ _ => FAllocation
  | RPayout _ => FPayout | RPayoutForNextAt _ _ => FPayoutForNextAt | RPayoutForAccount _ _ => FPayoutForAccount
  | RPayoutForNode _ _ => FPayoutForNode | RPayoutForAccountByNode _ _ _ => FPayoutForAccountByNode
  | RSessCount => FSessCount | RSession _ => FSession | RSessForInactiveAt _ _ => FSessForInactiveAt
  | RSessForAccount _ _ => FSessForAccount | RSessForNode _ _ => FSessForNode
  | RSessForSubscription _ _ => FSessForSubscription | RSessForAllocation _ _ _ => FSessForAllocation
  | RSwap _ => FSwap | RInflation _ => FInflation
  end.

Definition rk_fields (k : rkey) : list field :=
  match k with
  | RDeposit a | RActiveProvider a | RInactiveProvider a | RActiveNode a | RInactiveNode a => [FAddr a]
  | RNodeForInactiveAt t a => [FTime t; FAddr a]
  | RNodeForPlan p a => [FU64 p; FAddr a]
  | RPlanCount | RSubCount | RSessCount => []
  | RActivePlan id | RInactivePlan id | RSubscription id | RPayout id | RSession id => [FU64 id]
  | RPlanForProvider a id | RSubForAccount a id | RSubForNode a id | RPayoutForAccount a id | RPayoutForNode a id
  | RSessForAccount a id | RSessForNode a id => [FAddr a; FU64 id]
  | RSubForInactiveAt t id | RPayoutForNextAt t id | RSessForInactiveAt t id => [FTime t; FU64 id]
  | RSubForPlan p id | RSessForSubscription p id => [FU64 p; FU64 id]
  | RAllocation id a => [FU64 id; FAddr a]
  | RPayoutForAccountByNode acc node id => [FAddr acc; FAddr node; FU64 id]
  | RSessForAllocation s a id => [FU64 s; FAddr a; FU64 id]
  | RSwap h => [FHash h]
  | RInflation t => [FTime t]
  end.

(* all components in the C17 domain: addresses of 1..255 bytes, 64-bit identifiers,
   times in years 1..9999, 32-byte hashes *)
Definition rkey_ok (k : rkey) : Prop := Forall field_ok (rk_fields k).

(* the constant each family starts with: the generated prefix constants *)
Definition fam_prefix (f : fam) : bytes :=
  match f with
  | FDeposit => deposit_DepositKeyPrefix
  | FActiveProvider => provider_ActiveProviderKeyPrefix | FInactiveProvider => provider_InactiveProviderKeyPrefix
  | FActiveNode => node_ActiveNodeKeyPrefix | FInactiveNode => node_InactiveNodeKeyPrefix
  | FNodeForInactiveAt => node_NodeForInactiveAtKeyPrefix | FNodeForPlan => node_NodeForPlanKeyPrefix
  | FPlanCount => plan_CountKey | FActivePlan => plan_ActivePlanKeyPrefix | FInactivePlan => plan_InactivePlanKeyPrefix
  | FPlanForProvider => plan_PlanForProviderKeyPrefix
  | FSubCount => subscription_CountKey | FSubscription => subscription_SubscriptionKeyPrefix
  | FSubForInactiveAt => subscription_SubscriptionForInactiveAtKeyPrefix
  | FSubForAccount => subscription_SubscriptionForAccountKeyPrefix
  | FSubForNode => subscription_SubscriptionForNodeKeyPrefix
  | FSubForPlan => subscription_SubscriptionForPlanKeyPrefix
  | FAllocation => subscription_AllocationKeyPrefix
  | FPayout => subscription_PayoutKeyPrefix | FPayoutForNextAt => subscription_PayoutForNextAtKeyPrefix
  | FPayoutForAccount => subscription_PayoutForAccountKeyPrefix
  | FPayoutForNode => subscription_PayoutForNodeKeyPrefix
  | FPayoutForAccountByNode => subscription_PayoutForAccountByNodeKeyPrefix
  | FSessCount => session_CountKey | FSession => session_SessionKeyPrefix
  | FSessForInactiveAt => session_SessionForInactiveAtKeyPrefix
  | FSessForAccount => session_SessionForAccountKeyPrefix | FSessForNode => session_SessionForNodeKeyPrefix
  | FSessForSubscription => session_SessionForSubscriptionKeyPrefix
  | FSessForAllocation => session_SessionForAllocationKeyPrefix
  | FSwap => swap_SwapKeyPrefix
  | FInflation => mint_InflationKeyPrefix
  end.

Definition fam_kinds (f : fam) : list kind :=
  match f with
  | FDeposit | FActiveProvider | FInactiveProvider | FActiveNode | FInactiveNode => [KAddr]
  | FNodeForInactiveAt => [KTime; KAddr]
  | FNodeForPlan | FAllocation => [KU64; KAddr]
  | FPlanCount | FSubCount | FSessCount => []
  | FActivePlan | FInactivePlan | FSubscription | FPayout | FSession => [KU64]
  | FPlanForProvider | FSubForAccount | FSubForNode | FPayoutForAccount | FPayoutForNode
  | FSessForAccount | FSessForNode => [KAddr; KU64]
  | FSubForInactiveAt | FPayoutForNextAt | FSessForInactiveAt => [KTime; KU64]
  | FSubForPlan | FSessForSubscription => [KU64; KU64]
  | FPayoutForAccountByNode => [KAddr; KAddr; KU64]
  | FSessForAllocation => [KU64; KAddr; KU64]
  | FSwap => [KHash]
  | FInflation => [KTime]
  end.

(* modules (each has its own key space: a child of the vpn store, or a store of its own) *)
Inductive module := MDeposit | MProvider | MNode | MPlan | MSubscription | MSession | MSwap | MMint.
Inductive kvstore := KVVpn | KVSwap | KVMint.

Definition fam_module (f : fam) : module :=
  match f with
  | FDeposit => MDeposit
  | FActiveProvider | FInactiveProvider => MProvider
  | FActiveNode | FInactiveNode | FNodeForInactiveAt | FNodeForPlan => MNode
  | FPlanCount | FActivePlan | FInactivePlan | FPlanForProvider => MPlan
  | FSubCount | FSubscription | FSubForInactiveAt | FSubForAccount | FSubForNode | FSubForPlan | FAllocation
  | FPayout | FPayoutForNextAt | FPayoutForAccount | FPayoutForNode | FPayoutForAccountByNode => MSubscription
  | FSessCount | FSession | FSessForInactiveAt | FSessForAccount | FSessForNode | FSessForSubscription
  | FSessForAllocation => MSession
  | FSwap => MSwap
  | FInflation => MMint
  end.

(* x/<module>/keeper Store(): prefix.NewStore(ctx.KVStore(key), "<module>/") for the six
   sub-keepers of vpn; swap and custommint use their own store unprefixed *)
Definition module_prefix (m : module) : bytes :=
  match m with
  | MDeposit => deposit_StorePrefix | MProvider => provider_StorePrefix | MNode => node_StorePrefix
  | MPlan => plan_StorePrefix | MSubscription => subscription_StorePrefix | MSession => session_StorePrefix
  | MSwap => swap_StorePrefix | MMint => mint_StorePrefix
  end.

Definition module_kv (m : module) : kvstore :=
  match m with
  | MSwap => KVSwap
  | MMint => KVMint
  | _ => KVVpn
  end.

Definition rk_module (k : rkey) : module := fam_module (rk_fam k).
Definition rk_kv (k : rkey) : kvstore := module_kv (rk_module k).

(* the key in the underlying KV store *)
Definition full_key (k : rkey) : bytes := module_prefix (rk_module k) ++ key_bytes k.
Definition full_prefix (f : fam) : bytes := module_prefix (fam_module f) ++ fam_prefix f.

(* ---- the generated constructors have the field format ---- *)
Lemma key_bytes_spec k : key_bytes k = fam_prefix (rk_fam k) ++ enc_fields (rk_fields k).
Proof.
  destruct k; cbn [key_bytes rk_fam rk_fields fam_prefix enc_fields enc_field];
    autounfold with keysgen; rewrite <- ?app_assoc, ?app_nil_r; reflexivity.
Qed.

Lemma rk_kinds k : map kind_of (rk_fields k) = fam_kinds (rk_fam k).
Proof. destruct k; reflexivity. Qed.

Lemma full_key_spec k : full_key k = full_prefix (rk_fam k) ++ enc_fields (rk_fields k).
Proof. unfold full_key, full_prefix, rk_module. rewrite key_bytes_spec, app_assoc. reflexivity. Qed.

(* a record is determined by its family and components *)
Definition rk_build (f : fam) (fs : list field) : option rkey :=
  match f, fs with
  | FDeposit, [FAddr a] => Some (RDeposit a)
  | FActiveProvider, [FAddr a] => Some (RActiveProvider a)
  | FInactiveProvider, [FAddr a] => Some (RInactiveProvider a)
  | FActiveNode, [FAddr a] => Some (RActiveNode a)
  | FInactiveNode, [FAddr a] => Some (RInactiveNode a)
  | FNodeForInactiveAt, [FTime t; FAddr a] => Some (RNodeForInactiveAt t a)
  | FNodeForPlan, [FU64 p; FAddr a] => Some (RNodeForPlan p a)
  | FPlanCount, [] => Some RPlanCount
  | FActivePlan, [FU64 id] => Some (RActivePlan id)
  | FInactivePlan, [FU64 id] => Some (RInactivePlan id)
  | FPlanForProvider, [FAddr a; FU64 id] => Some (RPlanForProvider a id)
  | FSubCount, [] => Some RSubCount
  | FSubscription, [FU64 id] => Some (RSubscription id)
  | FSubForInactiveAt, [FTime t; FU64 id] => Some (RSubForInactiveAt t id)
  | FSubForAccount, [FAddr a; FU64 id] => Some (RSubForAccount a id)
  | FSubForNode, [FAddr a; FU64 id] => Some (RSubForNode a id)
  | FSubForPlan, [FU64 p; FU64 id] => Some (RSubForPlan p id)
  | FAllocation, [FU64 id; FAddr a] => Some (RAllocation id a)
  | FPayout, [FU64 id] => Some (RPayout id)
  | FPayoutForNextAt, [FTime t; FU64 id] => Some (RPayoutForNextAt t id)
  | FPayoutForAccount, [FAddr a; FU64 id] => Some (RPayoutForAccount a id)
  | FPayoutForNode, [FAddr a; FU64 id] => Some (RPayoutForNode a id)
  | FPayoutForAccountByNode, [FAddr acc; FAddr node; FU64 id] => Some (RPayoutForAccountByNode acc node id)
  | FSessCount, [] => Some RSessCount
  | FSession, [FU64 id] => Some (RSession id)
  | FSessForInactiveAt, [FTime t; FU64 id] => Some (RSessForInactiveAt t id)
  | FSessForAccount, [FAddr a; FU64 id] => Some (RSessForAccount a id)
  | FSessForNode, [FAddr a; FU64 id] => Some (RSessForNode a id)
  | FSessForSubscription, [FU64 s; FU64 id] => Some (RSessForSubscription s id)
  | FSessForAllocation, [FU64 s; FAddr a; FU64 id] => Some (RSessForAllocation s a id)
  | FSwap, [FHash h] => Some (RSwap h)
  | FInflation, [FTime t] => Some (RInflation t)
  | _, _ => None
  end.

Lemma rk_build_spec k : rk_build (rk_fam k) (rk_fields k) = Some k.
Proof. destruct k; reflexivity. Qed.

Lemma rk_determined k1 k2 : rk_fam k1 = rk_fam k2 -> rk_fields k1 = rk_fields k2 -> k1 = k2.
Proof.
  intros Hf Hs. assert (H := rk_build_spec k1). rewrite Hf, Hs, rk_build_spec in H. congruence.
Qed.

(* ---- family prefixes are pairwise incomparable inside one KV store ---- *)
Definition kv_idx (s : kvstore) : N := match s with KVVpn => 0 | KVSwap => 1 | KVMint => 2 end%N.
Definition fam_kv (f : fam) : kvstore := module_kv (fam_module f).

Definition comparable (p q : bytes) : bool := is_prefixb p q || is_prefixb q p.

Definition fams_disjoint : bool :=
  forallb (fun f1 => forallb (fun f2 =>
    (fam_idx f1 =? fam_idx f2)%N || negb (kv_idx (fam_kv f1) =? kv_idx (fam_kv f2))%N
    || negb (comparable (full_prefix f1) (full_prefix f2))) all_fams) all_fams.

Lemma fams_disjoint_ok : fams_disjoint = true.
Proof. vm_compute. reflexivity. Qed.

Lemma fams_disjoint_use f1 f2 : fam_kv f1 = fam_kv f2 ->
  comparable (full_prefix f1) (full_prefix f2) = true -> f1 = f2.
Proof.
  intros Hkv Hc. assert (H := fams_disjoint_ok). unfold fams_disjoint in H.
  rewrite forallb_forall in H. specialize (H f1 (all_fams_complete f1)).
  rewrite forallb_forall in H. specialize (H f2 (all_fams_complete f2)).
  rewrite Hkv, Hc, N.eqb_refl in H. cbn [negb] in H. rewrite !orb_false_r in H.
  apply N.eqb_eq in H. apply fam_idx_inj, H.
Qed.

(* ------------------------------------------------------------------------- *)
(* injectivity and prefix-freedom                                              *)
(* ------------------------------------------------------------------------- *)
(* in the underlying KV store: the key of a record is never equal to, or a prefix of,
   the key of a different record (same family, other family of the module, or another
   module sharing the store) *)
Theorem key_not_prefix_store k1 k2 : rkey_ok k1 -> rkey_ok k2 -> rk_kv k1 = rk_kv k2 ->
  full_key k1 `prefix_of` full_key k2 -> k1 = k2.
Proof.
  intros H1 H2 Hkv Hp. rewrite !full_key_spec in Hp.
  assert (Hf : rk_fam k1 = rk_fam k2).
  { apply fams_disjoint_use; [exact Hkv|]. apply (prefix_heads_comparable _ _ _ _ Hp). }
  rewrite Hf in Hp. apply (proj1 (prefix_app_cancel _ _ _)) in Hp. destruct Hp as [r Hr].
  rewrite <- (app_nil_r (enc_fields (rk_fields k2))) in Hr. symmetry in Hr.
  apply enc_fields_delim in Hr; try assumption.
  - destruct Hr as [Hs _]. apply rk_determined; assumption.
  - rewrite !rk_kinds, Hf. reflexivity.
Qed.

(* relative to the module's own store *)
Theorem key_not_prefix_module k1 k2 : rkey_ok k1 -> rkey_ok k2 -> rk_module k1 = rk_module k2 ->
  key_bytes k1 `prefix_of` key_bytes k2 -> k1 = k2.
Proof.
  intros H1 H2 Hm Hp. apply key_not_prefix_store; try assumption.
  - unfold rk_kv. rewrite Hm. reflexivity.
  - unfold full_key. rewrite Hm. apply (proj2 (prefix_app_cancel _ _ _)), Hp.
Qed.

Theorem key_inj k1 k2 : rkey_ok k1 -> rkey_ok k2 -> rk_module k1 = rk_module k2 ->
  key_bytes k1 = key_bytes k2 -> k1 = k2.
Proof.
  intros H1 H2 Hm He. apply key_not_prefix_module; try assumption.
  rewrite He. exists []. rewrite app_nil_r. reflexivity.
Qed.

(* the six children of the vpn store *)
Theorem vpn_children_disjoint m1 m2 (x y : bytes) :
  module_kv m1 = KVVpn -> module_kv m2 = KVVpn ->
  (module_prefix m1 ++ x) `prefix_of` (module_prefix m2 ++ y) -> m1 = m2.
Proof.
  intros H1 H2 Hp. apply prefix_heads_comparable in Hp.
  destruct m1, m2; try discriminate H1; try discriminate H2; try reflexivity; vm_compute in Hp; discriminate.
Qed.

(* the hypotheses are needed: with an empty address two different records collide *)
Lemma empty_address_collides :
  key_bytes (RPayoutForAccountByNode [] [7%N] 0) = key_bytes (RPayoutForAccountByNode [7%N] [] 0).
Proof. reflexivity. Qed.

(* ------------------------------------------------------------------------- *)
(* listing prefixes                                                            *)
(* ------------------------------------------------------------------------- *)
(* the iteration prefixes the keepers use: a whole family, or a family restricted to an
   owner / parent identifier / deadline *)
Inductive listing :=
| LAll (f : fam)
| LNodeForPlan (plan : N) | LNodeForInactiveAt (t : Z)
| LPlanForProvider (a : bytes)
| LSessForAccount (a : bytes) | LSessForNode (a : bytes) | LSessForSubscription (sub : N)
| LSessForAllocation (sub : N) (a : bytes) | LSessForInactiveAt (t : Z)
| LSubForAccount (a : bytes) | LSubForNode (a : bytes) | LSubForPlan (plan : N) | LSubForInactiveAt (t : Z)
| LAllocForSub (id : N)
| LPayoutForNextAt (t : Z) | LPayoutForAccount (a : bytes) | LPayoutForNode (a : bytes)
| LPayoutForAccountByNode (acc node : bytes).

Definition l_bytes (l : listing) : bytes :=
  match l with
  | LAll f => fam_prefix f
  | LNodeForPlan p => node_GetNodeForPlanKeyPrefix p
  | LNodeForInactiveAt t => node_GetNodeForInactiveAtKeyPrefix t
  | LPlanForProvider a => plan_GetPlanForProviderKeyPrefix a
  | LSessForAccount a => session_GetSessionForAccountKeyPrefix a
  | LSessForNode a => session_GetSessionForNodeKeyPrefix a
  | LSessForSubscription s => session_GetSessionForSubscriptionKeyPrefix s
  | LSessForAllocation s a => session_GetSessionForAllocationKeyPrefix s a
  | LSessForInactiveAt t => session_GetSessionForInactiveAtKeyPrefix t
  | LSubForAccount a => subscription_GetSubscriptionForAccountKeyPrefix a
  | LSubForNode a => subscription_GetSubscriptionForNodeKeyPrefix a
  | LSubForPlan p => subscription_GetSubscriptionForPlanKeyPrefix p
  | LSubForInactiveAt t => subscription_GetSubscriptionForInactiveAtKeyPrefix t
  | LAllocForSub id => subscription_GetAllocationForSubscriptionKeyPrefix id
  | LPayoutForNextAt t => subscription_GetPayoutForNextAtKeyPrefix t
  | LPayoutForAccount a => subscription_GetPayoutForAccountKeyPrefix a
  | LPayoutForNode a => subscription_GetPayoutForNodeKeyPrefix a
  | LPayoutForAccountByNode acc node => subscription_GetPayoutForAccountByNodeKeyPrefix acc node
  end.

Definition l_fam (l : listing) : fam :=
  match l with
  | LAll f => f
  | LNodeForPlan _ => FNodeForPlan | LNodeForInactiveAt _ => FNodeForInactiveAt
  | LPlanForProvider _ => FPlanForProvider
  | LSessForAccount _ => FSessForAccount | LSessForNode _ => FSessForNode
  | LSessForSubscription _ => FSessForSubscription | LSessForAllocation _ _ => FSessForAllocation
  | LSessForInactiveAt _ => FSessForInactiveAt
  | LSubForAccount _ => FSubForAccount | LSubForNode _ => FSubForNode | LSubForPlan _ => FSubForPlan
  | LSubForInactiveAt _ => FSubForInactiveAt | LAllocForSub _ => FAllocation
  | LPayoutForNextAt _ => FPayoutForNextAt | LPayoutForAccount _ => FPayoutForAccount
  | LPayoutForNode _ => FPayoutForNode | LPayoutForAccountByNode _ _ => FPayoutForAccountByNode
  end.

Definition l_fields (l : listing) : list field :=
  match l with
  | LAll _ => []
  | LNodeForPlan p | LSessForSubscription p | LSubForPlan p | LAllocForSub p => [FU64 p]
  | LNodeForInactiveAt t | LSessForInactiveAt t | LSubForInactiveAt t | LPayoutForNextAt t => [FTime t]
  | LPlanForProvider a | LSessForAccount a | LSessForNode a | LSubForAccount a | LSubForNode a
  | LPayoutForAccount a | LPayoutForNode a => [FAddr a]
  | LSessForAllocation s a => [FU64 s; FAddr a]
  | LPayoutForAccountByNode acc node => [FAddr acc; FAddr node]
  end.

Definition listing_ok (l : listing) : Prop := Forall field_ok (l_fields l).

(* the record belongs to the listed family and its leading components are the listed ones *)
Definition listed (l : listing) (k : rkey) : Prop :=
  rk_fam k = l_fam l /\ firstn (length (l_fields l)) (rk_fields k) = l_fields l.

Lemma l_bytes_spec l : l_bytes l = fam_prefix (l_fam l) ++ enc_fields (l_fields l).
Proof.
  destruct l; cbn [l_bytes l_fam l_fields fam_prefix enc_fields enc_field];
    autounfold with keysgen; rewrite <- ?app_assoc, ?app_nil_r; reflexivity.
Qed.

Lemma l_kinds l : map kind_of (l_fields l) = firstn (length (l_fields l)) (fam_kinds (l_fam l)).
Proof. destruct l; reflexivity. Qed.

Lemma comparable_app_same (c p q : bytes) : comparable (c ++ p) (c ++ q) = comparable p q.
Proof.
  unfold comparable. induction c as [|x c IH]; cbn; [reflexivity|].
  rewrite N.eqb_refl. cbn. exact IH.
Qed.

(* a listing prefix matches exactly the keys of its family with the listed leading
   components: no key of another owner (even one whose address extends or is extended by
   the listed address), no key of another family of the module *)
Theorem prefix_isolates l k : listing_ok l -> rkey_ok k -> fam_module (l_fam l) = rk_module k ->
  (l_bytes l `prefix_of` key_bytes k <-> listed l k).
Proof.
  intros Hl Hk Hm. rewrite l_bytes_spec, key_bytes_spec. unfold listed. split.
  - intros Hp.
    assert (Hf : l_fam l = rk_fam k).
    { apply fams_disjoint_use; [unfold fam_kv; rewrite Hm; reflexivity|].
      unfold full_prefix. rewrite Hm. unfold rk_module. rewrite comparable_app_same.
      apply (prefix_heads_comparable _ _ _ _ Hp). }
    split; [symmetry; exact Hf|].
    rewrite Hf in Hp. apply (proj1 (prefix_app_cancel _ _ _)) in Hp. destruct Hp as [r Hr].
    set (n := length (l_fields l)) in *.
    rewrite <- (firstn_skipn n (rk_fields k)) in Hr. rewrite enc_fields_app in Hr.
    symmetry in Hr. apply enc_fields_delim in Hr.
    + symmetry. apply Hr.
    + exact Hl.
    + apply Forall_take. exact Hk.
    + rewrite <- firstn_map, rk_kinds, l_kinds, Hf. reflexivity.
  - intros [Hf Hs]. rewrite Hf.
    apply (proj2 (prefix_app_cancel _ _ _)).
    rewrite <- (firstn_skipn (length (l_fields l)) (rk_fields k)), Hs, enc_fields_app.
    exists (enc_fields (skipn (length (l_fields l)) (rk_fields k))). reflexivity.
Qed.

(* the umbrella prefixes that iterate the active and inactive records of a module together *)
Theorem node_umbrella k : rkey_ok k -> rk_module k = MNode ->
  (node_NodeKeyPrefix `prefix_of` key_bytes k <-> rk_fam k = FActiveNode \/ rk_fam k = FInactiveNode).
Proof.
  intros _ Hm. rewrite key_bytes_spec, <- is_prefixb_spec.
  destruct k; try discriminate Hm; cbn [rk_fam fam_prefix]; vm_compute fam_prefix;
    cbn; split; intros H; try discriminate; try (destruct H; discriminate); auto.
Qed.

Theorem provider_umbrella k : rkey_ok k -> rk_module k = MProvider ->
  provider_ProviderKeyPrefix `prefix_of` key_bytes k.
Proof.
  intros _ Hm. rewrite key_bytes_spec, <- is_prefixb_spec.
  destruct k; try discriminate Hm; reflexivity.
Qed.

Theorem plan_umbrella k : rkey_ok k -> rk_module k = MPlan ->
  (plan_PlanKeyPrefix `prefix_of` key_bytes k <-> rk_fam k = FActivePlan \/ rk_fam k = FInactivePlan).
Proof.
  intros _ Hm. rewrite key_bytes_spec, <- is_prefixb_spec.
  destruct k; try discriminate Hm; cbn; split; intros H; try discriminate; try (destruct H; discriminate); auto.
Qed.

(* ------------------------------------------------------------------------- *)
(* decoders                                                                    *)
(* ------------------------------------------------------------------------- *)
(* what the slicing primitives return on each key layout (P: a one-byte family prefix) *)
Section Shapes.
  Variable P : bytes.
  Hypothesis HP : length P = 1%nat.

  Lemma shape_AU a id : addr_ok a ->
    let key := (P ++ len_prefix a) ++ u64be id in
    let L := N.of_nat (length a) in
    key_at key 1 = Ok L /\ key_len key = (10 + L)%N /\
    slice_from key (2 + L) = Ok (u64be id) /\ slice key 2 (2 + L) = Ok a.
  Proof.
    intros Ha key L. subst key L. rewrite len_prefix_cons by (apply addr_ok_nonempty, Ha).
    repeat split.
    - replace ((P ++ N.of_nat (length a) :: a) ++ u64be id) with (P ++ N.of_nat (length a) :: (a ++ u64be id))
        by (rewrite <- app_assoc; reflexivity).
      apply key_at_app. rewrite HP. reflexivity.
    - unfold key_len. rewrite !app_length, u64be_length. cbn [length]. lia.
    - apply slice_from_app. rewrite app_length. cbn [length]. lia.
    - replace ((P ++ N.of_nat (length a) :: a) ++ u64be id) with ((P ++ [N.of_nat (length a)]) ++ a ++ u64be id)
        by (rewrite <- !app_assoc; reflexivity).
      apply slice_app; rewrite app_length; cbn [length]; lia.
  Qed.

  Lemma shape_UU p id :
    let key := (P ++ u64be p) ++ u64be id in
    key_len key = 17%N /\ slice_from key 9 = Ok (u64be id).
  Proof.
    intros key. subst key. split.
    - unfold key_len. rewrite !app_length, !u64be_length. lia.
    - apply slice_from_app. rewrite app_length, u64be_length. lia.
  Qed.

  Lemma shape_TU t id :
    let key := (P ++ fmt_time t) ++ u64be id in
    key_len key = 38%N /\ slice_from key 30 = Ok (u64be id).
  Proof.
    intros key. subst key. split.
    - unfold key_len. rewrite !app_length, u64be_length, fmt_time_length. lia.
    - apply slice_from_app. rewrite app_length, fmt_time_length. lia.
  Qed.

  Lemma shape_UAU s a id : addr_ok a ->
    let key := (P ++ (u64be s ++ len_prefix a)) ++ u64be id in
    let L := N.of_nat (length a) in
    key_at key 9 = Ok L /\ key_len key = (18 + L)%N /\ slice_from key (10 + L) = Ok (u64be id).
  Proof.
    intros Ha key L. subst key L. rewrite len_prefix_cons by (apply addr_ok_nonempty, Ha).
    repeat split.
    - replace ((P ++ u64be s ++ N.of_nat (length a) :: a) ++ u64be id)
        with ((P ++ u64be s) ++ N.of_nat (length a) :: (a ++ u64be id))
        by (rewrite <- !app_assoc; reflexivity).
      apply key_at_app. rewrite app_length, u64be_length. lia.
    - unfold key_len. rewrite !app_length, !u64be_length. cbn [length]. lia.
    - apply slice_from_app. rewrite !app_length, u64be_length. cbn [length]. lia.
  Qed.

  Lemma shape_UA p a : addr_ok a ->
    let key := (P ++ u64be p) ++ len_prefix a in
    let L := N.of_nat (length a) in
    key_at key 9 = Ok L /\ key_len key = (10 + L)%N /\ slice_from key 10 = Ok a.
  Proof.
    intros Ha key L. subst key L. rewrite len_prefix_cons by (apply addr_ok_nonempty, Ha).
    repeat split.
    - apply key_at_app. rewrite app_length, u64be_length. lia.
    - unfold key_len. rewrite !app_length, !u64be_length. cbn [length]. lia.
    - replace ((P ++ u64be p) ++ N.of_nat (length a) :: a) with (((P ++ u64be p) ++ [N.of_nat (length a)]) ++ a)
        by (rewrite <- !app_assoc; reflexivity).
      apply slice_from_app. rewrite !app_length, u64be_length. cbn [length]. lia.
  Qed.

  Lemma shape_TA t a : addr_ok a ->
    let key := (P ++ fmt_time t) ++ len_prefix a in
    let L := N.of_nat (length a) in
    key_at key 30 = Ok L /\ key_len key = (31 + L)%N /\ slice_from key 31 = Ok a.
  Proof.
    intros Ha key L. subst key L. rewrite len_prefix_cons by (apply addr_ok_nonempty, Ha).
    repeat split.
    - apply key_at_app. rewrite app_length, fmt_time_length. lia.
    - unfold key_len. rewrite !app_length, fmt_time_length. cbn [length]. lia.
    - replace ((P ++ fmt_time t) ++ N.of_nat (length a) :: a) with (((P ++ fmt_time t) ++ [N.of_nat (length a)]) ++ a)
        by (rewrite <- !app_assoc; reflexivity).
      apply slice_from_app. rewrite !app_length, fmt_time_length. cbn [length]. lia.
  Qed.

  Lemma shape_AAU a1 a2 id : addr_ok a1 -> addr_ok a2 ->
    let key := ((P ++ len_prefix a1) ++ len_prefix a2) ++ u64be id in
    let L1 := N.of_nat (length a1) in
    let L2 := N.of_nat (length a2) in
    key_at key 1 = Ok L1 /\ key_at key (2 + L1) = Ok L2 /\ key_len key = (11 + L1 + L2)%N /\
    slice_from key (3 + L1 + L2) = Ok (u64be id).
  Proof.
    intros Ha1 Ha2 key L1 L2. subst key L1 L2.
    rewrite !len_prefix_cons by (apply addr_ok_nonempty; assumption).
    repeat split.
    - replace (((P ++ N.of_nat (length a1) :: a1) ++ N.of_nat (length a2) :: a2) ++ u64be id)
        with (P ++ N.of_nat (length a1) :: (a1 ++ N.of_nat (length a2) :: a2 ++ u64be id))
        by (rewrite <- !app_assoc; reflexivity).
      apply key_at_app. rewrite HP. reflexivity.
    - replace (((P ++ N.of_nat (length a1) :: a1) ++ N.of_nat (length a2) :: a2) ++ u64be id)
        with ((P ++ N.of_nat (length a1) :: a1) ++ N.of_nat (length a2) :: (a2 ++ u64be id))
        by (rewrite <- !app_assoc; reflexivity).
      apply key_at_app. rewrite app_length. cbn [length]. lia.
    - unfold key_len. rewrite !app_length, u64be_length. cbn [length]. lia.
    - apply slice_from_app. rewrite !app_length. cbn [length]. lia.
  Qed.
End Shapes.

Ltac dec_id_AU :=
  let E1 := fresh in let E2 := fresh in let E3 := fresh in let E4 := fresh in
  intros Ha Hid; autounfold with keysgen;
  match goal with |- ?d ((?P ++ len_prefix ?a) ++ u64be ?id) = _ =>
    destruct (shape_AU P eq_refl a id Ha) as (E1 & E2 & E3 & E4); unfold d
  end;
  rewrite E1; cbn [rbind]; rewrite E2, N.eqb_refl; cbn [negb];
  first [ rewrite E3; cbn [rbind]; apply be_u64_u64be, Hid | exact E4 ].

Theorem dec_plan_for_provider a id : addr_ok a -> u64_ok id ->
  plan_IDFromPlanForProviderKey (plan_PlanForProviderKey a id) = Ok id.
Proof. dec_id_AU. Qed.
Theorem dec_sess_for_account a id : addr_ok a -> u64_ok id ->
  session_IDFromSessionForAccountKey (session_SessionForAccountKey a id) = Ok id.
Proof. dec_id_AU. Qed.
Theorem dec_sess_for_node a id : addr_ok a -> u64_ok id ->
  session_IDFromSessionForNodeKey (session_SessionForNodeKey a id) = Ok id.
Proof. dec_id_AU. Qed.
Theorem dec_sub_for_account_id a id : addr_ok a -> u64_ok id ->
  subscription_IDFromSubscriptionForAccountKey (subscription_SubscriptionForAccountKey a id) = Ok id.
Proof. dec_id_AU. Qed.
Theorem dec_sub_for_account_addr a id : addr_ok a -> u64_ok id ->
  subscription_AccAddrFromSubscriptionForAccountKey (subscription_SubscriptionForAccountKey a id) = Ok a.
Proof. dec_id_AU. Qed.
Theorem dec_sub_for_node a id : addr_ok a -> u64_ok id ->
  subscription_IDFromSubscriptionForNodeKey (subscription_SubscriptionForNodeKey a id) = Ok id.
Proof. dec_id_AU. Qed.
Theorem dec_payout_for_account a id : addr_ok a -> u64_ok id ->
  subscription_IDFromPayoutForAccountKey (subscription_PayoutForAccountKey a id) = Ok id.
Proof. dec_id_AU. Qed.
Theorem dec_payout_for_node a id : addr_ok a -> u64_ok id ->
  subscription_IDFromPayoutForNodeKey (subscription_PayoutForNodeKey a id) = Ok id.
Proof. dec_id_AU. Qed.

Ltac dec_id_fixed shape :=
  let E1 := fresh in let E2 := fresh in
  intros Hid; autounfold with keysgen;
  match goal with |- ?d ((?P ++ ?x) ++ u64be ?id) = _ =>
    destruct (shape P eq_refl) as (E1 & E2); unfold d; rewrite E1; cbn [N.eqb Pos.eqb negb];
    rewrite E2; cbn [rbind]; apply be_u64_u64be, Hid
  end.

Theorem dec_sess_for_subscription s id : u64_ok id ->
  session_IDFromSessionForSubscriptionKey (session_SessionForSubscriptionKey s id) = Ok id.
Proof. dec_id_fixed (fun P H => shape_UU P H s id). Qed.
Theorem dec_sub_for_plan p id : u64_ok id ->
  subscription_IDFromSubscriptionForPlanKey (subscription_SubscriptionForPlanKey p id) = Ok id.
Proof. dec_id_fixed (fun P H => shape_UU P H p id). Qed.
Theorem dec_sess_for_inactive_at t id : u64_ok id ->
  session_IDFromSessionForInactiveAtKey (session_SessionForInactiveAtKey t id) = Ok id.
Proof. dec_id_fixed (fun P H => shape_TU P H t id). Qed.
Theorem dec_sub_for_inactive_at t id : u64_ok id ->
  subscription_IDFromSubscriptionForInactiveAtKey (subscription_SubscriptionForInactiveAtKey t id) = Ok id.
Proof. dec_id_fixed (fun P H => shape_TU P H t id). Qed.
Theorem dec_payout_for_next_at t id : u64_ok id ->
  subscription_IDFromPayoutForNextAtKey (subscription_PayoutForNextAtKey t id) = Ok id.
Proof. dec_id_fixed (fun P H => shape_TU P H t id). Qed.

Theorem dec_sess_for_allocation s a id : addr_ok a -> u64_ok id ->
  session_IDFromSessionForAllocationKey (session_SessionForAllocationKey s a id) = Ok id.
Proof.
  intros Ha Hid. autounfold with keysgen.
  destruct (shape_UAU session_SessionForAllocationKeyPrefix eq_refl s a id Ha) as (E1 & E2 & E3).
  unfold session_IDFromSessionForAllocationKey. rewrite E1. cbn [rbind]. rewrite E2, N.eqb_refl. cbn [negb].
  rewrite E3. cbn [rbind]. apply be_u64_u64be, Hid.
Qed.

Theorem dec_node_for_plan p a : addr_ok a ->
  node_AddressFromNodeForPlanKey (node_NodeForPlanKey p a) = Ok a.
Proof.
  intros Ha. autounfold with keysgen.
  destruct (shape_UA node_NodeForPlanKeyPrefix eq_refl p a Ha) as (E1 & E2 & E3).
  unfold node_AddressFromNodeForPlanKey. rewrite E1. cbn [rbind]. rewrite E2, N.eqb_refl. cbn [negb]. exact E3.
Qed.

Theorem dec_node_for_inactive_at t a : addr_ok a ->
  node_AddressFromNodeForInactiveAtKey (node_NodeForInactiveAtKey t a) = Ok a.
Proof.
  intros Ha. autounfold with keysgen.
  destruct (shape_TA node_NodeForInactiveAtKeyPrefix eq_refl t a Ha) as (E1 & E2 & E3).
  unfold node_AddressFromNodeForInactiveAtKey. rewrite E1. cbn [rbind]. rewrite E2, N.eqb_refl. cbn [negb]. exact E3.
Qed.

Theorem dec_payout_for_account_by_node acc node id : addr_ok acc -> addr_ok node -> u64_ok id ->
  subscription_IDFromPayoutForAccountByNodeKey (subscription_PayoutForAccountByNodeKey acc node id) = Ok id.
Proof.
  intros Ha Hn Hid. autounfold with keysgen.
  destruct (shape_AAU subscription_PayoutForAccountByNodeKeyPrefix eq_refl acc node id Ha Hn) as (E1 & E2 & E3 & E4).
  unfold subscription_IDFromPayoutForAccountByNodeKey. rewrite E1. cbn [rbind]. rewrite E2. cbn [rbind].
  rewrite E3, N.eqb_refl. cbn [negb]. rewrite E4. cbn [rbind]. apply be_u64_u64be, Hid.
Qed.

(* the decoders return only on keys of exactly the expected length (any other length:
   the explicit panic, or an index / slice out of range) *)
Ltac dec_len d :=
  unfold d; intros key v H;
  repeat match type of H with
  | rbind (key_at ?k ?i) _ = Ok _ => destruct (key_at k i) as [?b| |]; cbn [rbind] in H; try discriminate H
  end;
  match type of H with
  | (if negb (?x =? ?y)%N then _ else _) = _ => destruct (N.eqb_spec x y) as [E|E]; cbn [negb] in H; [|discriminate H]
  end.

Definition decoders_length_checked : Prop :=
  (forall key v, session_IDFromSessionForSubscriptionKey key = Ok v -> key_len key = 17%N) /\
  (forall key v, subscription_IDFromSubscriptionForPlanKey key = Ok v -> key_len key = 17%N) /\
  (forall key v, session_IDFromSessionForInactiveAtKey key = Ok v -> key_len key = 38%N) /\
  (forall key v, subscription_IDFromSubscriptionForInactiveAtKey key = Ok v -> key_len key = 38%N) /\
  (forall key v, subscription_IDFromPayoutForNextAtKey key = Ok v -> key_len key = 38%N) /\
  (forall key v, plan_IDFromPlanForProviderKey key = Ok v -> exists l, key_at key 1 = Ok l /\ key_len key = (10 + l)%N) /\
  (forall key v, session_IDFromSessionForAccountKey key = Ok v -> exists l, key_at key 1 = Ok l /\ key_len key = (10 + l)%N) /\
  (forall key v, session_IDFromSessionForNodeKey key = Ok v -> exists l, key_at key 1 = Ok l /\ key_len key = (10 + l)%N) /\
  (forall key v, subscription_IDFromSubscriptionForAccountKey key = Ok v -> exists l, key_at key 1 = Ok l /\ key_len key = (10 + l)%N) /\
  (forall key v, subscription_AccAddrFromSubscriptionForAccountKey key = Ok v -> exists l, key_at key 1 = Ok l /\ key_len key = (10 + l)%N) /\
  (forall key v, subscription_IDFromSubscriptionForNodeKey key = Ok v -> exists l, key_at key 1 = Ok l /\ key_len key = (10 + l)%N) /\
  (forall key v, subscription_IDFromPayoutForAccountKey key = Ok v -> exists l, key_at key 1 = Ok l /\ key_len key = (10 + l)%N) /\
  (forall key v, subscription_IDFromPayoutForNodeKey key = Ok v -> exists l, key_at key 1 = Ok l /\ key_len key = (10 + l)%N) /\
  (forall key v, session_IDFromSessionForAllocationKey key = Ok v -> exists l, key_at key 9 = Ok l /\ key_len key = (18 + l)%N) /\
  (forall key v, node_AddressFromNodeForPlanKey key = Ok v -> exists l, key_at key 9 = Ok l /\ key_len key = (10 + l)%N) /\
  (forall key v, node_AddressFromNodeForInactiveAtKey key = Ok v -> exists l, key_at key 30 = Ok l /\ key_len key = (31 + l)%N) /\
  (forall key v, subscription_IDFromPayoutForAccountByNodeKey key = Ok v ->
     exists l1 l2, key_at key 1 = Ok l1 /\ key_at key (2 + l1) = Ok l2 /\ key_len key = (11 + l1 + l2)%N).

Theorem dec_length_checked : decoders_length_checked.
Proof.
  unfold decoders_length_checked. repeat split.
  - dec_len session_IDFromSessionForSubscriptionKey. exact E.
  - dec_len subscription_IDFromSubscriptionForPlanKey. exact E.
  - dec_len session_IDFromSessionForInactiveAtKey. exact E.
  - dec_len subscription_IDFromSubscriptionForInactiveAtKey. exact E.
  - dec_len subscription_IDFromPayoutForNextAtKey. exact E.
  - dec_len plan_IDFromPlanForProviderKey. eexists; split; [reflexivity|exact E].
  - dec_len session_IDFromSessionForAccountKey. eexists; split; [reflexivity|exact E].
  - dec_len session_IDFromSessionForNodeKey. eexists; split; [reflexivity|exact E].
  - dec_len subscription_IDFromSubscriptionForAccountKey. eexists; split; [reflexivity|exact E].
  - dec_len subscription_AccAddrFromSubscriptionForAccountKey. eexists; split; [reflexivity|exact E].
  - dec_len subscription_IDFromSubscriptionForNodeKey. eexists; split; [reflexivity|exact E].
  - dec_len subscription_IDFromPayoutForAccountKey. eexists; split; [reflexivity|exact E].
  - dec_len subscription_IDFromPayoutForNodeKey. eexists; split; [reflexivity|exact E].
  - dec_len session_IDFromSessionForAllocationKey. eexists; split; [reflexivity|exact E].
  - dec_len node_AddressFromNodeForPlanKey. eexists; split; [reflexivity|exact E].
  - dec_len node_AddressFromNodeForInactiveAtKey. eexists; split; [reflexivity|exact E].
  - unfold subscription_IDFromPayoutForAccountByNodeKey. intros key v H.
    destruct (key_at key 1) as [l1| |] eqn:E1; cbn [rbind] in H; try discriminate H.
    destruct (key_at key (2 + l1)) as [l2| |] eqn:E2; cbn [rbind] in H; try discriminate H.
    destruct (N.eqb_spec (key_len key) (11 + l1 + l2)) as [E|E]; cbn [negb] in H; [|discriminate H].
    exists l1, l2. repeat split; assumption.
Qed.

(* ------------------------------------------------------------------------- *)
(* deadline queues sort chronologically                                        *)
(* ------------------------------------------------------------------------- *)
Lemma queue_cmp_id (P : bytes) t1 id1 t2 id2 :
  time_ok t1 = true -> time_ok t2 = true -> u64_ok id1 -> u64_ok id2 ->
  bytes_cmp ((P ++ fmt_time t1) ++ u64be id1) ((P ++ fmt_time t2) ++ u64be id2) =
  lex (Z.compare t1 t2) (N.compare id1 id2).
Proof.
  intros H1 H2 Hi1 Hi2. rewrite <- !app_assoc, bytes_cmp_app_same, fmt_time_cmp_app by assumption.
  rewrite u64be_cmp by assumption. reflexivity.
Qed.

Theorem sub_inactive_queue_cmp t1 id1 t2 id2 :
  time_ok t1 = true -> time_ok t2 = true -> u64_ok id1 -> u64_ok id2 ->
  bytes_cmp (subscription_SubscriptionForInactiveAtKey t1 id1) (subscription_SubscriptionForInactiveAtKey t2 id2) =
  lex (Z.compare t1 t2) (N.compare id1 id2).
Proof. autounfold with keysgen. apply queue_cmp_id. Qed.

Theorem payout_queue_cmp t1 id1 t2 id2 :
  time_ok t1 = true -> time_ok t2 = true -> u64_ok id1 -> u64_ok id2 ->
  bytes_cmp (subscription_PayoutForNextAtKey t1 id1) (subscription_PayoutForNextAtKey t2 id2) =
  lex (Z.compare t1 t2) (N.compare id1 id2).
Proof. autounfold with keysgen. apply queue_cmp_id. Qed.

Theorem session_queue_cmp t1 id1 t2 id2 :
  time_ok t1 = true -> time_ok t2 = true -> u64_ok id1 -> u64_ok id2 ->
  bytes_cmp (session_SessionForInactiveAtKey t1 id1) (session_SessionForInactiveAtKey t2 id2) =
  lex (Z.compare t1 t2) (N.compare id1 id2).
Proof. autounfold with keysgen. apply queue_cmp_id. Qed.

(* length-prefixed addresses compare by length, then by content *)
Lemma len_prefix_cmp a b : a <> [] -> b <> [] ->
  bytes_cmp (len_prefix a) (len_prefix b) = lex (Nat.compare (length a) (length b)) (bytes_cmp a b).
Proof.
  intros Ha Hb. rewrite !len_prefix_cons by assumption. cbn [bytes_cmp].
  rewrite Nat2N.inj_compare. unfold lex. destruct (N.compare (N.of_nat (length a)) (N.of_nat (length b))); reflexivity.
Qed.

Theorem node_queue_cmp t1 a1 t2 a2 :
  time_ok t1 = true -> time_ok t2 = true -> addr_ok a1 -> addr_ok a2 ->
  bytes_cmp (node_NodeForInactiveAtKey t1 a1) (node_NodeForInactiveAtKey t2 a2) =
  lex (Z.compare t1 t2) (lex (Nat.compare (length a1) (length a2)) (bytes_cmp a1 a2)).
Proof.
  intros H1 H2 Ha1 Ha2. autounfold with keysgen.
  rewrite <- !app_assoc, bytes_cmp_app_same, fmt_time_cmp_app by assumption.
  rewrite len_prefix_cmp by (apply addr_ok_nonempty; assumption). reflexivity.
Qed.

Theorem inflation_queue_cmp t1 t2 : time_ok t1 = true -> time_ok t2 = true ->
  bytes_cmp (mint_InflationKey t1) (mint_InflationKey t2) = Z.compare t1 t2.
Proof.
  intros H1 H2. autounfold with keysgen. rewrite bytes_cmp_app_same. apply fmt_time_cmp; assumption.
Qed.

(* readable form: byte order of queue keys is (time, then identifier) order *)
Lemma lex_lt_iff_ZN (t1 t2 : Z) (i1 i2 : N) :
  lex (Z.compare t1 t2) (N.compare i1 i2) = Lt <-> t1 < t2 \/ (t1 = t2 /\ (i1 < i2)%N).
Proof.
  unfold lex. destruct (Z.compare_spec t1 t2) as [->|H|H].
  - rewrite N.compare_lt_iff. split; [intros; right; split; [reflexivity|assumption]|intros [?|[_ ?]]; [lia|assumption]].
  - split; [intros _; left; exact H|reflexivity].
  - split; [discriminate|intros [?|[? _]]; lia].
Qed.

Theorem sub_inactive_queue_order t1 id1 t2 id2 :
  time_ok t1 = true -> time_ok t2 = true -> u64_ok id1 -> u64_ok id2 ->
  (bytes_lt (subscription_SubscriptionForInactiveAtKey t1 id1) (subscription_SubscriptionForInactiveAtKey t2 id2)
   <-> t1 < t2 \/ (t1 = t2 /\ (id1 < id2)%N)).
Proof. intros. unfold bytes_lt. rewrite sub_inactive_queue_cmp by assumption. apply lex_lt_iff_ZN. Qed.

Theorem payout_queue_order t1 id1 t2 id2 :
  time_ok t1 = true -> time_ok t2 = true -> u64_ok id1 -> u64_ok id2 ->
  (bytes_lt (subscription_PayoutForNextAtKey t1 id1) (subscription_PayoutForNextAtKey t2 id2)
   <-> t1 < t2 \/ (t1 = t2 /\ (id1 < id2)%N)).
Proof. intros. unfold bytes_lt. rewrite payout_queue_cmp by assumption. apply lex_lt_iff_ZN. Qed.

Theorem session_queue_order t1 id1 t2 id2 :
  time_ok t1 = true -> time_ok t2 = true -> u64_ok id1 -> u64_ok id2 ->
  (bytes_lt (session_SessionForInactiveAtKey t1 id1) (session_SessionForInactiveAtKey t2 id2)
   <-> t1 < t2 \/ (t1 = t2 /\ (id1 < id2)%N)).
Proof. intros. unfold bytes_lt. rewrite session_queue_cmp by assumption. apply lex_lt_iff_ZN. Qed.

Theorem node_queue_order t1 a1 t2 a2 :
  time_ok t1 = true -> time_ok t2 = true -> addr_ok a1 -> addr_ok a2 ->
  (bytes_lt (node_NodeForInactiveAtKey t1 a1) (node_NodeForInactiveAtKey t2 a2)
   <-> t1 < t2 \/ (t1 = t2 /\ bytes_lt (len_prefix a1) (len_prefix a2))).
Proof.
  intros H1 H2 Ha1 Ha2. unfold bytes_lt. rewrite node_queue_cmp by assumption.
  rewrite len_prefix_cmp by (apply addr_ok_nonempty; assumption).
  unfold lex at 1. destruct (Z.compare_spec t1 t2) as [->|H|H].
  - split; [intros; right; split; [reflexivity|assumption]|intros [?|[_ ?]]; [lia|assumption]].
  - split; [intros _; left; exact H|reflexivity].
  - split; [discriminate|intros [?|[? _]]; lia].
Qed.

Theorem inflation_queue_order t1 t2 : time_ok t1 = true -> time_ok t2 = true ->
  (bytes_lt (mint_InflationKey t1) (mint_InflationKey t2) <-> t1 < t2).
Proof. intros. unfold bytes_lt. rewrite inflation_queue_cmp by assumption. apply Z.compare_lt_iff. Qed.
