(* C03: the value-range and recipient invariant [range_inv] (RangeDefs.v) is preserved by every
   message handler, every block hook and governance, and holds at genesis. *)
From Hub Require Import Base.Prelude Base.Arith Model.Types Model.Keeper Model.Handlers Model.Hooks Model.Step.
From Hub Require Import Proofs.Tactics Proofs.Sorting Proofs.Frames Proofs.Money Proofs.KeysInv Proofs.ArithThm Proofs.Lifecycle Proofs.Quota
  Proofs.InvDefs Proofs.IndexSub Proofs.IndexSub2 Proofs.Ledger2 Proofs.Link Proofs.RangeDefs.

(** * the invariant, component by component *)

Definition sub_rng (c : config) (sb : subscription) : Prop :=
  sb_addr sb ∉ c_blocked c /\
  match sb_kind sb with KNode nd g h dep => dep.2 < BIG /\ nd ∉ c_blocked c | KPlan _ _ => True end.
Definition alloc_rng (al : allocation) : Prop := 0 <= al_granted al < MAXINT.
Definition sess_rng (c : config) (x : session) : Prop :=
  0 <= ss_up x /\ 0 <= ss_down x /\ ss_up x + ss_down x < MAXINT /\ ss_node x ∉ c_blocked c.
Definition node_rng (c : config) (n : node) : Prop := nd_addr n ∉ c_blocked c.
Definition inf_rng (it : inflation) : Prop := mint_params_valid (inf_max it) (inf_min it) (inf_rate it) = true.

Definition nodes_ok (c : config) (s : state) : Prop :=
  map_Forall (fun _ => node_rng c) (node_act s) /\ map_Forall (fun _ => node_rng c) (node_inact s).

Lemma range_intro s :
  map_Forall (fun _ => sub_rng (cfg s)) (subs s) -> map_Forall (fun _ => alloc_rng) (allocs s) ->
  map_Forall (fun _ => sess_rng (cfg s)) (sessions s) -> nodes_ok (cfg s) s ->
  map_Forall (fun _ => inf_rng) (inflations s) -> range_inv s.
Proof. intros A B C [D E] F. split; assumption. Qed.

Lemma range_elim s :
  range_inv s ->
  map_Forall (fun _ => sub_rng (cfg s)) (subs s) /\ map_Forall (fun _ => alloc_rng) (allocs s) /\
  map_Forall (fun _ => sess_rng (cfg s)) (sessions s) /\ nodes_ok (cfg s) s /\
  map_Forall (fun _ => inf_rng) (inflations s).
Proof. intros [A B C D E F]. split; [exact A|]. split; [exact B|]. split; [exact C|]. split; [split; [exact D|exact E]|exact F]. Qed.

Lemma range_frame s s' :
  cfg s' = cfg s -> subs s' = subs s -> allocs s' = allocs s -> sessions s' = sessions s ->
  node_act s' = node_act s -> node_inact s' = node_inact s -> inflations s' = inflations s ->
  range_inv s -> range_inv s'.
Proof.
  intros E0 E1 E2 E3 E4 E5 E6 Hr. destruct (range_elim _ Hr) as (A & B & C & [D1 D2] & F).
  apply range_intro; unfold nodes_ok; rewrite ?E0, ?E1, ?E2, ?E3, ?E4, ?E5, ?E6; auto.
Qed.

Lemma range_keeps T s s' :
  keeps T s s' -> touched GSub T = false -> touched GSess T = false -> touched GNode T = false -> touched GMint T = false ->
  range_inv s -> range_inv s'.
Proof.
  intros (Kc & _ & _ & _ & _ & _ & Kn & Ks & Kss & _ & _ & Km & _) T1 T2 T3 T4.
  rewrite T1 in Ks. rewrite T2 in Kss. rewrite T3 in Kn. rewrite T4 in Km. simpl in *.
  apply range_frame; tauto.
Qed.

Lemma MAXINT_pos : 0 < MAXINT.
Proof. reflexivity. Qed.
Lemma BIG_pos : 0 < BIG.
Proof. reflexivity. Qed.

Lemma int_mul_rng a b c : int_mul a b = Ok c -> 0 <= a -> 0 <= b -> c = a * b /\ 0 <= c < MAXINT.
Proof.
  unfold int_mul, chk, fits. destruct (Z.ltb_spec (Z.abs (a * b)) MAXINT); [|discriminate]. intros [= <-] Ha Hb.
  split; [reflexivity|]. assert (0 <= a * b) by nia. lia.
Qed.
Lemma int_add_rng a b c : int_add a b = Ok c -> c = a + b /\ Z.abs c < MAXINT.
Proof. unfold int_add, chk, fits. destruct (Z.ltb_spec (Z.abs (a + b)) MAXINT); [|discriminate]. intros [= <-]. auto. Qed.

(** * nodes *)

Lemma nodes_ok_frame c s s' : node_act s' = node_act s -> node_inact s' = node_inact s -> nodes_ok c s -> nodes_ok c s'.
Proof. unfold nodes_ok. intros -> ->. auto. Qed.

Lemma nodes_ok_get c s a n : nodes_ok c s -> get_node s a = Some n -> node_rng c n.
Proof. intros [A B] H. apply get_node_cases in H as [H|[_ H]]; [exact (A _ _ H)|exact (B _ _ H)]. Qed.

Lemma nodes_ok_set c s n s' : nodes_ok c s -> node_rng c n -> set_node s n = Ok s' -> nodes_ok c s'.
Proof.
  intros [A B] Hn H. unfold set_node in H. destruct (nd_status n); try discriminate; injection H as <-; split; simpl; auto;
    apply map_Forall_insert_2; auto.
Qed.

Lemma nodes_ok_del_act c s a : nodes_ok c s -> nodes_ok c (s <| node_act ::= fun m => delete a m |>).
Proof. intros [A B]. split; simpl; [apply map_Forall_delete|]; assumption. Qed.
Lemma nodes_ok_del_inact c s a : nodes_ok c s -> nodes_ok c (s <| node_inact ::= fun m => delete a m |>).
Proof. intros [A B]. split; simpl; [|apply map_Forall_delete]; assumption. Qed.

(* replace the node partitions, everything else as before *)
Lemma range_nodes s s' :
  cfg s' = cfg s -> subs s' = subs s -> allocs s' = allocs s -> sessions s' = sessions s -> inflations s' = inflations s ->
  nodes_ok (cfg s) s' -> range_inv s -> range_inv s'.
Proof.
  intros E0 E1 E2 E3 E6 Hn Hr. destruct (range_elim _ Hr) as (A & B & C & _ & F).
  apply range_intro; rewrite ?E0, ?E1, ?E2, ?E3, ?E6; auto.
Qed.

Lemma range_h_node_register s from gb hr url s' :
  range_inv s -> ta_bytes from ∉ c_blocked (cfg s) -> h_node_register s from gb hr url = Ok s' -> range_inv s'.
Proof.
  intros Hr Hnb H. pose proof (h_node_register_keeps _ _ _ _ _ _ H) as Hk.
  destruct (range_elim _ Hr) as (_ & _ & _ & Hn & _).
  apply (range_nodes s); try (keeps_solve; fail).
  unfold h_node_register in H. res_inv.
  match goal with Hf : fund_pool s _ _ = Ok ?y |- _ => apply fund_pool_keeps in Hf;
    assert (Hn1 : nodes_ok (cfg s) y) by (eapply nodes_ok_frame; [..|exact Hn]; keeps_solve) end.
  match goal with Hs : set_node _ _ = Ok ?y |- _ => apply (nodes_ok_frame _ y); [reflexivity..|]; eapply nodes_ok_set; [exact Hn1| |exact Hs] end.
  exact Hnb.
Qed.

Lemma range_h_node_update_details s from gb hr url s' :
  range_inv s -> h_node_update_details s from gb hr url = Ok s' -> range_inv s'.
Proof.
  intros Hr H. pose proof (h_node_update_details_keeps _ _ _ _ _ _ H) as Hk.
  destruct (range_elim _ Hr) as (_ & _ & _ & Hn & _).
  apply (range_nodes s); try (keeps_solve; fail).
  unfold h_node_update_details in H. res_inv.
  match goal with Hs : set_node _ _ = Ok ?y, Hg : get_node s _ = Some ?n |- _ =>
    apply (nodes_ok_frame _ y); [reflexivity..|]; eapply nodes_ok_set; [exact Hn| |exact Hs]; exact (nodes_ok_get _ _ _ _ Hn Hg) end.
Qed.

Lemma range_h_node_update_status s from st s' :
  range_inv s -> h_node_update_status s from st = Ok s' -> range_inv s'.
Proof.
  intros Hr H. pose proof (h_node_update_status_keeps _ _ _ _ H) as Hk.
  destruct (range_elim _ Hr) as (_ & _ & _ & Hn & _).
  apply (range_nodes s); try (keeps_solve; fail).
  unfold h_node_update_status in H. destruct (get_node s (ta_bytes from)) as [n|] eqn:Hg; [|discriminate].
  pose proof (nodes_ok_get _ _ _ _ Hn Hg) as Hnn.
  match type of H with (let '(s3, n1) := ?p in _) = _ => destruct p as [s3 n1] eqn:Ep end.
  apply rbind_ok in H as (s4 & Hset & H). injection H as <-.
  assert (G : nodes_ok (cfg s) s3 /\ nd_addr n1 = nd_addr n).
  { repeat case_bool_decide; injection Ep as <- <-; simpl; (split; [|reflexivity]);
      repeat first [apply nodes_ok_del_act | apply nodes_ok_del_inact | (eapply nodes_ok_frame; [..|exact Hn]; reflexivity)]. }
  destruct G as [G1 G2]. apply (nodes_ok_frame _ s4); [reflexivity..|].
  eapply nodes_ok_set; [exact G1| |exact Hset]. unfold node_rng. case_bool_decide; simpl; rewrite G2; exact Hnn.
Qed.

Lemma range_node_sweep s s1 : kinv_node s -> range_inv s -> rfold node_sweep_one (all_nodes s) s = Ok s1 -> range_inv s1 /\ keeps [GNode] s s1.
Proof.
  intros Hkn Hr H. destruct (range_elim _ Hr) as (_ & _ & _ & Hn & _).
  assert (Hk : keeps [GNode] s s1).
  { eapply (rfold_rel (keeps [GNode])); [apply keeps_refl|apply keeps_trans| |exact H]. intros; eapply node_sweep_one_keeps; eauto. }
  split; [|exact Hk]. apply (range_nodes s); try (keeps_solve; fail).
  eapply (rfold_inv_in (nodes_ok (cfg s))); [|exact Hn|exact H].
  intros x n x' Hin Hx Hstep. unfold node_sweep_one in Hstep. apply rbind_ok in Hstep as (x1 & Hset & Hstep). injection Hstep as <-.
  apply must_ok in Hset. apply (nodes_ok_frame _ x1); [reflexivity..|]. eapply nodes_ok_set; [exact Hx| |exact Hset].
  unfold node_rng. simpl. destruct (elem_of_all_nodes _ _ Hkn Hin) as [[Hl _]|[Hl _]]; [exact (proj1 Hn _ _ Hl)|exact (proj2 Hn _ _ Hl)].
Qed.

Lemma nodes_ok_expire_one c s e s' : nodes_ok c s -> node_expire_one s e = Ok s' -> nodes_ok c s'.
Proof.
  intros Hn H. unfold node_expire_one in H. destruct (get_node s e.2) as [n|] eqn:Hg; [|discriminate].
  apply rbind_ok in H as (s2 & Hset & H). injection H as <-. apply must_ok in Hset.
  apply (nodes_ok_frame _ s2); [reflexivity..|]. eapply nodes_ok_set; [|  |exact Hset].
  - eapply nodes_ok_frame; [| |apply (nodes_ok_del_act c s (nd_addr n)); exact Hn]; reflexivity.
  - exact (nodes_ok_get _ _ _ _ Hn Hg).
Qed.

Lemma range_node_end_block s s' : kinv s -> range_inv s -> node_end_block s = Ok s' -> range_inv s'.
Proof.
  intros Hi Hr H. pose proof (node_end_block_keeps _ _ H) as Hk.
  unfold node_end_block in H. apply rbind_ok in H as (s1 & Hsw & H).
  assert (H1 : range_inv s1 /\ keeps [GNode] s s1).
  { destruct (_ || _); [|injection Hsw as <-; split; [exact Hr|apply keeps_refl]]. apply range_node_sweep; [apply Hi|exact Hr|exact Hsw]. }
  destruct H1 as [Hr1 K1]. destruct (range_elim _ Hr1) as (_ & _ & _ & Hn1 & _).
  assert (K2 : keeps [GNode] s1 s').
  { eapply (rfold_rel (keeps [GNode])); [apply keeps_refl|apply keeps_trans| |exact H]. intros; eapply node_expire_one_keeps; eauto. }
  apply (range_nodes s1); try (keeps_solve; fail).
  eapply (rfold_inv (nodes_ok (cfg s1))); [|exact Hn1|exact H]. intros; eapply nodes_ok_expire_one; eauto.
Qed.

(** * purchases *)

Lemma z_dep_add_le s a c s' : z_dep_add s a c = Ok s' -> c.2 = 0 \/ c.2 <= bal s a c.1.
Proof.
  unfold z_dep_add. destruct (Z.eqb_spec c.2 0) as [E|E]; [left; exact E|]. intros H. right.
  unfold dep_add in H. apply rbind_ok in H as (s1 & Hs & _). unfold bank_send in Hs.
  destruct (Z.ltb_spec c.2 0); [discriminate|]. destruct (Z.eqb_spec c.2 0); [lia|].
  destruct (Z.ltb_spec (bal s a c.1) c.2); [discriminate|]. lia.
Qed.

(* replace subscriptions and allocations, everything else as before *)
Lemma range_subs s s' :
  cfg s' = cfg s -> sessions s' = sessions s -> node_act s' = node_act s -> node_inact s' = node_inact s -> inflations s' = inflations s ->
  map_Forall (fun _ => sub_rng (cfg s)) (subs s') -> map_Forall (fun _ => alloc_rng) (allocs s') -> range_inv s -> range_inv s'.
Proof.
  intros E0 E3 E4 E5 E6 A B Hr. destruct (range_elim _ Hr) as (_ & _ & C & [D1 D2] & F).
  apply range_intro; unfold nodes_ok; rewrite ?E0, ?E3, ?E4, ?E5, ?E6; auto.
Qed.

Lemma range_create_sub_for_node s acc nd g h dn s' id :
  kinv_node s -> range_inv s -> 0 <= g -> acc ∉ c_blocked (cfg s) -> (forall d, bal s acc d < BIG) ->
  create_sub_for_node s acc nd g h dn = Ok (s', id) -> range_inv s'.
Proof.
  intros Hkn Hr Hg Hacc Hbal H. pose proof (create_sub_for_node_keeps _ _ _ _ _ _ _ _ H) as Hk.
  destruct (range_elim _ Hr) as (A & B & _ & Hn & _).
  unfold create_sub_for_node in H. destruct (get_node s nd) as [n|] eqn:Hgn; [|discriminate].
  assert (Hnd : nd ∉ c_blocked (cfg s)).
  { pose proof (nodes_ok_get _ _ _ _ Hn Hgn) as Hx. destruct (get_node_kinv _ _ _ Hkn Hgn) as [<- _]. exact Hx. }
  assert (Hdep : forall s1 c, z_dep_add s acc c = Ok s1 -> c.2 < BIG).
  { intros s1 c Hz. destruct (z_dep_add_le _ _ _ _ Hz) as [E|E]; [rewrite E; apply BIG_pos|specialize (Hbal c.1); lia]. }
  apply (range_subs s); try (keeps_solve; fail); [|].
  - unfold new_coin in H. res_inv;
      match goal with Hz : z_dep_add s acc _ = Ok _ |- _ => pose proof (Hdep _ _ Hz) as Hlt; simpl in Hlt end;
      pose_keeps; simpl; to_base s;
      (apply map_Forall_insert_2; [|exact A]); unfold sub_rng; simpl; auto.
  - unfold new_coin in H. res_inv;
      repeat match goal with Hm : int_mul GB g = Ok _ |- _ => apply int_mul_rng in Hm as [? ?]; [|pose proof GB_pos; lia|exact Hg] end;
      pose_keeps; simpl; to_base s; try exact B;
      (apply map_Forall_insert_2; [|exact B]); unfold alloc_rng; simpl; subst; auto.
Qed.

Lemma range_create_sub_for_plan s acc pid dn s' id :
  quota_inv s -> range_inv s -> acc ∉ c_blocked (cfg s) ->
  create_sub_for_plan s acc pid dn = Ok (s', id) -> range_inv s'.
Proof.
  intros Hq Hr Hacc H. pose proof (create_sub_for_plan_keeps _ _ _ _ _ _ H) as Hk.
  destruct (range_elim _ Hr) as (A & B & _ & Hn & _).
  unfold create_sub_for_plan in H. destruct (get_plan s pid) as [p|] eqn:Hp; [|discriminate].
  pose proof (q_plans _ Hq _ _ Hp) as Hgb.
  apply (range_subs s); try (keeps_solve; fail); [|].
  - res_inv; pose_keeps; simpl; to_base s. (apply map_Forall_insert_2; [|exact A]); unfold sub_rng; simpl; auto.
  - res_inv.
    repeat match goal with Hm : int_mul GB _ = Ok _ |- _ => apply int_mul_rng in Hm as [? ?]; [|pose proof GB_pos; lia|exact Hgb] end.
    pose_keeps; simpl; to_base s. (apply map_Forall_insert_2; [|exact B]); unfold alloc_rng; simpl; subst; auto.
Qed.

(** * sessions *)

Lemma range_sess s s' :
  cfg s' = cfg s -> subs s' = subs s -> allocs s' = allocs s -> node_act s' = node_act s -> node_inact s' = node_inact s -> inflations s' = inflations s ->
  map_Forall (fun _ => sess_rng (cfg s)) (sessions s') -> range_inv s -> range_inv s'.
Proof.
  intros E0 E1 E2 E4 E5 E6 C Hr. destruct (range_elim _ Hr) as (A & B & _ & [D1 D2] & F).
  apply range_intro; unfold nodes_ok; rewrite ?E0, ?E1, ?E2, ?E4, ?E5, ?E6; auto.
Qed.

Lemma sess_rng_make_pending c s x :
  sess_rng c x -> map_Forall (fun _ => sess_rng c) (sessions s) -> map_Forall (fun _ => sess_rng c) (sessions (session_make_pending s x)).
Proof. intros Hx Hall. unfold session_make_pending. simpl. apply map_Forall_insert_2; [exact Hx|exact Hall]. Qed.

Lemma sess_rng_pending_hook c s id s' :
  map_Forall (fun _ => sess_rng c) (sessions s) -> sub_pending_hook s id = Ok s' -> map_Forall (fun _ => sess_rng c) (sessions s').
Proof.
  intros Hall H. unfold sub_pending_hook in H.
  eapply (rfold_inv (fun y => map_Forall (fun _ => sess_rng c) (sessions y))); [|exact Hall|exact H].
  intros a sid b Ha Hstep. cbv beta in Hstep. destruct (sessions a !! sid) as [x|] eqn:Hx; [|discriminate].
  case_bool_decide; injection Hstep as <-; [|exact Ha]. apply sess_rng_make_pending; [exact (Ha _ _ Hx)|exact Ha].
Qed.

Lemma range_h_sess_start s from id nd s' : kinv_node s -> range_inv s -> h_sess_start s from id nd = Ok s' -> range_inv s'.
Proof.
  intros Hkn Hr H. pose proof (h_sess_start_keeps _ _ _ _ _ H) as Hk.
  destruct (range_elim _ Hr) as (_ & _ & C & Hn & _).
  apply (range_sess s); try (keeps_solve; fail).
  unfold h_sess_start in H. destruct (subs s !! id) as [sb|]; [|discriminate]. apply rbind_ok in H as (u & _ & H).
  destruct (get_node s (ta_bytes nd)) as [n|] eqn:Hgn; [|discriminate].
  assert (Hnd : ta_bytes nd ∉ c_blocked (cfg s)).
  { pose proof (nodes_ok_get _ _ _ _ Hn Hgn) as Hx. destruct (get_node_kinv _ _ _ Hkn Hgn) as [<- _]. exact Hx. }
  res_inv; simpl; (apply map_Forall_insert_2; [|exact C]); unfold sess_rng; simpl; pose proof MAXINT_pos; repeat split; auto; lia.
Qed.

Lemma range_h_sess_update s from id up down du ok s' :
  range_inv s -> 0 <= up -> 0 <= down -> up + down < MAXINT -> h_sess_update s from id up down du ok = Ok s' -> range_inv s'.
Proof.
  intros Hr Hu Hd Hsum H. pose proof (h_sess_update_keeps _ _ _ _ _ _ _ _ H) as Hk.
  destruct (range_elim _ Hr) as (_ & _ & C & _ & _).
  apply (range_sess s); try (keeps_solve; fail).
  unfold h_sess_update in H. destruct (sessions s !! id) as [x|] eqn:Hx; [|discriminate].
  destruct (C _ _ Hx) as (_ & _ & _ & Hnode).
  res_inv; simpl; (apply map_Forall_insert_2; [|exact C]); unfold sess_rng; simpl; auto.
Qed.

Lemma range_h_sess_end s from id s' : range_inv s -> h_sess_end s from id = Ok s' -> range_inv s'.
Proof.
  intros Hr H. pose proof (h_sess_end_keeps _ _ _ _ H) as Hk.
  destruct (range_elim _ Hr) as (_ & _ & C & _ & _).
  apply (range_sess s); try (keeps_solve; fail).
  unfold h_sess_end in H. destruct (sessions s !! id) as [x|] eqn:Hx; [|discriminate]. res_inv.
  apply sess_rng_make_pending; [exact (C _ _ Hx)|exact C].
Qed.

(** * cancelling and sharing *)

(* replace subscriptions, allocations and sessions *)
Lemma range_subs_sess s s' :
  cfg s' = cfg s -> node_act s' = node_act s -> node_inact s' = node_inact s -> inflations s' = inflations s ->
  map_Forall (fun _ => sub_rng (cfg s)) (subs s') -> map_Forall (fun _ => alloc_rng) (allocs s') ->
  map_Forall (fun _ => sess_rng (cfg s)) (sessions s') -> range_inv s -> range_inv s'.
Proof.
  intros E0 E4 E5 E6 A B C Hr. destruct (range_elim _ Hr) as (_ & _ & _ & [D1 D2] & F).
  apply range_intro; unfold nodes_ok; rewrite ?E0, ?E4, ?E5, ?E6; auto.
Qed.

Lemma sub_rng_pending c sb t t' : sub_rng c sb -> sub_rng c (sb <| sb_inactive_at := t |> <| sb_status := SPending |> <| sb_status_at := t' |>).
Proof. intros H. exact H. Qed.

(* the tail shared by MsgCancel and the expiry of an active subscription *)
Lemma range_demote_tail s s0 s1 sb m s' :
  range_inv s -> subs s !! sb_id sb = Some sb \/ (exists id, subs s !! id = Some sb) ->
  keeps [GSub] s s0 -> subs s0 = subs s -> allocs s0 = allocs s ->
  sub_pending_hook s0 (sb_id sb) = Ok s1 -> (forall x, m <> Ok x) -> detach_payout (sub_make_pending s1 sb) sb m = Ok s' -> range_inv s'.
Proof.
  intros Hr Hsb K0 Es0 Ea0 Hp Hm H. destruct (range_elim _ Hr) as (A & B & C & _ & _).
  pose proof (sub_pending_hook_keeps _ _ _ Hp) as K1. pose proof (sub_make_pending_keeps s1 sb) as K2.
  destruct (detach_payout_fields _ _ _ _ Hm H) as (D1 & D2 & D3 & _).
  assert (K3 : keeps [GSub] (sub_make_pending s1 sb) s').
  { eapply detach_payout_keeps; [|exact H]. intros x Hx. exfalso. eapply Hm; eauto. }
  assert (Hrng : sub_rng (cfg s) sb) by (destruct Hsb as [Hsb|[i Hsb]]; exact (A _ _ Hsb)).
  apply (range_subs_sess s); try (keeps_solve; fail).
  - rewrite D2. unfold sub_make_pending. simpl. replace (subs s1) with (subs s) by (rewrite <- Es0; symmetry; keeps_solve).
    apply map_Forall_insert_2; [apply sub_rng_pending; exact Hrng|exact A].
  - rewrite D3. unfold sub_make_pending. simpl. replace (allocs s1) with (allocs s) by (rewrite <- Ea0; symmetry; keeps_solve). exact B.
  - rewrite D1. unfold sub_make_pending. simpl. eapply sess_rng_pending_hook; [|exact Hp].
    replace (sessions s0) with (sessions s) by (symmetry; keeps_solve). exact C.
Qed.

Lemma range_h_sub_cancel s from id s' : kinv_sub s -> range_inv s -> h_sub_cancel s from id = Ok s' -> range_inv s'.
Proof.
  intros Hks Hr H. unfold h_sub_cancel in H. destruct (subs s !! id) as [sb|] eqn:Hsb; [|discriminate].
  destruct (k_sub _ Hks _ _ Hsb) as (Eid & _).
  apply rbind_ok in H as (u & _ & H). apply rbind_ok in H as (u2 & _ & H). apply rbind_ok in H as (s2 & Hp & H).
  rewrite <- Eid in Hp.
  eapply (range_demote_tail s _ s2 sb Err); [exact Hr|right; eauto| | | |exact Hp|discriminate|exact H]; [keeps_solve|reflexivity|reflexivity].
Qed.

Lemma alloc_rng_allocate s from id to b s' :
  0 <= b < MAXINT -> map_Forall (fun _ al => alloc_ok al) (allocs s) -> map_Forall (fun _ => alloc_rng) (allocs s) ->
  h_sub_allocate s from id to b = Ok s' -> map_Forall (fun _ => alloc_rng) (allocs s').
Proof.
  intros Hb Hok Hall H. unfold h_sub_allocate in H. destruct (subs s !! id) as [sb|] eqn:Hsb; [|discriminate].
  apply rbind_ok in H as (u1 & _ & H). apply rbind_ok in H as (u2 & _ & H).
  destruct (allocs s !! (id, ta_bytes from)) as [fal|] eqn:Hfal; [|discriminate].
  apply rbind_ok in H as (u3 & _ & H).
  pose proof (Hok _ _ Hfal) as [F1 F2]. pose proof (Hall _ _ Hfal) as F3. unfold alloc_rng in F3.
  destruct (allocs s !! (id, ta_bytes to)) as [tal|] eqn:Htal; cbv beta iota zeta in H.
  - pose proof (Hok _ _ Htal) as [G1 G2]. pose proof (Hall _ _ Htal) as G3. unfold alloc_rng in G3.
    apply rbind_ok in H as (granted & Hgr & H). apply int_add_rng in Hgr as [-> Hgr].
    apply rbind_ok in H as (util & _ & H). apply rbind_ok in H as (avail & _ & H).
    apply rbind_ok in H as (u4 & _ & H). apply rbind_ok in H as (fg & Hfg & H). apply int_sub_ok in Hfg. subst fg.
    apply rbind_ok in H as (u5 & Hu5 & H). apply ensure_ok, negb_true_iff, Z.ltb_ge in Hu5.
    apply rbind_ok in H as (u6 & _ & H). injection H as <-. simpl.
    apply map_Forall_insert_2; [unfold alloc_rng; simpl; lia|]. apply map_Forall_insert_2; [unfold alloc_rng; simpl; lia|exact Hall].
  - apply rbind_ok in H as (granted & Hgr & H). apply int_add_rng in Hgr as [-> Hgr]. simpl in Hgr.
    apply rbind_ok in H as (util & _ & H). apply rbind_ok in H as (avail & _ & H).
    apply rbind_ok in H as (u4 & _ & H). apply rbind_ok in H as (fg & Hfg & H). apply int_sub_ok in Hfg. subst fg. simpl in H.
    apply rbind_ok in H as (u5 & Hu5 & H). apply ensure_ok, negb_true_iff, Z.ltb_ge in Hu5.
    apply rbind_ok in H as (u6 & _ & H). injection H as <-. simpl.
    apply map_Forall_insert_2; [unfold alloc_rng; simpl; lia|]. apply map_Forall_insert_2; [unfold alloc_rng; simpl; lia|exact Hall].
Qed.

Lemma range_h_sub_allocate s from id to b s' :
  quota_inv s -> range_inv s -> 0 <= b < MAXINT -> h_sub_allocate s from id to b = Ok s' -> range_inv s'.
Proof.
  intros Hq Hr Hb H. pose proof (h_sub_allocate_keeps _ _ _ _ _ _ H) as Hk.
  destruct (range_elim _ Hr) as (A & B & _ & _ & _).
  apply (range_subs s); try (keeps_solve; fail); [|].
  - replace (subs s') with (subs s); [exact A|]. unfold h_sub_allocate in H. res_inv; reflexivity.
  - eapply alloc_rng_allocate; eauto. apply Hq.
Qed.

(** * all message handlers *)

Lemma range_handle s m s' :
  kinv s -> quota_inv s -> range_inv s -> validate_basic m = true ->
  ta_bytes (msg_from m) ∉ c_blocked (cfg s) -> (forall d, bal s (ta_bytes (msg_from m)) d < BIG) ->
  handle s m = Ok s' -> range_inv s'.
Proof.
  intros Hi Hq Hr Hv Hnb Hbal H. destruct m; simpl in H, Hv, Hnb, Hbal.
  all: try (eapply range_keeps; [handler_keeps H; exact H|reflexivity|reflexivity|reflexivity|reflexivity|exact Hr]).
  - eapply range_h_node_register; eauto.
  - eapply range_h_node_update_details; eauto.
  - eapply range_h_node_update_status; eauto.
  - (* node subscribe *)
    pose proof (h_node_subscribe_keeps _ _ _ _ _ _ _ H) as Hk.
    unfold h_node_subscribe in H. res_inv.
    repeat rewrite andb_true_iff in Hv. destruct Hv as [[[_ Hg] _] _]. apply Z.leb_le in Hg.
    match goal with Hc : create_sub_for_node _ _ _ _ _ _ = Ok (?y, _) |- _ =>
      apply (range_frame y); [reflexivity..|]; eapply range_create_sub_for_node; [apply Hi|exact Hr|exact Hg|exact Hnb|exact Hbal|exact Hc] end.
  - (* plan subscribe *)
    unfold h_plan_subscribe in H. res_inv.
    match goal with Hc : create_sub_for_plan _ _ _ _ = Ok (?y, _) |- _ =>
      apply (range_frame y); [reflexivity..|]; eapply range_create_sub_for_plan; [exact Hq|exact Hr|exact Hnb|exact Hc] end.
  - eapply range_h_sub_cancel; eauto. apply Hi.
  - (* allocate *)
    repeat rewrite andb_true_iff in Hv. destruct Hv as [[[_ _] Hb0] Hb1]. apply Z.leb_le in Hb0. apply Z.ltb_lt in Hb1.
    eapply range_h_sub_allocate; eauto.
  - eapply range_h_sess_start; eauto. apply Hi.
  - (* session update *)
    repeat rewrite andb_true_iff in Hv. destruct Hv as [[[[[[[[_ _] Hu] _] Hd] _] Hs] _] _].
    apply Z.leb_le in Hu, Hd. apply Z.ltb_lt in Hs. exact (range_h_sess_update _ _ _ _ _ _ _ _ Hr Hu Hd Hs H).
  - eapply range_h_sess_end; eauto.
Qed.

(** * block hooks *)

Lemma range_payout_step s e s' : range_inv s -> payout_step s e = Ok s' -> range_inv s'.
Proof.
  intros Hr H. pose proof (payout_step_keeps _ _ _ H) as Hk.
  destruct (payouts s !! e.2) as [po|] eqn:Hpo; [|unfold payout_step in H; rewrite Hpo in H; discriminate].
  destruct (payout_step_spec s e s' po Hpo H) as (E1 & E2 & _).
  apply (range_frame s); try (keeps_solve; fail); auto.
Qed.

Lemma range_session_expire_one s e s' : kinv s -> range_inv s -> session_expire_one s e = Ok s' -> range_inv s'.
Proof.
  intros Hi Hr H. pose proof (session_expire_one_keeps _ _ _ H) as Hk.
  destruct (range_elim _ Hr) as (A & B & C & _ & _).
  unfold session_expire_one in H. destruct (sessions s !! e.2) as [x|] eqn:Hx; [|discriminate].
  pose proof (C _ _ Hx) as Hxr.
  case_bool_decide.
  - injection H as <-. apply (range_sess s); try reflexivity; [|exact Hr]. simpl. apply map_Forall_insert_2; [exact Hxr|exact C].
  - apply rbind_ok in H as (total & _ & H). apply rbind_ok in H as (s1 & Hh & H). apply must_ok in Hh. injection H as <-.
    pose proof (session_inactive_hook_keeps _ _ _ _ _ _ Hh) as K1.
    destruct (session_inactive_hook_subfields _ _ _ _ _ _ Hh) as (S1 & _).
    apply (range_subs_sess s); try (keeps_solve; fail); [simpl; rewrite S1; exact A| |simpl].
    + simpl. apply session_inactive_hook_allocs in Hh; [|eapply kinv_sub_frame; [..|apply (ki_sub _ Hi)]; reflexivity].
      destruct Hh as [E|(x0 & al & u' & _ & Hal & E & _)]; rewrite E; [exact B|].
      simpl in Hal. apply map_Forall_insert_2; [exact (B _ _ Hal)|exact B].
    + replace (sessions s1) with (sessions s) by (symmetry; keeps_solve). apply map_Forall_delete. exact C.
Qed.

Lemma alloc_rng_cleanup s sb : map_Forall (fun _ => alloc_rng) (allocs s) -> map_Forall (fun _ => alloc_rng) (allocs (sub_cleanup s sb)).
Proof.
  intros Hall. unfold sub_cleanup. destruct (sb_kind sb); simpl; [apply map_Forall_delete; exact Hall|].
  apply (fold_left_inv (fun y => map_Forall (fun _ => alloc_rng) (allocs y))); [|exact Hall].
  intros y al Hy. simpl. apply map_Forall_delete. exact Hy.
Qed.

Lemma range_sub_expire_one s e s' : kinv s -> range_inv s -> sub_expire_one s e = Ok s' -> range_inv s'.
Proof.
  intros Hi Hr H. pose proof (sub_expire_one_keeps _ _ _ H) as Hk.
  destruct (range_elim _ Hr) as (A & B & C & _ & _).
  unfold sub_expire_one in H. destruct (subs s !! e.2) as [sb|] eqn:Hsb; [|discriminate].
  case_bool_decide.
  - apply rbind_ok in H as (s1 & Hp & H). apply must_ok in Hp.
    eapply (range_demote_tail s _ s1 sb Panic); [exact Hr|right; eauto| | | |exact Hp|discriminate|exact H]; [keeps_solve|reflexivity|reflexivity].
  - apply rbind_ok in H as (s1 & Hrf & H). pose proof (sub_refund_keeps _ _ _ Hrf) as K1.
    destruct (sub_refund_subfields _ _ _ Hrf) as (_ & R1 & _ & _ & _ & _ & R2 & _).
    destruct (sub_cleanup_fields s1 sb) as (C1 & _). pose proof (sub_cleanup_keeps s1 sb) as K2.
    assert (E : subs s' = delete (sb_id sb) (subs s) /\ allocs s' = allocs (sub_cleanup s1 sb)).
    { unfold sub_delete_payout in H. repeat case_match; res_inv; simpl; rewrite C1; simpl in R1; rewrite R1; auto. }
    destruct E as [E1 E2]. apply sub_delete_payout_keeps in H.
    apply (range_subs s); try (keeps_solve; fail); [rewrite E1; apply map_Forall_delete; exact A|].
    rewrite E2. apply alloc_rng_cleanup. simpl in R2. rewrite R2. exact B.
Qed.

Lemma inf_rng_mint_loop l : forall s s',
  mint_loop l s = Ok s' -> map_Forall (fun _ => inf_rng) (inflations s) -> map_Forall (fun _ => inf_rng) (inflations s').
Proof.
  induction l as [|it l IH]; intros s s' H F; simpl in H; [injection H as <-; exact F|].
  destruct (now s <? inf_ts it); [injection H as <-; exact F|]. apply rbind_ok in H as (u & _ & H).
  apply IH in H; [exact H|]. unfold mint_apply. simpl. apply map_Forall_delete. exact F.
Qed.

Lemma range_mint_begin_block s s' : range_inv s -> mint_begin_block s = Ok s' -> range_inv s'.
Proof.
  intros Hr H. pose proof (mint_begin_block_keeps _ _ H) as Hk. destruct (range_elim _ Hr) as (A & B & C & [D1 D2] & F).
  assert (G : map_Forall (fun _ => inf_rng) (inflations s')) by (eapply inf_rng_mint_loop; [exact H|exact F]).
  apply range_intro; unfold nodes_ok.
  - replace (cfg s') with (cfg s) by (symmetry; keeps_solve). replace (subs s') with (subs s) by (symmetry; keeps_solve). exact A.
  - replace (allocs s') with (allocs s) by (symmetry; keeps_solve). exact B.
  - replace (cfg s') with (cfg s) by (symmetry; keeps_solve). replace (sessions s') with (sessions s) by (symmetry; keeps_solve). exact C.
  - replace (cfg s') with (cfg s) by (symmetry; keeps_solve). replace (node_act s') with (node_act s) by (symmetry; keeps_solve).
    replace (node_inact s') with (node_inact s) by (symmetry; keeps_solve). auto.
  - exact G.
Qed.

Lemma range_clear s : range_inv s -> range_inv (clear_events s).
Proof. apply range_frame; reflexivity. Qed.

(** * genesis *)

Lemma range_init g :
  (forall it, it ∈ g_inflations g -> mint_params_valid (inf_max it) (inf_min it) (inf_rate it) = true) -> range_inv (init g).
Proof.
  intros Hinf.
  assert (E : subs (init g) = ∅ /\ allocs (init g) = ∅ /\ sessions (init g) = ∅ /\ node_act (init g) = ∅ /\ node_inact (init g) = ∅ /\
              inflations (init g) = list_to_map (map (fun i => (inf_ts i, i)) (g_inflations g))).
  { unfold init. destruct (g_mint g) as [[[mx mn] rc] inf]. simpl.
    apply (fold_left_inv (fun x => subs x = ∅ /\ allocs x = ∅ /\ sessions x = ∅ /\ node_act x = ∅ /\ node_inact x = ∅ /\ _ = _));
      [|repeat split; reflexivity].
    intros x [b [d v]] Hx. exact Hx. }
  destruct E as (E1 & E2 & E3 & E4 & E5 & E6).
  apply range_intro; unfold nodes_ok; rewrite ?E1, ?E2, ?E3, ?E4, ?E5, ?E6; try apply map_Forall_empty; [split; apply map_Forall_empty|].
  intros t it Hl. apply elem_of_list_to_map_2 in Hl. apply elem_of_list_fmap in Hl as (it' & [= -> ->] & Hin). apply Hinf. exact Hin.
Qed.
