(* C12 (first half: "the exported genesis is valid"): every stored record passes the module's own Validate, in every
   state reachable inside the configuration domain (valid parameter sets, kept valid by governance; validated inflation
   schedule; block times after the zero time).  With GenesisReach.v: validate (export s) accepts every module's section. *)
From Hub Require Import Base.Prelude Base.Arith Model.Types Model.Keeper Model.Handlers Model.Hooks Model.Step Model.Genesis.
From Hub Require Import Proofs.Tactics Proofs.Sorting Proofs.Frames Proofs.KeysInv Proofs.Lifecycle Proofs.Bounds Proofs.GenesisRT Proofs.Link.

(** * coins *)

Definition coins_pos (c : coins) : Prop := forall d a, c !! d = Some a -> 0 < a /\ d <> 0%N.

Lemma coins_ok_pos c : coins_ok c = true <-> coins_pos c.
Proof.
  unfold coins_ok, coins_pos. rewrite forallb_forall. split.
  - intros H d a Hl. specialize (H (d, a)). rewrite <- elem_of_list_In, elem_of_coins_list in H. specialize (H Hl).
    apply andb_true_iff in H as [A B]. apply Z.ltb_lt in A. apply negb_true_iff, N.eqb_neq in B. auto.
  - intros H [d a] Hin. rewrite <- elem_of_list_In, elem_of_coins_list in Hin. destruct (H _ _ Hin) as [A B].
    apply andb_true_iff. split; [apply Z.ltb_lt; exact A|apply negb_true_iff, N.eqb_neq; exact B].
Qed.

Lemma coins_nonempty_ok_pos c : coins_nonempty_ok c = true <-> c <> ∅ /\ coins_pos c.
Proof.
  unfold coins_nonempty_ok. rewrite andb_true_iff, negb_true_iff, bool_decide_eq_false, coins_ok_pos. reflexivity.
Qed.

Lemma coins_pos_set c d a : coins_pos c -> 0 <= a -> (a <> 0 -> d <> 0%N) -> coins_pos (coins_set c d a).
Proof.
  intros Hc Ha Hd. unfold coins_set. destruct (Z.eqb_spec a 0) as [E|E]; intros d' a' Hl.
  - apply lookup_delete_Some in Hl as [_ Hl]. exact (Hc _ _ Hl).
  - apply lookup_insert_Some in Hl as [[<- <-]|[_ Hl]]; [split; [lia|auto]|exact (Hc _ _ Hl)].
Qed.

Lemma coins_set_nonempty c d a : 0 < a -> coins_set c d a <> ∅.
Proof. intros Ha. unfold coins_set. destruct (Z.eqb_spec a 0); [lia|]. apply insert_non_empty. Qed.

Lemma amount_of_nonneg c d : coins_pos c -> 0 <= amount_of c d.
Proof. intros Hc. unfold amount_of. destruct (c !! d) as [a|] eqn:E; simpl; [destruct (Hc _ _ E); lia|lia]. Qed.

(* a validated Coins field of a message *)
Lemma coins_sorted_pos l : coins_sorted l = true -> forall d a, (d, a) ∈ l -> 0 < a /\ d <> 0%N.
Proof.
  induction l as [|[d0 a0] l IH]; intros H d a Hin; [inversion Hin|]. simpl in H.
  repeat rewrite andb_true_iff in H. destruct H as [[[A B] _] C]. apply Z.ltb_lt in A. apply negb_true_iff, N.eqb_neq in B.
  apply elem_of_cons in Hin as [E|Hin]; [injection E as -> ->; auto|].
  destruct l as [|[d1 a1] l']; [inversion Hin|]. apply andb_true_iff in C as [_ C]. exact (IH C _ _ Hin).
Qed.

Lemma coins_of_field_ok l : negb (bool_decide (l = [])) && coins_sorted l = true -> coins_nonempty_ok (coins_of l) = true.
Proof.
  rewrite andb_true_iff, negb_true_iff, bool_decide_eq_false. intros [Hne Hs]. apply coins_nonempty_ok_pos. split.
  - destruct l as [|[d a] l]; [contradiction|]. unfold coins_of. simpl. apply insert_non_empty.
  - intros d a Hl. unfold coins_of in Hl. apply elem_of_list_to_map_2 in Hl. exact (coins_sorted_pos _ Hs _ _ Hl).
Qed.

(* a Coins parameter that passed its validator *)
Lemma coins_param_ok_ok l : coins_param_ok l = true -> coins_ok (coins_of l) = true.
Proof.
  unfold coins_param_ok. intros H. apply orb_true_iff in H as [H|H].
  - apply bool_decide_eq_true in H. subst l. reflexivity.
  - apply coins_ok_pos. intros d a Hl. unfold coins_of in Hl. apply elem_of_list_to_map_2 in Hl. exact (coins_sorted_pos _ H _ _ Hl).
Qed.

(* the per-key validators of a governance change are exactly what Params.Validate of the modules checks *)
Lemma pchange_valid_params s c : pchange_valid c = true -> params_valid (pars s) -> params_valid (pars (apply_pchange s c)).
Proof.
  unfold params_valid, prov_params_ok, node_params_ok, sub_params_ok, sess_params_ok, swap_params_ok, deposit_coin_ok.
  intros Hv (A & B & C & D & E). repeat rewrite andb_true_iff in *.
  destruct c; simpl in *; unfold coin_param_ok, pos_i64, Step.share_ok, denom_ok in Hv; repeat rewrite andb_true_iff in Hv;
    try (apply coins_param_ok_ok in Hv); unfold Genesis.share_ok in *; repeat rewrite andb_true_iff in *;
    intuition (try assumption; try (apply Z.ltb_lt; apply Z.ltb_lt in H; lia)).
Qed.
Lemma gov_params_valid cs : forall s, forallb pchange_valid cs = true -> params_valid (pars s) -> params_valid (pars (fold_left apply_pchange cs s)).
Proof.
  induction cs as [|c cs IH]; intros s Hv Hp; simpl in *; [exact Hp|]. apply andb_true_iff in Hv as [H1 H2].
  apply IH; [exact H2|]. apply pchange_valid_params; assumption.
Qed.

(* the end-of-block price sweep keeps a price vector valid *)
Lemma clamp_fold_pos (cmp : Z -> Z -> bool) (l : list coin) : forall p,
  (forall d a, (d, a) ∈ l -> 0 < a /\ d <> 0%N) -> p <> ∅ /\ coins_pos p ->
  let f := fun p '(d, a) => if cmp a (amount_of p d) then coins_set p d a else p in
  fold_left f l p <> ∅ /\ coins_pos (fold_left f l p).
Proof.
  induction l as [|[d a] l IH]; intros p Hl Hp; [exact Hp|]. simpl. apply IH; [intros d' a' Hin; apply Hl; right; exact Hin|].
  destruct (Hl d a ltac:(left)) as [Ha Hd]. destruct (cmp a (amount_of p d)); [|exact Hp].
  split; [apply coins_set_nonempty; exact Ha|apply coins_pos_set; [apply Hp|lia|auto]].
Qed.

Lemma clamp_max_ok p b : coins_ok b = true -> coins_nonempty_ok p = true -> coins_nonempty_ok (clamp_max p b) = true.
Proof.
  intros Hb Hp. apply coins_nonempty_ok_pos. apply coins_nonempty_ok_pos in Hp. apply coins_ok_pos in Hb. unfold clamp_max.
  apply (clamp_fold_pos (fun a x => a <? x) (coins_list b) p); [|exact Hp]. intros d a Hin. apply elem_of_coins_list in Hin. exact (Hb _ _ Hin).
Qed.
Lemma clamp_min_ok p b : coins_ok b = true -> coins_nonempty_ok p = true -> coins_nonempty_ok (clamp_min p b) = true.
Proof.
  intros Hb Hp. apply coins_nonempty_ok_pos. apply coins_nonempty_ok_pos in Hp. apply coins_ok_pos in Hb. unfold clamp_min.
  apply (clamp_fold_pos (fun a x => x <? a) (coins_list b) p); [|exact Hp]. intros d a Hin. apply elem_of_coins_list in Hin. exact (Hb _ _ Hin).
Qed.

(** * the invariant *)

Record rec_inv (s : state) : Prop := {
  rv_time : tzero < now s;
  rv_dep : dep_records_ok s;
  rv_prov : prov_records_ok s;
  rv_node : node_records_ok s;
  rv_plan : plan_records_ok s;
  rv_sess : sess_records_ok s;
  rv_swap : swap_records_ok s;
  rv_infl : infl_records_ok s;
  rv_pars : params_valid (pars s) }.

(* operations of the domain: time moves forward.  (Governance needs no premise: a proposal is executed only if
   every change passes its per-key validator, and those are exactly what the modules' Params.Validate check.) *)
Definition wf_op_rec (s : state) (o : op) : Prop :=
  match o with
  | OBegin t => now s < t
  | _ => True
  end.

(** * deposits *)

Lemma dep_ok_frame s s' : deposits s' = deposits s -> dep_records_ok s -> dep_records_ok s'.
Proof. unfold dep_records_ok. intros ->. auto. Qed.

Lemma validate_deposit_iff a c : validate_deposit (a, c) = true <-> addr_ok a = true /\ c <> ∅ /\ coins_pos c.
Proof. unfold validate_deposit. simpl. rewrite andb_true_iff, coins_nonempty_ok_pos. reflexivity. Qed.

Lemma dep_ok_store s a c :
  dep_records_ok s -> (c <> ∅ -> validate_deposit (a, c) = true) -> dep_records_ok (dep_store s a c).
Proof.
  intros Hd Hc. unfold dep_store. case_bool_decide as E; intros a' c' Hl; simpl in Hl.
  - apply lookup_delete_Some in Hl as [_ Hl]. exact (Hd _ _ Hl).
  - apply lookup_insert_Some in Hl as [[<- <-]|[_ Hl]]; [exact (Hc E)|exact (Hd _ _ Hl)].
Qed.

Lemma dep_remaining_valid s from d amt dep' :
  dep_records_ok s -> 0 <= amt -> dep_remaining s from d amt = Ok dep' -> dep' <> ∅ -> validate_deposit (from, dep') = true.
Proof.
  intros Hd Ha H Hne. unfold dep_remaining in H. destruct (deposits s !! from) as [dep|] eqn:E; [|discriminate].
  revert H. destruct (Z.ltb_spec (amount_of dep d - amt) 0) as [Hlt|Hge]; intros H; [discriminate|]. injection H as <-.
  pose proof (Hd _ _ E) as Hv. apply validate_deposit_iff in Hv as (A & _ & C). apply validate_deposit_iff. split; [exact A|]. split; [exact Hne|].
  apply coins_pos_set; [exact C|lia|]. intros Hr. unfold amount_of in *. destruct (dep !! d) as [v|] eqn:Ev; simpl in *; [exact (proj2 (C _ _ Ev))|lia].
Qed.

Lemma dep_ok_to_account s f t d amt s' : dep_records_ok s -> dep_to_account s f t d amt = Ok s' -> dep_records_ok s'.
Proof.
  intros Hd H. unfold dep_to_account in H. apply rbind_ok in H as (dep' & Hr & H). apply rbind_ok in H as (s1 & Hs & H). injection H as <-.
  apply bank_send_to_account_keeps in Hs as Hk. unfold bank_send_to_account in Hs. destruct (is_blocked s t); [discriminate|].
  assert (Ha : 0 <= amt) by (unfold bank_send in Hs; revert Hs; destruct (Z.ltb_spec amt 0) as [Hlt|Hge]; intros Hs; [discriminate|lia]).
  apply (dep_ok_frame (dep_store s1 f dep')); [reflexivity|]. apply dep_ok_store.
  - eapply dep_ok_frame; [|exact Hd]. keeps_solve.
  - intros Hne. eapply dep_remaining_valid; eauto.
Qed.

Lemma dep_ok_to_module s f m d amt s' : dep_records_ok s -> dep_to_module s f m d amt = Ok s' -> dep_records_ok s'.
Proof.
  intros Hd H. unfold dep_to_module in H. apply rbind_ok in H as (dep' & Hr & H). apply rbind_ok in H as (s1 & Hs & H). injection H as <-.
  apply bank_send_keeps in Hs as Hk.
  assert (Ha : 0 <= amt) by (unfold bank_send in Hs; revert Hs; destruct (Z.ltb_spec amt 0) as [Hlt|Hge]; intros Hs; [discriminate|lia]).
  apply (dep_ok_frame (dep_store s1 f dep')); [reflexivity|]. apply dep_ok_store.
  - eapply dep_ok_frame; [|exact Hd]. keeps_solve.
  - intros Hne. eapply dep_remaining_valid; eauto.
Qed.

Lemma dep_ok_z_to_account s f t (c : coin) s' : dep_records_ok s -> z_dep_to_account s f t c = Ok s' -> dep_records_ok s'.
Proof. intros Hd H. unfold z_dep_to_account in H. destruct (c.2 =? 0); [injection H as <-; exact Hd|eapply dep_ok_to_account; eauto]. Qed.
Lemma dep_ok_z_to_module s f m (c : coin) s' : dep_records_ok s -> z_dep_to_module s f m c = Ok s' -> dep_records_ok s'.
Proof. intros Hd H. unfold z_dep_to_module in H. destruct (c.2 =? 0); [injection H as <-; exact Hd|eapply dep_ok_to_module; eauto]. Qed.

Lemma dep_ok_z_add s a (c : coin) s' :
  dep_records_ok s -> addr_ok a = true -> (c.2 <> 0 -> c.1 <> 0%N) -> z_dep_add s a c = Ok s' -> dep_records_ok s'.
Proof.
  intros Hd Ha Hc H. unfold z_dep_add in H. destruct (c.2 =? 0) eqn:E; [injection H as <-; exact Hd|]. apply Z.eqb_neq in E.
  unfold dep_add in H. apply rbind_ok in H as (s1 & Hs & H). injection H as <-. apply bank_send_keeps in Hs as Hk.
  assert (Hamt : 0 < c.2) by (unfold bank_send in Hs; revert Hs; destruct (Z.ltb_spec c.2 0) as [Hlt|Hge]; intros Hs; [discriminate|lia]).
  assert (Hd1 : dep_records_ok s1) by (eapply dep_ok_frame; [|exact Hd]; keeps_solve).
  intros a' c' Hl. simpl in Hl. apply lookup_insert_Some in Hl as [[<- <-]|[_ Hl]]; [|exact (Hd1 _ _ Hl)].
  apply validate_deposit_iff. split; [exact Ha|].
  assert (Hp : coins_pos (dep_of s1 a)).
  { unfold dep_of. destruct (deposits s1 !! a) as [c0|] eqn:E0; simpl; [pose proof (Hd1 _ _ E0) as Hv; apply validate_deposit_iff in Hv as (_ & _ & C); exact C|].
    intros d' a' Hx. rewrite lookup_empty in Hx. discriminate. }
  pose proof (amount_of_nonneg _ c.1 Hp). unfold coins_add.
  split; [apply coins_set_nonempty; lia|apply coins_pos_set; [exact Hp|lia|intros _; apply Hc; exact E]].
Qed.

(** * providers, nodes, plans: records in two partitions *)

Lemma prov_ok_frame s s' : prov_act s' = prov_act s -> prov_inact s' = prov_inact s -> prov_records_ok s -> prov_records_ok s'.
Proof. unfold prov_records_ok. intros -> ->. auto. Qed.
Lemma node_ok_frame s s' : node_act s' = node_act s -> node_inact s' = node_inact s -> node_records_ok s -> node_records_ok s'.
Proof. unfold node_records_ok. intros -> ->. auto. Qed.
Lemma plan_ok_frame s s' : plan_act s' = plan_act s -> plan_inact s' = plan_inact s -> plan_records_ok s -> plan_records_ok s'.
Proof. unfold plan_records_ok. intros -> ->. auto. Qed.

Lemma prov_ok_get s a p : prov_records_ok s -> get_provider s a = Some p -> validate_provider p = true.
Proof. intros H Hg. apply H. unfold get_provider in Hg. destruct (prov_act s !! a) eqn:E; [injection Hg as <-; left; eauto|right; eauto]. Qed.
Lemma node_ok_get s a n : node_records_ok s -> get_node s a = Some n -> validate_node n = true.
Proof. intros H Hg. apply H. apply get_node_cases in Hg as [Hg|[_ Hg]]; [left|right]; eauto. Qed.
Lemma plan_ok_get s id p : plan_records_ok s -> get_plan s id = Some p -> validate_plan p = true.
Proof. intros H Hg. apply H. apply get_plan_cases in Hg as [Hg|[_ Hg]]; [left|right]; eauto. Qed.

Lemma prov_ok_set s p s' : prov_records_ok s -> validate_provider p = true -> set_provider s p = Ok s' -> prov_records_ok s'.
Proof.
  intros H Hp Hs. unfold set_provider in Hs. destruct (pv_status p); try discriminate; injection Hs as <-; intros q [[a Hq]|[a Hq]]; simpl in Hq;
    try (apply lookup_insert_Some in Hq as [[_ <-]|[_ Hq]]; [exact Hp|]); apply H; eauto.
Qed.
Lemma node_ok_set s n s' : node_records_ok s -> validate_node n = true -> set_node s n = Ok s' -> node_records_ok s'.
Proof.
  intros H Hp Hs. unfold set_node in Hs. destruct (nd_status n); try discriminate; injection Hs as <-; intros q [[a Hq]|[a Hq]]; simpl in Hq;
    try (apply lookup_insert_Some in Hq as [[_ <-]|[_ Hq]]; [exact Hp|]); apply H; eauto.
Qed.
Lemma plan_ok_set s p s' : plan_records_ok s -> validate_plan p = true -> set_plan s p = Ok s' -> plan_records_ok s'.
Proof.
  intros H Hp Hs. unfold set_plan in Hs. destruct (pl_status p); try discriminate; injection Hs as <-; intros q [[a Hq]|[a Hq]]; simpl in Hq;
    try (apply lookup_insert_Some in Hq as [[_ <-]|[_ Hq]]; [exact Hp|]); apply H; eauto.
Qed.

(* dropping entries of a partition keeps the rest valid *)
Lemma prov_ok_sub s s' : prov_act s' ⊆ prov_act s -> prov_inact s' ⊆ prov_inact s -> prov_records_ok s -> prov_records_ok s'.
Proof. intros A B H p [[a Hp]|[a Hp]]; apply H; [left|right]; exists a; eapply lookup_weaken; eauto. Qed.
Lemma node_ok_sub s s' : node_act s' ⊆ node_act s -> node_inact s' ⊆ node_inact s -> node_records_ok s -> node_records_ok s'.
Proof. intros A B H p [[a Hp]|[a Hp]]; apply H; [left|right]; exists a; eapply lookup_weaken; eauto. Qed.
Lemma plan_ok_sub s s' : plan_act s' ⊆ plan_act s -> plan_inact s' ⊆ plan_inact s -> plan_records_ok s -> plan_records_ok s'.
Proof. intros A B H p [[a Hp]|[a Hp]]; apply H; [left|right]; exists a; eapply lookup_weaken; eauto. Qed.

(** * sessions, swaps, schedule *)

Lemma sess_ok_frame s s' : sessions s' = sessions s -> sess_records_ok s -> sess_records_ok s'.
Proof. unfold sess_records_ok. intros ->. auto. Qed.
Lemma swap_ok_frame s s' : swaps s' = swaps s -> swap_records_ok s -> swap_records_ok s'.
Proof. unfold swap_records_ok. intros ->. auto. Qed.
Lemma infl_ok_frame s s' : inflations s' = inflations s -> infl_records_ok s -> infl_records_ok s'.
Proof. unfold infl_records_ok. intros ->. auto. Qed.

(* a session made pending at a time after the zero time stays a valid record *)
Lemma validate_session_pending x t t' :
  validate_session x = true -> t <> tzero -> t' <> tzero ->
  validate_session (x <| ss_inactive_at := t |> <| ss_status := SPending |> <| ss_status_at := t' |>) = true.
Proof.
  unfold validate_session. simpl. repeat rewrite andb_true_iff. intros [[[[[[[[[A B] C] D] E] F] G] _] _] _] Ht Ht'.
  repeat split; auto; apply negb_true_iff, Z.eqb_neq; assumption.
Qed.

Lemma sess_ok_make_pending s x :
  tzero < now s -> 0 < p_sess_delay (pars s) -> sess_records_ok s -> validate_session x = true -> sess_records_ok (session_make_pending s x).
Proof.
  intros Ht Hd H Hx id y Hl. unfold session_make_pending in Hl. simpl in Hl.
  apply lookup_insert_Some in Hl as [[_ <-]|[_ Hl]]; [|exact (H _ _ Hl)].
  apply validate_session_pending; [exact Hx|lia|lia].
Qed.

Lemma sess_ok_pending_hook s id s' :
  tzero < now s -> 0 < p_sess_delay (pars s) -> sess_records_ok s -> sub_pending_hook s id = Ok s' -> sess_records_ok s'.
Proof.
  intros Ht Hd H Hp. unfold sub_pending_hook in Hp.
  assert (G : (now s' = now s /\ pars s' = pars s) /\ sess_records_ok s').
  { eapply (rfold_inv (fun y => (now y = now s /\ pars y = pars s) /\ sess_records_ok y)); [|split; [split; reflexivity|exact H]|exact Hp].
    intros a sid b [[N P] Ha] Hstep. cbv beta in Hstep. destruct (sessions a !! sid) as [x|] eqn:Hx; [|discriminate].
    case_bool_decide; injection Hstep as <-; [|auto]. split; [split; [rewrite <- N|rewrite <- P]; reflexivity|].
    apply sess_ok_make_pending; [rewrite N; exact Ht|rewrite P; exact Hd|exact Ha|exact (Ha _ _ Hx)]. }
  apply G.
Qed.

(** * one transaction *)

Lemma slen_eq x : Handlers.slen x = Genesis.slen x.
Proof. reflexivity. Qed.
Lemma slen_pos x : Handlers.slen x <> 0 -> (0 <? Handlers.slen x) = true.
Proof. intros H. apply Z.ltb_lt. unfold Handlers.slen in *. pose proof (Nat2Z.is_nonneg (String.length x)). lia. Qed.

Ltac vb_split Hv := repeat rewrite andb_true_iff in Hv.

Ltac rec_frames s0 :=
  repeat match goal with
  | |- dep_records_ok _ => apply (dep_ok_frame s0); [solve [keeps_solve]|assumption]
  | |- prov_records_ok _ => apply (prov_ok_frame s0); [solve [keeps_solve]|solve [keeps_solve]|assumption]
  | |- node_records_ok _ => apply (node_ok_frame s0); [solve [keeps_solve]|solve [keeps_solve]|assumption]
  | |- plan_records_ok _ => apply (plan_ok_frame s0); [solve [keeps_solve]|solve [keeps_solve]|assumption]
  | |- sess_records_ok _ => apply (sess_ok_frame s0); [solve [keeps_solve]|assumption]
  | |- swap_records_ok _ => apply (swap_ok_frame s0); [solve [keeps_solve]|assumption]
  | |- infl_records_ok _ => apply (infl_ok_frame s0); [solve [keeps_solve]|assumption]
  end.

(* assemble [rec_inv s'] from [rec_inv s] and a frame fact, leaving the components the operation touches *)
Lemma rec_inv_intro s s' :
  now s' = now s -> pars s' = pars s -> rec_inv s ->
  dep_records_ok s' -> prov_records_ok s' -> node_records_ok s' -> plan_records_ok s' -> sess_records_ok s' ->
  swap_records_ok s' -> infl_records_ok s' -> rec_inv s'.
Proof. intros En Ep [T _ _ _ _ _ _ _ Q]. split; try assumption; [rewrite En; exact T|rewrite Ep; exact Q]. Qed.

Lemma params_valid_facts p : params_valid p ->
  0 < p_node_active p /\ 0 < p_sess_delay p /\ p_swap_denom p <> 0%N /\
  coins_ok (p_max_gb p) = true /\ coins_ok (p_min_gb p) = true /\ coins_ok (p_max_hr p) = true /\ coins_ok (p_min_hr p) = true.
Proof.
  intros (_ & Hn & _ & Hs & Hw). unfold node_params_ok, sess_params_ok, swap_params_ok in *.
  repeat rewrite andb_true_iff in Hn. destruct Hn as [[[[[[[[[[_ A] B] C] D] E] _] _] _] _] _].
  apply andb_true_iff in Hw as [W _]. apply Z.ltb_lt in A, Hs. apply negb_true_iff, N.eqb_neq in W. auto 10.
Qed.

Lemma rec_handle s m s' : kinv s -> rec_inv s -> validate_basic m = true -> handle s m = Ok s' -> rec_inv s'.
Proof.
  intros Hi Hr Hv H. pose proof Hr as [T D P N L S W I Q].
  destruct (params_valid_facts _ Q) as (Qa & Qs & Qw & Q1 & Q2 & Q3 & Q4).
  assert (Tz : now s <> tzero) by lia.
  destruct m; simpl in H, Hv.
  - (* provider register *)
    pose proof (h_prov_register_keeps _ _ _ _ _ _ _ H) as Hk. apply (rec_inv_intro s); try (keeps_solve; fail); try exact Hr; rec_frames s.
    vb_split Hv. destruct Hv as [[[[[[Hf Hn0] Hn1] Hi1] Hw1] _] Hd1]. unfold h_prov_register in H. res_inv.
    match goal with Hf0 : fund_pool s _ _ = Ok ?y, Hs : set_provider ?y ?pp = Ok ?z |- _ => apply fund_pool_keeps in Hf0;
      apply (prov_ok_frame z); [reflexivity..|]; apply (prov_ok_set y pp z); [apply (prov_ok_frame s); [solve [keeps_solve]..|exact P]| |exact Hs] end.
    unfold validate_provider. simpl. rewrite <- !slen_eq. unfold ta_valid, addr_ok, is_empty in *. vb_split Hf.
    repeat (apply andb_true_iff; split); try tauto. apply negb_true_iff, Z.eqb_neq in Hn0. apply slen_pos. exact Hn0.
  - (* provider update *)
    pose proof (h_prov_update_keeps _ _ _ _ _ _ _ _ H) as Hk. apply (rec_inv_intro s); try (keeps_solve; fail); try exact Hr; rec_frames s.
    vb_split Hv. destruct Hv as [[[[[[Hf Hn1] Hi1] Hw1] _] Hd1] Hst]. apply bool_decide_eq_true in Hst.
    unfold h_prov_update in H. destruct (get_provider s (ta_bytes from)) as [p|] eqn:Hg; [|discriminate].
    pose proof (prov_ok_get _ _ _ P Hg) as Hp.
    match type of H with (let '(s1, p2) := ?e in _) = _ => destruct e as [s1 p2] eqn:Ep end.
    apply rbind_ok in H as (s2 & Hs & H). injection H as <-.
    assert (G : prov_records_ok s1 /\ validate_provider p2 = true).
    { unfold validate_provider in *. vb_split Hp. destruct Hp as [[[[[[A1 A2] A3] A4] A5] A6] A7].
      assert (Hname : (0 <? Genesis.slen (if is_empty name then pv_name p else name)) && (Genesis.slen (if is_empty name then pv_name p else name) <=? 64) = true).
      { unfold is_empty. destruct (Z.eqb_spec (Handlers.slen name) 0) as [E|E]; [rewrite A2, A3; reflexivity|].
        rewrite <- slen_eq, Hn1, andb_true_r. apply slen_pos. exact E. }
      apply andb_true_iff in Hname as [Hna Hnb]. unfold Genesis.slen, Handlers.slen in *.
      repeat case_bool_decide; injection Ep as <- <-; simpl; (split; [first [exact P | eapply prov_ok_sub; [| |exact P]; simpl; first [apply delete_subseteq|reflexivity]]|]);
        rewrite A1, Hna, Hnb, Hi1, Hw1, Hd1; simpl;
        destruct Hst as [->|[->| ->]]; try reflexivity; try congruence; try (exfalso; tauto); auto. }
    destruct G as [G1 G2]. apply (prov_ok_frame s2); [reflexivity..|]. eapply prov_ok_set; eauto.
  - (* node register *)
    pose proof (h_node_register_keeps _ _ _ _ _ _ H) as Hk. apply (rec_inv_intro s); try (keeps_solve; fail); try exact Hr; rec_frames s.
    vb_split Hv. destruct Hv as [[[[[Hf Hgb] Hhr] Hu0] Hu1] _]. unfold h_node_register in H. res_inv.
    match goal with Hf0 : fund_pool s _ _ = Ok ?y, Hs : set_node ?y ?pp = Ok ?z |- _ => apply fund_pool_keeps in Hf0;
      apply (node_ok_frame z); [reflexivity..|]; apply (node_ok_set y pp z); [apply (node_ok_frame s); [solve [keeps_solve]..|exact N]| |exact Hs] end.
    unfold validate_node. simpl. rewrite <- !slen_eq. unfold ta_valid, addr_ok, is_empty, coins_field_ok in *. vb_split Hf.
    destruct gb as [gbl|]; [|discriminate]. destruct hr as [hrl|]; [|discriminate]. simpl.
    rewrite (coins_of_field_ok _ Hgb), (coins_of_field_ok _ Hhr).
    repeat (apply andb_true_iff; split); try tauto; try reflexivity.
    + apply negb_true_iff, Z.eqb_neq in Hu0. apply slen_pos. exact Hu0.
    + apply negb_true_iff, Z.eqb_neq. exact Tz.
  - (* node update details *)
    pose proof (h_node_update_details_keeps _ _ _ _ _ _ H) as Hk. apply (rec_inv_intro s); try (keeps_solve; fail); try exact Hr; rec_frames s.
    vb_split Hv. destruct Hv as [[[Hf Hgb] Hhr] Hu]. unfold h_node_update_details in H.
    apply rbind_ok in H as (u1 & _ & H). apply rbind_ok in H as (u2 & _ & H).
    destruct (get_node s (ta_bytes from)) as [n|] eqn:Hg; [|discriminate]. apply rbind_ok in H as (s1 & Hs & H). injection H as <-.
    pose proof (node_ok_get _ _ _ N Hg) as Hn. apply (node_ok_frame s1); [reflexivity..|]. eapply node_ok_set; [exact N| |exact Hs].
    unfold validate_node in *. simpl. vb_split Hn. destruct Hn as [[[[[[[A1 A2] A3] A4] A5] A6] A7] A8].
    assert (Hg2 : coins_nonempty_ok (match gb with Some l => coins_of l | None => nd_gb_prices n end) = true).
    { destruct gb as [l|]; [apply coins_of_field_ok; exact Hgb|exact A2]. }
    assert (Hh2 : coins_nonempty_ok (match hr with Some l => coins_of l | None => nd_hr_prices n end) = true).
    { destruct hr as [l|]; [apply coins_of_field_ok; exact Hhr|exact A3]. }
    rewrite Hg2, Hh2, A1, A6, A7, A8. simpl.
    unfold is_empty in *. destruct (Z.eqb_spec (Handlers.slen url) 0) as [E|E]; [rewrite A4, A5; reflexivity|].
    simpl in Hu. apply andb_true_iff in Hu as [Hu _]. rewrite <- !slen_eq, Hu, !andb_true_r. apply slen_pos. exact E.
  - (* node update status *)
    pose proof (h_node_update_status_keeps _ _ _ _ H) as Hk. apply (rec_inv_intro s); try (keeps_solve; fail); try exact Hr; rec_frames s.
    apply andb_true_iff in Hv as [_ Hst]. apply bool_decide_eq_true in Hst.
    unfold h_node_update_status in H. destruct (get_node s (ta_bytes from)) as [n|] eqn:Hg; [|discriminate].
    pose proof (node_ok_get _ _ _ N Hg) as Hn.
    match type of H with (let '(s3, n1) := ?e in _) = _ => destruct e as [s3 n1] eqn:Ep end.
    apply rbind_ok in H as (s4 & Hs & H). injection H as <-.
    assert (G : node_records_ok s3 /\ n1 = (if bool_decide (st = SActive) then n <| nd_inactive_at := now s + p_node_active (pars s) |> else n)).
    { repeat case_bool_decide; injection Ep as <- <-; simpl; (split; [|reflexivity]);
        try (eapply node_ok_sub; [| |exact N]; simpl; repeat first [apply delete_subseteq | reflexivity | (etransitivity; [apply delete_subseteq|])]). }
    destruct G as [G1 G2]. apply (node_ok_frame s4); [reflexivity..|]. eapply node_ok_set; [exact G1| |exact Hs].
    unfold validate_node in *. vb_split Hn. destruct Hn as [[[[[[[A1 A2] A3] A4] A5] A6] A7] A8].
    destruct Hst as [-> | ->]; rewrite G2; simpl; rewrite ?A1, ?A2, ?A3, ?A4, ?A5; simpl.
    + destruct (now s + p_node_active (pars s) =? tzero) eqn:E0; [apply Z.eqb_eq in E0; lia|]. simpl. apply negb_true_iff, Z.eqb_neq. exact Tz.
    + apply negb_true_iff, Z.eqb_neq. exact Tz.
  - (* node subscribe: the deposit *)
    pose proof (h_node_subscribe_keeps _ _ _ _ _ _ _ H) as Hk. apply (rec_inv_intro s); try (keeps_solve; fail); try exact Hr; rec_frames s.
    vb_split Hv. destruct Hv as [[[[[[Hf _] _] _] _] _] Hdn]. unfold denom_ok in Hdn. apply negb_true_iff, N.eqb_neq in Hdn.
    assert (Ha : addr_ok (ta_bytes from) = true) by (unfold ta_valid, addr_ok in *; vb_split Hf; apply andb_true_iff; tauto).
    unfold h_node_subscribe in H. res_inv.
    match goal with Hc : create_sub_for_node _ _ _ _ _ _ = Ok (?y, _) |- _ => apply (dep_ok_frame y); [reflexivity|]; rename Hc into Hc0 end.
    unfold create_sub_for_node, new_coin in Hc0. res_inv;
      first [ match goal with Hz : z_dep_add ?s0 _ ?c = Ok ?y, D0 : dep_records_ok ?s0 |- _ =>
                assert (Dy : dep_records_ok y) by (eapply (dep_ok_z_add s0 _ c); [exact D0|exact Ha| |exact Hz]; simpl; intros; first [exact Hdn | lia]) end;
              pose_keeps; simpl; eapply dep_ok_frame; [|exact Dy]; simpl; reflexivity
            | pose_keeps; simpl; match goal with D0 : dep_records_ok ?s0 |- _ => eapply dep_ok_frame; [|exact D0]; simpl; reflexivity end ].
  - (* plan create *)
    pose proof (h_plan_create_keeps _ _ _ _ _ _ H) as Hk. apply (rec_inv_intro s); try (keeps_solve; fail); try exact Hr; rec_frames s.
    vb_split Hv. destruct Hv as [[[Hf Hdu] Hgb] Hpr]. unfold h_plan_create in H. res_inv.
    match goal with Hs : set_plan ?y ?pp = Ok ?z |- _ => apply (plan_ok_frame z); [reflexivity..|]; apply (plan_ok_set y pp z); [apply (plan_ok_frame s); [reflexivity..|exact L]| |exact Hs] end.
    unfold validate_plan. simpl. unfold ta_valid, addr_ok, coins_field_ok in *. vb_split Hf. destruct prices as [pl|]; [|discriminate]. simpl.
    rewrite (coins_of_field_ok _ Hpr), Hdu, Hgb. pose proof (k_lc _ (ki_plan _ Hi)).
    repeat (apply andb_true_iff; split); try tauto; try reflexivity; apply negb_true_iff, Z.eqb_neq; lia.
  - (* plan update status *)
    pose proof (h_plan_update_status_keeps _ _ _ _ _ H) as Hk. apply (rec_inv_intro s); try (keeps_solve; fail); try exact Hr; rec_frames s.
    vb_split Hv. destruct Hv as [[_ _] Hst]. apply bool_decide_eq_true in Hst.
    unfold h_plan_update_status in H. destruct (get_plan s id) as [p|] eqn:Hg; [|discriminate]. pose proof (plan_ok_get _ _ _ L Hg) as Hp.
    apply rbind_ok in H as (u & _ & H). apply rbind_ok in H as (s3 & Hs & H). injection H as <-.
    apply (plan_ok_frame s3); [reflexivity..|]. eapply plan_ok_set; [| |exact Hs].
    + repeat case_bool_decide; simpl; first [exact L | eapply plan_ok_sub; [| |exact L]; simpl; repeat first [apply delete_subseteq | reflexivity | (etransitivity; [apply delete_subseteq|])]].
    + unfold validate_plan in *. simpl. vb_split Hp. destruct Hp as [[[[[[A1 A2] A3] A4] A5] _] _]. rewrite A1, A2, A3, A4, A5. simpl.
      destruct Hst as [-> | ->]; simpl; apply negb_true_iff, Z.eqb_neq; exact Tz.
  - (* link *) pose proof (h_plan_link_keeps _ _ _ _ _ H) as Hk. apply (rec_inv_intro s); try (keeps_solve; fail); try exact Hr; rec_frames s.
    unfold h_plan_link in H. res_inv. apply (plan_ok_frame s); [reflexivity..|exact L].
  - (* unlink *) pose proof (h_plan_unlink_keeps _ _ _ _ _ H) as Hk. apply (rec_inv_intro s); try (keeps_solve; fail); try exact Hr; rec_frames s.
    unfold h_plan_unlink in H. res_inv. apply (plan_ok_frame s); [reflexivity..|exact L].
  - (* plan subscribe *) pose proof (h_plan_subscribe_keeps _ _ _ _ _ H) as Hk. apply (rec_inv_intro s); try (keeps_solve; fail); try exact Hr; rec_frames s.
  - (* cancel: sessions of the subscription become pending *)
    pose proof (h_sub_cancel_keeps _ _ _ _ H) as Hk. apply (rec_inv_intro s); try (keeps_solve; fail); try exact Hr; rec_frames s.
    unfold h_sub_cancel in H. destruct (subs s !! id) as [sb|]; [|discriminate].
    apply rbind_ok in H as (u & _ & H). apply rbind_ok in H as (u2 & _ & H). apply rbind_ok in H as (s2 & Hp & H).
    destruct (Link.detach_payout_fields _ _ Err _ ltac:(intros ? ?; discriminate) H) as (D1 & _).
    eapply sess_ok_frame; [exact D1|]. unfold sub_make_pending. simpl.
    eapply (sess_ok_frame s2); [reflexivity|]. eapply sess_ok_pending_hook; [| | |exact Hp]; simpl; auto.
  - (* allocate *) pose proof (h_sub_allocate_keeps _ _ _ _ _ _ H) as Hk. apply (rec_inv_intro s); try (keeps_solve; fail); try exact Hr; rec_frames s.
  - (* session start *)
    pose proof (h_sess_start_keeps _ _ _ _ _ H) as Hk. apply (rec_inv_intro s); try (keeps_solve; fail); try exact Hr; rec_frames s.
    vb_split Hv. destruct Hv as [[Hf Hid] Hnd]. apply negb_true_iff, Z.eqb_neq in Hid.
    assert (Ha : addr_ok (ta_bytes from) = true) by (unfold ta_valid, addr_ok in *; vb_split Hf; apply andb_true_iff; tauto).
    assert (Hb : addr_ok (ta_bytes nd) = true) by (unfold ta_valid, addr_ok in *; vb_split Hnd; apply andb_true_iff; tauto).
    pose proof (k_ssc _ (ki_sess _ Hi)).
    unfold h_sess_start in H. destruct (subs s !! id) as [sb|]; [|discriminate]. apply rbind_ok in H as (u & _ & H).
    destruct (get_node s (ta_bytes nd)) as [n|]; [|discriminate].
    apply rbind_ok in H as (u2 & _ & H). apply rbind_ok in H as (u3 & _ & H). apply rbind_ok in H as (chk & _ & H).
    apply rbind_ok in H as (u4 & _ & H). apply rbind_ok in H as (latest & _ & H). apply rbind_ok in H as (u5 & _ & H). injection H as <-.
    unfold sess_records_ok. simpl. apply (map_Forall_insert_2 (fun _ x => validate_session x = true)); [|exact S].
    unfold validate_session. simpl. rewrite Ha, Hb. simpl.
    repeat (apply andb_true_iff; split); try reflexivity; apply negb_true_iff, Z.eqb_neq; lia.
  - (* usage report *)
    pose proof (h_sess_update_keeps _ _ _ _ _ _ _ _ H) as Hk. apply (rec_inv_intro s); try (keeps_solve; fail); try exact Hr; rec_frames s.
    vb_split Hv. destruct Hv as [[[[[[[[_ _] Hu] _] Hd0] _] _] Hdu] _].
    unfold h_sess_update in H. destruct (sessions s !! id) as [x|] eqn:Hx; [|discriminate]. pose proof (S _ _ Hx) as Hxv.
    apply rbind_ok in H as (u1 & _ & H). apply rbind_ok in H as (u2 & _ & H). apply rbind_ok in H as (u3 & _ & H).
    unfold validate_session in Hxv. vb_split Hxv. destruct Hxv as [[[[[[[[[A1 A2] A3] A4] _] _] _] A8] A9] A10].
    case_bool_decide as Hact; injection H as <-; unfold sess_records_ok; simpl;
      (apply (map_Forall_insert_2 (fun _ x => validate_session x = true)); [|exact S]);
      unfold validate_session; simpl; rewrite A1, A2, A3, A4, Hu, Hd0, Hdu, A10, ?A8, ?A9; simpl;
      repeat (apply andb_true_iff; split); try reflexivity; try (apply negb_true_iff, Z.eqb_neq; lia); rewrite ?Hact; auto.
  - (* session end *)
    pose proof (h_sess_end_keeps _ _ _ _ H) as Hk. apply (rec_inv_intro s); try (keeps_solve; fail); try exact Hr; rec_frames s.
    unfold h_sess_end in H. destruct (sessions s !! id) as [x|] eqn:Hx; [|discriminate]. res_inv.
    apply sess_ok_make_pending; auto. exact (S _ _ Hx).
  - (* swap *)
    pose proof (h_swap_keeps _ _ _ _ _ _ H) as Hk. apply (rec_inv_intro s); try (keeps_solve; fail); try exact Hr; rec_frames s.
    vb_split Hv. destruct Hv as [[[[_ Hrcv] Hlen] Hamt] _]. apply Z.leb_le in Hamt.
    unfold h_swap, new_coin, int_quo in H. res_inv. pose_keeps. intros h w Hl. simpl in Hl.
    apply lookup_insert_Some in Hl as [[_ <-]|[_ Hl]]; [|apply (W h w); match type of Hl with swaps ?y !! _ = _ => replace (swaps s) with (swaps y) by keeps_solve end; exact Hl].
    unfold validate_swap. simpl. rewrite Hlen, Hrcv. simpl. apply andb_true_iff. split; [|apply negb_true_iff, N.eqb_neq; exact Qw].
    apply Z.ltb_lt. assert (1 <= Z.quot amount 100) by (apply Z.quot_le_lower_bound; lia). lia.
Qed.

(** * block hooks *)

Lemma rec_payout_step s e s' : rec_inv s -> payout_step s e = Ok s' -> rec_inv s'.
Proof.
  intros Hr H. pose proof Hr as [T D P N L S W I Q]. pose proof (payout_step_keeps _ _ _ H) as Hk.
  apply (rec_inv_intro s); try (keeps_solve; fail); try exact Hr; rec_frames s.
  unfold payout_step in H. destruct (payouts s !! e.2) as [po|]; [|discriminate].
  apply rbind_ok in H as (reward & _ & H). apply rbind_ok in H as (s2 & H2 & H). apply must_ok in H2.
  apply rbind_ok in H as (payment & _ & H). apply rbind_ok in H as (s3 & H3 & H). apply must_ok in H3.
  assert (D2 : dep_records_ok s2) by (eapply dep_ok_z_to_module; [|exact H2]; eapply dep_ok_frame; [|exact D]; reflexivity).
  pose proof (dep_ok_z_to_account _ _ _ _ _ D2 H3) as D3.
  injection H as <-. destruct (0 <? po_hours po - 1); eapply dep_ok_frame; [|exact D3| |exact D3]; reflexivity.
Qed.

Lemma dep_ok_session_inactive_hook s sid acc nd b s' :
  dep_records_ok s -> session_inactive_hook s sid acc nd b = Ok s' -> dep_records_ok s'.
Proof.
  intros D H. unfold session_inactive_hook in H.
  destruct (sessions s !! sid) as [x|]; [|discriminate]. apply rbind_ok in H as (u & _ & H).
  destruct (subs s !! ss_sub x) as [sb|]; [|discriminate].
  match type of H with (if ?c then _ else _) = _ => destruct c end; [injection H as <-; exact D|].
  destruct (allocs s !! (sb_id sb, acc)) as [al|]; [|discriminate].
  apply rbind_ok in H as ([price previous] & _ & H). apply rbind_ok in H as (remaining & _ & H). apply rbind_ok in H as (used' & _ & H).
  destruct (match sb_kind sb with KNode _ g _ dep => if g =? 0 then None else Some (g, dep) | KPlan _ _ => None end);
    [|injection H as <-; eapply dep_ok_frame; [|exact D]; reflexivity].
  apply rbind_ok in H as (current & _ & H). apply rbind_ok in H as (diff & _ & H). apply rbind_ok in H as (pay & _ & H).
  apply rbind_ok in H as (reward & _ & H). apply rbind_ok in H as (s2 & H2 & H). apply rbind_ok in H as (payment & _ & H).
  apply rbind_ok in H as (s3 & H3 & H). injection H as <-.
  assert (D2 : dep_records_ok s2) by (eapply dep_ok_z_to_module; [|exact H2]; eapply dep_ok_frame; [|exact D]; reflexivity).
  eapply dep_ok_frame; [|exact (dep_ok_z_to_account _ _ _ _ _ D2 H3)]. reflexivity.
Qed.

Lemma rec_session_expire_one s e s' : rec_inv s -> session_expire_one s e = Ok s' -> rec_inv s'.
Proof.
  intros Hr H. pose proof Hr as [T D P N L S W I Q]. pose proof (session_expire_one_keeps _ _ _ H) as Hk.
  destruct (params_valid_facts _ Q) as (_ & Qs & _).
  apply (rec_inv_intro s); try (keeps_solve; fail); try exact Hr; rec_frames s.
  - (* deposits: the settlement *)
    unfold session_expire_one in H. destruct (sessions s !! e.2) as [x|]; [|discriminate]. case_bool_decide.
    + injection H as <-. eapply dep_ok_frame; [|exact D]. reflexivity.
    + apply rbind_ok in H as (total & _ & H). apply rbind_ok in H as (s1 & Hh & H). apply must_ok in Hh. injection H as <-.
      eapply dep_ok_frame; [|eapply dep_ok_session_inactive_hook; [|exact Hh]; eapply dep_ok_frame; [|exact D]; reflexivity]. reflexivity.
  - (* sessions *)
    unfold session_expire_one in H. destruct (sessions s !! e.2) as [x|] eqn:Hx; [|discriminate]. case_bool_decide.
    + injection H as <-. unfold sess_records_ok. simpl. apply (map_Forall_insert_2 (fun _ y => validate_session y = true)); [|exact S].
      apply validate_session_pending; [exact (S _ _ Hx)|lia|lia].
    + apply rbind_ok in H as (total & _ & H). apply rbind_ok in H as (s1 & Hh & H). apply must_ok in Hh. injection H as <-.
      apply session_inactive_hook_keeps in Hh. unfold sess_records_ok. simpl.
      replace (sessions s1) with (sessions s) by (symmetry; keeps_solve). apply map_Forall_delete. exact S.
Qed.

Lemma dep_ok_sub_refund s sb s' : dep_records_ok s -> sub_refund s sb = Ok s' -> dep_records_ok s'.
Proof.
  intros D H. unfold sub_refund in H. destruct (sb_kind sb) as [nd g h dep|pid dn]; [|injection H as <-; exact D].
  apply rbind_ok in H as (s1 & H1 & H).
  assert (D1 : dep_records_ok s1).
  { destruct (negb (g =? 0)); [|injection H1 as <-; exact D].
    apply rbind_ok in H1 as (pr & _ & H1). apply rbind_ok in H1 as (u & _ & H1).
    destruct (allocs s !! (sb_id sb, sb_addr sb)) as [al|]; [|discriminate].
    apply rbind_ok in H1 as (paid & _ & H1). apply rbind_ok in H1 as (r & _ & H1). apply rbind_ok in H1 as (refund & _ & H1).
    apply rbind_ok in H1 as (s0 & Hs0 & H1). apply must_ok in Hs0. injection H1 as <-.
    eapply dep_ok_frame; [|exact (dep_ok_z_to_account s (sb_addr sb) (sb_addr sb) refund s0 D Hs0)]. reflexivity. }
  destruct (negb (h =? 0)); [|injection H as <-; exact D1].
  destruct (payouts s1 !! sb_id sb) as [po|]; [|discriminate].
  apply rbind_ok in H as (r & _ & H). apply rbind_ok in H as (refund & _ & H). apply rbind_ok in H as (s2 & Hs2 & H). apply must_ok in Hs2. injection H as <-.
  eapply dep_ok_frame; [|exact (dep_ok_z_to_account s1 (po_addr po) (po_addr po) refund s2 D1 Hs2)]. reflexivity.
Qed.

Lemma rec_sub_expire_one s e s' : rec_inv s -> sub_expire_one s e = Ok s' -> rec_inv s'.
Proof.
  intros Hr H. pose proof Hr as [T D P N L S W I Q]. pose proof (sub_expire_one_keeps _ _ _ H) as Hk.
  destruct (params_valid_facts _ Q) as (_ & Qs & _).
  apply (rec_inv_intro s); try (keeps_solve; fail); try exact Hr; rec_frames s.
  - (* deposits: the refund *)
    unfold sub_expire_one in H. destruct (subs s !! e.2) as [sb|]; [|discriminate]. case_bool_decide.
    + apply rbind_ok in H as (s1 & Hp & H). apply must_ok, sub_pending_hook_keeps in Hp.
      pose proof (sub_make_pending_keeps s1 sb) as K2. apply detach_payout_keeps in H; [|discriminate].
      eapply dep_ok_frame; [|exact D]. keeps_solve.
    + apply rbind_ok in H as (s1 & Hrf & H). pose proof (sub_cleanup_keeps s1 sb) as Kc. apply sub_delete_payout_keeps in H.
      eapply dep_ok_frame; [|eapply dep_ok_sub_refund; [|exact Hrf]; eapply dep_ok_frame; [|exact D]; reflexivity]. keeps_solve.
  - (* sessions: those of a demoted subscription become pending *)
    unfold sub_expire_one in H. destruct (subs s !! e.2) as [sb|]; [|discriminate]. case_bool_decide.
    + apply rbind_ok in H as (s1 & Hp & H). apply must_ok in Hp.
      destruct (detach_payout_fields _ _ Panic _ ltac:(intros ? ?; discriminate) H) as (D1 & _).
      eapply sess_ok_frame; [exact D1|]. unfold sub_make_pending. simpl. eapply (sess_ok_frame s1); [reflexivity|].
      eapply sess_ok_pending_hook; [| | |exact Hp]; simpl; auto.
    + apply rbind_ok in H as (s1 & Hrf & H). apply sub_refund_keeps in Hrf. pose proof (sub_cleanup_keeps s1 sb) as Kc. apply sub_delete_payout_keeps in H.
      eapply sess_ok_frame; [|exact S]. keeps_solve.
Qed.

Lemma validate_node_prices n gb hr :
  validate_node n = true -> coins_nonempty_ok gb = true -> coins_nonempty_ok hr = true ->
  validate_node (n <| nd_gb_prices := gb |> <| nd_hr_prices := hr |>) = true.
Proof.
  unfold validate_node. simpl. repeat rewrite andb_true_iff. intros [[[[[[[A1 _] _] A4] A5] A6] A7] A8] Hg Hh. repeat split; auto.
Qed.

Lemma rec_node_end_block s s' : kinv s -> rec_inv s -> node_end_block s = Ok s' -> rec_inv s'.
Proof.
  intros Hi Hr H. pose proof Hr as [T D P N L S W I Q]. pose proof (node_end_block_keeps _ _ H) as Hk.
  destruct (params_valid_facts _ Q) as (_ & _ & _ & Q1 & Q2 & Q3 & Q4).
  apply (rec_inv_intro s); try (keeps_solve; fail); try exact Hr; rec_frames s.
  unfold node_end_block in H. apply rbind_ok in H as (s1 & Hsw & H).
  assert (H1 : node_records_ok s1 /\ now s1 = now s).
  { destruct (_ || _); [|injection Hsw as <-; auto].
    eapply (rfold_inv_in (fun y => node_records_ok y /\ now y = now s /\ pars y = pars s /\ modified y = modified s)) in Hsw; [tauto| |auto].
    intros x n x' Hin (Hx & Nx & Px & Mx) Hstep. pose proof (node_sweep_one_keeps _ _ _ Hstep) as Kx.
    split; [|split; [rewrite <- Nx|split; [rewrite <- Px|rewrite <- Mx]]; keeps_solve].
    unfold node_sweep_one in Hstep. apply rbind_ok in Hstep as (x1 & Hset & Hstep). injection Hstep as <-. apply must_ok in Hset.
    apply (node_ok_frame x1); [reflexivity..|]. eapply node_ok_set; [exact Hx| |exact Hset].
    assert (Hn : validate_node n = true).
    { apply N. destruct (elem_of_all_nodes _ _ (ki_node _ Hi) Hin) as [[Hl _]|[Hl _]]; [left|right]; eauto. }
    pose proof Hn as Hn0. unfold validate_node in Hn0. repeat rewrite andb_true_iff in Hn0. destruct Hn0 as [[[[[[[_ A2] A3] _] _] _] _] _].
    rewrite Px, Mx. apply validate_node_prices; [exact Hn| |];
      repeat match goal with |- context [if ?b then _ else _] => destruct b end;
      repeat first [apply clamp_min_ok | apply clamp_max_ok]; assumption. }
  destruct H1 as [N1 En1].
  eapply (rfold_inv (fun y => node_records_ok y /\ now y = now s)) in H; [tauto| |split; [exact N1|exact En1]].
  intros x e x' [Hx Nx] Hstep. pose proof (node_expire_one_keeps _ _ _ Hstep) as Kx. split; [|rewrite <- Nx; keeps_solve].
  unfold node_expire_one in Hstep. destruct (get_node x e.2) as [n|] eqn:Hg; [|discriminate].
  apply rbind_ok in Hstep as (x2 & Hset & Hstep). injection Hstep as <-. apply must_ok in Hset.
  apply (node_ok_frame x2); [reflexivity..|]. eapply node_ok_set; [| |exact Hset].
  - eapply node_ok_sub; [| |exact Hx]; simpl; [apply delete_subseteq|reflexivity].
  - pose proof (node_ok_get _ _ _ Hx Hg) as Hn. unfold validate_node in *. simpl. repeat rewrite andb_true_iff in Hn.
    destruct Hn as [[[[[[[A1 A2] A3] A4] A5] _] _] _]. rewrite A1, A2, A3, A4, A5. simpl. apply negb_true_iff, Z.eqb_neq. rewrite Nx. lia.
Qed.

Lemma infl_ok_mint_loop l : forall s s', mint_loop l s = Ok s' -> infl_records_ok s -> infl_records_ok s'.
Proof.
  induction l as [|it l IH]; intros s s' H F; simpl in H; [injection H as <-; exact F|].
  destruct (now s <? inf_ts it); [injection H as <-; exact F|]. apply rbind_ok in H as (u & _ & H).
  apply IH in H; [exact H|]. unfold mint_apply. intros t i Hl. simpl in Hl. apply lookup_delete_Some in Hl as [_ Hl]. exact (F _ _ Hl).
Qed.

(** * every operation, every history *)

Theorem rec_step s o s' : kinv s -> rec_inv s -> wf_op_rec s o -> step s o = OOk s' -> rec_inv s'.
Proof.
  intros Hi Hr Hwf Hstep. pose proof Hr as [T D P N L S W I Q]. unfold step in Hstep. destruct o.
  - destruct (begin_block _) as [x| |] eqn:H; try discriminate. injection Hstep as <-. simpl in Hwf.
    unfold begin_block in H. apply rbind_ok in H as (s1 & Hm & H). pose proof (mint_begin_block_keeps _ _ Hm) as Km.
    assert (R1 : rec_inv s1).
    { split; try (first [eapply dep_ok_frame | eapply prov_ok_frame | eapply node_ok_frame | eapply plan_ok_frame | eapply sess_ok_frame | eapply swap_ok_frame]; [..|eassumption]; keeps_solve).
      - replace (now s1) with t by keeps_solve. lia.
      - eapply infl_ok_mint_loop; [exact Hm|]. exact I.
      - replace (pars s1) with (pars s) by keeps_solve. exact Q. }
    unfold sub_begin_block in H. eapply (rfold_inv rec_inv); [|exact R1|exact H]. intros a e b Ha Hs. eapply rec_payout_step; eauto.
  - unfold run_tx in Hstep. destruct (validate_basic m) eqn:Hv; [|discriminate].
    destruct (handle _ m) as [x| |] eqn:H; try discriminate. injection Hstep as <-.
    eapply rec_handle; [apply kinv_clear; exact Hi| |exact Hv|exact H]. split; assumption.
  - destruct (forallb pchange_valid cs) eqn:Hgate; [|discriminate]. injection Hstep as <-. simpl in Hwf.
    assert (F : forall cs0 y, now (fold_left apply_pchange cs0 y) = now y /\ deposits (fold_left apply_pchange cs0 y) = deposits y /\
              prov_act (fold_left apply_pchange cs0 y) = prov_act y /\ prov_inact (fold_left apply_pchange cs0 y) = prov_inact y /\
              node_act (fold_left apply_pchange cs0 y) = node_act y /\ node_inact (fold_left apply_pchange cs0 y) = node_inact y /\
              plan_act (fold_left apply_pchange cs0 y) = plan_act y /\ plan_inact (fold_left apply_pchange cs0 y) = plan_inact y /\
              sessions (fold_left apply_pchange cs0 y) = sessions y /\ swaps (fold_left apply_pchange cs0 y) = swaps y /\
              inflations (fold_left apply_pchange cs0 y) = inflations y).
    { induction cs0 as [|c cs0 IH]; intros y; [repeat split|]. simpl. destruct (IH (apply_pchange y c)) as (F1 & F2 & F3 & F4 & F5 & F6 & F7 & F8 & F9 & F10 & F11).
      rewrite F1, F2, F3, F4, F5, F6, F7, F8, F9, F10, F11. destruct c; repeat split; reflexivity. }
    destruct (F cs (clear_events s)) as (F1 & F2 & F3 & F4 & F5 & F6 & F7 & F8 & F9 & F10 & F11).
    split; [rewrite F1; exact T|eapply dep_ok_frame; [exact F2|exact D]|eapply prov_ok_frame; [exact F3|exact F4|exact P]
           |eapply node_ok_frame; [exact F5|exact F6|exact N]|eapply plan_ok_frame; [exact F7|exact F8|exact L]
           |eapply sess_ok_frame; [exact F9|exact S]|eapply swap_ok_frame; [exact F10|exact W]|eapply infl_ok_frame; [exact F11|exact I]|].
    rewrite pars_fold_clear. apply gov_params_valid; assumption.
  - destruct (end_block _) as [x| |] eqn:H; try discriminate. injection Hstep as <-.
    unfold end_block in H. apply rbind_ok in H as (s1 & H1 & H). apply rbind_ok in H as (s2 & H2 & H3).
    assert (R0 : rec_inv (clear_events s)) by (split; assumption).
    pose proof (rec_node_end_block _ _ (kinv_clear _ Hi) R0 H1) as R1.
    assert (R2 : rec_inv s2) by (unfold session_end_block in H2; eapply (rfold_inv rec_inv); [|exact R1|exact H2]; intros a e b Ha Hs; eapply rec_session_expire_one; eauto).
    assert (R3 : rec_inv x) by (unfold sub_end_block in H3; eapply (rfold_inv rec_inv); [|exact R2|exact H3]; intros a e b Ha Hs; eapply rec_sub_expire_one; eauto).
    destruct R3 as [T3 D3 P3 N3 L3 S3 W3 I3 Q3]. split; assumption.
Qed.
