(* C09 / C04 / C03: the indices of subscriptions, allocations and payouts are exactly the
   images of their primary records, allocations and payouts exist exactly for the live
   subscriptions of the right kind ([idx_sub] of InvDefs.v) — preserved by every operation. *)
From Hub Require Import Base.Prelude Base.Arith Model.Types Model.Keeper Model.Handlers Model.Hooks Model.Step.
From Hub Require Import Proofs.Tactics Proofs.Frames Proofs.KeysInv Proofs.ArithThm Proofs.IndexSess Proofs.InvDefs Proofs.Quota.

Lemma idx_sub_frame s s' :
  subs s' = subs s -> allocs s' = allocs s -> payouts s' = payouts s -> sub_q s' = sub_q s -> sub_acc s' = sub_acc s ->
  sub_node s' = sub_node s -> sub_plan s' = sub_plan s -> pay_q s' = pay_q s -> pay_acc s' = pay_acc s ->
  pay_node s' = pay_node s -> pay_acc_node s' = pay_acc_node s -> idx_sub s -> idx_sub s'.
Proof.
  intros E1 E2 E3 E4 E5 E6 E7 E8 E9 E10 E11 [A1 A2 A3 A4 A5 A6 A7 A8 A9 A10 A11 A12 A13].
  split; rewrite ?E1, ?E2, ?E3, ?E4, ?E5, ?E6, ?E7, ?E8, ?E9, ?E10, ?E11; assumption.
Qed.

Lemma idx_sub_keeps T s s' : keeps T s s' -> touched GSub T = false -> idx_sub s -> idx_sub s'.
Proof.
  intros (_ & _ & _ & _ & _ & _ & _ & K & _) Ht. rewrite Ht in K. simpl in K. apply idx_sub_frame; tauto.
Qed.

Lemma idx_sub_emit e s : idx_sub s -> idx_sub (emit e s).
Proof. apply idx_sub_frame; reflexivity. Qed.

(* rewrite every subscription-group field of a state related to the base state by a frame fact *)
Lemma keeps_sub_eqs T s s' : keeps T s s' -> touched GSub T = false ->
  sub_count s' = sub_count s /\ subs s' = subs s /\ sub_q s' = sub_q s /\ sub_acc s' = sub_acc s /\
  sub_node s' = sub_node s /\ sub_plan s' = sub_plan s /\ allocs s' = allocs s /\
  payouts s' = payouts s /\ pay_q s' = pay_q s /\ pay_acc s' = pay_acc s /\
  pay_node s' = pay_node s /\ pay_acc_node s' = pay_acc_node s.
Proof. intros (_ & _ & _ & _ & _ & _ & _ & K & _) Ht. rewrite Ht in K. exact K. Qed.

Ltac sub_base :=
  repeat match goal with
  | Hk : keeps ?T ?s ?y |- _ =>
      let K := fresh "K" in
      pose proof (keeps_sub_eqs T s y Hk eq_refl) as K; clear Hk;
      destruct K as (?K & ?K & ?K & ?K & ?K & ?K & ?K & ?K & ?K & ?K & ?K & ?K)
  end;
  repeat match goal with
  | K : ?f ?y = ?f ?s |- _ => is_var y; rewrite !K in *; clear K
  end.

(** * freshness of the next identifier *)

Lemma fresh_sub s : kinv_sub s -> forall id, sub_count s < id -> subs s !! id = None.
Proof. intros [A _ _ _] id Hlt. destruct (subs s !! id) eqn:E; [|reflexivity]. destruct (A _ _ E) as (_ & ? & _). lia. Qed.
Lemma fresh_alloc s : kinv_sub s -> forall id a, sub_count s < id -> allocs s !! (id, a) = None.
Proof. intros [_ B _ _] id a Hlt. destruct (allocs s !! (id, a)) eqn:E; [|reflexivity]. destruct (B _ _ E) as (_ & _ & ?). simpl in *. lia. Qed.
Lemma fresh_payout s : kinv_sub s -> forall id, sub_count s < id -> payouts s !! id = None.
Proof. intros [_ _ C _] id Hlt. destruct (payouts s !! id) eqn:E; [|reflexivity]. destruct (C _ _ E) as (_ & ?). lia. Qed.

(** * purchases *)

(* the subscription-side effect of CreateSubscriptionForNode, per gigabyte *)
Lemma create_node_gb_spec s acc nd g dn s' id :
  0 < g -> create_sub_for_node s acc nd g 0 dn = Ok (s', id) ->
  exists dep inact,
    0 <= dep.2 /\ id = sub_count s + 1 /\
    let sb := {| sb_id := id; sb_addr := acc; sb_inactive_at := inact; sb_status := SActive; sb_status_at := now s;
                 sb_kind := KNode nd g 0 dep |} in
    subs s' = <[id := sb]> (subs s) /\ sub_q s' = sub_q s ∪ {[ (inact, id) ]} /\ sub_acc s' = sub_acc s ∪ {[ (acc, id) ]} /\
    sub_node s' = sub_node s ∪ {[ (nd, id) ]} /\ sub_plan s' = sub_plan s /\
    allocs s' = <[(id, acc) := {| al_id := id; al_addr := acc; al_granted := GB * g; al_used := 0 |}]> (allocs s) /\
    payouts s' = payouts s /\ pay_q s' = pay_q s /\ pay_acc s' = pay_acc s /\ pay_node s' = pay_node s /\
    pay_acc_node s' = pay_acc_node s.
Proof.
  intros Hg H. unfold create_sub_for_node in H.
  assert (Eg : (g =? 0) = false) by (apply Z.eqb_neq; lia).
  rewrite Eg in H. cbn [negb Z.eqb] in H.
  res_inv; pose_keeps; simpl.
  all: repeat match goal with Hm : int_mul GB _ = Ok ?x |- _ => apply int_mul_ok in Hm; subst x end.
  all: match goal with Hc : new_coin _ ?a = Ok ?c |- _ =>
         unfold new_coin in Hc; destruct (a <? 0) eqn:En; [discriminate|]; injection Hc as <- end.
  all: eexists (_, _), _; refine (conj _ (conj eq_refl _)); cycle 1;
    [simpl; sub_base; repeat split; reflexivity|simpl; lia].
Qed.

(* ... and per hour *)
Lemma create_node_hr_spec s acc nd h dn s' id :
  0 < h -> create_sub_for_node s acc nd 0 h dn = Ok (s', id) ->
  exists dep,
    0 <= dep.2 /\ id = sub_count s + 1 /\
    let sb := {| sb_id := id; sb_addr := acc; sb_inactive_at := now s + h * HOUR; sb_status := SActive; sb_status_at := now s;
                 sb_kind := KNode nd 0 h dep |} in
    let po := {| po_id := id; po_addr := acc; po_node := nd; po_hours := h; po_price := (dep.1, Z.quot dep.2 h);
                 po_next_at := now s |} in
    subs s' = <[id := sb]> (subs s) /\ sub_q s' = sub_q s ∪ {[ (now s + h * HOUR, id) ]} /\ sub_acc s' = sub_acc s ∪ {[ (acc, id) ]} /\
    sub_node s' = sub_node s ∪ {[ (nd, id) ]} /\ sub_plan s' = sub_plan s /\ allocs s' = allocs s /\
    payouts s' = <[id := po]> (payouts s) /\ pay_q s' = pay_q s ∪ {[ (now s, id) ]} /\ pay_acc s' = pay_acc s ∪ {[ (acc, id) ]} /\
    pay_node s' = pay_node s ∪ {[ (nd, id) ]} /\ pay_acc_node s' = pay_acc_node s ∪ {[ (acc, nd, id) ]}.
Proof.
  intros Hh H. unfold create_sub_for_node in H.
  assert (Eh : (h =? 0) = false) by (apply Z.eqb_neq; lia).
  rewrite Eh in H. cbn [negb Z.eqb] in H.
  res_inv; pose_keeps; simpl.
  all: repeat match goal with Hc : new_coin _ ?a = Ok ?c |- _ =>
         unfold new_coin in Hc; destruct (a <? 0) eqn:?; [discriminate|]; injection Hc as <- end.
  all: repeat match goal with Hq : int_quo _ _ = Ok ?x |- _ => unfold int_quo in Hq; simpl in Hq; rewrite Eh in Hq; injection Hq as <- end.
  all: eexists (_, _); refine (conj _ (conj eq_refl _)); cycle 1;
    [simpl; sub_base; repeat split; reflexivity|simpl; lia].
Qed.

Lemma create_plan_spec s acc pid dn s' id :
  create_sub_for_plan s acc pid dn = Ok (s', id) ->
  exists p, get_plan s pid = Some p /\ id = sub_count s + 1 /\
    let sb := {| sb_id := id; sb_addr := acc; sb_inactive_at := now s + pl_duration p; sb_status := SActive; sb_status_at := now s;
                 sb_kind := KPlan pid dn |} in
    subs s' = <[id := sb]> (subs s) /\ sub_q s' = sub_q s ∪ {[ (now s + pl_duration p, id) ]} /\
    sub_acc s' = sub_acc s ∪ {[ (acc, id) ]} /\ sub_node s' = sub_node s /\ sub_plan s' = sub_plan s ∪ {[ (pid, id) ]} /\
    allocs s' = <[(id, acc) := {| al_id := id; al_addr := acc; al_granted := GB * pl_gb p; al_used := 0 |}]> (allocs s) /\
    payouts s' = payouts s /\ pay_q s' = pay_q s /\ pay_acc s' = pay_acc s /\ pay_node s' = pay_node s /\
    pay_acc_node s' = pay_acc_node s.
Proof.
  intros H. unfold create_sub_for_plan in H. destruct (get_plan s pid) as [p|] eqn:Hp; [|discriminate].
  res_inv; pose_keeps. exists p. split; [reflexivity|].
  all: repeat match goal with Hm : int_mul GB _ = Ok ?x |- _ => apply int_mul_ok in Hm; subst x end.
  simpl. sub_base. repeat split; reflexivity.
Qed.

(* case analysis on every look-up in an updated map *)
Ltac lk1 :=
  match goal with
  | |- context [<[?k := _]> _ !! ?i] =>
      first [ rewrite (lookup_insert _ k)
            | destruct (decide (i = k)) as [?|?]; [simplify_eq; rewrite ?lookup_insert|rewrite lookup_insert_ne by congruence] ]
  | |- context [delete ?k _ !! ?i] =>
      first [ rewrite (lookup_delete _ k)
            | destruct (decide (i = k)) as [?|?]; [simplify_eq; rewrite ?lookup_delete|rewrite lookup_delete_ne by congruence] ]
  end.
Ltac lks := repeat lk1.

Lemma idx_create_node_gb s acc nd g dn s' id :
  kinv_sub s -> idx_sub s -> 0 < g -> create_sub_for_node s acc nd g 0 dn = Ok (s', id) -> idx_sub s'.
Proof.
  intros Hk Hix Hg H. destruct (create_node_gb_spec _ _ _ _ _ _ _ Hg H) as (dep & inact & Hdep & -> & E).
  cbv zeta in E. destruct E as (E1 & E2 & E3 & E4 & E5 & E6 & E7 & E8 & E9 & E10 & E11).
  pose proof (fresh_sub _ Hk (sub_count s + 1) ltac:(lia)) as F1.
  pose proof (fun a => fresh_alloc _ Hk (sub_count s + 1) a ltac:(lia)) as F2.
  pose proof (fresh_payout _ Hk (sub_count s + 1) ltac:(lia)) as F3.
  clear H Hk.
  split; rewrite ?E1, ?E2, ?E3, ?E4, ?E5, ?E6, ?E7, ?E8, ?E9, ?E10, ?E11; clear E1 E2 E3 E4 E5 E6 E7 E8 E9 E10 E11; intros.
  - ix_sets. rewrite (ix_subq _ Hix). clear Hix. lks; rewrite ?F1; timeout 20 naive_solver.
  - ix_sets. rewrite (ix_subnode _ Hix). clear Hix. lks; rewrite ?F1; timeout 20 naive_solver.
  - rewrite (ix_subplan _ Hix). clear Hix. lks; rewrite ?F1; timeout 20 naive_solver.
  - ix_sets. rewrite (ix_subacc _ Hix). clear Hix. lks; rewrite ?F1, ?F2; unfold is_Some; timeout 20 naive_solver.
  - apply (ix_payacc _ Hix).
  - apply (ix_paynode _ Hix).
  - rewrite (ix_payaccnode _ Hix). clear Hix. lks; rewrite ?F1, ?F3; timeout 20 naive_solver.
  - rewrite (ix_payq _ Hix). clear Hix. lks; rewrite ?F1, ?F3; timeout 20 naive_solver.
  - apply lookup_insert_Some in H as [[<- <-]|[? H]]; [simpl; split; [right; split; [lia|reflexivity]|exact Hdep]|eapply (st_kind _ Hix); eauto].
  - apply lookup_insert_Some in H as [[E <-]|[Hne H]].
    + injection E as <- <-. eexists. rewrite lookup_insert. split; [reflexivity|]. split; reflexivity.
    + destruct (st_alloc_sub _ Hix _ _ _ H) as (sb & Hsb & R). exists sb. split; [|exact R].
      rewrite lookup_insert_ne; [exact Hsb|]. intros <-. rewrite F1 in Hsb. discriminate.
  - apply lookup_insert_Some in H as [[<- <-]|[Hne H]].
    + simpl. rewrite lookup_insert. eauto.
    + destruct (st_sub_alloc _ Hix _ _ H H0) as [al Hal]. exists al. rewrite lookup_insert_ne; [exact Hal|]. congruence.
  - destruct (st_pay_sub _ Hix _ _ H) as (Hh & sb & g0 & h0 & d0 & Hsb & R). split; [exact Hh|]. exists sb, g0, h0, d0. split; [|exact R].
    rewrite lookup_insert_ne; [exact Hsb|]. intros <-. rewrite F1 in Hsb. discriminate.
  - apply lookup_insert_Some in H as [[<- <-]|[Hne H]]; [discriminate|]. eapply (st_sub_pay _ Hix); eauto.
Qed.

Lemma idx_create_node_hr s acc nd h dn s' id :
  kinv_sub s -> idx_sub s -> 0 < h -> create_sub_for_node s acc nd 0 h dn = Ok (s', id) -> idx_sub s'.
Proof.
  intros Hk Hix Hh H. destruct (create_node_hr_spec _ _ _ _ _ _ _ Hh H) as (dep & Hdep & -> & E).
  cbv zeta in E. destruct E as (E1 & E2 & E3 & E4 & E5 & E6 & E7 & E8 & E9 & E10 & E11).
  pose proof (fresh_sub _ Hk (sub_count s + 1) ltac:(lia)) as F1.
  pose proof (fun a => fresh_alloc _ Hk (sub_count s + 1) a ltac:(lia)) as F2.
  pose proof (fresh_payout _ Hk (sub_count s + 1) ltac:(lia)) as F3.
  clear H Hk.
  split; rewrite ?E1, ?E2, ?E3, ?E4, ?E5, ?E6, ?E7, ?E8, ?E9, ?E10, ?E11; clear E1 E2 E3 E4 E5 E6 E7 E8 E9 E10 E11; intros.
  - ix_sets. rewrite (ix_subq _ Hix). clear Hix. lks; rewrite ?F1; timeout 20 naive_solver.
  - ix_sets. rewrite (ix_subnode _ Hix). clear Hix. lks; rewrite ?F1; timeout 20 naive_solver.
  - rewrite (ix_subplan _ Hix). clear Hix. lks; rewrite ?F1; timeout 20 naive_solver.
  - ix_sets. rewrite (ix_subacc _ Hix). clear Hix. lks; rewrite ?F1, ?F2; unfold is_Some; timeout 20 naive_solver.
  - ix_sets. rewrite (ix_payacc _ Hix). clear Hix. lks; rewrite ?F3; timeout 20 naive_solver.
  - ix_sets. rewrite (ix_paynode _ Hix). clear Hix. lks; rewrite ?F3; timeout 20 naive_solver.
  - ix_sets. rewrite (ix_payaccnode _ Hix). clear Hix. lks; rewrite ?F1, ?F3; timeout 20 naive_solver.
  - ix_sets. rewrite (ix_payq _ Hix). clear Hix. lks; rewrite ?F1, ?F3; timeout 20 naive_solver lia.
  - apply lookup_insert_Some in H as [[<- <-]|[? H]]; [simpl; split; [left; split; [reflexivity|lia]|exact Hdep]|eapply (st_kind _ Hix); eauto].
  - destruct (st_alloc_sub _ Hix _ _ _ H) as (sb & Hsb & R). exists sb. split; [|exact R].
    rewrite lookup_insert_ne; [exact Hsb|]. intros <-. rewrite F1 in Hsb. discriminate.
  - apply lookup_insert_Some in H as [[<- <-]|[Hne H]].
    + unfold hourly in H0. simpl in H0. destruct (h =? 0) eqn:E0; [lia|discriminate].
    + eapply (st_sub_alloc _ Hix); eauto.
  - apply lookup_insert_Some in H as [[<- <-]|[Hne H]].
    + simpl. split; [lia|]. eexists _, _, _, _. rewrite lookup_insert. split; [reflexivity|]. simpl. repeat split; lia || reflexivity.
    + destruct (st_pay_sub _ Hix _ _ H) as (Hh' & sb & g0 & h0 & d0 & Hsb & R). split; [exact Hh'|]. exists sb, g0, h0, d0. split; [|exact R].
      rewrite lookup_insert_ne; [exact Hsb|]. congruence.
  - apply lookup_insert_Some in H as [[<- <-]|[Hne H]].
    + rewrite lookup_insert. eauto.
    + rewrite lookup_insert_ne by congruence. eapply (st_sub_pay _ Hix); eauto.
Qed.

Lemma idx_create_plan s acc pid dn s' id :
  kinv_sub s -> idx_sub s -> create_sub_for_plan s acc pid dn = Ok (s', id) -> idx_sub s'.
Proof.
  intros Hk Hix H. destruct (create_plan_spec _ _ _ _ _ _ H) as (p & Hp & -> & E).
  cbv zeta in E. destruct E as (E1 & E2 & E3 & E4 & E5 & E6 & E7 & E8 & E9 & E10 & E11).
  pose proof (fresh_sub _ Hk (sub_count s + 1) ltac:(lia)) as F1.
  pose proof (fun a => fresh_alloc _ Hk (sub_count s + 1) a ltac:(lia)) as F2.
  pose proof (fresh_payout _ Hk (sub_count s + 1) ltac:(lia)) as F3.
  clear H Hk.
  split; rewrite ?E1, ?E2, ?E3, ?E4, ?E5, ?E6, ?E7, ?E8, ?E9, ?E10, ?E11; clear E1 E2 E3 E4 E5 E6 E7 E8 E9 E10 E11; intros.
  - ix_sets. rewrite (ix_subq _ Hix). clear Hix. lks; rewrite ?F1; timeout 20 naive_solver.
  - rewrite (ix_subnode _ Hix). clear Hix. lks; rewrite ?F1; timeout 20 naive_solver.
  - ix_sets. rewrite (ix_subplan _ Hix). clear Hix. lks; rewrite ?F1; timeout 20 naive_solver.
  - ix_sets. rewrite (ix_subacc _ Hix). clear Hix. lks; rewrite ?F1, ?F2; unfold is_Some; timeout 20 naive_solver.
  - apply (ix_payacc _ Hix).
  - apply (ix_paynode _ Hix).
  - rewrite (ix_payaccnode _ Hix). clear Hix. lks; rewrite ?F1, ?F3; timeout 20 naive_solver.
  - rewrite (ix_payq _ Hix). clear Hix. lks; rewrite ?F1, ?F3; timeout 20 naive_solver.
  - apply lookup_insert_Some in H as [[<- <-]|[? H]]; [exact I|eapply (st_kind _ Hix); eauto].
  - apply lookup_insert_Some in H as [[E <-]|[Hne H]].
    + injection E as <- <-. eexists. rewrite lookup_insert. split; [reflexivity|]. split; [reflexivity|discriminate].
    + destruct (st_alloc_sub _ Hix _ _ _ H) as (sb & Hsb & R). exists sb. split; [|exact R].
      rewrite lookup_insert_ne; [exact Hsb|]. intros <-. rewrite F1 in Hsb. discriminate.
  - apply lookup_insert_Some in H as [[<- <-]|[Hne H]].
    + simpl. rewrite lookup_insert. eauto.
    + destruct (st_sub_alloc _ Hix _ _ H H0) as [al Hal]. exists al. rewrite lookup_insert_ne; [exact Hal|]. congruence.
  - destruct (st_pay_sub _ Hix _ _ H) as (Hh & sb & g0 & h0 & d0 & Hsb & R). split; [exact Hh|]. exists sb, g0, h0, d0. split; [|exact R].
    rewrite lookup_insert_ne; [exact Hsb|]. intros <-. rewrite F1 in Hsb. discriminate.
  - apply lookup_insert_Some in H as [[<- <-]|[Hne H]]; [discriminate|]. eapply (st_sub_pay _ Hix); eauto.
Qed.

Lemma idx_h_node_subscribe s from nd g h dn s' :
  kinv_sub s -> idx_sub s -> validate_basic (MNodeSubscribe from nd g h dn) = true ->
  h_node_subscribe s from nd g h dn = Ok s' -> idx_sub s'.
Proof.
  intros Hk Hix Hv H. unfold h_node_subscribe in H.
  apply rbind_ok in H as (u1 & _ & H). apply rbind_ok in H as (u2 & _ & H). apply rbind_ok in H as ([s1 id] & Hc & H).
  injection H as <-. apply idx_sub_emit.
  simpl in Hv. repeat (apply andb_prop in Hv as [Hv ?]).
  assert (Hcase : (g = 0 /\ 0 < h) \/ (0 < g /\ h = 0)).
  { destruct (g =? 0) eqn:Eg, (h =? 0) eqn:Eh; simpl in *; try discriminate; lia. }
  destruct Hcase as [[-> Hh]|[Hg ->]]; [eapply idx_create_node_hr|eapply idx_create_node_gb]; eauto.
Qed.

Lemma idx_h_plan_subscribe s from pid dn s' :
  kinv_sub s -> idx_sub s -> h_plan_subscribe s from pid dn = Ok s' -> idx_sub s'.
Proof.
  intros Hk Hix H. unfold h_plan_subscribe in H. apply rbind_ok in H as ([s1 id] & Hc & H).
  injection H as <-. apply idx_sub_emit. eapply idx_create_plan; eauto.
Qed.

(** * demotion: active -> inactive-pending (MsgCancel and the end-blocker) *)

Lemma idx_demote s s2 sb m s' :
  kinv_sub s -> idx_sub s -> subs s !! sb_id sb = Some sb -> sb_status sb = SActive ->
  subs s2 = subs s -> allocs s2 = allocs s -> payouts s2 = payouts s ->
  sub_q s2 = sub_q s ∖ {[ (sb_inactive_at sb, sb_id sb) ]} -> sub_acc s2 = sub_acc s ->
  sub_node s2 = sub_node s -> sub_plan s2 = sub_plan s -> pay_q s2 = pay_q s -> pay_acc s2 = pay_acc s ->
  pay_node s2 = pay_node s -> pay_acc_node s2 = pay_acc_node s ->
  (forall x, m <> Ok x) ->
  detach_payout (sub_make_pending s2 sb) sb m = Ok s' -> idx_sub s'.
Proof.
  intros Hk Hix Hsb Hact E1 E2 E3 E4 E5 E6 E7 E8 E9 E10 E11 Hm H.
  pose proof (st_kind _ Hix _ _ Hsb) as Hkind.
  unfold detach_payout in H. destruct (sb_kind sb) as [nd g h dep|pid dn] eqn:Ek.
  - destruct (h =? 0) eqn:Eh.
    + injection H as <-. unfold sub_make_pending.
      split; simpl; rewrite ?E1, ?E2, ?E3, ?E4, ?E5, ?E6, ?E7, ?E8, ?E9, ?E10, ?E11; intros.
      * ix_sets. rewrite (ix_subq _ Hix). clear Hix. lks; rewrite ?Hsb; timeout 30 naive_solver.
      * rewrite (ix_subnode _ Hix). clear Hix. lks; rewrite ?Hsb; timeout 30 naive_solver.
      * rewrite (ix_subplan _ Hix). clear Hix. lks; rewrite ?Hsb; timeout 30 naive_solver.
      * rewrite (ix_subacc _ Hix). clear Hix. lks; rewrite ?Hsb; timeout 30 naive_solver.
      * apply (ix_payacc _ Hix).
      * apply (ix_paynode _ Hix).
      * rewrite (ix_payaccnode _ Hix).
        assert (Hno : payouts s !! sb_id sb = None).
        { destruct (payouts s !! sb_id sb) as [po|] eqn:Ep; [|reflexivity].
          destruct (st_pay_sub _ Hix _ _ Ep) as (_ & sb0 & g0 & h0 & d0 & Hs0 & Hk0 & Hh0 & _).
          rewrite Hsb in Hs0. injection Hs0 as <-. rewrite Ek in Hk0. injection Hk0 as -> -> -> ->. apply Z.eqb_eq in Eh. lia. }
        clear Hix. lks; rewrite ?Hsb, ?Hno; timeout 30 naive_solver.
      * rewrite (ix_payq _ Hix).
        assert (Hno : payouts s !! sb_id sb = None).
        { destruct (payouts s !! sb_id sb) as [po|] eqn:Ep; [|reflexivity].
          destruct (st_pay_sub _ Hix _ _ Ep) as (_ & sb0 & g0 & h0 & d0 & Hs0 & Hk0 & Hh0 & _).
          rewrite Hsb in Hs0. injection Hs0 as <-. rewrite Ek in Hk0. injection Hk0 as -> -> -> ->. apply Z.eqb_eq in Eh. lia. }
        clear Hix. lks; rewrite ?Hsb, ?Hno; timeout 30 naive_solver.
      * apply lookup_insert_Some in H as [[<- <-]|[? H]]; [simpl; rewrite Ek; exact Hkind|eapply (st_kind _ Hix); eauto].
      * destruct (st_alloc_sub _ Hix _ _ _ H) as (sb0 & Hsb0 & R).
        destruct (decide (id = sb_id sb)) as [->|Hne].
        -- rewrite Hsb in Hsb0. injection Hsb0 as <-. eexists. rewrite lookup_insert. split; [reflexivity|]. exact R.
        -- exists sb0. rewrite lookup_insert_ne by congruence. split; [exact Hsb0|exact R].
      * apply lookup_insert_Some in H as [[<- <-]|[? H]]; [simpl; eapply (st_sub_alloc _ Hix); eauto|eapply (st_sub_alloc _ Hix); eauto].
      * destruct (st_pay_sub _ Hix _ _ H) as (Hh' & sb0 & g0 & h0 & d0 & Hsb0 & R). split; [exact Hh'|].
        destruct (decide (id = sb_id sb)) as [->|Hne].
        -- rewrite Hsb in Hsb0. injection Hsb0 as <-. eexists _, g0, h0, d0. rewrite lookup_insert. split; [reflexivity|]. exact R.
        -- exists sb0, g0, h0, d0. rewrite lookup_insert_ne by congruence. split; [exact Hsb0|exact R].
      * apply lookup_insert_Some in H as [[<- <-]|[? H]]; [eapply (st_sub_pay _ Hix); eauto|eapply (st_sub_pay _ Hix); eauto].
    + assert (Ep : payouts (sub_make_pending s2 sb) = payouts s) by (unfold sub_make_pending; simpl; exact E3).
      rewrite Ep in H. destruct (payouts s !! sb_id sb) as [po|] eqn:Hpo; [|exfalso; eapply Hm; eauto].
      destruct (k_po _ Hk _ _ Hpo) as [Eid _]. injection H as <-. unfold sub_make_pending. rewrite Eid.
      split; simpl; rewrite ?E1, ?E2, ?E3, ?E4, ?E5, ?E6, ?E7, ?E8, ?E9, ?E10, ?E11; intros.
      * ix_sets. rewrite (ix_subq _ Hix). clear Hix. lks; rewrite ?Hsb; timeout 30 naive_solver.
      * rewrite (ix_subnode _ Hix). clear Hix. lks; rewrite ?Hsb; timeout 30 naive_solver.
      * rewrite (ix_subplan _ Hix). clear Hix. lks; rewrite ?Hsb; timeout 30 naive_solver.
      * rewrite (ix_subacc _ Hix). clear Hix. lks; rewrite ?Hsb; timeout 30 naive_solver.
      * rewrite (ix_payacc _ Hix). clear Hix. lks; rewrite ?Hpo; timeout 30 naive_solver.
      * rewrite (ix_paynode _ Hix). clear Hix. lks; rewrite ?Hpo; timeout 30 naive_solver.
      * ix_sets. rewrite (ix_payaccnode _ Hix). clear Hix. lks; rewrite ?Hpo, ?Hsb; timeout 30 naive_solver.
      * ix_sets. rewrite (ix_payq _ Hix). clear Hix. lks; rewrite ?Hpo, ?Hsb; timeout 30 naive_solver.
      * apply lookup_insert_Some in H as [[<- <-]|[? H]]; [simpl; rewrite Ek; exact Hkind|eapply (st_kind _ Hix); eauto].
      * destruct (st_alloc_sub _ Hix _ _ _ H) as (sb0 & Hsb0 & R).
        destruct (decide (id = sb_id sb)) as [->|Hne].
        -- rewrite Hsb in Hsb0. injection Hsb0 as <-. eexists. rewrite lookup_insert. split; [reflexivity|]. exact R.
        -- exists sb0. rewrite lookup_insert_ne by congruence. split; [exact Hsb0|exact R].
      * apply lookup_insert_Some in H as [[<- <-]|[? H]]; [simpl; eapply (st_sub_alloc _ Hix); eauto|eapply (st_sub_alloc _ Hix); eauto].
      * match goal with H : <[_ := _]> _ !! _ = Some ?p |- _ => rename p into pnew end.
        assert (Hold : exists pold, payouts s !! id = Some pold /\ po_node pnew = po_node pold /\ po_addr pnew = po_addr pold /\ po_hours pnew = po_hours pold).
        { apply lookup_insert_Some in H as [[<- <-]|[? H]]; eexists; split; eauto. }
        destruct Hold as (pold & Hpo0 & N1 & N2 & N3). rewrite N1, N2, N3.
        destruct (st_pay_sub _ Hix _ _ Hpo0) as (Hh' & sb0 & g0 & h0 & d0 & Hsb0 & R). split; [exact Hh'|].
        destruct (decide (id = sb_id sb)) as [->|Hne].
        -- rewrite Hsb in Hsb0. injection Hsb0 as <-. eexists _, g0, h0, d0. rewrite lookup_insert. split; [reflexivity|]. exact R.
        -- exists sb0, g0, h0, d0. rewrite lookup_insert_ne by congruence. split; [exact Hsb0|exact R].
      * assert (Hold : exists sbo, subs s !! id = Some sbo /\ hourly sbo = true).
        { apply lookup_insert_Some in H as [[<- <-]|[? H]]; eauto. }
        destruct Hold as (sbo & Hs0 & Hh0). destruct (st_sub_pay _ Hix _ _ Hs0 Hh0) as [pold Hpo0].
        destruct (decide (id = sb_id sb)) as [->|Hne]; [rewrite lookup_insert; eauto|rewrite lookup_insert_ne by congruence; eauto].
  - injection H as <-. unfold sub_make_pending.
    assert (Hno : payouts s !! sb_id sb = None).
    { destruct (payouts s !! sb_id sb) as [po|] eqn:Ep; [|reflexivity].
      destruct (st_pay_sub _ Hix _ _ Ep) as (_ & sb0 & g0 & h0 & d0 & Hs0 & Hk0 & Hh0 & _).
      rewrite Hsb in Hs0. injection Hs0 as <-. rewrite Ek in Hk0. discriminate. }
    split; simpl; rewrite ?E1, ?E2, ?E3, ?E4, ?E5, ?E6, ?E7, ?E8, ?E9, ?E10, ?E11; intros.
    + ix_sets. rewrite (ix_subq _ Hix). clear Hix. lks; rewrite ?Hsb; timeout 30 naive_solver.
    + rewrite (ix_subnode _ Hix). clear Hix. lks; rewrite ?Hsb; timeout 30 naive_solver.
    + rewrite (ix_subplan _ Hix). clear Hix. lks; rewrite ?Hsb; timeout 30 naive_solver.
    + rewrite (ix_subacc _ Hix). clear Hix. lks; rewrite ?Hsb; timeout 30 naive_solver.
    + apply (ix_payacc _ Hix).
    + apply (ix_paynode _ Hix).
    + rewrite (ix_payaccnode _ Hix). clear Hix. lks; rewrite ?Hsb, ?Hno; timeout 30 naive_solver.
    + rewrite (ix_payq _ Hix). clear Hix. lks; rewrite ?Hsb, ?Hno; timeout 30 naive_solver.
    + apply lookup_insert_Some in H as [[<- <-]|[? H]]; [simpl; rewrite Ek; exact I|eapply (st_kind _ Hix); eauto].
    + destruct (st_alloc_sub _ Hix _ _ _ H) as (sb0 & Hsb0 & R).
      destruct (decide (id = sb_id sb)) as [->|Hne].
      * rewrite Hsb in Hsb0. injection Hsb0 as <-. eexists. rewrite lookup_insert. split; [reflexivity|]. exact R.
      * exists sb0. rewrite lookup_insert_ne by congruence. split; [exact Hsb0|exact R].
    + apply lookup_insert_Some in H as [[<- <-]|[? H]]; [simpl; eapply (st_sub_alloc _ Hix); eauto|eapply (st_sub_alloc _ Hix); eauto].
    + destruct (st_pay_sub _ Hix _ _ H) as (Hh' & sb0 & g0 & h0 & d0 & Hsb0 & R). split; [exact Hh'|].
      destruct (decide (id = sb_id sb)) as [->|Hne].
      * rewrite Hsb in Hsb0. injection Hsb0 as <-. eexists _, g0, h0, d0. rewrite lookup_insert. split; [reflexivity|]. exact R.
      * exists sb0, g0, h0, d0. rewrite lookup_insert_ne by congruence. split; [exact Hsb0|exact R].
    + apply lookup_insert_Some in H as [[<- <-]|[? H]]; [eapply (st_sub_pay _ Hix); eauto|eapply (st_sub_pay _ Hix); eauto].
Qed.

Lemma idx_h_sub_cancel s from id s' : kinv s -> idx_sub s -> h_sub_cancel s from id = Ok s' -> idx_sub s'.
Proof.
  intros Hi Hix H. unfold h_sub_cancel in H. destruct (subs s !! id) as [sb|] eqn:Hsb; [|discriminate].
  destruct (k_sub _ (ki_sub _ Hi) _ _ Hsb) as (Eid & _ & _). rewrite <- Eid in Hsb.
  apply rbind_ok in H as (u1 & Hact & H). apply ensure_ok in Hact. apply bool_decide_eq_true in Hact.
  apply rbind_ok in H as (u2 & _ & H). apply rbind_ok in H as (s2 & Hp & H).
  apply sub_pending_hook_keeps in Hp.
  eapply (idx_demote s s2 sb Err); [apply Hi|exact Hix|exact Hsb|exact Hact|..|discriminate|exact H]; try keeps_solve.
Qed.

