(* Theorems about the arithmetic model (property C16, and lemmas used by C02/C05). *)
From Hub Require Import Base.Prelude Base.Arith.
From Coq Require Import ZifyBool.

Local Open Scope Z_scope.

Definition cdiv (a b : Z) : Z := (a + b - 1) / b.     (* ceiling division for b > 0 *)

Lemma GB_pos : 0 < GB. Proof. reflexivity. Qed.
Lemma P18_pos : 0 < P18. Proof. reflexivity. Qed.
Lemma P18_GB : P18 = GB * GB. Proof. reflexivity. Qed.
Lemma HALF18_P18 : P18 = 2 * HALF18. Proof. reflexivity. Qed.
Lemma MAXDEC1_lt : MAXDEC1 < MAXDEC. Proof. reflexivity. Qed.

Global Opaque GB P18 HALF18 MAXINT MAXDEC MAXDEC1.

Lemma cdiv_spec a b : 0 < b -> let q := cdiv a b in b * (q - 1) < a <= b * q.
Proof.
  intros Hb q. unfold q, cdiv.
  pose proof (Z.div_mod (a + b - 1) b ltac:(lia)).
  pose proof (Z.mod_pos_bound (a + b - 1) b Hb). nia.
Qed.

Lemma cdiv_unique a b q : 0 < b -> b * (q - 1) < a <= b * q -> cdiv a b = q.
Proof.
  intros Hb H. pose proof (cdiv_spec a b Hb) as H'. cbv zeta in H'. nia.
Qed.

Lemma cdiv_0 b : 0 < b -> cdiv 0 b = 0.
Proof. intros; apply cdiv_unique; lia. Qed.

Lemma cdiv_nonneg a b : 0 < b -> 0 <= a -> 0 <= cdiv a b.
Proof. intros Hb Ha. pose proof (cdiv_spec a b Hb) as H; cbv zeta in H. nia. Qed.

Lemma cdiv_mono a a' b : 0 < b -> a <= a' -> cdiv a b <= cdiv a' b.
Proof.
  intros Hb H. pose proof (cdiv_spec a b Hb) as H1; pose proof (cdiv_spec a' b Hb) as H2.
  cbv zeta in *. nia.
Qed.

Lemma cdiv_subadd a a' b : 0 < b -> cdiv (a + a') b <= cdiv a b + cdiv a' b.
Proof.
  intros Hb. pose proof (cdiv_spec a b Hb) as H1; pose proof (cdiv_spec a' b Hb) as H2.
  pose proof (cdiv_spec (a + a') b Hb) as H3. cbv zeta in *. nia.
Qed.

Lemma cdiv_superadd a a' b : 0 < b -> cdiv a b + cdiv a' b <= cdiv (a + a') b + 1.
Proof.
  intros Hb. pose proof (cdiv_spec a b Hb) as H1; pose proof (cdiv_spec a' b Hb) as H2.
  pose proof (cdiv_spec (a + a') b Hb) as H3. cbv zeta in *. nia.
Qed.

Lemma cdiv_exact k b : 0 < b -> cdiv (b * k) b = k.
Proof. intros; apply cdiv_unique; nia. Qed.

Lemma cdiv_le_self a b : 0 < b -> 0 <= a -> cdiv a b <= a.
Proof.
  intros Hb Ha. pose proof (cdiv_spec a b Hb) as H; cbv zeta in H. nia.
Qed.

(** ** chop_round on non-negative input *)

Lemma chop_round_pos_bounds d : 0 <= d ->
  let r := chop_round_pos d in
  0 <= r /\ - HALF18 <= r * P18 - d <= HALF18.
Proof.
  intros Hd r. subst r. unfold chop_round_pos.
  pose proof P18_pos. pose proof HALF18_P18.
  pose proof (Z.div_mod d P18 ltac:(lia)).
  pose proof (Z.mod_pos_bound d P18 ltac:(lia)).
  assert (0 <= d / P18) by (apply Z.div_pos; lia).
  repeat match goal with |- context [if ?b then _ else _] => destruct b eqn:? end; lia.
Qed.

Lemma chop_round_exact k : 0 <= k -> chop_round (k * P18) = k.
Proof.
  intros Hk. unfold chop_round. pose proof P18_pos.
  destruct (k * P18 <? 0) eqn:E; [nia|].
  unfold chop_round_pos. rewrite Z.mod_mul by lia. rewrite Z.div_mul by lia. reflexivity.
Qed.

Lemma chop_round_nonneg d : 0 <= d -> chop_round d = chop_round_pos d.
Proof. intros. unfold chop_round. destruct (d <? 0) eqn:E; [lia|reflexivity]. Qed.

(** ** AmountForBytes *)

(* The exact domain on which AmountForBytes does not panic and is the ceiling:
   the 18-decimal product stays below 314 bits (so neither Mul nor Ceil trips). *)
Theorem afb_exact_gen p b :
  0 <= p -> 0 <= b -> p * b * GB < MAXDEC1 ->
  amount_for_bytes p b = Ok (cdiv (p * b) GB).
Proof.
  intros Hp Hb Hlim.
  pose proof GB_pos. pose proof P18_pos. pose proof P18_GB as HP. pose proof MAXDEC1_lt.
  unfold amount_for_bytes, dec_quo_int, dec_of_int.
  assert (Hq : Z.quot (p * P18) GB = p * GB).
  { rewrite HP. replace (p * (GB * GB)) with (p * GB * GB) by ring.
    apply Z.quot_mul. lia. }
  rewrite Hq.
  assert (Hprod : b * P18 * (p * GB) = (p * b * GB) * P18) by ring.
  unfold dec_mul. rewrite Hprod.
  assert (0 <= p * b * GB) by nia.
  rewrite chop_round_exact by lia.
  destruct (Z.abs (p * b * GB) <? MAXDEC) eqn:E; [|lia].
  cbn [rbind].
  set (x := p * b * GB) in *.
  unfold dec_ceil.
  rewrite Z.quot_div_nonneg, Z.rem_mod_nonneg by lia.
  pose proof (Z.div_mod x P18 ltac:(lia)) as Hdm.
  pose proof (Z.mod_pos_bound x P18 ltac:(lia)) as Hmb.
  assert (Hdiv : x / P18 = (p * b) / GB).
  { unfold x. rewrite HP. rewrite <- Z.div_div by lia.
    rewrite Z.div_mul by lia. reflexivity. }
  assert (Hmod : x mod P18 = GB * ((p * b) mod GB)).
  { unfold x. rewrite HP. rewrite (Z.mul_comm (p * b) GB).
    rewrite Z.mul_mod_distr_l by lia. reflexivity. }
  pose proof (Z.div_mod (p * b) GB ltac:(lia)) as Hdm2.
  pose proof (Z.mod_pos_bound (p * b) GB ltac:(lia)) as Hmb2.
  assert (0 <= p * b) by nia.
  assert (0 <= (p * b) / GB) by (apply Z.div_pos; lia).
  assert (Hfit : forall k, 0 <= k <= x / P18 + 1 -> fits k = true).
  { intros k Hk. unfold fits.
    assert (x / P18 < MAXDEC1 / P18 + 1).
    { assert (x / P18 <= MAXDEC1 / P18) by (apply Z.div_le_mono; lia). lia. }
    assert (MAXDEC1 / P18 + 2 < MAXINT) by (vm_compute; reflexivity).
    lia. }
  destruct (x mod P18 <=? 0) eqn:Er.
  - (* remainder zero *)
    cbn [rbind]. unfold dec_truncate_int.
    rewrite Z.quot_mul by lia. unfold chk. rewrite Hfit by lia.
    f_equal. rewrite Hdiv. symmetry. apply cdiv_unique; [lia|]. nia.
  - destruct (Z.abs x <? MAXDEC1) eqn:E2; [|lia].
    cbn [rbind]. unfold dec_truncate_int.
    rewrite Z.quot_mul by lia. unfold chk. rewrite Hfit by lia.
    f_equal. rewrite Hdiv. symmetry. apply cdiv_unique; [lia|]. nia.
Qed.

Lemma pow128_prod_bound p b : 0 <= p <= 2 ^ 128 -> 0 <= b <= 2 ^ 128 -> p * b * GB < MAXDEC1.
Proof.
  intros Hp Hb.
  assert (p * b <= 2 ^ 128 * 2 ^ 128) by nia.
  assert (2 ^ 128 * 2 ^ 128 * GB < MAXDEC1) by (vm_compute; reflexivity).
  pose proof GB_pos. nia.
Qed.

Theorem afb_exact p b :
  0 <= p <= 2 ^ 128 -> 0 <= b <= 2 ^ 128 ->
  amount_for_bytes p b = Ok (cdiv (p * b) GB).
Proof. intros; apply afb_exact_gen; try lia. apply pow128_prod_bound; lia. Qed.

(** the result is the smallest integer not below p*b/10^9 *)
Theorem afb_least p b r :
  0 <= p <= 2 ^ 128 -> 0 <= b <= 2 ^ 128 ->
  amount_for_bytes p b = Ok r ->
  p * b <= r * GB /\ (forall r', p * b <= r' * GB -> r <= r').
Proof.
  intros Hp Hb H. rewrite afb_exact in H by assumption. injection H as <-.
  pose proof GB_pos. pose proof (cdiv_spec (p * b) GB ltac:(lia)) as Hs. cbv zeta in Hs.
  split; [lia|]. intros r' Hr'. nia.
Qed.

Theorem afb_zero p : 0 <= p <= 2 ^ 128 -> amount_for_bytes p 0 = Ok 0.
Proof.
  intros. rewrite afb_exact by lia. rewrite Z.mul_0_r, cdiv_0; [reflexivity|apply GB_pos].
Qed.

Theorem afb_mono p b b' r r' :
  0 <= p <= 2 ^ 128 -> 0 <= b <= b' -> b' <= 2 ^ 128 ->
  amount_for_bytes p b = Ok r -> amount_for_bytes p b' = Ok r' -> r <= r'.
Proof.
  intros Hp Hb Hb' H H'. rewrite afb_exact in H, H' by lia.
  injection H as <-; injection H' as <-. apply cdiv_mono; [apply GB_pos|nia].
Qed.

(** charging cumulatively never totals more than charging once for the sum is
    the telescoping identity used by settlement: the increments
    AFB(p, u_{i+1}) - AFB(p, u_i) add up to AFB(p, u_n) exactly; and separate
    charges are never below the single charge (sub-additivity). *)
Theorem afb_subadditive p b1 b2 r1 r2 r :
  0 <= p <= 2 ^ 128 -> 0 <= b1 -> 0 <= b2 -> b1 + b2 <= 2 ^ 128 ->
  amount_for_bytes p b1 = Ok r1 -> amount_for_bytes p b2 = Ok r2 ->
  amount_for_bytes p (b1 + b2) = Ok r -> r <= r1 + r2 /\ r1 + r2 <= r + 1.
Proof.
  intros Hp H1 H2 H12 E1 E2 E. rewrite afb_exact in E1, E2, E by lia.
  injection E1 as <-; injection E2 as <-; injection E as <-.
  replace (p * (b1 + b2)) with (p * b1 + p * b2) by ring.
  split; [apply cdiv_subadd|apply cdiv_superadd]; apply GB_pos.
Qed.

(** ** GetProportionOfCoin *)

Theorem proportion_exact a s :
  0 <= a <= 2 ^ 128 -> 0 <= s <= P18 ->
  exists r, proportion a s = Ok r /\ r = chop_round (a * s) /\
            0 <= r <= a /\ - HALF18 <= r * P18 - a * s <= HALF18.
Proof.
  intros Ha Hs. pose proof P18_pos. pose proof HALF18_P18.
  unfold proportion, dec_of_int, dec_mul.
  replace (a * P18 * s) with ((a * s) * P18) by ring.
  assert (0 <= a * s) by nia.
  rewrite chop_round_exact by lia.
  assert (a * s <= 2 ^ 128 * P18) by nia.
  assert (2 ^ 128 * P18 < MAXDEC) by (vm_compute; reflexivity).
  destruct (Z.abs (a * s) <? MAXDEC) eqn:E; [|lia].
  cbn [rbind]. unfold dec_round_int.
  rewrite chop_round_nonneg by lia.
  pose proof (chop_round_pos_bounds (a * s) ltac:(lia)) as [Hr0 Hr]. cbv zeta in *.
  set (r := chop_round_pos (a * s)) in *.
  assert (r <= a).
  { (* r*P18 <= a*s + HALF18 <= a*P18 + HALF18 < (a+1)*P18 *) nia. }
  assert (2 ^ 128 < MAXINT) by (vm_compute; reflexivity).
  unfold chk, fits. destruct (Z.abs r <? MAXINT) eqn:E2; [|lia].
  cbn [rbind]. destruct (r <? 0) eqn:E3; [lia|].
  exists r. repeat split; lia.
Qed.

(* payee + fee = payment, with the fee within half a base unit of share*payment *)
Corollary split_exact a s fee :
  0 <= a <= 2 ^ 128 -> 0 <= s <= P18 -> proportion a s = Ok fee ->
  0 <= fee <= a /\ 0 <= a - fee /\ fee + (a - fee) = a /\
  - HALF18 <= fee * P18 - a * s <= HALF18.
Proof.
  intros Ha Hs H. destruct (proportion_exact a s Ha Hs) as (r & Hr & _ & Hb & Hc).
  rewrite H in Hr. injection Hr as ->. lia.
Qed.

(** ** Bandwidth.CeilTo, per component *)

Theorem ceil_to_spec pre v :
  0 < pre -> 0 <= v -> v + pre < MAXINT ->
  exists r, ceil_to1 pre v = Ok r /\ (pre | r) /\ v <= r < v + pre.
Proof.
  intros Hpre Hv Hlim. unfold ceil_to1.
  destruct (pre <=? 0) eqn:E; [lia|].
  unfold int_mod. destruct (pre =? 0) eqn:E0; [lia|]. destruct (0 <? pre) eqn:E1; [|lia].
  cbn [rbind].
  pose proof (Z.mod_pos_bound v pre Hpre) as Hm.
  pose proof (Z.div_mod v pre ltac:(lia)) as Hdm.
  unfold int_sub, chk, fits.
  destruct (Z.abs (pre - v mod pre) <? MAXINT) eqn:E2; [|lia].
  cbn [rbind]. unfold int_add, chk, fits.
  destruct (pre - v mod pre =? pre) eqn:E3.
  - assert (v mod pre = 0) by lia.
    destruct (Z.abs (v + 0) <? MAXINT) eqn:E4; [|lia].
    exists (v + 0). split; [reflexivity|]. split; [|lia].
    exists (v / pre). lia.
  - destruct (Z.abs (v + (pre - v mod pre)) <? MAXINT) eqn:E4; [|lia].
    eexists. split; [reflexivity|]. split; [|lia].
    exists (v / pre + 1). lia.
Qed.

Theorem ceil_to_nonpositive pre v : pre <= 0 -> ceil_to1 pre v = Ok v.
Proof. intros. unfold ceil_to1. destruct (pre <=? 0) eqn:E; [reflexivity|lia]. Qed.

(* least multiple not below v *)
Corollary ceil_to_least pre v r m :
  0 < pre -> 0 <= v -> v + pre < MAXINT -> ceil_to1 pre v = Ok r ->
  (pre | m) -> v <= m -> r <= m.
Proof.
  intros Hpre Hv Hl H [k ->] Hm.
  destruct (ceil_to_spec pre v Hpre Hv Hl) as (r' & Hr' & [j Hj] & Hb).
  rewrite H in Hr'. injection Hr' as <-. subst r.
  destruct (Z_le_gt_dec j k) as [Hjk|Hjk]; [nia|].
  assert (pre <= (j - k) * pre) by nia. nia.
Qed.
