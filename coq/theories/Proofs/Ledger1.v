(* C02, part 1: the escrow ledger invariant [ledger_inv] (Proofs/InvDefs.v) -- arithmetic of the
   exact ceiling charge, sums over finite maps, the effect of the deposit keeper on the deposit
   records, and the general "one subscription changes" preservation lemma on which every
   per-function proof of Ledger2.v rests.  Also: the deposit record always covers the unsettled
   part of each single subscription ([ledger_bound], [ledger_covers]). *)
From Hub Require Import Base.Prelude Base.Arith Model.Types Model.Keeper Model.Handlers Model.Hooks Model.Step.
From Hub Require Import Proofs.Tactics Proofs.Sorting Proofs.Frames Proofs.Money Proofs.KeysInv Proofs.ArithThm.
From Hub Require Import Proofs.Lifecycle Proofs.Auth Proofs.Quota Proofs.Pricing Proofs.InvDefs.
From Coq Require Import ZifyBool.

Local Open Scope Z_scope.

(** * the exact ceiling charge *)

(* whenever utils.AmountForBytes does not panic, its result is the exact ceiling of p*b/10^9
   (ArithThm.afb_exact_gen is the converse under a range premise) *)
Lemma afb_cases p b : 0 <= p -> 0 <= b -> amount_for_bytes p b = Panic \/ amount_for_bytes p b = Ok (afb p b).
Proof.
  intros Hp Hb.
  pose proof GB_pos. pose proof P18_pos. pose proof P18_GB as HP.
  unfold amount_for_bytes, dec_quo_int, dec_of_int.
  assert (Hq : Z.quot (p * P18) GB = p * GB).
  { rewrite HP. replace (p * (GB * GB)) with (p * GB * GB) by ring. apply Z.quot_mul. lia. }
  rewrite Hq.
  assert (Hprod : b * P18 * (p * GB) = (p * b * GB) * P18) by ring.
  unfold dec_mul. rewrite Hprod.
  assert (0 <= p * b * GB) by nia.
  rewrite chop_round_exact by lia.
  destruct (Z.abs (p * b * GB) <? MAXDEC) eqn:E; [|left; reflexivity].
  cbn [rbind].
  set (x := p * b * GB) in *.
  unfold dec_ceil.
  rewrite Z.quot_div_nonneg, Z.rem_mod_nonneg by lia.
  pose proof (Z.div_mod x P18 ltac:(lia)) as Hdm.
  pose proof (Z.mod_pos_bound x P18 ltac:(lia)) as Hmb.
  assert (Hdiv : x / P18 = (p * b) / GB).
  { unfold x. rewrite HP. rewrite <- Z.div_div by lia. rewrite Z.div_mul by lia. reflexivity. }
  assert (Hmod : x mod P18 = GB * ((p * b) mod GB)).
  { unfold x. rewrite HP. rewrite (Z.mul_comm (p * b) GB). rewrite Z.mul_mod_distr_l by lia. reflexivity. }
  pose proof (Z.div_mod (p * b) GB ltac:(lia)) as Hdm2.
  pose proof (Z.mod_pos_bound (p * b) GB ltac:(lia)) as Hmb2.
  assert (0 <= p * b) by nia.
  unfold afb.
  destruct (x mod P18 <=? 0) eqn:Er.
  - cbn [rbind]. unfold dec_truncate_int. rewrite Z.quot_mul by lia.
    unfold chk. destruct (fits _); [|left; reflexivity]. right. f_equal.
    rewrite Hdiv. symmetry. apply cdiv_unique; [lia|]. nia.
  - destruct (Z.abs x <? MAXDEC1) eqn:E2; [|left; reflexivity].
    cbn [rbind]. unfold dec_truncate_int. rewrite Z.quot_mul by lia.
    unfold chk. destruct (fits _); [|left; reflexivity]. right. f_equal.
    rewrite Hdiv. symmetry. apply cdiv_unique; [lia|]. nia.
Qed.

Theorem afb_ok_exact p b r : 0 <= p -> 0 <= b -> amount_for_bytes p b = Ok r -> r = afb p b.
Proof.
  intros Hp Hb H. destruct (afb_cases p b Hp Hb) as [E|E]; rewrite E in H; [discriminate|].
  injection H as <-. reflexivity.
Qed.

Lemma afb_0 p : afb p 0 = 0.
Proof. unfold afb. rewrite Z.mul_0_r. apply cdiv_0, GB_pos. Qed.

Lemma afb_nonneg p b : 0 <= p -> 0 <= b -> 0 <= afb p b.
Proof. intros. unfold afb. apply cdiv_nonneg; [apply GB_pos|nia]. Qed.

Lemma afb_le_mono p b b' : 0 <= p -> b <= b' -> afb p b <= afb p b'.
Proof. intros. unfold afb. apply cdiv_mono; [apply GB_pos|nia]. Qed.

Lemma afb_whole p g : afb p (GB * g) = p * g.
Proof. unfold afb. replace (p * (GB * g)) with (GB * (p * g)) by ring. apply cdiv_exact, GB_pos. Qed.

(* the charge for all the bytes bought at the per-gigabyte price deposit/gigabytes never exceeds the deposit *)
Lemma afb_full d g : 0 <= d -> 0 < g -> afb (Z.quot d g) (GB * g) <= d.
Proof.
  intros Hd Hg. rewrite afb_whole. rewrite Z.quot_div_nonneg by lia.
  pose proof (Z.mul_div_le d g Hg). lia.
Qed.

Lemma quot_nonneg d g : 0 <= d -> 0 < g -> 0 <= Z.quot d g.
Proof. intros. apply Z.quot_pos; lia. Qed.

Lemma quot_mul_le d h k : 0 <= d -> 0 < h -> 0 <= k <= h -> Z.quot d h * k <= d.
Proof.
  intros Hd Hh Hk. rewrite Z.quot_div_nonneg by lia.
  pose proof (Z.mul_div_le d h Hh). assert (0 <= d / h) by (apply Z.div_pos; lia). nia.
Qed.

(** * sums over finite maps *)

Section msum_more.
  Context {K : Type} `{Countable K} {V : Type}.

  Lemma msum_ext (f g : V -> Z) (m : gmap K V) :
    (forall k v, m !! k = Some v -> f v = g v) -> msum f m = msum g m.
  Proof.
    induction m as [|k v m Hk IH] using map_ind; intros Hfg.
    - rewrite !msum_empty. reflexivity.
    - rewrite !msum_insert_fresh by exact Hk. rewrite IH.
      + rewrite (Hfg k v) by apply lookup_insert. reflexivity.
      + intros k' v' Hk'. apply (Hfg k'). rewrite lookup_insert_ne; [exact Hk'|]. intros ->. congruence.
  Qed.

  Lemma msum_fmap (f : V -> Z) (m : gmap K V) : msum f m = msum (fun z : Z => z) (f <$> m).
  Proof.
    induction m as [|k v m Hk IH] using map_ind.
    - rewrite fmap_empty, !msum_empty. reflexivity.
    - rewrite fmap_insert. rewrite !msum_insert_fresh; [|rewrite lookup_fmap, Hk; reflexivity|exact Hk].
      rewrite IH. reflexivity.
  Qed.

  Lemma msum_nonneg (f : V -> Z) (m : gmap K V) :
    (forall k v, m !! k = Some v -> 0 <= f v) -> 0 <= msum f m.
  Proof.
    induction m as [|k v m Hk IH] using map_ind; intros Hf.
    - rewrite msum_empty. lia.
    - rewrite msum_insert_fresh by exact Hk.
      assert (0 <= f v) by (apply (Hf k); apply lookup_insert).
      assert (0 <= msum f m); [|lia].
      apply IH. intros k' v' Hk'. apply (Hf k'). rewrite lookup_insert_ne; [exact Hk'|]. intros ->. congruence.
  Qed.

  Lemma msum_ge_elem (f : V -> Z) (m : gmap K V) k v :
    (forall k v, m !! k = Some v -> 0 <= f v) -> m !! k = Some v -> f v <= msum f m.
  Proof.
    intros Hf Hk. rewrite (msum_delete f m k v Hk).
    assert (0 <= msum f (delete k m)); [|lia].
    apply msum_nonneg. intros k' v' Hk'. apply lookup_delete_Some in Hk' as [_ Hk']. eapply Hf; eauto.
  Qed.
End msum_more.

(** * the deposit records under the deposit keeper *)

(* the amount of denomination [d] in the deposit record of account [a] *)
Definition damt (s : state) (a : addr) (d : denom) : Z := amount_of (dep_of s a) d.
(* [amt] if (x, d') is the (account, denomination) being moved, otherwise 0 *)
Definition dlt (a : addr) (d : denom) (amt : Z) (x : addr) (d' : denom) : Z :=
  if bool_decide (x = a /\ d' = d) then amt else 0.

Lemma dlt_0 a d x d' : dlt a d 0 x d' = 0.
Proof. unfold dlt. case_bool_decide; reflexivity. Qed.
Lemma dlt_add a d u v x d' : dlt a d u x d' + dlt a d v x d' = dlt a d (u + v) x d'.
Proof. unfold dlt. case_bool_decide; lia. Qed.

Lemma dep_of_dep_store s from dep x :
  dep_of (dep_store s from dep) x = if bool_decide (x = from) then dep else dep_of s x.
Proof.
  unfold dep_store, dep_of. case_bool_decide as He; simpl; case_bool_decide as Hx; subst;
    rewrite ?lookup_delete, ?lookup_insert; try reflexivity;
    [rewrite lookup_delete_ne by congruence|rewrite lookup_insert_ne by congruence]; reflexivity.
Qed.

Lemma damt_frame s s' : deposits s' = deposits s -> forall x d, damt s' x d = damt s x d.
Proof. intros E x d. unfold damt, dep_of. rewrite E. reflexivity. Qed.

Lemma dep_out_damt s s1 from d amt dep :
  dep_remaining s from d amt = Ok dep -> deposits s1 = deposits s ->
  forall x d', damt (dep_store s1 from dep) x d' = damt s x d' - dlt from d amt x d'.
Proof.
  intros Hrem Hd x d'. destruct (dep_remaining_spec _ _ _ _ _ Hrem) as (old & Hold & Hge & ->).
  unfold damt. rewrite dep_of_dep_store. unfold dlt.
  case_bool_decide as Hx.
  - subst x. rewrite amount_of_coins_set. unfold dep_of. rewrite Hold. simpl.
    repeat case_bool_decide; subst; try lia; intuition congruence.
  - unfold dep_of. rewrite Hd. rewrite bool_decide_eq_false_2 by (intros [? ?]; congruence). lia.
Qed.

Lemma dep_to_module_damt s from m d amt s' :
  dep_to_module s from m d amt = Ok s' -> forall x d', damt s' x d' = damt s x d' - dlt from d amt x d'.
Proof.
  unfold dep_to_module. intros H. apply rbind_ok in H as (dep & Hrem & H). apply rbind_ok in H as (s1 & Hs & H).
  injection H as <-. intros x d'.
  change (damt (dep_store s1 from dep) x d' = damt s x d' - dlt from d amt x d').
  apply dep_out_damt; [exact Hrem|]. apply bank_send_keeps in Hs. keeps_solve.
Qed.

Lemma dep_to_account_damt s from t d amt s' :
  dep_to_account s from t d amt = Ok s' -> forall x d', damt s' x d' = damt s x d' - dlt from d amt x d'.
Proof.
  unfold dep_to_account. intros H. apply rbind_ok in H as (dep & Hrem & H). apply rbind_ok in H as (s1 & Hs & H).
  injection H as <-. intros x d'.
  change (damt (dep_store s1 from dep) x d' = damt s x d' - dlt from d amt x d').
  apply dep_out_damt; [exact Hrem|]. apply bank_send_to_account_keeps in Hs. keeps_solve.
Qed.

Lemma z_dep_to_module_damt s from m c s' :
  z_dep_to_module s from m c = Ok s' -> forall x d', damt s' x d' = damt s x d' - dlt from c.1 c.2 x d'.
Proof.
  unfold z_dep_to_module. destruct (c.2 =? 0) eqn:E.
  - intros [= <-] x d'. apply Z.eqb_eq in E. rewrite E, dlt_0. lia.
  - apply dep_to_module_damt.
Qed.

Lemma z_dep_to_account_damt s from t c s' :
  z_dep_to_account s from t c = Ok s' -> forall x d', damt s' x d' = damt s x d' - dlt from c.1 c.2 x d'.
Proof.
  unfold z_dep_to_account. destruct (c.2 =? 0) eqn:E.
  - intros [= <-] x d'. apply Z.eqb_eq in E. rewrite E, dlt_0. lia.
  - apply dep_to_account_damt.
Qed.

Lemma dep_add_damt s a d amt s' :
  dep_add s a d amt = Ok s' -> forall x d', damt s' x d' = damt s x d' + dlt a d amt x d'.
Proof.
  unfold dep_add. intros H. apply rbind_ok in H as (s1 & Hs & H). injection H as <-. intros x d'.
  apply bank_send_keeps in Hs. assert (Hd : deposits s1 = deposits s) by keeps_solve.
  unfold damt, dep_of, dlt. simpl. rewrite Hd.
  destruct (decide (x = a)) as [->|Hne].
  - rewrite lookup_insert. simpl. rewrite amount_of_coins_add.
    repeat case_bool_decide; subst; try lia; intuition congruence.
  - rewrite lookup_insert_ne by congruence. rewrite bool_decide_eq_false_2 by (intros [? ?]; congruence). lia.
Qed.

Lemma z_dep_add_damt s a c s' :
  z_dep_add s a c = Ok s' -> forall x d', damt s' x d' = damt s x d' + dlt a c.1 c.2 x d'.
Proof.
  unfold z_dep_add. destruct (c.2 =? 0) eqn:E.
  - intros [= <-] x d'. apply Z.eqb_eq in E. rewrite E, dlt_0. lia.
  - apply dep_add_damt.
Qed.

(* a debit within the recorded amount is never refused by the deposit keeper *)
Lemma dep_remaining_ok s a d amt :
  0 < amt <= damt s a d -> exists c, dep_remaining s a d amt = Ok c.
Proof.
  intros Hamt. unfold dep_remaining, damt, dep_of in *.
  destruct (deposits s !! a) as [dep|]; simpl in Hamt.
  - destruct (amount_of dep d - amt <? 0) eqn:E; [lia|eauto].
  - rewrite amount_of_empty in Hamt. lia.
Qed.

(** * the part of the state the ledger reads *)

Lemma unsettled_same s s' a d sb :
  allocs s' !! (sb_id sb, sb_addr sb) = allocs s !! (sb_id sb, sb_addr sb) ->
  payouts s' !! sb_id sb = payouts s !! sb_id sb ->
  unsettled s' a d sb = unsettled s a d sb.
Proof. intros E1 E2. unfold unsettled. rewrite E1, E2. reflexivity. Qed.

Lemma unsettled_core s a d sb sb' :
  sb_kind sb' = sb_kind sb -> sb_addr sb' = sb_addr sb -> sb_id sb' = sb_id sb ->
  unsettled s a d sb' = unsettled s a d sb.
Proof. intros E1 E2 E3. unfold unsettled. rewrite E1, E2, E3. reflexivity. Qed.

Lemma unsettled_plan s a d sb p dn : sb_kind sb = KPlan p dn -> unsettled s a d sb = 0.
Proof. intros E. unfold unsettled. rewrite E. reflexivity. Qed.

Lemma unsettled_hourly s a d sb n g h dep po :
  sb_kind sb = KNode n g h dep -> h <> 0 -> payouts s !! sb_id sb = Some po ->
  unsettled s a d sb = if bool_decide (sb_addr sb = a /\ dep.1 = d) then (po_price po).2 * po_hours po else 0.
Proof.
  intros E Hh Hp. unfold unsettled. rewrite E, Hp. apply Z.eqb_neq in Hh. rewrite Hh. reflexivity.
Qed.

Lemma unsettled_metered s a d sb n g dep al :
  sb_kind sb = KNode n g 0 dep -> allocs s !! (sb_id sb, sb_addr sb) = Some al ->
  unsettled s a d sb =
    if bool_decide (sb_addr sb = a /\ dep.1 = d) then dep.2 - afb (Z.quot dep.2 g) (al_used al) else 0.
Proof. intros E Hal. unfold unsettled. rewrite E, Hal. reflexivity. Qed.

(* an account only has unsettled parts in subscriptions it owns *)
Lemma unsettled_other s a d sb : sb_addr sb <> a -> unsettled s a d sb = 0.
Proof.
  intros Hne. unfold unsettled. destruct (sb_kind sb); [|reflexivity].
  rewrite bool_decide_eq_false_2; [reflexivity|]. intros [? _]. contradiction.
Qed.

(* the three per-subscription clauses of [ledger_inv] *)
Definition sub_ok (s : state) (id : Z) (sb : subscription) : Prop :=
  (forall a d, 0 <= unsettled s a d sb) /\
  (forall n g h dep al, sb_kind sb = KNode n g h dep -> h = 0 -> allocs s !! (id, sb_addr sb) = Some al ->
     al_granted al = GB * g /\ 0 <= al_used al <= al_granted al) /\
  (forall n g h dep po, sb_kind sb = KNode n g h dep -> h <> 0 -> payouts s !! id = Some po ->
     po_price po = (dep.1, Z.quot dep.2 h) /\ 0 <= po_hours po <= h).

Lemma ledger_sub_ok s id sb : ledger_inv s -> subs s !! id = Some sb -> sub_ok s id sb.
Proof.
  intros [A B C D] Hsb. split; [|split].
  - intros a d. eapply B; eauto.
  - intros n g h dep al. eapply C; eauto.
  - intros n g h dep po. eapply D; eauto.
Qed.

Lemma ledger_inv_intro s :
  (forall a d, damt s a d = ledger_total s a d) ->
  (forall id sb, subs s !! id = Some sb -> sub_ok s id sb) -> ledger_inv s.
Proof.
  intros A B. split.
  - exact A.
  - intros id sb a d Hsb. apply (B _ _ Hsb).
  - intros id sb n g h dep al Hsb. apply (B _ _ Hsb).
  - intros id sb n g h dep po Hsb. apply (B _ _ Hsb).
Qed.

Lemma sub_ok_same s s' id sb :
  sb_id sb = id ->
  allocs s' !! (id, sb_addr sb) = allocs s !! (id, sb_addr sb) -> payouts s' !! id = payouts s !! id ->
  sub_ok s id sb -> sub_ok s' id sb.
Proof.
  intros Eid E1 E2 (A & B & C). split; [|split].
  - intros a d. rewrite (unsettled_same s s'); [apply A|rewrite Eid; exact E1|rewrite Eid; exact E2].
  - intros n g h dep al. rewrite E1. apply B.
  - intros n g h dep po. rewrite E2. apply C.
Qed.

Lemma sub_ok_core s id sb sb' :
  sb_kind sb' = sb_kind sb -> sb_addr sb' = sb_addr sb -> sb_id sb' = sb_id sb -> sub_ok s id sb -> sub_ok s id sb'.
Proof.
  intros E1 E2 E3 (A & B & C). split; [|split].
  - intros a d. rewrite (unsettled_core s a d sb sb') by assumption. apply A.
  - intros n g h dep al. rewrite E1, E2. apply B.
  - intros n g h dep po. rewrite E1. apply C.
Qed.

Lemma ledger_inv_frame s s' :
  deposits s' = deposits s -> subs s' = subs s -> allocs s' = allocs s -> payouts s' = payouts s ->
  ledger_inv s -> ledger_inv s'.
Proof.
  intros E1 E2 E3 E4 Hl. apply ledger_inv_intro.
  - intros a d. rewrite (damt_frame s s' E1). unfold ledger_total. rewrite E2.
    rewrite (msum_ext (unsettled s' a d) (unsettled s a d)); [apply (lg_eq _ Hl)|].
    intros k v _. apply unsettled_same; rewrite ?E3, ?E4; reflexivity.
  - intros id sb Hsb. rewrite E2 in Hsb. pose proof (ledger_sub_ok _ _ _ Hl Hsb) as (A & B & C).
    split; [|split].
    + intros a d. rewrite (unsettled_same s s'); [apply A|rewrite E3; reflexivity|rewrite E4; reflexivity].
    + intros n g h dep al. rewrite E3. apply B.
    + intros n g h dep po. rewrite E4. apply C.
Qed.

Lemma ledger_inv_keeps T s s' :
  keeps T s s' -> touched GDep T = false -> touched GSub T = false -> ledger_inv s -> ledger_inv s'.
Proof.
  intros (_ & _ & Kd & _ & _ & _ & _ & Ks & _) T1 T2. rewrite T1 in Kd. rewrite T2 in Ks. simpl in Kd, Ks.
  apply ledger_inv_frame; tauto.
Qed.

(** * one subscription changes: the general preservation lemma *)

Lemma ledger_total_change s s' a d id0 :
  (forall i, i <> id0 -> unsettled s' a d <$> subs s' !! i = unsettled s a d <$> subs s !! i) ->
  ledger_total s' a d =
    ledger_total s a d - from_option (unsettled s a d) 0 (subs s !! id0) + from_option (unsettled s' a d) 0 (subs s' !! id0).
Proof.
  intros Hoth. unfold ledger_total.
  rewrite (msum_fmap (unsettled s a d)), (msum_fmap (unsettled s' a d)).
  set (M := unsettled s a d <$> subs s). set (M' := unsettled s' a d <$> subs s').
  assert (E : delete id0 M' = delete id0 M).
  { apply map_eq. intros i. destruct (decide (i = id0)) as [->|Hne]; [rewrite !lookup_delete; reflexivity|].
    rewrite !lookup_delete_ne by congruence. unfold M, M'. rewrite !lookup_fmap. apply Hoth. exact Hne. }
  pose proof (msum_delete' (fun z : Z => z) M' id0) as H1. pose proof (msum_delete' (fun z : Z => z) M id0) as H2.
  rewrite E in H1. unfold M, M' in H1, H2. rewrite !lookup_fmap in H1, H2.
  fold M in H1, H2. fold M' in H1.
  destruct (subs s !! id0), (subs s' !! id0); simpl in *; lia.
Qed.

(* everything the ledger reads about subscriptions other than [id0] is unchanged, the deposit
   records move by [dl], and so does the unsettled part of [id0] (created, updated or removed) *)
Lemma ledger_inv_change s s' id0 (dl : addr -> denom -> Z) :
  kinv_sub s -> ledger_inv s ->
  (forall i, i <> id0 -> subs s' !! i = subs s !! i) ->
  (forall i a, i <> id0 -> allocs s' !! (i, a) = allocs s !! (i, a)) ->
  (forall i, i <> id0 -> payouts s' !! i = payouts s !! i) ->
  (forall a d, damt s' a d = damt s a d + dl a d) ->
  (forall a d, from_option (unsettled s' a d) 0 (subs s' !! id0) =
               from_option (unsettled s a d) 0 (subs s !! id0) + dl a d) ->
  (forall sb', subs s' !! id0 = Some sb' -> sub_ok s' id0 sb') ->
  ledger_inv s'.
Proof.
  intros Hk Hl Hs Ha Hp Hd Hu Hok. apply ledger_inv_intro.
  - intros a d. rewrite Hd, (ledger_total_change s s' a d id0).
    + rewrite Hu. pose proof (lg_eq _ Hl a d) as E. fold (damt s a d) in E. lia.
    + intros i Hne. rewrite Hs by exact Hne. destruct (subs s !! i) as [sb|] eqn:Hsb; simpl; [|reflexivity].
      f_equal. destruct (k_sub _ Hk _ _ Hsb) as (Eid & _).
      apply unsettled_same; rewrite Eid; [apply Ha|apply Hp]; exact Hne.
  - intros i sb Hsb. destruct (decide (i = id0)) as [->|Hne]; [apply Hok; exact Hsb|].
    rewrite Hs in Hsb by exact Hne. destruct (k_sub _ Hk _ _ Hsb) as (Eid & _).
    apply (sub_ok_same s s'); [exact Eid|apply Ha; exact Hne|apply Hp; exact Hne|].
    eapply ledger_sub_ok; eauto.
Qed.

(** * the record covers every single subscription (no cross-subsidy) *)

(* the unsettled part of one subscription never exceeds its owner's deposit record *)
Theorem ledger_bound s a d id sb :
  ledger_inv s -> subs s !! id = Some sb -> unsettled s a d sb <= damt s a d.
Proof.
  intros Hl Hsb. unfold damt. rewrite (lg_eq _ Hl). unfold ledger_total.
  apply (msum_ge_elem (unsettled s a d) (subs s) id sb); [|exact Hsb].
  intros k v Hk. eapply lg_nonneg; eauto.
Qed.

(* a debit of at most the unsettled part of the subscription being processed is never refused
   for lack of recorded funds *)
Theorem ledger_covers s a d id sb amt :
  ledger_inv s -> subs s !! id = Some sb -> 0 < amt <= unsettled s a d sb ->
  exists c, dep_remaining s a d amt = Ok c.
Proof.
  intros Hl Hsb Hamt. apply dep_remaining_ok. pose proof (ledger_bound s a d id sb Hl Hsb). lia.
Qed.

(* two successive debits (fee, then payee) whose sum is within the unsettled part *)
Theorem ledger_covers2 s a d id sb r1 r2 :
  ledger_inv s -> subs s !! id = Some sb -> 0 <= r1 -> 0 <= r2 -> r1 + r2 <= unsettled s a d sb ->
  (r1 <> 0 -> exists c, dep_remaining s a d r1 = Ok c) /\
  (forall s2, (forall x d', damt s2 x d' = damt s x d' - dlt a d r1 x d') ->
              r2 <> 0 -> exists c, dep_remaining s2 a d r2 = Ok c).
Proof.
  intros Hl Hsb H1 H2 Hsum. pose proof (ledger_bound s a d id sb Hl Hsb) as Hb. split.
  - intros Hne. apply dep_remaining_ok. lia.
  - intros s2 Hs2 Hne. apply dep_remaining_ok. rewrite Hs2. unfold dlt.
    rewrite bool_decide_eq_true_2 by auto. lia.
Qed.

(** * the structural facts about subscriptions used by the ledger proofs (part of [idx_sub]) *)

Record lstruct (s : state) : Prop := {
  ls_kind : forall id sb, subs s !! id = Some sb -> kind_ok (sb_kind sb);
  ls_alloc_sub : forall id a al, allocs s !! (id, a) = Some al ->
                 exists sb, subs s !! id = Some sb /\ hourly sb = false /\ (metered sb = true -> a = sb_addr sb);
  ls_pay_sub : forall id po, payouts s !! id = Some po ->
               0 <= po_hours po /\
               exists sb g h d, subs s !! id = Some sb /\ sb_kind sb = KNode (po_node po) g h d /\ h <> 0 /\
                                po_addr po = sb_addr sb }.

Lemma idx_lstruct s : idx_sub s -> lstruct s.
Proof. intros Hx. split; [apply (st_kind _ Hx)|apply (st_alloc_sub _ Hx)|apply (st_pay_sub _ Hx)]. Qed.

Lemma lstruct_frame s s' :
  subs s' = subs s -> allocs s' = allocs s -> payouts s' = payouts s -> lstruct s -> lstruct s'.
Proof. intros E1 E2 E3 [A B C]. split; rewrite ?E1, ?E2, ?E3; assumption. Qed.

Lemma ledger_idx_frame s s' :
  subs s' = subs s -> allocs s' = allocs s -> payouts s' = payouts s ->
  sub_q s' = sub_q s -> sub_acc s' = sub_acc s -> sub_node s' = sub_node s -> sub_plan s' = sub_plan s ->
  pay_q s' = pay_q s -> pay_acc s' = pay_acc s -> pay_node s' = pay_node s -> pay_acc_node s' = pay_acc_node s ->
  idx_sub s -> idx_sub s'.
Proof.
  intros E1 E2 E3 E4 E5 E6 E7 E8 E9 E10 E11 [A1 A2 A3 A4 A5 A6 A7 A8 B1 B2 B3 B4 B5].
  split; rewrite ?E1, ?E2, ?E3, ?E4, ?E5, ?E6, ?E7, ?E8, ?E9, ?E10, ?E11; assumption.
Qed.

Lemma ledger_idx_keeps T s s' : keeps T s s' -> touched GSub T = false -> idx_sub s -> idx_sub s'.
Proof.
  intros (_ & _ & _ & _ & _ & _ & _ & Ks & _) T2. rewrite T2 in Ks. simpl in Ks.
  apply ledger_idx_frame; tauto.
Qed.

(* never overcharged: the unsettled part of a live node subscription stays between 0 and its deposit *)
Theorem unsettled_within_deposit s id sb n g h dep :
  kinv_sub s -> lstruct s -> ledger_inv s -> subs s !! id = Some sb -> sb_kind sb = KNode n g h dep ->
  forall a d, 0 <= unsettled s a d sb <= dep.2.
Proof.
  intros Hk Hst Hl Hsb Hkd a d. split; [eapply lg_nonneg; eauto|].
  destruct (k_sub _ Hk _ _ Hsb) as (Eid & _).
  pose proof (ls_kind _ Hst _ _ Hsb) as Hko. rewrite Hkd in Hko. simpl in Hko. destruct Hko as [Hgh Hd].
  unfold unsettled. rewrite Hkd, Eid. case_bool_decide; [|lia].
  destruct (h =? 0) eqn:Eh.
  - apply Z.eqb_eq in Eh. destruct (allocs s !! (id, sb_addr sb)) as [al|] eqn:Hal; [|lia].
    destruct Hgh as [[-> ?]|[Hg _]]; [lia|].
    destruct (lg_alloc _ Hl _ _ _ _ _ _ _ Hsb Hkd Eh Hal) as (_ & ? & _).
    assert (0 <= afb (Z.quot dep.2 g) (al_used al)) by (apply afb_nonneg; [apply quot_nonneg; lia|lia]). lia.
  - apply Z.eqb_neq in Eh. destruct (payouts s !! id) as [po|] eqn:Hp; [|lia].
    destruct (lg_price _ Hl _ _ _ _ _ _ _ Hsb Hkd Eh Hp) as (Epr & Hh).
    rewrite Epr. simpl. destruct Hgh as [[_ Hh0]|[_ ?]]; [|lia]. apply quot_mul_le; lia.
Qed.
