(* C04 (last sentence, at the level of the EVENT LIST the chain emits): in the events of one whole operation
   the removal event of a session ("session.EventUpdateStatus" with status inactive and the session's
   identifier) occurs exactly once if the record disappears in this operation and not at all otherwise; the
   settlement payment event of that session ("subscription.EventPayForSession") occurs at most as often, i.e.
   at most once and only in the operation that removes the record; an hourly payout event
   ("subscription.EventPayForPayout") for a payout occurs only in a begin-blocker, as often as that payout's
   remaining hours go down.  The event list is the one the correspondence check compares with the real chain's. *)
From Hub Require Import Base.Prelude Base.Arith Model.Types Model.Keeper Model.Handlers Model.Hooks Model.Step.
From Hub Require Import Proofs.Tactics Proofs.Sorting Proofs.Frames Proofs.KeysInv Proofs.Lifecycle Proofs.Quota
  Proofs.IndexSess Proofs.IndexNode Proofs.InvDefs Proofs.IndexSub Proofs.Listing Proofs.IndexSub2 Proofs.IndexPlan Proofs.IndexAll Proofs.Link
  Proofs.Cause Proofs.CauseSess.

(** * the three kinds of event the property speaks about *)

Definition name_is (e : event) (n : string) : bool := String.eqb e.1 n.

Definition is_removed_ev (id : Z) (e : event) : bool :=
  name_is e "session.EventUpdateStatus"%string &&
  match e.2 with [VS SInactive; _; _; VZ i; _] => i =? id | _ => false end.
Definition is_paysess_ev (id : Z) (e : event) : bool :=
  name_is e "subscription.EventPayForSession"%string &&
  match e.2 with [_; _; _; _; VZ i; _] => i =? id | _ => false end.
Definition is_payout_ev (id : Z) (e : event) : bool :=
  name_is e "subscription.EventPayForPayout"%string &&
  match e.2 with [_; _; _; _; VZ i] => i =? id | _ => false end.

(* anything that could be one of them *)
Definition loud (e : event) : bool :=
  (name_is e "session.EventUpdateStatus"%string && match e.2 with VS SInactive :: _ => true | _ => false end) ||
  name_is e "subscription.EventPayForSession"%string || name_is e "subscription.EventPayForPayout"%string.

Fixpoint cnt (f : event -> bool) (l : list event) : Z :=
  match l with [] => 0 | e :: l' => (if f e then 1 else 0) + cnt f l' end.

Lemma cnt_app f l1 l2 : cnt f (l1 ++ l2) = cnt f l1 + cnt f l2.
Proof. induction l1 as [|e l1 IH]; simpl; [reflexivity|rewrite IH; lia]. Qed.
Lemma cnt_nonneg f l : 0 <= cnt f l.
Proof. induction l as [|e l IH]; simpl; [lia|destruct (f e); lia]. Qed.
Lemma cnt_quiet (f L : event -> bool) l :
  (forall e, f e = true -> L e = true) -> forallb (fun e => negb (L e)) l = true -> cnt f l = 0.
Proof.
  intros Hf. induction l as [|e l IH]; simpl; [reflexivity|]. intros H. apply andb_true_iff in H as [H1 H2].
  rewrite (IH H2). destruct (f e) eqn:E; [|reflexivity]. rewrite (Hf _ E) in H1. discriminate.
Qed.

Lemma removed_loud id e : is_removed_ev id e = true -> loud e = true.
Proof.
  unfold is_removed_ev, loud. intros H. apply andb_true_iff in H as [H1 H2]. rewrite H1. simpl.
  destruct (e.2) as [|[]]; try discriminate. destruct s; try discriminate. reflexivity.
Qed.
Lemma paysess_loud id e : is_paysess_ev id e = true -> loud e = true.
Proof. unfold is_paysess_ev, loud. intros H. apply andb_true_iff in H as [H1 H2]. rewrite H1. rewrite orb_true_r. reflexivity. Qed.
Lemma payout_loud id e : is_payout_ev id e = true -> loud e = true.
Proof. unfold is_payout_ev, loud. intros H. apply andb_true_iff in H as [H1 H2]. rewrite H1. rewrite orb_true_r. reflexivity. Qed.

(** * quiet extensions of the event list *)

Definition evq (L : event -> bool) (s s' : state) : Prop :=
  exists l, events s' = events s ++ l /\ forallb (fun e => negb (L e)) l = true.

Lemma evq_refl L s : evq L s s.
Proof. exists []. rewrite app_nil_r. auto. Qed.
Lemma evq_same L s s' : events s' = events s -> evq L s s'.
Proof. intros E. exists []. rewrite app_nil_r. auto. Qed.
Lemma evq_trans L a b c : evq L a b -> evq L b c -> evq L a c.
Proof.
  intros (l1 & E1 & F1) (l2 & E2 & F2). exists (l1 ++ l2). rewrite E2, E1, app_assoc. split; [reflexivity|].
  rewrite forallb_app, F1, F2. reflexivity.
Qed.
Lemma evq_cnt f L s s' : (forall e, f e = true -> L e = true) -> evq L s s' -> cnt f (events s') = cnt f (events s).
Proof. intros Hf (l & E & F). rewrite E, cnt_app, (cnt_quiet f L l Hf F). lia. Qed.
Lemma evq_weaken (L L' : event -> bool) s s' : (forall e, L' e = true -> L e = true) -> evq L s s' -> evq L' s s'.
Proof.
  intros Hl (l & E & F). exists l. split; [exact E|]. clear E. induction l as [|e l IH]; simpl in *; [reflexivity|].
  apply andb_true_iff in F as [F1 F2]. rewrite (IH F2), andb_true_r. destruct (L' e) eqn:E'; [|reflexivity].
  rewrite (Hl _ E') in F1. discriminate.
Qed.

(* the workhorse: after inversion, every intermediate state is a quiet extension of its predecessor and the
   result is an explicit term; normalise its event list (left-nested appends) and peel it from the right *)
Definition evq_list (L : event -> bool) (a b : list event) : Prop :=
  exists l, b = a ++ l /\ forallb (fun e => negb (L e)) l = true.
Lemma evq_list_refl L a : evq_list L a a.
Proof. exists []. rewrite app_nil_r. auto. Qed.
Lemma evq_list_app L a b l : evq_list L a b -> forallb (fun e => negb (L e)) l = true -> evq_list L a (b ++ l).
Proof.
  intros (l0 & -> & F0) F. exists (l0 ++ l). rewrite app_assoc. split; [reflexivity|]. rewrite forallb_app, F0, F. reflexivity.
Qed.
Lemma evq_list_snoc L a b e : evq_list L a b -> L e = false -> evq_list L a (b ++ [e]).
Proof. intros H He. apply evq_list_app; [exact H|]. simpl. rewrite He. reflexivity. Qed.

Lemma evq_of_list L s s' : evq_list L (events s) (events s') -> evq L s s'.
Proof. intros H. exact H. Qed.

Ltac evq_open :=
  repeat match goal with H : evq _ _ _ |- _ => let l := fresh "l" in let E := fresh "E" in let F := fresh "F" in destruct H as (l & E & F) end.
Ltac evq_close :=
  evq_open; apply evq_of_list;
  repeat match goal with H : events _ = ?t |- _ => match t with context [if ?b then _ else _] => destruct b end end;
  repeat match goal with H : events _ = _ |- _ => progress simpl in H end;
  repeat match goal with |- context [events (if ?b then _ else _)] => destruct b end;
  simpl;
  repeat match goal with H : events ?y = _ |- context [events ?y] => rewrite H end;
  repeat first [ apply evq_list_refl | apply evq_list_snoc; [|reflexivity] | apply evq_list_app; [|assumption] ].

(** * keeper primitives *)

Lemma bank_send_ev s f t d a s' : bank_send s f t d a = Ok s' -> events s' = events s.
Proof. unfold bank_send. intros H. res_inv; reflexivity. Qed.
Lemma bank_send_to_account_ev s f t d a s' : bank_send_to_account s f t d a = Ok s' -> events s' = events s.
Proof. unfold bank_send_to_account. intros H. res_inv. eapply bank_send_ev; eauto. Qed.
Lemma bank_mint_ev s m d a s' : bank_mint s m d a = Ok s' -> events s' = events s.
Proof. unfold bank_mint. intros H. res_inv; reflexivity. Qed.
Lemma dep_store_ev s f dep : events (dep_store s f dep) = events s.
Proof. unfold dep_store. case_bool_decide; reflexivity. Qed.

Lemma dep_add_evq s a d amt s' : dep_add s a d amt = Ok s' -> evq loud s s'.
Proof. unfold dep_add. intros H. res_inv. apply bank_send_ev in Hx. evq_close. Qed.
Lemma dep_to_account_evq s f t d a s' : dep_to_account s f t d a = Ok s' -> evq loud s s'.
Proof.
  unfold dep_to_account. intros H. res_inv. apply bank_send_to_account_ev in Hx0.
  exists [ev "deposit.EventSubtract" [VT (canon RAcc f); VC [(d, a)]]]. simpl. rewrite dep_store_ev, Hx0. auto.
Qed.
Lemma dep_to_module_evq s f m d a s' : dep_to_module s f m d a = Ok s' -> evq loud s s'.
Proof.
  unfold dep_to_module. intros H. res_inv. apply bank_send_ev in Hx0.
  exists [ev "deposit.EventSubtract" [VT (canon RAcc f); VC [(d, a)]]]. simpl. rewrite dep_store_ev, Hx0. auto.
Qed.
Lemma z_send_ev s f t c s' : z_send s f t c = Ok s' -> events s' = events s.
Proof. unfold z_send. intros H. res_inv; [reflexivity|eapply bank_send_ev; eauto]. Qed.
Lemma fund_pool_ev s f c s' : fund_pool s f c = Ok s' -> events s' = events s.
Proof. unfold fund_pool. intros H. res_inv; [reflexivity|eapply bank_send_ev; eauto]. Qed.
Lemma z_dep_add_evq s a c s' : z_dep_add s a c = Ok s' -> evq loud s s'.
Proof. unfold z_dep_add. intros H. res_inv; [apply evq_refl|eapply dep_add_evq; eauto]. Qed.
Lemma z_dep_to_account_evq s f t c s' : z_dep_to_account s f t c = Ok s' -> evq loud s s'.
Proof. unfold z_dep_to_account. intros H. res_inv; [apply evq_refl|eapply dep_to_account_evq; eauto]. Qed.
Lemma z_dep_to_module_evq s f t c s' : z_dep_to_module s f t c = Ok s' -> evq loud s s'.
Proof. unfold z_dep_to_module. intros H. res_inv; [apply evq_refl|eapply dep_to_module_evq; eauto]. Qed.
Lemma set_provider_ev s p s' : set_provider s p = Ok s' -> events s' = events s.
Proof. unfold set_provider. intros H. destruct (pv_status p); res_inv; reflexivity. Qed.
Lemma set_node_ev s p s' : set_node s p = Ok s' -> events s' = events s.
Proof. unfold set_node. intros H. destruct (nd_status p); res_inv; reflexivity. Qed.
Lemma set_plan_ev s p s' : set_plan s p = Ok s' -> events s' = events s.
Proof. unfold set_plan. intros H. destruct (pl_status p); res_inv; reflexivity. Qed.

Ltac ev_hyps :=
  repeat match goal with
  | H : bank_send _ _ _ _ _ = Ok _ |- _ => apply bank_send_ev in H
  | H : bank_send_to_account _ _ _ _ _ = Ok _ |- _ => apply bank_send_to_account_ev in H
  | H : bank_mint _ _ _ _ = Ok _ |- _ => apply bank_mint_ev in H
  | H : dep_add _ _ _ _ = Ok _ |- _ => apply dep_add_evq in H
  | H : dep_to_account _ _ _ _ _ = Ok _ |- _ => apply dep_to_account_evq in H
  | H : dep_to_module _ _ _ _ _ = Ok _ |- _ => apply dep_to_module_evq in H
  | H : z_send _ _ _ _ = Ok _ |- _ => apply z_send_ev in H
  | H : fund_pool _ _ _ = Ok _ |- _ => apply fund_pool_ev in H
  | H : z_dep_add _ _ _ = Ok _ |- _ => apply z_dep_add_evq in H
  | H : z_dep_to_account _ _ _ _ = Ok _ |- _ => apply z_dep_to_account_evq in H
  | H : z_dep_to_module _ _ _ _ = Ok _ |- _ => apply z_dep_to_module_evq in H
  | H : set_provider _ _ = Ok _ |- _ => apply set_provider_ev in H
  | H : set_node _ _ = Ok _ |- _ => apply set_node_ev in H
  | H : set_plan _ _ = Ok _ |- _ => apply set_plan_ev in H
  end.

(** * message handlers emit none of the three *)

Lemma create_sub_for_node_evq s acc nd g h dn s' id : create_sub_for_node s acc nd g h dn = Ok (s', id) -> evq loud s s'.
Proof. unfold create_sub_for_node. intros H. res_inv; ev_hyps; evq_close. Qed.
Lemma create_sub_for_plan_evq s acc pid dn s' id : create_sub_for_plan s acc pid dn = Ok (s', id) -> evq loud s s'.
Proof. unfold create_sub_for_plan. intros H. res_inv; ev_hyps; evq_close. Qed.

Lemma session_make_pending_evq s x : evq loud s (session_make_pending s x).
Proof. unfold session_make_pending. evq_close. Qed.
Lemma sub_pending_hook_evq s id s' : sub_pending_hook s id = Ok s' -> evq loud s s'.
Proof.
  unfold sub_pending_hook. apply (rfold_rel (evq loud)); [apply evq_refl|apply evq_trans|].
  intros y sid y' H. destruct (sessions y !! sid) as [x|]; [|discriminate]. case_bool_decide; injection H as <-; [apply session_make_pending_evq|apply evq_refl].
Qed.
Lemma sub_make_pending_evq s sb : evq loud s (sub_make_pending s sb).
Proof. unfold sub_make_pending. evq_close. Qed.
Lemma detach_payout_ev s sb m s' : detach_payout s sb m = Ok s' -> (forall y, m = Ok y -> False) -> events s' = events s.
Proof.
  unfold detach_payout. intros H Hm. destruct (sb_kind sb); [|injection H as <-; reflexivity].
  destruct (_ =? 0); [injection H as <-; reflexivity|]. destruct (payouts s !! sb_id sb); [injection H as <-; reflexivity|].
  exfalso. eapply Hm; eauto.
Qed.

Lemma handle_evq s m s' : handle s m = Ok s' -> evq loud s s'.
Proof.
  intros H. destruct m; simpl in H.
  - unfold h_prov_register in H. res_inv; ev_hyps; evq_close.
  - unfold h_prov_update in H. destruct (get_provider s _); [|discriminate].
    repeat match type of H with context [if ?b then _ else _] => destruct b end; res_inv; ev_hyps; evq_close.
  - unfold h_node_register in H. res_inv; ev_hyps; evq_close.
  - unfold h_node_update_details in H. res_inv; ev_hyps; evq_close.
  - unfold h_node_update_status in H. destruct (get_node s _); [|discriminate].
    repeat match type of H with context [if ?b then _ else _] => destruct b end; res_inv; ev_hyps; evq_close.
  - unfold h_node_subscribe in H. res_inv. apply create_sub_for_node_evq in Hx1. evq_close.
  - unfold h_plan_create in H. res_inv; ev_hyps; evq_close.
  - unfold h_plan_update_status in H. res_inv; ev_hyps; evq_close.
  - unfold h_plan_link in H. res_inv; evq_close.
  - unfold h_plan_unlink in H. res_inv; evq_close.
  - unfold h_plan_subscribe in H. res_inv. apply create_sub_for_plan_evq in Hx. evq_close.
  - unfold h_sub_cancel in H. res_inv. apply sub_pending_hook_evq in Hx1.
    apply detach_payout_ev in H; [|discriminate].
    eapply evq_trans; [|apply evq_same; exact H]. eapply evq_trans; [|apply sub_make_pending_evq].
    eapply evq_trans; [|exact Hx1]. apply evq_same. reflexivity.
  - unfold h_sub_allocate in H. res_inv; evq_close.
  - unfold h_sess_start in H. res_inv; evq_close.
  - unfold h_sess_update in H. res_inv; evq_close.
  - unfold h_sess_end in H. res_inv. apply session_make_pending_evq.
  - unfold h_swap in H. res_inv; ev_hyps; evq_close.
Qed.

(** * block hooks *)

Lemma mint_loop_ev l : forall s s', mint_loop l s = Ok s' -> events s' = events s.
Proof.
  induction l as [|it l IH]; intros s s' H; simpl in H; [injection H as <-; reflexivity|].
  destruct (now s <? inf_ts it); [injection H as <-; reflexivity|]. res_inv. rewrite (IH _ _ H). reflexivity.
Qed.

Lemma node_end_block_evq s s' : node_end_block s = Ok s' -> evq loud s s'.
Proof.
  unfold node_end_block. intros H. apply rbind_ok in H as (s1 & H1 & H2).
  apply (evq_trans _ _ s1).
  - destruct (_ || _); [|injection H1 as <-; apply evq_refl].
    revert H1. apply (rfold_rel (evq loud)); [apply evq_refl|apply evq_trans|].
    intros y n y' H. unfold node_sweep_one in H. res_inv; ev_hyps; evq_close.
  - revert H2. apply (rfold_rel (evq loud)); [apply evq_refl|apply evq_trans|].
    intros y e y' H. unfold node_expire_one in H. res_inv; ev_hyps; evq_close.
Qed.

Lemma sub_refund_evq s sb s' : sub_refund s sb = Ok s' -> evq loud s s'.
Proof.
  unfold sub_refund. intros H. destruct (sb_kind sb) as [nd g h dep|]; [|injection H as <-; apply evq_refl].
  apply rbind_ok in H as (s1 & H1 & H2). apply (evq_trans _ _ s1).
  - destruct (negb (g =? 0)); [|injection H1 as <-; apply evq_refl]. res_inv; ev_hyps; evq_close.
  - destruct (negb (h =? 0)); [|injection H2 as <-; apply evq_refl]. res_inv; ev_hyps; evq_close.
Qed.
Lemma sub_cleanup_ev s sb : events (sub_cleanup s sb) = events s.
Proof.
  unfold sub_cleanup. destruct (sb_kind sb); [reflexivity|].
  generalize (allocs_for s (sb_id sb)). intros l.
  set (s0 := s <| sub_plan ::= _ |>). change (events s) with (events s0). generalize s0. clear.
  induction l as [|al l IH]; intros y; simpl; [reflexivity|]. rewrite IH. reflexivity.
Qed.
Lemma sub_delete_payout_ev s sb s' : sub_delete_payout s sb = Ok s' -> events s' = events s.
Proof.
  unfold sub_delete_payout. intros H. destruct (sb_kind sb); [|injection H as <-; reflexivity].
  destruct (_ =? 0); [injection H as <-; reflexivity|]. destruct (payouts s !! sb_id sb); [injection H as <-; reflexivity|discriminate].
Qed.

Lemma sub_expire_one_evq s e s' : sub_expire_one s e = Ok s' -> evq loud s s'.
Proof.
  unfold sub_expire_one. intros H. destruct (subs s !! e.2) as [sb|]; [|discriminate]. case_bool_decide.
  - apply rbind_ok in H as (s1 & H1 & H2). apply must_ok, sub_pending_hook_evq in H1.
    apply detach_payout_ev in H2; [|discriminate].
    eapply evq_trans; [|apply evq_same; exact H2]. eapply evq_trans; [|apply sub_make_pending_evq].
    eapply evq_trans; [|exact H1]. apply evq_same. reflexivity.
  - apply rbind_ok in H as (s1 & H1 & H2). apply sub_refund_evq in H1. apply sub_delete_payout_ev in H2.
    eapply evq_trans; [|apply evq_same; exact H2].
    eapply evq_trans; [apply evq_same|eapply evq_trans; [exact H1|]]; [reflexivity|].
    exists [ev "subscription.EventUpdateStatus" [VS SInactive; VT (canon RAcc (sb_addr sb)); VZ (sb_id sb)]].
    simpl. rewrite sub_cleanup_ev. auto.
Qed.
Lemma sub_end_block_evq s s' : sub_end_block s = Ok s' -> evq loud s s'.
Proof. unfold sub_end_block. apply (rfold_rel (evq loud)); [apply evq_refl|apply evq_trans|]. intros; eapply sub_expire_one_evq; eauto. Qed.


(** * the session end-blocker: removal events and settlement payments are tied to the disappearing record *)

Definition loudA (e : event) : bool :=
  (name_is e "session.EventUpdateStatus"%string && match e.2 with VS SInactive :: _ => true | _ => false end) ||
  name_is e "subscription.EventPayForPayout"%string.
Lemma loudA_loud e : loudA e = true -> loud e = true.
Proof. unfold loudA, loud. intros H. apply orb_true_iff in H as [H|H]; rewrite H; [reflexivity|apply orb_true_r]. Qed.
Lemma removed_loudA id e : is_removed_ev id e = true -> loudA e = true.
Proof.
  unfold is_removed_ev, loudA. intros H. apply andb_true_iff in H as [H1 H2]. rewrite H1. simpl.
  destruct (e.2) as [|[]]; try discriminate. destruct s; try discriminate. reflexivity.
Qed.
Lemma payout_loudA id e : is_payout_ev id e = true -> loudA e = true.
Proof. unfold is_payout_ev, loudA. intros H. apply andb_true_iff in H as [H1 H2]. rewrite H1. apply orb_true_r. Qed.

Ltac weakenA := repeat match goal with H : evq loud _ _ |- _ => apply (evq_weaken loud loudA) in H; [|exact loudA_loud] end.

Lemma session_inactive_hook_evqA s sid acc nd b s' : session_inactive_hook s sid acc nd b = Ok s' -> evq loudA s s'.
Proof. unfold session_inactive_hook. intros H. res_inv; ev_hyps; weakenA; try apply evq_refl; evq_close. Qed.

Definition pres (s : state) (id : Z) : Z := if sessions s !! id then 1 else 0.

Lemma paysess_alloc id l : is_paysess_ev id (ev "subscription.EventAllocate" l) = false.
Proof. reflexivity. Qed.
Lemma paysess_pay id a b c d i e : is_paysess_ev id (ev "subscription.EventPayForSession" [a; b; c; d; VZ i; e]) = (i =? id).
Proof. reflexivity. Qed.

Lemma session_inactive_hook_pay s sid acc nd b s' x id :
  session_inactive_hook s sid acc nd b = Ok s' -> sessions s !! sid = Some x ->
  cnt (is_paysess_ev id) (events s') <= cnt (is_paysess_ev id) (events s) + (if ss_id x =? id then 1 else 0).
Proof.
  unfold session_inactive_hook. intros H Hx. rewrite Hx in H.
  assert (Q : forall l, forallb (fun e => negb (loud e)) l = true -> cnt (is_paysess_ev id) l = 0)
    by (intros l; apply cnt_quiet, paysess_loud).
  res_inv; ev_hyps; evq_open; simpl;
    repeat match goal with H : events ?y = _ |- context [events ?y] => rewrite H end;
    rewrite ?cnt_app; simpl;
    repeat match goal with F : forallb _ ?l = true |- context [cnt _ ?l] => rewrite (Q l F) end;
    try (destruct (ss_id x =? id); lia).
  all: rewrite ?cnt_app; simpl cnt; rewrite ?paysess_alloc, ?paysess_pay; destruct (ss_id x =? id); lia.
Qed.

Lemma removed_self id a b i c : is_removed_ev id (ev "session.EventUpdateStatus" [VS SInactive; a; b; VZ i; c]) = (i =? id).
Proof. reflexivity. Qed.

Lemma session_expire_one_counts s e s' x id :
  sessions s !! e.2 = Some x -> ss_id x = e.2 -> session_expire_one s e = Ok s' ->
  cnt (is_removed_ev id) (events s') + pres s' id = cnt (is_removed_ev id) (events s) + pres s id /\
  cnt (is_paysess_ev id) (events s') + pres s' id <= cnt (is_paysess_ev id) (events s) + pres s id /\
  cnt (is_payout_ev id) (events s') = cnt (is_payout_ev id) (events s).
Proof.
  intros Hx Eid H. destruct (session_expire_one_sessions _ _ _ _ Hx Eid H) as (_ & _ & Es).
  unfold pres. rewrite Es. unfold session_expire_one in H. rewrite Hx in H. case_bool_decide as Hact.
  - injection H as <-. simpl. rewrite !cnt_app. simpl.
    destruct (decide (e.2 = id)) as [<-|Hne]; [rewrite lookup_insert, Hx|rewrite lookup_insert_ne by exact Hne]; lia.
  - apply rbind_ok in H as (total & _ & H). apply rbind_ok in H as (s1 & Hh & H). apply must_ok in Hh. injection H as <-.
    pose proof (session_inactive_hook_evqA _ _ _ _ _ _ Hh) as QA.
    pose proof (session_inactive_hook_pay _ _ _ _ _ _ x id Hh) as QP. simpl in QP. rewrite Eid in QP. specialize (QP Hx).
    pose proof (evq_cnt (is_removed_ev id) loudA _ _ (removed_loudA id) QA) as C1.
    pose proof (evq_cnt (is_payout_ev id) loudA _ _ (payout_loudA id) QA) as C2. simpl in C1, C2.
    simpl. rewrite !cnt_app. simpl. rewrite C1, C2. rewrite Eid in *.
    destruct (decide (e.2 = id)) as [<-|Hne].
    + rewrite removed_self, lookup_delete, Hx, Z.eqb_refl in *. lia.
    + rewrite removed_self, lookup_delete_ne by exact Hne. replace (e.2 =? id) with false in * by (symmetry; apply Z.eqb_neq; exact Hne). simpl. lia.
Qed.

Lemma session_end_block_counts s s' id :
  kinv s -> session_end_block s = Ok s' ->
  cnt (is_removed_ev id) (events s') + pres s' id = cnt (is_removed_ev id) (events s) + pres s id /\
  cnt (is_paysess_ev id) (events s') + pres s' id <= cnt (is_paysess_ev id) (events s) + pres s id /\
  cnt (is_payout_ev id) (events s') = cnt (is_payout_ev id) (events s).
Proof.
  intros Hi H. unfold session_end_block in H.
  set (P := fun y => kinv y /\
     cnt (is_removed_ev id) (events y) + pres y id = cnt (is_removed_ev id) (events s) + pres s id /\
     cnt (is_paysess_ev id) (events y) + pres y id <= cnt (is_paysess_ev id) (events s) + pres s id /\
     cnt (is_payout_ev id) (events y) = cnt (is_payout_ev id) (events s)).
  assert (G : P s'); [|destruct G as (_ & G); exact G].
  eapply (rfold_inv P); [| |exact H].
  - intros y e y' (Ky & A & B & C) Hs. split; [eapply kinv_session_expire_one; eauto|].
    unfold session_expire_one in Hs. destruct (sessions y !! e.2) as [x|] eqn:Hx; [|discriminate].
    destruct (k_ss _ (ki_sess _ Ky) _ _ Hx) as (Eid & _).
    assert (Hs' : session_expire_one y e = Ok y') by (unfold session_expire_one; rewrite Hx; exact Hs).
    destruct (session_expire_one_counts y e y' x id Hx Eid Hs') as (A' & B' & C'). lia.
  - split; [exact Hi|]. lia.
Qed.

(** * the begin-blocker: one payout event per hour taken off the payout, at most one per block, only when due *)

Definition hrs (s : state) (id : Z) : Z := match payouts s !! id with Some po => po_hours po | None => 0 end.

Lemma payout_self id a b c d i : is_payout_ev id (ev "subscription.EventPayForPayout" [a; b; c; d; VZ i]) = (i =? id).
Proof. reflexivity. Qed.

Lemma payout_step_counts s e s' po id :
  payouts s !! e.2 = Some po -> po_id po = e.2 -> payout_step s e = Ok s' ->
  cnt (is_payout_ev id) (events s') = cnt (is_payout_ev id) (events s) + (if e.2 =? id then 1 else 0) /\
  cnt (is_removed_ev id) (events s') = cnt (is_removed_ev id) (events s) /\
  cnt (is_paysess_ev id) (events s') = cnt (is_paysess_ev id) (events s).
Proof.
  intros Hpo Eid H. unfold payout_step in H. rewrite Hpo in H.
  assert (Q1 : forall l, forallb (fun e => negb (loud e)) l = true -> cnt (is_payout_ev id) l = 0) by (intros l; apply cnt_quiet, payout_loud).
  assert (Q2 : forall l, forallb (fun e => negb (loud e)) l = true -> cnt (is_removed_ev id) l = 0) by (intros l; apply cnt_quiet, removed_loud).
  assert (Q3 : forall l, forallb (fun e => negb (loud e)) l = true -> cnt (is_paysess_ev id) l = 0) by (intros l; apply cnt_quiet, paysess_loud).
  res_inv; ev_hyps; evq_open; destruct (0 <? po_hours po - 1); simpl;
    repeat match goal with H : events ?y = _ |- context [events ?y] => rewrite H end; simpl;
    rewrite ?cnt_app; simpl cnt; rewrite ?payout_self, Eid;
    repeat match goal with F : forallb _ ?l = true |- _ => rewrite ?(Q1 l F), ?(Q2 l F), ?(Q3 l F); clear F end;
    (split; [|split]); try reflexivity; try lia.
Qed.

Lemma sub_begin_block_counts s s' id :
  kinv s -> idx_sub s -> sub_begin_block s = Ok s' ->
  cnt (is_removed_ev id) (events s') = cnt (is_removed_ev id) (events s) /\
  cnt (is_paysess_ev id) (events s') = cnt (is_paysess_ev id) (events s) /\
  let k := cnt (is_payout_ev id) (events s') - cnt (is_payout_ev id) (events s) in
  (k = 0 /\ payouts s' !! id = payouts s !! id) \/
  (k = 1 /\ exists po, payouts s !! id = Some po /\ po_next_at po <= now s /\ 0 < po_hours po /\
            (exists sb, subs s !! id = Some sb /\ sb_status sb = SActive) /\
            payouts s' !! id = Some (po <| po_hours := po_hours po - 1 |>
                                        <| po_next_at := if po_hours po - 1 =? 0 then tzero else po_next_at po + HOUR |>)).
Proof.
  intros Hi Hix H. unfold sub_begin_block in H.
  set (c0 := cnt (is_payout_ev id) (events s)).
  set (Done := fun (x : state) =>
     cnt (is_payout_ev id) (events x) = c0 + 1 /\ exists po, payouts s !! id = Some po /\ po_next_at po <= now s /\ 0 < po_hours po /\
            (exists sb, subs s !! id = Some sb /\ sb_status sb = SActive) /\
            payouts x !! id = Some (po <| po_hours := po_hours po - 1 |>
                                       <| po_next_at := if po_hours po - 1 =? 0 then tzero else po_next_at po + HOUR |>)).
  set (P := fun (rest : list (time * Z)) (x : state) =>
     kinv x /\ idx_sub x /\ NoDup rest /\ (forall e, e ∈ rest -> e ∈ pay_q x /\ e.1 <= now s) /\
     subs x = subs s /\
     cnt (is_removed_ev id) (events x) = cnt (is_removed_ev id) (events s) /\
     cnt (is_paysess_ev id) (events x) = cnt (is_paysess_ev id) (events s) /\
     ((cnt (is_payout_ev id) (events x) = c0 /\ payouts x !! id = payouts s !! id) \/
      (Done x /\ forall t, (t, id) ∉ rest))).
  assert (G : P [] s').
  { eapply (rfold_rest P); [| |exact H].
    - intros e rest x x' (Hkx & Hixx & Hnd & Hin & Esub & C1 & C2 & C3) Hstep.
      destruct (Hin e ltac:(left)) as [He Hle].
      apply NoDup_cons in Hnd as [Hnotin Hnd].
      destruct e as [t id0]. destruct (proj1 (ix_payq _ Hixx t id0) He) as (po & sb & Hpo & Hnx & Hh & Hsb & Hact).
      destruct (k_po _ (ki_sub _ Hkx) _ _ Hpo) as [Eid _].
      destruct (payout_step_spec x (t, id0) x' po Hpo Hstep) as (E0 & _ & _ & _ & _ & _ & _ & _ & _ & E7 & E8).
      cbv zeta in E7, E8.
      destruct (payout_step_counts x (t, id0) x' po id Hpo Eid Hstep) as (K1 & K2 & K3). simpl in K1.
      assert (Hkx' : kinv x').
      { pose proof (payout_step_keeps _ _ _ Hstep) as Hkeep. kinv_frame Hkeep Hkx. intros _. eapply kinv_payout_step; eauto. apply Hkx. }
      assert (Hixx' : idx_sub x') by (eapply idx_payout_step; eauto; apply Hkx).
      split; [exact Hkx'|]. split; [exact Hixx'|]. split; [exact Hnd|]. split.
      { intros e' He'. destruct (Hin e' ltac:(right; exact He')) as [He'q Hle']. split; [|exact Hle'].
        assert (Hne : e' <> (t, id0)) by (intros ->; contradiction).
        rewrite E8, Hnx, Eid. destruct (0 <? po_hours po - 1); set_solver. }
      split; [congruence|]. split; [congruence|]. split; [congruence|].
      destruct (decide (id0 = id)) as [->|Hne].
      + right. destruct C3 as [[C3 C4]|[_ C3]]; [|exfalso; apply (C3 t); left].
        rewrite Z.eqb_refl in K1. split.
        * split; [lia|]. rewrite C4 in Hpo. exists po. split; [exact Hpo|]. split; [simpl in Hle; lia|]. split; [exact Hh|].
          split; [exists sb; rewrite <- Esub; auto|]. rewrite E7, Eid, lookup_insert. reflexivity.
        * intros t' Ht'. destruct (Hin (t', id) ltac:(right; exact Ht')) as [Hq _].
          destruct (proj1 (ix_payq _ Hixx t' id) Hq) as (po' & _ & Hpo' & Hnx' & _). apply Hnotin. congruence.
      + replace (id0 =? id) with false in K1 by (symmetry; apply Z.eqb_neq; exact Hne).
        destruct C3 as [[C3 C4]|[(D1 & po1 & D2 & D3 & D4 & D5 & D6) C3]].
        * left. split; [lia|]. rewrite E7, Eid, lookup_insert_ne by exact Hne. exact C4.
        * right. split; [|intros t' Ht'; apply (C3 t'); right; exact Ht'].
          split; [lia|]. exists po1. repeat (split; [assumption|]). rewrite E7, Eid, lookup_insert_ne by exact Hne. exact D6.
    - split; [exact Hi|]. split; [exact Hix|]. split; [apply Sorting.NoDup_due_z|]. split.
      { intros e He. apply Sorting.elem_of_due_z in He. tauto. }
      split; [reflexivity|]. split; [reflexivity|]. split; [reflexivity|]. left. split; reflexivity. }
  destruct G as (_ & _ & _ & _ & _ & G1 & G2 & G3). split; [exact G1|]. split; [exact G2|].
  cbv zeta. destruct G3 as [[G3 G4]|[(D1 & D) _]]; [left|right]; (split; [fold c0; lia|assumption]).
Qed.

(** * one whole operation *)

Definition removed_in (s s' : state) (id : Z) : Z :=
  match sessions s !! id, sessions s' !! id with Some _, None => 1 | _, _ => 0 end.

Lemma cnt_clear f s : cnt f (events (clear_events s)) = 0.
Proof. reflexivity. Qed.

Lemma fold_pchange_events cs : forall y, events (fold_left apply_pchange cs y) = events y.
Proof. induction cs as [|c cs IH]; intros y; simpl; [reflexivity|]. rewrite IH. destruct c; reflexivity. Qed.

Theorem step_session_events s o s' id :
  life_inv s -> step s o = OOk s' ->
  cnt (is_removed_ev id) (events s') = removed_in s s' id /\
  cnt (is_paysess_ev id) (events s') <= removed_in s s' id.
Proof.
  intros Hl Hstep. pose proof (ai_k _ (lf_idx _ Hl)) as Hi. pose proof (ai_sess _ (lf_idx _ Hl)) as Hix.
  unfold removed_in. unfold step in Hstep. destruct o.
  - (* begin-blocker: neither event, no session touched *)
    destruct (begin_block _) as [y| |] eqn:H; try discriminate. injection Hstep as <-.
    pose proof (begin_block_keeps _ _ H) as K. assert (E : sessions y = sessions s) by keeps_solve. rewrite E.
    unfold begin_block in H. apply rbind_ok in H as (s1 & H1 & H2).
    pose proof (mint_begin_block_keeps _ _ H1) as K1. apply mint_loop_ev in H1. simpl in H1.
    assert (Hk1 : kinv s1).
    { eapply (kinv_updates (clear_events s)); [|apply kinv_clear; exact Hi].
      eapply keeps_trans; [|eapply keeps_weaken; [|exact K1]]; [keeps_solve|]. intros g Hg. destruct g; simpl in *; auto; discriminate. }
    assert (Hx1 : idx_sub s1).
    { eapply idx_sub_frame; [..|exact (ai_sub _ (lf_idx _ Hl))]; keeps_solve. }
    destruct (sub_begin_block_counts s1 y id Hk1 Hx1 H2) as (C1 & C2 & _). rewrite C1, C2, H1. simpl.
    destruct (sessions s !! id); split; reflexivity || lia.
  - (* a transaction: handlers emit neither, and never delete a session *)
    unfold run_tx in Hstep. destruct (validate_basic m); [|discriminate].
    destruct (handle _ m) as [y| |] eqn:H; try discriminate. injection Hstep as <-.
    pose proof (handle_evq _ _ _ H) as Q.
    rewrite (evq_cnt (is_removed_ev id) loud _ _ (removed_loud id) Q), (evq_cnt (is_paysess_ev id) loud _ _ (paysess_loud id) Q), !cnt_clear.
    destruct (sessions s !! id) as [x|] eqn:Hx; [|split; reflexivity || lia].
    destruct (handle_sess (clear_events s) m y id x (kinv_clear _ Hi) ltac:(eapply idx_sess_frame; [..|exact Hix]; reflexivity) H Hx)
      as [(x1 & Hx1 & _)|(_ & Hx1 & _)]; rewrite Hx1; split; reflexivity || lia.
  - destruct (forallb pchange_valid _); [|discriminate]. injection Hstep as <-. destruct (fold_pchange_fields cs (clear_events s)) as (G1 & _). rewrite G1. simpl.
    assert (E : events (fold_left apply_pchange cs (clear_events s)) = []) by (rewrite fold_pchange_events; reflexivity).
    rewrite E. simpl. destruct (sessions s !! id); split; reflexivity || lia.
  - (* end-blocker *)
    destruct (end_block _) as [y| |] eqn:H; try discriminate. injection Hstep as <-.
    change (events (y <| modified := no_flags |>)) with (events y). change (sessions (y <| modified := no_flags |>)) with (sessions y).
    unfold end_block in H. apply rbind_ok in H as (s1 & H1 & H). apply rbind_ok in H as (s2 & H2 & H3).
    pose proof (life_end_inv _ (life_clear _ Hl)) as [A B C D E]. pose proof (lf_link _ (life_clear _ Hl)) as Lk0.
    pose proof (node_end_block_keeps _ _ H1) as K1.
    assert (Hinv1 : end_inv s1).
    { split.
      - eapply kinv_node_end_block; eauto.
      - eapply idx_sess_keeps; eauto.
      - eapply idx_sub_keeps; eauto.
      - replace (pars s1) with (pars (clear_events s)) by keeps_solve. exact D.
      - eapply link_keeps; eauto. }
    destruct (session_end_block_fresh _ _ Hinv1 H2) as (Hinv2 & Sf2 & N2 & P2).
    pose proof (node_end_block_evq _ _ H1) as Q1. pose proof (sub_end_block_evq _ _ H3) as Q3.
    destruct (session_end_block_counts s1 s2 id (ei_k _ Hinv1) H2) as (F1 & F2 & _).
    rewrite (evq_cnt (is_removed_ev id) loud _ _ (removed_loud id) Q3), (evq_cnt (is_paysess_ev id) loud _ _ (paysess_loud id) Q3).
    rewrite (evq_cnt (is_removed_ev id) loud _ _ (removed_loud id) Q1), !cnt_clear in F1.
    rewrite (evq_cnt (is_paysess_ev id) loud _ _ (paysess_loud id) Q1), !cnt_clear in F2.
    assert (E1 : sessions s1 = sessions s) by (transitivity (sessions (clear_events s)); [keeps_solve|reflexivity]).
    unfold pres in F1, F2. rewrite E1 in F1, F2.
    assert (E2 : match sessions y !! id with Some _ => 1 | None => 0 end = match sessions s2 !! id with Some _ => 1 | None => 0 end).
    { destruct (sessions s2 !! id) as [x2|] eqn:Hx2.
      - destruct (ei_link _ Hinv2) as [Lk]. destruct (Lk _ _ Hx2) as (sbk & Hsbk & _).
        destruct (sub_end_block_sess_fate s2 y id x2 sbk Hinv2 Sf2 H3 Hx2 Hsbk) as [G|(_ & _ & _ & G)]; rewrite G; reflexivity.
      - rewrite (sub_end_block_sess_none s2 y id (ei_k _ Hinv2) H3 Hx2). reflexivity. }
    pose proof (cnt_nonneg (is_removed_ev id) (events s2)) as N1. pose proof (cnt_nonneg (is_paysess_ev id) (events s2)) as N3.
    destruct (sessions s !! id), (sessions y !! id), (sessions s2 !! id); try discriminate; split; lia.
Qed.

Theorem step_payout_events s o s' id :
  life_inv s -> step s o = OOk s' ->
  let k := cnt (is_payout_ev id) (events s') in
  k = 0 \/
  (k = 1 /\ exists t po, o = OBegin t /\ payouts s !! id = Some po /\ po_next_at po <= t /\ 0 < po_hours po /\
            (exists sb, subs s !! id = Some sb /\ sb_status sb = SActive) /\
            payouts s' !! id = Some (po <| po_hours := po_hours po - 1 |>
                                        <| po_next_at := if po_hours po - 1 =? 0 then tzero else po_next_at po + HOUR |>)).
Proof.
  intros Hl Hstep. pose proof (ai_k _ (lf_idx _ Hl)) as Hi. cbv zeta. unfold step in Hstep. destruct o as [t|m|cs|].
  - destruct (begin_block _) as [y| |] eqn:H; try discriminate. injection Hstep as <-.
    unfold begin_block in H. apply rbind_ok in H as (s1 & H1 & H2).
    pose proof (mint_begin_block_keeps _ _ H1) as K1. apply mint_loop_ev in H1. simpl in H1.
    assert (Hk1 : kinv s1).
    { eapply (kinv_updates (clear_events s)); [|apply kinv_clear; exact Hi].
      eapply keeps_trans; [|eapply keeps_weaken; [|exact K1]]; [keeps_solve|]. intros g Hg. destruct g; simpl in *; auto; discriminate. }
    assert (Hx1 : idx_sub s1).
    { eapply idx_sub_frame; [..|exact (ai_sub _ (lf_idx _ Hl))]; keeps_solve. }
    destruct (sub_begin_block_counts s1 y id Hk1 Hx1 H2) as (_ & _ & C). cbv zeta in C. rewrite H1 in C. simpl in C.
    assert (Ep : payouts s1 = payouts s) by keeps_solve. assert (Es : subs s1 = subs s) by keeps_solve. assert (En : now s1 = t) by keeps_solve.
    rewrite Ep, Es, En in C. destruct C as [[C _]|[C (po & D)]]; [left; lia|right]. split; [lia|]. exists t, po. split; [reflexivity|exact D].
  - left. unfold run_tx in Hstep. destruct (validate_basic m); [|discriminate].
    destruct (handle _ m) as [y| |] eqn:H; try discriminate. injection Hstep as <-.
    rewrite (evq_cnt (is_payout_ev id) loud _ _ (payout_loud id) (handle_evq _ _ _ H)). reflexivity.
  - left. destruct (forallb pchange_valid _); [|discriminate]. injection Hstep as <-.
    assert (E : events (fold_left apply_pchange cs (clear_events s)) = []) by (rewrite fold_pchange_events; reflexivity).
    rewrite E. reflexivity.
  - left. destruct (end_block _) as [y| |] eqn:H; try discriminate. injection Hstep as <-.
    change (events (y <| modified := no_flags |>)) with (events y).
    unfold end_block in H. apply rbind_ok in H as (s1 & H1 & H). apply rbind_ok in H as (s2 & H2 & H3).
    rewrite (evq_cnt (is_payout_ev id) loud _ _ (payout_loud id) (sub_end_block_evq _ _ H3)).
    assert (Hk1 : kinv s1) by (eapply kinv_node_end_block; [apply kinv_clear; exact Hi|exact H1]).
    destruct (session_end_block_counts s1 s2 id Hk1 H2) as (_ & _ & F). rewrite F.
    rewrite (evq_cnt (is_payout_ev id) loud _ _ (payout_loud id) (node_end_block_evq _ _ H1)). reflexivity.
Qed.

(** * whole histories: the concatenated event list of a run *)

Fixpoint trace (s : state) (ops : list op) : list event :=
  match ops with
  | [] => []
  | o :: r => match step s o with
              | OOk s' => events s' ++ trace s' r
              | ORejected => trace (clear_events s) r
              | OHalt => []
              end
  end.

Lemma sess_count_mono s o s' : kinv s -> step s o = OOk s' -> sess_count s <= sess_count s'.
Proof. intros Hi H. destruct (proj2 (evo_step _ _ _ Hi H)) as [[A _]|[A _ _ _]]; lia. Qed.

Lemma trace_dead ops : forall s id,
  life_inv s -> wf_hist wf_op_life s ops -> sessions s !! id = None -> id <= sess_count s ->
  cnt (is_removed_ev id) (trace s ops) = 0 /\ cnt (is_paysess_ev id) (trace s ops) = 0.
Proof.
  induction ops as [|o r IH]; intros s id Hl Hwf Hn Hle; simpl; [split; reflexivity|].
  destruct Hwf as [Hop Hwf]. destruct (step s o) as [s'| |] eqn:Hstep; [| |split; reflexivity].
  - destruct (step_session_events s o s' id Hl Hstep) as (A & B). unfold removed_in in A, B. rewrite Hn in A, B.
    pose proof (cnt_nonneg (is_paysess_ev id) (events s')) as N.
    destruct (sess_id_not_reissued s o s' id (ai_k _ (lf_idx _ Hl)) Hstep Hle Hn) as [Hn' Hle'].
    destruct (IH s' id (life_step _ _ _ Hl Hop Hstep) Hwf Hn' Hle') as (C & D). rewrite !cnt_app. lia.
  - apply (IH (clear_events s) id (life_clear _ Hl) Hwf); assumption.
Qed.

Theorem trace_settled_at_most_once ops : forall s id,
  life_inv s -> wf_hist wf_op_life s ops ->
  cnt (is_removed_ev id) (trace s ops) <= 1 /\ cnt (is_paysess_ev id) (trace s ops) <= cnt (is_removed_ev id) (trace s ops).
Proof.
  induction ops as [|o r IH]; intros s id Hl Hwf; simpl; [split; lia|].
  destruct Hwf as [Hop Hwf]. destruct (step s o) as [s'| |] eqn:Hstep; [| |simpl; split; lia].
  - destruct (step_session_events s o s' id Hl Hstep) as (A & B).
    pose proof (life_step _ _ _ Hl Hop Hstep) as Hl'. rewrite !cnt_app.
    unfold removed_in in A, B. destruct (sessions s !! id) as [x|] eqn:Hx.
    + destruct (sessions s' !! id) as [x'|] eqn:Hx'.
      * destruct (IH s' id Hl' Hwf) as (C & D). lia.
      * destruct (k_ss _ (ki_sess _ (ai_k _ (lf_idx _ Hl))) _ _ Hx) as (_ & Hid & _).
        pose proof (sess_count_mono _ _ _ (ai_k _ (lf_idx _ Hl)) Hstep) as Hm.
        destruct (trace_dead r s' id Hl' Hwf Hx' ltac:(lia)) as (C & D). lia.
    + destruct (IH s' id Hl' Hwf) as (C & D). lia.
  - apply (IH (clear_events s) id (life_clear _ Hl) Hwf).
Qed.

Theorem trace_settled_exactly_once ops : forall s i s' id x,
  life_inv s -> wf_hist wf_op_life s ops -> run_from s ops i = RunOk s' ->
  sessions s !! id = Some x -> sessions s' !! id = None ->
  cnt (is_removed_ev id) (trace s ops) = 1.
Proof.
  induction ops as [|o r IH]; intros s i s' id x Hl Hwf Hrun Hx Hn; simpl in *.
  - injection Hrun as <-. congruence.
  - destruct Hwf as [Hop Hwf]. destruct (step s o) as [y| |] eqn:Hstep; [| |discriminate].
    + destruct (step_session_events s o y id Hl Hstep) as (A & _).
      pose proof (life_step _ _ _ Hl Hop Hstep) as Hl'. rewrite cnt_app.
      unfold removed_in in A. rewrite Hx in A. destruct (sessions y !! id) as [x'|] eqn:Hx'.
      * rewrite (IH y (S i) s' id x' Hl' Hwf Hrun Hx' Hn). lia.
      * destruct (k_ss _ (ki_sess _ (ai_k _ (lf_idx _ Hl))) _ _ Hx) as (_ & Hid & _).
        pose proof (sess_count_mono _ _ _ (ai_k _ (lf_idx _ Hl)) Hstep) as Hm.
        destruct (trace_dead r y id Hl' Hwf Hx' ltac:(lia)) as (C & _). lia.
    + apply (IH (clear_events s) (S i) s' id x (life_clear _ Hl) Hwf Hrun Hx Hn).
Qed.

(** * whole histories: an hourly payout is paid at most as many times as it has hours *)

Lemma payout_absent_step s o s' id :
  kinv s -> step s o = OOk s' -> payouts s !! id = None -> id <= sub_count s -> payouts s' !! id = None /\ id <= sub_count s'.
Proof.
  intros Hi H Hn Hle. destruct (proj1 (evo_step _ _ _ Hi H)) as [[A _ C]|[A _ _ _ E]].
  - split; [|lia]. destruct (payouts s' !! id) as [x'|] eqn:E'; [|reflexivity]. destruct (C _ _ E') as (x & Hx & _). congruence.
  - split; [|lia]. destruct (payouts s' !! id) as [x'|] eqn:E'; [|reflexivity]. rewrite (E id x') in Hn; [discriminate|lia|exact E'].
Qed.

Lemma trace_payout_absent ops : forall s id,
  life_inv s -> wf_hist wf_op_life s ops -> payouts s !! id = None -> id <= sub_count s ->
  cnt (is_payout_ev id) (trace s ops) = 0.
Proof.
  induction ops as [|o r IH]; intros s id Hl Hwf Hn Hle; simpl; [reflexivity|].
  destruct Hwf as [Hop Hwf]. destruct (step s o) as [s'| |] eqn:Hstep; [| |reflexivity].
  - rewrite cnt_app. destruct (step_payout_events s o s' id Hl Hstep) as [K|(_ & t & po & _ & Hpo & _)]; [|congruence].
    cbv zeta in K. rewrite K. destruct (payout_absent_step s o s' id (ai_k _ (lf_idx _ Hl)) Hstep Hn Hle) as [Hn' Hle'].
    rewrite (IH s' id (life_step _ _ _ Hl Hop Hstep) Hwf Hn' Hle'). reflexivity.
  - apply (IH (clear_events s) id (life_clear _ Hl) Hwf); assumption.
Qed.

Theorem trace_payouts_within_hours ops : forall s id po,
  life_inv s -> wf_hist wf_op_life s ops -> payouts s !! id = Some po ->
  cnt (is_payout_ev id) (trace s ops) <= Z.max 0 (po_hours po).
Proof.
  induction ops as [|o r IH]; intros s id po Hl Hwf Hpo; simpl; [lia|].
  destruct Hwf as [Hop Hwf]. destruct (step s o) as [s'| |] eqn:Hstep; [| |simpl; lia].
  - rewrite cnt_app. pose proof (ai_k _ (lf_idx _ Hl)) as Hi. pose proof (life_step _ _ _ Hl Hop Hstep) as Hl'.
    destruct (k_po _ (ki_sub _ Hi) _ _ Hpo) as (_ & Hid).
    destruct (step_payout_events s o s' id Hl Hstep) as [K|(K & t & po0 & _ & Hpo0 & _ & Hh & _ & Hpo')]; cbv zeta in K; rewrite K.
    + destruct (payouts s' !! id) as [po'|] eqn:Hpo'.
      * pose proof (IH s' id po' Hl' Hwf Hpo') as B.
        assert (Hle : po_hours po' <= po_hours po).
        { destruct (proj1 (evo_step _ _ _ Hi Hstep)) as [[_ _ C]|[_ _ _ _ E]].
          - destruct (C _ _ Hpo') as (x & Hx & S). rewrite Hpo in Hx. injection Hx as <-. destruct S as (_ & _ & _ & _ & S). exact S.
          - rewrite (E id po') in Hpo; [injection Hpo as <-; lia|lia|exact Hpo']. }
        lia.
      * assert (Hle' : id <= sub_count s') by (destruct (proj1 (evo_step _ _ _ Hi Hstep)) as [[A _ _]|[A _ _ _ _]]; lia).
        rewrite (trace_payout_absent r s' id Hl' Hwf Hpo' Hle'). lia.
    + rewrite Hpo in Hpo0. injection Hpo0 as <-. pose proof (IH s' id _ Hl' Hwf Hpo') as B. simpl in B. lia.
  - apply (IH (clear_events s) id po (life_clear _ Hl) Hwf Hpo).
Qed.
