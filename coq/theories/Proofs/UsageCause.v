(* C06, across one whole operation of any kind: the used bytes of a stored allocation never decrease, and they can
   grow only in the end-blocker (where Quota.settlement_usage names, iteration by iteration, the holder's own pending
   session whose settlement it was, and bounds the growth by the bytes that session reported).  No transaction -- not
   the usage report itself, not a re-share of quota --, no begin-blocker and no governance change moves a counter. *)
From Hub Require Import Base.Prelude Base.Arith Model.Types Model.Keeper Model.Handlers Model.Hooks Model.Step.
From Hub Require Import Proofs.Tactics Proofs.Sorting Proofs.Frames Proofs.KeysInv Proofs.Lifecycle Proofs.Quota
  Proofs.IndexSess Proofs.IndexNode Proofs.InvDefs Proofs.IndexSub Proofs.Listing Proofs.IndexSub2 Proofs.IndexPlan Proofs.IndexAll Proofs.Link.

Section usage.
  Variable k : Z * addr.

  (* backwards: an allocation found afterwards was there before, with no more used bytes *)
  Definition back (a b : state) : Prop :=
    forall alb, allocs b !! k = Some alb -> exists ala, allocs a !! k = Some ala /\ al_used ala <= al_used alb.

  Lemma back_refl a : back a a.
  Proof. intros al H. exists al. split; [exact H|lia]. Qed.
  Lemma back_trans a b c : back a b -> back b c -> back a c.
  Proof. intros H1 H2 alc Hc. destruct (H2 _ Hc) as (alb & Hb & L1). destruct (H1 _ Hb) as (ala & Ha & L2). exists ala. split; [exact Ha|lia]. Qed.
  Lemma back_same a b : allocs b = allocs a -> back a b.
  Proof. intros E al H. rewrite E in H. exists al. split; [exact H|lia]. Qed.

  Lemma back_session_expire_one s e s' : kinv s -> quota_inv s -> session_expire_one s e = Ok s' -> back s s'.
  Proof.
    intros Hi Hq H alb Hb. assert (H0 := H). unfold session_expire_one in H0.
    destruct (sessions s !! e.2) as [x|] eqn:Hx; [|discriminate].
    assert (Hdom : is_Some (allocs s !! k)).
    { case_bool_decide; [injection H0 as <-; simpl in Hb; eauto|].
      apply rbind_ok in H0 as (total & _ & H0). apply rbind_ok in H0 as (s1 & Hh & H0). apply must_ok in Hh. injection H0 as <-. simpl in Hb.
      apply session_inactive_hook_allocs in Hh; [|eapply kinv_sub_frame; [..|apply (ki_sub _ Hi)]; reflexivity].
      destruct Hh as [E|(x0 & al0 & u' & _ & Hal0 & E & _)]; rewrite E in Hb; simpl in *; [eauto|].
      apply lookup_insert_Some in Hb as [[<- _]|[_ Hb]]; eauto. }
    destruct Hdom as [ala Ha]. exists ala. split; [exact Ha|].
    destruct (settlement_usage s e s' x Hi Hq H Hx k ala alb Ha Hb) as (_ & L & _). exact L.
  Qed.

  Lemma back_sub_expire_one s e s' : kinv s -> idx_sub s -> sub_expire_one s e = Ok s' -> back s s'.
  Proof.
    intros Hi Hix H. destruct (subs s !! e.2) as [sb|] eqn:Hsb; [|unfold sub_expire_one in H; rewrite Hsb in H; discriminate].
    destruct (decide (sb_status sb = SActive)) as [Hact|Hact].
    - apply back_same. unfold sub_expire_one in H. rewrite Hsb in H. rewrite bool_decide_eq_true_2 in H by exact Hact.
      apply rbind_ok in H as (s1 & Hp & H). apply must_ok, sub_pending_hook_keeps in Hp.
      unfold detach_payout in H. repeat case_match; res_inv; simpl; to_base s; auto.
    - destruct (sub_remove_spec s e s' sb (ki_sub _ Hi) Hix Hsb Hact H) as (_ & _ & R3 & _).
      intros alb Hb. rewrite R3 in Hb. case_bool_decide; [discriminate|]. exists alb. split; [exact Hb|lia].
  Qed.

  Lemma create_sub_for_plan_allocs s acc pid dn s' id :
    create_sub_for_plan s acc pid dn = Ok (s', id) -> exists al0, allocs s' = <[(id, acc) := al0]> (allocs s).
  Proof.
    intros H. unfold create_sub_for_plan in H. destruct (get_plan s pid) as [p|]; [|discriminate].
    res_inv; pose_keeps. eexists. simpl. to_base s. reflexivity.
  Qed.

  (* transactions: an allocation that exists before and after keeps its used bytes *)
  Lemma used_handle s m s' al al' :
    kinv s -> handle s m = Ok s' -> allocs s !! k = Some al -> allocs s' !! k = Some al' -> al_used al' = al_used al.
  Proof.
    intros Hi H Ha Hb. destruct (k_al _ (ki_sub _ Hi) _ _ Ha) as (_ & _ & Rk).
    destruct m; simpl in H.
    all: try (replace (allocs s') with (allocs s) in Hb by (symmetry; handler_keeps H; keeps_solve); congruence).
    - (* node subscription: a new allocation under the next identifier, or none *)
      unfold h_node_subscribe in H. apply rbind_ok in H as (u1 & _ & H). apply rbind_ok in H as (u2 & _ & H).
      apply rbind_ok in H as ([y nid] & Hc & H). injection H as <-. simpl in Hb.
      destruct (kinv_create_sub_for_node _ _ _ _ _ _ _ _ (ki_sub _ Hi) Hc) as [_ Eid].
      destruct (create_sub_for_node_allocs _ _ _ _ _ _ _ _ Hc) as [[_ E]|[_ E]]; rewrite E in Hb.
      + congruence.
      + rewrite lookup_insert_ne in Hb; [congruence|]. intros <-. simpl in Rk, Eid. lia.
    - (* plan subscription *)
      unfold h_plan_subscribe in H. apply rbind_ok in H as ([y nid] & Hc & H). injection H as <-. simpl in Hb.
      destruct (kinv_create_sub_for_plan _ _ _ _ _ _ (ki_sub _ Hi) Hc) as [_ Eid].
      destruct (create_sub_for_plan_allocs _ _ _ _ _ _ Hc) as (al0 & E). rewrite E in Hb.
      rewrite lookup_insert_ne in Hb; [congruence|]. intros <-. simpl in Rk, Eid. lia.
    - (* cancel: allocations untouched *)
      replace (allocs s') with (allocs s) in Hb; [congruence|]. symmetry.
      unfold h_sub_cancel in H. res_inv. apply sub_pending_hook_keeps in Hx1.
      unfold detach_payout in H. repeat case_match; res_inv; simpl; to_base s; auto.
    - (* sharing: only grants move *)
      destruct (h_sub_allocate_spec _ _ _ _ _ _ H) as (sb & fal & _ & Hf & Hne & _ & _ & E). cbv zeta in E. rewrite E in Hb.
      apply lookup_insert_Some in Hb as [[<- <-]|[N1 Hb]].
      + rewrite Ha. reflexivity.
      + apply lookup_insert_Some in Hb as [[<- <-]|[N2 Hb]]; [rewrite Hf in Ha; injection Ha as <-; reflexivity|congruence].
  Qed.

  Theorem usage_grows_only_in_end_block s o s' al al' :
    life_inv s -> quota_inv s -> step s o = OOk s' ->
    allocs s !! k = Some al -> allocs s' !! k = Some al' ->
    al_used al <= al_used al' /\ (o <> OEnd -> al_used al' = al_used al).
  Proof.
    intros Hl Hq Hstep Ha Hb. pose proof (ai_k _ (lf_idx _ Hl)) as Hi. unfold step in Hstep. destruct o.
    - destruct (begin_block _) as [y| |] eqn:H; try discriminate. injection Hstep as <-.
      assert (E : allocs y = allocs s).
      { unfold begin_block in H. apply rbind_ok in H as (s1 & H1 & H2). apply mint_begin_block_keeps in H1.
        transitivity (allocs s1); [|keeps_solve]. unfold sub_begin_block in H2.
        eapply (rfold_inv (fun x => allocs x = allocs s1)); [|reflexivity|exact H2].
        intros a e b Ea Hs. destruct (payout_step_allocs _ _ _ Hs) as (E & _). congruence. }
      rewrite E, Ha in Hb. injection Hb as <-. split; [lia|reflexivity].
    - unfold run_tx in Hstep. destruct (validate_basic m); [|discriminate].
      destruct (handle _ m) as [y| |] eqn:H; try discriminate. injection Hstep as <-.
      rewrite (used_handle (clear_events s) m y al al' (kinv_clear _ Hi) H Ha Hb). split; [lia|reflexivity].
    - destruct (forallb pchange_valid _); [|discriminate]. injection Hstep as <-.
      destruct (fold_pchange_fields cs (clear_events s)) as (_ & _ & G3 & _). rewrite G3 in Hb. simpl in Hb.
      rewrite Ha in Hb. injection Hb as <-. split; [lia|reflexivity].
    - split; [|congruence]. destruct (end_block _) as [y| |] eqn:H; try discriminate. injection Hstep as <-.
      change (allocs (y <| modified := no_flags |>)) with (allocs y) in Hb.
      unfold end_block in H. apply rbind_ok in H as (s1 & H1 & H). apply rbind_ok in H as (s2 & H2 & H3).
      pose proof (node_end_block_keeps _ _ H1) as K1.
      assert (Hi1 : kinv s1) by (eapply kinv_node_end_block; [apply kinv_clear; exact Hi|exact H1]).
      assert (Hq1 : quota_inv s1) by (eapply quota_inv_keeps; [exact K1|reflexivity..|eapply quota_inv_frame; [..|exact Hq]; reflexivity]).
      assert (Hx1 : idx_sub s1) by (eapply idx_sub_keeps; [exact K1|reflexivity|eapply idx_sub_frame; [..|exact (ai_sub _ (lf_idx _ Hl))]; reflexivity]).
      assert (B2 : kinv s2 /\ quota_inv s2 /\ idx_sub s2 /\ back s1 s2).
      { unfold session_end_block in H2.
        eapply (rfold_inv (fun x => kinv x /\ quota_inv x /\ idx_sub x /\ back s1 x)); [| |exact H2].
        - intros a e b (Ka & Qa & Xa & Ba) Hs. split; [eapply kinv_session_expire_one; eauto|].
          split; [eapply quota_session_expire_one; eauto|]. split; [eapply IndexSub2.idx_session_expire_one; eauto|].
          eapply back_trans; [exact Ba|]. eapply back_session_expire_one; eauto.
        - split; [exact Hi1|]. split; [exact Hq1|]. split; [exact Hx1|]. apply back_refl. }
      destruct B2 as (Hi2 & _ & Hx2 & B2).
      assert (B3 : back s2 y).
      { unfold sub_end_block in H3.
        eapply (rfold_inv (fun x => kinv x /\ idx_sub x /\ back s2 x)); [| |exact H3].
        - intros a e b (Ka & Xa & Ba) Hs. split; [eapply kinv_sub_expire_one; eauto|]. split; [eapply idx_sub_expire_one; eauto|].
          eapply back_trans; [exact Ba|]. eapply back_sub_expire_one; eauto.
        - split; [exact Hi2|]. split; [exact Hx2|]. apply back_refl. }
      destruct (back_trans _ _ _ B2 B3 _ Hb) as (al1 & Ha1 & L).
      assert (E1 : allocs s1 = allocs s) by (transitivity (allocs (clear_events s)); [keeps_solve|reflexivity]).
      rewrite E1, Ha in Ha1. injection Ha1 as <-. exact L.
  Qed.
End usage.
