(* How records evolve in one operation (C04, C18): identifiers are issued by the
   counters, a record keeps its identity, statuses only move forward
   (active -> inactive-pending -> removed), nothing reappears. *)
From Hub Require Import Base.Prelude Base.Arith Model.Types Model.Keeper Model.Handlers Model.Hooks Model.Step.
From Hub Require Import Proofs.Tactics Proofs.Frames Proofs.KeysInv.

Definition fwd (a b : status) : Prop := a = b \/ (a = SActive /\ b = SPending).
Lemma fwd_refl a : fwd a a. Proof. left; reflexivity. Qed.
Lemma fwd_trans a b c : fwd a b -> fwd b c -> fwd a c.
Proof. unfold fwd. intros [->|[-> ->]] [->|[E ->]]; auto; try discriminate. Qed.

Definition sub_same (x x' : subscription) : Prop :=
  sb_id x' = sb_id x /\ sb_addr x' = sb_addr x /\ sb_kind x' = sb_kind x /\ fwd (sb_status x) (sb_status x').
Definition pay_same (x x' : payout) : Prop :=
  po_id x' = po_id x /\ po_addr x' = po_addr x /\ po_node x' = po_node x /\ po_price x' = po_price x /\
  po_hours x' <= po_hours x.
Definition sess_same (x x' : session) : Prop :=
  ss_id x' = ss_id x /\ ss_sub x' = ss_sub x /\ ss_node x' = ss_node x /\ ss_addr x' = ss_addr x /\
  fwd (ss_status x) (ss_status x').
Definition plan_same (x x' : plan) : Prop :=
  pl_id x' = pl_id x /\ pl_prov x' = pl_prov x /\ pl_duration x' = pl_duration x /\ pl_gb x' = pl_gb x /\
  pl_prices x' = pl_prices x.

Lemma sub_same_refl x : sub_same x x. Proof. repeat split; auto using fwd_refl. Qed.
Lemma sub_same_trans x y z : sub_same x y -> sub_same y z -> sub_same x z.
Proof. unfold sub_same. intros (A & B & C & D) (A' & B' & C' & D'). repeat split; try congruence. eapply fwd_trans; eauto. Qed.
Lemma pay_same_refl x : pay_same x x. Proof. repeat split; auto; lia. Qed.
Lemma pay_same_trans x y z : pay_same x y -> pay_same y z -> pay_same x z.
Proof. unfold pay_same. intros (A & B & C & D & E) (A' & B' & C' & D' & E'). repeat split; try congruence; lia. Qed.
Lemma sess_same_refl x : sess_same x x. Proof. repeat split; auto using fwd_refl. Qed.
Lemma sess_same_trans x y z : sess_same x y -> sess_same y z -> sess_same x z.
Proof. unfold sess_same. intros (A & B & C & D & E) (A' & B' & C' & D' & E'). repeat split; try congruence. eapply fwd_trans; eauto. Qed.
Lemma plan_same_refl x : plan_same x x. Proof. repeat split; auto. Qed.

(** * evolution without creation (transitive; what block hooks and most handlers do) *)

Record sub_evo (s s' : state) : Prop := {
  se_cnt : sub_count s' = sub_count s;
  se_subs : forall id x', subs s' !! id = Some x' -> exists x, subs s !! id = Some x /\ sub_same x x';
  se_pay : forall id x', payouts s' !! id = Some x' -> exists x, payouts s !! id = Some x /\ pay_same x x' }.
Record sess_evo (s s' : state) : Prop := {
  ss_cnt : sess_count s' = sess_count s;
  ss_sess : forall id x', sessions s' !! id = Some x' -> exists x, sessions s !! id = Some x /\ sess_same x x' }.

Lemma sub_evo_refl s : sub_evo s s.
Proof. split; [reflexivity| |]; intros id x H; exists x; split; auto using sub_same_refl, pay_same_refl. Qed.
Lemma sub_evo_trans a b c : sub_evo a b -> sub_evo b c -> sub_evo a c.
Proof.
  intros [A1 A2 A3] [B1 B2 B3]. split; [congruence| |].
  - intros id x' H. destruct (B2 _ _ H) as (y & Hy & S1). destruct (A2 _ _ Hy) as (x & Hx & S2).
    exists x. split; [exact Hx|eapply sub_same_trans; eauto].
  - intros id x' H. destruct (B3 _ _ H) as (y & Hy & S1). destruct (A3 _ _ Hy) as (x & Hx & S2).
    exists x. split; [exact Hx|eapply pay_same_trans; eauto].
Qed.
Lemma sess_evo_refl s : sess_evo s s.
Proof. split; [reflexivity|]. intros id x H; exists x; split; auto using sess_same_refl. Qed.
Lemma sess_evo_trans a b c : sess_evo a b -> sess_evo b c -> sess_evo a c.
Proof.
  intros [A1 A2] [B1 B2]. split; [congruence|].
  intros id x' H. destruct (B2 _ _ H) as (y & Hy & S1). destruct (A2 _ _ Hy) as (x & Hx & S2).
  exists x. split; [exact Hx|eapply sess_same_trans; eauto].
Qed.

Lemma sub_evo_frame s s' :
  sub_count s' = sub_count s -> subs s' = subs s -> payouts s' = payouts s -> sub_evo s s'.
Proof. intros E1 E2 E3. split; [exact E1|rewrite E2|rewrite E3]; intros id x H; exists x; split; auto using sub_same_refl, pay_same_refl. Qed.
Lemma sess_evo_frame s s' : sess_count s' = sess_count s -> sessions s' = sessions s -> sess_evo s s'.
Proof. intros E1 E2. split; [exact E1|rewrite E2]. intros id x H; exists x; split; auto using sess_same_refl. Qed.

Lemma sub_evo_keeps T s s' : keeps T s s' -> touched GSub T = false -> sub_evo s s'.
Proof.
  intros (_ & _ & _ & _ & _ & _ & _ & K & _) Ht. rewrite Ht in K. simpl in K. apply sub_evo_frame; tauto.
Qed.
Lemma sess_evo_keeps T s s' : keeps T s s' -> touched GSess T = false -> sess_evo s s'.
Proof.
  intros (_ & _ & _ & _ & _ & _ & _ & _ & K & _) Ht. rewrite Ht in K. simpl in K. apply sess_evo_frame; tauto.
Qed.

(** * creation of exactly one record, with the next identifier *)

Record sub_new (s s' : state) : Prop := {
  sn_cnt : sub_count s' = sub_count s + 1;
  sn_new : exists sb, subs s' !! (sub_count s + 1) = Some sb /\ sb_id sb = sub_count s + 1 /\ sb_status sb = SActive;
  sn_subs : forall id x', id <> sub_count s + 1 -> subs s' !! id = Some x' -> subs s !! id = Some x';
  sn_keep : forall id x, subs s !! id = Some x -> id <> sub_count s + 1 -> subs s' !! id = Some x;
  sn_pay : forall id x', id <> sub_count s + 1 -> payouts s' !! id = Some x' -> payouts s !! id = Some x' }.
Record sess_new (s s' : state) : Prop := {
  ssn_cnt : sess_count s' = sess_count s + 1;
  ssn_new : exists x, sessions s' !! (sess_count s + 1) = Some x /\ ss_id x = sess_count s + 1 /\ ss_status x = SActive;
  ssn_sess : forall id x', id <> sess_count s + 1 -> sessions s' !! id = Some x' -> sessions s !! id = Some x';
  ssn_keep : forall id x, sessions s !! id = Some x -> id <> sess_count s + 1 -> sessions s' !! id = Some x }.

(* split lookups in updated maps *)
Ltac lk_cases :=
  repeat match goal with
  | H : <[_ := _]> _ !! _ = Some _ |- _ => apply lookup_insert_Some in H as [[? ?]|[? H]]; subst
  | H : delete _ _ !! _ = Some _ |- _ => apply lookup_delete_Some in H as [? H]
  end.

(** * subscriptions: per function *)

Lemma evo_create_sub_for_node s acc nd g h dn s' id :
  kinv_sub s -> create_sub_for_node s acc nd g h dn = Ok (s', id) -> sub_new s s'.
Proof.
  intros [A B C D] H. unfold create_sub_for_node in H.
  assert (Hfresh : subs s !! (sub_count s + 1) = None).
  { destruct (subs s !! (sub_count s + 1)) eqn:E; [|reflexivity]. destruct (A _ _ E) as (_ & ? & _). lia. }
  res_inv; pose_keeps; split; simpl; to_base s; try reflexivity.
  all: try (eexists; rewrite lookup_insert; repeat split; reflexivity).
  all: try (intros id0 y' Hne Hl; rewrite ?lookup_insert_ne in Hl by congruence; exact Hl).
  all: try (intros id0 y Hl Hne; rewrite lookup_insert_ne by congruence; exact Hl).
Qed.

Lemma evo_create_sub_for_plan s acc pid dn s' id :
  kinv_sub s -> create_sub_for_plan s acc pid dn = Ok (s', id) -> sub_new s s'.
Proof.
  intros [A B C D] H. unfold create_sub_for_plan in H.
  res_inv; pose_keeps.
  assert (Ec : sub_count x3 = sub_count s) by keeps_solve.
  split; simpl; to_base s; rewrite ?Ec; try reflexivity.
  all: try (eexists; rewrite lookup_insert; repeat split; reflexivity).
  all: try (intros id0 y' Hne Hl; rewrite ?lookup_insert_ne in Hl by congruence; exact Hl).
  all: try (intros id0 y Hl Hne; rewrite lookup_insert_ne by congruence; exact Hl).
Qed.

Lemma evo_sub_make_pending s sb :
  subs s !! sb_id sb = Some sb -> sb_status sb = SActive -> sub_evo s (sub_make_pending s sb).
Proof.
  intros Hsb Hst. unfold sub_make_pending. split; simpl; [reflexivity| |].
  - intros id0 y' Hl. lk_cases; [|exists y'; split; auto using sub_same_refl].
    exists sb. split; [exact Hsb|]. repeat split; simpl; auto. right. auto.
  - intros id0 y' Hl. exists y'. split; auto using pay_same_refl.
Qed.

Lemma evo_detach_payout s sb m s' :
  kinv_sub s -> (forall s'', m = Ok s'' -> sub_evo s s'') -> detach_payout s sb m = Ok s' -> sub_evo s s'.
Proof.
  intros Hk Hm H. unfold detach_payout in H. repeat case_match; res_inv; auto using sub_evo_refl.
  match goal with Hp : payouts s !! _ = Some ?p |- _ => destruct (k_po _ Hk _ _ Hp) as (E1 & _) end.
  split; simpl; [reflexivity| |].
  - intros id0 y' Hl. exists y'. split; auto using sub_same_refl.
  - intros id0 y' Hl. lk_cases; [|exists y'; split; auto using pay_same_refl].
    eexists. split; [rewrite E1; eassumption|]. repeat split; simpl; auto; lia.
Qed.

Lemma evo_h_sub_cancel s from id s' : kinv_sub s -> h_sub_cancel s from id = Ok s' -> sub_evo s s'.
Proof.
  intros Hk H. unfold h_sub_cancel in H. destruct (subs s !! id) as [sb|] eqn:Hsb; [|discriminate].
  destruct (k_sub _ Hk _ _ Hsb) as (E1 & _).
  apply rbind_ok in H as (u & Hact & H). apply ensure_ok, bool_decide_eq_true in Hact.
  apply rbind_ok in H as (u2 & _ & H). apply rbind_ok in H as (s2 & Hp & H).
  apply sub_pending_hook_keeps in Hp.
  assert (E2 : subs s2 = subs s) by keeps_solve.
  eapply sub_evo_trans; [apply (sub_evo_frame s s2); keeps_solve|].
  eapply sub_evo_trans; [apply (evo_sub_make_pending s2 sb); [rewrite E2, E1; exact Hsb|exact Hact]|].
  eapply evo_detach_payout; [| |exact H]; [|discriminate].
  apply kinv_sub_make_pending; [eapply kinv_sub_keeps; [exact Hp|reflexivity|]|rewrite E2, E1; exact Hsb].
  eapply kinv_sub_frame; [..|exact Hk]; reflexivity.
Qed.

Lemma evo_payout_step s e s' : kinv_sub s -> payout_step s e = Ok s' -> sub_evo s s'.
Proof.
  intros [A B C D] H. unfold payout_step in H. destruct (payouts s !! e.2) as [po|] eqn:Hp; [|discriminate].
  destruct (C _ _ Hp) as (E1 & E2).
  res_inv; pose_keeps; goal_cases; split; simpl; to_base s; try reflexivity.
  all: try solve [intros id0 y' Hl; exists y'; split; auto using sub_same_refl].
  all: intros id0 y' Hl; lk_cases; [|exists y'; split; auto using pay_same_refl];
       exists po; (split; [rewrite E1; exact Hp|]); repeat split; simpl; auto; lia.
Qed.

Lemma evo_sub_expire_one s e s' : kinv_sub s -> sub_expire_one s e = Ok s' -> sub_evo s s'.
Proof.
  intros Hk H. unfold sub_expire_one in H. destruct (subs s !! e.2) as [sb|] eqn:Hsb; [|discriminate].
  destruct (k_sub _ Hk _ _ Hsb) as (E1 & _).
  case_bool_decide as Hact.
  - apply rbind_ok in H as (s1 & Hp & H). apply must_ok, sub_pending_hook_keeps in Hp.
    assert (E2 : subs s1 = subs s) by keeps_solve.
    eapply sub_evo_trans; [apply (sub_evo_frame s s1); keeps_solve|].
    eapply sub_evo_trans; [apply (evo_sub_make_pending s1 sb); [rewrite E2, E1; exact Hsb|exact Hact]|].
    eapply evo_detach_payout; [| |exact H]; [|discriminate].
    apply kinv_sub_make_pending; [eapply kinv_sub_keeps; [exact Hp|reflexivity|]|rewrite E2, E1; exact Hsb].
    eapply kinv_sub_frame; [..|exact Hk]; reflexivity.
  - apply rbind_ok in H as (s1 & Hr & H). apply sub_refund_keeps in Hr.
    pose proof (sub_cleanup_keeps s1 sb) as Hc.
    assert (F1 : subs (sub_cleanup s1 sb) = subs s /\ payouts (sub_cleanup s1 sb) = payouts s /\ sub_count (sub_cleanup s1 sb) = sub_count s).
    { assert (G : forall sx, subs (sub_cleanup sx sb) = subs sx /\ payouts (sub_cleanup sx sb) = payouts sx /\ sub_count (sub_cleanup sx sb) = sub_count sx).
      { intros sx. unfold sub_cleanup. destruct (sb_kind sb); [auto|].
        apply (fold_left_inv (fun y => subs y = subs sx /\ payouts y = payouts sx /\ sub_count y = sub_count sx)); [|auto].
        intros y al (Y1 & Y2 & Y3). auto. }
      destruct (G s1) as (G1 & G2 & G3). rewrite G1, G2, G3. keeps_solve. }
    destruct F1 as (F1 & F2 & F3).
    unfold sub_delete_payout in H. repeat case_match; res_inv; split; simpl; rewrite ?F1, ?F2, ?F3; try reflexivity.
    all: try solve [intros id0 y' Hl; lk_cases; exists y'; split; auto using sub_same_refl, pay_same_refl].
Qed.

(** * sessions: per function *)

Lemma evo_session_make_pending s x :
  sessions s !! ss_id x = Some x -> ss_status x = SActive -> sess_evo s (session_make_pending s x).
Proof.
  intros Hx Hst. unfold session_make_pending. split; simpl; [reflexivity|].
  intros id0 y' Hl. lk_cases; [|exists y'; split; auto using sess_same_refl].
  exists x. split; [exact Hx|]. repeat split; simpl; auto. right. auto.
Qed.

Lemma evo_sub_pending_hook s id s' : kinv_sess s -> sub_pending_hook s id = Ok s' -> sess_evo s s'.
Proof.
  intros Hk H. unfold sub_pending_hook in H.
  assert (G : kinv_sess s' /\ sess_evo s s').
  { eapply (rfold_inv (fun y => kinv_sess y /\ sess_evo s y)); [|split; [exact Hk|apply sess_evo_refl]|exact H].
    intros a sid b [Ha Hev] Hstep. cbv beta in Hstep. destruct (sessions a !! sid) as [x|] eqn:Hx; [|discriminate].
    destruct (k_ss _ Ha _ _ Hx) as (E1 & _).
    case_bool_decide as Hact; injection Hstep as <-; [|auto]. split.
    - apply kinv_session_make_pending; [exact Ha|rewrite E1; exact Hx].
    - eapply sess_evo_trans; [exact Hev|]. apply evo_session_make_pending; [rewrite E1; exact Hx|exact Hact]. }
  apply G.
Qed.

Lemma evo_h_sess_start s from id nd s' : kinv_sess s -> h_sess_start s from id nd = Ok s' -> sess_new s s'.
Proof.
  intros [A B] H. unfold h_sess_start in H.
  assert (Hfresh : sessions s !! (sess_count s + 1) = None).
  { destruct (sessions s !! (sess_count s + 1)) eqn:E; [|reflexivity]. destruct (A _ _ E) as (_ & ? & _). lia. }
  res_inv; split; simpl; try reflexivity.
  all: try (eexists; rewrite lookup_insert; repeat split; reflexivity).
  all: try (intros id0 y' Hne Hl; rewrite ?lookup_insert_ne in Hl by congruence; exact Hl).
  all: try (intros id0 y Hl Hne; rewrite lookup_insert_ne by congruence; exact Hl).
Qed.

Lemma evo_h_sess_update s from id u d du ok s' : kinv_sess s -> h_sess_update s from id u d du ok = Ok s' -> sess_evo s s'.
Proof.
  intros [A B] H. unfold h_sess_update in H. destruct (sessions s !! id) as [x|] eqn:Hx; [|discriminate].
  destruct (A _ _ Hx) as (E1 & E2 & E3).
  res_inv; split; simpl; try reflexivity.
  all: intros id0 y' Hl; lk_cases; [|exists y'; split; auto using sess_same_refl];
       match goal with Hs : sessions _ !! _ = Some ?x0 |- _ => exists x0; (split; [exact Hs|]) end;
       repeat split; simpl; auto using fwd_refl.
Qed.

Lemma evo_h_sess_end s from id s' : kinv_sess s -> h_sess_end s from id = Ok s' -> sess_evo s s'.
Proof.
  intros Hk H. unfold h_sess_end in H. destruct (sessions s !! id) as [x|] eqn:Hx; [|discriminate].
  destruct (k_ss _ Hk _ _ Hx) as (E1 & _).
  apply rbind_ok in H as (u & Hact & H). apply ensure_ok, bool_decide_eq_true in Hact.
  apply rbind_ok in H as (u2 & _ & H). injection H as <-.
  apply evo_session_make_pending; [rewrite E1; exact Hx|exact Hact].
Qed.

Lemma evo_session_expire_one s e s' : kinv_sess s -> session_expire_one s e = Ok s' -> sess_evo s s'.
Proof.
  intros [A B] H. unfold session_expire_one in H. destruct (sessions s !! e.2) as [x|] eqn:Hx; [|discriminate].
  destruct (A _ _ Hx) as (E1 & E2 & E3).
  case_bool_decide as Hact.
  - injection H as <-. split; simpl; [reflexivity|].
    intros id0 y' Hl. lk_cases; [|exists y'; split; auto using sess_same_refl].
    exists x. split; [rewrite E1; exact Hx|]. repeat split; simpl; auto. right. auto.
  - res_inv. match goal with Hh : session_inactive_hook _ _ _ _ _ = Ok _ |- _ => apply session_inactive_hook_keeps in Hh end.
    split; simpl; to_base s; [reflexivity|].
    intros id0 y' Hl. lk_cases. exists y'. split; auto using sess_same_refl.
Qed.

(** * one operation *)

Ltac handler_keeps H :=
  first [ apply h_prov_register_keeps in H | apply h_prov_update_keeps in H | apply h_node_register_keeps in H
        | apply h_node_update_details_keeps in H | apply h_node_update_status_keeps in H | apply h_node_subscribe_keeps in H
        | apply h_plan_create_keeps in H | apply h_plan_update_status_keeps in H | apply h_plan_link_keeps in H
        | apply h_plan_unlink_keeps in H | apply h_plan_subscribe_keeps in H | apply h_sub_cancel_keeps in H
        | apply h_sub_allocate_keeps in H | apply h_sess_start_keeps in H | apply h_sess_update_keeps in H
        | apply h_sess_end_keeps in H | apply h_swap_keeps in H ].

Lemma sess_step_cancel s from id s' : kinv s -> h_sub_cancel s from id = Ok s' -> sess_evo s s'.
Proof.
  intros Hi H. unfold h_sub_cancel in H. destruct (subs s !! id) as [sb|] eqn:Hsb; [|discriminate].
  apply rbind_ok in H as (u & _ & H). apply rbind_ok in H as (u2 & _ & H). apply rbind_ok in H as (s2 & Hp & H).
  pose proof (sub_make_pending_keeps s2 sb) as Hmp. apply detach_payout_keeps in H; [|discriminate].
  eapply sess_evo_trans; [|apply (sess_evo_frame s2 s'); keeps_solve].
  eapply sess_evo_trans; [|eapply evo_sub_pending_hook; [|exact Hp]; eapply kinv_sess_frame; [..|apply (ki_sess _ Hi)]; reflexivity].
  apply sess_evo_frame; reflexivity.
Qed.

Lemma sess_step_handle s m s' : kinv s -> handle s m = Ok s' -> sess_evo s s' \/ sess_new s s'.
Proof.
  intros Hi H. destruct m; simpl in H.
  all: try (left; eapply sess_evo_keeps; [handler_keeps H; exact H|reflexivity]).
  - left. eapply sess_step_cancel; eauto.
  - right. eapply evo_h_sess_start; [apply Hi|exact H].
  - left. eapply evo_h_sess_update; [apply Hi|exact H].
  - left. eapply evo_h_sess_end; [apply Hi|exact H].
Qed.

Lemma sub_step_handle s m s' : kinv s -> handle s m = Ok s' -> sub_evo s s' \/ sub_new s s'.
Proof.
  intros Hi H. destruct m; simpl in H.
  all: try (left; eapply sub_evo_keeps; [handler_keeps H; exact H|reflexivity]).
  - right. unfold h_node_subscribe in H. res_inv.
    match goal with Hc : create_sub_for_node _ _ _ _ _ _ = Ok _ |- _ => apply (evo_create_sub_for_node _ _ _ _ _ _ _ _ (ki_sub _ Hi)) in Hc; destruct Hc as [A B C D E] end.
    split; simpl; auto.
  - right. unfold h_plan_subscribe in H. res_inv.
    match goal with Hc : create_sub_for_plan _ _ _ _ = Ok _ |- _ => apply (evo_create_sub_for_plan _ _ _ _ _ _ (ki_sub _ Hi)) in Hc; destruct Hc as [A B C D E] end.
    split; simpl; auto.
  - left. eapply evo_h_sub_cancel; [apply Hi|exact H].
  - left. unfold h_sub_allocate in H. apply sub_evo_frame; res_inv; reflexivity.
Qed.

Lemma sub_evo_rfold {A} (f : state -> A -> res state) l : forall s s',
  kinv_sub s -> (forall a x b, kinv_sub a -> f a x = Ok b -> kinv_sub b /\ sub_evo a b) ->
  rfold f l s = Ok s' -> kinv_sub s' /\ sub_evo s s'.
Proof.
  intros s s' Hk Hf H. eapply (rfold_inv (fun y => kinv_sub y /\ sub_evo s y)); [|split; [exact Hk|apply sub_evo_refl]|exact H].
  intros a x b [Ha Hev] Hstep. destruct (Hf _ _ _ Ha Hstep) as [Hb Hab]. split; [exact Hb|eapply sub_evo_trans; eauto].
Qed.

Lemma sess_evo_rfold {A} (f : state -> A -> res state) l : forall s s',
  kinv s -> (forall a x b, kinv a -> f a x = Ok b -> kinv b /\ sess_evo a b /\ sub_evo a b) ->
  rfold f l s = Ok s' -> kinv s' /\ sess_evo s s' /\ sub_evo s s'.
Proof.
  intros s s' Hk Hf H.
  eapply (rfold_inv (fun y => kinv y /\ sess_evo s y /\ sub_evo s y)); [|split; [exact Hk|split; [apply sess_evo_refl|apply sub_evo_refl]]|exact H].
  intros a x b (Ha & Hev1 & Hev2) Hstep. destruct (Hf _ _ _ Ha Hstep) as (Hb & Hab1 & Hab2).
  split; [exact Hb|split; [eapply sess_evo_trans|eapply sub_evo_trans]; eauto].
Qed.

Lemma evo_session_expire_one_sub s e s' : kinv s -> session_expire_one s e = Ok s' -> sub_evo s s'.
Proof.
  intros Hi H. unfold session_expire_one in H. destruct (sessions s !! e.2) as [x|] eqn:Hx; [|discriminate].
  case_bool_decide.
  - injection H as <-. apply sub_evo_frame; reflexivity.
  - res_inv. match goal with Hh : session_inactive_hook _ _ _ _ _ = Ok _ |- _ => unfold session_inactive_hook in Hh end.
    apply sub_evo_frame; simpl; res_inv; pose_keeps; simpl; try reflexivity; keeps_solve.
Qed.

Lemma evo_sub_expire_one_sess s e s' : kinv s -> sub_expire_one s e = Ok s' -> sess_evo s s'.
Proof.
  intros Hi H. unfold sub_expire_one in H. destruct (subs s !! e.2) as [sb|] eqn:Hsb; [|discriminate].
  case_bool_decide.
  - apply rbind_ok in H as (s1 & Hp & H). apply must_ok in Hp.
    pose proof (sub_make_pending_keeps s1 sb) as Hmp. apply detach_payout_keeps in H; [|discriminate].
    eapply sess_evo_trans; [|apply (sess_evo_frame s1 s'); keeps_solve].
    eapply sess_evo_trans; [|eapply evo_sub_pending_hook; [|exact Hp]; eapply kinv_sess_frame; [..|apply (ki_sess _ Hi)]; reflexivity].
    apply sess_evo_frame; reflexivity.
  - apply rbind_ok in H as (s1 & Hr & H). apply sub_refund_keeps in Hr. apply sub_delete_payout_keeps in H.
    pose proof (sub_cleanup_keeps s1 sb) as Hc. apply sess_evo_frame; keeps_solve.
Qed.

Lemma sub_evo_clear s x : sub_evo (clear_events s) x -> sub_evo s x.
Proof. intros [A B C]. split; [exact A|exact B|exact C]. Qed.
Lemma sess_evo_clear s x : sess_evo (clear_events s) x -> sess_evo s x.
Proof. intros [A B]. split; [exact A|exact B]. Qed.
Lemma sub_new_clear s x : sub_new (clear_events s) x -> sub_new s x.
Proof. intros [A B C D E]. split; [exact A|exact B|exact C|exact D|exact E]. Qed.
Lemma sess_new_clear s x : sess_new (clear_events s) x -> sess_new s x.
Proof. intros [A B C D]. split; [exact A|exact B|exact C|exact D]. Qed.

Theorem evo_step s o s' :
  kinv s -> step s o = OOk s' -> (sub_evo s s' \/ sub_new s s') /\ (sess_evo s s' \/ sess_new s s').
Proof.
  intros Hi. unfold step. destruct o.
  - destruct (begin_block _) as [x| |] eqn:H; try discriminate. intros [= <-].
    unfold begin_block in H. apply rbind_ok in H as (s1 & Hm & H). apply mint_begin_block_keeps in Hm.
    split; [left|left; eapply (sess_evo_frame s); apply sub_begin_block_keeps in H; keeps_solve].
    eapply sub_evo_trans; [apply (sub_evo_frame s s1); keeps_solve|].
    unfold sub_begin_block in H. eapply sub_evo_rfold; [| |exact H].
    + eapply kinv_sub_frame; [..|apply (ki_sub _ Hi)]; keeps_solve.
    + intros a0 e0 b0 Ha Hs. split; [eapply kinv_payout_step|eapply evo_payout_step]; eauto.
  - unfold run_tx. destruct (validate_basic m); [|discriminate].
    destruct (handle _ m) as [x| |] eqn:H; try discriminate. intros [= <-].
    assert (Hi0 : kinv (clear_events s)) by (apply kinv_clear; exact Hi).
    destruct (sub_step_handle _ _ _ Hi0 H) as [A|A]; destruct (sess_step_handle _ _ _ Hi0 H) as [B|B]; split;
      auto using sub_evo_clear, sess_evo_clear, sub_new_clear, sess_new_clear.
  - destruct (forallb pchange_valid _); [|discriminate]. intros [= <-]. split; left.
    + apply sub_evo_frame; apply (fold_left_inv (fun y => sub_count y = sub_count s /\ subs y = subs s /\ payouts y = payouts s));
        try (intros y c Hy; pose proof (apply_pchange_keeps y c); keeps_solve); repeat split; reflexivity.
    + apply sess_evo_frame; apply (fold_left_inv (fun y => sess_count y = sess_count s /\ sessions y = sessions s));
        try (intros y c Hy; pose proof (apply_pchange_keeps y c); keeps_solve); repeat split; reflexivity.
  - destruct (end_block _) as [se| |] eqn:H; try discriminate. intros [= <-].
    unfold end_block in H. apply rbind_ok in H as (s1 & H1 & H). apply rbind_ok in H as (s2 & H2 & H3).
    assert (Hi0 : kinv (clear_events s)) by (apply kinv_clear; exact Hi).
    pose proof (kinv_node_end_block _ _ Hi0 H1) as Hi1. apply node_end_block_keeps in H1.
    assert (G2 : kinv s2 /\ sess_evo s1 s2 /\ sub_evo s1 s2).
    { unfold session_end_block in H2. eapply sess_evo_rfold; [exact Hi1| |exact H2].
      intros a0 e0 b0 Ha Hs. split; [eapply kinv_session_expire_one; eauto|].
      split; [eapply evo_session_expire_one; [apply Ha|exact Hs]|eapply evo_session_expire_one_sub; eauto]. }
    destruct G2 as (Hi2 & E2a & E2b).
    assert (G3 : kinv se /\ sess_evo s2 se /\ sub_evo s2 se).
    { unfold sub_end_block in H3. eapply sess_evo_rfold; [exact Hi2| |exact H3].
      intros a0 e0 b0 Ha Hs. split; [eapply kinv_sub_expire_one; eauto|].
      split; [eapply evo_sub_expire_one_sess; eauto|eapply evo_sub_expire_one; [apply Ha|exact Hs]]. }
    destruct G3 as (Hi3 & E3a & E3b).
    split; left.
    + eapply sub_evo_trans; [apply (sub_evo_frame s s1); keeps_solve|].
      eapply sub_evo_trans; [exact E2b|]. eapply sub_evo_trans; [exact E3b|]. apply sub_evo_frame; reflexivity.
    + eapply sess_evo_trans; [apply (sess_evo_frame s s1); keeps_solve|].
      eapply sess_evo_trans; [exact E2a|]. eapply sess_evo_trans; [exact E3a|]. apply sess_evo_frame; reflexivity.
Qed.

(** * plans: created with the next identifier, never removed, never re-identified *)

Definition plan_evo (s s' : state) : Prop :=
  plan_count s' = plan_count s /\
  (forall id p', get_plan s' id = Some p' -> exists p, get_plan s id = Some p /\ plan_same p p') /\
  (forall id p, get_plan s id = Some p -> exists p', get_plan s' id = Some p' /\ plan_same p p').
Definition plan_new (s s' : state) : Prop :=
  plan_count s' = plan_count s + 1 /\
  (exists p, get_plan s' (plan_count s + 1) = Some p /\ pl_id p = plan_count s + 1 /\ get_plan s (plan_count s + 1) = None) /\
  (forall id, id <> plan_count s + 1 -> get_plan s' id = get_plan s id).

Lemma plan_evo_frame s s' :
  plan_count s' = plan_count s -> plan_act s' = plan_act s -> plan_inact s' = plan_inact s -> plan_evo s s'.
Proof.
  intros E1 E2 E3. unfold plan_evo, get_plan. rewrite E1, E2, E3. split; [reflexivity|].
  split; intros id p H; exists p; split; auto using plan_same_refl.
Qed.

Lemma plan_evo_keeps T s s' : keeps T s s' -> touched GPl T = false -> plan_evo s s'.
Proof.
  intros (_ & _ & _ & _ & _ & K & _) Ht. rewrite Ht in K. simpl in K. apply plan_evo_frame; tauto.
Qed.

Lemma evo_h_plan_create s from du g pr s' : kinv_plan s -> h_plan_create s from du g pr = Ok s' -> plan_new s s'.
Proof.
  intros [A B D C] H. unfold h_plan_create in H. res_inv.
  match goal with Hs : set_plan _ _ = Ok _ |- _ => unfold set_plan in Hs; simpl in Hs; injection Hs as <- end.
  assert (F1 : plan_act s !! (plan_count s + 1) = None).
  { destruct (plan_act s !! (plan_count s + 1)) eqn:E; [|reflexivity]. destruct (A _ _ E) as (_ & _ & ?). lia. }
  assert (F2 : plan_inact s !! (plan_count s + 1) = None).
  { destruct (plan_inact s !! (plan_count s + 1)) eqn:E; [|reflexivity]. destruct (B _ _ E) as (_ & _ & ?). lia. }
  unfold plan_new, get_plan. simpl. split; [reflexivity|]. split.
  - eexists. rewrite F1, lookup_insert. split; [reflexivity|]. split; [reflexivity|]. exact F2.
  - intros id0 Hne. rewrite lookup_insert_ne by congruence. reflexivity.
Qed.

Lemma evo_h_plan_update_status s from id st s' : kinv_plan s -> h_plan_update_status s from id st = Ok s' -> plan_evo s s'.
Proof.
  intros Hk H. unfold h_plan_update_status in H. destruct (get_plan s id) as [p|] eqn:Hg; [|discriminate].
  destruct (get_plan_kinv _ _ _ Hk Hg) as (Ea & Hr & Hcase).
  apply rbind_ok in H as (u & _ & H). apply rbind_ok in H as (s3 & Hset & H). injection H as <-.
  assert (Hst : st = SActive \/ st = SInactive).
  { unfold set_plan in Hset. simpl in Hset. destruct st; try discriminate; auto. }
  assert (G : forall id0, get_plan s3 id0 = if bool_decide (id0 = id) then Some (p <| pl_status := st |> <| pl_status_at := now s |>) else get_plan s id0).
  { intros id0. unfold set_plan in Hset. simpl in Hset. unfold get_plan.
    destruct Hcase as [(E & E1 & E2)|(E & E1 & E2)]; destruct Hst as [-> | ->]; rewrite E, Ea in Hset;
      repeat (case_bool_decide; try (exfalso; intuition congruence)); injection Hset as <-; simpl; subst;
      rewrite ?lookup_insert, ?lookup_delete, ?lookup_insert_ne, ?lookup_delete_ne by congruence; rewrite ?E1, ?E2; try reflexivity.
    all: destruct (plan_act s !! id0); reflexivity. }
  assert (Hc : plan_count s3 = plan_count s).
  { unfold set_plan in Hset. simpl in Hset. destruct st; try discriminate; injection Hset as <-; repeat case_bool_decide; reflexivity. }
  unfold plan_evo. simpl. split; [exact Hc|]. split.
  - intros id0 p' Hp'. change (get_plan s3 id0 = Some p') in Hp'. rewrite G in Hp'.
    destruct (decide (id0 = id)) as [->|Hne].
    + rewrite bool_decide_eq_true_2 in Hp' by reflexivity. injection Hp' as <-.
      exists p. split; [exact Hg|]. repeat split; reflexivity.
    + rewrite bool_decide_eq_false_2 in Hp' by exact Hne. exists p'. split; auto using plan_same_refl.
  - intros id0 p0 Hp0. change (exists p', get_plan s3 id0 = Some p' /\ plan_same p0 p'). rewrite G.
    destruct (decide (id0 = id)) as [->|Hne].
    + rewrite bool_decide_eq_true_2 by reflexivity. rewrite Hg in Hp0. injection Hp0 as <-.
      eexists. split; [reflexivity|]. repeat split; reflexivity.
    + rewrite bool_decide_eq_false_2 by exact Hne. exists p0. split; auto using plan_same_refl.
Qed.

Theorem plan_step s o s' : kinv s -> step s o = OOk s' -> plan_evo s s' \/ plan_new s s'.
Proof.
  intros Hi. unfold step. destruct o.
  - destruct (begin_block _) as [x| |] eqn:H; try discriminate. intros [= <-]. left.
    apply begin_block_keeps in H. apply plan_evo_frame; keeps_solve.
  - unfold run_tx. destruct (validate_basic m); [|discriminate].
    destruct (handle _ m) as [x| |] eqn:H; try discriminate. intros [= <-].
    destruct m; simpl in H.
    all: try (left; assert (Hk : plan_evo (clear_events s) x) by (eapply plan_evo_keeps; [handler_keeps H; exact H|reflexivity]); exact Hk).
    + right. apply (evo_h_plan_create (clear_events s)) in H; [exact H|]. eapply kinv_plan_frame; [..|apply (ki_plan _ Hi)]; reflexivity.
    + left. apply (evo_h_plan_update_status (clear_events s)) in H; [exact H|]. eapply kinv_plan_frame; [..|apply (ki_plan _ Hi)]; reflexivity.
    + left. apply plan_evo_frame; unfold h_plan_link in H; res_inv; reflexivity.
    + left. apply plan_evo_frame; unfold h_plan_unlink in H; res_inv; reflexivity.
  - destruct (forallb pchange_valid _); [|discriminate]. intros [= <-]. left.
    apply plan_evo_frame; apply (fold_left_inv (fun y => plan_count y = plan_count s /\ plan_act y = plan_act s /\ plan_inact y = plan_inact s));
      try (intros y c Hy; pose proof (apply_pchange_keeps y c); keeps_solve); repeat split; reflexivity.
  - destruct (end_block _) as [se| |] eqn:H; try discriminate. intros [= <-]. left.
    apply end_block_keeps in H. apply plan_evo_frame; keeps_solve.
Qed.

(** * consequences used by C18 *)

(* an identifier at or below the counter that is not in use is never used again *)
Lemma sub_id_not_reissued s o s' id :
  kinv s -> step s o = OOk s' -> id <= sub_count s -> subs s !! id = None -> subs s' !! id = None /\ id <= sub_count s'.
Proof.
  intros Hi H Hle Hn. destruct (proj1 (evo_step _ _ _ Hi H)) as [[A B C]|[A B C D E]].
  - split; [|lia]. destruct (subs s' !! id) as [x'|] eqn:E; [|reflexivity]. destruct (B _ _ E) as (x & Hx & _). congruence.
  - split; [|lia]. destruct (subs s' !! id) as [x'|] eqn:E'; [|reflexivity]. rewrite (C id x') in Hn; [discriminate|lia|exact E'].
Qed.

Lemma sess_id_not_reissued s o s' id :
  kinv s -> step s o = OOk s' -> id <= sess_count s -> sessions s !! id = None -> sessions s' !! id = None /\ id <= sess_count s'.
Proof.
  intros Hi H Hle Hn. destruct (proj2 (evo_step _ _ _ Hi H)) as [[A B]|[A B C D]].
  - split; [|lia]. destruct (sessions s' !! id) as [x'|] eqn:E; [|reflexivity]. destruct (B _ _ E) as (x & Hx & _). congruence.
  - split; [|lia]. destruct (sessions s' !! id) as [x'|] eqn:E'; [|reflexivity]. rewrite (C id x') in Hn; [discriminate|lia|exact E'].
Qed.

Theorem ids_never_reissued ops : forall s i s' id,
  kinv s -> run_from s ops i = RunOk s' ->
  (id <= sub_count s -> subs s !! id = None -> subs s' !! id = None) /\
  (id <= sess_count s -> sessions s !! id = None -> sessions s' !! id = None).
Proof.
  induction ops as [|o ops IH]; simpl; intros s i s' id Hi H.
  - injection H as <-. auto.
  - destruct (step s o) as [s1| |] eqn:E; try discriminate.
    + pose proof (kinv_step _ _ _ Hi E) as Hi1. destruct (IH _ _ _ id Hi1 H) as [I1 I2]. split; intros Hle Hn.
      * destruct (sub_id_not_reissued _ _ _ id Hi E Hle Hn). auto.
      * destruct (sess_id_not_reissued _ _ _ id Hi E Hle Hn). auto.
    + destruct (IH _ _ _ id (kinv_clear _ Hi) H) as [I1 I2]. split; auto.
Qed.
