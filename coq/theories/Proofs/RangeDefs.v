(* C03: the value-range and recipient invariants the block hooks rely on ([range_inv]), and the
   well-formedness of operations for the no-halt theorem.  Definitions only. *)
From Hub Require Import Base.Prelude Base.Arith Model.Types Model.Keeper Model.Handlers Model.Hooks Model.Step.
From Hub Require Export Model.Domain.
From Hub Require Import Proofs.Tactics Proofs.Frames Proofs.Money Proofs.KeysInv Proofs.InvDefs.

(* BIG = 2^250, the supply bound of DESIGN §5.1, is defined in Model/Domain.v *)

Definition not_blocked (s : state) (a : addr) : Prop := a ∉ c_blocked (cfg s).

Record range_inv (s : state) : Prop := {
  (* every escrowed deposit is below the supply bound; subscriber and node can receive coins *)
  rg_sub : forall id sb, subs s !! id = Some sb ->
           not_blocked s (sb_addr sb) /\
           match sb_kind sb with
           | KNode nd g h dep => dep.2 < BIG /\ not_blocked s nd
           | KPlan _ _ => True
           end;
  (* grants fit a 256-bit integer *)
  rg_alloc : forall k al, allocs s !! k = Some al -> 0 <= al_granted al < MAXINT;
  (* reported bandwidth: non-negative, and the sum fits (ValidateBasic of MsgUpdateDetails, after the fix of F2) *)
  rg_sess : forall sid x, sessions s !! sid = Some x ->
            0 <= ss_up x /\ 0 <= ss_down x /\ ss_up x + ss_down x < MAXINT /\ not_blocked s (ss_node x);
  (* registered nodes are ordinary accounts *)
  rg_node_act : forall a n, node_act s !! a = Some n -> not_blocked s (nd_addr n);
  rg_node_inact : forall a n, node_inact s !! a = Some n -> not_blocked s (nd_addr n);
  (* every scheduled inflation entry passes the SDK's parameter validation (custommint genesis validation) *)
  rg_mint : forall t it, inflations s !! t = Some it -> mint_params_valid (inf_max it) (inf_min it) (inf_rate it) = true }.

(* operations of the no-halt theorem: life-cycle well-formedness (DESIGN §5.3/§5.4), module accounts never
   originate transactions (§5.5), and no sender holds 2^250 or more of a denomination (§5.1) *)
Definition wf_op_c03 (s : state) (o : op) : Prop :=
  wf_op_life s o /\ wf_op s o /\
  match o with
  | OTx m => forall d, bal s (ta_bytes (msg_from m)) d < BIG
  | _ => True
  end.

Definition wf_genesis_c03 (g : genesis) : Prop :=
  wf_genesis g /\ par_ok (g_params g) /\
  forall it, it ∈ g_inflations g -> mint_params_valid (inf_max it) (inf_min it) (inf_rate it) = true.
