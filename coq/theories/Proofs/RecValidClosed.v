(* C12: for every state reachable inside the configuration domain the exported genesis passes every module's Validate,
   and re-imports (GenesisReach.v) to the same records and indices. *)
From Hub Require Import Base.Prelude Base.Arith Model.Types Model.Keeper Model.Handlers Model.Hooks Model.Step Model.Genesis.
From Hub Require Import Proofs.Tactics Proofs.Frames Proofs.KeysInv Proofs.IndexAll Proofs.Link Proofs.GenesisRT Proofs.GenesisReach Proofs.RecValid.

Definition wf_genesis_rec (g : genesis) : Prop :=
  tzero < g_time g /\ params_valid (g_params g) /\ forall it, it ∈ g_inflations g -> validate_inflation it = true.

Lemma rec_init g : wf_genesis_rec g -> rec_inv (init g).
Proof.
  intros (Ht & Hp & Hinf).
  assert (E : now (init g) = g_time g /\ pars (init g) = g_params g /\ deposits (init g) = ∅ /\ prov_act (init g) = ∅ /\ prov_inact (init g) = ∅ /\
              node_act (init g) = ∅ /\ node_inact (init g) = ∅ /\ plan_act (init g) = ∅ /\ plan_inact (init g) = ∅ /\ sessions (init g) = ∅ /\
              swaps (init g) = ∅ /\ inflations (init g) = list_to_map (map (fun i => (inf_ts i, i)) (g_inflations g))).
  { unfold init. destruct (g_mint g) as [[[mx mn] rc] inf]. simpl. split; [reflexivity|].
    apply (fold_left_inv (fun x => pars x = g_params g /\ deposits x = ∅ /\ prov_act x = ∅ /\ prov_inact x = ∅ /\ node_act x = ∅ /\ node_inact x = ∅ /\
                                   plan_act x = ∅ /\ plan_inact x = ∅ /\ sessions x = ∅ /\ swaps x = ∅ /\ _ = _)); [|repeat split; reflexivity].
    intros x [b [d v]] Hx. exact Hx. }
  destruct E as (E0 & E1 & E2 & E3 & E4 & E5 & E6 & E7 & E8 & E9 & E10 & E11).
  split.
  - rewrite E0. exact Ht.
  - intros a c. rewrite E2, lookup_empty. discriminate.
  - intros p [[a H]|[a H]]; [rewrite E3 in H|rewrite E4 in H]; rewrite lookup_empty in H; discriminate.
  - intros p [[a H]|[a H]]; [rewrite E5 in H|rewrite E6 in H]; rewrite lookup_empty in H; discriminate.
  - intros p [[a H]|[a H]]; [rewrite E7 in H|rewrite E8 in H]; rewrite lookup_empty in H; discriminate.
  - intros id x. rewrite E9, lookup_empty. discriminate.
  - intros h w. rewrite E10, lookup_empty. discriminate.
  - intros t i. rewrite E11. intros Hl. apply elem_of_list_to_map_2, elem_of_list_fmap in Hl as (x & Heq & Hin). injection Heq as -> ->. apply Hinf. exact Hin.
  - rewrite E1. exact Hp.
Qed.

Lemma rec_clear s : rec_inv s -> rec_inv (clear_events s).
Proof. intros [T D P N L S W I Q]. split; assumption. Qed.

Theorem rec_run ops : forall s i s', kinv s -> rec_inv s -> wf_hist wf_op_rec s ops -> run_from s ops i = RunOk s' -> rec_inv s'.
Proof.
  induction ops as [|o ops IH]; simpl; intros s i s' Hi Hr Hwf H.
  - injection H as <-. exact Hr.
  - destruct Hwf as [Hw1 Hw2]. destruct (step s o) as [s1| |] eqn:E; try discriminate.
    + eapply IH; [eapply kinv_step; eauto|eapply rec_step; eauto|exact Hw2|exact H].
    + eapply IH; [apply kinv_clear; exact Hi|apply rec_clear; exact Hr|exact Hw2|exact H].
Qed.

(* The exported genesis of every state reachable inside the domain is VALID (every module's section passes its Validate)
   and the round trip is defined; what it re-imports to is GenesisReach.reachable_roundtrip. *)
Theorem reachable_export_valid g ops s :
  wf_genesis_rec g -> wf_hist wf_op_rec (init g) ops -> run (init g) ops = RunOk s ->
  exists v s', roundtrip s = Ok (v, s') /\ verdict_ok v = true.
Proof.
  intros Hg Hwf Hrun.
  pose proof (rec_run ops (init g) 0%nat s (kinv_init g) (rec_init g Hg) Hwf Hrun) as [T D P N L S W I Q].
  pose proof (reachable_genesis_defined g ops s Hrun) as Hd.
  destruct (roundtrip_defined s Hd) as (v & s' & Hr). exists v, s'. split; [exact Hr|].
  destruct Q as (Q1 & Q2 & Q3 & Q4 & Q5).
  pose proof (store_inv_run ops (init g) 0%nat s (kinv_init g) (store_inv_init g) Hrun) as Hst.
  destruct (partial_deposit s v s' Hd Hr) as [_ V1].
  destruct (partial_provider s v s' Hd Hr) as (_ & _ & V2).
  destruct (partial_node s v s' Hd Hr (reach_node_q g ops s Hrun)) as (_ & _ & _ & V3).
  destruct (partial_plan s v s' Hd Hr (reach_plan_prov g ops s Hrun) (reach_plan_count g ops s Hrun)) as (_ & _ & _ & _ & _ & V4).
  destruct (partial_session s v s' Hd Hr (reach_sess_store g ops s Hrun) (reach_sess_index g ops s Hrun)) as (_ & _ & _ & _ & _ & _ & _ & _ & V5).
  destruct (partial_swap s v s' Hd Hr (si_swaps _ Hst)) as [_ V6].
  destruct (partial_mint s v s' Hd Hr (si_infl _ Hst)) as (_ & _ & _ & _ & _ & V7).
  destruct (partial_params s v s' Hd Hr) as (_ & _ & V8).
  unfold verdict_ok. rewrite (V1 D), (V2 P Q1), (V3 N Q2), (V4 L), (V8 Q3), (V5 S Q4), (V6 W Q5), (V7 I). reflexivity.
Qed.
